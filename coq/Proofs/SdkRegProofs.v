(* SdkRegProofs.v — C14: the register pool of the builder model.
   active_restored / active_reachable / peak_bound / lower_no_oor / lower_frame. *)
From Coq Require Import ZArith List Bool Arith Lia.
From NQ Require Import Sdk.SdkAst Sdk.Target Sdk.MemMgr Sdk.Lower.
Import ListNotations.
Local Open Scope nat_scope.

(* ------------------------------------------------------------------ the bit vector *)
Lemma first_false_spec : forall l k i,
  first_false l k = Some i -> k <= i /\ nth_error l (i - k) = Some false.
Proof.
  induction l as [|b l IH]; intros k i H; simpl in H; [discriminate|].
  destruct b.
  - apply IH in H. destruct H as [H1 H2]. split; [lia|].
    replace (i - k) with (S (i - S k)) by lia. exact H2.
  - inversion H; subst. split; [lia|]. replace (i - i) with 0 by lia. reflexivity.
Qed.

Lemma first_false_none : forall l k, first_false l k = None -> count_true l = List.length l.
Proof.
  induction l as [|b l IH]; intros k H; simpl in *; [reflexivity|].
  destruct b; [|discriminate]. rewrite (IH _ H). reflexivity.
Qed.

Lemma count_le_length : forall l, count_true l <= List.length l.
Proof. induction l as [|b l IH]; simpl; [lia|]. destruct b; lia. Qed.

Lemma set_nth_length : forall l i v, List.length (set_nth l i v) = List.length l.
Proof. induction l as [|b l IH]; intros [|i] v; simpl; auto. Qed.

Lemma set_nth_undo : forall l i, nth_error l i = Some false -> set_nth (set_nth l i true) i false = l.
Proof.
  induction l as [|b l IH]; intros [|i] H; simpl in *; try discriminate.
  - inversion H; reflexivity.
  - rewrite IH; auto.
Qed.

Lemma set_nth_ff_comm : forall l i j,
  set_nth (set_nth l i false) j false = set_nth (set_nth l j false) i false.
Proof.
  induction l as [|b l IH]; intros [|i] [|j]; simpl; auto. rewrite IH. reflexivity.
Qed.

Lemma count_set_true : forall l i, nth_error l i = Some false -> count_true (set_nth l i true) = S (count_true l).
Proof.
  induction l as [|b l IH]; intros [|i] H; simpl in *; try discriminate.
  - inversion H; reflexivity.
  - rewrite IH by auto. destruct b; lia.
Qed.

Lemma set3_perm : forall l a b c,
  set_nth (set_nth (set_nth l a false) b false) c false =
  set_nth (set_nth (set_nth l c false) b false) a false.
Proof.
  intros l a b c.
  rewrite (set_nth_ff_comm l a b).
  rewrite (set_nth_ff_comm (set_nth l b false) a c).
  rewrite (set_nth_ff_comm l b c).
  reflexivity.
Qed.

Lemma nth_set_nth_other : forall l i j v, i <> j -> nth_error (set_nth l i v) j = nth_error l j.
Proof.
  induction l as [|b l IH]; intros [|i] [|j] v H; simpl; auto; try congruence.
Qed.

Lemma nth_set_nth_same : forall l i v, i < List.length l -> nth_error (set_nth l i v) i = Some v.
Proof.
  induction l as [|b l IH]; intros [|i] v H; simpl in *; try lia; auto. apply IH. lia.
Qed.

(* a register that is free after r was taken was free before *)
Lemma free_after_take : forall l r i,
  nth_error (set_nth l r true) i = Some false -> nth_error l i = Some false.
Proof.
  intros l r i H. destruct (Nat.eq_dec r i) as [->|Hn].
  - destruct (Nat.lt_ge_cases i (List.length l)) as [Hl|Hl].
    + rewrite nth_set_nth_same in H by exact Hl. discriminate.
    + assert (Hx : nth_error (set_nth l i true) i = None).
      { apply nth_error_None. rewrite set_nth_length. exact Hl. }
      rewrite Hx in H. discriminate.
  - rewrite nth_set_nth_other in H by exact Hn. exact H.
Qed.

(* ------------------------------------------------------------------ take / release *)
(* a successful take_at (first inactive register, or a named inactive one) *)
Lemma take_at_inv : forall o st i s1,
  take_at o st = Ok (i, s1) ->
  nth_error (l_act st) i = Some false /\
  s1 = with_act st (set_nth (l_act st) i true) (Nat.max (l_peak st) (count_true (set_nth (l_act st) i true))).
Proof.
  intros o st i s1 H. destruct o as [k|]; cbn [take_at] in H.
  - destruct (nth_error (l_act st) k) as [[]|] eqn:E; try discriminate.
    unfold activate in H. inversion H; subst. split; [exact E|reflexivity].
  - destruct (first_false (l_act st) 0) as [k|] eqn:Hf; [|discriminate].
    unfold activate in H. inversion H; subst. apply first_false_spec in Hf. destruct Hf as [_ Hf].
    replace (i - 0) with i in Hf by lia. split; [exact Hf|reflexivity].
Qed.

Lemma take_at_facts : forall o st i s1,
  take_at o st = Ok (i, s1) ->
  nth_error (l_act st) i = Some false /\
  l_act s1 = set_nth (l_act st) i true /\
  l_peak s1 = Nat.max (l_peak st) (S (count_true (l_act st))) /\
  l_lv s1 = l_lv st /\ l_rf s1 = l_rf st /\ l_q s1 = l_q st /\ l_len s1 = l_len st /\
  l_next s1 = l_next st /\ l_decl s1 = l_decl st /\ l_ret s1 = l_ret st /\ l_mused s1 = l_mused st.
Proof.
  intros o st i s1 H. apply take_at_inv in H. destruct H as [Hf ->].
  repeat split; simpl; auto. rewrite (count_set_true _ _ Hf). reflexivity.
Qed.
Lemma take_facts : forall st i s1,
  take st = Ok (i, s1) ->
  nth_error (l_act st) i = Some false /\
  l_act s1 = set_nth (l_act st) i true /\
  l_peak s1 = Nat.max (l_peak st) (S (count_true (l_act st))) /\
  l_lv s1 = l_lv st /\ l_rf s1 = l_rf st /\ l_q s1 = l_q st /\ l_len s1 = l_len st /\
  l_next s1 = l_next st /\ l_decl s1 = l_decl st /\ l_ret s1 = l_ret st /\ l_mused s1 = l_mused st.
Proof. exact (take_at_facts None). Qed.

Lemma take_err : forall st e,
  take st = Err e -> e = EOutOfRegs /\ count_true (l_act st) = List.length (l_act st).
Proof.
  intros st e H. unfold take, take_at in H.
  destruct (first_false (l_act st) 0) as [k|] eqn:Hf; [discriminate|].
  inversion H. split; [reflexivity|]. eapply first_false_none; eauto.
Qed.
(* a named register that is not available is an ill-formed program, not an exhausted pool *)
Lemma take_at_err : forall o st e,
  take_at o st = Err e -> e = EOutOfRegs -> count_true (l_act st) = List.length (l_act st).
Proof.
  intros o st e H He. destruct o as [k|].
  - cbn [take_at] in H. destruct (nth_error (l_act st) k) as [[]|]; inversion H; subst; discriminate.
  - apply take_err in H. tauto.
Qed.

(* ------------------------------------------------------------------ the summary of a completed operation *)
Definition good (st st' : lst) (n : nat) : Prop :=
  l_act st' = l_act st /\ l_peak st <= l_peak st' /\
  l_peak st' <= Nat.max (l_peak st) (count_true (l_act st) + n).

Lemma good_refl : forall st n, good st st n.
Proof. intros. unfold good. repeat split; lia. Qed.

Lemma good_weaken : forall st st' n m, good st st' n -> n <= m -> good st st' m.
Proof. unfold good. intros st st' n m (H1 & H2 & H3) H. repeat split; auto; lia. Qed.

Lemma good_trans : forall st st1 st2 n1 n2,
  good st st1 n1 -> good st1 st2 n2 -> good st st2 (Nat.max n1 n2).
Proof.
  unfold good. intros st st1 st2 n1 n2 (A1 & A2 & A3) (B1 & B2 & B3).
  rewrite A1 in *. repeat split; try congruence; lia.
Qed.

(* same active set and peak, other fields arbitrary *)
Definition same_ap (a b : lst) : Prop := l_act a = l_act b /\ l_peak a = l_peak b.

Lemma good_same_l : forall a b st' n, same_ap a b -> good a st' n -> good b st' n.
Proof. unfold good, same_ap. intros a b st' n (E1 & E2) (H1 & H2 & H3). rewrite <- E1, <- E2. auto. Qed.
Lemma good_same_r : forall a b st n, same_ap a b -> good st a n -> good st b n.
Proof. unfold good, same_ap. intros a b st n (E1 & E2) (H1 & H2 & H3). rewrite <- E1, <- E2. auto. Qed.

(* take; something that restores the pool; release *)
Lemma good_bracket_at : forall o st i s1 s2 n,
  take_at o st = Ok (i, s1) -> good s1 s2 n -> good st (release i s2) (S n).
Proof.
  intros o st i s1 s2 n Ht (H1 & H2 & H3).
  apply take_at_facts in Ht. destruct Ht as (Hf & Ha & Hp & _).
  unfold good, release. cbn [l_act l_peak with_act].
  rewrite H1, Ha. rewrite (set_nth_undo _ _ Hf). repeat split; [lia|].
  rewrite Ha in H3. rewrite (count_set_true _ _ Hf) in H3. lia.
Qed.

Lemma good_bracket : forall st i s1 s2 n,
  take st = Ok (i, s1) -> good s1 s2 n -> good st (release i s2) (S n).
Proof. exact (good_bracket_at None). Qed.

Lemma release_comm_act : forall i j st,
  l_act (release i (release j st)) = l_act (release j (release i st)).
Proof. intros. unfold release. cbn [l_act with_act]. apply set_nth_ff_comm. Qed.

Lemma good_release_swap : forall st i j s n,
  good st (release i (release j s)) n -> good st (release j (release i s)) n.
Proof.
  unfold good. intros st i j s n (H1 & H2 & H3).
  rewrite release_comm_act. cbn [l_peak release with_act] in *. auto.
Qed.

Lemma transient_facts : forall n st st',
  transient n st = Ok st' -> good st st' n.
Proof.
  intros n st st' H. unfold transient in H.
  destruct (Nat.ltb NREGS (count_true (l_act st) + n)); [discriminate|].
  inversion H; subst. unfold good. cbn [l_act l_peak with_act]. repeat split; lia.
Qed.

Lemma transient_err : forall n st e,
  transient n st = Err e -> e = EOutOfRegs /\ NREGS < count_true (l_act st) + n.
Proof.
  intros n st e H. unfold transient in H.
  destruct (Nat.ltb NREGS (count_true (l_act st) + n)) eqn:E; [|discriminate].
  inversion H. split; auto. apply Nat.ltb_lt. exact E.
Qed.

(* ------------------------------------------------------------------ how many registers an operation needs *)
Definition epr_need (k : eprkind) (inner : nat) : nat :=
  match k with
  | EKeep _ => 0
  | ERecvCorr => 5
  | EPost _ _ => 3 + Nat.max 4 inner
  | ECtx _ => 1 + Nat.max 4 inner
  end.

Fixpoint need (s : stmt) : nat :=
  match s with
  | SFutAdd _ _ _ _ | SFutAddX _ _ _ _ _ => 2
  | SRegAdd _ _ _ | SMeasFutX _ _ _ _ _ => 1
  | SIf _ _ _ _ b => Nat.max (bneed b) 2
  | SLoop _ _ _ _ _ _ b | SForeach _ _ _ b => S (bneed b)
  | SLoopUntil _ _ b _ _ cl => S (Nat.max (bneed b) (Nat.max 1 (bneed cl)))
  | SEpr k b => epr_need k (bneed b)
  | _ => 0
  end
with bneed (b : block) : nat :=
  match b with BNil => 0 | BCons s r => Nat.max (need s) (bneed r) end.

Lemma need_le_depth :
  (forall s, need s <= 3 * depth s + 4) /\ (forall b, bneed b <= 3 * bdepth b + 4).
Proof.
  apply stmt_block_ind; intros; cbn [need bneed depth bdepth epr_need]; try lia.
  destruct k; cbn [epr_need]; lia.
Qed.

Lemma need_le_depth_noepr :
  (forall s, noepr s = true -> need s <= depth s + 2) /\
  (forall b, bnoepr b = true -> bneed b <= bdepth b + 2).
Proof.
  apply stmt_block_ind; intros; cbn [need bneed depth bdepth noepr bnoepr] in *;
    try discriminate; try lia;
    repeat match goal with
           | H : _ && _ = true |- _ => apply andb_prop in H; destruct H
           | H : ?a = true -> _, H' : ?a = true |- _ => specialize (H H')
           end; try lia.
Qed.

(* ------------------------------------------------------------------ operand helpers *)
Definition oor_ok (st : lst) (n : nat) (e : lerr) : Prop :=
  List.length (l_act st) = NREGS -> count_true (l_act st) + n <= NREGS -> e <> EOutOfRegs.

(* result of an operand lowering: at most one temporary, still held *)
Definition held (st st1 : lst) (ts : list nat) : Prop :=
  (ts = [] /\ st1 = st) \/ (exists t, ts = [t] /\ take st = Ok (t, st1)).

Lemma low_ix_cases : forall ix st p, low_ix ix st = Ok p -> True.
Proof. auto. Qed.

Lemma low_cval_held : forall x st l p ts st1,
  low_cval x st = Ok (l, p, ts, st1) -> held st st1 ts.
Proof.
  intros x st l p ts st1 H. destruct x; cbn [low_cval] in H.
  - inversion H; subst. left; auto.
  - destruct (low_ix ix st) as [ix'|e]; cbn [bind] in H; [|discriminate].
    destruct (take st) as [[t s1]|e] eqn:Ht; cbn [bind] in H; [|discriminate].
    inversion H; subst. right. exists t. auto.
  - destruct (rf_lookup r st); inversion H; subst. left; auto.
  - destruct (alook v (l_lv st)); inversion H; subst. left; auto.
Qed.

Lemma low_cval_err : forall x st e,
  low_cval x st = Err e -> oor_ok st 1 e.
Proof.
  intros x st e H Hl Hc. destruct x; cbn [low_cval] in H; try discriminate.
  - destruct (low_ix ix st) as [ix'|e'] eqn:Hix; cbn [bind] in H.
    + destruct (take st) as [[t s1]|e'] eqn:Ht; cbn [bind] in H; [discriminate|].
      inversion H; subst. apply take_err in Ht. destruct Ht as [_ Ht]. lia.
    + inversion H; subst. destruct ix; cbn [low_ix] in Hix; [discriminate|].
      destruct (alook v (l_lv st)); [discriminate|]. inversion Hix. discriminate.
  - destruct (rf_lookup r st); [discriminate|]. inversion H. discriminate.
  - destruct (alook v (l_lv st)); [discriminate|]. inversion H. discriminate.
Qed.

Lemma low_src_held : forall x st l p ts st1,
  low_src x st = Ok (l, p, ts, st1) -> held st st1 ts.
Proof.
  intros x st l p ts st1 H. destruct x; cbn [low_src] in H.
  - inversion H; subst. left; auto.
  - destruct (low_ix ix st) as [ix'|e]; cbn [bind] in H; [|discriminate].
    destruct (take st) as [[t s1]|e] eqn:Ht; cbn [bind] in H; [|discriminate].
    inversion H; subst. right. exists t. auto.
  - destruct (alook v (l_lv st)); inversion H; subst. left; auto.
  - destruct (rf_lookup r st); inversion H; subst. left; auto.
Qed.

Lemma low_src_err : forall x st e,
  low_src x st = Err e -> oor_ok st 1 e.
Proof.
  intros x st e H Hl Hc. destruct x; cbn [low_src] in H; try discriminate.
  - destruct (low_ix ix st) as [ix'|e'] eqn:Hix; cbn [bind] in H.
    + destruct (take st) as [[t s1]|e'] eqn:Ht; cbn [bind] in H; [discriminate|].
      inversion H; subst. apply take_err in Ht. destruct Ht as [_ Ht]. lia.
    + inversion H; subst. destruct ix; cbn [low_ix] in Hix; [discriminate|].
      destruct (alook v (l_lv st)); [discriminate|]. inversion Hix. discriminate.
  - destruct (alook v (l_lv st)); [discriminate|]. inversion H. discriminate.
  - destruct (rf_lookup r st); [discriminate|]. inversion H. discriminate.
Qed.

Lemma low_ix_err : forall ix st e, low_ix ix st = Err e -> e <> EOutOfRegs.
Proof.
  intros ix st e H. destruct ix; cbn [low_ix] in H; [discriminate|].
  destruct (alook v (l_lv st)); [discriminate|]. inversion H. discriminate.
Qed.

(* one held temporary released: back to the start, one register was needed *)
Lemma held_release : forall st st1 ts,
  held st st1 ts -> good st (release_all ts st1) 1.
Proof.
  intros st st1 ts [[-> ->]|(t & -> & Ht)]; cbn [release_all].
  - apply good_refl.
  - eapply good_bracket with (n := 0); eauto. apply good_refl.
Qed.

Lemma held_count : forall st st1 ts,
  held st st1 ts ->
  List.length (l_act st1) = List.length (l_act st) /\
  count_true (l_act st1) <= S (count_true (l_act st)).
Proof.
  intros st st1 ts [[-> ->]|(t & -> & Ht)]; [split; lia|].
  apply take_facts in Ht. destruct Ht as (Hf & Ha & _).
  rewrite Ha, set_nth_length, (count_set_true _ _ Hf). split; lia.
Qed.

(* two operands, both temporaries released afterwards (first, then second) *)
Lemma held2_release : forall st st1 st2 t1 t2,
  held st st1 t1 -> held st1 st2 t2 -> good st (release_all (t1 ++ t2) st2) 2.
Proof.
  intros st st1 st2 t1 t2 H1 H2.
  destruct H1 as [[-> ->]|(a & -> & Ha)]; cbn [app].
  - eapply good_weaken; [apply held_release; exact H2|lia].
  - destruct H2 as [[-> ->]|(b & -> & Hb)]; cbn [release_all].
    + eapply good_weaken; [eapply good_bracket with (n := 0); eauto; apply good_refl|lia].
    + apply good_release_swap.
      eapply good_bracket with (n := 1); [exact Ha|].
      eapply good_bracket with (n := 0); [exact Hb|apply good_refl].
Qed.

(* ------------------------------------------------------------------ the main induction *)
Definition stmt_ok (fd : bool) (s : stmt) : Prop :=
  plain s = true -> forall st, match lower_stmt fd s st with
             | Ok (c, st') => good st st' (need s)
             | Err e => oor_ok st (need s) e
             end.
Definition block_ok (fd : bool) (b : block) : Prop :=
  bplain b = true -> forall st, match lower_block fd b st with
             | Ok (c, st') => good st st' (bneed b)
             | Err e => oor_ok st (bneed b) e
             end.

Ltac oor_trivial := intros _ _; discriminate.

Lemma good_len_count : forall st st' n,
  good st st' n -> List.length (l_act st') = List.length (l_act st) /\ count_true (l_act st') = count_true (l_act st).
Proof. intros st st' n (H & _). rewrite H. auto. Qed.

Lemma take_at_len_count : forall o st i s1,
  take_at o st = Ok (i, s1) ->
  List.length (l_act s1) = List.length (l_act st) /\ count_true (l_act s1) = S (count_true (l_act st)).
Proof.
  intros o st i s1 H. apply take_at_facts in H. destruct H as (Hf & Ha & _).
  rewrite Ha, set_nth_length, (count_set_true _ _ Hf). auto.
Qed.
Lemma take_len_count : forall st i s1,
  take st = Ok (i, s1) ->
  List.length (l_act s1) = List.length (l_act st) /\ count_true (l_act s1) = S (count_true (l_act st)).
Proof. exact (take_at_len_count None). Qed.

Lemma low_meas_good : forall q ip keep st m c st1,
  low_meas q ip keep st = Ok (m, c, st1) -> same_ap st1 st.
Proof.
  intros q ip keep st m c st1 H. unfold low_meas in H.
  destruct (qubit_id q st) as [id|e]; cbn [bind] in H; [|discriminate].
  unfold take_m in H. destruct keep.
  - destruct (first_false (orb_list (l_mused st) (l_mscr st)) 0) as [k|]; cbn [bind] in H; [|discriminate].
    inversion H; subst. destruct ip; unfold same_ap, deactivate; cbn; auto.
  - destruct (first_false (l_mused st) 0) as [k|]; cbn [bind] in H; [|discriminate].
    inversion H; subst. destruct ip; unfold same_ap, deactivate; cbn; auto.
Qed.

Lemma low_meas_err : forall q ip keep st e,
  low_meas q ip keep st = Err e -> e <> EOutOfRegs.
Proof.
  intros q ip keep st e H. unfold low_meas in H.
  unfold qubit_id in H. destruct (alook q (l_q st)); cbn [bind] in H.
  - unfold take_m in H. destruct keep.
    + destruct (first_false (orb_list (l_mused st) (l_mscr st)) 0); cbn [bind] in H; [discriminate|].
      inversion H. discriminate.
    + destruct (first_false (l_mused st) 0); cbn [bind] in H; [discriminate|].
      inversion H. discriminate.
  - inversion H. discriminate.
Qed.

Lemma declare_same : forall a n init st st1, declare a n init st = Ok st1 -> same_ap st1 st.
Proof.
  intros a n init st st1 H. unfold declare in H. destruct (Nat.eqb a (l_next st)); [|discriminate].
  inversion H; subst. unfold same_ap; cbn; auto.
Qed.
Lemma declare_err : forall a n init st e, declare a n init st = Err e -> e <> EOutOfRegs.
Proof.
  intros a n init st e H. unfold declare in H. destruct (Nat.eqb a (l_next st)); [discriminate|].
  inversion H. discriminate.
Qed.

Lemma same_good : forall st st' n, same_ap st' st -> good st st' n.
Proof. unfold same_ap, good. intros st st' n (H1 & H2). rewrite H1, H2. repeat split; lia. Qed.

Lemma qubit_id_err : forall q st e, qubit_id q st = Err e -> e <> EOutOfRegs.
Proof. intros q st e H. unfold qubit_id in H. destruct (alook q (l_q st)); [discriminate|]. inversion H. discriminate. Qed.

Lemma epr_arrays_same : forall n seq st, same_ap (epr_arrays n seq st) st.
Proof.
  intros n seq st. unfold epr_arrays. generalize 0 as i. revert st.
  induction n as [|n IH]; intros st i; cbn [epr_arrays_at]; [split; reflexivity|].
  destruct (IH (mkL (l_act st) (l_peak st) (l_mused st) (l_q st) (S (l_next st))
                    (l_decl st ++ [(l_next st, 2, if seq && Nat.eqb i 1 then Some [Some 0%Z; Some 0%Z] else None)])
                    (l_ret st) (l_rf st) (l_lv st) ((l_next st, 2) :: l_len st) (l_mscr st)) (S i)) as [A B].
  split; [rewrite A|rewrite B]; reflexivity.
Qed.

Lemma oor_same : forall a b n e, same_ap a b -> oor_ok a n e -> oor_ok b n e.
Proof. unfold oor_ok, same_ap. intros a b n e [E _] H. rewrite <- E. exact H. Qed.

Theorem lower_ok_all : forall fd, (forall s, stmt_ok fd s) /\ (forall b, block_ok fd b).
Proof.
  intro fd. apply stmt_block_ind; unfold stmt_ok, block_ok.
  - (* SNewQubit *) intros q _ st. cbn [lower_stmt].
    destruct (alook q (l_q st)); [oor_trivial|]. apply same_good. unfold same_ap; cbn; auto.
  - (* SGate *) intros g q _ st. cbn [lower_stmt].
    destruct (qubit_id q st) eqn:E; cbn [bind]; [apply good_refl|intros _ _; eapply qubit_id_err; eauto].
  - (* SRot *) intros ax q n d _ st. cbn [lower_stmt].
    destruct (qubit_id q st) eqn:E; cbn [bind]; [apply good_refl|intros _ _; eapply qubit_id_err; eauto].
  - (* STwo *) intros t q1 q2 _ st. cbn [lower_stmt].
    destruct (qubit_id q1 st) eqn:E1; cbn [bind]; [|intros _ _; eapply qubit_id_err; eauto].
    destruct (qubit_id q2 st) eqn:E2; cbn [bind]; [apply good_refl|intros _ _; eapply qubit_id_err; eauto].
  - (* SMeasFut *) intros q ip a ix _ st. cbn [lower_stmt].
    destruct (low_ix ix st) eqn:Ei; cbn [bind]; [|intros _ _; eapply low_ix_err; eauto].
    destruct (low_meas q ip false st) as [[[m c] st1]|e] eqn:Em; cbn [bind].
    + apply same_good. eapply low_meas_good; eauto.
    + intros _ _. eapply low_meas_err; eauto.
  - (* SMeasNew *) intros q ip a _ st. cbn [lower_stmt].
    destruct (declare a 1 None st) as [st0|e] eqn:Ed; cbn [bind]; [|intros _ _; eapply declare_err; eauto].
    destruct (low_meas q ip false st0) as [[[m c] st1]|e] eqn:Em; cbn [bind].
    + apply same_good. apply low_meas_good in Em. apply declare_same in Ed.
      unfold same_ap in *. destruct Em, Ed. split; congruence.
    + intros _ _. eapply low_meas_err; eauto.
  - (* SMeasReg *) intros q ip r _ st. cbn [lower_stmt].
    destruct (alook r (l_rf st)); [oor_trivial|].
    destruct (low_meas q ip true st) as [[[m c] st1]|e] eqn:Em; cbn [bind].
    + apply same_good. apply low_meas_good in Em. unfold same_ap in *; cbn; auto.
    + intros _ _. eapply low_meas_err; eauto.
  - (* SFree *) intros q _ st. cbn [lower_stmt].
    destruct (qubit_id q st) eqn:E; cbn [bind]; [|intros _ _; eapply qubit_id_err; eauto].
    apply same_good. destruct fd; unfold same_ap, deactivate; cbn; auto.
  - (* SNewArray *) intros a len init _ st. cbn [lower_stmt].
    destruct (Nat.eqb _ 0); [oor_trivial|].
    destruct (declare a _ init st) as [st1|e] eqn:Ed; cbn [bind].
    + apply same_good. eapply declare_same; eauto.
    + intros _ _. eapply declare_err; eauto.
  - (* SFutAdd *) intros a ix o m _ st. cbn [lower_stmt need].
    destruct (low_ix ix st) eqn:Ei; cbn [bind]; [|intros _ _; eapply low_ix_err; eauto].
    destruct (take st) as [[t st1]|e] eqn:Ht; cbn [bind].
    + destruct (low_src o st1) as [[[[lo y] ts] st2]|e] eqn:Hs; cbn [bind].
      * apply low_src_held in Hs.
        destruct Hs as [[-> ->]|(b & -> & Hb)]; cbn [release_all].
        -- eapply good_weaken; [eapply good_bracket with (n := 0); eauto; apply good_refl|lia].
        -- apply good_release_swap.
           eapply good_bracket with (n := 1); [exact Ht|].
           eapply good_bracket with (n := 0); [exact Hb|apply good_refl].
      * intros Hl Hc. apply low_src_err in Hs. apply Hs.
        -- apply take_len_count in Ht. destruct Ht as [-> _]. exact Hl.
        -- apply take_len_count in Ht. destruct Ht as [_ ->]. lia.
    + intros Hl Hc. apply take_err in Ht. destruct Ht as [_ Ht]. unfold NREGS in *. lia.
  - (* SRegAdd *) intros r o m _ st. cbn [lower_stmt need].
    destruct (rf_lookup r st) as [[[] k]|]; try oor_trivial.
    destruct (low_src o st) as [[[[lo y] ts] st1]|e] eqn:Hs; cbn [bind].
    + apply held_release. eapply low_src_held; eauto.
    + eapply low_src_err; eauto.
  - (* SNewReg *) intros r init Hp. discriminate.
  - (* SUAdd *) intros r o m Hp. discriminate.
  - (* SIf *) intros c cb x y body IH Hp st. cbn [plain] in Hp. cbn [lower_stmt need].
    specialize (IH Hp st).
    destruct (lower_block fd body st) as [[cbody st1]|e]; cbn [bind].
    + destruct (is_nil cbody).
      * eapply good_weaken; [exact IH|lia].
      * destruct (good_len_count _ _ _ IH) as [Hlen Hcnt].
        destruct (low_cval x st1) as [[[[lx px] tx] st2]|e] eqn:Hx; cbn [bind].
        -- assert (Hhx := low_cval_held _ _ _ _ _ _ Hx).
           assert (Gu : good st (release_all tx st2) (Nat.max (bneed body) 2)).
           { eapply good_weaken; [eapply good_trans; [exact IH|apply held_release; exact Hhx]|lia]. }
           destruct c; try exact Gu;
             (destruct (low_cval y st2) as [[[[ly py] ty] st3]|e] eqn:Hy; cbn [bind];
              [ eapply good_weaken;
                [eapply good_trans; [exact IH|eapply held2_release; [exact Hhx|eapply low_cval_held; eauto]]|lia]
              | intros Hl Hc; apply low_cval_err in Hy; apply Hy;
                destruct (held_count _ _ _ Hhx) as [Hl2 Hc2]; [congruence|lia] ]).
        -- intros Hl Hc. apply low_cval_err in Hx. apply Hx; [congruence|lia].
    + intros Hl Hc. apply IH; [exact Hl|lia].
  - (* SLoop *) intros cb v oreg start stop step body IH Hp st.
    cbn [plain] in Hp. specialize (IH Hp). cbn [lower_stmt need].
    destruct (alook v (l_lv st)); [oor_trivial|].
    destruct (take_at oreg st) as [[r st1]|e] eqn:Ht; cbn [bind].
    + specialize (IH (bind_lvr v r st1)).
      destruct (lower_block fd body (bind_lvr v r st1)) as [[cbody st2]|e]; cbn [bind].
      * assert (G : good st (release r (with_lvs st2 (l_lv st))) (S (bneed body))).
        { change (release r (with_lvs st2 (l_lv st))) with (with_lvs (release r st2) (l_lv st)).
          eapply good_same_r with (a := release r st2); [split; reflexivity|].
          eapply good_bracket_at; [exact Ht|]. exact IH. }
        destruct (is_nil cbody); exact G.
      * intros Hl Hc. apply take_at_len_count in Ht. destruct Ht as [Hl1 Hc1].
        apply IH; cbn [bind_lvr with_lvs l_act]; [congruence|lia].
    + intros Hl Hc He. apply (take_at_err _ _ _ Ht) in He. unfold NREGS in *. lia.
  - (* SForeach *) intros enum v a body IH Hp st. cbn [plain] in Hp. specialize (IH Hp). cbn [lower_stmt need].
    destruct (alook a (l_len st)); [|oor_trivial].
    destruct (alook v (l_lv st)); [oor_trivial|].
    destruct (take st) as [[r st1]|e] eqn:Ht; cbn [bind].
    + specialize (IH (bind_lvr v r st1)).
      destruct (lower_block fd body (bind_lvr v r st1)) as [[cbody st2]|e]; cbn [bind].
      * assert (G : good st (release r (with_lvs st2 (l_lv st))) (S (bneed body))).
        { change (release r (with_lvs st2 (l_lv st))) with (with_lvs (release r st2) (l_lv st)).
          eapply good_same_r with (a := release r st2); [split; reflexivity|].
          eapply good_bracket; [exact Ht|]. exact IH. }
        destruct (is_nil cbody); exact G.
      * intros Hl Hc. apply take_len_count in Ht. destruct Ht as [Hl1 Hc1].
        apply IH; cbn [bind_lvr with_lvs l_act]; [congruence|lia].
    + intros Hl Hc. apply take_err in Ht. destruct Ht as [_ Ht]. unfold NREGS in *. lia.
  - (* SLoopUntil *) intros v maxit body IHb cx bound cleanup IHc Hp st. cbn [plain] in Hp.
    apply andb_prop in Hp. destruct Hp as [Hp1 Hp2]. specialize (IHb Hp1). specialize (IHc Hp2). cbn [lower_stmt need].
    destruct (alook v (l_lv st)); [oor_trivial|].
    destruct (take st) as [[r st1]|e] eqn:Ht; cbn [bind].
    + specialize (IHb (bind_lvr v r st1)).
      destruct (take_len_count _ _ _ Ht) as [Hl1 Hc1].
      destruct (lower_block fd body (bind_lvr v r st1)) as [[cbody st2]|e]; cbn [bind].
      * destruct (is_nil cbody).
        -- change (release r (with_lvs st2 (l_lv st))) with (with_lvs (release r st2) (l_lv st)).
           eapply good_same_r with (a := release r st2); [split; reflexivity|].
           eapply good_weaken; [eapply good_bracket; [exact Ht|exact IHb]|lia].
        -- destruct (good_len_count _ _ _ IHb) as [Hl2 Hc2]. cbn [bind_lvr with_lvs l_act] in Hl2, Hc2.
           destruct (low_cval cx st2) as [[[[lx px] tx] st3]|e] eqn:Hx; cbn [bind].
           ++ assert (Hh := low_cval_held _ _ _ _ _ _ Hx).
              assert (G3 := held_release _ _ _ Hh).
              specialize (IHc (release_all tx st3)).
              destruct (good_len_count _ _ _ G3) as [Hl3 Hc3].
              destruct (lower_block fd cleanup (release_all tx st3)) as [[ccl st4]|e]; cbn [bind].
              ** change (release r (with_lvs st4 (l_lv st))) with (with_lvs (release r st4) (l_lv st)).
                 eapply good_same_r with (a := release r st4); [split; reflexivity|].
                 eapply good_bracket; [exact Ht|].
                 eapply good_same_l with (a := bind_lvr v r st1); [split; reflexivity|].
                 eapply good_weaken;
                   [eapply good_trans; [exact IHb|eapply good_trans; [exact G3|exact IHc]]|lia].
              ** intros Hl Hc. apply IHc; [congruence|].
                 rewrite Hc3, Hc2, Hc1. lia.
           ++ intros Hl Hc. apply low_cval_err in Hx. apply Hx; [congruence|]. rewrite Hc2, Hc1. lia.
      * intros Hl Hc. apply IHb; cbn [bind_lvr with_lvs l_act]; [congruence|lia].
    + intros Hl Hc. apply take_err in Ht. destruct Ht as [_ Ht]. unfold NREGS in *. lia.
  - (* SEpr *) intros k body IH Hp st. cbn [plain] in Hp. specialize (IH Hp). cbn [lower_stmt need]. destruct k; cbn [epr_need].
    + destruct body; [apply same_good; apply epr_arrays_same|oor_trivial].
    + destruct body; [|oor_trivial].
      assert (Sa := epr_arrays_same 2 false st).
      destruct (transient 5 (epr_arrays 2 false st)) as [st1|e] eqn:Et; cbn [bind].
      * eapply good_same_l; [exact Sa|]. eapply transient_facts; eauto.
      * eapply oor_same; [exact Sa|].
        intros Hl Hc. apply transient_err in Et. destruct Et as [_ Et]. lia.
    + (* EPost *)
      assert (Sa := epr_arrays_same narr true st).
      remember (epr_arrays narr true st) as st0 eqn:Est0. clear Est0.
      match goal with |- match ?X with _ => _ end =>
        assert (Hrew : match X with
                       | Ok (c, st') => good st0 st' (3 + Nat.max 4 (bneed body))
                       | Err e => oor_ok st0 (3 + Nat.max 4 (bneed body)) e
                       end);
        [|destruct X as [[c st']|e]; [eapply good_same_l; eauto|eapply oor_same; eauto]]
      end.
      clear Sa. rename st into st_orig. rename st0 into st.
      destruct (take st) as [[r1 s1]|e] eqn:H1; cbn [bind];
        [|intros Hl Hc; apply take_err in H1; destruct H1 as [_ H1]; unfold NREGS in *; lia].
      destruct (take_len_count _ _ _ H1) as [L1 C1].
      destruct (take s1) as [[r2 s2]|e] eqn:H2; cbn [bind];
        [|intros Hl Hc; apply take_err in H2; destruct H2 as [_ H2]; unfold NREGS in *; lia].
      destruct (take_len_count _ _ _ H2) as [L2 C2].
      destruct (take s2) as [[r3 s3]|e] eqn:H3; cbn [bind];
        [|intros Hl Hc; apply take_err in H3; destruct H3 as [_ H3]; unfold NREGS in *; lia].
      destruct (take_len_count _ _ _ H3) as [L3 C3].
      destruct (transient 4 s3) as [s4|e] eqn:E4; cbn [bind];
        [|intros Hl Hc; apply transient_err in E4; destruct E4 as [_ E4]; unfold NREGS in *; lia].
      assert (G4 := transient_facts _ _ _ E4).
      destruct (good_len_count _ _ _ G4) as [L4 C4].
      assert (G5 : forall s5, (if corr then transient 2 s4 else Ok s4) = Ok s5 -> good s3 s5 4).
      { intros s5 E. destruct corr.
        - eapply good_weaken; [eapply good_trans; [exact G4|eapply transient_facts; exact E]|lia].
        - inversion E; subst. exact G4. }
      destruct (if corr then transient 2 s4 else Ok s4) as [s5|e] eqn:E5; cbn [bind].
      * specialize (G5 s5 eq_refl). destruct (good_len_count _ _ _ G5) as [L5 C5].
        specialize (IH s5).
        destruct (lower_block fd body s5) as [[cb_ s6]|e]; cbn [bind].
        -- assert (G6 : good s3 s6 (Nat.max 4 (bneed body))) by (eapply good_trans; eauto).
           assert (Gx : good st (release r1 (release r2 (release r3 s6))) (S (S (S (Nat.max 4 (bneed body)))))).
           { apply good_bracket with (s1 := s1); [exact H1|].
             apply good_bracket with (s1 := s2); [exact H2|].
             apply good_bracket with (s1 := s3); [exact H3|]. exact G6. }
           unfold good in *. destruct Gx as (A & B & C).
           cbn [release with_act l_act l_peak] in *.
           rewrite set3_perm. auto.
        -- intros Hl Hc. apply IH; [congruence|]. rewrite C5, C3, C2, C1. lia.
      * destruct corr; [|discriminate].
        intros Hl Hc. apply transient_err in E5. destruct E5 as [_ E5]. unfold NREGS in *. lia.
    + (* ECtx *)
      assert (Sa := epr_arrays_same narr false st).
      remember (epr_arrays narr false st) as st0 eqn:Est0. clear Est0.
      match goal with |- match ?X with _ => _ end =>
        assert (Hrew : match X with
                       | Ok (c, st') => good st0 st' (1 + Nat.max 4 (bneed body))
                       | Err e => oor_ok st0 (1 + Nat.max 4 (bneed body)) e
                       end);
        [|destruct X as [[c st']|e]; [eapply good_same_l; eauto|eapply oor_same; eauto]]
      end.
      clear Sa. rename st into st_orig. rename st0 into st.
      destruct (take st) as [[r1 s1]|e] eqn:H1; cbn [bind];
        [|intros Hl Hc; apply take_err in H1; destruct H1 as [_ H1]; unfold NREGS in *; lia].
      destruct (take_len_count _ _ _ H1) as [L1 C1].
      specialize (IH s1).
      destruct (lower_block fd body s1) as [[cb_ s2]|e]; cbn [bind].
      * destruct (good_len_count _ _ _ IH) as [L2 C2].
        destruct (transient 4 s2) as [s3|e] eqn:E3; cbn [bind].
        -- eapply good_weaken;
             [eapply good_bracket; [exact H1|eapply good_trans; [exact IH|eapply transient_facts; exact E3]]|lia].
        -- intros Hl Hc. apply transient_err in E3. destruct E3 as [_ E3]. unfold NREGS in *. lia.
      * intros Hl Hc. apply IH; [congruence|lia].
  - (* SFlush *) intros _ st. cbn [lower_stmt]. oor_trivial.
  - (* SFutAddX *) intros a b n o m _ st. cbn [lower_stmt need].
    destruct (take st) as [[t st1]|e] eqn:Ht; cbn [bind].
    + destruct (take_len_count _ _ _ Ht) as [Hl1 Hc1].
      destruct (take st1) as [[ti st1i]|e] eqn:Hti; cbn [bind].
      * assert (G1 : good st1 (release ti st1i) 1) by (eapply good_bracket with (n := 0); [exact Hti|apply good_refl]).
        destruct (good_len_count _ _ _ G1) as [Hl2 Hc2].
        destruct (low_src o (release ti st1i)) as [[[[lo y] ts] st2]|e] eqn:Hs; cbn [bind].
        -- apply low_src_held in Hs. destruct Hs as [[-> ->]|(b' & -> & Hb)]; cbn [release_all].
           ++ eapply good_bracket with (n := 1); [exact Ht|exact G1].
           ++ apply good_release_swap. eapply good_bracket with (n := 1); [exact Ht|].
              eapply good_weaken;
                [eapply good_trans; [exact G1|eapply good_bracket with (n := 0); [exact Hb|apply good_refl]]|lia].
        -- intros Hl Hc. apply low_src_err in Hs. apply Hs; [congruence|]. rewrite Hc2, Hc1. lia.
      * intros Hl Hc. apply take_err in Hti. destruct Hti as [_ Hti]. unfold NREGS in *. lia.
    + intros Hl Hc. apply take_err in Ht. destruct Ht as [_ Ht]. unfold NREGS in *. lia.
  - (* SMeasFutX *) intros q ip a b n _ st. cbn [lower_stmt need].
    destruct (low_meas q ip false st) as [[[m c] st1]|e] eqn:Em; cbn [bind].
    + assert (Sm := low_meas_good _ _ _ _ _ _ _ Em).
      destruct (take st1) as [[ti st1i]|e] eqn:Hti; cbn [bind].
      * eapply good_same_l; [exact Sm|]. eapply good_bracket with (n := 0); [exact Hti|apply good_refl].
      * eapply oor_same; [exact Sm|]. intros Hl Hc. apply take_err in Hti. destruct Hti as [_ Hti]. unfold NREGS in *. lia.
    + intros _ _. eapply low_meas_err; eauto.
  - (* BNil *) intros _ st. cbn [lower_block]. apply good_refl.
  - (* BCons *) intros s IHs b IHb Hp st. cbn [bplain] in Hp. apply andb_prop in Hp. destruct Hp as [Hp1 Hp2].
    specialize (IHb Hp2). cbn [lower_block bneed].
    specialize (IHs Hp1 st).
    destruct (lower_stmt fd s st) as [[c1 st1]|e]; cbn [bind].
    + specialize (IHb st1). destruct (good_len_count _ _ _ IHs) as [L C].
      destruct (lower_block fd b st1) as [[c2 st2]|e]; cbn [bind].
      * eapply good_trans; eauto.
      * intros Hl Hc. apply IHb; [congruence|lia].
    + intros Hl Hc. apply IHs; [exact Hl|lia].
Qed.

(* ------------------------------------------------------------------ the theorems of C14 on statements *)
Theorem active_restored : forall fd s st c st', plain s = true ->
  lower_stmt fd s st = Ok (c, st') -> l_act st' = l_act st.
Proof.
  intros fd s st c st' Hp H. destruct (lower_ok_all fd) as [A _].
  specialize (A s Hp st). rewrite H in A. exact (proj1 A).
Qed.

Theorem active_restored_block : forall fd b st c st', bplain b = true ->
  lower_block fd b st = Ok (c, st') -> l_act st' = l_act st.
Proof.
  intros fd b st c st' Hp H. destruct (lower_ok_all fd) as [_ A].
  specialize (A b Hp st). rewrite H in A. exact (proj1 A).
Qed.

Theorem peak_bound : forall fd s st c st', plain s = true ->
  lower_stmt fd s st = Ok (c, st') ->
  l_peak st' <= Nat.max (l_peak st) (count_true (l_act st) + need s) /\
  need s <= 3 * depth s + 4 /\ (noepr s = true -> need s <= depth s + 2).
Proof.
  intros fd s st c st' Hp H. destruct (lower_ok_all fd) as [A _].
  specialize (A s Hp st). rewrite H in A. destruct A as (_ & _ & A).
  split; [exact A|]. split; [apply need_le_depth|apply need_le_depth_noepr].
Qed.

Theorem lower_no_oor : forall fd s st, plain s = true ->
  List.length (l_act st) = NREGS -> count_true (l_act st) + need s <= NREGS ->
  lower_stmt fd s st <> Err EOutOfRegs.
Proof.
  intros fd s st Hp Hl Hc E. destruct (lower_ok_all fd) as [A _].
  specialize (A s Hp st). rewrite E in A. exact (A Hl Hc eq_refl).
Qed.

(* ------------------------------------------------------------------ flush and whole programs *)
Lemma init_code_ok : forall ds P st,
  match init_code ds P st with
  | Ok (c, st') => good st st' 1
  | Err e => oor_ok st 1 e
  end.
Proof.
  induction ds as [|[[a n] init] ds IH]; intros P st; cbn [init_code].
  - apply good_refl.
  - destruct init as [l|]; [|apply IH].
    destruct (loopopt l) as [v|]; [|apply IH].
    destruct (take st) as [[t st1]|e] eqn:Ht; cbn [bind].
    + assert (G : good st (release t st1) 1) by (eapply good_bracket with (n := 0); eauto; apply good_refl).
      match goal with |- match init_code ds ?P' ?s' with _ => _ end => specialize (IH P' s') end.
      destruct (init_code ds _ (release t st1)) as [[c st']|e].
      * eapply good_weaken; [eapply good_trans; [exact G|exact IH]|lia].
      * intros Hl Hc. destruct (good_len_count _ _ _ G) as [L C]. apply IH; [congruence|lia].
    + intros Hl Hc. apply take_err in Ht. destruct Ht as [_ Ht]. unfold NREGS in *. lia.
Qed.

Lemma lower_flush_ok : forall body st,
  match lower_flush body st with
  | Ok (b, st') => good st st' 1
  | Err e => oor_ok st 1 e
  end.
Proof.
  intros body st. unfold lower_flush.
  assert (H := init_code_ok (l_decl st) [] st).
  destruct (init_code (l_decl st) [] st) as [[P st1]|e]; cbn [bind]; [|exact H].
  unfold good in *. cbn [reset_block l_act l_peak]. exact H.
Qed.

(* registers needed by a whole program: its deepest statement, and one for the array
   initialisation loop of a flush *)
Definition top_need (p : block) : nat := Nat.max (bneed p) 1.

Lemma lower_top_ok : forall fd p acc st, bplain p = true ->
  match lower_top fd p acc st with
  | Ok (bs, st') => good st st' (top_need p)
  | Err e => oor_ok st (top_need p) e
  end.
Proof.
  intros fd p. unfold top_need.
  induction p as [|s r IH]; intros acc st Hp.
  - cbn [lower_top]. apply good_refl.
  - cbn [bplain] in Hp. apply andb_prop in Hp. destruct Hp as [Hp1 Hp2].
    destruct (lower_ok_all fd) as [A _]. specialize (A s Hp1 st).
    assert (Hgen : forall (Hs : s <> SFlush),
      match (let* (c, st1) := lower_stmt fd s st in lower_top fd r (acc ++ c) st1) with
      | Ok (bs, st') => good st st' (Nat.max (bneed (BCons s r)) 1)
      | Err e => oor_ok st (Nat.max (bneed (BCons s r)) 1) e
      end).
    { intros _. cbn [bneed]. destruct (lower_stmt fd s st) as [[c st1]|e]; cbn [bind].
      - specialize (IH (acc ++ c) st1 Hp2). destruct (good_len_count _ _ _ A) as [L C].
        destruct (lower_top fd r (acc ++ c) st1) as [[bs st2]|e].
        + eapply good_weaken; [eapply good_trans; [exact A|exact IH]|lia].
        + intros Hl Hc. apply IH; [congruence|lia].
      - intros Hl Hc. apply A; [exact Hl|lia]. }
    destruct s; try (apply Hgen; discriminate).
    (* SFlush *)
    cbn [lower_top bneed need].
    assert (F := lower_flush_ok acc st).
    destruct (lower_flush acc st) as [[b st1]|e]; cbn [bind].
    + specialize (IH [] st1 Hp2). destruct (good_len_count _ _ _ F) as [L C].
      destruct (lower_top fd r [] st1) as [[rest st2]|e]; cbn [bind].
      * eapply good_weaken; [eapply good_trans; [exact F|exact IH]|lia].
      * intros Hl Hc. apply IH; [congruence|lia].
    + intros Hl Hc. apply F; [exact Hl|lia].
Qed.

(* any sequence of completed operations, of any length, with flushes anywhere:
   no register is active at top level *)
Theorem active_reachable : forall fd p bs st, bplain p = true ->
  lower_prog fd p = Ok (bs, st) -> l_act st = repeat false NREGS.
Proof.
  intros fd p bs st Hp H. unfold lower_prog in H.
  assert (A := lower_top_ok fd p [] l0 Hp). rewrite H in A. exact (proj1 A).
Qed.

(* compiling never runs out of registers because of finished operations: only the
   nesting depth of the deepest statement matters, not the length of the program *)
Theorem lower_prog_no_oor : forall fd p, bplain p = true ->
  3 * bdepth p + 4 <= NREGS -> lower_prog fd p <> Err EOutOfRegs.
Proof.
  intros fd p Hp Hd E. unfold lower_prog in E.
  assert (A := lower_top_ok fd p [] l0 Hp). rewrite E in A.
  apply A; try reflexivity. unfold top_need. cbn.
  destruct need_le_depth as [_ N]. specialize (N p). unfold NREGS in *. lia.
Qed.

Theorem lower_prog_no_oor_noepr : forall fd p, bplain p = true ->
  bnoepr p = true -> bdepth p + 2 <= NREGS -> lower_prog fd p <> Err EOutOfRegs.
Proof.
  intros fd p Hp Hn Hd E. unfold lower_prog in E.
  assert (A := lower_top_ok fd p [] l0 Hp). rewrite E in A.
  apply A; try reflexivity. unfold top_need. cbn.
  destruct need_le_depth_noepr as [_ N]. specialize (N p Hn). unfold NREGS in *. lia.
Qed.

Theorem lower_prog_peak : forall fd p bs st, bplain p = true ->
  lower_prog fd p = Ok (bs, st) -> l_peak st <= Nat.max (bneed p) 1 /\ bneed p <= 3 * bdepth p + 4.
Proof.
  intros fd p bs st Hp H. unfold lower_prog in H.
  assert (A := lower_top_ok fd p [] l0 Hp). rewrite H in A. destruct A as (_ & _ & A).
  cbn in A. split; [exact A|apply need_le_depth].
Qed.
