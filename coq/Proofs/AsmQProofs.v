(* AsmQProofs.v — C03 over the EVENT semantics (Lang/AsmSemQ.v).
   The forward simulation of Proofs/AsmProofs.v is re-proved for the interpreter
   that also gives gates / meas / qalloc / qfree / ret_reg / ret_arr an abstract
   event meaning: the assembled program reaches the corresponding configuration
   with THE SAME event trace, unit module and remaining measurement script; the
   inserted `set`s emit nothing.  The classical per-instruction lemma `exec_rel`
   and the whole structural part (blocks, pcmap, label table, run of the sets'
   register effect) are reused from AsmProofs. *)
From Coq Require Import ZArith List Bool String Lia.
From NQ Require Import Base.Bits Lang.Codec Lang.Asm Lang.AsmSem Lang.AsmSemQ.
From NQ Require Import Lang.Text Lang.TextFront Lang.AsmCheck.
From NQ Require Import Proofs.AsmProofs Proofs.TextFrontMeaning.
Import ListNotations.
Open Scope Z_scope.

(* ====================================================================== *)
(* 1. relations                                                           *)
(* ====================================================================== *)

(* equal unit module, script and TRACE; classical parts related by eqv *)
Definition eqv_q (pr : aparams) (nm : list reg) (a b : qastate) : Prop :=
  eqv pr nm (qa_st a) (qa_st b) /\ qa_um a = qa_um b /\ qa_script a = qa_script b /\ qa_trace a = qa_trace b.

Definition cfg_rel_q (pr : aparams) (P : list acmd) (a b : qacfg) : Prop :=
  match a, b with
  | QRun pc s, QRun pc' t => pc' = pcmap pr P pc /\ eqv_q pr (named P) s t
  | QHalted s, QHalted t => eqv_q pr (named P) s t
  | QFault k s, QFault k' t => k' = last_line pr P k /\ eqv_q pr (named P) s t
  | QStuck k s, QStuck k' t => k' = last_line pr P k /\ eqv_q pr (named P) s t
  | _, _ => False
  end.

Definition qeres_rel (pr : aparams) (nm : list reg) (tbl : list (string * nat)) (a b : qeres) : Prop :=
  match a, b with
  | QENext x, QENext y => eqv_q pr nm x y
  | QEJump t x, QEJump t' y => eqv_q pr nm x y /\ t' = resolve_opnd tbl t /\ is_label t = true
  | QEFault, QEFault => True
  | QEStuck, QEStuck => True
  | _, _ => False
  end.

Lemma eqv_q_refl pr nm a : eqv_q pr nm a a.
Proof. split; [apply eqv_refl|auto]. Qed.

(* ====================================================================== *)
(* 2. lists                                                               *)
(* ====================================================================== *)

Lemma Forall2_firstn_q {A B} (R : A -> B -> Prop) l l' :
  Forall2 R l l' -> forall n, Forall2 R (firstn n l) (firstn n l').
Proof.
  intros H. induction H as [|x y l l' Hxy H IH]; intros [|n]; cbn [firstn]; constructor; auto.
Qed.

Lemma Forall2_length_q {A B} (R : A -> B -> Prop) l l' :
  Forall2 R l l' -> List.length l = List.length l'.
Proof. intros H. induction H as [|x y l l' Hxy H IH]; [reflexivity|]. cbn [List.length]. rewrite IH. reflexivity. Qed.

Lemma nth_error_skipn_q {A} n : forall (l : list A) j, nth_error (skipn n l) j = nth_error l (n + j).
Proof.
  induction n as [|n IH]; intros l j; [reflexivity|].
  destruct l as [|x l]; cbn [skipn Nat.add nth_error]; [destruct j; reflexivity|apply IH].
Qed.

Lemma nth_error_ext_q {A} : forall (l l' : list A), (forall j, nth_error l j = nth_error l' j) -> l = l'.
Proof.
  induction l as [|x l IH]; intros [|y l'] H.
  - reflexivity.
  - specialize (H O). discriminate.
  - specialize (H O). discriminate.
  - pose proof (H O) as H0. cbn [nth_error] in H0. injection H0 as ->. f_equal.
    apply IH. intros j. exact (H (S j)).
Qed.

(* ====================================================================== *)
(* 3. the gate table and the exemption table                              *)
(* ====================================================================== *)

Lemma gate_find_In t mn x : gate_find t mn = Some x -> In (mn, x) t.
Proof.
  induction t as [|[k y] t IH]; cbn [gate_find]; [discriminate|].
  destruct (String.eqb_spec k mn) as [->|_].
  - intros [= ->]. left. reflexivity.
  - intros H. right. apply IH. exact H.
Qed.

Lemma qkind_gate_find mn nq ni : qkind_of mn = QKgate nq ni -> gate_find gate_table mn = Some (nq, ni).
Proof.
  unfold qkind_of. destruct (opc_of mn); try discriminate.
  destruct (String.eqb mn MEAS); [discriminate|].
  destruct (String.eqb mn QALLOC); [discriminate|].
  destruct (String.eqb mn QFREE); [discriminate|].
  destruct (gate_find gate_table mn) as [[a b]|]; [|discriminate].
  intros [= -> ->]. reflexivity.
Qed.

(* the immediates of a gate instruction sit at exempt positions *)
Lemma gate_imm_exempt ex mn nq ni j :
  qexempt_ok ex = true -> qkind_of mn = QKgate nq ni -> (nq <= j < nq + ni)%nat -> is_exempt ex mn j = true.
Proof.
  intros Hq Hk Hj. unfold qexempt_ok in Hq. apply andb_true_iff in Hq as [_ Hq].
  rewrite forallb_forall in Hq.
  specialize (Hq (mn, (nq, ni)) (gate_find_In _ _ _ (qkind_gate_find _ _ _ Hk))).
  cbn [fst snd] in Hq. rewrite forallb_forall in Hq. apply Hq. apply in_seq. lia.
Qed.

Lemma qexempt_set ex : qexempt_ok ex = true -> is_exempt ex SET 1 = true.
Proof. unfold qexempt_ok. intros H. apply andb_true_iff in H as [H _]. exact H. Qed.

Lemma qkind_set : qkind_of SET = QKclassical.
Proof. reflexivity. Qed.

(* ====================================================================== *)
(* 4. operand lists of the gate instructions                              *)
(* ====================================================================== *)

Lemma get_vals_sim tbl a b l l' :
  Forall2 (osim tbl a b) l l' -> forallb is_val l = true ->
  exists vs vs', get_vals l = Some vs /\ get_vals l' = Some vs' /\ rdv_all a vs = rdv_all b vs'.
Proof.
  intros H. induction H as [|o o' l l' Ho H IH]; intros Hv.
  - exists [], []. auto.
  - cbn [forallb] in Hv. apply andb_true_iff in Hv as [H1 H2].
    apply is_val_inv in H1 as [v ->]. apply osim_AV in Ho as [v' [-> Hvs]].
    destruct (IH H2) as [vs [vs' [E1 [E2 E3]]]].
    exists (v :: vs), (v' :: vs'). cbn [get_vals]. rewrite E1, E2. cbn [option_map rdv_all].
    rewrite (rdv_sim _ _ _ _ Hvs), E3. auto.
Qed.

Lemma get_imms_lit l : forallb is_litop l = true -> exists imms, get_imms l = Some imms.
Proof.
  induction l as [|o l IH]; intros H.
  - exists []. reflexivity.
  - cbn [forallb] in H. apply andb_true_iff in H as [H1 H2]. apply is_litop_inv in H1 as [z ->].
    destruct (IH H2) as [imms E]. exists (z :: imms). cbn [get_imms]. rewrite E. reflexivity.
Qed.

(* the literal immediates survive the replacement pass unchanged *)
Lemma skipn_keep ex mn nq ni ops ops' :
  (forall j, (nq <= j < nq + ni)%nat -> is_exempt ex mn j = true) ->
  List.length ops = (nq + ni)%nat -> List.length ops' = List.length ops ->
  forallb is_litop (skipn nq ops) = true ->
  (forall j z, is_exempt ex mn j = true -> nth_error ops j = Some (AV (VLit z)) ->
               nth_error ops' j = Some (AV (VLit z))) ->
  skipn nq ops' = skipn nq ops.
Proof.
  intros Hex Hlen Hlen' Hlit Hkeep. apply nth_error_ext_q. intros j.
  rewrite !nth_error_skipn_q.
  destruct (nth_error ops (nq + j)) as [o|] eqn:Ho.
  - assert (Hlt : (nq + j < List.length ops)%nat) by (apply nth_error_Some; congruence).
    assert (Hin : In o (skipn nq ops)).
    { apply nth_error_In with j. rewrite nth_error_skipn_q. exact Ho. }
    rewrite forallb_forall in Hlit. apply Hlit in Hin. apply is_litop_inv in Hin as [z ->].
    apply Hkeep; [apply Hex; lia|exact Ho].
  - apply nth_error_None. apply nth_error_None in Ho. lia.
Qed.

(* ====================================================================== *)
(* 5. what a classical instruction makes visible                          *)
(* ====================================================================== *)

Lemma events_of_sim pr nm tbl o ops ops' a b :
  shape_ok o ops = true -> Forall2 (osim tbl a b) ops ops' -> eqv pr nm a b ->
  events_of o ops a = events_of o ops' b.
Proof.
  intros Hshape HF He. pose proof He as [Hm _].
  destruct o; try reflexivity.
  - (* ret_reg *)
    destruct ops as [|r [|? ?]]; try discriminate Hshape.
    cbn [shape_ok] in Hshape. apply is_regop_inv in Hshape as [b0 [i ->]].
    inv_f2 HF. pose proof Ho as Ho'. apply osim_reg in Ho. subst.
    apply osim_AV in Ho' as [v' [Hv' Hv]]. injection Hv' as <-.
    cbn [events_of]. rewrite (rdv_sim _ _ _ _ Hv). reflexivity.
  - (* ret_arr *)
    destruct ops as [|r [|? ?]]; try discriminate Hshape.
    cbn [shape_ok] in Hshape. apply is_addr_inv in Hshape as [a0 ->].
    inv_f2 HF. apply osim_addr in Ho. subst.
    cbn [events_of]. rewrite Hm. reflexivity.
Qed.

(* ====================================================================== *)
(* 6. one instruction of the event semantics                              *)
(* ====================================================================== *)

Theorem exec_q_rel pr nm tbl mn ops ops' ss st :
  qexempt_ok (ap_exempt pr) = true ->
  cmd_shape_q (AIns mn [] ops) = true ->
  Forall2 (osim tbl (qa_st ss) (qa_st st)) ops ops' ->
  eqv_q pr nm ss st ->
  (forall b i, In (AV (VReg b i)) ops -> ~ scratch pr nm (b, i)) ->
  (forall j z, is_exempt (ap_exempt pr) mn j = true -> nth_error ops j = Some (AV (VLit z)) ->
               nth_error ops' j = Some (AV (VLit z))) ->
  qeres_rel pr nm tbl (exec_q mn ops ss) (exec_q mn ops' st).
Proof.
  intros Hqex Hshape HF Heq Hdst Hkeep.
  destruct Heq as [He [Hum [Hsc Htr]]].
  unfold cmd_shape_q in Hshape. cbv zeta in Hshape. change (all_ops [] ops) with ops in Hshape.
  unfold exec_q. revert Hshape. destruct (qkind_of mn) eqn:Hk; intros Hshape.
  - (* classical: exec_rel, and the events agree *)
    assert (Hset : opc_of mn = Xset -> forall d z, ops = [d; AV (VLit z)] -> exists d', ops' = [d'; AV (VLit z)]).
    { intros Ho d z Hops. apply opc_of_set_inv in Ho.
      assert (H1 : is_exempt (ap_exempt pr) mn 1 = true) by (rewrite Ho; apply qexempt_set; exact Hqex).
      assert (Hn0 : nth_error ops 1 = Some (AV (VLit z))) by (rewrite Hops; reflexivity).
      pose proof (Hkeep 1%nat z H1 Hn0) as Hn.
      rewrite Hops in HF. inv_f2 HF. cbn [nth_error] in Hn. injection Hn as ->. eexists. reflexivity. }
    pose proof (exec_rel pr nm tbl (opc_of mn) ops ops' (qa_st ss) (qa_st st) Hshape HF He Hdst Hset) as Hexec.
    pose proof (events_of_sim pr nm tbl (opc_of mn) ops ops' _ _ Hshape HF He) as Hev.
    destruct (exec (opc_of mn) ops (qa_st ss)) as [x|t x| |];
      destruct (exec (opc_of mn) ops' (qa_st st)) as [y|t' y| |];
      cbn [eres_rel] in Hexec; try contradiction; cbn [qeres_rel].
    + unfold eqv_q, with_st. cbn [qa_st qa_um qa_script qa_trace]. rewrite Hev, Htr.
      split4; [exact Hexec|exact Hum|exact Hsc|reflexivity].
    + destruct Hexec as [Hxy [-> Hl]]. unfold eqv_q, with_st. cbn [qa_st qa_um qa_script qa_trace app].
      split; [|split; [reflexivity|exact Hl]].
      split4; [exact Hxy|exact Hum|exact Hsc|exact Htr].
    + exact I.
    + exact I.
  - (* gate: same operand values, same immediates *)
    apply andb_true_iff in Hshape as [H12 H3]. apply andb_true_iff in H12 as [H1 H2].
    apply Nat.eqb_eq in H1.
    assert (Hlen' : List.length ops' = List.length ops) by (symmetry; eapply Forall2_length_q; exact HF).
    rewrite Hlen', H1, Nat.eqb_refl.
    destruct (get_vals_sim tbl _ _ _ _ (Forall2_firstn_q _ _ _ HF nq) H2) as [vs [vs' [E1 [E2 E3]]]].
    rewrite E1, E2.
    rewrite (skipn_keep (ap_exempt pr) mn nq ni ops ops'
               (fun j Hj => gate_imm_exempt _ _ _ _ _ Hqex Hk Hj) H1 Hlen' H3 Hkeep).
    destruct (get_imms_lit _ H3) as [imms ->].
    rewrite E3. destruct (rdv_all (qa_st st) vs') as [qs|]; cbn [qeres_rel]; [|exact I].
    unfold eqv_q, with_st. cbn [qa_st qa_um qa_script qa_trace]. rewrite Htr.
    split4; [exact He|exact Hum|exact Hsc|reflexivity].
  - (* meas *)
    destruct ops as [|q [|c [|? ?]]]; try discriminate Hshape.
    apply andb_true_iff in Hshape as [H1 H2].
    apply is_val_inv in H1 as [vq ->]. apply is_regop_inv in H2 as [b [i ->]].
    inv_f2 HF. apply osim_AV in Ho as [vq' [-> Hvq]]. apply osim_reg in Ho0. subst.
    cbv beta iota zeta. rewrite (rdv_sim _ _ _ _ Hvq), Hsc, Htr.
    destruct (rdv (qa_st st) vq') as [qa|]; [|exact I].
    cbn [wr]. destruct (reg_ok b i); cbn [qeres_rel]; [|exact I].
    unfold eqv_q. cbn [qa_st qa_um qa_script qa_trace].
    split4; [|exact Hum|reflexivity|reflexivity].
    destruct He as [Hm Hr]. split; cbn [s_mem s_regs]; [exact Hm|].
    intros r Hr'. unfold upd_reg. destruct (reg_eqb (b, i) r); [reflexivity|apply Hr; exact Hr'].
  - (* qalloc *)
    destruct ops as [|q [|? ?]]; try discriminate Hshape.
    apply is_val_inv in Hshape as [vq ->]. inv_f2 HF. apply osim_AV in Ho as [vq' [-> Hvq]].
    cbv beta iota zeta. rewrite (rdv_sim _ _ _ _ Hvq), Hum, Htr.
    destruct (rdv (qa_st st) vq') as [qa|]; [|exact I].
    destruct (qa <? 0); [exact I|].
    destruct (nth_error (qa_um st) (Z.to_nat qa)) as [[|]|]; cbn [qeres_rel]; try exact I.
    unfold eqv_q. cbn [qa_st qa_um qa_script qa_trace].
    split4; [exact He|reflexivity|exact Hsc|reflexivity].
  - (* qfree *)
    destruct ops as [|q [|? ?]]; try discriminate Hshape.
    apply is_val_inv in Hshape as [vq ->]. inv_f2 HF. apply osim_AV in Ho as [vq' [-> Hvq]].
    cbv beta iota zeta. rewrite (rdv_sim _ _ _ _ Hvq), Hum, Htr.
    destruct (rdv (qa_st st) vq') as [qa|]; [|exact I].
    destruct (qa <? 0); [exact I|].
    destruct (nth_error (qa_um st) (Z.to_nat qa)) as [[|]|]; cbn [qeres_rel]; try exact I.
    unfold eqv_q. cbn [qa_st qa_um qa_script qa_trace].
    split4; [exact He|reflexivity|exact Hsc|reflexivity].
  - (* other: outside the model on both sides *)
    exact I.
Qed.

(* ====================================================================== *)
(* 7. runs                                                                *)
(* ====================================================================== *)

Lemma arun_q_add P a b c : arun_q P (a + b) c = arun_q P b (arun_q P a c).
Proof.
  revert c. induction a as [|a IH]; intros c; [reflexivity|].
  cbn [Nat.add arun_q]. destruct c as [pc st|st|k st|k st]; try (destruct b; reflexivity). apply IH.
Qed.

Lemma arun_q_terminal P n c : (forall pc s, c <> QRun pc s) -> arun_q P n c = c.
Proof. intros H. destruct n; [reflexivity|]. destruct c; try reflexivity. exfalso. eapply H. reflexivity. Qed.

Lemma arun_q_stable P n m c :
  (forall pc s, arun_q P n c <> QRun pc s) -> (n <= m)%nat -> arun_q P m c = arun_q P n c.
Proof.
  intros H Hle. replace m with (n + (m - n))%nat by lia. rewrite arun_q_add. apply arun_q_terminal. exact H.
Qed.

(* an inserted set: the register is written, nothing is emitted *)
Lemma exec_q_set b i z s :
  reg_ok b i = true ->
  exec_q SET [AV (VReg b i); AV (VLit z)] s =
  QENext (mkQA (mkSt (upd_reg (s_regs (qa_st s)) (b, i) z) (s_mem (qa_st s))) (qa_um s) (qa_script s) (qa_trace s)).
Proof.
  intros H. unfold exec_q. rewrite qkind_set, opc_of_set. cbn [exec wr]. rewrite H.
  cbn [next_or_fault events_of]. unfold with_st. reflexivity.
Qed.

(* the inserted sets run without fault, only write their scratch registers, and
   leave unit module, script and TRACE untouched *)
Lemma run_sets_q T ps : forallb is_ins T = true ->
  forall base s,
  (forall i, (i < List.length ps)%nat -> nth_error T (base + i) = nth_error (map setc ps) i) ->
  Forall (fun p => reg_ok (fst (fst p)) (snd (fst p)) = true) ps ->
  arun_q T (List.length ps) (QRun base s) =
  QRun (base + List.length ps) (mkQA (apply_sets ps (qa_st s)) (qa_um s) (qa_script s) (qa_trace s)).
Proof.
  intros HT. induction ps as [|p ps IH]; intros base s Hnth Hok.
  - destruct s as [st um sc tr]. cbn [List.length arun_q apply_sets fold_left qa_st qa_um qa_script qa_trace].
    f_equal. lia.
  - inversion Hok as [|? ? Hp Hok']; subst. destruct p as [[b i] z]. cbn [fst snd] in Hp.
    cbn [List.length arun_q]. unfold astep_q. rewrite (fetch_nolab T HT).
    pose proof (Hnth O ltac:(cbn [List.length]; lia)) as H0. rewrite Nat.add_0_r in H0.
    rewrite H0. cbn [map nth_error setc set_cmd all_ops app fst snd].
    rewrite (exec_q_set b i z s Hp).
    rewrite IH.
    + cbn [apply_sets fold_left qa_st qa_um qa_script qa_trace fst snd]. f_equal. lia.
    + intros j Hj. specialize (Hnth (S j) ltac:(cbn [List.length]; lia)).
      replace (S base + j)%nat with (base + S j)%nat by lia. rewrite Hnth. reflexivity.
    + exact Hok'.
Qed.

(* ====================================================================== *)
(* 8. the simulation                                                      *)
(* ====================================================================== *)

Section SimQ.
  Variables (pr : aparams) (P T : list acmd).
  Hypothesis Hpar : params_ok pr = true.
  Hypothesis Hqex : qexempt_ok (ap_exempt pr) = true.
  Hypothesis Hwf : wf_src_q P = true.
  Hypothesis Hasm : assemble_ir pr P = AOk T.

  Lemma step_sim_q pc ss st :
    eqv_q pr (named P) ss st ->
    exists m, (1 <= m)%nat /\ cfg_rel_q pr P (astep_q P pc ss) (arun_q T m (QRun (pcmap pr P pc) st)).
  Proof.
    intros Heq.
    destruct (assemble_struct _ _ _ Hasm) as [tbl [Htbl [HT HF]]].
    pose proof (table_is_pcmap _ _ _ Htbl HF) as Hfind.
    pose proof Hwf as Hwf'.
    set (nm := named P) in *.
    assert (HTnl : forallb is_ins T = true) by (rewrite HT; apply blocks_nolab).
    assert (HTlen : List.length T = pcmap_from pr nm P (List.length P))
      by (rewrite HT; apply length_blocks; exact HF).
    unfold astep_q at 1. pose proof (fetch_pcmap pr nm P pc) as Hf.
    destruct (fetch P pc) as [[[k mn] ops]|].
    2:{ (* no instruction left: both halt *)
      exists 1%nat. split; [lia|]. cbn [arun_q]. unfold astep_q. rewrite (fetch_nolab T HTnl).
      unfold pcmap. fold nm. rewrite Hf, <- HTlen.
      assert (Hn : nth_error T (List.length T) = None) by (apply nth_error_None; lia).
      rewrite Hn. cbn [cfg_rel_q]. exact Heq. }
    destruct Hf as [[args [ops0 [Hk ->]]] Hpc].
    assert (Hok : cmd_ok pr nm (AIns mn args ops0)).
    { rewrite Forall_forall in HF. apply HF. eapply nth_error_In. exact Hk. }
    cbn [cmd_ok] in Hok.
    destruct (repl_ops pr nm mn 0 (all_ops args ops0) []) as [[[s ops'] tmp]|] eqn:Hr; [|congruence].
    destruct (repl_ops_spec _ _ _ _ _ _ _ _ _ Hr (good_tmp_nil pr nm)) as [ps [-> [Htmp [[Hnd Hsc] Hrel]]]].
    cbn [app] in Htmp. subst tmp.
    assert (Hblk : blk pr nm tbl (AIns mn args ops0) = map setc ps ++ [AIns mn [] (map (resolve_opnd tbl) ops')])
      by (cbn [blk]; rewrite Hr; reflexivity).
    assert (Hns : nsets pr nm (AIns mn args ops0) = List.length ps)
      by (cbn [nsets]; rewrite Hr, map_length; reflexivity).
    set (base := pcmap_from pr nm P k) in *.
    assert (Hnth : forall i, (i <= List.length ps)%nat ->
              nth_error T (base + i) = nth_error (map setc ps ++ [AIns mn [] (map (resolve_opnd tbl) ops')]) i).
    { intros i Hi. rewrite HT, <- Hblk. apply nth_block; [exact HF|exact Hk|].
      rewrite Hblk, app_length, map_length. cbn [List.length]. lia. }
    (* the sets *)
    set (sta' := apply_sets ps (qa_st st)).
    set (st' := mkQA sta' (qa_um st) (qa_script st) (qa_trace st)).
    assert (Hrun : arun_q T (List.length ps) (QRun base st) = QRun (base + List.length ps) st').
    { unfold st', sta'. apply run_sets_q; [exact HTnl| |].
      - intros i Hi. rewrite (Hnth i ltac:(lia)). apply nth_error_app1. rewrite map_length. exact Hi.
      - rewrite Forall_forall. intros [r z] Hin. cbn [fst].
        apply (scratch_reg_ok pr nm r Hpar). rewrite Forall_forall in Hsc. apply Hsc.
        apply in_map_iff. exists (r, z). auto. }
    destruct Heq as [He [Hum [Hscr Htr]]].
    assert (HeA : eqv pr nm (qa_st ss) sta').
    { destruct He as [Hm Hregs]. split.
      - unfold sta'. rewrite apply_sets_mem. exact Hm.
      - intros r Hr'. unfold sta'. rewrite apply_sets_other; [apply Hregs; exact Hr'|].
        intros Hin. apply Hr'. rewrite Forall_forall in Hsc. apply Hsc. exact Hin. }
    assert (He' : eqv_q pr nm ss st').
    { unfold eqv_q, st'. cbn [qa_st qa_um qa_script qa_trace]. auto. }
    assert (Hps : forall r z, In (r, z) ps -> reg_ok (fst r) (snd r) = true /\ s_regs sta' r = Some z).
    { intros r z Hin. split.
      - apply (scratch_reg_ok pr nm r Hpar). rewrite Forall_forall in Hsc. apply Hsc.
        apply in_map_iff. exists (r, z). auto.
      - unfold sta'. apply apply_sets_in; assumption. }
    (* the instruction itself *)
    exists (List.length ps + 1)%nat. split; [lia|].
    unfold pcmap. fold nm. rewrite <- Hpc. fold base.
    rewrite arun_q_add, Hrun. cbn [arun_q]. unfold astep_q at 1. rewrite (fetch_nolab T HTnl).
    rewrite (Hnth (List.length ps) (le_n _)).
    rewrite nth_error_app2 by (rewrite map_length; lia).
    rewrite map_length, Nat.sub_diag. cbn [nth_error all_ops map app].
    assert (Hnamed : forall r, In r (flat_map regs_of_opnd (all_ops args ops0)) -> ~ scratch pr nm r).
    { intros r Hin [_ [_ Hni]]. apply Hni. eapply regs_in_named; eassumption. }
    assert (Hshape : cmd_shape_q (AIns mn [] (all_ops args ops0)) = true).
    { unfold wf_src_q in Hwf'. rewrite forallb_forall in Hwf'.
      change (cmd_shape_q (AIns mn args ops0) = true). apply Hwf'. eapply nth_error_In. exact Hk. }
    assert (Hdst : forall b i, In (AV (VReg b i)) (all_ops args ops0) -> ~ scratch pr nm (b, i)).
    { intros b i Hin. apply Hnamed. apply in_flat_map. exists (AV (VReg b i)).
      split; [exact Hin|left; reflexivity]. }
    assert (Hkeep : forall j z, is_exempt (ap_exempt pr) mn j = true ->
              nth_error (all_ops args ops0) j = Some (AV (VLit z)) ->
              nth_error (map (resolve_opnd tbl) ops') j = Some (AV (VLit z))).
    { intros j z Hj Hn. destruct (ops_rel_nth _ _ _ _ _ _ _ _ Hrel Hn) as [o' [E1 E2]].
      cbn [Nat.add op_rel] in E2. rewrite Hj in E2. subst o'.
      rewrite nth_error_map, E1. reflexivity. }
    pose proof (exec_q_rel pr nm tbl mn (all_ops args ops0) (map (resolve_opnd tbl) ops') ss st'
                  Hqex Hshape (ops_rel_osim pr nm tbl ps (qa_st ss) sta' HeA Hps _ _ _ _ _ Hrel Hnamed)
                  He' Hdst Hkeep) as Hexec.
    assert (Hlast : last_line pr P k = (base + List.length ps)%nat).
    { unfold last_line, pcmap. fold nm. fold base. rewrite Hk, Hns. reflexivity. }
    assert (HS : pcmap pr P (S k) = S (base + List.length ps)).
    { unfold pcmap. fold nm. rewrite (pcmap_from_S _ _ _ _ _ Hk). fold base. cbn [bsize]. rewrite Hns. lia. }
    destruct (exec_q mn (all_ops args ops0) ss) as [x|t x| |];
      destruct (exec_q mn (map (resolve_opnd tbl) ops') st') as [y|t' y| |];
      cbn [qeres_rel] in Hexec; try contradiction.
    - cbn [cfg_rel_q]. split; [symmetry; exact HS|exact Hexec].
    - destruct Hexec as [Hxy [-> Hlab]]. apply is_label_inv in Hlab as [l ->].
      cbn [target resolve_opnd]. rewrite Hfind.
      destruct (label_pos P l) as [j|]; cbn [option_map target].
      + assert (H0 : (0 <=? Z.of_nat (pcmap pr P j)) = true) by (apply Z.leb_le; lia).
        rewrite H0, Nat2Z.id. cbn [cfg_rel_q]. split; [reflexivity|exact Hxy].
      + rewrite (label_pos_nolab T l HTnl). cbn [cfg_rel_q]. split; [symmetry; exact Hlast|exact He'].
    - cbn [cfg_rel_q]. split; [symmetry; exact Hlast|exact He'].
    - cbn [cfg_rel_q]. split; [symmetry; exact Hlast|exact He'].
  Qed.

  Lemma sim_steps_q : forall n a b,
    cfg_rel_q pr P a b ->
    exists m, (n <= m)%nat /\ cfg_rel_q pr P (arun_q P n a) (arun_q T m b).
  Proof.
    induction n as [|n IH]; intros a b Hab.
    - exists O. split; [lia|exact Hab].
    - destruct a as [pc ss|ss|k ss|k ss]; destruct b as [pc' st|st|k' st|k' st]; cbn [cfg_rel_q] in Hab; try contradiction.
      + destruct Hab as [-> He]. destruct (step_sim_q pc ss st He) as [m1 [Hm1 Hrel]].
        destruct (IH _ _ Hrel) as [m2 [Hm2 Hrel2]].
        exists (m1 + m2)%nat. split; [lia|]. cbn [arun_q]. rewrite arun_q_add. exact Hrel2.
      + exists (S n). split; [lia|]. cbn [arun_q cfg_rel_q]. exact Hab.
      + exists (S n). split; [lia|]. cbn [arun_q cfg_rel_q]. exact Hab.
      + exists (S n). split; [lia|]. cbn [arun_q cfg_rel_q]. exact Hab.
  Qed.
End SimQ.

(* C03 over the event semantics: for every well-formed source program (classical
   instructions, gates, meas, qalloc, qfree, returns) that the assembler accepts,
   every start state (registers, memory, unit module, measurement script, trace
   so far) and every number n of source steps, the assembled program reaches
   after some m >= n steps the corresponding configuration: same position through
   the line map, equal memory, equal registers except unnamed R registers, equal
   unit module, equal remaining script and THE SAME EVENT TRACE, and the same kind
   of outcome (halted / fault / outside the model) at the mapped line. *)
Theorem assemble_simulates_q pr P T :
  params_ok pr = true -> qexempt_ok (ap_exempt pr) = true ->
  wf_src_q P = true -> assemble_ir pr P = AOk T ->
  forall n ss st, eqv_q pr (named P) ss st ->
  exists m, (n <= m)%nat /\ cfg_rel_q pr P (arun_q P n (QRun 0 ss)) (arun_q T m (QRun 0 st)).
Proof.
  intros Hpar Hqex Hwf Hasm n ss st He.
  apply (sim_steps_q pr P T Hpar Hqex Hwf Hasm n (QRun 0 ss) (QRun 0 st)).
  cbn [cfg_rel_q]. split; [unfold pcmap; destruct P; reflexivity|exact He].
Qed.

(* the instruction objects of a flavour: what the executor runs is the simulated program *)
Theorem assemble_simulates_flavour_q pr t P B :
  params_ok pr = true -> qexempt_ok (ap_exempt pr) = true ->
  wf_src_q P = true -> assemble pr t P = AOk B ->
  forall n ss st, eqv_q pr (named P) ss st ->
  exists m, (n <= m)%nat /\ cfg_rel_q pr P (arun_q P n (QRun 0 ss)) (arun_q (map embed B) m (QRun 0 st)).
Proof.
  intros Hpar Hqex Hwf Hasm. unfold assemble, abind in Hasm.
  destruct (assemble_ir pr P) as [T|e] eqn:HT; [|discriminate].
  destruct (build t T) as [B'|] eqn:HB; [|discriminate]. injection Hasm as ->.
  destruct (assemble_struct _ _ _ HT) as [tbl [_ [HT' _]]].
  rewrite (build_embed _ _ _ HB) by (rewrite HT'; apply blocks_noargs).
  exact (assemble_simulates_q pr P T Hpar Hqex Hwf HT).
Qed.

(* a source run that has halted / faulted / left the model is matched for every
   sufficiently large fuel *)
Corollary assemble_preserves_result_q pr P T :
  params_ok pr = true -> qexempt_ok (ap_exempt pr) = true ->
  wf_src_q P = true -> assemble_ir pr P = AOk T ->
  forall n ss st, eqv_q pr (named P) ss st ->
  (forall pc s, arun_q P n (QRun 0 ss) <> QRun pc s) ->
  exists m0, forall m, (m0 <= m)%nat -> cfg_rel_q pr P (arun_q P n (QRun 0 ss)) (arun_q T m (QRun 0 st)).
Proof.
  intros Hpar Hqex Hwf Hasm n ss st He Hterm.
  destruct (assemble_simulates_q pr P T Hpar Hqex Hwf Hasm n ss st He) as [m0 [_ Hrel]].
  exists m0. intros m Hm. rewrite (arun_q_stable T m0 m); [exact Hrel| |exact Hm].
  intros pc s E. rewrite E in Hrel.
  destruct (arun_q P n (QRun 0 ss)) as [pc0 s0|s0|k s0|k s0]; cbn [cfg_rel_q] in Hrel; try contradiction.
  eapply Hterm. reflexivity.
Qed.

(* the trace statement made explicit: whenever the source has finished, the
   assembled program finishes in the same way with the same event trace, unit
   module and remaining script (the inserted sets emit nothing) *)
Corollary assemble_trace_q pr P T :
  params_ok pr = true -> qexempt_ok (ap_exempt pr) = true ->
  wf_src_q P = true -> assemble_ir pr P = AOk T ->
  forall n ss st, eqv_q pr (named P) ss st ->
  forall s, arun_q P n (QRun 0 ss) = QHalted s ->
  exists m t, arun_q T m (QRun 0 st) = QHalted t /\ qa_trace t = qa_trace s /\ qa_um t = qa_um s
              /\ qa_script t = qa_script s /\ eqv pr (named P) (qa_st s) (qa_st t).
Proof.
  intros Hpar Hqex Hwf Hasm n ss st He s Hs.
  destruct (assemble_simulates_q pr P T Hpar Hqex Hwf Hasm n ss st He) as [m [_ Hrel]].
  rewrite Hs in Hrel.
  destruct (arun_q T m (QRun 0 st)) as [pc0 t|t|k t|k t] eqn:Ht; cbn [cfg_rel_q] in Hrel; try contradiction.
  destruct Hrel as [H1 [H2 [H3 H4]]].
  exists m, t. split; [exact Ht|]. split4; [symmetry; exact H4|symmetry; exact H2|symmetry; exact H3|exact H1].
Qed.

(* C03 over the event semantics, text level *)
Theorem text_program_meaning_q pr bk gi t ds P :
  banks_ok bk = true -> ginstrs_ok gi = true ->
  params_ok pr = true -> qexempt_ok (ap_exempt pr) = true ->
  wf_proto bk gi P = true -> wf_src_q P = true -> forallb deco_ok ds = true ->
  exists R, assemble_text pr bk gi t (decorate ds (print_proto bk P)) = Some R /\ R = assemble pr t P /\
  forall B, R = AOk B ->
  forall n ss st, eqv_q pr (named P) ss st ->
  exists m, (n <= m)%nat /\ cfg_rel_q pr P (arun_q P n (QRun 0 ss)) (arun_q (map embed B) m (QRun 0 st)).
Proof.
  intros Hb Hg Hpar Hqex Hwf Hsrc Hd. exists (assemble pr t P). split; [|split; [reflexivity|]].
  - unfold assemble_text. rewrite (parse_decorated_proto bk gi ds P Hb Hg Hwf Hd). reflexivity.
  - intros B HB. exact (assemble_simulates_flavour_q pr t P B Hpar Hqex Hsrc HB).
Qed.

(* ====================================================================== *)
(* 9. on classical programs the event interpreter is the classical one    *)
(* ====================================================================== *)

Definition is_classical_cmd (c : acmd) : bool :=
  match c with
  | ALab _ => true
  | AIns mn _ _ => match qkind_of mn with QKclassical => true | _ => false end
  end.

Definition proj_cfg (c : qacfg) : acfg :=
  match c with
  | QRun pc s => Run pc (qa_st s)
  | QHalted s => Halted (qa_st s)
  | QFault k s => Fault k (qa_st s)
  | QStuck k s => Stuck k (qa_st s)
  end.

Lemma astep_q_classical P pc s :
  forallb is_classical_cmd P = true -> proj_cfg (astep_q P pc s) = astep P pc (qa_st s).
Proof.
  intros Hc. unfold astep_q, astep.
  pose proof (fetch_pcmap (mkAP 0 0 []) [] P pc) as Hf.
  destruct (fetch P pc) as [[[k mn] ops]|]; [|reflexivity].
  destruct Hf as [[args [ops0 [Hk _]]] _].
  rewrite forallb_forall in Hc. specialize (Hc _ (nth_error_In _ _ Hk)). cbn [is_classical_cmd] in Hc.
  unfold exec_q. destruct (qkind_of mn); try discriminate Hc.
  destruct (exec (opc_of mn) ops (qa_st s)) as [x|t x| |]; cbn [proj_cfg]; try reflexivity.
  destruct (target P t); reflexivity.
Qed.

(* forgetting unit module, script and trace, a program of classical instructions
   runs under arun_q exactly as under arun *)
Lemma arun_q_classical P :
  forallb is_classical_cmd P = true ->
  forall n c, proj_cfg (arun_q P n c) = arun P n (proj_cfg c).
Proof.
  intros Hc. induction n as [|n IH]; intros c; [reflexivity|].
  destruct c as [pc s|s|k s|k s]; cbn [arun_q arun proj_cfg]; try reflexivity.
  rewrite IH, (astep_q_classical P pc s Hc). reflexivity.
Qed.

(* ====================================================================== *)
(* 10. the hypotheses are satisfiable: a program with a gate on a literal  *)
(*     qubit (materialised into a scratch register), immediates, a         *)
(*     measurement and a return                                           *)
(* ====================================================================== *)

Local Open Scope string_scope.
Definition exq_exempt : list (string * nat) :=
  ("set", 1%nat) ::
  flat_map (fun e => map (fun j => (fst e, j)) (seq (fst (snd e)) (snd (snd e)))) gate_table.
Definition exq_params : aparams := mkAP 16 0 exq_exempt.
Definition exq_prog : list acmd :=
  [ AIns "set" [] [AV (VReg 2 0); AV (VLit 0)];
    AIns "qalloc" [] [AV (VReg 2 0)];
    AIns "init" [] [AV (VReg 2 0)];
    ALab "L";
    AIns "rot_x" [] [AV (VLit 0); AV (VLit 1); AV (VLit 2)];
    AIns "meas" [] [AV (VReg 2 0); AV (VReg 3 0)];
    AIns "bez" [] [AV (VReg 3 0); ALabel "L"];
    AIns "qfree" [] [AV (VLit 0)];
    AIns "ret_reg" [] [AV (VReg 3 0)] ].
Local Close Scope string_scope.

Example asmq_nonvacuous :
  params_ok exq_params = true /\ qexempt_ok (ap_exempt exq_params) = true /\ wf_src_q exq_prog = true /\
  exists T,
    assemble_ir exq_params exq_prog = AOk T /\ List.length T = 10%nat /\
    match arun_q exq_prog 20 (QRun 0 (init_qstate 2 [0; 1])), arun_q T 20 (QRun 0 (init_qstate 2 [0; 1])) with
    | QHalted s, QHalted t =>
        qa_trace t = qa_trace s /\ qa_um t = qa_um s /\ qa_script t = qa_script s /\
        qa_trace s = [EvRetReg (3, 0) 1; EvFree 0; EvMeas 0 1; EvGate "rot_x" [1; 2] [0]; EvMeas 0 0;
                      EvGate "rot_x" [1; 2] [0]; EvGate "init" [] [0]; EvAlloc 0]
    | _, _ => False
    end.
Proof.
  split; [vm_compute; reflexivity|]. split; [vm_compute; reflexivity|]. split; [vm_compute; reflexivity|].
  eexists. split; [vm_compute; reflexivity|]. split; [vm_compute; reflexivity|].
  vm_compute. repeat split; reflexivity.
Qed.
