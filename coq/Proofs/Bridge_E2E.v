(* Bridge_E2E.v — the end-to-end chain
     eval_prog (C05's specification of an SDK program)
       = Target: run_blocks of flatten (lower P), flush by flush      [C05: block_step, flatten_correct]
       ~ AsmSemQ on the flat code read as a proto-program               [Bridge_SdkAsm.frun_sim]
       ~ AsmSemQ on the assembled program                               [C03: assemble_trace_q]
       ~ SemQ.qrun on the embedded assembled program                    [Bridge_AsmQ.asmq_bridge]
   where SemQ is the semantics C04 ties to executor.py.

   Registers at flush boundaries: the assembler's scratch registers make the
   assembled run differ from the source run on R registers the source does not
   name; C05's relation at a block start (BlockStart) does not mention any
   register, so the Target state is re-based on the assembled state's register
   file at every flush (with_mreg). *)
From Coq Require Import ZArith List Bool Arith Lia.
From NQ Require Import Sdk.SdkAst Sdk.Target Sdk.Eval Sdk.MemMgr Sdk.Lower Sdk.Flatten Sdk.Wf.
From NQ Require Import Proofs.SdkInvProofs Proofs.SdkFlattenProofs Proofs.SdkSimProofs Proofs.SdkTopProofs.
From NQ Require Lang.Asm Lang.AsmSem Lang.AsmSemQ Proofs.AsmProofs Proofs.AsmQProofs.
From NQ Require Exec.State Exec.Sem Exec.SemQ Proofs.SemQProofs.
From NQ Require Proofs.Bridge_Asm Proofs.Bridge_AsmQ Proofs.Bridge_SdkAsm.
Import ListNotations.

Module BA := NQ.Proofs.Bridge_AsmQ.
Module BS := NQ.Proofs.Bridge_SdkAsm.
Module Q := NQ.Exec.SemQ.

(* ------------------------------------------------------------------ several blocks on the common semantics *)
Fixpoint qrun_blocks (fuel : nat) (qps : list (list Q.qinstr)) (s : Q.qstate) : Q.qstate * State.outcome :=
  match qps with
  | [] => (s, State.Halt)
  | qp :: r =>
      match Q.qrun qp s fuel with
      | (s', _, State.Halt) => qrun_blocks fuel r s'
      | (s', _, o) => (s', o)
      end
  end.

(* no block of the run meets behaviour the common semantics leaves open *)
Fixpoint qblocks_defined (qps : list (list Q.qinstr)) (s : Q.qstate) : Prop :=
  match qps with
  | [] => True
  | qp :: r => Q.qdefined_domain qp s /\
               forall fuel s' pc, Q.qrun qp s fuel = (s', pc, State.Halt) -> qblocks_defined r s'
  end.

(* the subroutine sent at each flush: flat code -> proto-program -> assembler -> instruction list *)
Inductive compiled (pr : Asm.aparams) (cap : nat) : list (option (list sir)) -> list (list Q.qinstr) -> Prop :=
| comp_nil : compiled pr cap [] []
| comp_none : forall bs qps, compiled pr cap bs qps -> compiled pr cap (None :: bs) qps
| comp_some : forall code bs P T qp qps,
    BS.t_prog (flatten code) = Some P ->
    BS.code_ok cap (flatten code) = true ->
    Asm.assemble_ir pr P = Asm.AOk T ->
    BA.e_qprog T = Some qp ->
    compiled pr cap bs qps -> compiled pr cap (Some code :: bs) (qp :: qps).

(* ------------------------------------------------------------------ C05's relation does not see registers at a block start *)
Definition with_mreg (s : mst) (f : reg -> option Z) : mst :=
  mkM f (m_arr s) (m_alloc s) (m_inst s) (m_n s) (m_script s) (m_trace s).

Lemma TRel_with_mreg : forall st e s f, BlockStart st -> TRel st e s -> TRel st e (with_mreg s f).
Proof.
  intros st e s f [Blv Bdecl Bret Brf] [[A B C D E F G HH II J K RD1 RD2] Fr]. split; [|exact Fr].
  constructor; cbn [with_mreg m_reg m_arr m_alloc m_inst m_n m_script m_trace]; try assumption.
  - intros r m Hr. exfalso. exact (Brf _ _ Hr).
  - intros v r Hv. rewrite Blv in Hv. discriminate.
Qed.

(* the Target state re-based on the register file of an AsmSemQ state *)
Definition regs_of (qa : AsmSemQ.qastate) : reg -> option Z :=
  fun r => match r with Rg b i => AsmSem.s_regs (AsmSemQ.qa_st qa) (BS.t_bank b, Z.of_nat i) end.

Lemma lrel_rebase : forall ms qsrc t pr nm,
  BS.lrel ms qsrc ->
  AsmSemQ.qa_trace t = AsmSemQ.qa_trace qsrc -> AsmSemQ.qa_um t = AsmSemQ.qa_um qsrc ->
  AsmSemQ.qa_script t = AsmSemQ.qa_script qsrc ->
  AsmProofs.eqv pr nm (AsmSemQ.qa_st qsrc) (AsmSemQ.qa_st t) ->
  BS.lrel (with_mreg ms (regs_of t)) t.
Proof.
  intros ms qsrc t pr nm [A B C D E] Ht Hu Hs [Hm _].
  constructor; cbn [with_mreg m_reg m_arr m_alloc m_inst m_n m_script m_trace].
  - intros b i. reflexivity.
  - intro a. rewrite <- Hm. apply B.
  - intro k. rewrite Hu. apply C.
  - rewrite Hs. exact D.
  - rewrite Ht. unfold BS.trace_rel in *. cbn [with_mreg m_inst m_n m_trace]. exact E.
Qed.

(* ------------------------------------------------------------------ one block through the chain *)
Lemma block_chain : forall pr cap code P T qp ms ms2 qa s,
  AsmProofs.params_ok pr = true -> AsmSemQ.qexempt_ok (Asm.ap_exempt pr) = true ->
  BS.t_prog (flatten code) = Some P -> BS.code_ok cap (flatten code) = true ->
  Asm.assemble_ir pr P = Asm.AOk T -> BA.e_qprog T = Some qp ->
  sx code ms ms2 ->
  BS.lrel ms qa -> List.length (AsmSemQ.qa_um qa) = cap -> BA.qrel qa s ->
  Q.qdefined_domain qp s ->
  exists fuel s' pc' t,
    Q.qrun qp s fuel = (s', pc', State.Halt) /\ BA.qrel t s' /\
    BS.lrel (with_mreg ms2 (regs_of t)) t /\ List.length (AsmSemQ.qa_um t) = cap.
Proof.
  intros pr cap code P T qp ms ms2 qa s Hpar Hqex HP Hok HT Hqp Hsx L Hcap R D.
  destruct (proj2 (flatten_correct code ms ms2 Hsx)) as (f1 & F1).
  destruct (BS.frun_sim cap (flatten code) P HP Hok f1 0%nat ms ms2 qa F1 L Hcap
              (BS.alloc_inv_start cap (flatten code) Hok ms)) as (n & qsrc & Hn & L2 & Hc2).
  destruct (AsmQProofs.assemble_trace_q pr P T Hpar Hqex (BS.t_prog_wf _ _ HP) HT n qa qa
              (AsmQProofs.eqv_q_refl pr (Asm.named P) qa) qsrc Hn) as (m & t & Hm & Ht & Hu & Hs & He).
  pose proof (BA.asmq_bridge m T qp qa s Hqp R D) as B. rewrite Hm in B.
  destruct (Q.qrun qp s m) as [[s' pc'] o] eqn:Er. cbn [BA.qcfg_bridge] in B. destruct B as [R' Ho]. subst o.
  exists m, s', pc', t. split; [exact Er|]. split; [exact R'|]. split.
  - eapply lrel_rebase; eauto.
  - rewrite Hu. exact Hc2.
Qed.

(* ------------------------------------------------------------------ all blocks *)
Lemma qrun_blocks_mono : forall qps f f' s sF,
  qrun_blocks f qps s = (sF, State.Halt) -> f <= f' -> qrun_blocks f' qps s = (sF, State.Halt).
Proof.
  induction qps as [|qp qps IH]; intros f f' s sF H Hle; cbn [qrun_blocks] in *; [exact H|].
  destruct (Q.qrun qp s f) as [[s1 pc1] o] eqn:E.
  assert (Ho : o = State.Halt) by (destruct o; try (inversion H; fail); reflexivity). subst o.
  unfold Q.qrun in *. rewrite (SemQProofs.qrun_mono f qp s 0%Z) by (rewrite ?E; cbn; try discriminate; exact Hle).
  rewrite E. eapply IH; eauto.
Qed.

Definition has_cap (cap : nat) (qa : AsmSemQ.qastate) : Prop := List.length (AsmSemQ.qa_um qa) = cap.

Lemma compiled_some_inv : forall pr cap code bs qps, compiled pr cap (Some code :: bs) qps ->
  exists P T qp qps', qps = qp :: qps' /\ BS.t_prog (flatten code) = Some P /\
    BS.code_ok cap (flatten code) = true /\ Asm.assemble_ir pr P = Asm.AOk T /\
    BA.e_qprog T = Some qp /\ compiled pr cap bs qps'.
Proof. intros pr cap code bs qps H. inversion H; subst. eauto 12. Qed.

Lemma compiled_none_inv : forall pr cap bs qps, compiled pr cap (None :: bs) qps -> compiled pr cap bs qps.
Proof. intros pr cap bs qps H. inversion H; subst. assumption. Qed.

Lemma compiled_nil_inv : forall pr cap qps, compiled pr cap [] qps -> qps = [].
Proof. intros pr cap qps H. inversion H. reflexivity. Qed.

Theorem prog_chain : forall pr cap segs st0 bs stF e0 eF ms qa s qps,
  AsmProofs.params_ok pr = true -> AsmSemQ.qexempt_ok (Asm.ap_exempt pr) = true ->
  Forall (fun seg => bwfs seg = true) segs -> Inv st0 -> BlockStart st0 -> TRel st0 e0 ms ->
  BS.lrel ms qa -> has_cap cap qa -> BA.qrel qa s ->
  lower_top true (prog_of segs) [] st0 = Ok (bs, stF) ->
  eval_top (prog_of segs) (with_arr e0 (hoist_top (prog_of segs) (e_arr e0))) = Some eF ->
  compiled pr cap bs qps -> qblocks_defined qps s ->
  exists fuel sF msF qaF,
    qrun_blocks fuel qps s = (sF, State.Halt) /\ TRel stF eF msF /\ BS.lrel msF qaF /\ BA.qrel qaF sF.
Proof.
  intros pr cap segs. induction segs as [|seg segs IH];
    intros st0 bs stF e0 eF ms qa s qps Hpar Hqex Hw I0 B0 T0 L Hcap R Hl Hev Hc Hd.
  - cbn in Hl, Hev. inv_ok Hl. rewrite with_arr_self in Hev. inv_ok Hev. rewrite (compiled_nil_inv _ _ _ Hc).
    exists 1, s, ms, qa. split; [reflexivity|]. split; [exact T0|]. split; assumption.
  - inversion Hw as [|? ? Hw1 Hw2]; subst. cbn [prog_of] in Hl, Hev.
    rewrite lower_top_seg in Hl by exact Hw1. rewrite hoist_top_seg in Hev by exact Hw1.
    rewrite eval_top_seg in Hev by exact Hw1. cbn [app] in Hl.
    destruct (lower_block true seg st0) as [[c st1]|] eqn:Hb; cbn [bind] in Hl; [|discriminate].
    destruct (lower_flush c st1) as [[b st2]|] eqn:Hf; cbn [bind] in Hl; [|discriminate].
    destruct (lower_top true (prog_of segs) [] st2) as [[rest st3]|] eqn:Hr; cbn [bind] in Hl; [|discriminate].
    inv_ok Hl.
    destruct (eval_block seg (with_arr e0 (hoist_block seg (e_arr e0)))) as [e1|] eqn:Eb; [|discriminate].
    cbn zeta in Hev.
    destruct (block_step seg st0 c st1 b st2 e0 e1 ms Hw1 I0 B0 T0 Hb Hf Eb) as (ms2 & Xb & I2 & B2 & T2).
    destruct b as [code|].
    + destruct (compiled_some_inv _ _ _ _ _ Hc) as (P & T & qp & qps' & -> & HP & Hok & HT & Hqp & Hc').
      cbn [qblocks_defined] in Hd. destruct Hd as [D Dnext].
      destruct (block_chain pr cap code P T qp ms ms2 qa s Hpar Hqex HP Hok HT Hqp Xb L Hcap R D)
        as (f1 & s' & pc' & t & Hrun & R' & L' & Hcap').
      pose proof (TRel_with_mreg _ _ _ (regs_of t) B2 T2) as T2'.
      destruct (IH st2 rest stF (snap e1) eF _ t s' qps' Hpar Hqex Hw2 I2 B2 T2' L' Hcap' R' Hr Hev Hc'
                   (Dnext _ _ _ Hrun)) as (f2 & sF & msF & qaF & Hrun2 & TF & LF & RF).
      exists (Nat.max f1 f2), sF, msF, qaF. split; [|split; [exact TF|split; assumption]].
      cbn [qrun_blocks]. unfold Q.qrun in *.
      rewrite (SemQProofs.qrun_mono f1 qp s 0%Z) by (rewrite ?Hrun; cbn; try discriminate; apply Nat.le_max_l).
      rewrite Hrun. eapply qrun_blocks_mono; [exact Hrun2|apply Nat.le_max_r].
    + subst ms2. pose proof (compiled_none_inv _ _ _ _ Hc) as Hc'.
      exact (IH st2 rest stF (snap e1) eF ms qa s qps Hpar Hqex Hw2 I2 B2 T2 L Hcap R Hr Hev Hc' Hd).
Qed.

(* ------------------------------------------------------------------ END TO END *)
Theorem sdk_end_to_end : forall pr cap segs script e bs stL qps,
  AsmProofs.params_ok pr = true -> AsmSemQ.qexempt_ok (Asm.ap_exempt pr) = true ->
  Forall (fun seg => bwfs seg = true) segs ->
  eval_prog (prog_of segs) script = Some e ->
  lower_prog true (prog_of segs) = Ok (bs, stL) ->
  compiled pr cap bs qps ->
  qblocks_defined qps (Q.mkQ (State.init_state cap) script []) ->
  exists fuel s,
    qrun_blocks fuel qps (Q.mkQ (State.init_state cap) script []) = (s, State.Halt) /\
    BS.inst_trace (Q.q_trace s) = e_trace e /\
    (forall a, State.find Z.eqb (Z.of_nat a) (State.arrs (Q.q_st s)) = alookup a (e_arr e)).
Proof.
  intros pr cap segs script e bs stL qps Hpar Hqex Hw Hev Hl Hc Hd.
  unfold eval_prog in Hev. unfold lower_prog in Hl.
  assert (T0 : TRel l0 (e0 script) (m0 script)).
  { split; [exact (Rel_init script)|]. intros a _. reflexivity. }
  assert (B0 : BlockStart l0) by (constructor; cbn; auto; intros; discriminate).
  assert (Hcap : List.length (AsmSemQ.qa_um (AsmSemQ.init_qstate cap script)) = cap)
    by (cbn; apply repeat_length).
  change (has_cap cap (AsmSemQ.init_qstate cap script)) in Hcap.
  destruct (prog_chain pr cap segs l0 bs stL (e0 script) e (m0 script) (AsmSemQ.init_qstate cap script)
              (Q.mkQ (State.init_state cap) script []) qps Hpar Hqex Hw Inv_l0 B0 T0
              (BS.lrel_init cap script) Hcap (BA.qrel_init cap script) Hl Hev Hc Hd)
    as (fuel & sF & msF & qaF & Hrun & [RF _] & LF & QF).
  exists fuel, sF. split; [exact Hrun|].
  destruct QF as (Rs & _ & _ & Rt & _). split.
  - pose proof (BS.l_trace _ _ LF) as Tr. unfold BS.trace_rel in Tr. unfold BS.inst_trace. rewrite Rt.
    destruct (BS.replay (map BA.e_aev (AsmSemQ.qa_trace qaF))) as [[im n] out]. destruct Tr as (_ & _ & ->).
    cbn [snd]. apply (r_trace _ _ _ _ RF).
  - intro a. rewrite <- (r_arr _ _ _ _ RF). rewrite (BS.l_arrs _ _ LF).
    rewrite Bridge_Asm.zlookup_find, (Bridge_Asm.sr_arrs _ _ Rs). reflexivity.
Qed.

(* ------------------------------------------------------------------ deciding qblocks_defined for runs that end *)
Fixpoint qblocks_check (N : nat) (qps : list (list Q.qinstr)) (s : Q.qstate) : bool :=
  match qps with
  | [] => true
  | qp :: r => match Q.qrun qp s N with
               | (s', _, State.Halt) => qblocks_check N r s'
               | _ => false
               end
  end.

Lemma qblocks_defined_by_run : forall N qps s, qblocks_check N qps s = true -> qblocks_defined qps s.
Proof.
  intros N qps. induction qps as [|qp qps IH]; intros s H; cbn [qblocks_check qblocks_defined] in *; [exact I|].
  destruct (Q.qrun qp s N) as [[s1 pc1] o] eqn:E.
  assert (Ho : o = State.Halt) by (destruct o; try discriminate; reflexivity). subst o.
  unfold Q.qrun in *. split.
  - apply SemQProofs.qdefined_is_qsafe.
    apply (SemQProofs.qsafe_by_run Sem.is_unspec qp s 0%Z N); [reflexivity|rewrite E; discriminate|rewrite E; reflexivity].
  - intros fuel s' pc Hr.
    destruct (SemQProofs.qrun_fuel_stable N qp s 0%Z fuel) as [X|X]; [rewrite E; discriminate| |].
    + rewrite Hr in X. discriminate.
    + rewrite Hr, E in X. inversion X; subst. apply IH. exact H.
Qed.

(* ------------------------------------------------------------------ the compilation pipeline as a function *)
Fixpoint compile_blocks (pr : Asm.aparams) (cap : nat) (bs : list (option (list sir))) : option (list (list Q.qinstr)) :=
  match bs with
  | [] => Some []
  | None :: r => compile_blocks pr cap r
  | Some code :: r =>
      match BS.t_prog (flatten code) with
      | Some P =>
          if BS.code_ok cap (flatten code) then
            match Asm.assemble_ir pr P with
            | Asm.AOk T =>
                match BA.e_qprog T, compile_blocks pr cap r with
                | Some qp, Some qps => Some (qp :: qps)
                | _, _ => None
                end
            | Asm.AErr _ => None
            end
          else None
      | None => None
      end
  end.

Lemma compile_blocks_compiled : forall pr cap bs qps, compile_blocks pr cap bs = Some qps -> compiled pr cap bs qps.
Proof.
  intros pr cap bs. induction bs as [|[code|] bs IH]; intros qps H; cbn [compile_blocks] in H.
  - inversion H. constructor.
  - destruct (BS.t_prog (flatten code)) as [P|] eqn:EP; [|discriminate].
    destruct (BS.code_ok cap (flatten code)) eqn:Eok; [|discriminate].
    destruct (Asm.assemble_ir pr P) as [T|] eqn:ET; [|discriminate].
    destruct (BA.e_qprog T) as [qp|] eqn:Eq; [|discriminate].
    destruct (compile_blocks pr cap bs) as [qps'|] eqn:Er; [|discriminate].
    inversion H; subst. econstructor; eauto.
  - constructor. apply IH. exact H.
Qed.

(* ================================================================== without H2
   C03's instruction-level export (AsmQExport.assemble_halts_no_bad_q) carries
   "no executed instruction is bad" from the source run (Bridge_SdkAsmLog:
   Target does not fault) to the assembled run, and Bridge_AsmQLog.asmq_halting
   needs nothing more. *)
From NQ Require Lang.AsmQLog Proofs.AsmQExport Proofs.Bridge_AsmQLog Proofs.Bridge_SdkAsmLog.
Module BL := NQ.Proofs.Bridge_AsmQLog.
Module BSL := NQ.Proofs.Bridge_SdkAsmLog.

Lemma block_chain2 : forall pr cap code P T qp ms ms2 qa s,
  AsmProofs.params_ok pr = true -> AsmSemQ.qexempt_ok (Asm.ap_exempt pr) = true ->
  BS.t_prog (flatten code) = Some P -> BS.code_ok cap (flatten code) = true ->
  Asm.assemble_ir pr P = Asm.AOk T -> BA.e_qprog T = Some qp ->
  sx code ms ms2 ->
  BS.lrel ms qa -> List.length (AsmSemQ.qa_um qa) = cap -> BA.qrel qa s ->
  exists fuel s' pc' t,
    Q.qrun qp s fuel = (s', pc', State.Halt) /\ BA.qrel t s' /\
    BS.lrel (with_mreg ms2 (regs_of t)) t /\ List.length (AsmSemQ.qa_um t) = cap.
Proof.
  intros pr cap code P T qp ms ms2 qa s Hpar Hqex HP Hok HT Hqp Hsx L Hcap R.
  destruct (proj2 (flatten_correct code ms ms2 Hsx)) as (f1 & F1).
  destruct (BSL.frun_sim_log cap (flatten code) P HP Hok f1 0%nat ms ms2 qa F1 L Hcap
              (BS.alloc_inv_start cap (flatten code) Hok ms)) as (n & qsrc & Hn & L2 & Hc2 & Hlog).
  destruct (AsmQExport.assemble_halts_no_bad_q pr P T BL.bad Hpar Hqex (BS.t_prog_wf _ _ HP) HT
              BL.bad_set (BL.bad_mono pr P) n qa qa qsrc (AsmQProofs.eqv_q_refl pr (Asm.named P) qa) Hn Hlog)
    as (m & t & Hm & (He & Hu & Hs & Ht) & Hlog').
  destruct (BL.asmq_halting m T qp qa s 0%nat t Hqp R Hm Hlog') as (s' & pc' & Hrun & R').
  exists m, s', pc', t. split; [exact Hrun|]. split; [exact R'|]. split.
  - eapply lrel_rebase; eauto.
  - rewrite <- Hu. exact Hc2.
Qed.

Theorem prog_chain2 : forall pr cap segs st0 bs stF e0 eF ms qa s qps,
  AsmProofs.params_ok pr = true -> AsmSemQ.qexempt_ok (Asm.ap_exempt pr) = true ->
  Forall (fun seg => bwfs seg = true) segs -> Inv st0 -> BlockStart st0 -> TRel st0 e0 ms ->
  BS.lrel ms qa -> has_cap cap qa -> BA.qrel qa s ->
  lower_top true (prog_of segs) [] st0 = Ok (bs, stF) ->
  eval_top (prog_of segs) (with_arr e0 (hoist_top (prog_of segs) (e_arr e0))) = Some eF ->
  compiled pr cap bs qps ->
  exists fuel sF msF qaF,
    qrun_blocks fuel qps s = (sF, State.Halt) /\ TRel stF eF msF /\ BS.lrel msF qaF /\ BA.qrel qaF sF.
Proof.
  intros pr cap segs. induction segs as [|seg segs IH];
    intros st0 bs stF e0 eF ms qa s qps Hpar Hqex Hw I0 B0 T0 L Hcap R Hl Hev Hc.
  - cbn in Hl, Hev. inv_ok Hl. rewrite with_arr_self in Hev. inv_ok Hev. rewrite (compiled_nil_inv _ _ _ Hc).
    exists 1, s, ms, qa. split; [reflexivity|]. split; [exact T0|]. split; assumption.
  - inversion Hw as [|? ? Hw1 Hw2]; subst. cbn [prog_of] in Hl, Hev.
    rewrite lower_top_seg in Hl by exact Hw1. rewrite hoist_top_seg in Hev by exact Hw1.
    rewrite eval_top_seg in Hev by exact Hw1. cbn [app] in Hl.
    destruct (lower_block true seg st0) as [[c st1]|] eqn:Hb; cbn [bind] in Hl; [|discriminate].
    destruct (lower_flush c st1) as [[b st2]|] eqn:Hf; cbn [bind] in Hl; [|discriminate].
    destruct (lower_top true (prog_of segs) [] st2) as [[rest st3]|] eqn:Hr; cbn [bind] in Hl; [|discriminate].
    inv_ok Hl.
    destruct (eval_block seg (with_arr e0 (hoist_block seg (e_arr e0)))) as [e1|] eqn:Eb; [|discriminate].
    cbn zeta in Hev.
    destruct (block_step seg st0 c st1 b st2 e0 e1 ms Hw1 I0 B0 T0 Hb Hf Eb) as (ms2 & Xb & I2 & B2 & T2).
    destruct b as [code|].
    + destruct (compiled_some_inv _ _ _ _ _ Hc) as (P & T & qp & qps' & -> & HP & Hok & HT & Hqp & Hc').
      destruct (block_chain2 pr cap code P T qp ms ms2 qa s Hpar Hqex HP Hok HT Hqp Xb L Hcap R)
        as (f1 & s' & pc' & t & Hrun & R' & L' & Hcap').
      pose proof (TRel_with_mreg _ _ _ (regs_of t) B2 T2) as T2'.
      destruct (IH st2 rest stF (snap e1) eF _ t s' qps' Hpar Hqex Hw2 I2 B2 T2' L' Hcap' R' Hr Hev Hc')
        as (f2 & sF & msF & qaF & Hrun2 & TF & LF & RF).
      exists (Nat.max f1 f2), sF, msF, qaF. split; [|split; [exact TF|split; assumption]].
      cbn [qrun_blocks]. unfold Q.qrun in *.
      rewrite (SemQProofs.qrun_mono f1 qp s 0%Z) by (rewrite ?Hrun; cbn; try discriminate; apply Nat.le_max_l).
      rewrite Hrun. eapply qrun_blocks_mono; [exact Hrun2|apply Nat.le_max_r].
    + subst ms2. pose proof (compiled_none_inv _ _ _ _ Hc) as Hc'.
      exact (IH st2 rest stF (snap e1) eF ms qa s qps Hpar Hqex Hw2 I2 B2 T2 L Hcap R Hr Hev Hc').
Qed.

Theorem sdk_end_to_end2 : forall pr cap segs script e bs stL qps,
  AsmProofs.params_ok pr = true -> AsmSemQ.qexempt_ok (Asm.ap_exempt pr) = true ->
  Forall (fun seg => bwfs seg = true) segs ->
  eval_prog (prog_of segs) script = Some e ->
  lower_prog true (prog_of segs) = Ok (bs, stL) ->
  compiled pr cap bs qps ->
  exists fuel s,
    qrun_blocks fuel qps (Q.mkQ (State.init_state cap) script []) = (s, State.Halt) /\
    BS.inst_trace (Q.q_trace s) = e_trace e /\
    (forall a, State.find Z.eqb (Z.of_nat a) (State.arrs (Q.q_st s)) = alookup a (e_arr e)).
Proof.
  intros pr cap segs script e bs stL qps Hpar Hqex Hw Hev Hl Hc.
  unfold eval_prog in Hev. unfold lower_prog in Hl.
  assert (T0 : TRel l0 (e0 script) (m0 script)).
  { split; [exact (Rel_init script)|]. intros a _. reflexivity. }
  assert (B0 : BlockStart l0) by (constructor; cbn; auto; intros; discriminate).
  assert (Hcap : has_cap cap (AsmSemQ.init_qstate cap script)) by (unfold has_cap; cbn; apply repeat_length).
  destruct (prog_chain2 pr cap segs l0 bs stL (e0 script) e (m0 script) (AsmSemQ.init_qstate cap script)
              (Q.mkQ (State.init_state cap) script []) qps Hpar Hqex Hw Inv_l0 B0 T0
              (BS.lrel_init cap script) Hcap (BA.qrel_init cap script) Hl Hev Hc)
    as (fuel & sF & msF & qaF & Hrun & [RF _] & LF & QF).
  exists fuel, sF. split; [exact Hrun|].
  destruct QF as (Rs & _ & _ & Rt & _). split.
  - pose proof (BS.l_trace _ _ LF) as Tr. unfold BS.trace_rel in Tr. unfold BS.inst_trace. rewrite Rt.
    destruct (BS.replay (map BA.e_aev (AsmSemQ.qa_trace qaF))) as [[im n] out]. destruct Tr as (_ & _ & ->).
    cbn [snd]. apply (r_trace _ _ _ _ RF).
  - intro a. rewrite <- (r_arr _ _ _ _ RF). rewrite (BS.l_arrs _ _ LF).
    rewrite Bridge_Asm.zlookup_find, (Bridge_Asm.sr_arrs _ _ Rs). reflexivity.
Qed.
