(* StatePrepError.v — set_qubit_state over the complex numbers with inexact angles:
   rotations about one axis compose additively, the state prepared from |0> by Y-rotations
   of total angle theta' followed by Z-rotations of total angle phi' is the documented state
   at (theta', phi'), and its Euclidean distance to the documented state at (theta, phi) is
       sqrt (2 - 2 cos((phi'-phi)/2) cos((theta'-theta)/2))  <=  (|theta'-theta| + |phi'-phi|) / 2.
   So when the float -> (n, d) expansion delivers each angle within tol (C19), the prepared
   state is within tol of the ideal one.

   Depends on Coq's real numbers (this file and props/C20_complex.v only). *)
From NQ Require Import Base.Cyclo Base.QMat Toolbox.ToolboxSem.
From Coq Require Import Reals Lra Lia List ZArith Psatz.
From Coquelicot Require Import Complex.
Import ListNotations.
Local Open Scope R_scope.

Definition cis (x : R) : C := (cos x, sin x).

(* exp(-i a/2 Y) and exp(-i a/2 Z) on an amplitude pair *)
Definition ry (a : R) (v : C * C) : C * C :=
  (Cminus (Cmult (RtoC (cos (a / 2))) (fst v)) (Cmult (RtoC (sin (a / 2))) (snd v)),
   Cplus (Cmult (RtoC (sin (a / 2))) (fst v)) (Cmult (RtoC (cos (a / 2))) (snd v))).
Definition rz (a : R) (v : C * C) : C * C :=
  (Cmult (cis (- (a / 2))) (fst v), Cmult (cis (a / 2)) (snd v)).

(* the documented state cos(theta/2)|0> + e^{i phi} sin(theta/2)|1>, times the global phase e^{-i phi/2} *)
Definition ideal (theta phi : R) : C * C :=
  (Cmult (cis (- (phi / 2))) (RtoC (cos (theta / 2))), Cmult (cis (phi / 2)) (RtoC (sin (theta / 2)))).

Definition ket0 : C * C := (RtoC 1, RtoC 0).

Lemma pair_C_eq : forall (a b c d : R), a = c -> b = d -> (a, b) = (c, d) :> C.
Proof. intros; subst; reflexivity. Qed.

Lemma ry_add : forall a b v, ry a (ry b v) = ry (a + b) v.
Proof.
  intros a b [[x1 x2] [y1 y2]]. unfold ry, Cminus, Cplus, Cmult, Copp, RtoC. cbn [fst snd].
  replace ((a + b) / 2) with (a / 2 + b / 2) by field. rewrite cos_plus, sin_plus.
  f_equal; apply pair_C_eq; ring.
Qed.

Lemma rz_add : forall a b v, rz a (rz b v) = rz (a + b) v.
Proof.
  intros a b [[x1 x2] [y1 y2]]. unfold rz, cis, Cmult. cbn [fst snd].
  replace (- ((a + b) / 2)) with (- (a / 2) + - (b / 2)) by field.
  replace ((a + b) / 2) with (a / 2 + b / 2) by field. rewrite !cos_plus, !sin_plus.
  f_equal; apply pair_C_eq; ring.
Qed.

Lemma ry_0 : forall v, ry 0 v = v.
Proof.
  intros [[x1 x2] [y1 y2]]. unfold ry, Cminus, Cplus, Cmult, Copp, RtoC. cbn [fst snd].
  replace (0 / 2) with 0 by field. rewrite cos_0, sin_0. f_equal; apply pair_C_eq; lra.
Qed.

Lemma rz_0 : forall v, rz 0 v = v.
Proof.
  intros [[x1 x2] [y1 y2]]. unfold rz, cis, Cmult. cbn [fst snd].
  replace (- (0 / 2)) with 0 by field. replace (0 / 2) with 0 by field. rewrite cos_0, sin_0.
  f_equal; apply pair_C_eq; lra.
Qed.

Definition sumR (l : list R) : R := fold_right Rplus 0 l.

(* a list of rotations about one axis, applied in order, is the rotation by the sum *)
Lemma fold_ry : forall l v, fold_left (fun w a => ry a w) l v = ry (sumR l) v.
Proof.
  induction l as [|a l IH]; intros v; cbn [fold_left sumR fold_right]; [symmetry; apply ry_0|].
  rewrite IH, ry_add. f_equal. unfold sumR. ring.
Qed.

Lemma fold_rz : forall l v, fold_left (fun w a => rz a w) l v = rz (sumR l) v.
Proof.
  induction l as [|a l IH]; intros v; cbn [fold_left sumR fold_right]; [symmetry; apply rz_0|].
  rewrite IH, rz_add. f_equal. unfold sumR. ring.
Qed.

Lemma prepared_is_ideal : forall theta phi, rz phi (ry theta ket0) = ideal theta phi.
Proof.
  intros theta phi. unfold rz, ry, ideal, ket0, cis, Cminus, Cplus, Cmult, Copp, RtoC. cbn [fst snd].
  f_equal; apply pair_C_eq; ring.
Qed.

(* what the executor does with the emitted rotations: Y rotations by ys, then Z rotations by zs *)
Definition prepared (ys zs : list R) : C * C :=
  fold_left (fun w a => rz a w) zs (fold_left (fun w a => ry a w) ys ket0).

Lemma prepared_sum : forall ys zs, prepared ys zs = ideal (sumR ys) (sumR zs).
Proof. intros ys zs. unfold prepared. rewrite fold_ry, fold_rz. apply prepared_is_ideal. Qed.

(* squared Euclidean distance in C^2 *)
Definition dist2 (u v : C * C) : R :=
  (fst (fst u) - fst (fst v)) ^ 2 + (snd (fst u) - snd (fst v)) ^ 2 +
  (fst (snd u) - fst (snd v)) ^ 2 + (snd (snd u) - snd (snd v)) ^ 2.
Definition dist (u v : C * C) : R := sqrt (dist2 u v).

Lemma dist2_ideal : forall t' p' t p,
  dist2 (ideal t' p') (ideal t p) = 2 - 2 * cos ((p' - p) / 2) * cos ((t' - t) / 2).
Proof.
  intros t' p' t p. unfold dist2, ideal, cis, Cmult, RtoC. cbn [fst snd].
  replace ((p' - p) / 2) with (p' / 2 - p / 2) by field.
  replace ((t' - t) / 2) with (t' / 2 - t / 2) by field.
  rewrite !cos_minus. rewrite !cos_neg, !sin_neg.
  pose proof (sin2_cos2 (p' / 2)) as HA. pose proof (sin2_cos2 (p / 2)) as HB.
  pose proof (sin2_cos2 (t' / 2)) as HC. pose proof (sin2_cos2 (t / 2)) as HD.
  unfold Rsqr in *.
  set (sA := sin (p' / 2)) in *. set (cA := cos (p' / 2)) in *.
  set (sB := sin (p / 2)) in *. set (cB := cos (p / 2)) in *.
  set (sC := sin (t' / 2)) in *. set (cC := cos (t' / 2)) in *.
  set (sD := sin (t / 2)) in *. set (cD := cos (t / 2)) in *.
  transitivity ((cC * cC + sC * sC) * (sA * sA + cA * cA) + (cD * cD + sD * sD) * (sB * sB + cB * cB)
                - 2 * ((cA * cB + sA * sB) * (cC * cD + sC * sD))); [ring|].
  replace (cC * cC + sC * sC) with 1 by lra. replace (cD * cD + sD * sD) with 1 by lra.
  rewrite HA, HB. ring.
Qed.

(* 1 - cos x <= x^2/2 without the mean value theorem (keeps Classical_Prop.classic out): the
   alternating-series bound COS near 0, one half-angle step up to pi, the trivial bound beyond *)
Lemma cos_lb_poly : forall a, cos_lb a = 1 - a ^ 2 / 2 + a ^ 4 / 24 - a ^ 6 / 720.
Proof.
  intros a. unfold cos_lb, cos_approx, cos_term. cbn [sum_f_R0 Nat.mul Nat.add pow fact].
  rewrite !INR_IZR_INZ. cbn [Z.of_nat Pos.of_succ_nat Pos.succ Nat.mul Nat.add]. field.
Qed.

Lemma omc_small : forall a, - PI / 2 <= a -> a <= PI / 2 -> 1 - cos a <= a * a / 2.
Proof.
  intros a H1 H2. pose proof (COS a H1 H2) as [Hl _]. rewrite cos_lb_poly in Hl.
  pose proof PI_4 as P4. assert (Ha : a * a <= 4) by nra.
  assert (0 <= a ^ 4 * (30 - a ^ 2))
    by (apply Rmult_le_pos; [replace (a ^ 4) with ((a * a) * (a * a)) by ring; nra | nra]).
  nra.
Qed.

Lemma PI_ge : 7 / 4 <= PI.
Proof. pose proof pi2_int as [H _]. unfold PI. lra. Qed.

(* half-angle step: a bound on [-b, b] gives the bound on [-2b, 2b] *)
Lemma omc_double : forall b, (forall a, - b <= a <= b -> 1 - cos a <= a * a / 2) ->
  forall x, - (2 * b) <= x <= 2 * b -> 1 - cos x <= x * x / 2.
Proof.
  intros b Hb x Hx. replace x with (2 * (x / 2)) at 1 by field. rewrite cos_2a_sin.
  pose proof (sin2_cos2 (x / 2)) as Hsc. unfold Rsqr in Hsc.
  pose proof (COS_bound (x / 2)) as [Cl Ch].
  assert (Hh : 1 - cos (x / 2) <= (x / 2) * (x / 2) / 2) by (apply Hb; lra).
  nra.
Qed.

Lemma one_minus_cos_le : forall x, 1 - cos x <= x * x / 2.
Proof.
  intros x. pose proof PI_ge as Hpi.
  assert (L1 : forall a, - (PI / 2) <= a <= PI / 2 -> 1 - cos a <= a * a / 2)
    by (intros a Ha; apply omc_small; lra).
  pose proof (omc_double (PI / 2) L1) as L2. pose proof (omc_double (2 * (PI / 2)) L2) as L3.
  destruct (Rle_lt_dec (Rabs x) (2 * PI)) as [Hs|Hb].
  - apply L3. unfold Rabs in Hs. destruct (Rcase_abs x); lra.
  - pose proof (COS_bound x) as [Cl Ch].
    assert (Hsq : (2 * PI) * (2 * PI) < x * x).
    { rewrite <- (Rabs_pos_eq (x * x)) by nra. rewrite Rabs_mult. pose proof (Rabs_pos x). nra. }
    nra.
Qed.

Lemma dist2_ideal_le : forall t' p' t p,
  dist2 (ideal t' p') (ideal t p) <= ((Rabs (t' - t) + Rabs (p' - p)) / 2) ^ 2.
Proof.
  intros t' p' t p. rewrite dist2_ideal.
  set (a := (p' - p) / 2). set (b := (t' - t) / 2).
  pose proof (one_minus_cos_le a) as Ha. pose proof (one_minus_cos_le b) as Hb.
  pose proof (COS_bound a) as [_ Ca]. pose proof (COS_bound b) as [_ Cb].
  assert (Hp : 0 <= (1 - cos a) * (1 - cos b)) by (apply Rmult_le_pos; lra).
  assert (E : ((Rabs (t' - t) + Rabs (p' - p)) / 2) ^ 2 = (Rabs b + Rabs a) ^ 2).
  { unfold a, b. f_equal. unfold Rdiv. rewrite !Rabs_mult. rewrite (Rabs_pos_eq (/ 2)) by lra. ring. }
  rewrite E. pose proof (Rabs_pos a). pose proof (Rabs_pos b).
  assert (Sa : Rabs a * Rabs a = a * a) by (rewrite <- Rabs_mult; apply Rabs_pos_eq; nra).
  assert (Sb : Rabs b * Rabs b = b * b) by (rewrite <- Rabs_mult; apply Rabs_pos_eq; nra).
  nra.
Qed.

Lemma dist2_nonneg : forall u v, 0 <= dist2 u v.
Proof. intros u v. unfold dist2. repeat apply Rplus_le_le_0_compat; apply pow2_ge_0. Qed.

Theorem dist_ideal_le : forall t' p' t p,
  dist (ideal t' p') (ideal t p) <= (Rabs (t' - t) + Rabs (p' - p)) / 2.
Proof.
  intros t' p' t p. unfold dist.
  assert (Hn : 0 <= (Rabs (t' - t) + Rabs (p' - p)) / 2)
    by (pose proof (Rabs_pos (t' - t)); pose proof (Rabs_pos (p' - p)); lra).
  rewrite <- (sqrt_pow2 _ Hn). apply sqrt_le_1; [apply dist2_nonneg | nra | apply dist2_ideal_le].
Qed.

(* the angle n * pi / 2^d denoted by a pair of rotation immediates *)
Definition angle_nd (nd : Z * Z) : R := IZR (fst nd) * PI / IZR (2 ^ snd nd).

(* MAIN: if the emitted Y rotations sum to within tol of theta and the emitted Z rotations to
   within tol of phi (the guarantee of the angle expansion, property C19), the prepared state is
   within tol of the documented one *)
Theorem state_prep_error : forall theta phi tol (ys zs : list (Z * Z)),
  Rabs (sumR (map angle_nd ys) - theta) <= tol ->
  Rabs (sumR (map angle_nd zs) - phi) <= tol ->
  dist (prepared (map angle_nd ys) (map angle_nd zs)) (ideal theta phi) <= tol.
Proof.
  intros theta phi tol ys zs Hy Hz. rewrite prepared_sum.
  eapply Rle_trans; [apply dist_ideal_le|]. lra.
Qed.

(* a full turn more in either angle only changes the global phase (-1) *)
Lemma ideal_theta_period : forall t p, ideal (t + 2 * PI) p = (Copp (fst (ideal t p)), Copp (snd (ideal t p))).
Proof.
  intros t p. unfold ideal, cis, Cmult, Copp, RtoC. cbn [fst snd].
  replace ((t + 2 * PI) / 2) with (t / 2 + PI) by field. rewrite neg_cos, neg_sin.
  f_equal; apply pair_C_eq; ring.
Qed.

Lemma ideal_phi_period : forall t p, ideal t (p + 2 * PI) = (Copp (fst (ideal t p)), Copp (snd (ideal t p))).
Proof.
  intros t p. unfold ideal, cis, Cmult, Copp, RtoC. cbn [fst snd].
  replace (- ((p + 2 * PI) / 2)) with (- (p / 2) - PI) by field.
  replace ((p + 2 * PI) / 2) with (p / 2 + PI) by field.
  rewrite neg_cos, neg_sin. unfold Rminus. rewrite cos_plus, sin_plus, cos_neg, sin_neg, !cos_neg, !sin_neg, cos_PI, sin_PI.
  f_equal; apply pair_C_eq; ring.
Qed.

(* ---- the instance of the symbolic theorem C20_state_prep_ok at the complex numbers ---- *)
Lemma cis_inv : forall x, Cmult (cis x) (cis (- x)) = RtoC 1.
Proof.
  intros x. unfold cis, Cmult, RtoC. cbn [fst snd]. rewrite cos_neg, sin_neg.
  pose proof (sin2_cos2 x) as H. unfold Rsqr in H. apply pair_C_eq; [rewrite <- H|]; ring.
Qed.

Definition angC (theta phi : R) (w : spangle) : R := match w with SpTheta => theta | SpPhi => phi end.
Definition chalfC (theta phi : R) (w : spangle) : C := RtoC (cos (angC theta phi w / 2)).
Definition shalfC (theta phi : R) (w : spangle) : C := RtoC (sin (angC theta phi w / 2)).
Definition ehalfC (theta phi : R) (w : spangle) : C := cis (angC theta phi w / 2).
Definition einvC (theta phi : R) (w : spangle) : C := cis (- (angC theta phi w / 2)).

Lemma unit_eC : forall theta phi w, Cmult (ehalfC theta phi w) (einvC theta phi w) = RtoC 1.
Proof. intros. apply cis_inv. Qed.

Lemma pythagorasC : forall theta phi w,
  Cplus (Cmult (chalfC theta phi w) (chalfC theta phi w)) (Cmult (shalfC theta phi w) (shalfC theta phi w)) = RtoC 1.
Proof.
  intros theta phi w. unfold chalfC, shalfC, Cplus, Cmult, RtoC. cbn [fst snd].
  pose proof (sin2_cos2 (angC theta phi w / 2)) as H. unfold Rsqr in H. apply pair_C_eq; [rewrite <- H|]; ring.
Qed.

(* the symbolic result  e^-1 c |0> + e^-1 e^2 s |1>  is the documented state *)
Lemma sp_form : forall theta phi,
  (Cmult (einvC theta phi SpPhi) (chalfC theta phi SpTheta),
   Cmult (einvC theta phi SpPhi)
         (Cmult (Cmult (ehalfC theta phi SpPhi) (ehalfC theta phi SpPhi)) (shalfC theta phi SpTheta)))
  = ideal theta phi.
Proof.
  intros theta phi. unfold ideal, einvC, ehalfC, chalfC, shalfC, angC. f_equal.
  unfold cis, Cmult, RtoC. cbn [fst snd]. rewrite cos_neg, sin_neg.
  pose proof (sin2_cos2 (phi / 2)) as H. unfold Rsqr in H.
  set (s := sin (phi / 2)) in *. set (c := cos (phi / 2)) in *. set (t := sin (theta / 2)).
  apply pair_C_eq.
  - transitivity ((s * s + c * c) * (c * t)); [ring | rewrite H; ring].
  - transitivity ((s * s + c * c) * (s * t)); [ring | rewrite H; ring].
Qed.
