(* TextFrontProofs.v — C03 (character level): printing a proto-subroutine and
   parsing the text gives the proto-subroutine back.
   Printer: Lang/TextFront.v (print_proto, print_cmd, pp_aopnd, pp_aval, pp_args).
   Parser: Lang/Text.v (parse_text: split_preamble, parse_preamble, apply_macros,
   parse_cmd: group_by_word, split_of_bracket, parse_args, parse_operand).
   Reuses the string / character / decimal / tokeniser lemmas of TextProofs.v (C17). *)
From Coq Require Import ZArith List Bool String Ascii Lia.
From NQ Require Import Base.Bits Lang.Codec Lang.Asm Lang.Text Lang.AsmCheck Lang.TextFront.
From NQ Require Import Proofs.TextProofs.
Import ListNotations.
Open Scope Z_scope.

(* ================= characters ================= *)

(* characters of a printed operand word (labels add '_') *)
Definition is_w_char (c : ascii) : bool := is_op_char c || Ascii.eqb c USCORE.
(* characters of the text between the brackets of mn(a,b,...) *)
Definition is_a_char (c : ascii) : bool := is_tok_char c || Ascii.eqb c COMMA.
(* characters of a printed body line *)
Definition is_l_char (c : ascii) : bool :=
  is_w_char c || Ascii.eqb c LPAR || Ascii.eqb c RPAR || Ascii.eqb c COMMA || Ascii.eqb c SP.
(* possible last characters of a printed instruction line *)
Definition is_e_char (c : ascii) : bool := is_end_char c || Ascii.eqb c RPAR.

Ltac char_cases c :=
  let H := fresh "H" in
  destruct c as [[] [] [] [] [] [] [] []]; vm_compute; intros H;
  first [discriminate H | repeat split].

Lemma w_char_facts c :
  is_w_char c = true ->
  is_space c = false /\ Ascii.eqb c SP = false /\ Ascii.eqb c LPAR = false /\ is_l_char c = true.
Proof. char_cases c. Qed.

(* identifier characters: label names, instruction names *)
Lemma name_char_facts c :
  is_name_char c = true ->
  is_w_char c = true /\ is_e_char c = true /\ is_l_char c = true /\
  is_space c = false /\ is_char COLON c = false /\
  Ascii.eqb c SP = false /\ Ascii.eqb c LPAR = false /\ Ascii.eqb c RPAR = false /\
  Ascii.eqb c AT = false /\ Ascii.eqb c HASH = false.
Proof. char_cases c. Qed.

Lemma tok_char_more c :
  is_tok_char c = true -> is_w_char c = true /\ is_e_char c = true /\ is_a_char c = true.
Proof. char_cases c. Qed.

Lemma a_char_facts c :
  is_a_char c = true ->
  Ascii.eqb c SP = false /\ Ascii.eqb c LPAR = false /\ Ascii.eqb c RPAR = false /\
  is_one_of LPAR RPAR c = false /\ is_l_char c = true.
Proof. char_cases c. Qed.

Lemma l_char_facts c : is_l_char c = true -> Ascii.eqb c SLASH = false.
Proof. char_cases c. Qed.

Lemma e_char_facts c : is_e_char c = true -> is_space c = false /\ Ascii.eqb c COLON = false.
Proof. char_cases c. Qed.

Lemma tok_w s : sall is_tok_char s = true -> sall is_w_char s = true.
Proof. apply sall_impl. intros c Hc. now destruct (tok_char_more c Hc) as (-> & _). Qed.

Lemma tok_a s : sall is_tok_char s = true -> sall is_a_char s = true.
Proof. apply sall_impl. intros c Hc. now destruct (tok_char_more c Hc) as (_ & _ & ->). Qed.

Lemma tok_e_last s : sall is_tok_char s = true -> last_sat is_e_char s.
Proof.
  intros Hs. apply last_sat_sall. revert Hs. apply sall_impl.
  intros c Hc. now destruct (tok_char_more c Hc) as (_ & -> & _).
Qed.

Lemma name_w s : sall is_name_char s = true -> sall is_w_char s = true.
Proof. apply sall_impl. intros c Hc. now destruct (name_char_facts c Hc) as (-> & _). Qed.

Lemma name_l s : sall is_name_char s = true -> sall is_l_char s = true.
Proof. apply sall_impl. intros c Hc. now destruct (name_char_facts c Hc) as (_ & _ & -> & _). Qed.

Lemma name_e_last s : sall is_name_char s = true -> last_sat is_e_char s.
Proof.
  intros Hs. apply last_sat_sall. revert Hs. apply sall_impl.
  intros c Hc. now destruct (name_char_facts c Hc) as (_ & -> & _).
Qed.

Lemma w_l s : sall is_w_char s = true -> sall is_l_char s = true.
Proof. apply sall_impl. intros c Hc. now destruct (w_char_facts c Hc) as (_ & _ & _ & ->). Qed.

Lemma a_l s : sall is_a_char s = true -> sall is_l_char s = true.
Proof. apply sall_impl. intros c Hc. now destruct (a_char_facts c Hc) as (_ & _ & _ & _ & ->). Qed.

(* ================= more string facts ================= *)

Lemma prefix_cons a b p s :
  String.prefix (String a p) (String b s) = if Ascii.eqb a b then String.prefix p s else false.
Proof.
  cbn [String.prefix]. destruct (ascii_dec a b) as [E|E]; destruct (Ascii.eqb_spec a b) as [E'|E'];
    congruence.
Qed.

Lemma prefix_nil s : String.prefix EmptyString s = true.
Proof. destruct s; reflexivity. Qed.

Lemma last_char_some s : s <> EmptyString -> exists c, last_char s = Some c.
Proof.
  induction s as [|a s IH]; [congruence|]. intros _.
  destruct s as [|b s]; [exists a; reflexivity|].
  rewrite last_char_cons. apply IH. discriminate.
Qed.

(* the end string ") " of a bracketed word *)
Lemma find_str_close_sp x y :
  nochar RPAR x = true ->
  find_str (String RPAR (s1 SP)) (x +++ String RPAR (String SP y)) = Some (String.length x).
Proof.
  unfold nochar. induction x as [|c x IH]; intros Hx.
  - cbn [String.append find_str]. unfold s1. rewrite !prefix_cons, !Ascii.eqb_refl, prefix_nil.
    reflexivity.
  - cbn [sall] in Hx. apply andb_true_iff in Hx as [Hc Hx]. apply negb_true_iff in Hc.
    change (String c x +++ String RPAR (String SP y)) with (String c (x +++ String RPAR (String SP y))).
    cbn [find_str]. rewrite prefix_cons, Ascii.eqb_sym, Hc, (IH Hx). reflexivity.
Qed.

(* no '/' : no comment *)
Lemma find_str_slashes_none l : nochar SLASH l = true -> find_str (String SLASH (s1 SLASH)) l = None.
Proof.
  unfold nochar. induction l as [|c l IH]; intros Hl; [reflexivity|].
  cbn [sall] in Hl. apply andb_true_iff in Hl as [Hc Hl]. apply negb_true_iff in Hc.
  cbn [find_str]. rewrite prefix_cons, Ascii.eqb_sym, Hc, (IH Hl). reflexivity.
Qed.

Lemma remove_comment_id l : nochar SLASH l = true -> remove_comment l = l.
Proof. intros H. unfold remove_comment. now rewrite find_str_slashes_none. Qed.

Lemma drop_succ_app w y : drop (S (String.length w)) (w +++ String SP y) = y.
Proof. induction w as [|c w IHw]; [reflexivity|exact IHw]. Qed.

(* ================= values and operands ================= *)

Lemma pp_aval_ok bk v :
  banks_ok bk = true -> aval_ok bk v = true ->
  sall is_tok_char (pp_aval bk v) = true /\ pp_aval bk v <> EmptyString /\
  parse_val bk (pp_aval bk v) = Some v.
Proof.
  intros Hbk Hv. destruct v as [z|b i]; cbn [pp_aval aval_ok] in *.
  - split; [apply z2s_tok|split; [apply z2s_nonempty|apply parse_val_num]].
  - destruct (bank_char bk b) as [c|] eqn:Hb; [|discriminate].
    pose proof (bank_char_alpha _ _ _ Hbk Hb) as Ha.
    destruct (pp_reg_tok bk b i c Ha Hb) as [Hs Ht].
    split; [exact Ht|split; [rewrite Hs; discriminate|exact (parse_val_reg bk b i c Hbk Hb)]].
Qed.

Lemma variable_name_shape l :
  is_variable_name l = true ->
  exists c r, l = String c r /\ is_alpha c = true /\ sall is_name_char l = true.
Proof.
  destruct l as [|c r]; [discriminate|]. unfold is_variable_name.
  rewrite andb_true_iff. intros [Ha Hs]. exists c, r. auto.
Qed.

Lemma label_ok_inv bk l :
  label_ok bk l = true -> is_variable_name l = true /\ parse_val bk l = None.
Proof.
  unfold label_ok. rewrite andb_true_iff. intros [Hn Hp]. split; [exact Hn|].
  destruct (parse_val bk l); [discriminate|reflexivity].
Qed.

Lemma z2s_nolbr a : nochar LBR (z2s a) = true.
Proof.
  apply tok_nochar; [|apply z2s_tok]. intros c Hc.
  now destruct (tok_char_facts c Hc) as (_ & _ & _ & -> & _).
Qed.

Lemma tok_nocolon s : sall is_tok_char s = true -> nochar COLON s = true.
Proof.
  apply tok_nochar. intros c Hc.
  now destruct (tok_char_facts c Hc) as (_ & _ & _ & _ & _ & -> & _).
Qed.

(* (1) a printed operand parses back to itself *)
Theorem parse_operand_aopnd bk o :
  banks_ok bk = true -> aopnd_ok bk o = true ->
  parse_operand bk (pp_aopnd bk o) = Some o.
Proof.
  intros Hbk Ho. destruct o as [v|l|a|a v|a v w]; cbn [pp_aopnd aopnd_ok] in *.
  - destruct (pp_aval_ok bk v Hbk Ho) as (Ht & _ & Hp).
    unfold parse_operand. rewrite (starts_at_tok _ Ht), Hp. reflexivity.
  - destruct (label_ok_inv _ _ Ho) as [Hn Hp].
    destruct (variable_name_shape l Hn) as (c & r & E & Ha & _).
    assert (Hst : starts_with AT l = false).
    { rewrite E. cbn [starts_with]. now destruct (alpha_facts c Ha) as (_ & _ & -> & _). }
    unfold parse_operand. rewrite Hst, Hp, Hn. reflexivity.
  - unfold parse_operand. cbn [starts_with]. rewrite Ascii.eqb_refl.
    unfold parse_address, split_of_bracket. cbn [find_char]. change (Ascii.eqb AT LBR) with false. cbv iota.
    rewrite find_char_none by apply z2s_nolbr.
    cbn [option_map lstrip]. change (is_char AT AT) with true. cbv iota.
    rewrite lstrip_at_tok by apply z2s_tok. rewrite parse_val_num. reflexivity.
  - destruct (pp_aval_ok bk v Hbk Ho) as (Ht & Hne & Hp).
    unfold parse_operand.
    change (String AT (z2s a) +++ s1 LBR +++ pp_aval bk v +++ s1 RBR)
      with (String AT (z2s a +++ String LBR (pp_aval bk v +++ s1 RBR))).
    cbn [starts_with]. rewrite Ascii.eqb_refl.
    change (String AT (z2s a +++ String LBR (pp_aval bk v +++ s1 RBR)))
      with (String AT (z2s a) +++ String LBR (pp_aval bk v +++ s1 RBR)).
    rewrite parse_address_idx; [|left; exact Ht|exact Hne].
    rewrite (sexists_sall_false _ _ (tok_nocolon_p _ Ht)), Hp. reflexivity.
  - apply andb_true_iff in Ho as [Hv Hw].
    destruct (pp_aval_ok bk v Hbk Hv) as (Ht1 & Hne1 & Hp1).
    destruct (pp_aval_ok bk w Hbk Hw) as (Ht2 & Hne2 & Hp2).
    unfold parse_operand.
    replace (String AT (z2s a) +++ s1 LBR +++ pp_aval bk v +++ s1 COLON +++ pp_aval bk w +++ s1 RBR)
      with (String AT (z2s a) +++ String LBR ((pp_aval bk v +++ String COLON (pp_aval bk w)) +++ s1 RBR)).
    2:{ rewrite app_assoc_s. reflexivity. }
    set (x := pp_aval bk v +++ String COLON (pp_aval bk w)).
    change (String AT (z2s a) +++ String LBR (x +++ s1 RBR))
      with (String AT (z2s a +++ String LBR (x +++ s1 RBR))) at 1.
    cbn [starts_with]. rewrite Ascii.eqb_refl.
    rewrite parse_address_idx.
    2:{ right. exists (pp_aval bk v), (pp_aval bk w). auto. }
    2:{ unfold x. destruct (pp_aval bk v); [congruence|discriminate]. }
    unfold x. rewrite sexists_mid by reflexivity.
    rewrite split_char_mid by now apply tok_nocolon.
    rewrite split_char_none by now apply tok_nocolon.
    unfold strip_ws. rewrite !strip_id by now apply tok_nospace.
    rewrite Hp1, Hp2. reflexivity.
Qed.

(* (2) the characters of a printed operand *)
Lemma pp_aopnd_chars bk o :
  banks_ok bk = true -> aopnd_ok bk o = true ->
  sall is_w_char (pp_aopnd bk o) = true /\ last_sat is_e_char (pp_aopnd bk o) /\
  pp_aopnd bk o <> EmptyString.
Proof.
  intros Hbk Ho. destruct o as [v|l|a|a v|a v w]; cbn [pp_aopnd aopnd_ok] in *.
  - destruct (pp_aval_ok bk v Hbk Ho) as (Ht & Hne & _).
    split; [now apply tok_w|split; [now apply tok_e_last|exact Hne]].
  - destruct (label_ok_inv _ _ Ho) as [Hn _].
    destruct (variable_name_shape l Hn) as (c & r & E & _ & Hs).
    split; [now apply name_w|split; [now apply name_e_last|rewrite E; discriminate]].
  - split; [|split; [|discriminate]].
    + cbn [sall]. now rewrite (tok_w _ (z2s_tok a)).
    + change (String AT (z2s a)) with (s1 AT +++ z2s a).
      apply last_sat_app; [apply z2s_nonempty|apply tok_e_last, z2s_tok].
  - destruct (pp_aval_ok bk v Hbk Ho) as (Ht & Hne & _).
    split; [|split; [|discriminate]].
    + change (String AT (z2s a) +++ s1 LBR +++ pp_aval bk v +++ s1 RBR)
        with (String AT (z2s a +++ String LBR (pp_aval bk v +++ s1 RBR))).
      cbn [sall]. rewrite sall_app. cbn [sall]. rewrite sall_app.
      rewrite (tok_w _ (z2s_tok a)), (tok_w _ Ht). reflexivity.
    + apply last_sat_app; [discriminate|]. apply last_sat_app; [destruct (pp_aval bk v); discriminate|].
      now apply last_sat_snoc.
  - apply andb_true_iff in Ho as [Hv Hw].
    destruct (pp_aval_ok bk v Hbk Hv) as (Ht1 & Hne1 & _).
    destruct (pp_aval_ok bk w Hbk Hw) as (Ht2 & Hne2 & _).
    split; [|split; [|discriminate]].
    + change (String AT (z2s a) +++ s1 LBR +++ pp_aval bk v +++ s1 COLON +++ pp_aval bk w +++ s1 RBR)
        with (String AT (z2s a +++ String LBR (pp_aval bk v +++ String COLON (pp_aval bk w +++ s1 RBR)))).
      cbn [sall]. rewrite sall_app. cbn [sall]. rewrite sall_app. cbn [sall]. rewrite sall_app.
      rewrite (tok_w _ (z2s_tok a)), (tok_w _ Ht1), (tok_w _ Ht2). reflexivity.
    + apply last_sat_app; [discriminate|]. apply last_sat_app; [destruct (pp_aval bk v); discriminate|].
      apply last_sat_app; [discriminate|]. apply last_sat_app; [destruct (pp_aval bk w); discriminate|].
      now apply last_sat_snoc.
Qed.

Lemma aopnds_cons bk o ops :
  forallb (aopnd_ok bk) (o :: ops) = true ->
  aopnd_ok bk o = true /\ forallb (aopnd_ok bk) ops = true.
Proof. cbn [forallb]. now rewrite andb_true_iff. Qed.

Lemma strip_ws_w s : sall is_w_char s = true -> strip_ws s = s.
Proof.
  intros Hs. unfold strip_ws. apply strip_id. revert Hs. apply sall_impl.
  intros c Hc. now destruct (w_char_facts c Hc) as (-> & _).
Qed.

Lemma pp_aopnds_last bk ops : forall x,
  banks_ok bk = true -> forallb (aopnd_ok bk) ops = true ->
  last_sat is_e_char x -> last_sat is_e_char (x +++ pp_aopnds bk ops).
Proof.
  induction ops as [|o ops IH]; intros x Hbk Hp Hx.
  - cbn. now rewrite app_nil_r_s.
  - apply aopnds_cons in Hp as [Ho Hp]. cbn [pp_aopnds].
    change (String SP (pp_aopnd bk o) +++ pp_aopnds bk ops)
      with (s1 SP +++ (pp_aopnd bk o +++ pp_aopnds bk ops)).
    rewrite <- !app_assoc_s. apply IH; [exact Hbk|exact Hp|].
    destruct (pp_aopnd_chars bk o Hbk Ho) as (_ & Hl & Hne).
    apply last_sat_app; [exact Hne|exact Hl].
Qed.

Lemma pp_aopnds_tokens bk ops :
  banks_ok bk = true -> forallb (aopnd_ok bk) ops = true ->
  Forall (fun w => sall is_w_char w = true) (map (pp_aopnd bk) ops).
Proof.
  intros Hbk. induction ops as [|o ops IH]; intros Hp; [constructor|].
  apply aopnds_cons in Hp as [Ho Hp]. cbn [map]. constructor; [|auto].
  exact (proj1 (pp_aopnd_chars bk o Hbk Ho)).
Qed.

Lemma pp_aopnds_l bk ops :
  banks_ok bk = true -> forallb (aopnd_ok bk) ops = true ->
  sall is_l_char (pp_aopnds bk ops) = true.
Proof.
  intros Hbk. induction ops as [|o ops IH]; intros Hp; [reflexivity|].
  apply aopnds_cons in Hp as [Ho Hp]. cbn [pp_aopnds].
  change (String SP (pp_aopnd bk o) +++ pp_aopnds bk ops)
    with (String SP (pp_aopnd bk o +++ pp_aopnds bk ops)).
  cbn [sall]. rewrite sall_app, (IH Hp), (w_l _ (proj1 (pp_aopnd_chars bk o Hbk Ho))). reflexivity.
Qed.

Lemma parse_aopnds_pp bk ops :
  banks_ok bk = true -> forallb (aopnd_ok bk) ops = true ->
  opt_all (map (fun w => parse_operand bk (strip_ws w)) (map (pp_aopnd bk) ops)) = Some ops.
Proof.
  intros Hbk. induction ops as [|o ops IH]; intros Hp; [reflexivity|].
  apply aopnds_cons in Hp as [Ho Hp]. cbn [map opt_all].
  rewrite (strip_ws_w _ (proj1 (pp_aopnd_chars bk o Hbk Ho))).
  rewrite (parse_operand_aopnd bk o Hbk Ho), (IH Hp). reflexivity.
Qed.

Lemma join_sp_aops bk w0 ops :
  (w0 +++ pp_aopnds bk ops) +++ s1 SP = join_sp (w0 :: map (pp_aopnd bk) ops).
Proof.
  revert w0. induction ops as [|o ops IH]; intros w0.
  - cbn. now rewrite app_nil_r_s.
  - cbn [pp_aopnds map].
    change (String SP (pp_aopnd bk o) +++ pp_aopnds bk ops)
      with (String SP (pp_aopnd bk o +++ pp_aopnds bk ops)).
    rewrite app_assoc_s.
    change (String SP (pp_aopnd bk o +++ pp_aopnds bk ops) +++ s1 SP)
      with (String SP ((pp_aopnd bk o +++ pp_aopnds bk ops) +++ s1 SP)).
    rewrite IH. reflexivity.
Qed.

(* ================= bracket arguments ================= *)

Lemma join_comma_cons2 x y r : join_comma (x :: y :: r) = x +++ String COMMA (join_comma (y :: r)).
Proof. reflexivity. Qed.

Lemma join_comma_sall p ws :
  p COMMA = true -> Forall (fun w => sall p w = true) ws -> sall p (join_comma ws) = true.
Proof.
  intros Hc. induction 1 as [|w ws Hw Hws IH]; [reflexivity|].
  destruct ws as [|y r]; [exact Hw|].
  rewrite join_comma_cons2, sall_app. cbn [sall]. now rewrite Hw, Hc, IH.
Qed.

Lemma split_join_comma ws :
  ws <> [] -> Forall (fun w => nochar COMMA w = true) ws ->
  split_char COMMA (join_comma ws) = ws.
Proof.
  intros Hne H. induction H as [|w ws Hw Hws IH]; [congruence|].
  destruct ws as [|y r].
  - cbn [join_comma]. now apply split_char_none.
  - rewrite join_comma_cons2, (split_char_mid _ _ _ Hw), IH; [reflexivity|discriminate].
Qed.

Definition args_text (args : list Z) : string := join_comma (map z2s args).

Lemma args_text_chars args : sall is_a_char (args_text args) = true.
Proof.
  apply join_comma_sall; [reflexivity|]. apply Forall_forall. intros w Hw.
  apply in_map_iff in Hw as (z & <- & _). apply tok_a, z2s_tok.
Qed.

Lemma pp_args_cons a r : pp_args (a :: r) = String LPAR (args_text (a :: r) +++ s1 RPAR).
Proof. reflexivity. Qed.

Lemma parse_ints_z2s args :
  opt_all (map (fun a => parse_int (strip_ws a)) (map z2s args)) = Some args.
Proof.
  induction args as [|z args IH]; [reflexivity|].
  cbn [map opt_all]. unfold strip_ws at 1.
  rewrite strip_id by apply tok_nospace, z2s_tok.
  rewrite parse_int_z2s, IH. reflexivity.
Qed.

(* (4) mn(a,b,...) : the text between the brackets parses back to the integers *)
Theorem parse_args_pp args : parse_args (pp_args args) = Some args.
Proof.
  destruct args as [|a r]; [reflexivity|].
  rewrite pp_args_cons. unfold parse_args.
  rewrite strip_wrap; [|reflexivity|reflexivity|].
  2:{ generalize (args_text_chars (a :: r)). apply sall_impl. intros c Hc.
      now destruct (a_char_facts c Hc) as (_ & _ & _ & -> & _). }
  unfold args_text. rewrite split_join_comma.
  - apply parse_ints_z2s.
  - discriminate.
  - apply Forall_forall. intros w Hw. apply in_map_iff in Hw as (z & <- & _).
    apply tok_nochar; [|apply z2s_tok]. intros c. char_cases c.
Qed.

Lemma args_text_nochar a args :
  (forall c, is_a_char c = true -> Ascii.eqb c a = false) -> nochar a (args_text args) = true.
Proof.
  intros H. unfold nochar. generalize (args_text_chars args). apply sall_impl.
  intros c Hc. now rewrite (H c Hc).
Qed.

Lemma name_nochar a s :
  (forall c, is_name_char c = true -> Ascii.eqb c a = false) ->
  sall is_name_char s = true -> nochar a s = true.
Proof. intros H. unfold nochar. apply sall_impl. intros c Hc. now rewrite (H c Hc). Qed.

Lemma name_nosp s : sall is_name_char s = true -> nochar SP s = true.
Proof. apply name_nochar. intros c Hc. now destruct (name_char_facts c Hc) as (_&_&_&_&_& -> &_). Qed.
Lemma name_nolpar s : sall is_name_char s = true -> nochar LPAR s = true.
Proof. apply name_nochar. intros c Hc. now destruct (name_char_facts c Hc) as (_&_&_&_&_&_& -> &_). Qed.
Lemma name_norpar s : sall is_name_char s = true -> nochar RPAR s = true.
Proof. apply name_nochar. intros c Hc. now destruct (name_char_facts c Hc) as (_&_&_&_&_&_&_& -> &_). Qed.

(* the first word mn(a,b,...) splits into the name and the bracket text *)
Theorem split_of_bracket_pp mn args :
  sall is_name_char mn = true ->
  split_of_bracket LPAR RPAR (mn +++ pp_args args) = Some (mn, pp_args args).
Proof.
  intros Hmn. destruct args as [|a r].
  - cbn [pp_args]. rewrite app_nil_r_s. unfold split_of_bracket.
    now rewrite (find_char_none _ _ (name_nolpar _ Hmn)).
  - rewrite pp_args_cons. unfold split_of_bracket.
    rewrite (find_char_mid _ _ _ (name_nolpar _ Hmn)).
    assert (He : ends_with RPAR (mn +++ String LPAR (args_text (a :: r) +++ s1 RPAR)) = true).
    { replace (mn +++ String LPAR (args_text (a :: r) +++ s1 RPAR))
        with ((mn +++ String LPAR (args_text (a :: r))) +++ s1 RPAR).
      - apply ends_with_snoc.
      - rewrite app_assoc_s. reflexivity. }
    rewrite He, take_app, drop_app. reflexivity.
Qed.

(* ================= tokeniser ================= *)

(* (3) a first word with bracket arguments, then words without '(' *)
Lemma gbw_bracket x y ws : forall fuel,
  nochar SP x = true -> nochar LPAR x = true -> nochar RPAR x = true ->
  nochar SP y = true -> nochar RPAR y = true ->
  Forall (fun w => nochar SP w = true) ws ->
  nochar LPAR (join_sp ws) = true ->
  (List.length ws <= fuel)%nat ->
  gbw_loop (S fuel) LPAR RPAR ((x +++ String LPAR (y +++ s1 RPAR)) +++ String SP (join_sp ws))
  = Some ((x +++ String LPAR (y +++ s1 RPAR)) :: ws).
Proof.
  intros fuel Hxs Hxl Hxr Hys Hyr Hws Hwl Hf.
  set (w0 := x +++ String LPAR (y +++ s1 RPAR)).
  set (rest := join_sp ws).
  assert (Hw0 : w0 = (x +++ String LPAR y) +++ s1 RPAR).
  { unfold w0. rewrite app_assoc_s. reflexivity. }
  assert (Hw0s : nochar SP w0 = true).
  { unfold w0, nochar in *. rewrite sall_app. cbn [sall]. rewrite sall_app. cbn [sall].
    now rewrite Hxs, Hys. }
  assert (Hur : nochar RPAR (x +++ String LPAR y) = true).
  { unfold nochar in *. rewrite sall_app. cbn [sall]. now rewrite Hxr, Hyr. }
  assert (Hline : w0 +++ String SP rest = (x +++ String LPAR y) +++ String RPAR (String SP rest)).
  { rewrite Hw0, app_assoc_s. reflexivity. }
  assert (Hlen : String.length w0 = S (String.length (x +++ String LPAR y))).
  { rewrite Hw0, length_app_s. cbn [String.length s1]. lia. }
  rewrite gbw_unfold by (destruct w0; discriminate).
  cbv zeta.
  rewrite (find_char_mid SP w0 rest Hw0s).
  assert (Hopen : find_char LPAR (w0 +++ String SP rest) = Some (String.length x)).
  { unfold w0. rewrite app_assoc_s.
    change (String LPAR (y +++ s1 RPAR) +++ String SP rest)
      with (String LPAR ((y +++ s1 RPAR) +++ String SP rest)).
    now apply find_char_mid. }
  rewrite Hopen.
  assert (Hlt : Nat.ltb (String.length x) (String.length w0) = true).
  { apply Nat.ltb_lt. rewrite Hlen, length_app_s. cbn [String.length]. lia. }
  rewrite Hlt. cbv iota.
  rewrite Hline at 1. rewrite (find_str_close_sp _ _ Hur).
  change (String.length (String RPAR (s1 SP))) with 2%nat.
  replace (String.length (x +++ String LPAR y) + 2 - 1)%nat with (String.length w0) by lia.
  replace (String.length (x +++ String LPAR y) + 2)%nat with (S (String.length w0)) by lia.
  rewrite take_app, drop_succ_app.
  unfold rest. rewrite (gbw_join LPAR RPAR ws fuel Hws Hwl Hf). reflexivity.
Qed.

Lemma w_nosp_all ws :
  Forall (fun w => sall is_w_char w = true) ws -> Forall (fun w => nochar SP w = true) ws.
Proof.
  apply Forall_impl. intros w. apply sall_impl. intros c Hc.
  now destruct (w_char_facts c Hc) as (_ & -> & _).
Qed.

Lemma w_nolpar_all ws :
  Forall (fun w => sall is_w_char w = true) ws -> Forall (fun w => nochar LPAR w = true) ws.
Proof.
  apply Forall_impl. intros w. apply sall_impl. intros c Hc.
  now destruct (w_char_facts c Hc) as (_ & _ & -> & _).
Qed.

(* group_by_word on  mn[(a,b,...)] op1 ... opn  *)
Theorem gbw_line mn args ws :
  mn <> EmptyString -> sall is_name_char mn = true ->
  Forall (fun w => sall is_w_char w = true) ws ->
  gbw_loop (String.length (join_sp ((mn +++ pp_args args) :: ws))) LPAR RPAR
           (join_sp ((mn +++ pp_args args) :: ws))
  = Some ((mn +++ pp_args args) :: ws).
Proof.
  intros Hne Hmn Hws.
  pose proof (w_nosp_all _ Hws) as Hsp.
  pose proof (join_sp_nochar LPAR ws eq_refl (w_nolpar_all _ Hws)) as Hlp.
  destruct args as [|a r].
  - cbn [pp_args]. rewrite app_nil_r_s. apply gbw_join.
    + constructor; [now apply name_nosp|exact Hsp].
    + apply join_sp_nochar; [reflexivity|]. constructor; [now apply name_nolpar|now apply w_nolpar_all].
    + apply length_join_sp.
  - rewrite pp_args_cons. cbn [join_sp].
    rewrite length_app_s. cbn [String.length]. rewrite Nat.add_succ_r.
    apply gbw_bracket; try assumption.
    + now apply name_nosp.
    + now apply name_nolpar.
    + now apply name_norpar.
    + apply args_text_nochar. intros c Hc. now destruct (a_char_facts c Hc) as (-> & _).
    + apply args_text_nochar. intros c Hc. now destruct (a_char_facts c Hc) as (_ & _ & -> & _).
    + pose proof (length_join_sp ws). lia.
Qed.

(* ================= one body line ================= *)

(* shape of an instruction line: starts with a name character, ends with a
   name character / digit / ']' / ')', only line characters *)
Lemma ins_line_shape bk mn args ops :
  banks_ok bk = true -> mn <> EmptyString -> sall is_name_char mn = true ->
  forallb (aopnd_ok bk) ops = true ->
  let line := mn +++ pp_args args +++ pp_aopnds bk ops in
  (exists c r, line = String c r /\ is_name_char c = true) /\
  last_sat is_e_char line /\ sall is_l_char line = true.
Proof.
  intros Hbk Hne Hmn Hp line. split; [|split].
  - destruct mn as [|c mn']; [congruence|]. exists c, (mn' +++ pp_args args +++ pp_aopnds bk ops).
    split; [reflexivity|]. cbn [sall] in Hmn. now apply andb_true_iff in Hmn as [Hc _].
  - unfold line. rewrite <- app_assoc_s. apply pp_aopnds_last; [exact Hbk|exact Hp|].
    destruct args as [|a r].
    + cbn [pp_args]. rewrite app_nil_r_s. now apply name_e_last.
    + rewrite pp_args_cons.
      replace (mn +++ String LPAR (args_text (a :: r) +++ s1 RPAR))
        with ((mn +++ String LPAR (args_text (a :: r))) +++ s1 RPAR)
        by (rewrite app_assoc_s; reflexivity).
      now apply last_sat_snoc.
  - unfold line. rewrite !sall_app, (name_l _ Hmn), (pp_aopnds_l bk ops Hbk Hp).
    destruct args as [|a r]; [reflexivity|].
    rewrite pp_args_cons. cbn [sall]. rewrite sall_app, (a_l _ (args_text_chars (a :: r))). reflexivity.
Qed.

Lemma strip_ws_ends s c r :
  s = String c r -> is_space c = false -> last_sat (fun c => negb (is_space c)) s -> strip_ws s = s.
Proof.
  intros E Hc Hl. unfold strip_ws, strip.
  assert (Hs : lstrip is_space s = s) by (rewrite E; now apply lstrip_head).
  rewrite Hs. now apply rstrip_last.
Qed.

Lemma e_last_nospace s : last_sat is_e_char s -> last_sat (fun c => negb (is_space c)) s.
Proof. apply last_sat_impl. intros c Hc. now destruct (e_char_facts c Hc) as (-> & _). Qed.

(* an instruction line *)
Theorem parse_cmd_ins bk gi mn args ops :
  banks_ok bk = true ->
  mn <> EmptyString -> sall is_name_char mn = true -> existsb (String.eqb mn) gi = true ->
  forallb (aopnd_ok bk) ops = true ->
  parse_cmd bk gi (mn +++ pp_args args +++ pp_aopnds bk ops) = Some (AIns mn args ops).
Proof.
  intros Hbk Hne Hmn Hgi Hp.
  destruct (ins_line_shape bk mn args ops Hbk Hne Hmn Hp) as ((c & r & E & Hc) & Hlast & _).
  set (line := mn +++ pp_args args +++ pp_aopnds bk ops) in *.
  assert (Hcolon : ends_with COLON line = false).
  { apply ends_with_last. revert Hlast. apply last_sat_impl. intros d Hd.
    now destruct (e_char_facts d Hd) as (_ & ->). }
  assert (Hstrip : strip_ws line = line).
  { apply (strip_ws_ends line c r E); [|now apply e_last_nospace].
    now destruct (name_char_facts c Hc) as (_ & _ & _ & -> & _). }
  pose proof (pp_aopnds_tokens bk ops Hbk Hp) as Htoks.
  assert (Hgbw : group_by_word LPAR RPAR line = Some ((mn +++ pp_args args) :: map (pp_aopnd bk) ops)).
  { unfold group_by_word. rewrite Hstrip. unfold line.
    rewrite <- app_assoc_s, join_sp_aops. now apply gbw_line. }
  unfold parse_cmd. rewrite Hcolon, Hgbw, (split_of_bracket_pp mn args Hmn), Hgi.
  rewrite parse_args_pp, (parse_aopnds_pp bk ops Hbk Hp). reflexivity.
Qed.

(* (5) a label line *)
Theorem parse_cmd_lab bk gi l :
  label_ok bk l = true -> parse_cmd bk gi (l +++ s1 COLON) = Some (ALab l).
Proof.
  intros Hl. destruct (label_ok_inv _ _ Hl) as [Hn _].
  destruct (variable_name_shape l Hn) as (c & r & _ & _ & Hs).
  unfold parse_cmd. rewrite ends_with_snoc, rstrip_snoc by reflexivity.
  rewrite rstrip_last.
  - now rewrite Hn.
  - apply last_sat_sall. revert Hs. apply sall_impl. intros d Hd.
    now destruct (name_char_facts d Hd) as (_ & _ & _ & _ & -> & _).
Qed.

Lemma ginstr_word gi mn :
  ginstrs_ok gi = true -> existsb (String.eqb mn) gi = true ->
  mn <> EmptyString /\ sall is_name_char mn = true.
Proof.
  unfold ginstrs_ok. rewrite forallb_forall. intros Hgi Hex.
  apply existsb_exists in Hex as (x & Hin & Hx). apply String.eqb_eq in Hx. subst x.
  specialize (Hgi mn Hin). destruct mn as [|c m]; [discriminate|].
  split; [discriminate|exact Hgi].
Qed.

Lemma parse_print_cmd bk gi c :
  banks_ok bk = true -> ginstrs_ok gi = true -> acmd_ok bk gi c = true ->
  parse_cmd bk gi (print_cmd bk c) = Some c.
Proof.
  intros Hbk Hgi Hc. destruct c as [l|mn args ops]; cbn [print_cmd acmd_ok] in *.
  - now apply parse_cmd_lab.
  - apply andb_true_iff in Hc as [Hmn Hops].
    destruct (ginstr_word gi mn Hgi Hmn) as [Hne Hw].
    now apply parse_cmd_ins.
Qed.

(* a printed body line has nothing to strip: clean, and not a preamble line *)
Lemma clean_line_intro l c r :
  l = String c r -> is_space c = false ->
  last_sat (fun c => negb (is_space c)) l -> sall is_l_char l = true ->
  clean_line l = true.
Proof.
  intros E Hc Hl Hs. unfold clean_line.
  assert (Hns : sall (fun c => negb (Ascii.eqb c SLASH)) l = true).
  { revert Hs. apply sall_impl. intros d Hd. now rewrite (l_char_facts d Hd). }
  rewrite Hns, andb_true_r.
  destruct (last_char_some l) as (d & Hd); [rewrite E; discriminate|].
  rewrite Hd, (Hl d Hd), andb_true_r. rewrite E, Hc. reflexivity.
Qed.

Lemma print_cmd_clean bk gi c :
  banks_ok bk = true -> ginstrs_ok gi = true -> acmd_ok bk gi c = true ->
  clean_line (print_cmd bk c) = true /\ starts_with HASH (print_cmd bk c) = false.
Proof.
  intros Hbk Hgi Hc. destruct c as [l|mn args ops]; cbn [print_cmd acmd_ok] in *.
  - destruct (label_ok_inv _ _ Hc) as [Hn _].
    destruct (variable_name_shape l Hn) as (c & r & E & _ & Hs).
    pose proof Hs as Hs'. rewrite E in Hs'. cbn [sall] in Hs'. apply andb_true_iff in Hs' as [Hcn _].
    destruct (name_char_facts c Hcn) as (_ & _ & _ & Hsp & _ & _ & _ & _ & _ & Hh).
    split.
    + apply (clean_line_intro _ c (r +++ s1 COLON)).
      * rewrite E. reflexivity.
      * exact Hsp.
      * now apply last_sat_snoc.
      * rewrite sall_app, (name_l _ Hs). reflexivity.
    + rewrite E. cbn [String.append starts_with]. exact Hh.
  - apply andb_true_iff in Hc as [Hmn Hops].
    destruct (ginstr_word gi mn Hgi Hmn) as [Hne Hw].
    destruct (ins_line_shape bk mn args ops Hbk Hne Hw Hops) as ((c & r & E & Hcn) & Hlast & Hl).
    destruct (name_char_facts c Hcn) as (_ & _ & _ & Hsp & _ & _ & _ & _ & _ & Hh).
    split.
    + apply (clean_line_intro _ c r E Hsp); [now apply e_last_nospace|exact Hl].
    + rewrite E. cbn [starts_with]. exact Hh.
Qed.

(* ================= the whole text ================= *)

Lemma clean_line_inv l :
  clean_line l = true -> strip_ws l = l /\ remove_comment l = l /\ l <> EmptyString.
Proof.
  unfold clean_line. rewrite !andb_true_iff. intros [[Hf Hl] Hs].
  destruct l as [|c r]; [discriminate|]. apply negb_true_iff in Hf.
  split; [|split; [|discriminate]].
  - apply (strip_ws_ends _ c r eq_refl Hf). intros d Hd. now rewrite Hd in Hl.
  - now apply remove_comment_id.
Qed.

(* a clean line that is not a '#' line goes to the body, and ends the preamble *)
Lemma split_preamble_clean l r ip :
  clean_line l = true -> starts_with HASH l = false ->
  split_preamble (l :: r) ip =
  match split_preamble r false with
  | Some (p, b) => Some (p, l :: b)
  | None => None
  end.
Proof.
  intros Hc Hh. destruct (clean_line_inv l Hc) as (Hs & Hr & Hne).
  cbn [split_preamble]. rewrite Hs, Hr. cbv zeta.
  destruct l as [|c s]; [congruence|]. rewrite Hh. reflexivity.
Qed.

(* a '#' line of the preamble *)
Lemma split_preamble_hash raw l r :
  remove_comment (strip_ws raw) = l -> l <> EmptyString -> starts_with HASH l = true ->
  split_preamble (raw :: r) true =
  match split_preamble r true with
  | Some (p, b) => Some (strip_ws (lstrip (is_char HASH) l) :: p, b)
  | None => None
  end.
Proof.
  intros E Hne Hh. cbn [split_preamble]. rewrite E. cbv zeta.
  destruct l as [|c s]; [congruence|]. rewrite Hh. reflexivity.
Qed.

Local Open Scope string_scope.
Definition PRE_LINES : list string := ["NETQASM 1.0"; "APPID 0"].
Local Close Scope string_scope.

Lemma split_preamble_header body :
  split_preamble (HEADER ++ body) true =
  match split_preamble body true with
  | Some (p, b) => Some (PRE_LINES ++ p, b)
  | None => None
  end.
Proof.
  unfold HEADER. cbn [app].
  rewrite (split_preamble_hash _ "# NETQASM 1.0"%string); [|reflexivity|discriminate|reflexivity].
  rewrite (split_preamble_hash _ "# APPID 0"%string); [|reflexivity|discriminate|reflexivity].
  destruct (split_preamble body true) as [[p b]|]; reflexivity.
Qed.

Lemma split_preamble_body bk gi P : forall ip,
  banks_ok bk = true -> ginstrs_ok gi = true -> wf_proto bk gi P = true ->
  split_preamble (map (print_cmd bk) P) ip = Some ([], map (print_cmd bk) P).
Proof.
  induction P as [|c P IH]; intros ip Hbk Hgi Hwf; [reflexivity|].
  unfold wf_proto in Hwf. cbn [forallb] in Hwf. apply andb_true_iff in Hwf as [Hc Hwf].
  destruct (print_cmd_clean bk gi c Hbk Hgi Hc) as [Hcl Hh].
  cbn [map]. rewrite (split_preamble_clean _ _ ip Hcl Hh), (IH false Hbk Hgi Hwf). reflexivity.
Qed.

Lemma parse_preamble_header :
  parse_preamble PRE_LINES = Some (mkPre [["1.0"%string]] [["0"%string]] []).
Proof. vm_compute. reflexivity. Qed.

Lemma version_ok_header : version_ok "1.0" = true.
Proof. vm_compute. reflexivity. Qed.

Lemma parse_int_header : parse_int "0" = Some 0.
Proof. vm_compute. reflexivity. Qed.

Lemma apply_macros_nil l : apply_macros [] l = l.
Proof. reflexivity. Qed.

Lemma parse_cmds_pp bk gi P :
  banks_ok bk = true -> ginstrs_ok gi = true -> wf_proto bk gi P = true ->
  opt_all (map (fun l => parse_cmd bk gi (apply_macros [] l)) (map (print_cmd bk) P)) = Some P.
Proof.
  intros Hbk Hgi. induction P as [|c P IH]; intros Hwf; [reflexivity|].
  unfold wf_proto in Hwf. cbn [forallb] in Hwf. apply andb_true_iff in Hwf as [Hc Hwf].
  cbn [map opt_all]. rewrite apply_macros_nil, (parse_print_cmd bk gi c Hbk Hgi Hc), (IH Hwf).
  reflexivity.
Qed.

(* ================= C03 ================= *)

Theorem parse_print_proto bk gi P :
  banks_ok bk = true -> ginstrs_ok gi = true -> wf_proto bk gi P = true ->
  parse_text bk gi (print_proto bk P) = Some P.
Proof.
  intros Hbk Hgi Hwf. unfold parse_text, print_proto.
  rewrite split_preamble_header, (split_preamble_body bk gi P true Hbk Hgi Hwf).
  rewrite app_nil_r, parse_preamble_header.
  cbn [p_netqasm p_appid p_define single_arg defines map nodup_str].
  rewrite version_ok_header, parse_int_header. cbn [andb].
  now apply parse_cmds_pp.
Qed.

(* ---- a concrete proto-subroutine that satisfies the hypotheses ---- *)

Local Open Scope string_scope.
Definition ex_banks : banks := [(0, "R"%char); (1, "C"%char); (2, "Q"%char); (3, "M"%char)].
Definition ex_ginstrs : list string := ["set"; "rot_z"; "store"; "beq"; "ret_arr"; "undef"].
Definition ex_proto : list acmd :=
  [ ALab "start"; ALab "again";
    AIns "set" [] [AV (VReg 0 1); AV (VLit (-5))];
    AIns "rot_z" [3; -1] [AV (VReg 2 0)];
    AIns "undef" [7] [];
    AIns "store" [] [AV (VReg 0 1); AEntry 2 (VLit 4); AEntry 0 (VReg 0 3)];
    AIns "ret_arr" [] [AAddr 10; ASlice 1 (VLit 0) (VReg 1 15); ASlice 1 (VReg 0 0) (VLit (-2))];
    AIns "beq" [] [AV (VReg 0 0); AV (VLit 0); ALabel "start"; ALabel "the_end"];
    ALab "the_end" ].
Local Close Scope string_scope.

Example ex_proto_hyps :
  banks_ok ex_banks = true /\ ginstrs_ok ex_ginstrs = true /\ wf_proto ex_banks ex_ginstrs ex_proto = true.
Proof. vm_compute. repeat split. Qed.

Example ex_proto_text :
  print_proto ex_banks ex_proto =
  ["# NETQASM 1.0"; "# APPID 0"; "start:"; "again:"; "set R1 -5"; "rot_z(3,-1) Q0"; "undef(7)";
   "store R1 @2[4] @0[R3]"; "ret_arr @10 @1[0:C15] @1[R0:-2]"; "beq R0 0 start the_end"; "the_end:"]%string.
Proof. vm_compute. reflexivity. Qed.

Example ex_proto_roundtrip :
  parse_text ex_banks ex_ginstrs (print_proto ex_banks ex_proto) = Some ex_proto.
Proof.
  destruct ex_proto_hyps as (H1 & H2 & H3). now apply parse_print_proto.
Qed.

(* a name that reads as a register is not a label: the side condition of label_ok is needed *)
Example label_like_register :
  label_ok ex_banks "R1" = false /\
  parse_cmd ex_banks ex_ginstrs (print_cmd ex_banks (AIns "beq" [] [ALabel "R1"]))
  = Some (AIns "beq" [] [AV (VReg 0 1)]).
Proof. vm_compute. split; reflexivity. Qed.
