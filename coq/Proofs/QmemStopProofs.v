(* QmemStopProofs.v — the invariant, isolation and completion of stop_application handled
   step by step, for every interleaving with other applications' events (C13). *)
From Coq Require Import ZArith List Bool Lia.
From NQ Require Import Exec.Qmem Proofs.QmemProofs.
From NQ Require Import Exec.QmemStop.
Import ListNotations.
Open Scope Z_scope.

(* ------------------------------------------------------------------ the three pieces of a stop *)
Lemma inv_unmap_all s nd app a :
  Inv s -> app_of s (nd, app) = Some a -> Inv (unmap_all s (nd, app) a).
Proof.
  intros (K & I & U & F & G) Hk. pose proof (proj1 (injective_um_of s) I) as I0.
  assert (HU : forall k' i p, um_of (unmap_all s (nd, app) a) k' i p <-> (k' <> (nd, app) /\ um_of s k' i p)).
  { intros k' i p. unfold unmap_all. rewrite um_of_aset. cbn [with_um a_um]. split.
    - intros [[_ H]|H]; [destruct i; discriminate | exact H].
    - intros H. right. exact H. }
  assert (MINE : forall p, In p (somes (a_um a)) <-> exists i, um_of s (nd, app) i p).
  { intros p. rewrite In_somes. split.
    - intros [i H]. exists i, a. auto.
    - intros [i (a0 & H0 & H1)]. assert (a0 = a) by congruence. subst a0. eauto. }
  split; [apply keys_aset; exact K|]. split; [|split; [intros nd' q; split|split]].
  - apply injective_um_of. intros nd' app1 i1 app2 i2 q H1 H2.
    apply HU in H1, H2. eapply I0; [exact (proj2 H1) | exact (proj2 H2)].
  - (* used -> mapped' or reserved' *)
    intros H. cbn [unmap_all used] in H. apply U in H. cbn [unmap_all resv fst]. rewrite in_app_iff. destruct H as [H|H]; [|auto].
    apply mapped_um_of in H. destruct H as (app' & i & H).
    destruct (pair_dec (nd', app') (nd, app)) as [E|NE].
    + inversion E; subst. right. left. apply in_map. apply MINE. eauto.
    + left. apply mapped_um_of. exists app', i. apply HU. auto.
  - intros H. cbn [unmap_all used]. apply U. cbn [unmap_all resv fst] in H. rewrite in_app_iff in H.
    destruct H as [H|[H|H]]; [| |auto].
    + left. apply mapped_um_of in H. destruct H as (app' & i & H). apply HU in H. apply mapped_um_of. exists app', i. tauto.
    + apply in_map_iff in H. destruct H as (p & E & Hp). inversion E; subst. apply MINE in Hp. destruct Hp as [i Hp].
      left. apply mapped_um_of. eauto.
  - intros nd' q H HM. cbn [unmap_all resv fst] in H. rewrite in_app_iff in H.
    apply mapped_um_of in HM. destruct HM as (app' & i' & HM). apply HU in HM. destruct HM as [NE HM].
    destruct H as [H|H].
    + apply in_map_iff in H. destruct H as (p & E & Hp). inversion E; subst. apply MINE in Hp. destruct Hp as [i Hp].
      destruct (I0 _ _ _ _ _ _ HM Hp) as [-> _]. apply NE. reflexivity.
    + apply (F _ _ H). apply mapped_um_of. eauto.
  - intros k' Hk'. cbn [unmap_all shreg] in Hk'. unfold unmap_all. apply registered_aset; [congruence | exact (G k' Hk')].
Qed.

Lemma inv_release s x : Inv s -> In x (resv s) -> Inv (release s x).
Proof.
  intros (K & I & U & F & G) Hx. destruct x as [nd p].
  assert (M : forall nd' q, mapped (release s (nd, p)) nd' q <-> mapped s nd' q) by (intros; reflexivity).
  split; [exact K|]. split; [exact I|]. split; [|split; [|exact G]].
  - intros nd' q. cbn [release used resv]. rewrite !In_rem2, M, (U nd' q). split.
    + intros [[H|H] NE]; auto.
    + intros [H|[H NE]]; [|auto]. split; [auto|]. intros E. inversion E; subst. exact (F _ _ Hx H).
  - intros nd' q H. cbn [release resv] in H. apply In_rem2 in H. rewrite M. exact (F _ _ (proj1 H)).
Qed.

Lemma inv_finish s k a : Inv s -> app_of s k = Some a -> a_um a = [] -> Inv (finish s k).
Proof.
  intros HI Hk Hum. pose proof HI as (K & I & U & F & G). apply (inv_same s); try assumption.
  - apply keys_adel. exact K.
  - intros k' i p. unfold finish. rewrite um_of_adel. split; [tauto|]. intros H. split; [|exact H].
    intros ->. destruct H as (a0 & H0 & H1). assert (a0 = a) by congruence. subst a0. rewrite Hum in H1. destruct i; discriminate.
  - intros y. reflexivity.
  - intros y. reflexivity.
  - intros k' Hk'. cbn [finish shreg] in Hk'. apply In_rem2 in Hk'. destruct Hk' as [H1 H2].
    unfold finish, app_of. cbn [apps]. rewrite aget_adel. destruct (pair_eqb k' k) eqn:E; [apply pair_eqb_eq in E; contradiction|].
    exact (G k' H1).
Qed.

(* ------------------------------------------------------------------ what an uninterrupted operation keeps *)
Definition keep_target (o : op) : option (Z * Z) :=
  match o with
  | Keep nd _ _ _ _ info => option_map (pair nd) (nth_error info 2)
  | _ => None
  end.

(* a qubit that is marked and not mapped stays so, unless a delivery maps exactly it *)
Lemma resv_kept s o x : In x (resv s) -> keep_target o <> Some x -> In x (resv (fst (step s o))).
Proof.
  intros Hx NT.
  assert (C : forall k f, resv (fst (classical s k f)) = resv s).
  { intros k f. unfold classical. destruct (aget pair_eqb k (apps s)) as [a|]; [|reflexivity]. destruct (f a). reflexivity. }
  destruct o as [nd app n|nd app|nd app v|nd app v|nd app r y|nd app addr len|nd app addr i y
                |nd app r|nd app addr|nd|nd app v qa ra info|]; cbn [step]; try (rewrite C; exact Hx).
  - destruct (aget pair_eqb (nd, app) (apps s)); [exact Hx|]. destruct (mem2 (nd, app) (shreg s)); exact Hx.
  - destruct (aget pair_eqb (nd, app) (apps s)) as [a|]; [|exact Hx].
    destruct (remove_all nd (somes (a_um a)) (used s)); exact Hx.
  - destruct (aget pair_eqb (nd, app) (apps s)) as [a|]; [|exact Hx].
    unfold do_qalloc. destruct (slot _ v) as [i| |]; try exact Hx.
    destruct (nth_error _ i) as [[q|]|]; try exact Hx. destruct (first_unused nd (used s)); exact Hx.
  - destruct (aget pair_eqb (nd, app) (apps s)) as [a|]; [|exact Hx].
    unfold do_qfree. destruct (slot _ v) as [i| |]; try exact Hx.
    destruct (nth_error _ i) as [[q|]|]; try exact Hx. destruct (mem2 (nd, q) (used s)); exact Hx.
  - destruct (first_unused nd (used s)); [right; exact Hx | exact Hx].
  - destruct (aget pair_eqb (nd, app) (apps s)) as [a|]; [|exact Hx].
    destruct (Nat.eqb (List.length info) 10); [|exact Hx].
    cbn [keep_target] in NT.
    destruct (nth_error info 2) as [p|]; [|exact Hx]. cbn [option_map] in NT.
    destruct (nth_error info 5); [|exact Hx]. destruct (nth_error info 6); [|exact Hx].
    destruct (keep_prefix v qa ra z0 z a) as [a' [e|]]; [exact Hx|].
    assert (MK : In x (mark_resv s nd p)) by (unfold mark_resv; destruct (mem2 (nd, p) (used s)); [exact Hx | right; exact Hx]).
    unfold do_keep. destruct (aget Z.eqb qa (a_arrs a')) as [[|[v'|] l]|]; try exact Hx.
    destruct (has_virtual _ v'); [exact Hx|].
    destruct (slot _ v') as [i| |]; try exact MK.
    destruct (nth_error _ i) as [[q|]|]; try exact MK.
    cbn [fst resv]. apply In_rem2. split; [exact Hx | congruence].
  - exact Hx.
Qed.

(* ------------------------------------------------------------------ the invariant under every interleaving *)
Theorem xinv_init : XInv xinit.
Proof. split; [exact inv_init|]. split; intros; discriminate. Qed.

Lemma pending_lookup xs k ps :
  pending_ok xs -> aget pair_eqb k (x_pending xs) = Some ps ->
  NoDup ps /\ (forall p, In p ps -> In (fst k, p) (resv (x_st xs))) /\ exists a, app_of (x_st xs) k = Some a /\ a_um a = [].
Proof. intros [Q1 _] H. exact (Q1 k ps H). Qed.

Theorem xinv_step xs e : XInv xs -> xev_ok xs e -> XInv (fst (xstep xs e)).
Proof.
  intros [HI PO] OK. pose proof PO as [Q1 Q2]. destruct e as [o|nd app|nd app]; cbn [xstep].
  - (* an uninterrupted operation of an application that is not being stopped *)
    destruct OK as (HF & NS & NK). cbn [fst]. split; [apply inv_step; assumption|].
    assert (ISO : forall k ps, aget pair_eqb k (x_pending xs) = Some ps -> app_of (fst (step (x_st xs) o)) k = app_of (x_st xs) k).
    { intros k ps Hk. apply isolation. intros E. specialize (NS k E). unfold stopping in NS. rewrite Hk in NS. discriminate. }
    split.
    + intros k ps Hk. cbn [x_pending x_st] in *. destruct (Q1 k ps Hk) as (N & R & A). split; [exact N|]. split.
      * intros p Hp. apply resv_kept; [exact (R p Hp)|]. intros E.
        destruct o; cbn [keep_target] in E; try discriminate.
        destruct (nth_error info 2) as [p0|] eqn:E2; cbn [option_map] in E; [|discriminate]. inversion E; subst.
        apply (NK p eq_refl). exists (snd k), ps. cbn [fst snd]. destruct k. split; assumption.
      * rewrite (ISO k ps Hk). exact A.
    + exact Q2.
  - (* the handler starts *)
    destruct (aget pair_eqb (nd, app) (apps (x_st xs))) as [a|] eqn:Hk; [|split; assumption].
    destruct (aget pair_eqb (nd, app) (x_pending xs)) as [ps0|] eqn:Hp; [split; assumption|].
    pose proof (inv_unmap_all _ nd app a HI Hk) as IU.
    assert (AK : app_of (unmap_all (x_st xs) (nd, app) a) (nd, app) = Some (with_um a [])).
    { unfold unmap_all, app_of. cbn [apps]. rewrite aget_aset, pair_eqb_refl. reflexivity. }
    assert (OTH : forall k, k <> (nd, app) -> app_of (unmap_all (x_st xs) (nd, app) a) k = app_of (x_st xs) k).
    { intros k NE. unfold unmap_all. apply app_of_aset. exact NE. }
    pose proof HI as (K & I & U & F & G).
    assert (ND : NoDup (somes (a_um a))).
    { apply NoDup_somes. intros i i' q H1 H2. exact (proj2 (I nd app a i app a i' q Hk Hk H1 H2)). }
    assert (MAP : forall q, In q (somes (a_um a)) -> mapped (x_st xs) nd q).
    { intros q Hq. apply In_somes in Hq. destruct Hq as [i Hq]. exists app, a, i. auto. }
    destruct (somes (a_um a)) as [|p rest] eqn:Es.
    + (* nothing to release: the handler runs to its end *)
      cbn [fst]. split; [apply (inv_finish _ _ (with_um a [])); [exact IU | exact AK | reflexivity]|].
      split.
      * intros k ps Hkp. cbn [x_pending x_st] in *. assert (NE : k <> (nd, app)) by (intros ->; congruence).
        destruct (Q1 k ps Hkp) as (N & R & A). split; [exact N|]. split.
        -- intros q Hq. cbn [finish unmap_all resv fst]. rewrite Es. cbn [map List.app]. exact (R q Hq).
        -- unfold finish. rewrite app_of_adel by exact NE. rewrite OTH by exact NE. exact A.
      * exact Q2.
    + assert (Hin : In (nd, p) (used (x_st xs))) by (apply U; left; apply MAP; left; reflexivity).
      rewrite (proj2 (mem2_In _ _) Hin). cbn [fst].
      inversion ND as [|? ? NP ND']; subst.
      split.
      * apply inv_release; [exact IU|]. cbn [unmap_all resv fst]. rewrite Es. left. reflexivity.
      * split.
        -- intros k ps Hkp. cbn [x_pending x_st] in *. rewrite aget_aset in Hkp.
           destruct (pair_eqb k (nd, app)) eqn:E.
           ++ apply pair_eqb_eq in E. subst k. inversion Hkp; subst ps. split; [exact ND'|]. split.
              ** intros q Hq. cbn [release unmap_all resv fst]. rewrite Es. apply In_rem2. split.
                 --- right. apply in_or_app. left. apply in_map. exact Hq.
                 --- intros E'. inversion E'; subst. contradiction.
              ** exists (with_um a []). split; [exact AK | reflexivity].
           ++ apply pair_eqb_neq in E. destruct (Q1 k ps Hkp) as (N & R & A). split; [exact N|]. split.
              ** intros q Hq. cbn [release unmap_all resv fst]. apply In_rem2. split.
                 --- apply in_or_app. right. exact (R q Hq).
                 --- intros E'. assert (HR := R q Hq). rewrite E' in HR. apply (F _ _ HR). apply MAP. left. reflexivity.
              ** assert (EQ : app_of (release (unmap_all (x_st xs) (nd, app) a) (nd, p)) k = app_of (x_st xs) k)
                   by (rewrite <- (OTH k E); reflexivity).
                 rewrite EQ. exact A.
        -- intros k1 k2 ps1 ps2 q H1 H2 EF I1 I2. cbn [x_pending] in *. rewrite aget_aset in H1, H2.
           destruct (pair_eqb k1 (nd, app)) eqn:E1, (pair_eqb k2 (nd, app)) eqn:E2.
           ++ apply pair_eqb_eq in E1, E2. congruence.
           ++ apply pair_eqb_eq in E1. subst k1. inversion H1; subst ps1. exfalso.
              destruct (Q1 k2 ps2 H2) as (_ & R & _). specialize (R q I2). rewrite <- EF in R. cbn [fst] in R.
              apply (F _ _ R). apply MAP. right. exact I1.
           ++ apply pair_eqb_eq in E2. subst k2. inversion H2; subst ps2. exfalso.
              destruct (Q1 k1 ps1 H1) as (_ & R & _). specialize (R q I1). rewrite EF in R. cbn [fst] in R.
              apply (F _ _ R). apply MAP. right. exact I2.
           ++ eapply Q2; eauto.
  - (* the handler is resumed *)
    destruct (aget pair_eqb (nd, app) (x_pending xs)) as [[|p rest]|] eqn:Hp; [| |split; assumption].
    + (* past the last qubit: classical state and registry entry go *)
      destruct (Q1 _ _ Hp) as (_ & _ & (a & Ha & Hum)). cbn [fst]. split; [eapply inv_finish; eauto|].
      split.
      * intros k ps Hkp. cbn [x_pending x_st] in *. rewrite aget_adel in Hkp.
        destruct (pair_eqb k (nd, app)) eqn:E; [discriminate|]. apply pair_eqb_neq in E.
        destruct (Q1 k ps Hkp) as (N & R & A). split; [exact N|]. split; [exact R|].
        unfold finish. rewrite app_of_adel by exact E. exact A.
      * intros k1 k2 ps1 ps2 q H1 H2. cbn [x_pending] in *. rewrite aget_adel in H1, H2.
        destruct (pair_eqb k1 (nd, app)); [discriminate|]. destruct (pair_eqb k2 (nd, app)); [discriminate|]. eapply Q2; eauto.
    + destruct (Q1 _ _ Hp) as (ND & R & (a & Ha & Hum)). cbn [fst] in R.
      pose proof HI as (K & I & U & F & G).
      assert (Hr : In (nd, p) (resv (x_st xs))) by (apply R; left; reflexivity).
      assert (Hin : In (nd, p) (used (x_st xs))) by (apply U; right; exact Hr).
      rewrite (proj2 (mem2_In _ _) Hin). cbn [fst]. inversion ND as [|? ? NP ND']; subst.
      split; [apply inv_release; assumption|]. split.
      * intros k ps Hkp. cbn [x_pending x_st] in *. rewrite aget_aset in Hkp.
        destruct (pair_eqb k (nd, app)) eqn:E.
        -- apply pair_eqb_eq in E. subst k. inversion Hkp; subst ps. split; [exact ND'|]. split.
           ++ intros q Hq. cbn [release resv fst]. apply In_rem2. split; [apply R; right; exact Hq|].
              intros E'. inversion E'; subst. contradiction.
           ++ exists a. split; [exact Ha | exact Hum].
        -- apply pair_eqb_neq in E. destruct (Q1 k ps Hkp) as (N & R' & A). split; [exact N|]. split; [|exact A].
           intros q Hq. cbn [release resv]. apply In_rem2. split; [exact (R' q Hq)|].
           intros E'. inversion E' as [[E1 E2]]. apply E. symmetry.
           apply (Q2 (nd, app) k (p :: rest) ps p Hp Hkp); [cbn [fst]; congruence | left; reflexivity | rewrite <- E2; exact Hq].
      * intros k1 k2 ps1 ps2 q H1 H2 EF I1 I2. cbn [x_pending] in *. rewrite aget_aset in H1, H2.
        destruct (pair_eqb k1 (nd, app)) eqn:E1, (pair_eqb k2 (nd, app)) eqn:E2.
        -- apply pair_eqb_eq in E1, E2. congruence.
        -- apply pair_eqb_eq in E1. subst k1. inversion H1; subst ps1.
           apply (Q2 (nd, app) k2 (p :: rest) ps2 q Hp H2 EF); [right; exact I1 | exact I2].
        -- apply pair_eqb_eq in E2. subst k2. inversion H2; subst ps2.
           apply (Q2 k1 (nd, app) ps1 (p :: rest) q H1 Hp EF); [exact I1 | right; exact I2].
        -- eapply Q2; eauto.
Qed.

Theorem xinv_reachable xs : xreach xs -> XInv xs.
Proof. induction 1 as [|xs e _ IH OK]; [exact xinv_init | exact (xinv_step xs e IH OK)]. Qed.

(* ------------------------------------------------------------------ what the invariant says in between and at rest *)
(* in EVERY state, also between two yields of a stop: no two allocated virtual qubits share a
   physical qubit; marked in use = mapped, or marked and not mapped (resv); what a suspended
   stop still has to release is of the second kind, each qubit held by one stop only *)
Theorem x_intermediate xs :
  XInv xs ->
  injective (x_st xs) /\
  (forall nd p, In (nd, p) (used (x_st xs)) <-> (mapped (x_st xs) nd p \/ In (nd, p) (resv (x_st xs)))) /\
  (forall nd p, In (nd, p) (resv (x_st xs)) -> ~ mapped (x_st xs) nd p) /\
  (forall x, is_pending xs x -> In x (used (x_st xs)) /\ In x (resv (x_st xs)) /\ ~ mapped (x_st xs) (fst x) (snd x)).
Proof.
  intros [(K & I & U & F & G) [Q1 Q2]]. split; [exact I|]. split; [exact U|]. split; [exact F|].
  intros [nd p] (app & ps & H & Hp). cbn [fst snd] in *. destruct (Q1 _ _ H) as (_ & R & _). specialize (R p Hp). cbn [fst] in R.
  split; [apply U; right; exact R|]. split; [exact R | exact (F _ _ R)].
Qed.

(* at rest (no stop suspended, nothing in flight): marked in use = mapped *)
Theorem x_quiescent xs :
  XInv xs -> x_pending xs = [] -> resv (x_st xs) = [] ->
  forall nd p, In (nd, p) (used (x_st xs)) <-> mapped (x_st xs) nd p.
Proof. intros [HI _] _ E. exact (used_is_image _ HI E). Qed.

(* ------------------------------------------------------------------ isolation under interleaving *)
Theorem x_isolation xs e k' :
  xev_pid e <> Some k' -> app_of (x_st (fst (xstep xs e))) k' = app_of (x_st xs) k'.
Proof.
  intros NE. destruct e as [o|nd app|nd app]; cbn [xev_pid] in NE; cbn [xstep].
  - cbn [fst x_st]. apply isolation. exact NE.
  - assert (NE' : k' <> (nd, app)) by (intros ->; apply NE; reflexivity).
    destruct (aget pair_eqb (nd, app) (apps (x_st xs))) as [a|]; [|reflexivity].
    destruct (aget pair_eqb (nd, app) (x_pending xs)); [reflexivity|].
    assert (OTH : app_of (unmap_all (x_st xs) (nd, app) a) k' = app_of (x_st xs) k') by (unfold unmap_all; apply app_of_aset; exact NE').
    destruct (somes (a_um a)) as [|p rest].
    + cbn [fst x_st]. unfold finish. rewrite app_of_adel by exact NE'. exact OTH.
    + destruct (mem2 (nd, p) (used (x_st xs))); cbn [fst x_st]; exact OTH.
  - assert (NE' : k' <> (nd, app)) by (intros ->; apply NE; reflexivity).
    destruct (aget pair_eqb (nd, app) (x_pending xs)) as [[|p rest]|]; [| |reflexivity].
    + cbn [fst x_st]. unfold finish. apply app_of_adel. exact NE'.
    + destruct (mem2 (nd, p) (used (x_st xs))); reflexivity.
Qed.

(* events of other applications (and of the environment) do not touch a suspended stop: it
   needs exactly its own resumptions, whatever is interleaved *)
Theorem x_others_keep_pending xs e k :
  xev_pid e <> Some k -> aget pair_eqb k (x_pending (fst (xstep xs e))) = aget pair_eqb k (x_pending xs).
Proof.
  intros NE. destruct e as [o|nd app|nd app]; cbn [xev_pid] in NE; cbn [xstep]; [reflexivity| |].
  - assert (NE' : k <> (nd, app)) by (intros ->; apply NE; reflexivity).
    destruct (aget pair_eqb (nd, app) (apps (x_st xs))) as [a|]; [|reflexivity].
    destruct (aget pair_eqb (nd, app) (x_pending xs)); [reflexivity|].
    destruct (somes (a_um a)) as [|p rest]; [reflexivity|].
    destruct (mem2 (nd, p) (used (x_st xs))); [|reflexivity]. cbn [fst x_pending]. rewrite aget_aset.
    destruct (pair_eqb k (nd, app)) eqn:E; [apply pair_eqb_eq in E; contradiction | reflexivity].
  - assert (NE' : k <> (nd, app)) by (intros ->; apply NE; reflexivity).
    destruct (aget pair_eqb (nd, app) (x_pending xs)) as [[|p rest]|]; [| |reflexivity].
    + cbn [fst x_pending]. rewrite aget_adel. destruct (pair_eqb k (nd, app)) eqn:E; [apply pair_eqb_eq in E; contradiction | reflexivity].
    + destruct (mem2 (nd, p) (used (x_st xs))); [|reflexivity]. cbn [fst x_pending]. rewrite aget_aset.
      destruct (pair_eqb k (nd, app)) eqn:E; [apply pair_eqb_eq in E; contradiction | reflexivity].
Qed.

(* ------------------------------------------------------------------ a stop makes progress and ends *)
(* starting: never a fault for a registered application that is not being stopped; either it
   runs to its end at once (no qubits) or its first qubit is released and the rest is pending *)
Theorem x_stop_begin xs nd app a :
  XInv xs -> app_of (x_st xs) (nd, app) = Some a -> stopping xs (nd, app) = false ->
  let r := xstep xs (XStopBegin nd app) in
  snd r = Done /\
  match somes (a_um a) with
  | [] => app_of (x_st (fst r)) (nd, app) = None /\ ~ In (nd, app) (shreg (x_st (fst r))) /\
          stopping (fst r) (nd, app) = false /\ used (x_st (fst r)) = used (x_st xs)
  | p :: rest => aget pair_eqb (nd, app) (x_pending (fst r)) = Some rest /\
                 (forall y, In y (used (x_st (fst r))) <-> In y (used (x_st xs)) /\ y <> (nd, p)) /\
                 (exists a', app_of (x_st (fst r)) (nd, app) = Some a' /\ a_um a' = [])
  end.
Proof.
  intros [HI PO] Hk NS r. unfold r. cbn [xstep]. unfold app_of in Hk. rewrite Hk.
  unfold stopping in NS. destruct (aget pair_eqb (nd, app) (x_pending xs)) eqn:Hp; [discriminate|].
  pose proof HI as (K & I & U & F & G).
  destruct (somes (a_um a)) as [|p rest] eqn:Es.
  - cbn [fst snd x_st x_pending]. split; [reflexivity|]. split; [|split; [|split]].
    + unfold finish, app_of. cbn [apps]. rewrite aget_adel, pair_eqb_refl. reflexivity.
    + cbn [finish shreg]. rewrite In_rem2. tauto.
    + unfold stopping. cbn [x_pending]. rewrite Hp. reflexivity.
    + reflexivity.
  - assert (Hin : In (nd, p) (used (x_st xs))).
    { apply U. left. assert (Hq : In p (somes (a_um a))) by (rewrite Es; left; reflexivity).
      apply In_somes in Hq. destruct Hq as [i Hq]. exists app, a, i. auto. }
    rewrite (proj2 (mem2_In _ _) Hin). cbn [fst snd x_st x_pending]. split; [reflexivity|]. split; [|split].
    + rewrite aget_aset, pair_eqb_refl. reflexivity.
    + intros y. cbn [release unmap_all used]. apply In_rem2.
    + exists (with_um a []). split; [|reflexivity]. unfold release, unmap_all, app_of. cbn [apps].
      rewrite aget_aset, pair_eqb_refl. reflexivity.
Qed.

(* resuming: never a fault; one more qubit released, or -- past the last one -- the application,
   its classical state and its registry entry are gone *)
Theorem x_stop_step xs nd app ps :
  XInv xs -> aget pair_eqb (nd, app) (x_pending xs) = Some ps ->
  let r := xstep xs (XStopStep nd app) in
  snd r = Done /\
  match ps with
  | [] => app_of (x_st (fst r)) (nd, app) = None /\ ~ In (nd, app) (shreg (x_st (fst r))) /\
          stopping (fst r) (nd, app) = false /\ used (x_st (fst r)) = used (x_st xs)
  | p :: rest => aget pair_eqb (nd, app) (x_pending (fst r)) = Some rest /\
                 (forall y, In y (used (x_st (fst r))) <-> In y (used (x_st xs)) /\ y <> (nd, p)) /\
                 ~ mapped (x_st (fst r)) nd p /\ ~ In (nd, p) (used (x_st (fst r)))
  end.
Proof.
  intros [HI [Q1 Q2]] Hp r. unfold r. cbn [xstep]. rewrite Hp. destruct ps as [|p rest].
  - cbn [fst snd x_st x_pending]. split; [reflexivity|]. split; [|split; [|split]].
    + unfold finish, app_of. cbn [apps]. rewrite aget_adel, pair_eqb_refl. reflexivity.
    + cbn [finish shreg]. rewrite In_rem2. tauto.
    + unfold stopping. cbn [x_pending]. rewrite aget_adel, pair_eqb_refl. reflexivity.
    + reflexivity.
  - destruct (Q1 _ _ Hp) as (_ & R & _). pose proof HI as (K & I & U & F & G).
    assert (Hr : In (nd, p) (resv (x_st xs))) by (apply R; left; reflexivity).
    assert (Hin : In (nd, p) (used (x_st xs))) by (apply U; right; exact Hr).
    rewrite (proj2 (mem2_In _ _) Hin). cbn [fst snd x_st x_pending]. split; [reflexivity|]. split; [|split; [|split]].
    + rewrite aget_aset, pair_eqb_refl. reflexivity.
    + intros y. cbn [release used]. apply In_rem2.
    + exact (F _ _ Hr).
    + cbn [release used]. rewrite In_rem2. tauto.
Qed.

(* the number of its own resumptions a suspended stop still needs *)
Fixpoint resume_n (xs : xstate) (nd app : Z) (n : nat) : xstate :=
  match n with
  | O => xs
  | S m => resume_n (fst (xstep xs (XStopStep nd app))) nd app m
  end.

(* stop releases everything: after |pending| + 1 resumptions (other events may be interleaved
   anywhere by x_others_keep_pending / x_isolation) the application is gone, every qubit it
   still held is unmarked, and the invariant holds -- so the id can be registered again *)
Theorem x_stop_completes nd app : forall ps xs,
  XInv xs -> aget pair_eqb (nd, app) (x_pending xs) = Some ps ->
  let xs' := resume_n xs nd app (S (List.length ps)) in
  XInv xs' /\ app_of (x_st xs') (nd, app) = None /\ ~ In (nd, app) (shreg (x_st xs')) /\
  stopping xs' (nd, app) = false /\
  (forall y, In y (used (x_st xs')) <-> In y (used (x_st xs)) /\ ~ (fst y = nd /\ In (snd y) ps)).
Proof.
  induction ps as [|p rest IH]; intros xs HX Hp.
  - cbn [List.length resume_n]. destruct (x_stop_step xs nd app [] HX Hp) as (_ & A & B & C & D).
    split; [apply xinv_step; [exact HX | exact I]|]. split; [exact A|]. split; [exact B|]. split; [exact C|].
    intros y. rewrite D. cbn [In]. tauto.
  - cbn [List.length]. change (resume_n xs nd app (S (S (List.length rest))))
      with (resume_n (fst (xstep xs (XStopStep nd app))) nd app (S (List.length rest))).
    destruct (x_stop_step xs nd app (p :: rest) HX Hp) as (_ & A & B & _).
    assert (HX' : XInv (fst (xstep xs (XStopStep nd app)))) by (apply xinv_step; [exact HX | exact I]).
    destruct (IH _ HX' A) as (X & N & R & S & Uu). split; [exact X|]. split; [exact N|]. split; [exact R|]. split; [exact S|].
    intros [y1 y2]. rewrite Uu, B. cbn [fst snd In]. split.
    + intros [[H1 H2] H3]. split; [exact H1|]. intros [-> [->|H4]]; [apply H2; reflexivity | apply H3; auto].
    + intros [H1 H2]. split; [split; [exact H1|]|].
      * intros E. inversion E; subst. apply H2. auto.
      * intros [-> H4]. apply H2. auto.
Qed.

Theorem x_reregister_after_stop xs nd app ps n :
  XInv xs -> aget pair_eqb (nd, app) (x_pending xs) = Some ps ->
  let xs' := resume_n xs nd app (S (List.length ps)) in
  let r := xstep xs' (XOp (Init nd app n)) in
  snd r = Done /\ app_of (x_st (fst r)) (nd, app) = Some (fresh_app n).
Proof.
  intros HX Hp xs' r. destruct (x_stop_completes nd app ps xs HX Hp) as ([HI _] & N & _).
  unfold r. cbn [xstep fst snd x_st]. exact (register_ok _ nd app n HI N).
Qed.

(* ------------------------------------------------------------------ non-vacuity / the seeded interleaving *)
(* application 1 holds physical qubits 0 and 1; its stop is suspended after releasing 0;
   application 0 allocates (gets 0) and again (gets 2, because 1 is still marked); the stop
   ends; application 0's qubits are still marked and the pool hands out 1 next *)
Definition stop_demo : list xev :=
  [XOp (Init 0 0 3); XOp (Init 0 1 2); XOp (QAlloc 0 1 0); XOp (QAlloc 0 1 1);
   XStopBegin 0 1; XOp (QAlloc 0 0 0); XOp (QAlloc 0 0 1); XStopStep 0 1; XStopStep 0 1; XOp (QAlloc 0 0 2)].

Lemma stop_demo_reachable : xreach (xrun xinit stop_demo).
Proof.
  unfold stop_demo. cbn [xrun].
  repeat (apply xreach_step; [|cbn; repeat split; try exact I; try (intros k E; inversion E; subst; reflexivity); intros; discriminate]).
  apply xreach_init.
Qed.
