(* BridgeCommon.v — lemmas shared by the bridges from the private interpreters of
   C03 / C05 / C08 / C10 to the common semantics Exec/Sem.v. *)
From Coq Require Import ZArith List Bool Lia.
From NQ Require Import Exec.State Exec.Sem Proofs.ExecProofs.
Import ListNotations.
Open Scope Z_scope.

(* ------------------------------------------------------------------ dictionaries *)
Section FindUpd.
  Variables (K V : Type) (eqb : K -> K -> bool).
  Hypothesis eqb_spec : forall x y, eqb x y = true <-> x = y.

  Lemma eqb_refl_of_spec : forall x, eqb x x = true.
  Proof. intro x. apply eqb_spec. reflexivity. Qed.

  Lemma find_upd : forall (k k' : K) (v : V) l,
    find eqb k' (upd eqb k v l) = if eqb k' k then Some v else find eqb k' l.
  Proof.
    intros k k' v l. induction l as [|[k0 v0] t IH]; cbn.
    - reflexivity.
    - destruct (eqb k k0) eqn:E; cbn.
      + apply eqb_spec in E. subst k0. destruct (eqb k' k); reflexivity.
      + rewrite IH. destruct (eqb k' k) eqn:E1; [|reflexivity].
        apply eqb_spec in E1. subst k'. rewrite E. reflexivity.
  Qed.
End FindUpd.

Lemma bank_eqb_spec : forall a b, bank_eqb a b = true <-> a = b.
Proof. intros [] []; unfold bank_eqb; cbn; split; intro H; try reflexivity; try discriminate. Qed.

Lemma reg_eqb_spec : forall a b : reg, reg_eqb a b = true <-> a = b.
Proof.
  intros [b1 i1] [b2 i2]. unfold reg_eqb. cbn [fst snd]. rewrite andb_true_iff, bank_eqb_spec, Z.eqb_eq.
  split; [intros [-> ->]; reflexivity | intros [= -> ->]; split; reflexivity].
Qed.

Lemma Zeqb_spec : forall a b : Z, Z.eqb a b = true <-> a = b.
Proof. intros. apply Z.eqb_eq. Qed.

Lemma rd_wr : forall st r v r', rd (wr st r v) r' = if reg_eqb r' r then Some v else rd st r'.
Proof. intros. unfold rd, wr. cbn [regs with_regs]. apply find_upd. exact reg_eqb_spec. Qed.

(* a run that has stopped does not depend on more fuel being unused: the successor
   state of a step inside the defined domain is inside the defined domain *)
Lemma defined_from_step : forall prog st pc i st' pc',
  defined_from prog st pc -> 0 <= pc -> nth_error prog (Z.to_nat pc) = Some i ->
  step i st pc = Next st' pc' -> defined_from prog st' pc'.
Proof.
  intros prog st pc i st' pc' H H0 Hi Hs f. specialize (H (S f)). rewrite sem_run_eq in H.
  replace (pc <? 0) with false in H by lia.
  assert (Hlt : pc < Zlen prog) by (eapply nth_some_lt; eauto).
  replace (Zlen prog <=? pc) with false in H by lia. rewrite Hi, Hs in H. exact H.
Qed.

Lemma defined_from_not_open : forall prog st pc i,
  defined_from prog st pc -> 0 <= pc -> nth_error prog (Z.to_nat pc) = Some i ->
  step i st pc <> Stop (Unspec pc).
Proof.
  intros prog st pc i H H0 Hi Hc. specialize (H 1%nat). rewrite sem_run_eq in H.
  replace (pc <? 0) with false in H by lia.
  assert (Hlt : pc < Zlen prog) by (eapply nth_some_lt; eauto).
  replace (Zlen prog <=? pc) with false in H by lia. rewrite Hi, Hc in H. cbn in H. discriminate.
Qed.

Lemma defined_from_nonneg : forall prog st pc, defined_from prog st pc -> 0 <= pc.
Proof. intros prog st pc H. pose proof (defined_from_pc _ _ _ H). lia. Qed.
