(* Proofs/ConnProofs.v — proofs about Sdk/Conn.v (property C06). *)
From Coq Require Import ZArith List Bool String Lia Permutation.
From NQ Require Import Sdk.Conn.
Import ListNotations.
Open Scope nat_scope.

(* ------------------------------------------------- instantiate commutes with assemble *)
Lemma regs_of_ops_subst : forall v ops, regs_of_ops (map (subst_op v) ops) = regs_of_ops ops.
Proof.
  induction ops as [|o ops IH]; simpl; [reflexivity|]. destruct o; simpl; rewrite IH; reflexivity.
Qed.

Lemma regs_of_subst : forall v p, regs_of (subst v p) = regs_of p.
Proof.
  induction p as [|[name ops] p IH]; [reflexivity|].
  unfold regs_of, subst in *. simpl. rewrite regs_of_ops_subst. f_equal. exact IH.
Qed.

Definition subst_res (v : string -> Z) (r : option (list pcmd * list pop)) : option (list pcmd * list pop) :=
  match r with Some (s, o) => Some (subst v s, map (subst_op v) o) | None => None end.

Lemma repl_ops_subst : forall ex name cur v ops j tmp,
  (forall k n, nth_error ops k = Some (OTmpl n) -> is_exempt ex name (j + k) = true) ->
  repl_ops ex name cur j tmp (map (subst_op v) ops) = subst_res v (repl_ops ex name cur j tmp ops).
Proof.
  induction ops as [|o ops IH]; intros j tmp H; [reflexivity|].
  assert (H' : forall k n, nth_error ops k = Some (OTmpl n) -> is_exempt ex name (S j + k) = true).
  { intros k n Hk. specialize (H (S k) n Hk). rewrite Nat.add_succ_r in H. exact H. }
  destruct o as [z|rg|n]; cbn [repl_ops map subst_op].
  - destruct (is_exempt ex name j).
    + rewrite (IH (S j) tmp H'). destruct (repl_ops ex name cur (S j) tmp ops) as [[s r]|]; reflexivity.
    + destruct (first_free 16 0 cur tmp) as [k|]; [|reflexivity].
      rewrite (IH (S j) (k :: tmp) H').
      destruct (repl_ops ex name cur (S j) (k :: tmp) ops) as [[s r]|]; reflexivity.
  - rewrite (IH (S j) tmp H'). destruct (repl_ops ex name cur (S j) tmp ops) as [[s r]|]; reflexivity.
  - specialize (H 0 n eq_refl). rewrite Nat.add_0_r in H. rewrite H.
    rewrite (IH (S j) tmp H'). destruct (repl_ops ex name cur (S j) tmp ops) as [[s r]|]; reflexivity.
Qed.

Lemma asm_cmds_subst : forall ex cur v p,
  templates_only_in_exempt_positions ex p ->
  asm_cmds ex cur (subst v p) = option_map (subst v) (asm_cmds ex cur p).
Proof.
  induction p as [|[name ops] p IH]; intro H; simpl; [reflexivity|].
  assert (Hp : templates_only_in_exempt_positions ex p).
  { intros nm os j n Hin Hn. apply (H nm os j n); [right; exact Hin | exact Hn]. }
  rewrite repl_ops_subst by (intros k n Hk; simpl; apply (H name ops k n); [left; reflexivity | exact Hk]).
  rewrite (IH Hp).
  destruct (repl_ops ex name cur 0 [] ops) as [[s r]|]; simpl; [|reflexivity].
  destruct (asm_cmds ex cur p) as [rest|]; simpl; [|reflexivity].
  unfold subst. rewrite map_app. reflexivity.
Qed.

Theorem instantiate_commutes : forall ex v p,
  templates_only_in_exempt_positions ex p ->
  instantiate v (assemble ex p) = assemble ex (subst v p).
Proof.
  intros ex v p H. unfold instantiate, assemble. rewrite regs_of_subst. symmetry. apply asm_cmds_subst. exact H.
Qed.

Lemma nth_combine_seq : forall (ops : list pop) s j o,
  nth_error ops j = Some o -> nth_error (combine (seq s (List.length ops)) ops) j = Some (s + j, o).
Proof.
  induction ops as [|x ops IH]; intros s j o H; [destruct j; discriminate|].
  destruct j as [|j]; simpl in *.
  - inversion H; subst. rewrite Nat.add_0_r. reflexivity.
  - rewrite (IH (S s) j o H). f_equal. f_equal. lia.
Qed.

Lemma tmpl_exempt_b_sound : forall ex p, tmpl_exempt_b ex p = true -> templates_only_in_exempt_positions ex p.
Proof.
  intros ex p H name ops j n Hin Hn. unfold tmpl_exempt_b in H. rewrite forallb_forall in H.
  specialize (H (name, ops) Hin). simpl in H. rewrite forallb_forall in H.
  pose proof (nth_combine_seq ops 0 j _ Hn) as Hnth. simpl in Hnth.
  specialize (H _ (nth_error_In _ _ Hnth)). simpl in H. exact H.
Qed.

(* --------------------------------------------------------- connection bookkeeping *)
Theorem compile_then_commit_state : forall ex c v,
  templates_only_in_exempt_positions ex (pending c) ->
  let c1 := apply_op ex (apply_op ex (apply_op ex c SCompile) (SInstantiate v)) SCommit in
  let c2 := apply_op ex (subst_conn v c) SFlush in
  conn_state c1 = conn_state c2 /\ sent c1 = sent c2 /\ held c1 = None /\
  (pop_pending ex c <> None -> arrs_ret c1 = [] /\ regs_ret c1 = [] /\ pending c1 = []).
Proof.
  intros ex c v H. unfold apply_op at 3. unfold subst_conn.
  unfold pop_pending. simpl.
  destruct (pending c) as [|x xs] eqn:Ep; destruct (arrs_ret c) as [|a ar] eqn:Ea; destruct (regs_ret c) as [|r rr] eqn:Er;
    simpl; unfold conn_state; simpl; rewrite ?Ep, ?Ea, ?Er; simpl;
    try (repeat split; try reflexivity; try (intro Hc; exfalso; apply Hc; reflexivity);
         try (unfold subst_sub; simpl; rewrite instantiate_commutes by exact H; reflexivity)).
Qed.

(* invariant: every array address was handed out once *)
Definition held_decl (c : conn) : list nat := match held c with Some s => s_decl s | None => [] end.
Definition addrs (c : conn) : list nat := flat_map s_decl (sent c) ++ held_decl c ++ arrs_ret c.
Definition all_subs (c : conn) : list sub := sent c ++ match held c with Some s => [s] | None => [] end.

Record inv (c : conn) : Prop := mkInv {
  inv_nodup : NoDup (addrs c);
  inv_lt : forall a, In a (addrs c) -> a < next_addr c;
  inv_ret : forall s, In s (all_subs c) -> s_retarr s = s_decl s
}.

Lemma inv0 : inv conn0.
Proof. constructor; simpl; [constructor | intros a [] | intros s []]. Qed.

Lemma NoDup_app_drop_mid : forall (a b d : list nat), NoDup (a ++ b ++ d) -> NoDup (a ++ d).
Proof.
  intros a b d H. induction b as [|x b IH]; [exact H|].
  apply IH. simpl in H. apply NoDup_remove_1 in H. exact H.
Qed.

Lemma pop_some : forall ex c s, pop_pending ex c = Some s -> s_decl s = arrs_ret c /\ s_retarr s = arrs_ret c.
Proof.
  intros ex c s H. unfold pop_pending in H.
  destruct (pending c); destruct (arrs_ret c); destruct (regs_ret c); inversion H; simpl; split; reflexivity.
Qed.

Lemma inv_step : forall ex c o, inv c -> inv (apply_op ex c o).
Proof.
  intros ex c o [Hnd Hlt Hret]. destruct o; simpl.
  - constructor; assumption.
  - (* SMeasArr: a fresh address *)
    constructor; unfold addrs, all_subs, held_decl in *; simpl in *;
      set (hd := match held c with Some s => s_decl s | None => [] end) in *.
    + rewrite !app_assoc. apply Permutation_NoDup with (l := next_addr c :: (flat_map s_decl (sent c) ++ hd) ++ arrs_ret c).
      * rewrite <- app_assoc. apply Permutation_cons_append.
      * constructor; [|rewrite <- app_assoc; exact Hnd].
        intro Hin. rewrite <- app_assoc in Hin. specialize (Hlt _ Hin). lia.
    + intros a Hin. rewrite !app_assoc in Hin. apply in_app_or in Hin. destruct Hin as [Hin|[Hin|[]]].
      * rewrite <- app_assoc in Hin. specialize (Hlt _ Hin). lia.
      * lia.
    + exact Hret.
  - constructor; assumption.
  - (* SFlush *)
    destruct (pop_pending ex c) as [s|] eqn:Ep; [|constructor; assumption].
    destruct (pop_some _ _ _ Ep) as [Hd Hr].
    constructor; unfold addrs, all_subs, held_decl in *; simpl in *;
      set (hd := match held c with Some s => s_decl s | None => [] end) in *.
    + rewrite flat_map_app. simpl. rewrite Hd, !app_nil_r. rewrite <- app_assoc.
      apply Permutation_NoDup with (l := flat_map s_decl (sent c) ++ hd ++ arrs_ret c); [|exact Hnd].
      apply Permutation_app_head. apply Permutation_app_comm.
    + intros a Hin. apply Hlt. rewrite flat_map_app in Hin. simpl in Hin. rewrite Hd, !app_nil_r in Hin.
      rewrite <- app_assoc in Hin. apply in_app_or in Hin. apply in_or_app. destruct Hin as [Hin|Hin]; [left; exact Hin|].
      right. apply in_app_or in Hin. apply in_or_app. destruct Hin; [right | left]; assumption.
    + intros s0 Hin. rewrite <- app_assoc in Hin. apply in_app_or in Hin. destruct Hin as [Hin|Hin].
      * apply Hret. apply in_or_app. left. exact Hin.
      * simpl in Hin. destruct Hin as [Hin|Hin]; [subst s0; congruence|].
        apply Hret. apply in_or_app. right. exact Hin.
  - (* SCompile *)
    destruct (pop_pending ex c) as [s|] eqn:Ep.
    + destruct (pop_some _ _ _ Ep) as [Hd Hr].
      constructor; unfold addrs, all_subs, held_decl in *; simpl in *.
      * rewrite Hd, app_nil_r. eapply NoDup_app_drop_mid. exact Hnd.
      * intros a Hin. apply Hlt. rewrite Hd, app_nil_r in Hin. apply in_app_or in Hin. apply in_or_app.
        destruct Hin as [Hin|Hin]; [left; exact Hin | right; apply in_or_app; right; exact Hin].
      * intros s0 Hin. apply in_app_or in Hin. destruct Hin as [Hin|[Hin|[]]]; [|subst s0; congruence].
        apply Hret. apply in_or_app. left. exact Hin.
    + constructor; unfold addrs, all_subs, held_decl in *; simpl in *.
      * eapply NoDup_app_drop_mid with (b := match held c with Some s => s_decl s | None => [] end). exact Hnd.
      * intros a Hin. apply Hlt. apply in_app_or in Hin. apply in_or_app.
        destruct Hin as [Hin|Hin]; [left; exact Hin | right; apply in_or_app; right; exact Hin].
      * intros s0 Hin. rewrite app_nil_r in Hin. apply Hret. apply in_or_app. left. exact Hin.
  - (* SInstantiate *)
    constructor; unfold addrs, all_subs, held_decl in *; simpl in *.
    + destruct (held c); exact Hnd.
    + destruct (held c); exact Hlt.
    + intros s0 Hin. destruct (held c) as [h|]; simpl in *; [|apply Hret; exact Hin].
      apply in_app_or in Hin. destruct Hin as [Hin|[Hin|[]]].
      * apply Hret. apply in_or_app. left. exact Hin.
      * subst s0. simpl. apply (Hret h). apply in_or_app. right. left. reflexivity.
  - (* SInstantiateFail *) constructor; assumption.
  - (* SCommit *)
    destruct (held c) as [h|] eqn:Eh; [|constructor; assumption].
    constructor; unfold addrs, all_subs, held_decl in *; simpl in *; rewrite ?Eh in *.
    + rewrite flat_map_app. simpl. rewrite app_nil_r, <- app_assoc. exact Hnd.
    + intros a Hin. apply Hlt. rewrite flat_map_app in Hin. simpl in Hin. rewrite app_nil_r, <- app_assoc in Hin. exact Hin.
    + intros s0 Hin. rewrite app_nil_r in Hin. apply Hret. exact Hin.
Qed.

Lemma inv_run : forall ex l c, inv c -> inv (run_ops ex c l).
Proof. induction l as [|o l IH]; intros c H; simpl; [exact H | apply IH; apply inv_step; exact H]. Qed.

Lemma NoDup_flat_disjoint : forall (l : list sub) i j si sj a,
  NoDup (flat_map s_decl l) -> i < j -> nth_error l i = Some si -> nth_error l j = Some sj ->
  In a (s_decl si) -> ~ In a (s_decl sj).
Proof.
  induction l as [|x l IH]; intros i j si sj a Hnd Hij Hi Hj Ha Hb; [destruct i; discriminate|].
  simpl in Hnd. destruct i as [|i]; simpl in Hi.
  - inversion Hi; subst x. destruct j as [|j]; [lia|]. simpl in Hj.
    assert (Hin : In a (flat_map s_decl l)).
    { apply in_flat_map. exists sj. split; [eapply nth_error_In; exact Hj | exact Hb]. }
    clear - Hnd Ha Hin. induction (s_decl si) as [|y ys IHy]; [contradiction|].
    simpl in Hnd. inversion Hnd as [|? ? Hnin Hnd']; subst. destruct Ha as [Ha|Ha].
    + subst y. apply Hnin. apply in_or_app. right. exact Hin.
    + apply IHy; assumption.
  - destruct j as [|j]; [lia|]. simpl in Hj.
    apply (IH i j si sj a); try assumption; [|lia].
    clear - Hnd. induction (s_decl x) as [|y ys IHy]; [exact Hnd|]. simpl in Hnd. inversion Hnd; subst. apply IHy. assumption.
Qed.

Lemma NoDup_app_l : forall (a b : list nat), NoDup (a ++ b) -> NoDup a.
Proof.
  induction a as [|x a IH]; intros b H; [constructor|].
  simpl in H. inversion H as [|? ? Hn Hd]; subst. constructor.
  - intro Hin. apply Hn. apply in_or_app. left. exact Hin.
  - apply (IH b). exact Hd.
Qed.

(* any mix of operations, flushes, compile / instantiate / commit: no subroutine that
   reaches the controller re-declares an array an earlier one returned *)
Theorem no_redeclare_any_history : forall ex l, no_redeclare (sent (run_ops ex conn0 l)).
Proof.
  intros ex l. pose proof (inv_run ex l conn0 inv0) as [Hnd _ Hret].
  set (c := run_ops ex conn0 l) in *.
  intros i j si sj a Hij Hi Hj Ha.
  assert (Hsi : In si (all_subs c)) by (unfold all_subs; apply in_or_app; left; eapply nth_error_In; exact Hi).
  rewrite (Hret si Hsi) in Ha.
  unfold addrs in Hnd. apply NoDup_app_l in Hnd.
  exact (NoDup_flat_disjoint _ _ _ _ _ _ Hnd Hij Hi Hj Ha).
Qed.

(* ------------------- operations issued between compile() and commit_subroutine() *)
Definition queue_op (o : sop) : Prop :=
  match o with SGate _ | SMeasArr _ | SMeasReg _ _ => True | _ => False end.

Lemma conn_state_step : forall ex c c' o, queue_op o -> conn_state c = conn_state c' ->
  conn_state (apply_op ex c o) = conn_state (apply_op ex c' o).
Proof.
  intros ex c c' o Hq H. unfold conn_state in *. inversion H as [[H1 H2 H3 H4]].
  destruct o; simpl in Hq; try contradiction; simpl; rewrite H1, H2, H3, H4; reflexivity.
Qed.

Lemma conn_state_run : forall ex l c c', Forall queue_op l -> conn_state c = conn_state c' ->
  conn_state (run_ops ex c l) = conn_state (run_ops ex c' l).
Proof.
  induction l as [|o l IH]; intros c c' Hq H; simpl; [exact H|].
  inversion Hq; subst. apply IH; [assumption|]. apply conn_state_step; assumption.
Qed.

Lemma compile_flush_state : forall ex c, conn_state (apply_op ex c SCompile) = conn_state (apply_op ex c SFlush).
Proof. intros ex c. simpl. destruct (pop_pending ex c); reflexivity. Qed.

Lemma instantiate_state : forall ex c v, conn_state (apply_op ex c (SInstantiate v)) = conn_state c.
Proof. reflexivity. Qed.

Lemma commit_state : forall ex c, conn_state (apply_op ex c SCommit) = conn_state c.
Proof. intros ex c. simpl. destruct (held c); reflexivity. Qed.

Lemma pop_pending_state : forall ex c c', conn_state c = conn_state c' -> pop_pending ex c = pop_pending ex c'.
Proof.
  intros ex c c' H. unfold conn_state in H. inversion H as [[H1 H2 H3 H4]]. unfold pop_pending. rewrite H1, H2, H3. reflexivity.
Qed.

(* a failed instantiate() followed by a retry commits exactly what a single successful
   instantiate() commits, wherever the failure happens among queued operations *)
Theorem failed_instantiate_then_retry : forall ex c v mid,
  Forall queue_op mid ->
  let a := apply_op ex (apply_op ex (run_ops ex (apply_op ex (apply_op ex c SCompile) SInstantiateFail) mid) (SInstantiate v)) SCommit in
  let b := apply_op ex (apply_op ex (run_ops ex (apply_op ex c SCompile) mid) (SInstantiate v)) SCommit in
  a = b.
Proof. intros ex c v mid H. reflexivity. Qed.

(* Operations queued after compile() — between compile and instantiate (mid1) and
   between instantiate and commit (mid2) — belong to the NEXT subroutine: committing the
   pre-compiled subroutine leaves their commands, their arrays to declare/return and
   their registers to return pending, exactly as if the first block had been flushed
   instead; the next flush therefore sends the same subroutine in both flows. *)
Theorem ops_between_compile_and_commit_go_to_next : forall ex c v mid1 mid2,
  Forall queue_op mid1 -> Forall queue_op mid2 ->
  let pre := apply_op ex (run_ops ex (apply_op ex (run_ops ex (apply_op ex c SCompile) mid1) (SInstantiate v)) mid2) SCommit in
  let dir := run_ops ex (run_ops ex (apply_op ex c SFlush) mid1) mid2 in
  conn_state pre = conn_state dir /\ pop_pending ex pre = pop_pending ex dir.
Proof.
  intros ex c v mid1 mid2 H1 H2 pre dir.
  assert (Hs : conn_state pre = conn_state dir).
  { unfold pre, dir. rewrite commit_state. apply conn_state_run; [exact H2|].
    rewrite instantiate_state. apply conn_state_run; [exact H1|]. apply compile_flush_state. }
  split; [exact Hs | apply pop_pending_state; exact Hs].
Qed.
