(* SdkInvProofs.v — compile-time invariants of the builder model along lowering (used by the
   simulation proof of C05): what a plain statement may change in the lowering state. *)
From Coq Require Import ZArith List Bool Arith Lia.
From NQ Require Import Sdk.SdkAst Sdk.Target Sdk.Eval Sdk.MemMgr Sdk.Lower.
From NQ Require Import Proofs.SdkRegProofs Proofs.SdkMapLemmas.
Import ListNotations.
Local Open Scope nat_scope.

Definition sub {A} (m1 m2 : list (nat * A)) : Prop :=
  forall k v, alook k m1 = Some v -> alook k m2 = Some v.
Lemma sub_refl : forall A (m : list (nat * A)), sub m m.
Proof. intros A m k v H. exact H. Qed.
Lemma sub_trans : forall A (a b c : list (nat * A)), sub a b -> sub b c -> sub a c.
Proof. intros A a b c H1 H2 k v H. apply H2, H1, H. Qed.
Lemma sub_cons_fresh : forall A (m : list (nat * A)) k v, alook k m = None -> sub m ((k, v) :: m).
Proof.
  intros A m k v H k' v' H'. simpl. destruct (Nat.eqb k' k) eqn:E; [|exact H'].
  apply Nat.eqb_eq in E. subst. congruence.
Qed.

Record Inv (st : lst) : Prop := mkInv {
  i_lv : forall v r, alook v (l_lv st) = Some r -> nth_error (l_act st) r = Some true;
  i_rf : forall r m, alook r (l_rf st) = Some (Rg BM m) ->
           In (Rg BM m) (l_ret st) /\ nth_error (l_mused st) m = Some true;
  i_rfM : forall r g, alook r (l_rf st) = Some g -> (exists m, g = Rg BM m) \/ g = STALE;
  i_rfinj : forall r r' m, alook r (l_rf st) = Some (Rg BM m) -> alook r' (l_rf st) = Some (Rg BM m) -> r = r';
  i_qn : NoDup (map fst (l_q st));
  i_qi : NoDup (map snd (l_q st));
  i_len : forall a n, alook a (l_len st) = Some n -> a < l_next st;
  i_ret : forall g, In g (l_ret st) -> exists r m, g = Rg BM m /\ alook r (l_rf st) = Some g;
  i_alen : List.length (l_act st) = NREGS;
  i_mlen : List.length (l_mused st) = NREGS
}.

Record Ext (st st' : lst) : Prop := mkExt {
  x_lv : l_lv st' = l_lv st;
  x_act : l_act st' = l_act st;
  x_rf : sub (l_rf st) (l_rf st');
  x_len : sub (l_len st) (l_len st');
  x_ret : incl (l_ret st) (l_ret st');
  x_mused : forall m, nth_error (l_mused st) m = Some true -> nth_error (l_mused st') m = Some true;
  x_next : l_next st <= l_next st'
}.

Lemma Ext_refl : forall st, Ext st st.
Proof. intro st. constructor; auto using sub_refl, incl_refl. Qed.
Lemma Ext_trans : forall a b c, Ext a b -> Ext b c -> Ext a c.
Proof.
  intros a b c [A1 A2 A3 A4 A5 A6 A7] [B1 B2 B3 B4 B5 B6 B7]. constructor; try congruence.
  - eapply sub_trans; eauto.
  - eapply sub_trans; eauto.
  - eapply incl_tran; eauto.
  - auto.
  - lia.
Qed.

(* statements that leave everything but peak alone *)
Lemma Inv_same : forall st st',
  l_act st' = l_act st -> l_mused st' = l_mused st -> l_q st' = l_q st -> l_next st' = l_next st ->
  l_ret st' = l_ret st -> l_rf st' = l_rf st -> l_lv st' = l_lv st -> l_len st' = l_len st ->
  Inv st -> Inv st'.
Proof.
  intros st st' E1 E2 E3 E4 E5 E6 E7 E8 [A B C C' D E F G LA LM].
  constructor; rewrite ?E1, ?E2, ?E3, ?E4, ?E5, ?E6, ?E7, ?E8; assumption.
Qed.
Lemma Ext_same : forall st st',
  l_act st' = l_act st -> l_mused st' = l_mused st -> l_next st' = l_next st ->
  l_ret st' = l_ret st -> l_rf st' = l_rf st -> l_lv st' = l_lv st -> l_len st' = l_len st ->
  Ext st st'.
Proof.
  intros st st' E1 E2 E4 E5 E6 E7 E8.
  constructor; rewrite ?E1, ?E2, ?E4, ?E5, ?E6, ?E7, ?E8; auto using sub_refl, incl_refl.
Qed.

(* ---- take / release and the invariants *)
Lemma take_other_fields_at : forall o st t s1, take_at o st = Ok (t, s1) ->
  l_mused s1 = l_mused st /\ l_q s1 = l_q st /\ l_next s1 = l_next st /\ l_ret s1 = l_ret st /\
  l_rf s1 = l_rf st /\ l_lv s1 = l_lv st /\ l_len s1 = l_len st /\ l_decl s1 = l_decl st.
Proof. intros o st t s1 H. apply take_at_facts in H. intuition. Qed.
Lemma take_other_fields : forall st t s1, take st = Ok (t, s1) ->
  l_mused s1 = l_mused st /\ l_q s1 = l_q st /\ l_next s1 = l_next st /\ l_ret s1 = l_ret st /\
  l_rf s1 = l_rf st /\ l_lv s1 = l_lv st /\ l_len s1 = l_len st /\ l_decl s1 = l_decl st.
Proof. exact (take_other_fields_at None). Qed.

Lemma act_true_after_set : forall l r r', nth_error l r' = Some true -> nth_error (set_nth l r true) r' = Some true.
Proof.
  intros l r r' H. destruct (Nat.eq_dec r r') as [->|Hn].
  - apply nth_set_nth_same. apply nth_error_Some. congruence.
  - rewrite nth_set_nth_other by exact Hn. exact H.
Qed.

Lemma Inv_take_at : forall o st t s1, take_at o st = Ok (t, s1) -> Inv st -> Inv s1.
Proof.
  intros o st t s1 H [A B C C' D E F G LA LM]. destruct (take_other_fields_at _ _ _ _ H) as (E2 & E3 & E4 & E5 & E6 & E7 & E8 & _).
  apply take_at_facts in H. destruct H as (Hf & Ha & _).
  constructor; rewrite ?E2, ?E3, ?E4, ?E5, ?E6, ?E7, ?E8; try assumption.
  - intros v r Hv. rewrite Ha. apply act_true_after_set. eauto.
  - rewrite Ha, set_nth_length. exact LA.
Qed.
Lemma Inv_take : forall st t s1, take st = Ok (t, s1) -> Inv st -> Inv s1.
Proof. exact (Inv_take_at None). Qed.

Lemma Inv_release_all_same_act : forall st st', Inv st ->
  l_act st' = l_act st -> l_mused st' = l_mused st -> l_q st' = l_q st -> l_next st' = l_next st ->
  l_ret st' = l_ret st -> l_rf st' = l_rf st -> l_lv st' = l_lv st -> l_len st' = l_len st -> Inv st'.
Proof. intros. eapply Inv_same; eauto. Qed.

(* fields other than l_act / l_peak are untouched by release *)
Lemma release_fields : forall t st,
  l_mused (release t st) = l_mused st /\ l_q (release t st) = l_q st /\ l_next (release t st) = l_next st /\
  l_ret (release t st) = l_ret st /\ l_rf (release t st) = l_rf st /\ l_lv (release t st) = l_lv st /\
  l_len (release t st) = l_len st /\ l_decl (release t st) = l_decl st.
Proof. intros. unfold release. cbn. repeat split. Qed.

Lemma release_all_fields : forall ts st,
  l_mused (release_all ts st) = l_mused st /\ l_q (release_all ts st) = l_q st /\
  l_next (release_all ts st) = l_next st /\ l_ret (release_all ts st) = l_ret st /\
  l_rf (release_all ts st) = l_rf st /\ l_lv (release_all ts st) = l_lv st /\
  l_len (release_all ts st) = l_len st /\ l_decl (release_all ts st) = l_decl st.
Proof.
  induction ts as [|t ts IH]; intro st; cbn [release_all]; [repeat split|].
  destruct (IH (release t st)) as (A & B & C & D & E & F & G & H).
  destruct (release_fields t st) as (A' & B' & C' & D' & E' & F' & G' & H').
  repeat split; congruence.
Qed.

Lemma held_fields : forall st st1 ts, held st st1 ts ->
  l_mused st1 = l_mused st /\ l_q st1 = l_q st /\ l_next st1 = l_next st /\ l_ret st1 = l_ret st /\
  l_rf st1 = l_rf st /\ l_lv st1 = l_lv st /\ l_len st1 = l_len st /\ l_decl st1 = l_decl st.
Proof.
  intros st st1 ts [[_ ->]|(t & _ & Ht)]; [repeat split|]. eapply take_other_fields; eauto.
Qed.

(* ---- "only the register pool changed" *)
Definition sba (st st' : lst) : Prop :=
  l_mused st' = l_mused st /\ l_q st' = l_q st /\ l_next st' = l_next st /\ l_ret st' = l_ret st /\
  l_rf st' = l_rf st /\ l_lv st' = l_lv st /\ l_len st' = l_len st /\ l_decl st' = l_decl st.

Lemma sba_refl : forall st, sba st st.
Proof. intro. unfold sba. repeat split. Qed.
Lemma sba_trans : forall a b c, sba a b -> sba b c -> sba a c.
Proof. unfold sba. intros a b c H1 H2. intuition congruence. Qed.
Lemma sba_take_at : forall o st t s1, take_at o st = Ok (t, s1) -> sba st s1.
Proof. intros. eapply take_other_fields_at; eauto. Qed.
Lemma sba_take : forall st t s1, take st = Ok (t, s1) -> sba st s1.
Proof. exact (sba_take_at None). Qed.
Lemma sba_release : forall t st, sba st (release t st).
Proof. intros. apply release_fields. Qed.
Lemma sba_release_all : forall ts st, sba st (release_all ts st).
Proof. intros. apply release_all_fields. Qed.
Lemma sba_held : forall st st1 ts, held st st1 ts -> sba st st1.
Proof. intros. eapply held_fields; eauto. Qed.
Lemma sba_with_lvs : forall st x, l_lv st = x -> sba st (with_lvs st x).
Proof. intros st x <-. unfold sba. cbn. repeat split. Qed.

Lemma Inv_sba : forall st st', sba st st' -> l_act st' = l_act st -> Inv st -> Inv st'.
Proof. intros st st' (A & B & C & D & E & F & G & H) Ea I. eapply Inv_same; eauto. Qed.
Lemma Ext_sba : forall st st', sba st st' -> l_act st' = l_act st -> Ext st st'.
Proof. intros st st' (A & B & C & D & E & F & G & H) Ea. eapply Ext_same; eauto. Qed.

(* ---- pieces *)
Lemma first_false_nth0 : forall l m, first_false l 0 = Some m -> nth_error l m = Some false.
Proof. intros l m H. apply first_false_spec in H. destruct H as [_ H]. replace (m - 0) with m in H by lia. exact H. Qed.

Lemma orb_list_false : forall a b m, nth_error (orb_list a b) m = Some false -> nth_error a m = Some false.
Proof.
  induction a as [|x a IH]; intros [|y b] [|m] H; cbn in *; try discriminate.
  - destruct x, y; cbn in H; try discriminate. reflexivity.
  - eauto.
Qed.

Lemma low_meas_facts : forall q ip keep st m c st1,
  low_meas q ip keep st = Ok (m, c, st1) ->
  exists id, alook q (l_q st) = Some id /\
    nth_error (l_mused st) m = Some false /\
    l_q st1 = (if ip then l_q st else adel q (l_q st)) /\
    l_act st1 = l_act st /\ l_next st1 = l_next st /\ l_rf st1 = l_rf st /\ l_lv st1 = l_lv st /\
    l_len st1 = l_len st /\ l_decl st1 = l_decl st /\
    l_mused st1 = (if keep then set_nth (l_mused st) m true else l_mused st) /\
    l_ret st1 = (if keep then l_ret st ++ [Rg BM m] else l_ret st) /\
    c = [set_q Q0 id; XI (IMeas Q0 (M m))] ++ (if ip then [] else [XI (IQ QFree Q0)]).
Proof.
  intros q ip keep st m c st1 H. unfold low_meas, qubit_id in H.
  destruct (alook q (l_q st)) as [id|] eqn:Eq; cbn [bind] in H; [|discriminate].
  unfold take_m in H. destruct keep.
  - destruct (first_false (orb_list (l_mused st) (l_mscr st)) 0) as [k|] eqn:Ef; cbn [bind] in H; [|discriminate].
    inversion H; subst. exists id. apply first_false_nth0, orb_list_false in Ef.
    destruct ip; cbn; repeat split; auto.
  - destruct (first_false (l_mused st) 0) as [k|] eqn:Ef; cbn [bind] in H; [|discriminate].
    inversion H; subst. exists id. apply first_false_nth0 in Ef.
    destruct ip; cbn; repeat split; auto.
Qed.

Lemma declare_facts : forall a n init st st1, declare a n init st = Ok st1 ->
  a = l_next st /\ l_next st1 = S a /\ l_len st1 = (a, n) :: l_len st /\ l_decl st1 = l_decl st ++ [(a, n, init)] /\
  l_act st1 = l_act st /\ l_mused st1 = l_mused st /\ l_q st1 = l_q st /\ l_ret st1 = l_ret st /\
  l_rf st1 = l_rf st /\ l_lv st1 = l_lv st.
Proof.
  intros a n init st st1 H. unfold declare in H. destruct (Nat.eqb a (l_next st)) eqn:E; [|discriminate].
  apply Nat.eqb_eq in E. inversion H; subst. cbn. repeat split; reflexivity.
Qed.

Lemma Inv_declare : forall a n init st st1, declare a n init st = Ok st1 -> Inv st -> Inv st1 /\ Ext st st1.
Proof.
  intros a n init st st1 H [A B C C' D E F G LA LM].
  destruct (declare_facts _ _ _ _ _ H) as (Ea & En & El & _ & E1 & E2 & E3 & E4 & E5 & E6).
  split.
  - constructor; rewrite ?E1, ?E2, ?E3, ?E4, ?E5, ?E6; try assumption.
    intros a' n' Hl. rewrite El in Hl. rewrite En. cbn in Hl.
    destruct (Nat.eqb a' a) eqn:Ex; [apply Nat.eqb_eq in Ex; lia|]. apply F in Hl. lia.
  - constructor; rewrite ?E1, ?E2, ?E3, ?E4, ?E5, ?E6; auto using sub_refl, incl_refl; [|lia].
    rewrite El. apply sub_cons_fresh. destruct (alook a (l_len st)) eqn:X; [|reflexivity].
    apply F in X. lia.
Qed.

Lemma nodup_app_one : forall (l : list nat) x, NoDup l -> ~ In x l -> NoDup (l ++ [x]).
Proof.
  induction l as [|y l IH]; intros x ND H; simpl; [constructor; [tauto|constructor]|].
  inversion ND; subst. constructor.
  - intro Hin. apply in_app_or in Hin. destruct Hin as [Hin|[->|[]]]; [tauto|]. apply H. left; reflexivity.
  - apply IH; [assumption|]. intro. apply H. right; assumption.
Qed.

Lemma Inv_deactivate : forall q st, Inv st -> Inv (deactivate q st).
Proof.
  intros q st [A B C C' D E F G LA LM]. unfold deactivate. constructor; cbn; try assumption.
  - apply adel_nodup_fst. assumption.
  - apply adel_nodup_snd. assumption.
Qed.
Lemma Ext_deactivate : forall q st, Ext st (deactivate q st).
Proof. intros. unfold deactivate. constructor; cbn; auto using sub_refl, incl_refl. Qed.

Lemma low_meas_false_inv : forall q ip st m c st1,
  low_meas q ip false st = Ok (m, c, st1) -> Inv st -> Inv st1 /\ Ext st st1.
Proof.
  intros q ip st m c st1 Em [A B C C' D E F G LA LM].
  destruct (low_meas_facts _ _ _ _ _ _ _ Em) as (id & Eq & Hm & Q1 & A1 & N1 & R1 & L1 & Le1 & D1 & M1 & Rt1 & _).
  split.
  - constructor; rewrite ?A1, ?N1, ?R1, ?L1, ?Le1, ?M1, ?Rt1, ?Q1; try assumption.
    + destruct ip; [assumption|apply adel_nodup_fst; assumption].
    + destruct ip; [assumption|apply adel_nodup_snd; assumption].
  - constructor; rewrite ?A1, ?N1, ?R1, ?L1, ?Le1, ?M1, ?Rt1; auto using sub_refl, incl_refl.
Qed.

(* ---- the main compile-time lemma *)
Definition facts_stmt (s : stmt) : Prop :=
  plain s = true -> noepr s = true -> forall st c st',
  lower_stmt true s st = Ok (c, st') -> Inv st -> Inv st' /\ Ext st st'.
Definition facts_block (b : block) : Prop :=
  bplain b = true -> bnoepr b = true -> forall st c st',
  lower_block true b st = Ok (c, st') -> Inv st -> Inv st' /\ Ext st st'.

Ltac inv_ok H := inversion H; subst; clear H.

Lemma Inv_bind_loop_at : forall o st r s1 v, take_at o st = Ok (r, s1) -> Inv st -> Inv (bind_lvr v r s1).
Proof.
  intros o st r s1 v Ht I. assert (I1 := Inv_take_at _ _ _ _ Ht I). destruct I1 as [A B C C' D E F G LA LM].
  unfold bind_lvr. constructor; cbn; try assumption.
  intros v' r' H. destruct (Nat.eqb v' v) eqn:Ev.
  - inversion H; subst. apply take_at_facts in Ht. destruct Ht as (Hf & Ha & _). rewrite Ha.
    apply nth_set_nth_same. apply nth_error_Some. congruence.
  - apply (A _ _ H).
Qed.
Lemma Inv_bind_loop : forall st r s1 v, take st = Ok (r, s1) -> Inv st -> Inv (bind_lvr v r s1).
Proof. exact (Inv_bind_loop_at None). Qed.

(* closing a loop: register released, loop variables of the statement's entry restored *)
Lemma close_loop_at : forall o st r s1 v s2,
  take_at o st = Ok (r, s1) -> Inv st -> Inv s2 -> Ext (bind_lvr v r s1) s2 ->
  Inv (release r (with_lvs s2 (l_lv st))) /\ Ext st (release r (with_lvs s2 (l_lv st))).
Proof.
  intros o st r s1 v s2 Ht I I2 X.
  destruct (take_other_fields_at _ _ _ _ Ht) as (E2 & E3 & E4 & E5 & E6 & E7 & E8 & _).
  assert (Ha : l_act (release r (with_lvs s2 (l_lv st))) = l_act st).
  { cbn. rewrite (x_act _ _ X). cbn. apply take_at_facts in Ht. destruct Ht as (Hf & Ha & _).
    rewrite Ha. apply set_nth_undo. exact Hf. }
  destruct I as [A B C C' D E F G LA LM]. destruct I2 as [A2 B2 C2 C2' D2 E2' F2 G2 LA2 LM2]. destruct X as [X1 X2 X3 X4 X5 X6 X7].
  cbn in X1, X2, X3, X4, X5, X6, X7. split.
  - constructor; cbn [release with_lvs with_act l_lv l_rf l_ret l_mused l_q l_len l_next]; try assumption.
    + intros v' r' H. fold (release r (with_lvs s2 (l_lv st))). rewrite Ha. apply (A _ _ H).
    + fold (release r (with_lvs s2 (l_lv st))). rewrite Ha. exact LA.
  - apply mkExt.
    + reflexivity.
    + exact Ha.
    + cbn. rewrite <- E6. exact X3.
    + cbn. rewrite <- E8. exact X4.
    + cbn. rewrite <- E5. exact X5.
    + cbn. rewrite <- E2. exact X6.
    + cbn. lia.
Qed.
Lemma close_loop : forall st r s1 v s2,
  take st = Ok (r, s1) -> Inv st -> Inv s2 -> Ext (bind_lvr v r s1) s2 ->
  Inv (release r (with_lvs s2 (l_lv st))) /\ Ext st (release r (with_lvs s2 (l_lv st))).
Proof. exact (close_loop_at None). Qed.

Lemma low_cval_sba : forall x st l p ts st1, low_cval x st = Ok (l, p, ts, st1) -> sba st st1.
Proof. intros. eapply sba_held. eapply low_cval_held; eauto. Qed.
Lemma low_src_sba : forall x st l p ts st1, low_src x st = Ok (l, p, ts, st1) -> sba st st1.
Proof. intros. eapply sba_held. eapply low_src_held; eauto. Qed.

Theorem lower_facts : (forall s, facts_stmt s) /\ (forall b, facts_block b).
Proof.
  apply stmt_block_ind; unfold facts_stmt, facts_block.
  - (* SNewQubit *) intros q _ _ st c st' H I. cbn [lower_stmt] in H.
    destruct (alook q (l_q st)) eqn:Eq; [discriminate|]. inv_ok H. split.
    + destruct I as [A B C C' D E F G LA LM]. constructor; cbn; try assumption.
      * rewrite map_app. cbn. apply nodup_app_one; [assumption|]. apply alook_none_notin. exact Eq.
      * rewrite map_app. cbn. apply nodup_app_one; [assumption|]. apply new_qubit_id_fresh.
    + constructor; cbn; auto using sub_refl, incl_refl.
  - intros g q _ _ st c st' H I. cbn [lower_stmt] in H.
    destruct (qubit_id q st); cbn [bind] in H; [|discriminate]. inv_ok H. split; [assumption|apply Ext_refl].
  - intros ax q n d _ _ st c st' H I. cbn [lower_stmt] in H.
    destruct (qubit_id q st); cbn [bind] in H; [|discriminate]. inv_ok H. split; [assumption|apply Ext_refl].
  - intros t q1 q2 _ _ st c st' H I. cbn [lower_stmt] in H.
    destruct (qubit_id q1 st); cbn [bind] in H; [|discriminate].
    destruct (qubit_id q2 st); cbn [bind] in H; [|discriminate]. inv_ok H. split; [assumption|apply Ext_refl].
  - (* SMeasFut *) intros q ip a ix _ _ st c st' H I. cbn [lower_stmt] in H.
    destruct (low_ix ix st); cbn [bind] in H; [|discriminate].
    destruct (low_meas q ip false st) as [[[m c0] s1]|e] eqn:Em; cbn [bind] in H; [|discriminate]. inv_ok H.
    eapply low_meas_false_inv; eauto.
  - (* SMeasNew *) intros q ip a _ _ st c st' H I. cbn [lower_stmt] in H.
    destruct (declare a 1 None st) as [st0|] eqn:Ed; cbn [bind] in H; [|discriminate].
    destruct (Inv_declare _ _ _ _ _ Ed I) as [I0 X0].
    destruct (low_meas q ip false st0) as [[[m c0] s1]|e] eqn:Em; cbn [bind] in H; [|discriminate]. inv_ok H.
    destruct (low_meas_false_inv _ _ _ _ _ _ Em I0) as [I1 X1].
    split; [assumption|eapply Ext_trans; eauto].
  - (* SMeasReg *) intros q ip r _ _ st c st' H I. cbn [lower_stmt] in H.
    destruct (alook r (l_rf st)) eqn:Er; [discriminate|].
    destruct (low_meas q ip true st) as [[[m c0] s1]|e] eqn:Em; cbn [bind] in H; [|discriminate]. inv_ok H.
    destruct (low_meas_facts _ _ _ _ _ _ _ Em) as (id & Eq & Hm & Q1 & A1 & N1 & R1 & L1 & Le1 & D1 & M1 & Rt1 & _).
    destruct I as [A B C C' D E F G LA LM]. split.
    + constructor; cbn [bind_rf l_lv l_act l_rf l_ret l_mused l_q l_len l_next];
        rewrite ?A1, ?N1, ?R1, ?L1, ?Le1, ?M1, ?Rt1, ?Q1; try assumption.
      * intros r' m' H'. cbn in H'. destruct (Nat.eqb r' r) eqn:Ex.
        -- inversion H'; subst. split; [apply in_or_app; right; left; reflexivity|].
           apply nth_set_nth_same. apply nth_error_Some. congruence.
        -- destruct (B _ _ H') as [B1 B2]. split; [apply in_or_app; left; exact B1|].
           apply act_true_after_set. exact B2.
      * intros r' g H'. cbn in H'. destruct (Nat.eqb r' r); [inversion H'; subst; left; eexists; reflexivity|eauto].
      * intros r1 r2 m' H1 H2. cbn in H1, H2.
        destruct (Nat.eqb r1 r) eqn:X1; destruct (Nat.eqb r2 r) eqn:X2.
        -- apply Nat.eqb_eq in X1. apply Nat.eqb_eq in X2. congruence.
        -- inversion H1; subst. destruct (B _ _ H2) as [_ B2]. rewrite B2 in Hm. discriminate.
        -- inversion H2; subst. destruct (B _ _ H1) as [_ B2]. rewrite B2 in Hm. discriminate.
        -- eauto.
      * destruct ip; [assumption|apply adel_nodup_fst; assumption].
      * destruct ip; [assumption|apply adel_nodup_snd; assumption].
      * intros g Hg. apply in_app_or in Hg. destruct Hg as [Hg|[<-|[]]].
        -- destruct (G _ Hg) as (r' & m' & Em' & Hr'). exists r', m'. split; [exact Em'|]. cbn.
           destruct (Nat.eqb r' r) eqn:Ex; [apply Nat.eqb_eq in Ex; subst; congruence|exact Hr'].
        -- exists r, m. split; [reflexivity|]. cbn. rewrite Nat.eqb_refl. reflexivity.
      * rewrite set_nth_length. exact LM.
    + constructor; cbn [bind_rf l_lv l_act l_rf l_ret l_mused l_q l_len l_next];
        rewrite ?A1, ?N1, ?R1, ?L1, ?Le1, ?M1, ?Rt1; auto using sub_refl.
      * apply sub_cons_fresh. exact Er.
      * apply incl_appl, incl_refl.
      * intros m' H'. apply act_true_after_set. exact H'.
  - (* SFree *) intros q _ _ st c st' H I. cbn [lower_stmt] in H.
    destruct (qubit_id q st); cbn [bind] in H; [|discriminate]. inv_ok H.
    split; [apply Inv_deactivate; assumption|apply Ext_deactivate].
  - (* SNewArray *) intros a len init _ _ st c st' H I. cbn [lower_stmt] in H.
    destruct (Nat.eqb _ 0); [discriminate|].
    destruct (declare a _ init st) as [s1|] eqn:Ed; cbn [bind] in H; [|discriminate]. inv_ok H.
    eapply Inv_declare; eauto.
  - (* SFutAdd *) intros a ix o m Hp _ st c st' H I.
    assert (Ha := active_restored _ _ _ _ _ Hp H). cbn [lower_stmt] in H.
    destruct (low_ix ix st); cbn [bind] in H; [|discriminate].
    destruct (take st) as [[t s1]|] eqn:Ht; cbn [bind] in H; [|discriminate].
    destruct (low_src o s1) as [[[[lo y] ts] s2]|] eqn:Hs; cbn [bind] in H; [|discriminate].
    match type of H with Ok (_, ?X) = _ => assert (Es : st' = X) by (inversion H; reflexivity) end.
    assert (S : sba st st').
    { rewrite Es. eapply sba_trans; [eapply sba_take; eauto|].
      eapply sba_trans; [eapply low_src_sba; eauto|].
      eapply sba_trans; [apply sba_release|apply sba_release_all]. }
    split; [eapply Inv_sba; eauto|eapply Ext_sba; eauto].
  - (* SRegAdd *) intros r o m Hp _ st c st' H I.
    assert (Ha := active_restored _ _ _ _ _ Hp H). cbn [lower_stmt] in H.
    destruct (rf_lookup r st) as [[[] k]|]; try discriminate.
    destruct (low_src o st) as [[[[lo y] ts] s1]|] eqn:Hs; cbn [bind] in H; [|discriminate].
    match type of H with Ok (_, ?X) = _ => assert (Es : st' = X) by (inversion H; reflexivity) end.
    assert (S : sba st st').
    { rewrite Es. eapply sba_trans; [eapply low_src_sba; eauto|apply sba_release_all]. }
    split; [eapply Inv_sba; eauto|eapply Ext_sba; eauto].
  - intros r init Hp. discriminate.
  - intros r o m Hp. discriminate.
  - (* SIf *) intros c cb x y body IH Hp He st code st' H I. cbn [plain noepr] in Hp, He.
    cbn [lower_stmt] in H.
    destruct (lower_block true body st) as [[cbody s1]|] eqn:Hb; cbn [bind] in H; [|discriminate].
    destruct (IH Hp He _ _ _ Hb I) as [I1 X1].
    destruct (is_nil cbody); [inv_ok H; split; assumption|].
    destruct (low_cval x s1) as [[[[lx px] tx] s2]|] eqn:Hx; cbn [bind] in H; [|discriminate].
    assert (Hhx := low_cval_held _ _ _ _ _ _ Hx).
    assert (G1 := held_release _ _ _ Hhx).
    assert (Fin : forall sF, sba s1 sF -> l_act sF = l_act s1 -> Inv sF /\ Ext st sF).
    { intros sF S A. split; [eapply Inv_sba; eauto|eapply Ext_trans; [exact X1|eapply Ext_sba; eauto]]. }
    destruct c;
      try (inv_ok H; apply Fin; [eapply sba_trans; [eapply sba_held; eauto|apply sba_release_all]|exact (proj1 G1)]);
      (destruct (low_cval y s2) as [[[[ly py] ty] s3]|] eqn:Hy; cbn [bind] in H; [|discriminate]; inv_ok H;
       assert (Hhy := low_cval_held _ _ _ _ _ _ Hy);
       apply Fin;
       [eapply sba_trans; [eapply sba_held; eauto|eapply sba_trans; [eapply sba_held; eauto|apply sba_release_all]]
       |exact (proj1 (held2_release _ _ _ _ _ Hhx Hhy))]).
  - (* SLoop *) intros cb v oreg start stop step body IH Hp He st code st' H I.
    cbn [plain noepr] in Hp, He. cbn [lower_stmt] in H.
    destruct (alook v (l_lv st)); [discriminate|].
    destruct (take_at oreg st) as [[r s1]|] eqn:Ht; cbn [bind] in H; [|discriminate].
    destruct (lower_block true body (bind_lvr v r s1)) as [[cbody s2]|] eqn:Hb; cbn [bind] in H; [|discriminate].
    destruct (IH Hp He _ _ _ Hb (Inv_bind_loop_at _ _ _ _ v Ht I)) as [I2 X2].
    destruct (close_loop_at _ _ _ _ _ _ Ht I I2 X2) as [I3 X3].
    destruct (is_nil cbody); inv_ok H; split; assumption.
  - (* SForeach *) intros enum v a body IH Hp He st code st' H I.
    cbn [plain noepr] in Hp, He. cbn [lower_stmt] in H.
    destruct (alook a (l_len st)); [|discriminate].
    destruct (alook v (l_lv st)); [discriminate|].
    destruct (take st) as [[r s1]|] eqn:Ht; cbn [bind] in H; [|discriminate].
    destruct (lower_block true body (bind_lvr v r s1)) as [[cbody s2]|] eqn:Hb; cbn [bind] in H; [|discriminate].
    destruct (IH Hp He _ _ _ Hb (Inv_bind_loop _ _ _ v Ht I)) as [I2 X2].
    destruct (close_loop _ _ _ _ _ Ht I I2 X2) as [I3 X3].
    destruct (is_nil cbody); inv_ok H; split; assumption.
  - (* SLoopUntil *) intros v maxit body IHb cx bound cleanup IHc Hp He st code st' H I.
    cbn [plain noepr] in Hp, He. apply andb_prop in Hp. destruct Hp as [Hp1 Hp2].
    apply andb_prop in He. destruct He as [He1 He2]. cbn [lower_stmt] in H.
    destruct (alook v (l_lv st)); [discriminate|].
    destruct (take st) as [[r s1]|] eqn:Ht; cbn [bind] in H; [|discriminate].
    destruct (lower_block true body (bind_lvr v r s1)) as [[cbody s2]|] eqn:Hb; cbn [bind] in H; [|discriminate].
    destruct (IHb Hp1 He1 _ _ _ Hb (Inv_bind_loop _ _ _ v Ht I)) as [I2 X2].
    destruct (is_nil cbody).
    + inv_ok H. eapply close_loop; eauto.
    + destruct (low_cval cx s2) as [[[[lx px] tx] s3]|] eqn:Hx; cbn [bind] in H; [|discriminate].
      assert (Hh := low_cval_held _ _ _ _ _ _ Hx).
      assert (S3 : sba s2 (release_all tx s3)) by (eapply sba_trans; [eapply sba_held; eauto|apply sba_release_all]).
      assert (A3 := proj1 (held_release _ _ _ Hh)).
      destruct (lower_block true cleanup (release_all tx s3)) as [[ccl s4]|] eqn:Hc; cbn [bind] in H; [|discriminate].
      destruct (IHc Hp2 He2 _ _ _ Hc (Inv_sba _ _ S3 A3 I2)) as [I4 X4].
      inv_ok H. eapply close_loop; eauto.
      eapply Ext_trans; [exact X2|]. eapply Ext_trans; [eapply Ext_sba; eauto|exact X4].
  - (* SEpr *) intros k body IH Hp He. discriminate.
  - (* SFlush *) intros _ _ st c st' H. discriminate.
  - (* SFutAddX *) intros a b n o m Hp _ st c st' H I.
    assert (Ha := active_restored _ _ _ _ _ Hp H). cbn [lower_stmt] in H.
    destruct (take st) as [[t s1]|] eqn:Ht; cbn [bind] in H; [|discriminate].
    destruct (take s1) as [[ti s1i]|] eqn:Hti; cbn [bind] in H; [|discriminate].
    destruct (low_src o (release ti s1i)) as [[[[lo y] ts] s2]|] eqn:Hs; cbn [bind] in H; [|discriminate].
    match type of H with Ok (_, ?X) = _ => assert (Es : st' = X) by (inversion H; reflexivity) end.
    assert (S : sba st st').
    { rewrite Es. eapply sba_trans; [eapply sba_take; eauto|].
      eapply sba_trans; [eapply sba_take; eauto|].
      eapply sba_trans; [apply sba_release|].
      eapply sba_trans; [eapply low_src_sba; eauto|].
      eapply sba_trans; [apply sba_release|apply sba_release_all]. }
    split; [eapply Inv_sba; eauto|eapply Ext_sba; eauto].
  - (* SMeasFutX *) intros q ip a b n Hp _ st c st' H I. cbn [lower_stmt] in H.
    destruct (low_meas q ip false st) as [[[m c0] s1]|e] eqn:Em; cbn [bind] in H; [|discriminate].
    destruct (take s1) as [[ti s1i]|] eqn:Hti; cbn [bind] in H; [|discriminate]. inv_ok H.
    destruct (low_meas_false_inv _ _ _ _ _ _ Em I) as [I1 X1].
    assert (S : sba s1 (release ti s1i)) by (eapply sba_trans; [eapply sba_take; eauto|apply sba_release]).
    assert (Ea : l_act (release ti s1i) = l_act s1).
    { destruct (take_facts _ _ _ Hti) as (Hf & Ha & _). unfold release. cbn [l_act with_act]. rewrite Ha.
      apply set_nth_undo. exact Hf. }
    split; [eapply Inv_sba; eauto|eapply Ext_trans; [exact X1|eapply Ext_sba; eauto]].
  - intros _ _ st c st' H I. inv_ok H. split; [assumption|apply Ext_refl].
  - intros s IHs b IHb Hp He st c st' H I. cbn [bplain bnoepr] in Hp, He.
    apply andb_prop in Hp. destruct Hp as [Hp1 Hp2]. apply andb_prop in He. destruct He as [He1 He2].
    cbn [lower_block] in H.
    destruct (lower_stmt true s st) as [[c1 s1]|] eqn:H1; cbn [bind] in H; [|discriminate].
    destruct (lower_block true b s1) as [[c2 s2]|] eqn:H2; cbn [bind] in H; [|discriminate]. inv_ok H.
    destruct (IHs Hp1 He1 _ _ _ H1 I) as [I1 X1]. destruct (IHb Hp2 He2 _ _ _ H2 I1) as [I2 X2].
    split; [assumption|eapply Ext_trans; eauto].
Qed.
