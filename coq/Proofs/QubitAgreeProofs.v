(* Proofs about Sdk/QubitAgree.v (property C09). *)
From Coq Require Import List Arith Bool Lia Permutation.
From NQ Require Import Sdk.QubitAgree.
Import ListNotations.

(* ------------------------------------------------------------------ lists *)
Lemma mem_In : forall v l, mem v l = true <-> In v l.
Proof.
  intros v l. unfold mem. rewrite existsb_exists. split.
  - intros [x [Hin Heq]]. apply Nat.eqb_eq in Heq. subst. exact Hin.
  - intros Hin. exists v. split; [exact Hin | apply Nat.eqb_refl].
Qed.

Lemma mem_false : forall v l, mem v l = false <-> ~ In v l.
Proof.
  intros v l. rewrite <- mem_In. destruct (mem v l); split; intros H; try discriminate; auto.
  exfalso. apply H. reflexivity.
Qed.

Lemma remove_id_In : forall x v l, In x (remove_id v l) <-> In x l /\ x <> v.
Proof.
  intros x v l. unfold remove_id. rewrite filter_In. rewrite negb_true_iff, Nat.eqb_neq. tauto.
Qed.

Lemma remove_id_NoDup : forall v l, NoDup l -> NoDup (remove_id v l).
Proof. intros v l H. unfold remove_id. apply NoDup_filter. exact H. Qed.

Lemma remove_id_notin : forall v l, ~ In v l -> remove_id v l = l.
Proof.
  intros v l. induction l as [|x r IH]; intros Hn; [reflexivity|].
  simpl. destruct (x =? v) eqn:E.
  - apply Nat.eqb_eq in E. subst. exfalso. apply Hn. left. reflexivity.
  - simpl. f_equal. apply IH. intros Hr. apply Hn. right. exact Hr.
Qed.

Arguments remove_id : simpl never.

(* ------------------------------------------------------------------ lowest unused ID *)
Lemma find_from_some : forall l f k r, find_from l k f = Some r ->
  k <= r /\ ~ In r l /\ (forall j, k <= j < r -> In j l).
Proof.
  intros l f. induction f as [|f IH]; intros k r H; simpl in H; [discriminate|].
  destruct (mem k l) eqn:E.
  - apply IH in H. destruct H as [H1 [H2 H3]]. split; [lia|]. split; [exact H2|].
    intros j Hj. destruct (Nat.eq_dec j k) as [->|Hne].
    + apply mem_In. exact E.
    + apply H3. lia.
  - inversion H; subst. split; [lia|]. split; [apply mem_false; exact E|]. intros j Hj. lia.
Qed.

Lemma find_from_none : forall l f k, find_from l k f = None -> forall j, k <= j < k + f -> In j l.
Proof.
  intros l f. induction f as [|f IH]; intros k H j Hj; simpl in H; [lia|].
  destruct (mem k l) eqn:E; [|discriminate].
  destruct (Nat.eq_dec j k) as [->|Hne].
  - apply mem_In. exact E.
  - apply (IH (S k) H). lia.
Qed.

Lemma below_all_in_le : forall l r, (forall j, j < r -> In j l) -> r <= length l.
Proof.
  intros l r H.
  assert (Hincl : incl (seq 0 r) l).
  { intros j Hj. apply in_seq in Hj. apply H. lia. }
  pose proof (NoDup_incl_length (seq_NoDup r 0) Hincl) as Hlen.
  rewrite seq_length in Hlen. exact Hlen.
Qed.

(* the bounded search never runs out of candidates (pigeonhole) *)
Theorem new_id_spec : forall l, exists r,
  new_id l = Some r /\ ~ In r l /\ (forall j, j < r -> In j l) /\ r <= length l.
Proof.
  intros l. unfold new_id. destruct (find_from l 0 (S (length l))) as [r|] eqn:E.
  - exists r. apply find_from_some in E. destruct E as [_ [H2 H3]].
    split; [reflexivity|]. split; [exact H2|].
    assert (Hb : forall j, j < r -> In j l) by (intros j Hj; apply H3; lia).
    split; [exact Hb|]. apply below_all_in_le. exact Hb.
  - exfalso. pose proof (find_from_none _ _ _ E) as H.
    assert (Hle : S (length l) <= length l).
    { apply below_all_in_le. intros j Hj. apply H. lia. }
    lia.
Qed.

(* ------------------------------------------------------------------ execution of events *)
Definition ok (c : ctrl) (evs : list event) (c' : ctrl) : Prop := exec_events c evs = (c', evs, None).

Lemma ok_nil : forall c, ok c [] c.
Proof. intros c. reflexivity. Qed.

Lemma ok_cons : forall c e c1 r c2, exec_event c e = inl c1 -> ok c1 r c2 -> ok c (e :: r) c2.
Proof. intros c e c1 r c2 H1 H2. unfold ok in *. simpl. rewrite H1, H2. reflexivity. Qed.

Lemma ok_app : forall a c c1 b c2, ok c a c1 -> ok c1 b c2 -> ok c (a ++ b) c2.
Proof.
  induction a as [|e a IH]; intros c c1 b c2 H1 H2.
  - unfold ok in H1. simpl in H1. inversion H1; subst. exact H2.
  - unfold ok in H1. simpl in H1. destruct (exec_event c e) as [c'|f] eqn:E; [|discriminate].
    destruct (exec_events c' a) as [[c'' d] f] eqn:E2. inversion H1; subst.
    simpl. eapply ok_cons; [exact E|]. eapply IH; [|exact H2]. exact E2.
Qed.

Lemma ok_one : forall c e c1, exec_event c e = inl c1 -> ok c [e] c1.
Proof. intros. eapply ok_cons; [eassumption | apply ok_nil]. Qed.

(* ------------------------------------------------------------------ the relation between the two sides *)
Definition sameset (a b : list nat) : Prop := forall v, In v a <-> In v b.

(* G0: the SDK's active IDs are exactly the controller's allocated IDs *)
Record G0 (k : cfg) (a : list (nat * nat)) (c : ctrl) : Prop := mkG0 {
  g0_cap : cap c = max_q k;
  g0_ndi : NoDup (map snd a);
  g0_nda : NoDup (alloc c);
  g0_same : sameset (map snd a) (alloc c);
  g0_lt : forall v, In v (map snd a) -> v < max_q k
}.
(* G1 v: the same, except that the allocation of v is still to come *)
Record G1 (k : cfg) (v : nat) (a : list (nat * nat)) (c : ctrl) : Prop := mkG1 {
  g1_cap : cap c = max_q k;
  g1_ndi : NoDup (map snd a);
  g1_nda : NoDup (alloc c);
  g1_in : In v (map snd a);
  g1_notin : ~ In v (alloc c);
  g1_same : sameset (map snd a) (v :: alloc c);
  g1_lt : forall x, In x (map snd a) -> x < max_q k
}.

Lemma NoDup_snoc : forall (l : list nat) v, NoDup l -> ~ In v l -> NoDup (l ++ [v]).
Proof.
  induction l as [|x r IH]; intros v Hnd Hn; simpl.
  - constructor; [intros []|constructor].
  - inversion Hnd; subst. constructor.
    + rewrite in_app_iff. simpl. intros [H|[H|[]]]; [contradiction|]. subst. apply Hn. left. reflexivity.
    + apply IH; [assumption|]. intros H. apply Hn. right. exact H.
Qed.

Lemma leb_false_lt : forall a b, b < a -> (a <=? b) = false.
Proof. intros. apply Nat.leb_gt. assumption. Qed.

Lemma first_bad_none : forall c vs,
  (forall v, In v vs -> In v (alloc c) /\ v < cap c) -> first_bad c vs = None.
Proof.
  intros c vs. induction vs as [|v r IH]; intros H; [reflexivity|].
  simpl. destruct (H v (or_introl eq_refl)) as [Hin Hlt].
  rewrite (leb_false_lt _ _ Hlt). apply mem_In in Hin. rewrite Hin.
  apply IH. intros x Hx. apply H. right. exact Hx.
Qed.

Lemma exec_alloc_ok : forall c v, v < cap c -> ~ In v (alloc c) ->
  exec_event c (EAlloc v) = inl (mkCtrl (v :: alloc c) (cap c)) /\
  exec_event c (EEpr v) = inl (mkCtrl (v :: alloc c) (cap c)).
Proof.
  intros c v Hv Hn. simpl. rewrite (leb_false_lt _ _ Hv). apply mem_false in Hn. rewrite Hn. split; reflexivity.
Qed.

Lemma exec_use_ok : forall c vs, (forall v, In v vs -> In v (alloc c) /\ v < cap c) ->
  exec_event c (EUse vs) = inl c.
Proof. intros c vs H. simpl. rewrite first_bad_none; [reflexivity | exact H]. Qed.

Lemma exec_free_ok : forall c v, v < cap c -> In v (alloc c) ->
  exec_event c (EFree v) = inl (mkCtrl (remove_id v (alloc c)) (cap c)).
Proof.
  intros c v Hv Hin. simpl. rewrite (leb_false_lt _ _ Hv). apply mem_In in Hin. rewrite Hin. reflexivity.
Qed.

Lemma G0_use : forall k a c vs, G0 k a c -> (forall v, In v vs -> In v (map snd a)) ->
  exec_event c (EUse vs) = inl c.
Proof.
  intros k a c vs [Hcap _ _ Hs Hlt] H. simpl. rewrite first_bad_none; [reflexivity|].
  intros v Hv. specialize (H v Hv). split; [apply Hs; exact H|]. rewrite Hcap. apply Hlt. exact H.
Qed.

Lemma G0_alloc : forall k a c h v, G0 k a c -> ~ In v (map snd a) -> v < max_q k ->
  exists c', exec_event c (EAlloc v) = inl c' /\ exec_event c (EEpr v) = inl c' /\ G0 k (a ++ [(h, v)]) c'.
Proof.
  intros k a c h v [Hcap Hndi Hnda Hs Hlt] Hn Hv.
  assert (Hm : mem v (alloc c) = false) by (apply mem_false; intros H; apply Hn; apply Hs; exact H).
  exists (mkCtrl (v :: alloc c) (cap c)). simpl. rewrite Hm. rewrite Hcap, (leb_false_lt _ _ Hv).
  split; [reflexivity|]. split; [reflexivity|].
  constructor; simpl.
  - first [reflexivity | exact Hcap].
  - rewrite map_app. simpl. apply NoDup_snoc; assumption.
  - constructor; [apply mem_false; exact Hm | exact Hnda].
  - intros x. rewrite map_app, in_app_iff. simpl. specialize (Hs x). tauto.
  - intros x. rewrite map_app, in_app_iff. simpl. intros [H|[H|[]]]; [apply Hlt; exact H | subst; exact Hv].
Qed.

Lemma G1_commit : forall k v a c, G1 k v a c ->
  exists c', exec_event c (EAlloc v) = inl c' /\ exec_event c (EEpr v) = inl c' /\
             exec_event c' (EUse [v]) = inl c' /\ G0 k a c'.
Proof.
  intros k v a c [Hcap Hndi Hnda Hin Hn Hs Hlt].
  assert (Hm : mem v (alloc c) = false) by (apply mem_false; exact Hn).
  assert (Hv : v < max_q k) by (apply Hlt; exact Hin).
  exists (mkCtrl (v :: alloc c) (cap c)). simpl. rewrite Hm. rewrite Hcap, (leb_false_lt _ _ Hv).
  rewrite Nat.eqb_refl. simpl.
  split; [reflexivity|]. split; [reflexivity|]. split; [reflexivity|].
  constructor; simpl; try assumption; try reflexivity.
  constructor; assumption.
Qed.

Lemma G0_free0 : forall k a c v, G0 k a c -> In v (map snd a) ->
  exists c', exec_event c (EFree v) = inl c' /\ G1 k v a c'.
Proof.
  intros k a c v [Hcap Hndi Hnda Hs Hlt] Hin.
  assert (Hm : mem v (alloc c) = true) by (apply mem_In; apply Hs; exact Hin).
  assert (Hv : v < max_q k) by (apply Hlt; exact Hin).
  exists (mkCtrl (remove_id v (alloc c)) (cap c)). simpl. rewrite Hm. rewrite Hcap, (leb_false_lt _ _ Hv).
  split; [reflexivity|].
  constructor; simpl; try assumption; try reflexivity.
  - apply remove_id_NoDup. exact Hnda.
  - rewrite remove_id_In. tauto.
  - intros x. simpl. rewrite remove_id_In. specialize (Hs x).
    destruct (Nat.eq_dec v x) as [->|Hne]; [tauto|]. split.
    + intros H. right. split; [apply Hs; exact H | congruence].
    + intros [H|[H _]]; [congruence | apply Hs; exact H].
Qed.

(* deactivation of a handle *)
Lemma id_of_split : forall h a v, id_of h a = Some v ->
  exists a1 a2, a = a1 ++ (h, v) :: a2 /\ deact h a = a1 ++ a2.
Proof.
  intros h a. induction a as [|[h' v'] r IH]; intros v H; simpl in H; [discriminate|].
  simpl. destruct (h' =? h) eqn:E.
  - apply Nat.eqb_eq in E. inversion H; subst. exists [], r. split; reflexivity.
  - destruct (IH v H) as [a1 [a2 [H1 H2]]]. exists ((h', v') :: a1), a2. subst r. rewrite H2. split; reflexivity.
Qed.

Lemma G0_free : forall k a c h v, G0 k a c -> id_of h a = Some v ->
  exists c', exec_event c (EFree v) = inl c' /\ G0 k (deact h a) c'.
Proof.
  intros k a c h v HG Hid.
  destruct (id_of_split _ _ _ Hid) as [a1 [a2 [Ha Hd]]].
  destruct HG as [Hcap Hndi Hnda Hs Hlt].
  assert (Hin : In v (map snd a)).
  { rewrite Ha, map_app, in_app_iff. right. left. reflexivity. }
  assert (Hm : mem v (alloc c) = true) by (apply mem_In; apply Hs; exact Hin).
  assert (Hv : v < max_q k) by (apply Hlt; exact Hin).
  exists (mkCtrl (remove_id v (alloc c)) (cap c)). simpl. rewrite Hm. rewrite Hcap, (leb_false_lt _ _ Hv).
  split; [reflexivity|].
  rewrite Hd. rewrite Ha in *. rewrite map_app in *. simpl in *.
  constructor; simpl.
  - first [reflexivity | exact Hcap].
  - rewrite map_app. eapply NoDup_remove_1. exact Hndi.
  - apply remove_id_NoDup. exact Hnda.
  - intros x. rewrite map_app. rewrite remove_id_In. specialize (Hs x).
    pose proof (NoDup_remove_2 _ _ _ Hndi) as Hn. rewrite in_app_iff in *. simpl in Hs.
    split.
    + intros H. split; [apply Hs; tauto|]. intros ->. apply Hn. exact H.
    + intros [H Hne]. apply Hs in H. destruct H as [H|[H|H]]; [tauto | congruence | tauto].
  - intros x. rewrite map_app, in_app_iff. intros H. apply Hlt. rewrite in_app_iff. simpl. tauto.
Qed.

(* relocation of the qubit at ID old *)
Lemma reid_split : forall old nw a, In old (map snd a) ->
  exists a1 h a2, a = a1 ++ (h, old) :: a2 /\ reid old nw a = a1 ++ (h, nw) :: a2.
Proof.
  intros old nw a. induction a as [|[h v] r IH]; intros H; simpl in H; [contradiction|].
  simpl. destruct (v =? old) eqn:E.
  - apply Nat.eqb_eq in E. subst. exists [], h, r. split; reflexivity.
  - destruct H as [H|H]; [apply Nat.eqb_neq in E; congruence|].
    destruct (IH H) as [a1 [h' [a2 [H1 H2]]]]. exists ((h, v) :: a1), h', a2. subst r. rewrite H2. split; reflexivity.
Qed.

Lemma reid_handles : forall old nw a, map fst (reid old nw a) = map fst a.
Proof.
  intros old nw a. induction a as [|[h v] r IH]; [reflexivity|]. simpl.
  destruct (v =? old); simpl; [reflexivity | f_equal; exact IH].
Qed.

Lemma reid_length : forall old nw a, length (reid old nw a) = length a.
Proof.
  intros old nw a. rewrite <- (map_length fst), reid_handles, map_length. reflexivity.
Qed.

Lemma NoDup_replace : forall (l1 l2 : list nat) x y, NoDup (l1 ++ x :: l2) -> ~ In y (l1 ++ x :: l2) ->
  NoDup (l1 ++ y :: l2).
Proof.
  intros l1 l2 x y Hnd Hn.
  pose proof (NoDup_remove_1 _ _ _ Hnd) as H1.
  assert (Hy : ~ In y (l1 ++ l2)).
  { intros H. apply Hn. rewrite in_app_iff in *. simpl. tauto. }
  clear Hnd Hn. induction l1 as [|z l1 IH]; simpl in *.
  - constructor; assumption.
  - inversion H1; subst. constructor.
    + rewrite in_app_iff in *. simpl. intros [H|[H|H]]; [tauto| |tauto]. subst. apply Hy. left. reflexivity.
    + apply IH; [assumption|]. intros H. apply Hy. right. exact H.
Qed.

Lemma G0_reloc : forall k a c nw, G0 k a c -> In 0 (map snd a) -> ~ In nw (map snd a) -> nw < max_q k ->
  exists c', ok c [EAlloc nw; EUse [nw]; EUse [0; nw]; EFree 0] c' /\ G0 k (reid 0 nw a) c'.
Proof.
  intros k a c nw HG H0 Hn Hv.
  destruct (reid_split 0 nw a H0) as [a1 [h [a2 [Ha Hr]]]].
  destruct HG as [Hcap Hndi Hnda Hs Hlt].
  assert (Hm : mem nw (alloc c) = false) by (apply mem_false; intros H; apply Hn; apply Hs; exact H).
  assert (Hm0 : mem 0 (alloc c) = true) by (apply mem_In; apply Hs; exact H0).
  assert (H0lt : 0 < max_q k) by (apply Hlt; exact H0).
  assert (Hnz : nw <> 0) by (intros ->; contradiction).
  exists (mkCtrl (remove_id 0 (nw :: alloc c)) (cap c)). split.
  - assert (Hnin : ~ In nw (alloc c)) by (apply mem_false; exact Hm).
    assert (Hvc : nw < cap c) by (rewrite Hcap; exact Hv).
    assert (H0c : 0 < cap c) by (rewrite Hcap; exact H0lt).
    assert (H0in : In 0 (alloc c)) by (apply mem_In; exact Hm0).
    destruct (exec_alloc_ok c nw Hvc Hnin) as [Ea _].
    eapply ok_cons; [exact Ea|].
    eapply ok_cons; [apply exec_use_ok; simpl; intros x [<-|[]]; split; [left; reflexivity | exact Hvc]|].
    eapply ok_cons; [apply exec_use_ok; simpl; intros x [<-|[<-|[]]]; split;
                     [right; exact H0in | exact H0c | left; reflexivity | exact Hvc]|].
    eapply ok_one. apply (exec_free_ok (mkCtrl (nw :: alloc c) (cap c)) 0); simpl; [exact H0c | right; exact H0in].
  - rewrite Hr. rewrite Ha in *. rewrite map_app in *. simpl in *.
    constructor; simpl.
    + first [reflexivity | exact Hcap].
    + rewrite map_app. simpl. eapply NoDup_replace; eassumption.
    + apply remove_id_NoDup. constructor; [apply mem_false; exact Hm | exact Hnda].
    + intros x. rewrite map_app. simpl. rewrite remove_id_In. simpl. specialize (Hs x).
      pose proof (NoDup_remove_2 _ _ _ Hndi) as Hn0. rewrite in_app_iff in *. simpl in *.
      split.
      * intros [H|[H|H]].
        -- split; [right; apply Hs; tauto|]. intros ->. apply Hn0. tauto.
        -- subst. split; [left; reflexivity | exact Hnz].
        -- split; [right; apply Hs; tauto|]. intros ->. apply Hn0. tauto.
      * intros [[H|H] Hne]; [tauto|]. apply Hs in H. destruct H as [H|[H|H]]; [tauto | congruence | tauto].
    + intros x. rewrite map_app, in_app_iff. simpl. intros [H|[H|H]].
      * apply Hlt. rewrite in_app_iff. tauto.
      * subst. exact Hv.
      * apply Hlt. rewrite in_app_iff. simpl. tauto.
Qed.

Lemma G1_peephole : forall k a c nw, G1 k 0 a c -> ~ In nw (map snd a) -> nw < max_q k ->
  G1 k nw (reid 0 nw a) c.
Proof.
  intros k a c nw [Hcap Hndi Hnda Hin Hn0 Hs Hlt] Hn Hv.
  destruct (reid_split 0 nw a Hin) as [a1 [h [a2 [Ha Hr]]]].
  rewrite Hr. rewrite Ha in *. rewrite map_app in *. simpl in *.
  pose proof (NoDup_remove_2 _ _ _ Hndi) as Hn00.
  constructor; simpl; try assumption; try reflexivity.
  - rewrite map_app. simpl. eapply NoDup_replace; eassumption.
  - rewrite map_app, in_app_iff. simpl. tauto.
  - intros H. apply Hn. apply Hs. right. exact H.
  - intros x. rewrite map_app. specialize (Hs x). rewrite in_app_iff in *. simpl in *.
    split.
    + intros [H|[H|H]]; [|left; exact H|].
      * assert (Hx : 0 = x \/ In x (alloc c)) by (apply Hs; tauto). destruct Hx as [<-|Hx]; [tauto | right; exact Hx].
      * assert (Hx : 0 = x \/ In x (alloc c)) by (apply Hs; tauto). destruct Hx as [<-|Hx]; [tauto | right; exact Hx].
    + intros [H|H]; [tauto|].
      assert (Hx : In x (map snd a1) \/ 0 = x \/ In x (map snd a2)) by (apply Hs; right; exact H).
      destruct Hx as [Hx|[Hx|Hx]]; [tauto | subst; contradiction | tauto].
  - intros x. rewrite map_app, in_app_iff. simpl. intros [H|[H|H]].
    + apply Hlt. rewrite in_app_iff. tauto.
    + subst. exact Hv.
    + apply Hlt. rewrite in_app_iff. simpl. tauto.
Qed.

(* ------------------------------------------------------------------ invariant of the pair (SDK, controller after the committed commands) *)
Definition H0 (s : sdk) : Prop := NoDup (handles s) /\ forall h, In h (handles s) -> h < next_h s.
Definition Rel (k : cfg) (s : sdk) (c : ctrl) : Prop :=
  match last_new s with None => G0 k (active s) c | Some v => G1 k v (active s) c end.
Definition Good (k : cfg) (s : sdk) (c : ctrl) : Prop :=
  H0 s /\ Rel k s c /\ length (active s) <= budget k.

(* s' has appended events to the committed commands of s; they run from c to c' *)
Definition Ext (s : sdk) (c : ctrl) (s' : sdk) (c' : ctrl) : Prop :=
  exists evs, pending s' = pending s ++ evs /\ ok c evs c'.

Lemma Ext_refl : forall s c, Ext s c s c.
Proof. intros. exists []. rewrite app_nil_r. split; [reflexivity | apply ok_nil]. Qed.

Lemma Ext_same : forall s s' c, pending s' = pending s -> Ext s c s' c.
Proof. intros s s' c H. exists []. rewrite app_nil_r. split; [exact H | apply ok_nil]. Qed.

Lemma Ext_trans : forall s1 c1 s2 c2 s3 c3, Ext s1 c1 s2 c2 -> Ext s2 c2 s3 c3 -> Ext s1 c1 s3 c3.
Proof.
  intros s1 c1 s2 c2 s3 c3 [e1 [H1 O1]] [e2 [H2 O2]]. exists (e1 ++ e2). split.
  - rewrite H2, H1, app_assoc. reflexivity.
  - eapply ok_app; eassumption.
Qed.

Lemma budget_le : forall k, budget k <= max_q k.
Proof. intros k. unfold budget. destruct (nv k); lia. Qed.

Lemma budget_nv : forall k, nv k = true -> budget k = max_q k - 1.
Proof. intros k H. unfold budget. rewrite H. reflexivity. Qed.

Lemma Rel_ndi : forall k s c, Rel k s c -> NoDup (ids s).
Proof. intros k s c H. unfold Rel in H. destruct (last_new s); destruct H; assumption. Qed.

Lemma commit_G0 : forall k s c, Rel k s c ->
  exists c', Ext s c (commit s) c' /\ G0 k (active s) c'.
Proof.
  intros k s c H. unfold Rel in H. unfold Ext, commit, all_pending. simpl.
  destruct (last_new s) as [v|]; simpl.
  - destruct (G1_commit _ _ _ _ H) as [c' [E1 [_ [E2 HG]]]]. exists c'. split; [|exact HG].
    eexists. split; [reflexivity|]. eapply ok_cons; [exact E1|]. apply ok_one. exact E2.
  - exists c. split; [|exact H]. exists []. split; [reflexivity | apply ok_nil].
Qed.

(* emit = commit, then further events *)
Lemma emit_Ext : forall k s c evs (P : ctrl -> Prop), Rel k s c ->
  (forall c1, G0 k (active s) c1 -> exists c2, ok c1 evs c2 /\ P c2) ->
  exists c2, Ext s c (emit s evs) c2 /\ P c2.
Proof.
  intros k s c evs P HR HP.
  destruct (commit_G0 _ _ _ HR) as [c1 [[e1 [Hp1 O1]] HG]].
  destruct (HP c1 HG) as [c2 [O2 HP2]]. exists c2. split; [|exact HP2].
  exists (e1 ++ evs). split.
  - unfold emit. simpl. simpl in Hp1. rewrite Hp1, app_assoc. reflexivity.
  - eapply ok_app; eassumption.
Qed.

Lemma id_of_In : forall h a v, id_of h a = Some v -> In v (map snd a) /\ In h (map fst a).
Proof.
  intros h a v H. destruct (id_of_split _ _ _ H) as [a1 [a2 [Ha _]]]. subst a.
  rewrite !map_app, !in_app_iff. simpl. tauto.
Qed.

Lemma live_id_of : forall s h, live s h = true -> exists v, id_of h (active s) = Some v.
Proof.
  intros s h H. unfold live, handles in H. rewrite existsb_exists in H. destruct H as [x [Hin Heq]].
  apply Nat.eqb_eq in Heq. subst x. induction (active s) as [|[h' v'] r IH]; simpl in *; [contradiction|].
  destruct (h' =? h) eqn:E; [eexists; reflexivity|].
  destruct Hin as [Hin|Hin]; [apply Nat.eqb_neq in E; congruence | apply IH; exact Hin].
Qed.

Lemma id_of_reid : forall h a v old nw, id_of h a = Some v -> v <> old -> id_of h (reid old nw a) = Some v.
Proof.
  intros h a v old nw. induction a as [|[h' v'] r IH]; intros H Hne; simpl in *; [discriminate|].
  destruct (v' =? old) eqn:Ev; simpl.
  - destruct (h' =? h) eqn:Eh; [|exact H]. apply Nat.eqb_eq in Ev. inversion H; subst. congruence.
  - destruct (h' =? h) eqn:Eh; [exact H|]. apply IH; assumption.
Qed.

Lemma reid_keeps : forall a old nw v, In v (map snd a) -> v <> old -> In v (map snd (reid old nw a)).
Proof.
  intros a old nw v. induction a as [|[h' v'] r IH]; intros H Hne; simpl in *; [contradiction|].
  destruct (v' =? old) eqn:Ev; simpl.
  - destruct H as [H|H]; [apply Nat.eqb_eq in Ev; congruence | right; exact H].
  - destruct H as [H|H]; [left; exact H | right; apply IH; assumption].
Qed.

Lemma reid_removes : forall a nw, NoDup (map snd a) -> nw <> 0 -> ~ In 0 (map snd (reid 0 nw a)).
Proof.
  intros a nw Hnd Hnz. destruct (in_dec Nat.eq_dec 0 (map snd a)) as [Hin|Hn].
  - destruct (reid_split 0 nw a Hin) as [a1 [h [a2 [Ha Hr]]]]. rewrite Hr. subst a.
    rewrite map_app in *. simpl in *. pose proof (NoDup_remove_2 _ _ _ Hnd) as H.
    rewrite in_app_iff in *. simpl. intros [H1|[H1|H1]]; [tauto | congruence | tauto].
  - intros H. apply Hn. clear Hn Hnd. induction a as [|[h v] r IH]; simpl in *; [contradiction|].
    destruct (v =? 0) eqn:E; simpl in H.
    + left. apply Nat.eqb_eq. exact E.
    + destruct H as [H|H]; [left; exact H | right; apply IH; exact H].
Qed.

(* NV relocation: afterwards no handle has ID 0 *)
Lemma free_up0_ok : forall k s c, Good k s c -> length (active s) <= max_q k - 1 ->
  exists s' c', free_up0 s = inl s' /\ Ext s c s' c' /\ Good k s' c' /\ ~ In 0 (ids s') /\
    handles s' = handles s /\ next_h s' = next_h s /\
    (forall v, v <> 0 -> In v (ids s) -> In v (ids s')) /\
    (forall h v, id_of h (active s) = Some v -> v <> 0 -> id_of h (active s') = Some v).
Proof.
  intros k s c [[Hnd Hlt] [HR Hlen]] Hroom. unfold free_up0.
  destruct (mem 0 (ids s)) eqn:E0.
  2:{ exists s, c. split; [reflexivity|]. split; [apply Ext_refl|]. split; [repeat split; assumption|].
      split; [apply mem_false; exact E0|]. repeat split; auto. }
  apply mem_In in E0.
  destruct (new_id_spec (ids s)) as [nw [En [Hn [_ Hle]]]]. rewrite En.
  assert (Hpos : 1 <= length (active s)).
  { unfold ids in E0. destruct (active s); simpl in *; [contradiction | lia]. }
  assert (Hnw : nw < max_q k) by (unfold ids in Hle; rewrite map_length in Hle; lia).
  assert (Hnz : nw <> 0) by (intros ->; contradiction).
  pose proof (Rel_ndi _ _ _ HR) as Hndi.
  assert (Hcommon : forall s', active s' = reid 0 nw (active s) -> next_h s' = next_h s ->
     ~ In 0 (ids s') /\ handles s' = handles s /\ next_h s' = next_h s /\
     (forall v, v <> 0 -> In v (ids s) -> In v (ids s')) /\
     (forall h v, id_of h (active s) = Some v -> v <> 0 -> id_of h (active s') = Some v) /\ H0 s' /\
     length (active s') <= budget k).
  { intros s' Ha Hn'.
    assert (Hh : handles s' = handles s) by (unfold handles; rewrite Ha; apply reid_handles).
    split; [unfold ids; rewrite Ha; apply reid_removes; assumption|].
    split; [exact Hh|]. split; [exact Hn'|].
    split; [intros v Hv Hin; unfold ids; rewrite Ha; apply reid_keeps; assumption|].
    split; [intros h v Hid Hv; rewrite Ha; apply id_of_reid; assumption|].
    split; [unfold H0; rewrite Hh, Hn'; split; assumption|].
    rewrite Ha, reid_length. exact Hlen. }
  destruct (last_new s) as [[|v]|] eqn:EL.
  - (* peephole *)
    eexists. exists c. split; [reflexivity|].
    destruct (Hcommon (mkSdk (reid 0 nw (active s)) (next_h s) (pending s) (Some nw)) eq_refl eq_refl)
      as [C1 [C2 [C3 [C4 [C5 [C6 C7]]]]]].
    split; [apply Ext_same; reflexivity|].
    split; [|repeat split; assumption].
    split; [exact C6|]. split; [|exact C7]. unfold Rel in *. simpl. rewrite EL in HR.
    apply G1_peephole; assumption.
  - (* another allocation ends the pending commands: commit it, then move *)
    set (evs := [EAlloc nw; EUse [nw]; EUse [0; nw]; EFree 0]).
    destruct (emit_Ext k s c evs (fun c2 => G0 k (reid 0 nw (active s)) c2) HR) as [c2 [HE HG]].
    { intros c1 HG1. apply G0_reloc; assumption. }
    eexists. exists c2. split; [reflexivity|].
    destruct (Hcommon (set_active (emit s evs) (reid 0 nw (active (emit s evs)))) eq_refl eq_refl)
      as [C1 [C2 [C3 [C4 [C5 [C6 C7]]]]]].
    split; [exact HE|]. split; [|repeat split; assumption].
    split; [exact C6|]. split; [|exact C7]. unfold Rel. simpl. exact HG.
  - set (evs := [EAlloc nw; EUse [nw]; EUse [0; nw]; EFree 0]).
    destruct (emit_Ext k s c evs (fun c2 => G0 k (reid 0 nw (active s)) c2) HR) as [c2 [HE HG]].
    { intros c1 HG1. apply G0_reloc; assumption. }
    eexists. exists c2. split; [reflexivity|].
    destruct (Hcommon (set_active (emit s evs) (reid 0 nw (active (emit s evs)))) eq_refl eq_refl)
      as [C1 [C2 [C3 [C4 [C5 [C6 C7]]]]]].
    split; [exact HE|]. split; [|repeat split; assumption].
    split; [exact C6|]. split; [|exact C7]. unfold Rel. simpl. exact HG.
Qed.

(* ------------------------------------------------------------------ handles created by EPR operations *)
Lemma H0_add : forall s v, H0 s -> H0 (add_handle s v).
Proof.
  intros s v [Hnd Hlt]. unfold H0, add_handle, handles. simpl. rewrite map_app. simpl. split.
  - apply NoDup_snoc; [exact Hnd|]. intros H. apply Hlt in H. lia.
  - intros h. rewrite in_app_iff. simpl. intros [H|[H|[]]]; [apply Hlt in H; lia | lia].
Qed.

Lemma G0_to_G1_add : forall k a c h v, G0 k a c -> ~ In v (map snd a) -> v < max_q k ->
  G1 k v (a ++ [(h, v)]) c.
Proof.
  intros k a c h v [Hcap Hndi Hnda Hs Hlt] Hn Hv. constructor; try assumption.
  - rewrite map_app. simpl. apply NoDup_snoc; assumption.
  - rewrite map_app, in_app_iff. simpl. tauto.
  - intros H. apply Hn. apply Hs. exact H.
  - intros x. rewrite map_app, in_app_iff. simpl. specialize (Hs x). tauto.
  - intros x. rewrite map_app, in_app_iff. simpl. intros [H|[H|[]]]; [apply Hlt; exact H | subst; exact Hv].
Qed.

(* generic hardware: n handles with the n lowest unused IDs, nothing emitted *)
Lemma fresh_handles_spec : forall n s, exists s' vs new,
  fresh_handles s n = inl (s', vs) /\ active s' = active s ++ new /\ map snd new = vs /\
  length new = n /\ next_h s' = next_h s + n /\ pending s' = pending s /\ last_new s' = last_new s /\
  (H0 s -> H0 s') /\ NoDup vs /\ (forall v, In v vs -> ~ In v (ids s)) /\
  (forall v, In v vs -> v < length (active s) + n) /\ (1 <= n -> In 0 (ids s) \/ In 0 vs).
Proof.
  induction n as [|n IH]; intros s; simpl.
  - exists s, [], []. rewrite app_nil_r, Nat.add_0_r.
    split; [reflexivity|]. split; [reflexivity|]. split; [reflexivity|]. split; [reflexivity|].
    split; [reflexivity|]. split; [reflexivity|]. split; [reflexivity|]. split; [auto|].
    split; [constructor|]. split; [intros v []|]. split; [intros v [] | lia].
  - destruct (new_id_spec (ids s)) as [v [En [Hn [Hbelow Hle]]]]. rewrite En.
    destruct (IH (add_handle s v)) as [s' [vs [new [E [Ha [Hv [Hl [Hnh [Hp [Hln [HH [Hnd [Hdis [Hb _]]]]]]]]]]]]]].
    rewrite E. exists s', (v :: vs), ((next_h s, v) :: new).
    unfold ids in *. simpl in *. rewrite map_app in Hdis. simpl in Hdis.
    rewrite app_length in Hb. simpl in Hb. rewrite map_length in Hle.
    split; [reflexivity|]. split; [rewrite Ha, <- app_assoc; reflexivity|].
    split; [simpl; f_equal; exact Hv|]. split; [simpl; f_equal; exact Hl|].
    split; [lia|]. split; [exact Hp|]. split; [exact Hln|].
    split; [intros H; apply HH; apply H0_add; exact H|].
    split; [constructor; [|exact Hnd]; intros H; apply (Hdis v H); rewrite in_app_iff; simpl; tauto|].
    split.
    + intros x [<-|Hx]; [exact Hn|]. intros H. apply (Hdis x Hx). rewrite in_app_iff. tauto.
    + split; [intros x [<-|Hx]; [lia|]; apply Hb in Hx; lia|].
      intros _. destruct v as [|v']; [right; left; reflexivity | left; apply Hbelow; lia].
Qed.

(* pairs delivered into the handles' own IDs *)
Lemma G0_epr_list : forall k new a c, G0 k a c -> NoDup (map snd new) ->
  (forall v, In v (map snd new) -> ~ In v (map snd a)) -> (forall v, In v (map snd new) -> v < max_q k) ->
  exists c', ok c (map EEpr (map snd new)) c' /\ G0 k (a ++ new) c'.
Proof.
  intros k new. induction new as [|[h v] r IH]; intros a c HG Hnd Hdis Hlt; simpl in *.
  - exists c. rewrite app_nil_r. split; [apply ok_nil | exact HG].
  - inversion Hnd as [|? ? Hv Hnd']; subst.
    destruct (G0_alloc k a c h v HG (Hdis v (or_introl eq_refl)) (Hlt v (or_introl eq_refl))) as [c1 [_ [E1 HG1]]].
    destruct (IH (a ++ [(h, v)]) c1 HG1 Hnd') as [c2 [O2 HG2]].
    + intros x Hx. rewrite map_app, in_app_iff. simpl. intros [H|[H|[]]].
      * apply (Hdis x (or_intror Hx)). exact H.
      * subst. contradiction.
    + intros x Hx. apply Hlt. right. exact Hx.
    + exists c2. split; [eapply ok_cons; eassumption|]. rewrite <- app_assoc in HG2. exact HG2.
Qed.

Lemma remove_id_head : forall v l, ~ In v l -> remove_id v (v :: l) = l.
Proof.
  intros v l H. unfold remove_id. simpl. rewrite Nat.eqb_refl. simpl. apply remove_id_notin. exact H.
Qed.

(* Bell-state corrections address an allocated qubit *)
Lemma corr_use_raw : forall c b v, In v (alloc c) -> v < cap c -> ok c (corr_use b v) c.
Proof.
  intros c b v Hin Hv. destruct b; simpl; [|apply ok_nil].
  apply ok_one. apply exec_use_ok. simpl. intros x [<-|[]]. split; assumption.
Qed.

Lemma corr_use_ok : forall k a c b v, G0 k a c -> In v (map snd a) -> ok c (corr_use b v) c.
Proof.
  intros k a c b v HG Hin. destruct b; simpl; [|apply ok_nil].
  apply ok_one. eapply G0_use; [exact HG|]. intros x [<-|[]]. exact Hin.
Qed.

Lemma corr_list_ok : forall k a c vs cs, G0 k a c -> In 0 (map snd a) -> ok c (corr_list vs cs) c.
Proof.
  intros k a c vs. induction vs as [|v r IH]; intros cs HG H0; simpl; [apply ok_nil|].
  eapply ok_app; [eapply corr_use_ok; eassumption | apply IH; assumption].
Qed.

(* an EPR block that consumes every pair leaves the unit module as it was *)
Lemma pair_loop_consume_ok : forall vs cs c u, (forall v, In v vs -> ~ In v (alloc c) /\ v < cap c) ->
  ok c (pair_loop vs cs (BConsume u)) c.
Proof.
  induction vs as [|v r IH]; intros cs c u H; [apply ok_nil|].
  simpl pair_loop.
  destruct (H v (or_introl eq_refl)) as [Hn Hv].
  destruct (exec_alloc_ok c v Hv Hn) as [_ Ee].
  set (c1 := mkCtrl (v :: alloc c) (cap c)) in *.
  assert (Hin1 : In v (alloc c1)) by (left; reflexivity).
  assert (Hv1 : v < cap c1) by exact Hv.
  eapply ok_cons; [exact Ee|].
  eapply ok_app; [apply corr_use_raw; assumption|].
  assert (Hfree : exec_event c1 (EFree v) = inl c).
  { rewrite (exec_free_ok c1 v Hv1 Hin1). unfold c1. simpl. rewrite remove_id_head by exact Hn.
    destruct c as [al cp]. reflexivity. }
  assert (Hrest : ok c (pair_loop r (tl cs) (BConsume u)) c).
  { apply IH. intros x Hx. apply H. right. exact Hx. }
  destruct u; simpl.
  - eapply ok_cons; [apply exec_use_ok; simpl; intros x [<-|[]]; split; assumption|].
    eapply ok_cons; [exact Hfree | exact Hrest].
  - eapply ok_cons; [exact Hfree | exact Hrest].
Qed.

(* a block that keeps its qubit: every pair stays allocated in its own ID *)
Lemma pair_loop_keep_ok : forall k new cs a c, G0 k a c -> NoDup (map snd new) ->
  (forall v, In v (map snd new) -> ~ In v (map snd a)) -> (forall v, In v (map snd new) -> v < max_q k) ->
  exists c', ok c (pair_loop (map snd new) cs BKeep) c' /\ G0 k (a ++ new) c'.
Proof.
  intros k new. induction new as [|[h v] r IH]; intros cs a c HG Hnd Hdis Hlt; simpl in *.
  - exists c. rewrite app_nil_r. split; [apply ok_nil | exact HG].
  - inversion Hnd as [|? ? Hv Hnd']; subst.
    destruct (G0_alloc k a c h v HG (Hdis v (or_introl eq_refl)) (Hlt v (or_introl eq_refl))) as [c1 [_ [E1 HG1]]].
    assert (Hin1 : In v (map snd (a ++ [(h, v)]))) by (rewrite map_app, in_app_iff; simpl; tauto).
    destruct (IH (tl cs) (a ++ [(h, v)]) c1 HG1 Hnd') as [c2 [O2 HG2]].
    + intros x Hx. rewrite map_app, in_app_iff. simpl. intros [H|[H|[]]].
      * apply (Hdis x (or_intror Hx)). exact H.
      * subst. contradiction.
    + intros x Hx. apply Hlt. right. exact Hx.
    + exists c2. split; [|rewrite <- app_assoc in HG2; exact HG2].
      eapply ok_cons; [exact E1|].
      eapply ok_app; [eapply corr_use_ok; eassumption|].
      eapply ok_cons; [eapply G0_use; [exact HG1|]; intros x [<-|[]]; exact Hin1 | exact O2].
Qed.

(* NV: pairs arrive in ID 0 and are moved to their memory qubits *)
Lemma move_loop_ok : forall k a vs cs c, G1 k 0 a c -> vs <> [] -> (forall v, In v vs -> In v (map snd a)) ->
  exists c', ok c (move_loop vs cs) c' /\ G0 k a c'.
Proof.
  intros k a vs. induction vs as [|v r IH]; intros cs c HG Hne Hin; [congruence|].
  destruct (G1_commit _ _ _ _ HG) as [c1 [_ [E1 [_ HG0]]]].
  pose proof (corr_use_ok k a c1 (hd false cs) 0 HG0 (g1_in _ _ _ _ HG)) as Oc.
  destruct r as [|w r].
  - exists c1. split; [|exact HG0]. simpl. eapply ok_cons; [exact E1 | exact Oc].
  - change (move_loop (v :: w :: r) cs) with
      ([EEpr 0] ++ corr_use (hd false cs) 0 ++ [EUse [0; v]; EFree 0] ++ move_loop (w :: r) (tl cs)).
    assert (E2 : exec_event c1 (EUse [0; v]) = inl c1).
    { eapply G0_use; [exact HG0|]. simpl. intros x [<-|[<-|[]]]; [apply (g1_in _ _ _ _ HG) | apply Hin; left; reflexivity]. }
    destruct (G0_free0 k a c1 0 HG0 (g1_in _ _ _ _ HG)) as [c2 [E3 HG1]].
    destruct (IH (tl cs) c2 HG1) as [c3 [O3 HG3]]; [congruence | intros x Hx; apply Hin; right; exact Hx|].
    exists c3. split; [|exact HG3].
    eapply ok_app; [apply ok_one; exact E1|].
    eapply ok_app; [exact Oc|].
    eapply ok_app; [|exact O3].
    eapply ok_cons; [exact E2|]. apply ok_one. exact E3.
Qed.

Lemma emit_active : forall s evs, active (emit s evs) = active s /\ next_h (emit s evs) = next_h s /\
  last_new (emit s evs) = None.
Proof. intros. unfold emit. simpl. auto. Qed.

(* NV, not sequential: memory qubits with the lowest unused IDs other than 0 *)
Lemma pick_ids_spec : forall m l, exists asc, pick_ids l m = Some asc /\ length asc = m /\ NoDup asc /\
  (forall v, In v asc -> ~ In v l /\ v <> 0 /\ v <= length l + m).
Proof.
  induction m as [|m IH]; intros l; simpl.
  - exists []. split; [reflexivity|]. split; [reflexivity|]. split; [constructor | intros v []].
  - destruct (new_id_spec (0 :: l)) as [v [Ev [Hn [_ Hle]]]]. rewrite Ev.
    destruct (IH (v :: l)) as [asc [E [Hl [Hnd Hs]]]]. rewrite E.
    exists (v :: asc). simpl in *. split; [reflexivity|]. split; [f_equal; exact Hl|]. split.
    + constructor; [|exact Hnd]. intros H. apply Hs in H. destruct H as [H _]. apply H. left. reflexivity.
    + intros x [<-|Hx].
      * split; [intros H; apply Hn; right; exact H|]. split; [intros ->; apply Hn; left; reflexivity | lia].
      * destruct (Hs x Hx) as [H1 [H2 H3]]. split; [intros H; apply H1; right; exact H|]. split; [exact H2 | lia].
Qed.

Lemma alloc_handles_ok : forall k vs s c, last_new s = None -> G0 k (active s) c -> H0 s -> NoDup vs ->
  (forall v, In v vs -> ~ In v (ids s) /\ v < max_q k) ->
  exists c' new, Ext s c (alloc_handles s vs) c' /\ G0 k (active (alloc_handles s vs)) c' /\
    H0 (alloc_handles s vs) /\ last_new (alloc_handles s vs) = None /\
    active (alloc_handles s vs) = active s ++ new /\ map snd new = vs /\
    next_h (alloc_handles s vs) = next_h s + length vs.
Proof.
  intros k vs. induction vs as [|v r IH]; intros s c HL HG HH Hnd Hvs; simpl.
  - exists c, []. rewrite app_nil_r, Nat.add_0_r. split; [apply Ext_refl|]. auto 10.
  - inversion Hnd as [|? ? Hv Hnd']; subst.
    destruct (Hvs v (or_introl eq_refl)) as [Hvn Hvlt].
    remember (emit s [EAlloc v; EUse [v]]) as s1 eqn:Es1.
    assert (Hstep : exists c1, Ext s c s1 c1 /\ G0 k (active s ++ [(next_h s, v)]) c1).
    { rewrite Es1. apply (emit_Ext k s c [EAlloc v; EUse [v]] (fun c2 => G0 k (active s ++ [(next_h s, v)]) c2)).
      - unfold Rel. rewrite HL. exact HG.
      - intros c1 HG1. destruct (G0_alloc k (active s) c1 (next_h s) v HG1 Hvn Hvlt) as [c2 [E1 [_ HG2]]].
        exists c2. split; [|exact HG2]. eapply ok_cons; [exact E1|]. apply ok_one.
        eapply G0_use; [exact HG2|]. simpl. intros x [<-|[]]. rewrite map_app, in_app_iff. simpl. tauto. }
    destruct Hstep as [c1 [HE1 HG1]].
    destruct (emit_active s [EAlloc v; EUse [v]]) as [Ha1 [Hn1 Hl1]]. rewrite <- Es1 in Ha1, Hn1, Hl1.
    destruct (IH (add_handle s1 v) c1) as [c' [new [HE [HG' [HH' [HL' [Ha [Hs Hnh]]]]]]]].
    + simpl. exact Hl1.
    + unfold add_handle. simpl. rewrite Ha1, Hn1. exact HG1.
    + apply H0_add. unfold H0, handles. rewrite Ha1, Hn1. exact HH.
    + exact Hnd'.
    + intros x Hx. destruct (Hvs x (or_intror Hx)) as [H1 H2]. split; [|exact H2].
      unfold ids, add_handle. simpl. rewrite Ha1, map_app, in_app_iff. simpl. unfold ids in H1.
      intros [H|[H|[]]]; [contradiction | subst; contradiction].
    + exists c', ((next_h s, v) :: new). split.
      { eapply Ext_trans; [exact HE1|]. destruct HE as [evs [Hp Ho]]. exists evs. split; [exact Hp | exact Ho]. }
      split; [exact HG'|]. split; [exact HH'|]. split; [exact HL'|].
      assert (Hah : active (add_handle s1 v) = active s ++ [(next_h s, v)])
        by (unfold add_handle; simpl; rewrite Ha1, Hn1; reflexivity).
      assert (Hnh' : next_h (add_handle s1 v) = S (next_h s)) by (unfold add_handle; simpl; rewrite Hn1; reflexivity).
      rewrite Hah in Ha. rewrite Hnh' in Hnh.
      split; [rewrite Ha, <- app_assoc; reflexivity|]. split; [simpl; f_equal; exact Hs | simpl; lia].
Qed.

Lemma nv_handles_spec : forall k n s c, last_new s = None -> G0 k (active s) c -> H0 s ->
  ~ In 0 (ids s) -> 1 <= n -> length (active s) + n <= max_q k ->
  exists s' vs c', nv_handles s n = inl (s', vs) /\ Ext s c s' c' /\ G1 k 0 (active s') c' /\ H0 s' /\
    last_new s' = None /\ vs <> [] /\ (forall v, In v vs -> In v (ids s')) /\
    (exists new, active s' = active s ++ new /\ length new = n /\ map snd new = vs) /\
    next_h s' = next_h s + n.
Proof.
  intros k n s c HL HG HH H0n Hn Hroom. unfold nv_handles.
  destruct (pick_ids_spec (n - 1) (ids s)) as [asc [E [Hl [Hnd Hs]]]]. rewrite E.
  assert (Hlen : length (ids s) = length (active s)) by (unfold ids; apply map_length).
  destruct (alloc_handles_ok k (rev asc) s c HL HG HH) as [c' [new [HE [HG' [HH' [HL' [Ha [Hsnd Hnh]]]]]]]].
  - apply NoDup_rev. exact Hnd.
  - intros v Hv. apply in_rev in Hv. destruct (Hs v Hv) as [H1 [_ H3]]. split; [exact H1 | lia].
  - set (s1 := alloc_handles s (rev asc)) in *.
    assert (H01 : ~ In 0 (ids s1)).
    { unfold ids. rewrite Ha, map_app, in_app_iff, Hsnd. intros [H|H]; [exact (H0n H)|].
      apply in_rev in H. destruct (Hs 0 H) as [_ [H2 _]]. congruence. }
    eexists. exists (rev asc ++ [0]), c'. split; [reflexivity|].
    split; [destruct HE as [evs [Hp Ho]]; exists evs; split; [exact Hp | exact Ho]|].
    split; [apply G0_to_G1_add; [exact HG' | exact H01 | lia]|].
    split; [apply H0_add; exact HH'|]. split; [exact HL'|].
    split; [intros H; apply app_eq_nil in H; destruct H; discriminate|].
    rewrite rev_length, Hl in Hnh.
    split.
    + intros v Hv. unfold ids, add_handle. simpl. rewrite Ha, !map_app, Hsnd. simpl.
      rewrite !in_app_iff in *. simpl in *. tauto.
    + split; [|simpl; lia].
      exists (new ++ [(next_h s1, 0)]). unfold add_handle. simpl. rewrite Ha, app_assoc.
      split; [reflexivity|]. rewrite app_length, map_app, Hsnd. simpl.
      split; [|reflexivity]. rewrite <- (map_length snd new), Hsnd, rev_length, Hl. lia.
Qed.

(* ------------------------------------------------------------------ one host operation *)
Definition StepOK (k : cfg) (s : sdk) (c : ctrl) (o : op) : Prop :=
  (forall e, sdk_step k s o <> inr e) /\
  (forall s', sdk_step k s o = inl s' -> exists c', Ext s c s' c' /\ Good k s' c').

Lemma emit_None : forall s evs, last_new s = None -> pending (emit s evs) = pending s ++ evs.
Proof. intros s evs H. unfold emit, commit, all_pending. simpl. rewrite H. simpl. rewrite app_nil_r. reflexivity. Qed.

Lemma emit_use_ok : forall k s c vs, Good k s c -> (forall v, In v vs -> In v (ids s)) ->
  exists c', Ext s c (emit s [EUse vs]) c' /\ Good k (emit s [EUse vs]) c'.
Proof.
  intros k s c vs [HH [HR Hlen]] Hin.
  destruct (emit_Ext k s c [EUse vs] (fun c2 => G0 k (active s) c2) HR) as [c2 [HE HG]].
  - intros c1 HG1. exists c1. split; [|exact HG1]. apply ok_one. eapply G0_use; [exact HG1 | exact Hin].
  - exists c2. split; [exact HE|]. split; [exact HH|]. split; [exact HG | exact Hlen].
Qed.

Lemma step_new : forall k s c, Good k s c -> length (active s) + 1 <= budget k -> StepOK k s c NewQubit.
Proof.
  intros k s c [[Hnd Hlt] [HR Hlen]] Hb. unfold StepOK. simpl.
  destruct (new_id_spec (ids s)) as [v [En [Hn [_ Hle]]]]. rewrite En.
  split; [intros e He; discriminate|]. intros s' He. inversion He; subst. clear He.
  destruct (commit_G0 _ _ _ HR) as [c1 [[evs [Hp Ho]] HG]].
  exists c1. split; [exists evs; split; [exact Hp | exact Ho]|].
  unfold ids in *. rewrite map_length in Hle. pose proof (budget_le k) as Hbl.
  split; [|split].
  - unfold H0, handles. simpl. rewrite map_app. simpl. split.
    + apply NoDup_snoc; [exact Hnd|]. intros H. apply Hlt in H. lia.
    + intros h. rewrite in_app_iff. simpl. intros [H|[H|[]]]; [apply Hlt in H; lia | lia].
  - unfold Rel. simpl. apply G0_to_G1_add; [exact HG | exact Hn | lia].
  - simpl. rewrite app_length. simpl. lia.
Qed.

Lemma step_gate1 : forall k s c h, Good k s c -> live s h = true -> StepOK k s c (Gate1 h).
Proof.
  intros k s c h HG Hl. unfold StepOK. simpl. destruct (live_id_of _ _ Hl) as [v Ev]. rewrite Ev.
  split; [intros e He; discriminate|]. intros s' He. inversion He; subst.
  apply emit_use_ok; [exact HG|]. intros x [<-|[]]. apply (id_of_In _ _ _ Ev).
Qed.

(* the electron reserved around a carbon-carbon gate is released again *)
Lemma borrow_ok : forall k a0 c a b, G0 k a0 c -> ~ In 0 (map snd a0) ->
  In a (map snd a0) -> In b (map snd a0) -> ok c [EAlloc 0; EUse [0]; EUse [0; a; b]; EFree 0] c.
Proof.
  intros k a0 c a b [Hcap _ _ Hs Hlt] H0 Ha Hb.
  assert (H0n : ~ In 0 (alloc c)) by (intros H; apply H0; apply Hs; exact H).
  assert (H0c : 0 < cap c) by (rewrite Hcap; specialize (Hlt a Ha); lia).
  destruct (exec_alloc_ok c 0 H0c H0n) as [Ea _].
  set (c1 := mkCtrl (0 :: alloc c) (cap c)) in *.
  assert (Hin : forall x, In x (map snd a0) -> In x (alloc c1) /\ x < cap c1).
  { intros x Hx. split; [right; apply Hs; exact Hx | simpl; rewrite Hcap; apply Hlt; exact Hx]. }
  eapply ok_cons; [exact Ea|].
  eapply ok_cons; [apply exec_use_ok; simpl; intros x [<-|[]]; split; [left; reflexivity | exact H0c]|].
  eapply ok_cons.
  { apply exec_use_ok. simpl. intros x [<-|[<-|[<-|[]]]]; [split; [left; reflexivity | exact H0c] | apply Hin; exact Ha | apply Hin; exact Hb]. }
  apply ok_one. rewrite (exec_free_ok c1 0 H0c (or_introl eq_refl)). unfold c1. simpl.
  rewrite remove_id_head by exact H0n. destruct c as [al cp]. reflexivity.
Qed.

Lemma step_gate2 : forall k s c h1 h2, Good k s c -> live s h1 = true -> live s h2 = true ->
  StepOK k s c (Gate2 h1 h2).
Proof.
  intros k s c h1 h2 HG Hl1 Hl2. unfold StepOK. simpl.
  destruct (live_id_of _ _ Hl1) as [a Ea]. destruct (live_id_of _ _ Hl2) as [b Eb].
  rewrite Ea, Eb.
  split; [intros e He; discriminate|]. intros s' He. inversion He; subst.
  pose proof (proj1 (id_of_In _ _ _ Ea)) as Hina. pose proof (proj1 (id_of_In _ _ _ Eb)) as Hinb.
  unfold gate2_events, gate2_uses.
  destruct (transp k && negb (a =? 0) && negb (b =? 0)) eqn:E; simpl andb.
  - destruct (mem 0 (ids s)) eqn:E0; simpl negb; cbv iota.
    + apply mem_In in E0. apply emit_use_ok; [exact HG|].
      intros x [<-|[<-|[<-|[]]]]; assumption.
    + apply mem_false in E0. destruct HG as [HH [HR Hlen]].
      destruct (emit_Ext k s c [EAlloc 0; EUse [0]; EUse [0; a; b]; EFree 0] (fun c2 => G0 k (active s) c2) HR)
        as [c2 [HE HG2]].
      * intros c1 HG1. exists c1. split; [|exact HG1]. eapply borrow_ok; eassumption.
      * exists c2. split; [exact HE|]. split; [exact HH|]. split; [exact HG2 | exact Hlen].
  - apply emit_use_ok; [exact HG|]. intros x [<-|[<-|[]]]; assumption.
Qed.

Lemma Good_room : forall k s c, Good k s c -> nv k = true -> length (active s) <= max_q k - 1.
Proof. intros k s c [_ [_ H]] Hnv. rewrite (budget_nv k Hnv) in H. exact H. Qed.

Lemma pre_measure_ok : forall k s c h v, Good k s c -> id_of h (active s) = Some v ->
  exists s1 c1, pre_measure k s v = inl s1 /\ Ext s c s1 c1 /\ Good k s1 c1 /\ id_of h (active s1) = Some v.
Proof.
  intros k s c h v HG Hid. unfold pre_measure.
  destruct (nv k && negb (v =? 0)) eqn:E.
  - apply andb_true_iff in E. destruct E as [Hnv Hv]. apply negb_true_iff, Nat.eqb_neq in Hv.
    destruct (free_up0_ok k s c HG (Good_room _ _ _ HG Hnv)) as [s1 [c1 [E1 [HE [HG1 [_ [_ [_ [_ Hids]]]]]]]]].
    exists s1, c1. split; [exact E1|]. split; [exact HE|]. split; [exact HG1|]. apply Hids; assumption.
  - exists s, c. split; [reflexivity|]. split; [apply Ext_refl|]. split; [exact HG | exact Hid].
Qed.

Lemma step_mi : forall k s c h, Good k s c -> live s h = true -> StepOK k s c (MeasureInplace h).
Proof.
  intros k s c h HG Hl. unfold StepOK. simpl. destruct (live_id_of _ _ Hl) as [v Ev]. rewrite Ev.
  destruct (pre_measure_ok k s c h v HG Ev) as [s1 [c1 [E1 [HE [HG1 Hid1]]]]]. rewrite E1.
  split; [intros e He; discriminate|]. intros s' He. inversion He; subst.
  destruct (emit_use_ok k s1 c1 [v] HG1) as [c2 [HE2 HG2]].
  - intros x [<-|[]]. apply (id_of_In _ _ _ Hid1).
  - exists c2. split; [eapply Ext_trans; eassumption | exact HG2].
Qed.

(* deactivating a handle after its qubit was freed *)
Lemma emit_free_ok : forall k s c h v pre, Good k s c -> id_of h (active s) = Some v ->
  (forall c1, G0 k (active s) c1 -> ok c1 pre c1) ->
  let s2 := emit s (pre ++ [EFree v]) in
  exists c', Ext s c (set_active s2 (deact h (active s2))) c' /\ Good k (set_active s2 (deact h (active s2))) c'.
Proof.
  intros k s c h v pre [[Hnd Hlt] [HR Hlen]] Hid Hpre. simpl.
  destruct (emit_Ext k s c (pre ++ [EFree v]) (fun c2 => G0 k (deact h (active s)) c2) HR) as [c2 [HE HG]].
  - intros c1 HG1. destruct (G0_free k (active s) c1 h v HG1 Hid) as [c2 [E2 HG2]].
    exists c2. split; [|exact HG2]. eapply ok_app; [apply Hpre; exact HG1 | apply ok_one; exact E2].
  - exists c2. split; [exact HE|].
    destruct (id_of_split _ _ _ Hid) as [a1 [a2 [Ha Hd]]].
    split; [|split].
    + unfold H0, handles in *. simpl. rewrite Hd. rewrite Ha in Hnd, Hlt. rewrite map_app in *. simpl in *.
      split; [eapply NoDup_remove_1; exact Hnd|]. intros x Hx. apply Hlt. rewrite in_app_iff in *. simpl. tauto.
    + unfold Rel. simpl. exact HG.
    + simpl. rewrite Hd. rewrite Ha in Hlen. rewrite app_length in *. simpl in Hlen. lia.
Qed.

Lemma step_free : forall k s c h, Good k s c -> live s h = true -> StepOK k s c (Free h).
Proof.
  intros k s c h HG Hl. unfold StepOK. simpl. destruct (live_id_of _ _ Hl) as [v Ev]. rewrite Ev.
  split; [intros e He; discriminate|]. intros s' He. inversion He; subst.
  apply (emit_free_ok k s c h v [] HG Ev). intros c1 _. apply ok_nil.
Qed.

Lemma step_md : forall k s c h, Good k s c -> live s h = true -> StepOK k s c (MeasureDestructive h).
Proof.
  intros k s c h HG Hl. unfold StepOK. simpl. destruct (live_id_of _ _ Hl) as [v Ev]. rewrite Ev.
  destruct (pre_measure_ok k s c h v HG Ev) as [s1 [c1 [E1 [HE [HG1 Hid1]]]]]. rewrite E1.
  split; [intros e He; discriminate|]. intros s' He. inversion He; subst.
  destruct (emit_free_ok k s1 c1 h v [EUse [v]] HG1 Hid1) as [c2 [HE2 HG2]].
  - intros c2 HG2. apply ok_one. eapply G0_use; [exact HG2|]. intros x [<-|[]]. apply (id_of_In _ _ _ Hid1).
  - exists c2. split; [eapply Ext_trans; eassumption | exact HG2].
Qed.

(* ------------------------------------------------------------------ EPR operations *)
Lemma drop_last_app : forall (a new : list (nat * nat)) n, length new = n -> drop_last_handles n (a ++ new) = a.
Proof.
  intros a new n H. unfold drop_last_handles. rewrite app_length, H.
  replace (length a + n - n) with (length a + 0) by lia.
  rewrite firstn_app_2. simpl. apply app_nil_r.
Qed.

Lemma commit_fields : forall s, active (commit s) = active s /\ next_h (commit s) = next_h s /\ last_new (commit s) = None.
Proof. intros. unfold commit. simpl. auto. Qed.

Lemma H0_commit : forall s, H0 s -> H0 (commit s).
Proof. intros s H. exact H. Qed.

(* what the two EPR operations share on generic hardware *)
Lemma generic_handles : forall k s c n, Good k s c -> nv k = false -> 1 <= n -> length (active s) + n <= budget k ->
  exists c1 s1 vs new, Ext s c (commit s) c1 /\ G0 k (active s) c1 /\
    ent_handles k s n = inl (s1, vs) /\ active s1 = active s ++ new /\ map snd new = vs /\ length new = n /\
    pending s1 = pending (commit s) /\ last_new s1 = None /\ H0 s1 /\ NoDup vs /\
    (forall v, In v vs -> ~ In v (ids s)) /\ (forall v, In v vs -> v < length (active s) + n) /\
    (In 0 (ids s) \/ In 0 vs).
Proof.
  intros k s c n [HH [HR Hlen]] Hnv Hn Hb.
  destruct (commit_G0 _ _ _ HR) as [c1 [HE HG]].
  destruct (fresh_handles_spec n (commit s)) as [s1 [vs [new [E [Ha [Hv [Hl [_ [Hp [Hln [HH1 [Hnd [Hdis [Hbd Hz]]]]]]]]]]]]]].
  exists c1, s1, vs, new. unfold ent_handles. rewrite Hnv.
  split; [exact HE|]. split; [exact HG|]. split; [exact E|]. split; [exact Ha|]. split; [exact Hv|].
  split; [exact Hl|]. split; [exact Hp|]. split; [exact Hln|]. split; [apply HH1; exact HH|].
  split; [exact Hnd|]. split; [exact Hdis|]. split; [exact Hbd | exact (Hz Hn)].
Qed.

Lemma step_keep : forall k s c n r sq np, Good k s c -> 1 <= n -> length (active s) + n <= budget k ->
  (sq = true -> n = 1) -> StepOK k s c (EprKeep n r sq np).
Proof.
  intros k s c n r sq np HGood Hn Hb Hsq. set (cs := if r then np else []). pose proof (budget_le k) as Hbl. unfold StepOK. simpl.
  destruct (n =? 0) eqn:En0; [apply Nat.eqb_eq in En0; lia|].
  assert (Esq : sq && (1 <? n) = false).
  { destruct sq; [|reflexivity]. rewrite (Hsq eq_refl). reflexivity. }
  rewrite Esq.
  assert (Enq : (max_q k <? n) = false) by (apply Nat.ltb_ge; lia).
  rewrite Enq, andb_false_r.
  destruct (nv k) eqn:Hnv.
  - (* NV *)
    unfold ent_handles, single_comm. rewrite Hnv. simpl.
    destruct (free_up0_ok k s c HGood (Good_room _ _ _ HGood Hnv)) as [s1 [c1 [E1 [HE1 [HG1 [H01 [Hh1 [Hn1 _]]]]]]]].
    rewrite E1. destruct HG1 as [HH1 [HR1 Hlen1]].
    destruct (commit_G0 _ _ _ HR1) as [c2 [HE2 HG2]].
    assert (Hl : length (active s1) = length (active s)).
    { rewrite <- (map_length fst (active s1)), <- (map_length fst (active s)). f_equal. exact Hh1. }
    destruct (nv_handles_spec k n (commit s1) c2 eq_refl HG2 HH1 H01 Hn)
      as [s2 [vs [c3 [E2 [HE3 [HG3 [HH3 [HL3 [Hne [Hin [[new [Hnew [Hlen _]]] _]]]]]]]]]]].
    { simpl. rewrite Hl. rewrite (budget_nv k Hnv) in Hb. lia. }
    rewrite E2. split; [intros e He; discriminate|]. intros s' He. inversion He; subst s'. clear He.
    destruct (move_loop_ok k (active s2) vs cs c3 HG3 Hne Hin) as [c4 [O4 HG4]].
    exists c4. split.
    + eapply Ext_trans; [exact HE1|]. eapply Ext_trans; [exact HE2|]. eapply Ext_trans; [exact HE3|].
      exists (move_loop vs cs). split; [apply emit_None; exact HL3 | exact O4].
    + split; [exact HH3|]. split; [exact HG4|]. simpl. rewrite Hnew, app_length, Hlen. simpl in *. lia.
  - (* generic *)
    destruct (generic_handles k s c n HGood Hnv Hn Hb)
      as [c1 [s1 [vs [new [HE [HG [E [Ha [Hv [Hl [Hp [Hln [HH1 [Hnd [Hdis [Hbd Hz]]]]]]]]]]]]]]]].
    rewrite E. split; [intros e He; discriminate|]. intros s' He. inversion He; subst s'. clear He.
    fold cs. subst vs.
    assert (Hevs : (if single_comm k then move_loop (map snd new) cs else map EEpr (map snd new) ++ corr_list (map snd new) cs)
                   = map EEpr (map snd new) ++ corr_list (map snd new) cs).
    { unfold single_comm. rewrite Hnv. simpl. destruct (max_q k =? 1) eqn:E1; [|reflexivity].
      apply Nat.eqb_eq in E1. unfold budget in Hb. rewrite Hnv in Hb.
      destruct new as [|[h v] [|p new']]; simpl in *; try lia.
      assert (v < length (active s) + n) by (apply Hbd; left; reflexivity).
      replace v with 0 by lia. rewrite app_nil_r. reflexivity. }
    rewrite Hevs.
    destruct (G0_epr_list k new (active s) c1 HG) as [c2 [O2 HG2]].
    + exact Hnd.
    + exact Hdis.
    + intros v Hv. apply Hbd in Hv. lia.
    + assert (H0in : In 0 (map snd (active s ++ new))).
      { rewrite map_app, in_app_iff. exact Hz. }
      exists c2. split.
      * eapply Ext_trans; [exact HE|]. exists (map EEpr (map snd new) ++ corr_list (map snd new) cs). split.
        -- rewrite emit_None by exact Hln. rewrite Hp. reflexivity.
        -- eapply ok_app; [exact O2 | eapply corr_list_ok; eassumption].
      * split; [exact HH1|]. split; [unfold Rel; simpl; rewrite Ha; exact HG2|].
        simpl. rewrite Ha, app_length. lia.
Qed.

(* sequential keep whose post routine measures: every pair passes through one ID *)
Lemma add_handles_spec : forall n s v, exists new,
  active (add_handles s v n) = active s ++ new /\ length new = n /\
  next_h (add_handles s v n) = next_h s + n /\ pending (add_handles s v n) = pending s /\
  last_new (add_handles s v n) = last_new s.
Proof.
  induction n as [|n IH]; intros s v; simpl.
  - exists []. rewrite app_nil_r, Nat.add_0_r. auto.
  - destruct (IH (add_handle s v) v) as [new [Ha [Hl [Hn [Hp Hln]]]]].
    exists ((next_h s, v) :: new). rewrite Ha, Hn, Hp, Hln. unfold add_handle. simpl.
    rewrite <- app_assoc. simpl. split; [reflexivity|]. split; [lia|]. split; [lia|]. split; reflexivity.
Qed.

Lemma handles_length : forall s, length (handles s) = length (active s).
Proof. intros. unfold handles. apply map_length. Qed.

(* n pairs through the one ID v, from a committed state whose active IDs do not contain v *)
Lemma seq_core : forall k s0 c0 v n cs b, last_new s0 = None -> G0 k (active s0) c0 ->
  ~ In v (ids s0) -> v < max_q k -> (keeps b = true -> n = 1) ->
  let evs := pair_loop (repeat v n) cs b in
  let s2 := emit (add_handles s0 v n) evs in
  let a' := if keeps b then active s2 else drop_last_handles n (active s2) in
  exists c', ok c0 evs c' /\ pending s2 = pending s0 ++ evs /\ G0 k a' c' /\
    map fst a' = handles s0 ++ (if keeps b then [next_h s0] else []) /\
    next_h s2 = next_h s0 + n /\ last_new s2 = None.
Proof.
  intros k s0 c0 v n cs b HL HG Hv Hlt Hk. cbv zeta.
  destruct (add_handles_spec n s0 v) as [new [Ha [Hl [Hnh [Hp Hln]]]]].
  assert (Hpend : pending (emit (add_handles s0 v n) (pair_loop (repeat v n) cs b))
                  = pending s0 ++ pair_loop (repeat v n) cs b).
  { rewrite emit_None by (rewrite Hln; exact HL). rewrite Hp. reflexivity. }
  destruct b as [u|]; simpl keeps; cbv iota.
  - exists c0. split.
    + apply pair_loop_consume_ok. intros x Hx. apply repeat_spec in Hx. subst x.
      destruct HG as [Hcap _ _ Hs _]. split; [intros H; apply Hv; apply Hs; exact H | rewrite Hcap; exact Hlt].
    + split; [exact Hpend|]. simpl. rewrite Ha, (drop_last_app _ _ _ Hl).
      split; [exact HG|]. split; [rewrite app_nil_r; reflexivity|]. split; [exact Hnh | reflexivity].
  - specialize (Hk eq_refl). subst n. simpl in *.
    destruct (pair_loop_keep_ok k [(next_h s0, v)] cs (active s0) c0 HG) as [c' [O HG']].
    + simpl. constructor; [intros [] | constructor].
    + simpl. intros x [<-|[]]. exact Hv.
    + simpl. intros x [<-|[]]. exact Hlt.
    + exists c'. split; [exact O|]. split; [exact Hpend|]. split; [exact HG'|].
      split; [rewrite map_app; reflexivity|]. split; [lia | reflexivity].
Qed.

Lemma seq_run_ok : forall k s c n zero cs b, Good k s c -> 1 <= n -> length (active s) + 1 <= budget k ->
  (zero = true -> single_comm k = true) -> (keeps b = true -> n = 1) ->
  exists s' c', seq_run k s n zero cs b = inl s' /\ Ext s c s' c' /\ G0 k (active s') c' /\ last_new s' = None /\
    handles s' = handles s ++ (if keeps b then [next_h s] else []) /\ next_h s' = next_h s + n.
Proof.
  intros k s c n zero cs b HGood Hn Hb Hz Hk. pose proof (budget_le k) as Hbl.
  unfold seq_run, seq_handles. destruct (nv k) eqn:Hnv.
  - destruct (free_up0_ok k s c HGood (Good_room _ _ _ HGood Hnv)) as [s1 [c1 [E1 [HE1 [HG1 [H01 [Hh1 [Hn1 _]]]]]]]].
    rewrite E1. destruct HG1 as [HH1 [HR1 Hlen1]].
    destruct (commit_G0 _ _ _ HR1) as [c2 [HE2 HG2]].
    assert (Hu : (if zero then 0 else 0) = 0) by (destruct zero; reflexivity). rewrite Hu.
    assert (Hlt : 0 < max_q k) by (rewrite (budget_nv k Hnv) in Hb; lia).
    destruct (seq_core k (commit s1) c2 0 n cs b eq_refl HG2 H01 Hlt Hk) as [c' [O [Hp [HG' [Hh [Hnh HL]]]]]].
    eexists. exists c'. split; [reflexivity|]. split.
    + eapply Ext_trans; [exact HE1|]. eapply Ext_trans; [exact HE2|]. eexists. split; [exact Hp | exact O].
    + cbn [active last_new next_h]. split; [exact HG'|]. split; [exact HL|]. split; [|cbn [next_h commit] in Hnh; lia].
      unfold handles at 1. cbn [active]. rewrite Hh. change (handles (commit s1)) with (handles s1).
      change (next_h (commit s1)) with (next_h s1). rewrite Hh1, Hn1. reflexivity.
  - destruct HGood as [HH [HR Hlen]].
    destruct (new_id_spec (ids s)) as [v [Ev [Hv [_ Hle]]]]. rewrite Ev.
    destruct (commit_G0 _ _ _ HR) as [c1 [HE HG]].
    unfold ids in Hle. rewrite map_length in Hle.
    assert (Hu : (if zero then 0 else v) = v).
    { destruct zero; [|reflexivity]. specialize (Hz eq_refl). unfold single_comm in Hz. rewrite Hnv in Hz. simpl in Hz.
      apply Nat.eqb_eq in Hz. unfold budget in Hb. rewrite Hnv in Hb. lia. }
    rewrite Hu.
    assert (Hlt : v < max_q k) by lia.
    destruct (seq_core k (commit s) c1 v n cs b eq_refl HG Hv Hlt Hk) as [c' [O [Hp [HG' [Hh [Hnh HL]]]]]].
    eexists. exists c'. split; [reflexivity|]. split.
    + eapply Ext_trans; [exact HE|]. eexists. split; [exact Hp | exact O].
    + cbn [active last_new next_h]. split; [exact HG'|]. split; [exact HL|]. split; [|cbn [next_h commit] in Hnh; lia].
      unfold handles at 1. cbn [active]. rewrite Hh. reflexivity.
Qed.

(* handles of a state produced by seq_run still form a valid handle table *)
Lemma seq_H0 : forall s hs nh n (kp : bool), H0 s -> 1 <= n ->
  hs = handles s ++ (if kp then [next_h s] else []) -> next_h s + (if kp then 1 else 0) <= nh ->
  NoDup hs /\ forall h, In h hs -> h < nh.
Proof.
  intros s hs nh n kp [A B] Hn -> Hnh. destruct kp.
  - split; [apply NoDup_snoc; [exact A | intros H; apply B in H; lia]|].
    intros h. rewrite in_app_iff. simpl. intros [H|[H|[]]]; [apply B in H; lia | lia].
  - rewrite app_nil_r. split; [exact A|]. intros h H. apply B in H. lia.
Qed.

(* several communication qubits, every pair delivered into its own ID and handled there *)
Lemma own_ids_ok : forall k s c n cs b, Good k s c -> nv k = false -> 1 <= n -> length (active s) + n <= budget k ->
  exists s1 vs c', ent_handles k s n = inl (s1, vs) /\
    Ext s c (emit s1 (pair_loop vs cs b)) c' /\ H0 s1 /\ last_new s1 = None /\
    (if keeps b then G0 k (active s1) c' /\ length (active s1) = length (active s) + n
     else G0 k (active s) c' /\ drop_last_handles n (active s1) = active s) /\
    (forall h, In h (handles s) -> In h (handles s1)).
Proof.
  intros k s c n cs b HGood Hnv Hn Hb. pose proof (budget_le k) as Hbl.
  destruct (generic_handles k s c n HGood Hnv Hn Hb)
    as [c1 [s1 [vs [new [HE [HG [E [Ha [Hv [Hl [Hp [Hln [HH1 [Hnd [Hdis [Hbd _]]]]]]]]]]]]]]]].
  assert (Hpend : pending (emit s1 (pair_loop vs cs b)) = pending (commit s) ++ pair_loop vs cs b).
  { rewrite emit_None by exact Hln. rewrite Hp. reflexivity. }
  assert (Hsub : forall h, In h (handles s) -> In h (handles s1)).
  { intros h Hh. unfold handles. rewrite Ha, map_app, in_app_iff. left. exact Hh. }
  exists s1, vs. destruct b as [u|]; simpl keeps; cbv iota.
  - exists c1. split; [exact E|]. split.
    + eapply Ext_trans; [exact HE|]. exists (pair_loop vs cs (BConsume u)). split; [exact Hpend|].
      apply pair_loop_consume_ok. intros v Hvin. destruct HG as [Hcap _ _ Hs _]. split.
      * intros H. apply (Hdis v Hvin). apply Hs. exact H.
      * rewrite Hcap. apply Hbd in Hvin. lia.
    + split; [exact HH1|]. split; [exact Hln|]. split; [|exact Hsub].
      split; [exact HG | rewrite Ha; apply drop_last_app; exact Hl].
  - subst vs. destruct (pair_loop_keep_ok k new cs (active s) c1 HG Hnd Hdis) as [c2 [O2 HG2]].
    + intros v Hvin. apply Hbd in Hvin. lia.
    + exists c2. split; [exact E|]. split.
      * eapply Ext_trans; [exact HE|]. exists (pair_loop (map snd new) cs BKeep). split; [exact Hpend | exact O2].
      * split; [exact HH1|]. split; [exact Hln|]. split; [|exact Hsub].
        split; [rewrite Ha; exact HG2 | rewrite Ha, app_length; lia].
Qed.

Lemma step_seq : forall k s c n r (sq : bool) np b, Good k s c -> 1 <= n ->
  length (active s) + (if sq then 1 else n) <= budget k ->
  (keeps b = true -> n = 1 \/ (sq = false /\ single_comm k = false)) -> StepOK k s c (EprKeepSeq n r sq np b).
Proof.
  intros k s c n r sq np b HGood Hn Hb Hk. pose proof (budget_le k) as Hbl. unfold StepOK. simpl.
  destruct (n =? 0) eqn:En0; [apply Nat.eqb_eq in En0; lia|].
  assert (Erej : negb sq && (max_q k <? n) = false).
  { destruct sq; [reflexivity|]. simpl. apply Nat.ltb_ge. lia. }
  rewrite Erej.
  destruct (sq || single_comm k) eqn:Eone.
  - assert (Hb1 : length (active s) + 1 <= budget k) by (destruct sq; lia).
    assert (Hk1 : keeps b = true -> n = 1).
    { intros H. destruct (Hk H) as [H1|[H1 H2]]; [exact H1|]. rewrite H1, H2 in Eone. discriminate. }
    destruct (seq_run_ok k s c n (single_comm k) (if r then np else []) b HGood Hn Hb1 (fun H => H) Hk1)
      as [s1 [c1 [E [HE [HG [HL [Hh Hnh]]]]]]].
    rewrite E. split; [intros e He; discriminate|]. intros s' He. inversion He; subst s'. clear He.
    exists c1. split; [exact HE|]. destruct HGood as [HH [_ Hlen]]. split; [|split].
    + unfold H0. rewrite Hnh. apply (seq_H0 s (handles s1) (next_h s + n) n (keeps b) HH Hn Hh).
      destruct (keeps b); lia.
    + unfold Rel. rewrite HL. exact HG.
    + rewrite <- handles_length, Hh, app_length, handles_length. destruct (keeps b); simpl; lia.
  - apply orb_false_iff in Eone. destruct Eone as [Esq Esc]. subst sq.
    assert (Hnv : nv k = false) by (unfold single_comm in Esc; apply orb_false_iff in Esc; tauto).
    destruct (own_ids_ok k s c n (if r then np else []) b HGood Hnv Hn Hb)
      as [s1 [vs [c' [E [HE [HH1 [HL1 [Hcase Hsub]]]]]]]].
    rewrite E. split; [intros e He; discriminate|]. intros s' He.
    destruct (emit_active s1 (pair_loop vs (if r then np else []) b)) as [Ea [En Eln]].
    destruct HGood as [[A B] [_ Hlen]]. destruct HH1 as [A1 B1].
    destruct (keeps b); inversion He; subst s'; clear He.
    + destruct Hcase as [HG Hl]. exists c'. split; [exact HE|]. split; [|split].
      * unfold H0, handles. rewrite ?Ea, ?En. split; assumption.
      * unfold Rel. rewrite ?Eln, ?Ea. simpl. exact HG.
      * rewrite ?Ea, Hl. exact Hb.
    + destruct Hcase as [HG Hd]. exists c'. split.
      * destruct HE as [evs [Hp Ho]]. exists evs. split; [exact Hp | exact Ho].
      * split; [|split].
        -- unfold H0, handles. cbn [active next_h]. rewrite ?Ea, ?En, Hd. split; [exact A|].
           intros h Hh. apply B1. apply Hsub. exact Hh.
        -- unfold Rel. cbn [last_new active]. rewrite ?Eln, ?Ea, Hd. simpl. exact HG.
        -- cbn [active]. rewrite ?Ea, Hd. exact Hlen.
Qed.

Lemma step_ctx : forall k s c n r b, Good k s c -> 1 <= n -> length (active s) + n <= budget k ->
  (keeps b = true -> single_comm k = true -> n = 1) -> StepOK k s c (EprContext n r b).
Proof.
  intros k s c n r b HGood Hn Hb Hk. pose proof (budget_le k) as Hbl. unfold StepOK. simpl.
  destruct (n =? 0) eqn:En0; [apply Nat.eqb_eq in En0; lia|].
  destruct (max_q k <? n) eqn:Enq; [apply Nat.ltb_lt in Enq; lia|].
  destruct (single_comm k) eqn:Hsc.
  - (* one communication qubit: all pairs through one ID *)
    assert (Hb1 : length (active s) + 1 <= budget k) by lia.
    destruct (seq_run_ok k s c n false [] b HGood Hn Hb1) as [s1 [c1 [E [HE [HG [HL [Hh Hnh]]]]]]];
      [discriminate | intros H; apply Hk; [exact H | reflexivity] |].
    rewrite E. split; [intros e He; discriminate|]. intros s' He. inversion He; subst s'. clear He.
    exists c1. split; [destruct HE as [evs [Hp Ho]]; exists evs; split; [exact Hp | exact Ho]|].
    destruct HGood as [HH [_ Hlen]]. split; [|split].
    + unfold H0. simpl. change (map fst (active s1)) with (handles s1).
      apply (seq_H0 s (handles s1) _ n (keeps b) HH Hn Hh). destruct (keeps b); lia.
    + unfold Rel. simpl. rewrite HL. exact HG.
    + simpl. rewrite <- handles_length, Hh, app_length, handles_length.
      destruct (keeps b); simpl; lia.
  - assert (Hnv : nv k = false).
    { unfold single_comm in Hsc. apply orb_false_iff in Hsc. tauto. }
    destruct (own_ids_ok k s c n [] b HGood Hnv Hn Hb) as [s1 [vs [c' [E [HE [HH1 [HL1 [Hcase Hsub]]]]]]]].
    rewrite E. split; [intros e He; discriminate|]. intros s' He.
    destruct (emit_active s1 (pair_loop vs [] b)) as [Ea [En Eln]].
    destruct HGood as [[A B] [_ Hlen]]. destruct HH1 as [A1 B1].
    destruct (keeps b); inversion He; subst s'; clear He.
    + destruct Hcase as [HG Hl]. exists c'. split; [exact HE|]. split; [|split].
      * unfold H0, handles. rewrite ?Ea, ?En. split; assumption.
      * unfold Rel. rewrite ?Eln, ?Ea. simpl. exact HG.
      * rewrite ?Ea, Hl. exact Hb.
    + destruct Hcase as [HG Hd]. exists c'. split.
      * destruct HE as [evs [Hp Ho]]. exists evs. split; [exact Hp | exact Ho].
      * split; [|split].
        -- unfold H0, handles. cbn [active next_h]. rewrite ?Ea, Hd. split; assumption.
        -- unfold Rel. cbn [last_new active]. rewrite ?Eln, ?Ea, Hd. simpl. exact HG.
        -- cbn [active]. rewrite ?Ea, Hd. exact Hlen.
Qed.

(* ------------------------------------------------------------------ any program *)
Lemma step_ok : forall k s c o, Good k s c -> in_budget k s o = true ->
  o <> Flush -> StepOK k s c o.
Proof.
  intros k s c o HG Hb Hne.
  destruct o; cbn [in_budget] in Hb.
  - apply step_new; [exact HG | apply Nat.leb_le; exact Hb].
  - apply step_gate1; assumption.
  - apply andb_true_iff in Hb. destruct Hb as [Hb _]. apply andb_true_iff in Hb. destruct Hb as [H1 H2].
    apply step_gate2; assumption.
  - apply step_mi; assumption.
  - apply step_md; assumption.
  - apply step_free; assumption.
  - apply andb_true_iff in Hb. destruct Hb as [Hb H3]. apply andb_true_iff in Hb. destruct Hb as [H1 H2].
    apply Nat.leb_le in H1, H2. apply step_keep; try assumption.
    intros ->. simpl in H3. apply Nat.eqb_eq. exact H3.
  - apply andb_true_iff in Hb. destruct Hb as [Hb H3]. apply andb_true_iff in Hb. destruct Hb as [H1 H2].
    apply Nat.leb_le in H1, H2. apply step_ctx; try assumption.
    intros Hkp Hsc. rewrite Hkp, Hsc in H3. simpl in H3. apply Nat.eqb_eq. exact H3.
  - apply andb_true_iff in Hb. destruct Hb as [Hb H3]. apply andb_true_iff in Hb. destruct Hb as [H1 H2].
    apply Nat.leb_le in H1. apply step_seq; try assumption.
    + destruct sq; apply Nat.leb_le in H2; exact H2.
    + intros Hkp. rewrite Hkp in H3. simpl in H3. apply orb_true_iff in H3. destruct H3 as [H3|H3].
      * left. apply Nat.eqb_eq. exact H3.
      * right. apply andb_true_iff in H3. destruct H3 as [Ha Hc]. apply negb_true_iff in Ha, Hc. split; assumption.
  - congruence.
Qed.

Definition Agree (k : cfg) (s : sdk) (c : ctrl) : Prop :=
  Permutation (ids s) (allocated c) /\ NoDup (ids s) /\ length (ids s) <= budget k.

(* invariant between flushes: the pending commands will run without fault and
   lead to a controller state that agrees with the SDK's bookkeeping *)
Definition Inv (k : cfg) (s : sdk) (c : ctrl) : Prop := exists c0, ok c (pending s) c0 /\ Good k s c0.

Lemma G0_Agree : forall k s c, G0 k (active s) c -> length (active s) <= budget k -> Agree k s c.
Proof.
  intros k s c [Hcap Hndi Hnda Hs Hlt] Hlen. unfold Agree, ids. split; [|split; [exact Hndi|rewrite map_length; exact Hlen]].
  apply NoDup_Permutation; [exact Hndi | unfold allocated; apply NoDup_filter; apply seq_NoDup|].
  intros x. unfold allocated. rewrite filter_In, in_seq, mem_In. specialize (Hs x). split.
  - intros H. split; [|apply Hs; exact H]. rewrite Hcap. specialize (Hlt x H). lia.
  - intros [_ H]. apply Hs. exact H.
Qed.

Lemma allocated_nil : forall n, allocated (mkCtrl [] n) = [].
Proof.
  intros n. unfold allocated. simpl. induction (seq 0 n) as [|x r IH]; [reflexivity | simpl; exact IH].
Qed.

Theorem agree_init : forall k, Agree k init_sdk (init_ctrl k) /\ Inv k init_sdk (init_ctrl k).
Proof.
  intros k. assert (HG : G0 k [] (init_ctrl k)).
  { constructor; simpl; [reflexivity | constructor | constructor | intros v; simpl; tauto | intros v []]. }
  split.
  - apply G0_Agree; [exact HG | simpl; lia].
  - exists (init_ctrl k). split; [apply ok_nil|]. split; [|split; [exact HG | simpl; lia]].
    split; [constructor | intros h []].
Qed.

Lemma flush_ok : forall k s c, Inv k s c ->
  exists c', exec_events c (all_pending s) = (c', all_pending s, None) /\ Agree k s c' /\ Inv k (after_flush s) c'.
Proof.
  intros k s c [c0 [O0 [HH [HR Hlen]]]].
  destruct (commit_G0 _ _ _ HR) as [c1 [[evs [Hp O1]] HG]].
  exists c1. split; [|split].
  - unfold commit in Hp. simpl in Hp. unfold all_pending in Hp. apply app_inv_head in Hp. subst evs.
    unfold all_pending. eapply ok_app; eassumption.
  - apply G0_Agree; assumption.
  - exists c1. split; [apply ok_nil|]. split; [exact HH|]. split; [exact HG | exact Hlen].
Qed.

Theorem agree_step : forall k s c o, Inv k s c -> in_budget k s o = true ->
  match o with
  | Flush => exists c', exec_events c (all_pending s) = (c', all_pending s, None) /\
                        Agree k s c' /\ Inv k (after_flush s) c'
  | _ => (forall e, sdk_step k s o <> inr e) /\
         (forall s', sdk_step k s o = inl s' -> Inv k s' c /\ NoDup (ids s') /\ length (ids s') <= budget k)
  end.
Proof.
  intros k s c o HI Hb.
  assert (Hnf : o <> Flush ->
     (forall e, sdk_step k s o <> inr e) /\
     (forall s', sdk_step k s o = inl s' -> Inv k s' c /\ NoDup (ids s') /\ length (ids s') <= budget k)).
  { intros Hne. destruct HI as [c0 [O0 HG]]. destruct (step_ok k s c0 o HG Hb Hne) as [He Hs].
    split; [exact He|]. intros s' E. destruct (Hs s' E) as [c' [[evs [Hp O1]] HG']].
    split; [|split].
    - exists c'. split; [rewrite Hp; eapply ok_app; eassumption | exact HG'].
    - destruct HG' as [_ [HR _]]. eapply Rel_ndi. exact HR.
    - destruct HG' as [_ [_ Hl]]. unfold ids. rewrite map_length. exact Hl. }
  destruct o; try (apply Hnf; discriminate). apply flush_ok. exact HI.
Qed.

Definition good_obs (k : cfg) (o : obs) : Prop :=
  match o with
  | OStep i => NoDup i /\ length i <= budget k
  | OFlush i _ a None => Permutation i a /\ NoDup i /\ length i <= budget k
  | OFlush _ _ _ (Some _) => False
  | OReject => False      (* a program within the budget is never refused *)
  | OModelErr => False
  end.

Lemma run_nonflush : forall k s c o r, o <> Flush ->
  run k s c (o :: r) = match sdk_step k s o with
                       | inl s' => OStep (ids s') :: run k s' c r
                       | inr ErrReject => [OReject]
                       | inr _ => [OModelErr]
                       end.
Proof. intros k s c o r H. destruct o; try reflexivity. congruence. Qed.

Lemma always_nonflush : forall P k s o r, o <> Flush ->
  always P k s (o :: r) = P k s o && match sdk_step k s o with inl s' => always P k s' r | inr _ => true end.
Proof. intros P k s o r H. destruct o; try reflexivity. congruence. Qed.

Lemma op_eq_flush : forall o : op, {o = Flush} + {o <> Flush}.
Proof. intros o. destruct o; try (right; discriminate). left. reflexivity. Qed.

Theorem run_good : forall k ops s c, Inv k s c ->
  always in_budget k s ops = true ->
  Forall (good_obs k) (run k s c ops).
Proof.
  intros k ops. induction ops as [|o r IH]; intros s c HI Hb; [constructor|].
  destruct (op_eq_flush o) as [->|Hne].
  - simpl in Hb. destruct (flush_ok k s c HI) as [c' [E [[HP [Hnd Hl]] HI']]].
    simpl. rewrite E. constructor.
    + simpl. auto.
    + apply IH; [exact HI' | exact Hb].
  - rewrite always_nonflush in Hb by exact Hne.
    apply andb_true_iff in Hb. destruct Hb as [Hb1 Hb2].
    pose proof (agree_step k s c o HI Hb1) as HS.
    assert (HS' : (forall e, sdk_step k s o <> inr e) /\
       (forall s', sdk_step k s o = inl s' -> Inv k s' c /\ NoDup (ids s') /\ length (ids s') <= budget k)).
    { destruct o; try exact HS. congruence. }
    clear HS. destruct HS' as [He Hs]. rewrite run_nonflush by exact Hne.
    destruct (sdk_step k s o) as [s'|e] eqn:E.
    + destruct (Hs s' eq_refl) as [HI' [Hnd Hl]]. constructor; [simpl; auto|].
      apply IH; assumption.
    + exfalso. exact (He e eq_refl).
Qed.

(* ------------------------------------------------------------------ the statements of C09 *)
Theorem agree_reachable : forall k ops, within_budget k ops ->
  Forall (good_obs k) (run0 k ops).
Proof.
  intros k ops Hb. unfold run0. apply run_good; [apply agree_init | exact Hb].
Qed.

Definition is_fault (o : obs) : Prop :=
  match o with
  | OFlush _ _ _ (Some _) => True
  | OModelErr => True
  | OReject => True
  | _ => False
  end.

Theorem no_alloc_fault : forall k ops, within_budget k ops ->
  forall o, In o (run0 k ops) -> ~ is_fault o.
Proof.
  intros k ops Hb o Hin Hflt. pose proof (agree_reachable k ops Hb) as HF.
  rewrite Forall_forall in HF. specialize (HF o Hin). destruct o as [i|i t a [f|]| |]; simpl in *; contradiction.
Qed.

(* a handle that was measured destructively or freed gives its ID back: the ID is
   unused afterwards and the next new_qubit_id is the lowest unused one, hence at
   most that ID (exactly that ID when every lower ID is in use) *)
Theorem ids_reused : forall k s c h v o s', Good k s c -> id_of h (active s) = Some v ->
  o = Free h \/ o = MeasureDestructive h -> sdk_step k s o = inl s' ->
  ~ In v (ids s') /\ exists w, new_id (ids s') = Some w /\ w <= v /\ ((forall u, u < v -> In u (ids s')) -> w = v).
Proof.
  intros k s c h v o s' HG Hid Ho E.
  assert (Hnot : ~ In v (ids s')).
  { destruct Ho as [-> | ->]; simpl in E; rewrite Hid in E.
    - inversion E; subst. clear E. unfold ids. simpl.
      destruct HG as [_ [HR _]]. pose proof (Rel_ndi _ _ _ HR) as Hnd. unfold ids in Hnd.
      destruct (id_of_split _ _ _ Hid) as [a1 [a2 [Ha Hd]]]. rewrite Hd. rewrite Ha, map_app in Hnd. simpl in Hnd.
      rewrite map_app. apply (NoDup_remove_2 _ _ _ Hnd).
    - destruct (pre_measure_ok k s c h v HG Hid) as [s1 [c1 [E1 [_ [HG1 Hid1]]]]]. rewrite E1 in E.
      inversion E; subst. clear E. unfold ids. simpl.
      destruct HG1 as [_ [HR _]]. pose proof (Rel_ndi _ _ _ HR) as Hnd. unfold ids in Hnd.
      destruct (id_of_split _ _ _ Hid1) as [a1 [a2 [Ha Hd]]]. rewrite Hd. rewrite Ha, map_app in Hnd. simpl in Hnd.
      rewrite map_app. apply (NoDup_remove_2 _ _ _ Hnd). }
  split; [exact Hnot|].
  destruct (new_id_spec (ids s')) as [w [Ew [Hw [Hbelow _]]]]. exists w. split; [exact Ew|].
  assert (Hle : w <= v).
  { destruct (le_lt_dec w v) as [H|H]; [exact H|]. exfalso. apply Hnot. apply Hbelow. exact H. }
  split; [exact Hle|]. intros Hall. destruct (Nat.eq_dec w v) as [H|H]; [exact H|].
  exfalso. apply Hw. apply Hall. lia.
Qed.

(* NV: before a measurement of a qubit that is not at ID 0, and before every EPR
   operation, the qubit occupying ID 0 is moved to an unused ID; no other handle
   changes its ID and the bookkeeping stays consistent *)
Theorem nv_relocation_frees_id0 : forall k s c, Good k s c -> nv k = true ->
  exists s' c', free_up0 s = inl s' /\ Ext s c s' c' /\ Good k s' c' /\ ~ In 0 (ids s') /\
    handles s' = handles s /\
    (forall h v, id_of h (active s) = Some v -> v <> 0 -> id_of h (active s') = Some v).
Proof.
  intros k s c HG Hnv.
  destruct (free_up0_ok k s c HG (Good_room _ _ _ HG Hnv)) as [s' [c' [E [HE [HG' [H0' [Hh [_ [_ Hid]]]]]]]]].
  exists s', c'. split; [exact E|]. split; [exact HE|]. split; [exact HG'|]. split; [exact H0'|]. split; [exact Hh | exact Hid].
Qed.

Theorem no_alloc_fault_b : forall k ops, within_budget k ops ->
  has_fault (run0 k ops) = false.
Proof.
  intros k ops Hb. unfold has_fault. destruct (existsb is_faultb (run0 k ops)) eqn:E; [|reflexivity].
  exfalso. apply existsb_exists in E. destruct E as [o [Hin Ho]].
  apply (no_alloc_fault k ops Hb o Hin). destruct o as [i|i t a [f|]| |]; simpl in *; try discriminate; exact I.
Qed.
