(* Bridge_AsmQLog.v — the bridge AsmSemQ -> SemQ WITHOUT the "defined domain"
   hypothesis: a halting AsmSemQ run of an assembled program whose executed
   instructions (C03's instrumented log Lang/AsmQLog.v: mnemonic + operand values
   in the state before) are not [bad] is reproduced by SemQ.qrun, which halts in
   a related state.  [bad] marks exactly the executions the common semantics
   leaves open: a register outside the register file, a negative array index /
   array length / virtual qubit id, a conditional branch on an undefined register. *)
From Coq Require Import ZArith List Bool String Lia ZifyBool.
From NQ Require Import Lang.Asm Lang.AsmSem Lang.AsmSemQ Lang.AsmQLog.
From NQ Require Import Exec.State Exec.Sem Exec.SemQ Proofs.ExecProofs Proofs.BridgeCommon Proofs.SemQProofs.
From NQ Require Import Proofs.Bridge_Asm Proofs.Bridge_AsmQ.
From NQ Require Proofs.AsmQProofs.
Import ListNotations.
Open Scope Z_scope.

(* ------------------------------------------------------------------ bad executions *)
Definition ov_none (o : AsmQLog.oval) : bool :=
  match o with
  | OVal None | OEnt _ None => true
  | OSli _ x y => match x, y with None, _ | _, None => true | _, _ => false end
  | _ => false
  end.
Definition ov_undef (o : AsmQLog.oval) : bool := match o with OVal (Some None) => true | _ => false end.
Definition ov_neg (o : AsmQLog.oval) : bool :=
  match o with OVal (Some (Some z)) | OEnt _ (Some (Some z)) => z <? 0 | _ => false end.

Definition bad (mn : string) (vs : list AsmQLog.oval) : bool :=
  match opc_of mn with
  | Xset => false                       (* inserted sets must never be bad (C03's export) *)
  | Xload | Xstore => existsb ov_none vs || match vs with [_; e] => ov_neg e | _ => false end
  | Xundef => existsb ov_none vs || match vs with [e] => ov_neg e | _ => false end
  | Xarray => existsb ov_none vs || match vs with [n; _] => ov_neg n | _ => false end
  | Xbez | Xbnz => existsb ov_none vs || match vs with [x; _] => ov_undef x | _ => false end
  | Xbeq | Xbne | Xblt | Xbge =>
      existsb ov_none vs || match vs with [x; y; _] => ov_undef x || ov_undef y | _ => false end
  | Xother =>
      existsb ov_none vs ||
      match qkind_of mn with
      | QKalloc | QKfree => match vs with [q] => ov_neg q | _ => false end
      | _ => false
      end
  | _ => existsb ov_none vs
  end.

Lemma bad_set : forall vs, bad SET vs = false.
Proof. reflexivity. Qed.

(* the three tests are monotone along C03's operand relation (a label may have
   become a line number, which is a defined non-negative value) *)
Section Mono.
  Variables (pr : aparams) (P : list acmd).
  Lemma ov_none_rel : forall a b, oval_rel pr P a b -> ov_none b = true -> ov_none a = true.
  Proof.
    intros a b [->|[l [-> H]]] Hb; [exact Hb|].
    destruct (label_pos P l); subst b; discriminate.
  Qed.
  Lemma ov_undef_rel : forall a b, oval_rel pr P a b -> ov_undef b = true -> ov_undef a = true.
  Proof.
    intros a b [->|[l [-> H]]] Hb; [exact Hb|].
    destruct (label_pos P l); subst b; discriminate.
  Qed.
  Lemma ov_neg_rel : forall a b, oval_rel pr P a b -> ov_neg b = true -> ov_neg a = true.
  Proof.
    intros a b [->|[l [-> H]]] Hb; [exact Hb|].
    destruct (label_pos P l); subst b; cbn in Hb; [lia|discriminate].
  Qed.
  Lemma existsb_none_rel : forall vs vs', Forall2 (oval_rel pr P) vs vs' ->
    existsb ov_none vs' = true -> existsb ov_none vs = true.
  Proof.
    intros vs vs' H. induction H as [|a b vs vs' Hab H IH]; cbn; [auto|].
    intro E. apply orb_prop in E. destruct E as [E|E]; [rewrite (ov_none_rel _ _ Hab E); reflexivity|].
    rewrite (IH E). apply orb_true_r.
  Qed.

  Ltac f2inv H :=
    repeat match type of H with
           | Forall2 _ _ [] => inversion H; subst; clear H
           | Forall2 _ _ (_ :: _) => let H1 := fresh "R" in let H2 := fresh "F" in
                                     inversion H as [|? ? ? ? H1 H2]; subst; clear H; rename H2 into H
           end.

  Lemma bad_mono : forall mn vs vs', Forall2 (oval_rel pr P) vs vs' -> bad mn vs' = true -> bad mn vs = true.
  Proof.
    intros mn vs vs' F. unfold bad. pose proof (existsb_none_rel _ _ F) as N.
    destruct (opc_of mn); try (intro; discriminate); try exact N;
      intro E; apply orb_prop in E; (destruct E as [E|E]; [rewrite (N E); reflexivity|]);
      apply orb_true_iff; right.
    - destruct vs' as [|? [|e' [|]]]; try discriminate. f2inv F. eapply ov_neg_rel; eauto.
    - destruct vs' as [|? [|e' [|]]]; try discriminate. f2inv F. eapply ov_neg_rel; eauto.
    - destruct vs' as [|e' [|]]; try discriminate. f2inv F. eapply ov_neg_rel; eauto.
    - destruct vs' as [|n' [|? [|]]]; try discriminate. f2inv F. eapply ov_neg_rel; eauto.
    - destruct vs' as [|x' [|? [|]]]; try discriminate. f2inv F. eapply ov_undef_rel; eauto.
    - destruct vs' as [|x' [|? [|]]]; try discriminate. f2inv F. eapply ov_undef_rel; eauto.
    - destruct vs' as [|x' [|y' [|? [|]]]]; try discriminate. f2inv F.
      apply orb_prop in E. apply orb_true_iff. destruct E as [E|E]; [left|right]; eapply ov_undef_rel; eauto.
    - destruct vs' as [|x' [|y' [|? [|]]]]; try discriminate. f2inv F.
      apply orb_prop in E. apply orb_true_iff. destruct E as [E|E]; [left|right]; eapply ov_undef_rel; eauto.
    - destruct vs' as [|x' [|y' [|? [|]]]]; try discriminate. f2inv F.
      apply orb_prop in E. apply orb_true_iff. destruct E as [E|E]; [left|right]; eapply ov_undef_rel; eauto.
    - destruct vs' as [|x' [|y' [|? [|]]]]; try discriminate. f2inv F.
      apply orb_prop in E. apply orb_true_iff. destruct E as [E|E]; [left|right]; eapply ov_undef_rel; eauto.
    - destruct (qkind_of mn); try discriminate;
        (destruct vs' as [|q' [|]]; try discriminate; f2inv F; eapply ov_neg_rel; eauto).
  Qed.
End Mono.

(* ------------------------------------------------------------------ when is Sem.step open? *)
Definition cneg (c : cell) : bool := match c with Some z => z <? 0 | None => false end.
Definition cundef (c : cell) : bool := match c with None => true | Some _ => false end.

(* the value conditions under which an instruction (with existing registers) is open *)
Definition vcond (i : instr) (st : state) : bool :=
  match i with
  | IArray sz _ => cneg (rd st sz)
  | ILoad _ _ ix | IStore _ _ ix | IUndef _ ix | IWaitSingle _ ix => cneg (Sem.oval st ix)
  | IBranch (BUn _ r _) => cundef (rd st r)
  | IBranch (BBin _ r0 r1 _) => cundef (rd st r0) || cundef (rd st r1)
  | IQalloc r | IQfree r => cneg (rd st r)
  | IWaitAll _ _ _ | IWaitAny _ _ _ => true
  | _ => false
  end.

Ltac dmatch_eq H :=
  repeat match type of H with
         | context [match ?x with _ => _ end] => let E := fresh "E" in destruct x eqn:E; try discriminate H
         end.

Lemma not_open_cond : forall i st pc,
  instr_regs_ok i = true -> vcond i st = false -> step i st pc <> Stop (Unspec pc).
Proof.
  intros i st pc Hok Hv H. unfold step in H. rewrite Hok in H. cbn [negb] in H. cbv zeta in H.
  destruct i as [r v|r a|sz a|r a ix|r a ix|a ix|c|b|r|a|r|r|a so eo|a so eo|a ix];
    try (destruct c); try (destruct b); cbn [vcond cneg cundef] in Hv; try discriminate Hv;
    dmatch_eq H; cbn [cneg cundef orb] in Hv; try discriminate Hv; try discriminate H; try congruence.
Qed.

(* ------------------------------------------------------------------ from "not bad" to "not open" *)
Lemma rd_ok_of_some : forall a b i k, bank_of_Z b = Some k -> AsmSem.rd a (VReg b i) <> None ->
  Sem.reg_ok (k, i) = true.
Proof.
  intros a b i k Hb H. unfold AsmSem.rd in H. rewrite (reg_ok_embed _ _ _ Hb) in H.
  destruct (Sem.reg_ok (k, i)); [reflexivity|]. exfalso. apply H. reflexivity.
Qed.

Lemma ov_none_val : forall a b i k, bank_of_Z b = Some k ->
  ov_none (OVal (AsmSem.rd a (VReg b i))) = false -> Sem.reg_ok (k, i) = true.
Proof.
  intros a b i k Hb H. eapply rd_ok_of_some; eauto. intro E. rewrite E in H. discriminate.
Qed.

Lemma ov_none_ent : forall a ad iv ix, e_ix iv = Some ix ->
  ov_none (OEnt ad (AsmSem.rd a iv)) = false -> opnd_ok ix = true.
Proof.
  intros a ad [z|b i] ix He H; cbn in He.
  - inversion He. reflexivity.
  - destruct (bank_of_Z b) as [k|] eqn:Hb; [|discriminate]. inversion He; subst ix. cbn [opnd_ok].
    eapply rd_ok_of_some; eauto. intro E. rewrite E in H. discriminate.
Qed.

Lemma ix_val : forall a s iv ix, e_ix iv = Some ix -> srel a s -> opnd_ok ix = true ->
  AsmSem.rd a iv = Some (Sem.oval s ix).
Proof.
  intros a s [z|b i] ix He R Hok; cbn in He.
  - inversion He. reflexivity.
  - destruct (bank_of_Z b) as [k|] eqn:Hb; [|discriminate]. inversion He; subst ix. cbn in Hok |- *.
    apply rd_rel; assumption.
Qed.

Ltac ereg H := let b := fresh "b" in let i := fresh "i" in let k := fresh "k" in let Hb := fresh "Hb" in
  destruct (e_reg_inv _ _ H) as (b & i & k & -> & Hb & ->); clear H.

Ltac bsplit H :=
  repeat match type of H with
         | _ || _ = false => let A := fresh "N" in let B := fresh "N" in
                             apply orb_false_elim in H; destruct H as [A B]; try bsplit A; try bsplit B
         end.

Ltac okreg Hb := eapply ov_none_val; [exact Hb|eassumption].

Section NotOpen.
  Variables (a : astate) (s : state) (pc : Z).
  Hypothesis R : srel a s.

  Lemma no_lea : forall d ad r, e_reg d = Some r ->
    existsb ov_none (map (eval_opnd a) [AV d; AAddr ad]) = false -> step (ILea r ad) s pc <> Stop (Unspec pc).
  Proof.
    intros d ad r Hd N. ereg Hd. cbn [map eval_opnd existsb] in N. bsplit N. apply not_open_cond; [|reflexivity].
    cbn [instr_regs_ok]. okreg Hb.
  Qed.

  Lemma no_op : forall o d x y rd ra rb, e_reg d = Some rd -> e_reg x = Some ra -> e_reg y = Some rb ->
    existsb ov_none (map (eval_opnd a) [AV d; AV x; AV y]) = false ->
    step (IClassical (COp o rd ra rb)) s pc <> Stop (Unspec pc).
  Proof.
    intros o d x y rd ra rb Hd Hx Hy N. ereg Hd. ereg Hx. ereg Hy. cbn [map eval_opnd existsb] in N. bsplit N.
    assert (H1 : Sem.reg_ok (k, i) = true) by okreg Hb.
    assert (H2 : Sem.reg_ok (k0, i0) = true) by okreg Hb0.
    assert (H3 : Sem.reg_ok (k1, i1) = true) by okreg Hb1.
    apply not_open_cond; [|reflexivity]. cbn [instr_regs_ok]. rewrite H1, H2, H3. reflexivity.
  Qed.

  Lemma no_opm : forall o d x y m rd ra rb rm,
    e_reg d = Some rd -> e_reg x = Some ra -> e_reg y = Some rb -> e_reg m = Some rm ->
    existsb ov_none (map (eval_opnd a) [AV d; AV x; AV y; AV m]) = false ->
    step (IClassical (COpm o rd ra rb rm)) s pc <> Stop (Unspec pc).
  Proof.
    intros o d x y m rd ra rb rm Hd Hx Hy Hm N. ereg Hd. ereg Hx. ereg Hy. ereg Hm.
    cbn [map eval_opnd existsb] in N. bsplit N.
    assert (H1 : Sem.reg_ok (k, i) = true) by okreg Hb.
    assert (H2 : Sem.reg_ok (k0, i0) = true) by okreg Hb0.
    assert (H3 : Sem.reg_ok (k1, i1) = true) by okreg Hb1.
    assert (H4 : Sem.reg_ok (k2, i2) = true) by okreg Hb2.
    apply not_open_cond; [|reflexivity]. cbn [instr_regs_ok]. rewrite H1, H2, H3, H4. reflexivity.
  Qed.

  Lemma no_entry : forall iv ix ad, e_ix iv = Some ix ->
    ov_none (OEnt ad (AsmSem.rd a iv)) = false -> ov_neg (OEnt ad (AsmSem.rd a iv)) = false ->
    opnd_ok ix = true /\ cneg (Sem.oval s ix) = false.
  Proof.
    intros iv ix ad He N1 N2. pose proof (ov_none_ent _ _ _ _ He N1) as Hok. split; [exact Hok|].
    rewrite (ix_val _ _ _ _ He R Hok) in N2. cbn in N2. destruct (Sem.oval s ix); exact N2.
  Qed.

  Ltac entry Hi :=
    match goal with
    | A : ov_none (OEnt ?ad (AsmSem.rd _ ?iv)) = false, B : ov_neg (OEnt ?ad (AsmSem.rd _ ?iv)) = false |- _ =>
        destruct (no_entry _ _ _ Hi A B) as [Hok Hv]
    end.

  Lemma no_load : forall d ad iv r ix, e_reg d = Some r -> e_ix iv = Some ix ->
    existsb ov_none (map (eval_opnd a) [AV d; AEntry ad iv]) || ov_neg (OEnt ad (AsmSem.rd a iv)) = false ->
    step (ILoad r ad ix) s pc <> Stop (Unspec pc).
  Proof.
    intros d ad iv r ix Hd Hi N. ereg Hd. cbn [map eval_opnd existsb] in N. bsplit N. entry Hi.
    assert (H1 : Sem.reg_ok (k, i) = true) by okreg Hb.
    apply not_open_cond; [|exact Hv]. cbn [instr_regs_ok]. rewrite H1, Hok. reflexivity.
  Qed.

  Lemma no_store : forall d ad iv r ix, e_reg d = Some r -> e_ix iv = Some ix ->
    existsb ov_none (map (eval_opnd a) [AV d; AEntry ad iv]) || ov_neg (OEnt ad (AsmSem.rd a iv)) = false ->
    step (IStore r ad ix) s pc <> Stop (Unspec pc).
  Proof.
    intros d ad iv r ix Hd Hi N. ereg Hd. cbn [map eval_opnd existsb] in N. bsplit N. entry Hi.
    assert (H1 : Sem.reg_ok (k, i) = true) by okreg Hb.
    apply not_open_cond; [|exact Hv]. cbn [instr_regs_ok]. rewrite H1, Hok. reflexivity.
  Qed.

  Lemma no_undef : forall ad iv ix, e_ix iv = Some ix ->
    existsb ov_none (map (eval_opnd a) [AEntry ad iv]) || ov_neg (OEnt ad (AsmSem.rd a iv)) = false ->
    step (IUndef ad ix) s pc <> Stop (Unspec pc).
  Proof.
    intros ad iv ix Hi N. cbn [map eval_opnd existsb] in N. bsplit N. entry Hi.
    apply not_open_cond; [|exact Hv]. exact Hok.
  Qed.

  Lemma val_of : forall b i k, bank_of_Z b = Some k -> Sem.reg_ok (k, i) = true ->
    AsmSem.rd a (VReg b i) = Some (Sem.rd s (k, i)).
  Proof. intros. apply rd_rel; assumption. Qed.

  Lemma no_array : forall d ad r, e_reg d = Some r ->
    existsb ov_none (map (eval_opnd a) [AV d; AAddr ad]) || ov_neg (OVal (AsmSem.rd a d)) = false ->
    step (IArray r ad) s pc <> Stop (Unspec pc).
  Proof.
    intros d ad r Hd N. ereg Hd. cbn [map eval_opnd existsb] in N. bsplit N.
    assert (H1 : Sem.reg_ok (k, i) = true) by okreg Hb.
    apply not_open_cond; [exact H1|]. cbn [vcond].
    match goal with B : ov_neg _ = false |- _ => rewrite (val_of _ _ _ Hb H1) in B; cbn in B;
      destruct (Sem.rd s (k, i)); exact B end.
  Qed.

  Lemma no_retreg : forall d r, e_reg d = Some r ->
    existsb ov_none (map (eval_opnd a) [AV d]) = false -> step (IRetReg r) s pc <> Stop (Unspec pc).
  Proof.
    intros d r Hd N. ereg Hd. cbn [map eval_opnd existsb] in N. bsplit N. apply not_open_cond; [|reflexivity].
    cbn [instr_regs_ok]. okreg Hb.
  Qed.

  Lemma no_un : forall c d t r tv, e_reg d = Some r ->
    existsb ov_none (map (eval_opnd a) [AV d; AV (VLit tv)]) || ov_undef (OVal (AsmSem.rd a d)) = false ->
    step (IBranch (BUn c r t)) s pc <> Stop (Unspec pc).
  Proof.
    intros c d t r tv Hd N. ereg Hd. cbn [map eval_opnd existsb] in N. bsplit N.
    assert (H1 : Sem.reg_ok (k, i) = true) by okreg Hb.
    apply not_open_cond; [exact H1|]. cbn [vcond].
    match goal with B : ov_undef _ = false |- _ => rewrite (val_of _ _ _ Hb H1) in B; cbn in B;
      destruct (Sem.rd s (k, i)); [reflexivity|exact B] end.
  Qed.

  Lemma no_bin : forall c d1 d2 t r1 r2 tv, e_reg d1 = Some r1 -> e_reg d2 = Some r2 ->
    existsb ov_none (map (eval_opnd a) [AV d1; AV d2; AV (VLit tv)])
      || (ov_undef (OVal (AsmSem.rd a d1)) || ov_undef (OVal (AsmSem.rd a d2))) = false ->
    step (IBranch (BBin c r1 r2 t)) s pc <> Stop (Unspec pc).
  Proof.
    intros c d1 d2 t r1 r2 tv Hd1 Hd2 N. ereg Hd1. ereg Hd2. cbn [map eval_opnd existsb] in N. bsplit N.
    assert (H1 : Sem.reg_ok (k, i) = true) by okreg Hb.
    assert (H2 : Sem.reg_ok (k0, i0) = true) by okreg Hb0.
    apply not_open_cond; [cbn [instr_regs_ok]; rewrite H1, H2; reflexivity|]. cbn [vcond].
    repeat match goal with B : ov_undef (OVal (AsmSem.rd a (VReg ?b0 ?i0))) = false |- _ =>
      first [rewrite (val_of _ _ _ Hb H1) in B | rewrite (val_of _ _ _ Hb0 H2) in B]; cbn in B end.
    destruct (Sem.rd s (k, i)); [|discriminate]. destruct (Sem.rd s (k0, i0)); [reflexivity|discriminate].
  Qed.
End NotOpen.

Lemma no_set : forall a s pc d z r, e_reg d = Some r ->
  (exists a', exec Xset [AV d; AV (VLit z)] a = ENext a') -> step (ISet r z) s pc <> Stop (Unspec pc).
Proof.
  intros a s pc d z r Hd [a' Hx]. ereg Hd. cbn [exec] in Hx. unfold AsmSem.wr in Hx.
  rewrite (reg_ok_embed _ _ _ Hb) in Hx. apply not_open_cond; [|reflexivity]. cbn [instr_regs_ok].
  destruct (Sem.reg_ok (k, i)); [reflexivity|discriminate].
Qed.

Lemma qkind_other : forall mn, match qkind_of mn with QKclassical => True | _ => opc_of mn = Xother end.
Proof. intro mn. unfold qkind_of. destruct (opc_of mn); try exact I. repeat (match goal with |- context [if ?c then _ else _] => destruct c end; try reflexivity). destruct (gate_find gate_table mn) as [[? ?]|]; reflexivity. Qed.

(* classical instructions *)
Lemma cl_not_open : forall mn ops i a s pc,
  e_ins (opc_of mn) ops = Some i -> srel a s ->
  bad mn (map (eval_opnd a) ops) = false ->
  ((exists x, exec (opc_of mn) ops a = ENext x) \/ (exists t x, exec (opc_of mn) ops a = EJump t x)) ->
  step i s pc <> Stop (Unspec pc).
Proof.
  intros mn ops i a s pc He R Hb Hx. unfold bad in Hb. unfold e_ins in He.
  destruct (opc_of mn) eqn:Eo; inv_match He; inv_ob He; inversion He; subst i; clear He;
    try (solve [ eapply no_op; eauto | eapply no_opm; eauto | eapply no_load; eauto | eapply no_store; eauto
               | eapply no_lea; eauto | eapply no_undef; eauto | eapply no_array; eauto | eapply no_un; eauto
               | eapply no_bin; eauto | eapply no_retreg; eauto | apply not_open_cond; reflexivity ]).
  (* set *)
  destruct Hx as [Hx|(t & x & Hx)]; [eapply no_set; eauto|].
  cbn [exec] in Hx. unfold next_or_fault in Hx. destruct (AsmSem.wr a _ _); discriminate.
Qed.

(* gate-like instructions: all operand registers exist *)
Lemma vals_regs_ok : forall a l vs rs, get_vals l = Some vs -> e_regs vs = Some rs ->
  existsb ov_none (map (eval_opnd a) l) = false -> forallb Sem.reg_ok rs = true.
Proof.
  intros a l. induction l as [|o l IH]; intros vs rs Hv He N; cbn in Hv.
  - inversion Hv; subst vs. cbn in He. inversion He. reflexivity.
  - destruct o as [v| | | |]; try discriminate. destruct (get_vals l) as [vs'|] eqn:Ev; [|discriminate].
    cbn in Hv. inversion Hv; subst vs. cbn in He.
    destruct (e_reg v) as [x|] eqn:Ex; [|discriminate]. destruct (e_regs vs') as [xs|] eqn:Exs; [|discriminate].
    inversion He; subst rs. cbn [map existsb eval_opnd] in N. apply orb_false_elim in N. destruct N as [N1 N2].
    cbn [forallb]. rewrite (IH vs' xs eq_refl Exs N2), andb_true_r.
    destruct (e_reg_inv _ _ Ex) as (b & i & k & -> & Hb & ->). eapply ov_none_val; eauto.
Qed.

Lemma existsb_firstn : forall (A : Type) (f : A -> bool) n l, existsb f l = false -> existsb f (firstn n l) = false.
Proof.
  intros A f n. induction n as [|n IH]; intros [|x l] H; cbn in *; try reflexivity.
  apply orb_false_elim in H. destruct H as [H1 H2]. rewrite H1, (IH _ H2). reflexivity.
Qed.

Theorem qins_not_open : forall mn ops qi qa s pc,
  e_qins mn ops = Some qi -> qrel qa s ->
  bad mn (map (eval_opnd (qa_st qa)) ops) = false ->
  ((exists x, exec_q mn ops qa = QENext x) \/ (exists t x, exec_q mn ops qa = QEJump t x)) ->
  qstep qi s pc <> QStop (Unspec pc).
Proof.
  intros mn ops qi qa s pc He (R & _) Hb Hx. unfold e_qins in He. unfold exec_q in Hx.
  pose proof (qkind_other mn) as Ko.
  destruct (qkind_of mn) as [|nq ni| | | |] eqn:Hk.
  - (* classical *)
    destruct (e_ins (opc_of mn) ops) as [i|] eqn:Ei; [|discriminate]. inversion He; subst qi.
    assert (Hs : step i (q_st s) pc <> Stop (Unspec pc)).
    { eapply cl_not_open; eauto.
      destruct (exec (opc_of mn) ops (qa_st qa)) as [x|t x| |];
        [left; eauto|right; eauto| |]; destruct Hx as [[? Hx]|(? & ? & Hx)]; discriminate. }
    intro E. cbn [qstep] in E. destruct (step i (q_st s) pc) as [st' pc'|o]; [discriminate|].
    inversion E; subst o. apply Hs. reflexivity.
  - (* gate *)
    unfold bad in Hb. rewrite Ko, Hk in Hb. rewrite orb_false_r in Hb.
    destruct (Nat.eqb (List.length ops) (nq + ni)); [|discriminate].
    destruct (get_vals (firstn nq ops)) as [vs|] eqn:Ev; [|discriminate].
    destruct (get_imms (skipn nq ops)) as [imms|]; [|discriminate].
    destruct (e_regs vs) as [rs|] eqn:Er; [|discriminate]. inversion He; subst qi.
    assert (Hok : forallb Sem.reg_ok rs = true).
    { eapply vals_regs_ok; eauto. rewrite <- firstn_map. apply existsb_firstn. exact Hb. }
    cbn [qstep]. rewrite Hok. cbn [negb]. destruct (rd_all (q_st s) rs); discriminate.
  - (* meas *)
    unfold bad in Hb. rewrite Ko, Hk in Hb. rewrite orb_false_r in Hb.
    destruct ops as [|[q| | | |] [|[[z|b i]| | | |] [|]]]; try discriminate.
    destruct (e_reg q) as [rq|] eqn:Eq; [|discriminate].
    destruct (e_reg (VReg b i)) as [rc|] eqn:Ec; [|discriminate]. inversion He; subst qi.
    destruct (e_reg_inv _ _ Eq) as (bq & iq & kq & -> & Hbq & ->).
    cbn [e_reg] in Ec. destruct (bank_of_Z b) as [kc|] eqn:Hbc; [|discriminate]. inversion Ec; subst rc.
    cbn [map eval_opnd existsb] in Hb. bsplit Hb.
    assert (H1 : Sem.reg_ok (kq, iq) = true) by okreg Hbq.
    assert (H2 : Sem.reg_ok (kc, i) = true) by okreg Hbc.
    cbn [qstep]. rewrite H1, H2. cbn [andb negb]. destruct (rd (q_st s) (kq, iq)); discriminate.
  - (* qalloc *)
    unfold bad in Hb. rewrite Ko, Hk in Hb.
    destruct ops as [|[q| | | |] [|]]; try discriminate.
    destruct (e_reg q) as [r|] eqn:Eq; [|discriminate]. inversion He; subst qi.
    destruct (e_reg_inv _ _ Eq) as (b & i & k & -> & Hbk & ->).
    cbn [map eval_opnd existsb] in Hb. bsplit Hb.
    assert (H1 : Sem.reg_ok (k, i) = true) by okreg Hbk.
    assert (Hs : step (IQalloc (k, i)) (q_st s) pc <> Stop (Unspec pc)).
    { apply not_open_cond; [exact H1|]. cbn [vcond].
      match goal with B : ov_neg _ = false |- _ => rewrite (val_of _ _ R _ _ _ Hbk H1) in B; cbn in B;
        destruct (rd (q_st s) (k, i)); exact B end. }
    intro E. cbn [qstep] in E. destruct (step (IQalloc (k, i)) (q_st s) pc) as [st' pc'|o]; [discriminate|].
    inversion E; subst o. apply Hs. reflexivity.
  - (* qfree *)
    unfold bad in Hb. rewrite Ko, Hk in Hb.
    destruct ops as [|[q| | | |] [|]]; try discriminate.
    destruct (e_reg q) as [r|] eqn:Eq; [|discriminate]. inversion He; subst qi.
    destruct (e_reg_inv _ _ Eq) as (b & i & k & -> & Hbk & ->).
    cbn [map eval_opnd existsb] in Hb. bsplit Hb.
    assert (H1 : Sem.reg_ok (k, i) = true) by okreg Hbk.
    assert (Hs : step (IQfree (k, i)) (q_st s) pc <> Stop (Unspec pc)).
    { apply not_open_cond; [exact H1|]. cbn [vcond].
      match goal with B : ov_neg _ = false |- _ => rewrite (val_of _ _ R _ _ _ Hbk H1) in B; cbn in B;
        destruct (rd (q_st s) (k, i)); exact B end. }
    intro E. cbn [qstep] in E. destruct (step (IQfree (k, i)) (q_st s) pc) as [st' pc'|o]; [discriminate|].
    inversion E; subst o. apply Hs. reflexivity.
  - discriminate.
Qed.

(* ------------------------------------------------------------------ programs *)
Definition log_ok (l : list xentry) : Prop := forall e, In e l -> bad (snd (fst e)) (snd e) = false.

(* THE BRIDGE without a domain hypothesis: a halting AsmSemQ run of an assembled
   program whose log has no bad entry is the run of SemQ *)
Theorem asmq_halting : forall m T p a s k t,
  e_qprog T = Some p -> qrel a s ->
  arun_q T m (QRun k a) = QHalted t -> log_ok (alog_q T m (QRun k a)) ->
  exists s' pc', qrun_from p s (Z.of_nat k) m = (s', pc', Halt) /\ qrel t s'.
Proof.
  induction m as [|m IH]; intros T p a s k t Hp R Hrun Hlog; [discriminate|].
  destruct (e_qprog_nth _ _ Hp) as [Hlen Hnth].
  assert (HZ : Zlen p = Z.of_nat (List.length T)) by (unfold Zlen; rewrite Hlen; reflexivity).
  rewrite qrun_eq. replace (Z.of_nat k <? 0) with false by lia.
  cbn [arun_q] in Hrun. cbn [alog_q] in Hlog. unfold fetch_entry in Hlog. unfold astep_q in *.
  destruct (nth_error T k) as [c|] eqn:Ec.
  - destruct (Hnth _ _ Ec) as [i [Hci Hpi]].
    destruct (e_qcmd_inv _ _ Hci) as (mn & ops & -> & Hins).
    rewrite (fetch_ins _ _ _ _ Ec) in *.
    assert (Hlt : (k < List.length T)%nat) by (apply nth_error_Some; congruence).
    replace (Zlen p <=? Z.of_nat k) with false by lia. rewrite Nat2Z.id, Hpi.
    assert (Hb : bad mn (map (eval_opnd (qa_st a)) ops) = false) by (apply (Hlog (k, mn, _)); left; reflexivity).
    assert (Htail : log_ok (alog_q T m match exec_q mn ops a with
                                        | QENext s' => QRun (S k) s'
                                        | QEJump t0 s' => match target T t0 with Some j => QRun j s' | None => QStuck k a end
                                        | QEFault => QFault k a
                                        | QEStuck => QStuck k a
                                        end)) by (intros e He; apply Hlog; right; exact He).
    destruct (exec_q mn ops a) as [a'|t0 a'| |] eqn:Ex.
    + assert (Hno : qstep i s (Z.of_nat k) <> QStop (Unspec (Z.of_nat k))).
      { eapply qins_not_open; eauto. }
      pose proof (qins_bridge _ _ _ a s (Z.of_nat k) Hins R Hno) as B. rewrite Ex in B. cbn [qstep_bridge] in B.
      destruct B as (s' & Hs & R'). rewrite Hs.
      replace (Z.of_nat k + 1) with (Z.of_nat (S k)) by lia. eapply IH; eauto.
    + assert (Hno : qstep i s (Z.of_nat k) <> QStop (Unspec (Z.of_nat k))).
      { eapply qins_not_open; eauto. }
      pose proof (qins_bridge _ _ _ a s (Z.of_nat k) Hins R Hno) as B. rewrite Ex in B. cbn [qstep_bridge] in B.
      destruct B as (z & s' & -> & Hs & R'). rewrite Hs.
      cbn [target] in Hrun, Htail. destruct (0 <=? z) eqn:Ez.
      * replace z with (Z.of_nat (Z.to_nat z)) by lia. eapply IH; eauto.
      * rewrite AsmQProofs.arun_q_terminal in Hrun by (intros; discriminate). discriminate.
    + rewrite AsmQProofs.arun_q_terminal in Hrun by (intros; discriminate). discriminate.
    + rewrite AsmQProofs.arun_q_terminal in Hrun by (intros; discriminate). discriminate.
  - rewrite (fetch_none _ _ Ec) in Hrun. rewrite arun_q_halted in Hrun. inversion Hrun; subst t.
    assert (Hge : (List.length T <= k)%nat) by (apply nth_error_None; exact Ec).
    replace (Zlen p <=? Z.of_nat k) with true by lia. eauto.
Qed.
