(* AsmQMachine.v — the output of the assembler model is in MACHINE FORM: every
   command of the assembled program is accepted by the embedding e_qprog of
   Bridge_AsmQ.v (no labels, no bracket arguments, registers of the four banks in
   every value position, literal immediates and literal branch targets), so the
   bridge AsmSemQ -> SemQ (asmq_bridge) applies to everything the assembler
   produces from a well-formed source over the modelled instructions.
   Companion: when scratch registers suffice and labels are unique the
   assembler succeeds (converse of AsmProofs.assemble_rejects). *)
From Coq Require Import ZArith List Bool String Lia FinFun.
From NQ Require Import Base.Bits Lang.Codec Lang.Asm Lang.AsmSem Lang.AsmSemQ.
From NQ Require Import Proofs.AsmProofs Proofs.AsmQProofs.
From NQ Require Import Exec.State Exec.Sem Exec.SemQ Proofs.Bridge_Asm Proofs.Bridge_AsmQ.
Import ListNotations.
Open Scope Z_scope.

(* ====================================================================== *)
(* 1. the side conditions (all decidable by computation)                  *)
(* ====================================================================== *)

(* the exemption table is EXACT on the modelled instructions: classical ones as
   AsmSem.exempt_ok says, gate immediates exempt and gate value operands NOT
   exempt, meas / qalloc / qfree operands not exempt *)
Definition qexempt_exact (ex : list (string * nat)) : bool :=
  exempt_ok ex && qexempt_ok ex
  && forallb (fun e => forallb (fun j => negb (is_exempt ex (fst e) j)) (seq 0 (fst (snd e)))) gate_table
  && negb (is_exempt ex MEAS 0) && negb (is_exempt ex MEAS 1) && negb (is_exempt ex QALLOC 0) && negb (is_exempt ex QFREE 0).

(* every instruction is one the embedding knows: a classical one other than
   wait_all, a gate-table one, meas, qalloc, qfree *)
Definition cmd_modelled (c : acmd) : bool :=
  match c with
  | ALab _ => true
  | AIns mn _ _ =>
      match qkind_of mn with
      | QKother => false
      | QKclassical => match opc_of mn with Xwaitall => false | _ => true end
      | _ => true
      end
  end.
Definition modelled (P : list acmd) : bool := forallb cmd_modelled P.

(* register banks are the four banks; every label operand is defined *)
Definition bank_valid (b : Z) : bool := (0 <=? b) && (b <? 4).
Definition banks_valid (P : list acmd) : bool := forallb (fun r => bank_valid (fst r)) (named P).
Definition labels_defined (P : list acmd) : bool :=
  forallb (fun c => match c with
                    | ALab _ => true
                    | AIns _ args ops =>
                        forallb (fun o => match o with
                                          | ALabel l => match label_pos P l with Some _ => true | None => false end
                                          | _ => true
                                          end) ops
                    end) P.

(* ====================================================================== *)
(* 2. the embedding on concatenations, banks                              *)
(* ====================================================================== *)

Lemma e_qprog_app a b pa pb :
  e_qprog a = Some pa -> e_qprog b = Some pb -> e_qprog (a ++ b)%list = Some (pa ++ pb)%list.
Proof.
  revert pa. induction a as [|c a IH]; intros pa Ha Hb; cbn [e_qprog app] in *.
  - injection Ha as <-. exact Hb.
  - destruct (e_qcmd c) as [i|]; [|discriminate].
    destruct (e_qprog a) as [p|]; [|discriminate]. injection Ha as <-.
    rewrite (IH p eq_refl Hb). reflexivity.
Qed.

Lemma e_qprog_flat_map {A} (f : A -> list acmd) (l : list A) :
  (forall x, In x l -> exists p, e_qprog (f x) = Some p) ->
  exists p, e_qprog (flat_map f l) = Some p.
Proof.
  induction l as [|x l IH]; intros H; cbn [flat_map].
  - exists []. reflexivity.
  - destruct (H x (or_introl eq_refl)) as [p1 H1].
    destruct (IH (fun y Hy => H y (or_intror Hy))) as [p2 H2].
    exists (p1 ++ p2)%list. apply e_qprog_app; assumption.
Qed.

Lemma bank_valid_of b : bank_valid b = true -> exists k, bank_of_Z b = Some k.
Proof.
  unfold bank_valid, bank_of_Z. intros H. apply andb_true_iff in H as [H1 H2].
  apply Z.leb_le in H1. apply Z.ltb_lt in H2.
  destruct (b =? 0) eqn:E0; [eauto|]. destruct (b =? 1) eqn:E1; [eauto|].
  destruct (b =? 2) eqn:E2; [eauto|]. destruct (b =? 3) eqn:E3; [eauto|].
  apply Z.eqb_neq in E0, E1, E2, E3. lia.
Qed.

Lemma e_reg_valid b i : bank_valid b = true -> exists r, e_reg (VReg b i) = Some r.
Proof. intros H. destruct (bank_valid_of _ H) as [k Hk]. cbn [e_reg]. rewrite Hk. eauto. Qed.

(* ====================================================================== *)
(* 3. the exemption table at the modelled instructions                    *)
(* ====================================================================== *)

Lemma opc_find_In t mn o : opc_find t mn = o -> o <> Xother -> In (mn, o) t.
Proof.
  induction t as [|[k y] t IH]; cbn [opc_find]; intros H Ho; [congruence|].
  destruct (String.eqb_spec k mn) as [->|_].
  - subst. left. reflexivity.
  - right. apply IH; assumption.
Qed.

Lemma opc_of_inv mn o : opc_of mn = o -> o <> Xother -> In (mn, o) opc_table.
Proof. apply opc_find_In. Qed.

Lemma exempt_ok_at ex mn js j :
  exempt_ok ex = true -> In (mn, js) exempt_expected -> (j < 5)%nat ->
  is_exempt ex mn j = existsb (Nat.eqb j) js.
Proof.
  unfold exempt_ok. intros H Hin Hj. rewrite forallb_forall in H. specialize (H _ Hin).
  cbn [fst snd] in H. rewrite forallb_forall in H.
  apply eqb_prop. apply H. apply in_seq. lia.
Qed.

(* exempt positions per opcode *)
Definition expos (o : aopc) : list nat :=
  match o with
  | Xset | Xbez | Xbnz => [1%nat]
  | Xjmp => [0%nat]
  | Xbeq | Xbne | Xblt | Xbge => [2%nat]
  | _ => []
  end.

Lemma exempt_opc ex mn j :
  exempt_ok ex = true -> opc_of mn <> Xother -> (j < 5)%nat ->
  is_exempt ex mn j = existsb (Nat.eqb j) (expos (opc_of mn)).
Proof.
  intros Hex Ho Hj. pose proof (opc_of_inv mn _ eq_refl Ho) as Hin.
  remember (opc_of mn) as o eqn:Eo. clear Eo Ho.
  unfold opc_table in Hin. cbn [In] in Hin.
  repeat match type of Hin with
         | _ \/ _ => destruct Hin as [Hin|Hin]
         end;
    try contradiction;
    injection Hin as <- <-; cbn [expos];
    (apply exempt_ok_at; [exact Hex| |exact Hj]);
    unfold exempt_expected; cbn [In];
    repeat first [left; reflexivity|right].
Qed.

Lemma qkind_meas_inv mn : qkind_of mn = QKmeas -> mn = MEAS.
Proof.
  unfold qkind_of. destruct (opc_of mn); try discriminate.
  destruct (String.eqb_spec mn MEAS) as [->|_]; [reflexivity|].
  destruct (String.eqb mn QALLOC); [discriminate|].
  destruct (String.eqb mn QFREE); [discriminate|].
  destruct (gate_find gate_table mn) as [[a b]|]; discriminate.
Qed.

Lemma qkind_alloc_inv mn : qkind_of mn = QKalloc -> mn = QALLOC.
Proof.
  unfold qkind_of. destruct (opc_of mn); try discriminate.
  destruct (String.eqb mn MEAS); [discriminate|].
  destruct (String.eqb_spec mn QALLOC) as [->|_]; [reflexivity|].
  destruct (String.eqb mn QFREE); [discriminate|].
  destruct (gate_find gate_table mn) as [[a b]|]; discriminate.
Qed.

Lemma qkind_free_inv mn : qkind_of mn = QKfree -> mn = QFREE.
Proof.
  unfold qkind_of. destruct (opc_of mn); try discriminate.
  destruct (String.eqb mn MEAS); [discriminate|].
  destruct (String.eqb mn QALLOC); [discriminate|].
  destruct (String.eqb_spec mn QFREE) as [->|_]; [reflexivity|].
  destruct (gate_find gate_table mn) as [[a b]|]; discriminate.
Qed.

Lemma qkind_classical_opc mn : qkind_of mn = QKclassical -> opc_of mn <> Xother.
Proof.
  unfold qkind_of. intros H E. rewrite E in H.
  destruct (String.eqb mn MEAS); [discriminate|].
  destruct (String.eqb mn QALLOC); [discriminate|].
  destruct (String.eqb mn QFREE); [discriminate|].
  destruct (gate_find gate_table mn) as [[a b]|]; discriminate.
Qed.

(* the parts of qexempt_exact *)
Lemma qexempt_exact_parts ex :
  qexempt_exact ex = true ->
  exempt_ok ex = true /\ qexempt_ok ex = true /\
  (forall mn nq ni j, qkind_of mn = QKgate nq ni -> (j < nq)%nat -> is_exempt ex mn j = false) /\
  is_exempt ex MEAS 0 = false /\ is_exempt ex MEAS 1 = false /\
  is_exempt ex QALLOC 0 = false /\ is_exempt ex QFREE 0 = false.
Proof.
  unfold qexempt_exact. intros H.
  apply andb_true_iff in H as [H Hf0]. apply andb_true_iff in H as [H Ha0].
  apply andb_true_iff in H as [H Hm1]. apply andb_true_iff in H as [H Hm0].
  apply andb_true_iff in H as [H Hg]. apply andb_true_iff in H as [Hex Hqex].
  apply negb_true_iff in Hf0, Ha0, Hm1, Hm0.
  repeat split; try assumption.
  intros mn nq ni j Hk Hj. rewrite forallb_forall in Hg.
  specialize (Hg (mn, (nq, ni)) (gate_find_In _ _ _ (qkind_gate_find _ _ _ Hk))).
  cbn [fst snd] in Hg. rewrite forallb_forall in Hg.
  apply negb_true_iff. apply Hg. apply in_seq. lia.
Qed.

(* ====================================================================== *)
(* 4. one operand after the two passes                                    *)
(* ====================================================================== *)

Section Operand.
Variable ex : list (string * nat).
Variable mn : string.
Variable ps : list (Asm.reg * Z).
Variable bR : Z.
Variable tbl : list (string * nat).
Hypothesis HbR : bank_valid bR = true.
Hypothesis Hps : forall r z, In (r, z) ps -> fst r = bR.

Definition oregs_valid (o : aopnd) : Prop := forall r, In r (regs_of_opnd o) -> bank_valid (fst r) = true.

(* a value position that is not exempt: a register of a valid bank *)
Lemma val_pos j o o' :
  is_val o = true -> is_exempt ex mn j = false -> op_rel ex mn ps j o o' -> oregs_valid o ->
  exists b i, o' = AV (VReg b i) /\ bank_valid b = true.
Proof.
  intros Hv He Hr Hreg. apply is_val_inv in Hv as [[z|b i] ->]; cbn [op_rel] in Hr.
  - rewrite He in Hr. destruct Hr as [r [-> Hin]]. exists (fst r), (snd r). split; [reflexivity|].
    rewrite (Hps _ _ Hin). exact HbR.
  - subst o'. exists b, i. split; [reflexivity|]. apply (Hreg (b, i)). left. reflexivity.
Qed.

Lemma reg_pos j o o' :
  is_regop o = true -> op_rel ex mn ps j o o' -> oregs_valid o ->
  exists b i, o' = AV (VReg b i) /\ bank_valid b = true.
Proof.
  intros Hv Hr Hreg. apply is_regop_inv in Hv as [b [i ->]]; cbn [op_rel] in Hr.
  subst o'. exists b, i. split; [reflexivity|]. apply (Hreg (b, i)). left. reflexivity.
Qed.

Lemma lit_pos j o o' :
  is_litop o = true -> is_exempt ex mn j = true -> op_rel ex mn ps j o o' -> exists z, o' = AV (VLit z).
Proof.
  intros Hv He Hr. apply is_litop_inv in Hv as [z ->]. cbn [op_rel] in Hr. rewrite He in Hr. eauto.
Qed.

Lemma lab_pos j o o' :
  is_label o = true -> op_rel ex mn ps j o o' ->
  (forall l, o = ALabel l -> exists n, tbl_find tbl l = Some n) ->
  exists n, resolve_opnd tbl o' = AV (VLit (Z.of_nat n)).
Proof.
  intros Hv Hr Hl. apply is_label_inv in Hv as [l ->]. cbn [op_rel] in Hr. subst o'.
  destruct (Hl l eq_refl) as [n Hn]. exists n. cbn [resolve_opnd]. rewrite Hn. reflexivity.
Qed.

Lemma addr_pos j o o' : is_addr o = true -> op_rel ex mn ps j o o' -> exists a, o' = AAddr a.
Proof. intros Hv Hr. apply is_addr_inv in Hv as [a ->]. cbn [op_rel] in Hr. eauto. Qed.

Lemma entry_pos j o o' :
  is_entry o = true -> op_rel ex mn ps j o o' -> oregs_valid o ->
  exists a v' x, o' = AEntry a v' /\ e_ix v' = Some x.
Proof.
  intros Hv Hr Hreg. apply is_entry_inv in Hv as [a [v ->]]. cbn [op_rel] in Hr.
  destruct Hr as [v' [-> [->|[z [r [-> [-> Hin]]]]]]].
  - destruct v as [z|b i].
    + exists a, (VLit z), (OImm z). split; reflexivity.
    + assert (Hb : bank_valid b = true) by (apply (Hreg (b, i)); left; reflexivity).
      destruct (bank_valid_of _ Hb) as [k Hk].
      exists a, (VReg b i), (OReg (k, i)). split; [reflexivity|]. cbn [e_ix e_reg]. rewrite Hk. reflexivity.
  - assert (Hb : bank_valid (fst r) = true) by (rewrite (Hps _ _ Hin); exact HbR).
    destruct (bank_valid_of _ Hb) as [k Hk].
    exists a, (VReg (fst r) (snd r)), (OReg (k, snd r)). split; [reflexivity|]. cbn [e_ix e_reg]. rewrite Hk. reflexivity.
Qed.

Lemma ops_rel_length : forall L j L', ops_rel ex mn ps j L L' -> List.length L' = List.length L.
Proof.
  induction L as [|o L IH]; intros j [|o' L'] H; cbn [ops_rel] in H; try contradiction; [reflexivity|].
  destruct H as [_ H]. cbn [List.length]. rewrite (IH _ _ H). reflexivity.
Qed.

Definition lregs_valid (L : list aopnd) : Prop :=
  forall r, In r (flat_map regs_of_opnd L) -> bank_valid (fst r) = true.

Lemma lregs_valid_cons o L : lregs_valid (o :: L) -> oregs_valid o /\ lregs_valid L.
Proof.
  intros H. split; intros r Hr; apply H; cbn [flat_map]; apply in_or_app; [left|right]; exact Hr.
Qed.

(* literal immediates at exempt positions stay *)
Lemma imms_keep : forall L j L',
  ops_rel ex mn ps j L L' -> forallb is_litop L = true ->
  (forall k, (j <= k < j + List.length L)%nat -> is_exempt ex mn k = true) ->
  exists imms, get_imms (map (resolve_opnd tbl) L') = Some imms.
Proof.
  induction L as [|o L IH]; intros j [|o' L'] H Hl Hex; cbn [ops_rel] in H; try contradiction.
  - exists []. reflexivity.
  - destruct H as [H1 H2]. cbn [forallb] in Hl. apply andb_true_iff in Hl as [Hl1 Hl2].
    cbn [List.length] in Hex.
    destruct (lit_pos _ _ _ Hl1 (Hex j ltac:(lia)) H1) as [z ->].
    destruct (IH _ _ H2 Hl2 (fun k Hk => Hex k ltac:(lia))) as [imms Hi].
    exists (z :: imms). cbn [map resolve_opnd get_imms]. rewrite Hi. reflexivity.
Qed.

(* gate operands: nq value positions (not exempt) then literal immediates (exempt) *)
Lemma gate_ops : forall nq L j L',
  ops_rel ex mn ps j L L' ->
  forallb is_val (firstn nq L) = true -> forallb is_litop (skipn nq L) = true ->
  (forall k, (j <= k < j + nq)%nat -> is_exempt ex mn k = false) ->
  (forall k, (j + nq <= k < j + List.length L)%nat -> is_exempt ex mn k = true) ->
  lregs_valid L ->
  exists vs imms rs,
    get_vals (firstn nq (map (resolve_opnd tbl) L')) = Some vs /\
    get_imms (skipn nq (map (resolve_opnd tbl) L')) = Some imms /\
    e_regs vs = Some rs.
Proof.
  induction nq as [|nq IH]; intros L j L' H Hv Hl Hne Hex Hreg.
  - cbn [firstn skipn] in *. destruct (imms_keep _ _ _ H Hl (fun k Hk => Hex k ltac:(lia))) as [imms Hi].
    exists [], imms, []. auto.
  - destruct L as [|o L]; destruct L' as [|o' L']; cbn [ops_rel] in H; try contradiction.
    + exists [], [], []. auto.
    + destruct H as [H1 H2]. cbn [firstn skipn forallb List.length] in *.
      apply andb_true_iff in Hv as [Hv1 Hv2]. apply lregs_valid_cons in Hreg as [Hr1 Hr2].
      destruct (val_pos _ _ _ Hv1 (Hne j ltac:(lia)) H1 Hr1) as [b [i [-> Hb]]].
      destruct (IH _ _ _ H2 Hv2 Hl (fun k Hk => Hne k ltac:(lia)) (fun k Hk => Hex k ltac:(lia)) Hr2)
        as [vs [imms [rs [E1 [E2 E3]]]]].
      destruct (e_reg_valid b i Hb) as [r Hr].
      exists (VReg b i :: vs), imms, (r :: rs). cbn [map resolve_opnd firstn skipn get_vals].
      rewrite E1, E2. cbn [option_map e_regs]. rewrite Hr, E3. auto.
Qed.

End Operand.

(* ====================================================================== *)
(* 5. one instruction after the two passes is accepted by e_qins          *)
(* ====================================================================== *)

Ltac shape_inv H :=
  repeat match type of H with
         | (_ && _) = true => let H' := fresh "Hs" in apply andb_true_iff in H as [H H']
         end.

Ltac in_list := cbn [In]; repeat first [left; reflexivity|right].

(* turn every (shape fact, op_rel fact) pair into the form of the produced operand *)
Ltac pos_all HbR Hps Hlab :=
  repeat match goal with
         | Hs : is_val ?o = true, Hr : op_rel _ _ _ ?j ?o ?o', He : is_exempt _ _ ?j = false, Hv : oregs_valid ?o |- _ =>
             let b := fresh "b" in let i := fresh "i" in let Hb := fresh "Hb" in
             destruct (val_pos _ _ _ _ HbR Hps _ _ _ Hs He Hr Hv) as [b [i [-> Hb]]]; clear Hs Hr
         | Hs : is_regop ?o = true, Hr : op_rel _ _ _ ?j ?o ?o', Hv : oregs_valid ?o |- _ =>
             let b := fresh "b" in let i := fresh "i" in let Hb := fresh "Hb" in
             destruct (reg_pos _ _ _ _ _ _ Hs Hr Hv) as [b [i [-> Hb]]]; clear Hs Hr
         | Hs : is_litop ?o = true, Hr : op_rel _ _ _ ?j ?o ?o', He : is_exempt _ _ ?j = true |- _ =>
             let z := fresh "z" in
             destruct (lit_pos _ _ _ _ _ _ Hs He Hr) as [z ->]; clear Hs Hr
         | Hs : is_label ?o = true, Hr : op_rel _ _ _ ?j ?o ?o' |- _ =>
             let n := fresh "n" in let Hn := fresh "Hn" in
             destruct (lab_pos _ _ _ _ _ _ _ Hs Hr ltac:(intros ? ->; apply Hlab; in_list)) as [n Hn]; clear Hs Hr
         | Hs : is_addr ?o = true, Hr : op_rel _ _ _ ?j ?o ?o' |- _ =>
             let a := fresh "a" in
             destruct (addr_pos _ _ _ _ _ _ Hs Hr) as [a ->]; clear Hs Hr
         | Hs : is_entry ?o = true, Hr : op_rel _ _ _ ?j ?o ?o', Hv : oregs_valid ?o |- _ =>
             let a := fresh "a" in let v := fresh "v" in let x := fresh "x" in let Hx := fresh "Hx" in
             destruct (entry_pos _ _ _ _ HbR Hps _ _ _ Hs Hr Hv) as [a [v [x [-> Hx]]]]; clear Hs Hr
         end.

Ltac split_rel Hrel :=
  repeat match type of Hrel with
         | _ /\ _ => let Hr := fresh "Hr" in destruct Hrel as [Hr Hrel]
         end.

Ltac split_regs :=
  repeat match goal with
         | H : lregs_valid (_ :: _) |- _ => let Hv := fresh "Hv" in apply lregs_valid_cons in H as [Hv H]
         end.

Ltac banks :=
  repeat match goal with
         | Hb : bank_valid ?b = true |- _ =>
             let k := fresh "k" in let Hk := fresh "Hk" in
             destruct (bank_valid_of _ Hb) as [k Hk]; clear Hb
         end.

Ltac finish_ins :=
  cbn [map]; repeat match goal with Hn : resolve_opnd _ _ = _ |- _ => rewrite Hn; clear Hn end;
  cbn [resolve_opnd e_ins e_reg ob option_map];
  repeat (match goal with
          | E : bank_of_Z ?b = Some _ |- context [bank_of_Z ?b] => rewrite E
          | E : e_ix ?v = Some _ |- context [e_ix ?v] => rewrite E
          end; cbn [ob option_map]);
  eexists; reflexivity.

Lemma lt05 : (0 < 5)%nat. Proof. lia. Qed.
Lemma lt15 : (1 < 5)%nat. Proof. lia. Qed.
Lemma lt25 : (2 < 5)%nat. Proof. lia. Qed.
Lemma lt35 : (3 < 5)%nat. Proof. lia. Qed.

Lemma ins_machine ex mn ps bR tbl L L' :
  qexempt_exact ex = true -> bank_valid bR = true -> (forall r z, In (r, z) ps -> fst r = bR) ->
  cmd_shape_q (AIns mn [] L) = true -> cmd_modelled (AIns mn [] L) = true ->
  lregs_valid L ->
  (forall l, In (ALabel l) L -> exists n, tbl_find tbl l = Some n) ->
  ops_rel ex mn ps 0 L L' ->
  exists i, e_qins mn (map (resolve_opnd tbl) L') = Some i.
Proof.
  intros Hq HbR Hps Hshape Hmod Hreg Hlab Hrel.
  destruct (qexempt_exact_parts _ Hq) as (Hex & Hqex & Hgate & Hm0 & Hm1 & Ha0 & Hf0).
  cbn [cmd_shape_q cmd_modelled all_ops map app] in Hshape, Hmod.
  unfold e_qins.
  destruct (qkind_of mn) as [|nq ni| | | |] eqn:Hk.
  - (* classical *)
    pose proof (qkind_classical_opc _ Hk) as Hno.
    pose proof (exempt_opc ex mn 0 Hex Hno lt05) as E0.
    pose proof (exempt_opc ex mn 1 Hex Hno lt15) as E1.
    pose proof (exempt_opc ex mn 2 Hex Hno lt25) as E2.
    pose proof (exempt_opc ex mn 3 Hex Hno lt35) as E3.
    destruct (opc_of mn) eqn:Ho; try discriminate Hmod; try (exfalso; apply Hno; reflexivity);
      cbn [expos existsb Nat.eqb orb] in E0, E1, E2, E3;
      destruct L as [|? [|? [|? [|? [|? ?]]]]]; try discriminate Hshape;
      cbn [shape_ok] in Hshape; shape_inv Hshape;
      destruct L' as [|? [|? [|? [|? [|? ?]]]]]; cbn [ops_rel] in Hrel; try contradiction;
      split_rel Hrel; try contradiction; split_regs; pos_all HbR Hps Hlab; banks; finish_ins.
  - (* gates *)
    apply andb_true_iff in Hshape as [Hshape Hl]. apply andb_true_iff in Hshape as [Hlen Hv].
    pose proof (ops_rel_length _ _ _ _ _ _ Hrel) as Hlen'.
    rewrite map_length, Hlen', Hlen. apply Nat.eqb_eq in Hlen.
    destruct (gate_ops ex mn ps bR tbl HbR Hps nq L 0 L' Hrel Hv Hl) as [vs [imms [rs [E1 [E2 E3]]]]].
    + intros k Hk'. apply (Hgate mn nq ni k Hk). clear - Hk'. lia.
    + intros k Hk'. apply (gate_imm_exempt ex mn nq ni k Hqex Hk). clear - Hk' Hlen. lia.
    + exact Hreg.
    + rewrite E1, E2, E3. eexists; reflexivity.
  - (* meas *)
    apply qkind_meas_inv in Hk. subst mn.
    destruct L as [|? [|? [|? ?]]]; try discriminate Hshape. shape_inv Hshape.
    destruct L' as [|? [|? [|? ?]]]; cbn [ops_rel] in Hrel; try contradiction;
    split_rel Hrel; try contradiction; split_regs; pos_all HbR Hps Hlab; banks; finish_ins.
  - (* qalloc *)
    apply qkind_alloc_inv in Hk. subst mn.
    destruct L as [|? [|? ?]]; try discriminate Hshape.
    destruct L' as [|? [|? ?]]; cbn [ops_rel] in Hrel; try contradiction;
    split_rel Hrel; try contradiction; split_regs; pos_all HbR Hps Hlab; banks; finish_ins.
  - (* qfree *)
    apply qkind_free_inv in Hk. subst mn.
    destruct L as [|? [|? ?]]; try discriminate Hshape.
    destruct L' as [|? [|? ?]]; cbn [ops_rel] in Hrel; try contradiction;
    split_rel Hrel; try contradiction; split_regs; pos_all HbR Hps Hlab; banks; finish_ins.
  - discriminate Hmod.
Qed.

(* ====================================================================== *)
(* 6. the assembled program is in machine form                            *)
(* ====================================================================== *)

Lemma set_machine r z : bank_valid (fst r) = true -> exists i, e_qcmd (set_cmd r z) = Some i.
Proof.
  intros Hb. destruct (bank_valid_of _ Hb) as [k Hk].
  unfold set_cmd. cbn [e_qcmd]. unfold e_qins. rewrite qkind_set, opc_of_set.
  cbn [e_ins e_reg]. rewrite Hk. cbn [ob option_map]. eexists; reflexivity.
Qed.

Lemma sets_machine (ps : list (Asm.reg * Z)) :
  (forall r z, In (r, z) ps -> bank_valid (fst r) = true) -> exists p, e_qprog (map setc ps) = Some p.
Proof.
  induction ps as [|[r z] ps IH]; intros H; cbn [map e_qprog].
  - exists []. reflexivity.
  - destruct (set_machine r z (H r z (or_introl eq_refl))) as [i Hi].
    destruct (IH (fun r' z' Hin => H r' z' (or_intror Hin))) as [p Hp].
    unfold setc at 1. cbn [fst snd]. rewrite Hi, Hp. eexists; reflexivity.
Qed.

Theorem assemble_machine_form pr P T :
  qexempt_exact (ap_exempt pr) = true -> bank_valid (ap_bankR pr) = true ->
  wf_src_q P = true -> modelled P = true -> banks_valid P = true -> labels_defined P = true ->
  assemble_ir pr P = AOk T ->
  exists p, e_qprog T = Some p.
Proof.
  intros Hq HbR Hwf Hmod Hbanks Hlabs Hasm.
  destruct (assemble_struct _ _ _ Hasm) as [tbl [Htbl [-> HF]]].
  pose proof (table_is_pcmap _ _ _ Htbl HF) as Hpc.
  apply e_qprog_flat_map. intros c Hc.
  rewrite Forall_forall in HF. specialize (HF c Hc).
  unfold wf_src_q, modelled, labels_defined, banks_valid in *.
  rewrite forallb_forall in Hwf, Hmod, Hlabs, Hbanks.
  specialize (Hwf c Hc). specialize (Hmod c Hc). specialize (Hlabs c Hc).
  destruct c as [l|mn args ops]; [exists []; reflexivity|].
  cbn [cmd_ok] in HF. cbn [blk].
  destruct (repl_ops pr (named P) mn 0 (all_ops args ops) []) as [[[s ops'] tmp]|] eqn:Hr; [|congruence].
  destruct (repl_ops_spec _ _ _ _ _ _ _ _ _ Hr (good_tmp_nil pr (named P))) as [ps [-> [Htmp [[_ Hsc] Hrel]]]].
  cbn [app] in Htmp. subst tmp.
  assert (Hps : forall r z, In (r, z) ps -> fst r = ap_bankR pr).
  { rewrite Forall_forall in Hsc. intros r z Hin.
    destruct (Hsc r) as [H1 _]; [|exact H1]. apply in_map_iff. exists (r, z). auto. }
  destruct (sets_machine ps) as [p1 H1].
  { intros r z Hin. rewrite (Hps _ _ Hin). exact HbR. }
  destruct (ins_machine (ap_exempt pr) mn ps (ap_bankR pr) tbl (all_ops args ops) ops' Hq HbR Hps) as [i Hi].
  - exact Hwf.
  - exact Hmod.
  - intros r Hin. apply Hbanks.
    destruct (In_nth_error _ _ Hc) as [k Hk]. exact (regs_in_named _ _ _ _ _ Hk r Hin).
  - intros l Hin. unfold all_ops in Hin. apply in_app_or in Hin as [Hin|Hin].
    + apply in_map_iff in Hin as [x [E _]]. discriminate E.
    + rewrite forallb_forall in Hlabs. specialize (Hlabs _ Hin). cbn beta iota in Hlabs.
      rewrite Hpc. destruct (label_pos P l) as [k|]; [|discriminate Hlabs].
      eexists; reflexivity.
  - exact Hrel.
  - exists (p1 ++ [i])%list. apply e_qprog_app; [exact H1|]. cbn [e_qprog e_qcmd]. rewrite Hi. reflexivity.
Qed.

(* ====================================================================== *)
(* 7. when the assembler succeeds: enough scratch registers, unique labels *)
(* ====================================================================== *)

Lemma free_regs_NoDup pr nm : NoDup (free_regs pr nm).
Proof.
  unfold free_regs, cands. apply NoDup_filter.
  apply Injective_map_NoDup; [intros a b E; lia|apply seq_NoDup].
Qed.

(* pigeonhole: while fewer scratch registers are in use than there are free
   candidates, reg_and_set_cmd finds one *)
Lemma pick_some pr nm tmp :
  (List.length tmp < List.length (free_regs pr nm))%nat -> exists i, pick pr nm tmp = Some i.
Proof.
  intros Hlt. destruct (pick pr nm tmp) as [i|] eqn:E; [eauto|]. exfalso.
  unfold pick in E.
  assert (Hincl : incl (map (fun i => (ap_bankR pr, i)) (free_regs pr nm)) tmp).
  { intros r Hr. apply in_map_iff in Hr as [i [<- Hi]]. unfold free_regs in Hi.
    apply filter_In in Hi as [Hc Hn]. pose proof (find_none _ _ E i Hc) as Hf. cbn beta in Hf.
    rewrite Hn in Hf. cbn [andb] in Hf. apply negb_false_iff in Hf. apply mem_reg_In. exact Hf. }
  assert (Hnd : NoDup (map (fun i => (ap_bankR pr, i)) (free_regs pr nm))).
  { apply Injective_map_NoDup; [intros a b [= E']; exact E'|apply free_regs_NoDup]. }
  pose proof (NoDup_incl_length Hnd Hincl) as Hl. rewrite map_length in Hl. unfold Asm.reg in *. lia.
Qed.

Lemma repl_val_some pr nm v tmp :
  (List.length tmp + lits_of_val v <= List.length (free_regs pr nm))%nat ->
  exists res, repl_val pr nm v tmp = Some res.
Proof.
  destruct v as [z|b i]; cbn [repl_val lits_of_val]; intros H; [|eauto].
  destruct (pick_some pr nm tmp ltac:(lia)) as [i ->]. eauto.
Qed.

Lemma repl_opnd_some pr nm mn j o tmp :
  (List.length tmp + need_opnd (ap_exempt pr) mn j o <= List.length (free_regs pr nm))%nat ->
  exists res, repl_opnd pr nm mn j o tmp = Some res.
Proof.
  destruct o as [[z|b i]|l|a|a v|a v1 v2]; cbn [repl_opnd need_opnd]; intros H; eauto.
  - destruct (is_exempt (ap_exempt pr) mn j); [eauto|].
    destruct (repl_val_some pr nm (VLit z) tmp H) as [[[s w] t] ->]. eauto.
  - destruct (repl_val_some pr nm v tmp H) as [[[s w] t] ->]. eauto.
  - destruct (repl_val_some pr nm v1 tmp ltac:(lia)) as [[[s1 w1] t1] E1]. rewrite E1.
    pose proof (repl_val_count _ _ _ _ _ _ _ E1) as Hc.
    destruct (repl_val_some pr nm v2 t1 ltac:(lia)) as [[[s2 w2] t2] ->]. eauto.
Qed.

Lemma repl_ops_some pr nm mn ops : forall j tmp,
  (List.length tmp + need_ops (ap_exempt pr) mn j ops <= List.length (free_regs pr nm))%nat ->
  exists res, repl_ops pr nm mn j ops tmp = Some res.
Proof.
  induction ops as [|o ops IH]; intros j tmp H; cbn [repl_ops need_ops] in *; [eauto|].
  destruct (repl_opnd_some pr nm mn j o tmp ltac:(lia)) as [[[s1 o1] t1] E1]. rewrite E1.
  pose proof (repl_opnd_count _ _ _ _ _ _ _ _ _ E1) as Hc.
  destruct (IH (S j) t1 ltac:(lia)) as [[[s2 r2] t2] ->]. eauto.
Qed.

Lemma repl_all_some pr nm P :
  (forall c, In c P -> (need_cmd (ap_exempt pr) c <= List.length (free_regs pr nm))%nat) ->
  exists Q, repl_all pr nm (map make_args P) = Some Q.
Proof.
  induction P as [|c P IH]; intros H; cbn [map repl_all]; [eauto|].
  destruct (IH (fun c' Hc' => H c' (or_intror Hc'))) as [Q' ->].
  specialize (H c (or_introl eq_refl)).
  destruct c as [l|mn args ops]; cbn [make_args repl_cmd need_cmd] in *; [eauto|].
  change (all_ops [] (all_ops args ops)) with (all_ops args ops).
  destruct (repl_ops_some pr nm mn (all_ops args ops) 0 [] H) as [[[s ops'] t] ->]. eauto.
Qed.

Lemma labels_of_app a b : labels_of (a ++ b)%list = (labels_of a ++ labels_of b)%list.
Proof. unfold labels_of. apply flat_map_app. Qed.

Lemma labels_of_sets ps : labels_of (map setc ps) = [].
Proof. induction ps as [|p ps IH]; [reflexivity|exact IH]. Qed.

Lemma labels_of_rblk pr nm P : labels_of (flat_map (rblk pr nm) P) = labels_of P.
Proof.
  induction P as [|c P IH]; [reflexivity|]. cbn [flat_map]. rewrite labels_of_app, IH.
  destruct c as [l|mn args ops]; [reflexivity|]. cbn [rblk].
  destruct (repl_ops pr nm mn 0 (all_ops args ops) []) as [[[s ops'] t]|] eqn:Hr; [|reflexivity].
  destruct (repl_ops_spec _ _ _ _ _ _ _ _ _ Hr (good_tmp_nil pr nm)) as [ps [-> _]].
  rewrite labels_of_app, labels_of_sets. reflexivity.
Qed.

Lemma label_table_some L : forall n tbl0,
  NoDup (labels_of L) -> (forall l, In l (labels_of L) -> tbl_find tbl0 l = None) ->
  exists tbl, label_table L n tbl0 = Some tbl.
Proof.
  induction L as [|c L IH]; intros n tbl0 Hnd Hfresh; cbn [label_table]; [eauto|].
  destruct c as [l|mn args ops].
  - change (labels_of (ALab l :: L)) with (l :: labels_of L) in *.
    inversion Hnd as [|? ? Hl Hnd']; subst.
    rewrite (Hfresh l (or_introl eq_refl)). apply IH; [exact Hnd'|].
    intros l' Hl'. rewrite tbl_find_snoc, (Hfresh l' (or_intror Hl')).
    destruct (String.eqb_spec l l') as [->|_]; [contradiction|reflexivity].
  - change (labels_of (AIns mn args ops :: L)) with (labels_of L) in *. apply IH; assumption.
Qed.

(* converse of AsmProofs.assemble_rejects (+ EDupLabel): the assembler accepts
   every program whose labels are distinct and whose commands each need no more
   scratch registers than there are R registers the program does not name *)
Theorem assemble_ir_accepts pr P :
  NoDup (labels_of P) ->
  (forall c, In c P -> (need_cmd (ap_exempt pr) c <= List.length (free_regs pr (named P)))%nat) ->
  exists T, assemble_ir pr P = AOk T.
Proof.
  intros Hnd Hneed. unfold assemble_ir, replace_constants, abind. rewrite named_make_args.
  destruct (repl_all_some pr (named P) P Hneed) as [Q HQ]. rewrite HQ.
  destruct (repl_all_struct _ _ _ _ HQ) as [-> _]. unfold assign_labels.
  destruct (label_table_some (flat_map (rblk pr (named P)) P) 0 []) as [tbl ->].
  - rewrite labels_of_rblk. exact Hnd.
  - intros l _. reflexivity.
  - eexists; reflexivity.
Qed.

(* both together: a well-formed source over the modelled instructions with
   distinct labels and enough scratch registers assembles, and the result is in
   the domain of the bridge AsmSemQ -> SemQ *)
Corollary assemble_total_machine_form pr P :
  qexempt_exact (ap_exempt pr) = true -> bank_valid (ap_bankR pr) = true ->
  wf_src_q P = true -> modelled P = true -> banks_valid P = true -> labels_defined P = true ->
  NoDup (labels_of P) ->
  (forall c, In c P -> (need_cmd (ap_exempt pr) c <= List.length (free_regs pr (named P)))%nat) ->
  exists T p, assemble_ir pr P = AOk T /\ e_qprog T = Some p.
Proof.
  intros Hq HbR Hwf Hmod Hb Hl Hnd Hneed.
  destruct (assemble_ir_accepts pr P Hnd Hneed) as [T HT].
  destruct (assemble_machine_form pr P T Hq HbR Hwf Hmod Hb Hl HT) as [p Hp].
  exists T, p. auto.
Qed.

(* ====================================================================== *)
(* 8. a concrete program under the regenerated parameters                 *)
(* ====================================================================== *)

Local Open Scope string_scope.
(* _REPLACE_CONSTANTS_EXCEPTION as regenerated from /repo (build/C03/Gen_Asm.v, gen_exempt) *)
Definition mf_exempt : list (string * nat) :=
  [("set", 1%nat); ("jmp", 0%nat); ("bez", 1%nat); ("bnz", 1%nat); ("beq", 2%nat); ("bne", 2%nat); ("blt", 2%nat); ("bge", 2%nat); ("breakpoint", 0%nat); ("breakpoint", 1%nat); ("rot_x", 1%nat); ("rot_x", 2%nat); ("rot_y", 1%nat); ("rot_y", 2%nat); ("rot_z", 1%nat); ("rot_z", 2%nat); ("crot_x", 2%nat); ("crot_x", 3%nat); ("crot_y", 2%nat); ("crot_y", 3%nat); ("crot_z", 2%nat); ("crot_z", 3%nat); ("meas_basis", 2%nat); ("meas_basis", 3%nat); ("meas_basis", 4%nat); ("meas_basis", 5%nat)].
Definition mf_params : aparams := mkAP 16%nat 0 mf_exempt.
Definition mf_prog : list acmd :=
  [ AIns "qalloc" [] [AV (VLit 0)];
    AIns "set" [] [AV (VReg 2 0); AV (VLit 0)];
    AIns "init" [] [AV (VReg 2 0)];
    AIns "array" [1] [AAddr 0];
    ALab "L";
    AIns "rot_x" [] [AV (VReg 2 0); AV (VLit 1); AV (VLit 2)];
    AIns "rot_z" [] [AV (VLit 0); AV (VLit 3); AV (VLit 4)];
    AIns "meas" [] [AV (VReg 2 0); AV (VReg 3 0)];
    AIns "bez" [] [AV (VReg 3 0); ALabel "L"];
    AIns "store" [] [AV (VReg 3 0); AEntry 0 (VLit 0)];
    AIns "qfree" [] [AV (VLit 0)];
    AIns "ret_reg" [] [AV (VReg 3 0)] ].
Local Close Scope string_scope.

Example machine_form_nonvacuous :
  qexempt_exact (ap_exempt mf_params) = true /\ bank_valid (ap_bankR mf_params) = true /\
  wf_src_q mf_prog = true /\ modelled mf_prog = true /\ banks_valid mf_prog = true /\
  labels_defined mf_prog = true /\
  NoDup (labels_of mf_prog) /\
  (forall c, In c mf_prog ->
     (need_cmd (ap_exempt mf_params) c <= List.length (free_regs mf_params (named mf_prog)))%nat) /\
  exists T p,
    assemble_ir mf_params mf_prog = AOk T /\ List.length T = 16%nat /\
    e_qprog T = Some p /\ List.length p = 16%nat /\
    (* the label became the line of rot_x's block; the literal store index got a scratch register *)
    nth_error T 10 = Some (AIns "bez" [] [AV (VReg 3 0); AV (VLit 6)]) /\
    nth_error T 12 = Some (AIns "store" [] [AV (VReg 3 0); AEntry 0 (VReg 0 0)]).
Proof.
  split; [vm_compute; reflexivity|]. split; [vm_compute; reflexivity|].
  split; [vm_compute; reflexivity|]. split; [vm_compute; reflexivity|].
  split; [vm_compute; reflexivity|]. split; [vm_compute; reflexivity|].
  split; [vm_compute; repeat constructor; intros []|].
  split.
  { assert (H : forallb (fun c => Nat.leb (need_cmd (ap_exempt mf_params) c)
                                          (List.length (free_regs mf_params (named mf_prog)))) mf_prog = true)
      by (vm_compute; reflexivity).
    rewrite forallb_forall in H. intros c Hc. apply Nat.leb_le. apply H. exact Hc. }
  eexists. eexists. split; [vm_compute; reflexivity|].
  split; [vm_compute; reflexivity|]. split; [vm_compute; reflexivity|].
  split; [vm_compute; reflexivity|]. split; vm_compute; reflexivity.
Qed.

(* the theorems apply to it *)
Example machine_form_applies :
  exists T p, assemble_ir mf_params mf_prog = AOk T /\ e_qprog T = Some p.
Proof.
  destruct machine_form_nonvacuous as (H1 & H2 & H3 & H4 & H5 & H6 & H7 & H8 & _).
  exact (assemble_total_machine_form mf_params mf_prog H1 H2 H3 H4 H5 H6 H7 H8).
Qed.

(* the exactness of the exemption table matters: were a gate's value operand
   exempt, its literal would stay and the result would not be machine code *)
Example machine_form_needs_exact :
  let pr := mkAP 16%nat 0 (("init"%string, 0%nat) :: mf_exempt) in
  exempt_ok (ap_exempt pr) = true /\ qexempt_ok (ap_exempt pr) = true /\ qexempt_exact (ap_exempt pr) = false /\
  exists T, assemble_ir pr [AIns "init" [] [AV (VLit 0)]] = AOk T /\ e_qprog T = None.
Proof.
  cbv zeta. split; [vm_compute; reflexivity|]. split; [vm_compute; reflexivity|]. split; [vm_compute; reflexivity|].
  eexists. split; vm_compute; reflexivity.
Qed.

