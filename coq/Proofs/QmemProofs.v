(* QmemProofs.v — invariant, isolation and lifecycle theorems for Exec/Qmem.v (C13). *)
From Coq Require Import ZArith List Bool Lia FinFun.
From Hammer Require Import Tactics.
From NQ Require Import Exec.Qmem.
Import ListNotations.
Open Scope Z_scope.

(* ------------------------------------------------------------------ basics *)
Lemma pair_eqb_eq a b : pair_eqb a b = true <-> a = b.
Proof.
  destruct a as [a1 a2], b as [b1 b2]. unfold pair_eqb. cbn [fst snd].
  rewrite andb_true_iff, !Z.eqb_eq. split; [intros [-> ->]; reflexivity | intros H; inversion H; auto].
Qed.

Lemma pair_eqb_refl a : pair_eqb a a = true.
Proof. apply pair_eqb_eq. reflexivity. Qed.

Lemma pair_eqb_neq a b : pair_eqb a b = false <-> a <> b.
Proof.
  split.
  - intros H E. apply pair_eqb_eq in E. congruence.
  - intros H. destruct (pair_eqb a b) eqn:E; [apply pair_eqb_eq in E; contradiction | reflexivity].
Qed.

Lemma pair_dec (a b : Z * Z) : a = b \/ a <> b.
Proof. destruct (pair_eqb a b) eqn:E; [left; apply pair_eqb_eq; auto | right; apply pair_eqb_neq; auto]. Qed.

Lemma aget_aset {V} k k' (a : V) l :
  aget pair_eqb k' (aset pair_eqb k a l) = if pair_eqb k' k then Some a else aget pair_eqb k' l.
Proof.
  unfold aset. cbn [aget]. destruct (pair_eqb k' k) eqn:E; [reflexivity|].
  unfold adel. induction l as [|[k0 v0] l IH]; cbn [filter aget fst]; [reflexivity|].
  destruct (pair_eqb k k0) eqn:E0; cbn [negb].
  - apply pair_eqb_eq in E0. subst k0. rewrite E. exact IH.
  - cbn [aget]. destruct (pair_eqb k' k0); [reflexivity | exact IH].
Qed.

Lemma aget_adel {V} k k' (l : list (pid * V)) :
  aget pair_eqb k' (adel pair_eqb k l) = if pair_eqb k' k then None else aget pair_eqb k' l.
Proof.
  unfold adel. induction l as [|[k0 v0] l IH]; cbn [filter aget fst].
  - destruct (pair_eqb k' k); reflexivity.
  - destruct (pair_eqb k k0) eqn:E0; cbn [negb].
    + apply pair_eqb_eq in E0. subst k0. rewrite IH. destruct (pair_eqb k' k); reflexivity.
    + cbn [aget]. destruct (pair_eqb k' k0) eqn:E1; [|exact IH].
      destruct (pair_eqb k' k) eqn:E2; [|reflexivity].
      apply pair_eqb_eq in E1, E2. subst. rewrite pair_eqb_refl in E0. discriminate.
Qed.

Lemma keys_adel {V} k (l : list (pid * V)) :
  NoDup (map fst l) -> NoDup (map fst (adel pair_eqb k l)) /\ ~ In k (map fst (adel pair_eqb k l)).
Proof.
  unfold adel. induction l as [|[k0 v0] l IH]; cbn [filter map fst]; intros ND.
  - split; [constructor | intros []].
  - inversion ND as [|x xs Hn ND']; subst. destruct (IH ND') as [I1 I2].
    destruct (pair_eqb k k0) eqn:E; cbn [negb].
    + split; assumption.
    + cbn [map fst]. split.
      * constructor; [|assumption]. intros HI. apply Hn.
        apply in_map_iff in HI. destruct HI as [[k1 v1] [E1 HI]]. cbn in E1. subst k1.
        apply filter_In in HI. destruct HI as [HI _]. apply in_map_iff. exists (k0, v1). auto.
      * intros [E1|HI]; [subst; rewrite pair_eqb_refl in E; discriminate | exact (I2 HI)].
Qed.

Lemma keys_aset {V} k (a : V) l :
  NoDup (map fst l) -> NoDup (map fst (aset pair_eqb k a l)).
Proof. intros ND. unfold aset. cbn [map fst]. destruct (keys_adel k l ND). constructor; assumption. Qed.

Lemma mem2_In x l : mem2 x l = true <-> In x l.
Proof.
  unfold mem2. rewrite existsb_exists. split.
  - intros [y [HI E]]. apply pair_eqb_eq in E. subst. exact HI.
  - intros HI. exists x. split; [exact HI | apply pair_eqb_refl].
Qed.

Lemma mem2_nIn x l : mem2 x l = false <-> ~ In x l.
Proof. rewrite <- mem2_In. destruct (mem2 x l); split; congruence. Qed.

Lemma In_rem2 x y l : In y (rem2 x l) <-> In y l /\ y <> x.
Proof.
  unfold rem2. rewrite filter_In. split; intros [H1 H2]; split; auto.
  - intros ->. rewrite pair_eqb_refl in H2. discriminate.
  - destruct (pair_eqb x y) eqn:E; [apply pair_eqb_eq in E; congruence | reflexivity].
Qed.

Lemma In_add2 x y l : In y (add2 x l) <-> y = x \/ In y l.
Proof.
  unfold add2. destruct (mem2 x l) eqn:E.
  - apply mem2_In in E. split; [auto | intros [->|H]; auto].
  - cbn [In]. split; intros [H|H]; auto.
Qed.

Lemma nth_error_set_nth_same {A} (l : list A) i x :
  (i < List.length l)%nat -> nth_error (set_nth l i x) i = Some x.
Proof.
  revert i. induction l as [|h t IH]; intros [|i] H; cbn in *; try lia; try reflexivity.
  apply IH. lia.
Qed.

Lemma nth_error_set_nth_other {A} (l : list A) i j x :
  i <> j -> nth_error (set_nth l i x) j = nth_error l j.
Proof.
  revert i j. induction l as [|h t IH]; intros [|i] [|j] H; cbn; try reflexivity; try congruence.
  apply IH. congruence.
Qed.

Lemma length_set_nth {A} (l : list A) i x : List.length (set_nth l i x) = List.length l.
Proof. revert i. induction l as [|h t IH]; intros [|i]; cbn; auto. Qed.

Lemma nth_error_lt {A} (l : list A) i y : nth_error l i = Some y -> (i < List.length l)%nat.
Proof. intros H. apply nth_error_Some. congruence. Qed.

Lemma nth_error_repeat_None n i (p : Z) : nth_error (repeat (@None Z) n) i <> Some (Some p).
Proof.
  revert i. induction n as [|n IH]; intros [|i]; cbn; try congruence; try apply IH.
Qed.

(* ------------------------------------------------------------------ the pool *)
Lemma first_unused_from_sound fuel nd p u q :
  first_unused_from fuel nd p u = Some q -> ~ In (nd, q) u /\ p <= q.
Proof.
  revert p. induction fuel as [|f IH]; intros p; cbn [first_unused_from]; [discriminate|].
  destruct (mem2 (nd, p) u) eqn:E.
  - intros H. destruct (IH _ H). split; [assumption | lia].
  - intros H. inversion H; subst. split; [apply mem2_nIn; exact E | lia].
Qed.

Lemma first_unused_sound nd u q : first_unused nd u = Some q -> ~ In (nd, q) u.
Proof. intros H. exact (proj1 (first_unused_from_sound _ _ _ _ _ H)). Qed.

(* the search only fails when fuel consecutive candidates are all marked in use *)
Lemma first_unused_from_none fuel nd p u :
  first_unused_from fuel nd p u = None ->
  forall j, (j < fuel)%nat -> In (nd, p + Z.of_nat j) u.
Proof.
  revert p. induction fuel as [|f IH]; intros p H j Hj; [lia|].
  cbn [first_unused_from] in H. destruct (mem2 (nd, p) u) eqn:E; [|discriminate].
  destruct j as [|j].
  - replace (p + Z.of_nat 0) with p by lia. apply mem2_In. exact E.
  - replace (p + Z.of_nat (S j)) with ((p + 1) + Z.of_nat j) by lia. apply IH; [exact H | lia].
Qed.

(* pigeonhole: |u| + 1 distinct candidates cannot all be in u *)
Theorem first_unused_total nd u : first_unused nd u <> None.
Proof.
  unfold first_unused. intros H.
  pose proof (first_unused_from_none _ _ _ _ H) as HI.
  set (n := S (List.length u)) in *.
  assert (ND : NoDup (map (fun j => (nd, 0 + Z.of_nat j)) (seq 0 n))).
  { apply Injective_map_NoDup; [|apply seq_NoDup].
    intros a b E. inversion E. lia. }
  assert (INC : incl (map (fun j => (nd, 0 + Z.of_nat j)) (seq 0 n)) u).
  { intros x Hx. apply in_map_iff in Hx. destruct Hx as [j [<- Hj]]. apply in_seq in Hj. apply HI. lia. }
  pose proof (NoDup_incl_length ND INC) as L. rewrite map_length, seq_length in L. subst n. lia.
Qed.

(* ------------------------------------------------------------------ the mapping relation *)
(* virtual qubit i of application k is mapped to physical qubit p *)
Definition um_of (s : state) (k : pid) (i : nat) (p : Z) : Prop :=
  exists a, app_of s k = Some a /\ nth_error (a_um a) i = Some (Some p).

Lemma mapped_um_of s nd p : mapped s nd p <-> exists app i, um_of s (nd, app) i p.
Proof.
  unfold mapped, um_of. split.
  - intros (app & a & i & H1 & H2). exists app, i, a. auto.
  - intros (app & i & a & H1 & H2). exists app, a, i. auto.
Qed.

Lemma injective_um_of s :
  injective s <->
  (forall nd app i app' i' p, um_of s (nd, app) i p -> um_of s (nd, app') i' p -> app = app' /\ i = i').
Proof.
  unfold injective, um_of. split.
  - intros H nd app i app' i' p (a & H1 & H2) (a' & H3 & H4). eapply H; eauto.
  - intros H nd app a i app' a' i' p H1 H2 H3 H4. eapply H; eauto.
Qed.

Lemma um_of_aset s k a' u r g k' i p :
  um_of (mkSt (aset pair_eqb k a' (apps s)) u r g) k' i p <->
  (k' = k /\ nth_error (a_um a') i = Some (Some p)) \/ (k' <> k /\ um_of s k' i p).
Proof.
  unfold um_of, app_of. cbn [apps]. rewrite aget_aset.
  destruct (pair_eqb k' k) eqn:E.
  - apply pair_eqb_eq in E. subst k'. split.
    + intros (a & H1 & H2). inversion H1; subst. left. auto.
    + intros [[_ H]|[H _]]; [exists a'; auto | congruence].
  - apply pair_eqb_neq in E. split.
    + intros H. right. auto.
    + intros [[H _]|[_ H]]; [congruence | exact H].
Qed.

Lemma um_of_adel s k u r g k' i p :
  um_of (mkSt (adel pair_eqb k (apps s)) u r g) k' i p <-> (k' <> k /\ um_of s k' i p).
Proof.
  unfold um_of, app_of. cbn [apps]. rewrite aget_adel.
  destruct (pair_eqb k' k) eqn:E.
  - apply pair_eqb_eq in E. subst k'. split.
    + intros (a & H1 & _). discriminate.
    + intros [H _]. congruence.
  - apply pair_eqb_neq in E. split; [intros H; auto | intros [_ H]; exact H].
Qed.

Lemma registered_aset s k a' u r g k' :
  app_of s k <> None ->
  (app_of (mkSt (aset pair_eqb k a' (apps s)) u r g) k' <> None <-> app_of s k' <> None).
Proof.
  unfold app_of. cbn [apps]. rewrite aget_aset. intros H.
  destruct (pair_eqb k' k) eqn:E; [|tauto].
  apply pair_eqb_eq in E. subst k'. split; [auto | congruence].
Qed.

(* ------------------------------------------------------------------ three ways a step changes the mapping *)
Lemma inv_same s s' :
  Inv s -> keys_unique s' ->
  (forall k i p, um_of s' k i p <-> um_of s k i p) ->
  (forall x, In x (used s') <-> In x (used s)) ->
  (forall x, In x (resv s') <-> In x (resv s)) ->
  registry_sound s' -> Inv s'.
Proof.
  intros (K & I & U & F & G) K' HU Hu Hr G'.
  assert (M : forall nd p, mapped s' nd p <-> mapped s nd p).
  { intros nd p. rewrite !mapped_um_of. split; intros (app & i & H); exists app, i; apply HU; exact H. }
  split; [exact K'|]. split; [|split; [intros nd0 p0; split|split; [|exact G']]].
  - apply injective_um_of. intros nd app i app' i' p H1 H2.
    apply HU in H1, H2. revert H1 H2. apply (proj1 (injective_um_of s) I).
  - intros H. apply Hu, U in H. rewrite M, Hr. exact H.
  - intros H. apply Hu, U. rewrite M, Hr in H. exact H.
  - intros nd p H. rewrite M. apply F. apply Hr. exact H.
Qed.

(* a physical qubit gets (or stays) marked in use and in flight without being mapped *)
Lemma inv_mark s s' x :
  Inv s -> keys_unique s' -> ~ mapped s (fst x) (snd x) ->
  (forall k i p, um_of s' k i p <-> um_of s k i p) ->
  (forall y, In y (used s') <-> y = x \/ In y (used s)) ->
  (forall y, In y (resv s') <-> y = x \/ In y (resv s)) ->
  registry_sound s' -> Inv s'.
Proof.
  intros (K & I & U & F & G) K' NM HU Hu Hr G'.
  assert (M : forall nd p, mapped s' nd p <-> mapped s nd p).
  { intros nd p. rewrite !mapped_um_of. split; intros (app & i & H); exists app, i; apply HU; exact H. }
  split; [exact K'|]. split; [|split; [intros nd0 p0; split|split; [|exact G']]].
  - apply injective_um_of. intros nd app i app' i' p H1 H2.
    apply HU in H1, H2. revert H1 H2. apply (proj1 (injective_um_of s) I).
  - intros H. apply Hu in H. rewrite M, Hr. destruct H as [H|H]; [right; left; exact H|].
    apply U in H. tauto.
  - intros H. apply Hu. rewrite M, Hr in H. destruct H as [H|[H|H]]; [right; apply U; auto | left; exact H | right; apply U; auto].
  - intros nd p H. rewrite M. apply Hr in H. destruct H as [E|H]; [subst x; exact NM | exact (F _ _ H)].
Qed.

Lemma inv_add s s' nd app i p :
  Inv s -> keys_unique s' -> ~ mapped s nd p ->
  (forall k' i' p', um_of s' k' i' p' <-> (k' = (nd, app) /\ i' = i /\ p' = p) \/ um_of s k' i' p') ->
  (forall x, In x (used s') <-> x = (nd, p) \/ In x (used s)) ->
  (forall x, In x (resv s') <-> In x (resv s) /\ x <> (nd, p)) ->
  registry_sound s' -> Inv s'.
Proof.
  intros (K & I & U & F & G) K' NM HU Hu Hr G'.
  assert (M : forall nd' q, mapped s' nd' q <-> (nd' = nd /\ q = p) \/ mapped s nd' q).
  { intros nd' q. rewrite !mapped_um_of. split.
    - intros (app' & i' & H). apply HU in H. destruct H as [(E & _ & ->)|H].
      + inversion E. left. auto.
      + right. exists app', i'. exact H.
    - intros [[-> ->]|(app' & i' & H)].
      + exists app, i. apply HU. left. auto.
      + exists app', i'. apply HU. right. exact H. }
  pose proof (proj1 (injective_um_of s) I) as I0.
  split; [exact K'|]. split; [|split; [intros nd0 p0; split|split; [|exact G']]].
  - apply injective_um_of. intros nd' app1 i1 app2 i2 q H1 H2.
    apply HU in H1, H2.
    destruct H1 as [(E1 & Ei1 & Ep1)|H1], H2 as [(E2 & Ei2 & Ep2)|H2].
    + inversion E1; inversion E2; subst. auto.
    + inversion E1; subst. exfalso. apply NM. apply mapped_um_of. eauto.
    + inversion E2; subst. exfalso. apply NM. apply mapped_um_of. eauto.
    + eapply I0; eauto.
  - intros H. apply Hu in H. rewrite M, Hr. destruct H as [E|H].
    + inversion E. left. left. auto.
    + apply U in H. destruct H as [H|H]; [left; right; exact H|].
      destruct (pair_dec (nd0, p0) (nd, p)) as [E|NE]; [inversion E; left; left; auto | right; auto].
  - intros H. apply Hu. rewrite M, Hr in H. destruct H as [[[-> ->]|H]|[H _]].
    + left. reflexivity.
    + right. apply U. left. exact H.
    + right. apply U. right. exact H.
  - intros nd' q H. apply Hr in H. destruct H as [H NE]. rewrite M. intros [[-> ->]|H'].
    + apply NE. reflexivity.
    + exact (F _ _ H H').
Qed.

(* D k i : the slots a step un-maps *)
Lemma inv_remove s s' (D : pid -> nat -> Prop) :
  Inv s -> keys_unique s' ->
  (forall k i p, um_of s' k i p <-> um_of s k i p /\ ~ D k i) ->
  (forall nd q, In (nd, q) (used s') <->
                In (nd, q) (used s) /\ ~ (exists app i, D (nd, app) i /\ um_of s (nd, app) i q)) ->
  (forall x, In x (resv s') <-> In x (resv s)) ->
  registry_sound s' -> Inv s'.
Proof.
  intros (K & I & U & F & G) K' HU Hu Hr G'.
  pose proof (proj1 (injective_um_of s) I) as I0.
  split; [exact K'|]. split; [|split; [intros nd0 p0; split|split; [|exact G']]].
  - apply injective_um_of. intros nd app1 i1 app2 i2 q H1 H2.
    apply HU in H1, H2. destruct H1 as [H1 _], H2 as [H2 _]. eapply I0; eauto.
  - intros H. apply Hu in H. destruct H as [H ND]. apply U in H. destruct H as [H|H].
    + left. apply mapped_um_of in H. destruct H as (app & i & H). apply mapped_um_of.
      exists app, i. apply HU. split; [exact H|]. intros HD. apply ND. eauto.
    + right. apply Hr. exact H.
  - intros H. apply Hu. destruct H as [H|H].
    + apply mapped_um_of in H. destruct H as (app & i & H). apply HU in H. destruct H as [H ND]. split.
      * apply U. left. apply mapped_um_of. eauto.
      * intros (app' & i' & HD & H'). destruct (I0 _ _ _ _ _ _ H H') as [-> ->]. exact (ND HD).
    + apply Hr in H. split.
      * apply U. right. exact H.
      * intros (app' & i' & _ & H'). apply (F _ _ H). apply mapped_um_of. eauto.
  - intros nd q H HM. apply Hr in H. apply (F _ _ H). apply mapped_um_of in HM.
    destruct HM as (app & i & HM). apply HU in HM. apply mapped_um_of. exists app, i. tauto.
Qed.

(* ------------------------------------------------------------------ classical instructions leave the unit module alone *)
Lemma um_i_set r x a : a_um (i_set r x a) = a_um a.
Proof. reflexivity. Qed.

Lemma um_i_array r addr a : a_um (fst (i_array r addr a)) = a_um a.
Proof. unfold i_array. destruct (aget pair_eqb r (a_regs a)); reflexivity. Qed.

Lemma um_i_store r addr i a : a_um (fst (i_store r addr i a)) = a_um a.
Proof.
  unfold i_store. destruct (aget pair_eqb r (a_regs a)); [|reflexivity].
  destruct (aget Z.eqb addr (a_arrs a)); [|reflexivity].
  destruct (Nat.ltb i (List.length l)); reflexivity.
Qed.

Lemma um_i_ret_reg r a : a_um (fst (i_ret_reg r a)) = a_um a.
Proof. unfold i_ret_reg. destruct (aget pair_eqb r (a_regs a)); reflexivity. Qed.

Lemma um_i_ret_arr addr a : a_um (fst (i_ret_arr addr a)) = a_um a.
Proof. unfold i_ret_arr. destruct (aget Z.eqb addr (a_arrs a)); reflexivity. Qed.

Lemma um_bind x f a0 :
  a_um (fst x) = a_um a0 -> (forall a, a_um (fst (f a)) = a_um a) -> a_um (fst (bind x f)) = a_um a0.
Proof. destruct x as [a [e|]]; cbn [bind fst]; intros H Hf; [exact H | rewrite Hf; exact H]. Qed.

Lemma um_keep_prefix v qa ra remote sock a : a_um (fst (keep_prefix v qa ra remote sock a)) = a_um a.
Proof.
  unfold keep_prefix.
  apply um_bind; [rewrite um_i_array; reflexivity|]. intros a1.
  apply um_bind; [rewrite um_i_store; reflexivity|]. intros a2.
  apply um_bind; [rewrite um_i_array; reflexivity|]. intros a3. reflexivity.
Qed.

(* ------------------------------------------------------------------ replacing one application's state *)
Lemma inv_put_same_um s k a a' u r :
  Inv s -> app_of s k = Some a -> a_um a' = a_um a ->
  (forall x, In x u <-> In x (used s)) -> (forall x, In x r <-> In x (resv s)) ->
  Inv (mkSt (aset pair_eqb k a' (apps s)) u r (shreg s)).
Proof.
  intros HI Hk Hum Hu Hr. apply (inv_same s); try assumption.
  - destruct HI as [K _]. apply keys_aset. exact K.
  - intros k' i p. rewrite um_of_aset. rewrite Hum. split.
    + intros [[-> H]|[_ H]]; [exists a; auto | exact H].
    + intros H. destruct (pair_dec k' k) as [->|NE]; [|right; auto].
      left. split; [reflexivity|]. destruct H as (a0 & H0 & H1). congruence.
  - intros k' Hk'. destruct HI as (_ & _ & _ & _ & G). cbn [shreg] in Hk'.
    apply registered_aset; [congruence | exact (G k' Hk')].
Qed.

Lemma inv_put_app s k a a' :
  Inv s -> app_of s k = Some a -> a_um a' = a_um a -> Inv (put_app s k a').
Proof. intros. unfold put_app. eapply inv_put_same_um; eauto; tauto. Qed.

Lemma um_of_set_slot s k a a2 i p u r g k' i' p' :
  app_of s k = Some a -> nth_error (a_um a) i = Some None ->
  a_um a2 = set_nth (a_um a) i (Some p) ->
  (um_of (mkSt (aset pair_eqb k a2 (apps s)) u r g) k' i' p' <->
   (k' = k /\ i' = i /\ p' = p) \/ um_of s k' i' p').
Proof.
  intros Hk Hn Hum. rewrite um_of_aset, Hum. split.
  - intros [[-> H]|[_ H]]; [|right; exact H].
    destruct (Nat.eq_dec i i') as [<-|NE].
    + rewrite nth_error_set_nth_same in H by (eapply nth_error_lt; eauto). inversion H. left. auto.
    + rewrite nth_error_set_nth_other in H by exact NE. right. exists a. auto.
  - intros [(-> & -> & ->)|H].
    + left. split; [reflexivity|]. apply nth_error_set_nth_same. eapply nth_error_lt; eauto.
    + destruct (pair_dec k' k) as [->|NE]; [|right; auto].
      left. split; [reflexivity|]. destruct H as (a0 & H0 & H1).
      assert (a0 = a) by congruence. subst a0.
      rewrite nth_error_set_nth_other; [exact H1 | intros <-; congruence].
Qed.

Lemma um_of_clear_slot s k a a2 i u r g k' i' p' :
  app_of s k = Some a -> a_um a2 = set_nth (a_um a) i None ->
  (um_of (mkSt (aset pair_eqb k a2 (apps s)) u r g) k' i' p' <->
   um_of s k' i' p' /\ ~ (k' = k /\ i' = i)).
Proof.
  intros Hk Hum. rewrite um_of_aset, Hum. split.
  - intros [[-> H]|[NE H]]; [|split; [exact H | tauto]].
    destruct (Nat.eq_dec i i') as [<-|NE].
    + destruct (Nat.lt_ge_cases i (List.length (a_um a))) as [L|L].
      * rewrite nth_error_set_nth_same in H by exact L. discriminate.
      * exfalso. apply nth_error_lt in H. rewrite length_set_nth in H. lia.
    + rewrite nth_error_set_nth_other in H by exact NE. split; [exists a; auto | intros [_ E]; congruence].
  - intros [H ND]. destruct (pair_dec k' k) as [->|NE]; [|right; auto].
    left. split; [reflexivity|]. destruct H as (a0 & H0 & H1). assert (a0 = a) by congruence. subst a0.
    rewrite nth_error_set_nth_other; [exact H1 | intros <-; apply ND; auto].
Qed.

(* ------------------------------------------------------------------ stop: releasing a whole unit module *)
Lemma In_somes um q : In q (somes um) <-> exists i, nth_error um i = Some (Some q).
Proof.
  induction um as [|[p|] t IH]; cbn [somes].
  - split; [intros [] | intros [[|i] H]; discriminate].
  - cbn [In]. rewrite IH. split.
    + intros [->|[i H]]; [exists O; reflexivity | exists (S i); exact H].
    + intros [[|i] H]; cbn in H; [inversion H; auto | right; eauto].
  - rewrite IH. split.
    + intros [i H]. exists (S i). exact H.
    + intros [[|i] H]; cbn in H; [discriminate | eauto].
Qed.

Lemma NoDup_somes um :
  (forall i i' q, nth_error um i = Some (Some q) -> nth_error um i' = Some (Some q) -> i = i') ->
  NoDup (somes um).
Proof.
  induction um as [|[p|] t IH]; cbn [somes]; intros H.
  - constructor.
  - constructor.
    + intros HI. apply In_somes in HI. destruct HI as [i HI].
      specialize (H O (S i) p eq_refl HI). discriminate.
    + apply IH. intros i i' q H1 H2. specialize (H (S i) (S i') q H1 H2). congruence.
  - apply IH. intros i i' q H1 H2. specialize (H (S i) (S i') q H1 H2). congruence.
Qed.

Lemma remove_all_spec nd ps : forall u u',
  remove_all nd ps u = Some u' ->
  forall x, In x u' <-> In x u /\ ~ (fst x = nd /\ In (snd x) ps).
Proof.
  induction ps as [|p t IH]; cbn [remove_all]; intros u u' H x.
  - inversion H; subst. cbn [In]. tauto.
  - destruct (mem2 (nd, p) u) eqn:E; [|discriminate].
    rewrite (IH _ _ H x), In_rem2. cbn [In]. destruct x as [x1 x2]. cbn [fst snd]. split.
    + intros [[H1 H2] H3]. split; [exact H1|]. intros [-> [->|H4]]; [apply H2; reflexivity | apply H3; auto].
    + intros [H1 H2]. split; [split; [exact H1|]|].
      * intros E'. inversion E'; subst. apply H2. auto.
      * intros [-> H4]. apply H2. auto.
Qed.

Lemma remove_all_total nd ps : forall u,
  NoDup ps -> (forall p, In p ps -> In (nd, p) u) -> exists u', remove_all nd ps u = Some u'.
Proof.
  induction ps as [|p t IH]; cbn [remove_all]; intros u ND HI.
  - eauto.
  - inversion ND as [|x xs Hn ND']; subst.
    rewrite (proj2 (mem2_In _ _) (HI p (or_introl eq_refl))).
    apply IH; [exact ND'|]. intros q Hq. apply In_rem2. split; [apply HI; right; exact Hq|].
    intros E. inversion E; subst. contradiction.
Qed.

(* ------------------------------------------------------------------ inv_init, inv_step, inv_reachable *)
Theorem inv_init : Inv init_state.
Proof.
  split; [constructor|]. split; [|split; [|split]].
  - intros nd app a i app' a' i' p H. discriminate.
  - intros nd p. cbn. split; [intros [] | intros [(app & a & i & H & _)|[]]; discriminate].
  - intros nd p [].
  - intros k [].
Qed.

Lemma um_of_mapped s nd app i p : um_of s (nd, app) i p -> mapped s nd p.
Proof. intros H. apply mapped_um_of. eauto. Qed.

Lemma inv_classical s k f :
  Inv s -> (forall a, a_um (fst (f a)) = a_um a) -> Inv (fst (classical s k f)).
Proof.
  intros HI Hf. unfold classical. destruct (aget pair_eqb k (apps s)) as [a|] eqn:E; [|exact HI].
  specialize (Hf a). destruct (f a) as [a' e]. cbn [fst] in *. eapply inv_put_app; eauto.
Qed.

Lemma inv_qalloc s nd app a a1 v :
  Inv s -> app_of s (nd, app) = Some a -> a_um a1 = a_um a -> Inv (fst (do_qalloc s nd (nd, app) a1 v)).
Proof.
  intros HI Hk Hum. unfold do_qalloc. rewrite Hum.
  destruct (slot (List.length (a_um a)) v) as [i| |]; try (eapply inv_put_app; eauto).
  destruct (nth_error (a_um a) i) as [[q|]|] eqn:En; try (eapply inv_put_app; eauto).
  destruct (first_unused nd (used s)) as [p|] eqn:Ef; [|eapply inv_put_app; eauto].
  cbn [fst]. apply first_unused_sound in Ef.
  pose proof HI as (K & I & U & F & G).
  apply (inv_add s _ nd app i p); try assumption.
  - apply keys_aset. exact K.
  - intros HM. apply Ef. apply U. left. exact HM.
  - intros k' i' p'. apply (um_of_set_slot s (nd, app) a); [exact Hk | exact En | reflexivity].
  - intros x. cbn [used In]. split; intros [H|H]; auto.
  - intros x. cbn [resv]. split; [|tauto]. intros H. split; [exact H|]. intros ->. apply Ef. apply U. right. exact H.
  - intros k' Hk'. cbn [shreg] in Hk'. apply registered_aset; [congruence | exact (G k' Hk')].
Qed.

Lemma inv_qfree s nd app a a1 v :
  Inv s -> app_of s (nd, app) = Some a -> a_um a1 = a_um a -> Inv (fst (do_qfree s nd (nd, app) a1 v)).
Proof.
  intros HI Hk Hum. unfold do_qfree. rewrite Hum.
  destruct (slot (List.length (a_um a)) v) as [i| |]; try (eapply inv_put_app; eauto).
  destruct (nth_error (a_um a) i) as [[p|]|] eqn:En; try (eapply inv_put_app; eauto).
  pose proof HI as (K & I & U & F & G).
  assert (HU : um_of s (nd, app) i p) by (exists a; auto).
  assert (Hin : In (nd, p) (used s)) by (apply U; left; eapply um_of_mapped; eauto).
  rewrite (proj2 (mem2_In _ _) Hin). cbn [fst].
  apply (inv_remove s _ (fun k' i' => k' = (nd, app) /\ i' = i)); try assumption.
  - apply keys_aset. exact K.
  - intros k' i' p'. apply (um_of_clear_slot s (nd, app) a); [exact Hk | reflexivity].
  - intros nd' q. cbn [used]. rewrite In_rem2. split.
    + intros [H NE]. split; [exact H|]. intros (app' & i' & [E ->] & H'). inversion E; subst.
      destruct H' as (a0 & H0 & H1). assert (a0 = a) by congruence. subst a0. apply NE. congruence.
    + intros [H ND]. split; [exact H|]. intros E. inversion E; subst. apply ND. exists app, i. auto.
  - intros x. cbn [resv]. tauto.
  - intros k' Hk'. cbn [shreg] in Hk'. apply registered_aset; [congruence | exact (G k' Hk')].
Qed.

Lemma stop_used_total s nd app a :
  Inv s -> app_of s (nd, app) = Some a ->
  exists u, remove_all nd (somes (a_um a)) (used s) = Some u.
Proof.
  intros (K & I & U & F & G) Hk. apply remove_all_total.
  - apply NoDup_somes. intros i i' q H1 H2. exact (proj2 (I nd app a i app a i' q Hk Hk H1 H2)).
  - intros p Hp. apply In_somes in Hp. destruct Hp as [i Hp]. apply U. left. exists app, a, i. auto.
Qed.

Lemma inv_stop s nd app : Inv s -> Inv (fst (step s (Stop nd app))).
Proof.
  intros HI. cbn [step]. destruct (aget pair_eqb (nd, app) (apps s)) as [a|] eqn:Hk; [|exact HI].
  destruct (stop_used_total s nd app a HI Hk) as [u Hu]. rewrite Hu. cbn [fst].
  pose proof HI as (K & I & U & F & G).
  apply (inv_remove s _ (fun k' i' => k' = (nd, app))); try assumption.
  - apply keys_adel. exact K.
  - intros k' i' p'. rewrite um_of_adel. tauto.
  - intros nd' q. cbn [used]. rewrite (remove_all_spec _ _ _ _ Hu (nd', q)). cbn [fst snd]. rewrite In_somes. split.
    + intros [H ND]. split; [exact H|]. intros (app' & i' & E & H'). inversion E; subst.
      destruct H' as (a0 & H0 & H1). assert (a0 = a) by (unfold app_of in H0; congruence). subst a0. apply ND. eauto.
    + intros [H ND]. split; [exact H|]. intros [-> [i Hi]]. apply ND. exists app, i. split; [reflexivity|]. exists a. auto.
  - intros x. cbn [resv]. tauto.
  - intros k' Hk'. cbn [shreg] in Hk'. apply In_rem2 in Hk'. destruct Hk' as [Hk1 Hk2].
    unfold app_of. cbn [apps]. rewrite aget_adel. destruct (pair_eqb k' (nd, app)) eqn:E.
    + apply pair_eqb_eq in E. contradiction.
    + exact (G k' Hk1).
Qed.

Lemma inv_init_app s nd app n : Inv s -> Inv (fst (step s (Init nd app n))).
Proof.
  intros HI. cbn [step]. destruct (aget pair_eqb (nd, app) (apps s)) as [a|] eqn:Hk; [exact HI|].
  destruct (mem2 (nd, app) (shreg s)) eqn:Em; [exact HI|]. cbn [fst].
  pose proof HI as (K & I & U & F & G).
  apply (inv_same s); try assumption.
  - apply keys_aset. exact K.
  - intros k' i p. rewrite um_of_aset. cbn [fresh_app a_um]. split.
    + intros [[_ H]|[_ H]]; [exfalso; exact (nth_error_repeat_None _ _ _ H) | exact H].
    + intros H. right. split; [|exact H]. intros ->. destruct H as (a0 & H0 & _). unfold app_of in H0. congruence.
  - intros x. cbn [used]. tauto.
  - intros x. cbn [resv]. tauto.
  - intros k' Hk'. cbn [shreg In] in Hk'. unfold app_of. cbn [apps]. rewrite aget_aset.
    destruct (pair_eqb k' (nd, app)) eqn:E; [discriminate|].
    apply pair_eqb_neq in E. destruct Hk' as [Hk'|Hk']; [congruence | exact (G k' Hk')].
Qed.

Lemma inv_reserve s nd : Inv s -> Inv (fst (step s (Reserve nd))).
Proof.
  intros HI. cbn [step]. destruct (first_unused nd (used s)) as [p|] eqn:Ef; [|exact HI]. cbn [fst].
  apply first_unused_sound in Ef. destruct HI as (K & I & U & F & G).
  split; [exact K|]. split; [exact I|]. split; [|split; [|exact G]].
  - intros nd' q. cbn [used resv In].
    change (mapped {| apps := apps s; used := (nd, p) :: used s; resv := (nd, p) :: resv s; shreg := shreg s |} nd' q)
      with (mapped s nd' q).
    rewrite (U nd' q). tauto.
  - intros nd' q. cbn [resv In].
    change (mapped {| apps := apps s; used := (nd, p) :: used s; resv := (nd, p) :: resv s; shreg := shreg s |} nd' q)
      with (mapped s nd' q).
    intros [E|H]; [|exact (F _ _ H)]. inversion E; subst. intros HM. apply Ef. apply U. left. exact HM.
Qed.

Lemma inv_do_keep s nd app a a1 qa ra p info :
  Inv s -> app_of s (nd, app) = Some a -> a_um a1 = a_um a ->
  (In (nd, p) (resv s) \/ ~ In (nd, p) (used s)) ->
  Inv (fst (do_keep s nd (nd, app) a1 qa ra p info)).
Proof.
  intros HI Hk Hum Hr. unfold do_keep.
  pose proof HI as (K & I & U & F & G).
  assert (NM : ~ mapped s nd p).
  { destruct Hr as [Hr|Hr]; [exact (F _ _ Hr) | intros HM; apply Hr; apply U; left; exact HM]. }
  assert (MARK : Inv (mkSt (aset pair_eqb (nd, app) a1 (apps s)) (add2 (nd, p) (used s)) (mark_resv s nd p) (shreg s))).
  { apply (inv_mark s _ (nd, p)); try assumption.
    - apply keys_aset. exact K.
    - intros k' i p'. rewrite um_of_aset. rewrite Hum. split.
      + intros [[-> H]|[_ H]]; [exists a; auto | exact H].
      + intros H. destruct (pair_dec k' (nd, app)) as [->|NE]; [|right; auto].
        left. split; [reflexivity|]. destruct H as (a0 & H0 & H1). congruence.
    - intros y. cbn [used]. apply In_add2.
    - intros y. cbn [resv]. unfold mark_resv. destruct (mem2 (nd, p) (used s)) eqn:Em.
      + apply mem2_In in Em. destruct Hr as [Hr|Hr]; [|contradiction]. split; [auto | intros [->|H]; auto].
      + cbn [In]. split; intros [H|H]; auto.
    - intros k' Hk'. cbn [shreg] in Hk'. apply registered_aset; [congruence | exact (G k' Hk')]. }
  destruct (aget Z.eqb qa (a_arrs a1)) as [[|[v|] l]|]; try (eapply inv_put_app; eauto).
  destruct (has_virtual (a_um a1) v); [eapply inv_put_app; eauto|].
  rewrite Hum.
  destruct (slot (List.length (a_um a)) v) as [i| |]; try (cbn [fst]; exact MARK).
  destruct (nth_error (a_um a) i) as [[q|]|] eqn:En; try (cbn [fst]; exact MARK).
  cbn [fst].
  apply (inv_add s _ nd app i p); try assumption.
  - apply keys_aset. exact K.
  - intros k' i' p'. apply (um_of_set_slot s (nd, app) a); [exact Hk | exact En |].
    destruct (aget Z.eqb ra (a_arrs (with_um a1 (set_nth (a_um a) i (Some p))))); reflexivity.
  - intros x. cbn [used]. apply In_add2.
  - intros x. cbn [resv]. apply In_rem2.
  - intros k' Hk'. cbn [shreg] in Hk'. apply registered_aset; [congruence | exact (G k' Hk')].
Qed.

Theorem inv_step s o : Inv s -> fresh_delivery s o -> Inv (fst (step s o)).
Proof.
  intros HI HF. destruct o as [nd app n|nd app|nd app v|nd app v|nd app r x|nd app addr len|nd app addr i x
                              |nd app r|nd app addr|nd|nd app v qa ra info|].
  - apply inv_init_app. exact HI.
  - apply inv_stop. exact HI.
  - cbn [step]. destruct (aget pair_eqb (nd, app) (apps s)) as [a|] eqn:Hk; [|exact HI].
    eapply inv_qalloc; eauto.
  - cbn [step]. destruct (aget pair_eqb (nd, app) (apps s)) as [a|] eqn:Hk; [|exact HI].
    eapply inv_qfree; eauto.
  - apply inv_classical; [exact HI | reflexivity].
  - apply inv_classical; [exact HI | intros a; rewrite um_i_array; reflexivity].
  - apply inv_classical; [exact HI | intros a; rewrite um_i_store; reflexivity].
  - apply inv_classical; [exact HI | intros a; apply um_i_ret_reg].
  - apply inv_classical; [exact HI | intros a; apply um_i_ret_arr].
  - apply inv_reserve. exact HI.
  - cbn [step]. destruct (aget pair_eqb (nd, app) (apps s)) as [a|] eqn:Hk; [|exact HI].
    destruct (Nat.eqb (List.length info) 10); [|exact HI].
    destruct (nth_error info 2) as [p|] eqn:E2; [|exact HI].
    destruct (nth_error info 5) as [purpose|]; [|exact HI].
    destruct (nth_error info 6) as [remote|]; [|exact HI].
    pose proof (um_keep_prefix v qa ra remote purpose a) as Hum.
    destruct (keep_prefix v qa ra remote purpose a) as [a' [e|]]; cbn [fst] in Hum.
    + cbn [fst]. eapply inv_put_app; eauto.
    + eapply inv_do_keep; [exact HI | exact Hk | exact Hum | apply (HF p); exact E2].
  - (* ResetMem: the registry is emptied, everything else stays *)
    cbn [step fst]. destruct HI as (K & I & U & F & G). split; [exact K|]. split; [exact I|].
    split; [exact U|]. split; [exact F|]. intros k [].
Qed.

Theorem inv_reachable s : reachable s -> Inv s.
Proof. induction 1 as [|s o _ IH HF]; [exact inv_init | exact (inv_step s o IH HF)]. Qed.

(* ------------------------------------------------------------------ isolation *)
Lemma app_of_put s k a' k' : k' <> k -> app_of (put_app s k a') k' = app_of s k'.
Proof.
  intros NE. unfold app_of, put_app. cbn [apps]. rewrite aget_aset.
  destruct (pair_eqb k' k) eqn:E; [apply pair_eqb_eq in E; contradiction | reflexivity].
Qed.

Lemma app_of_aset s k a' u r g k' :
  k' <> k -> app_of (mkSt (aset pair_eqb k a' (apps s)) u r g) k' = app_of s k'.
Proof.
  intros NE. unfold app_of. cbn [apps]. rewrite aget_aset.
  destruct (pair_eqb k' k) eqn:E; [apply pair_eqb_eq in E; contradiction | reflexivity].
Qed.

Lemma app_of_adel s k u r g k' :
  k' <> k -> app_of (mkSt (adel pair_eqb k (apps s)) u r g) k' = app_of s k'.
Proof.
  intros NE. unfold app_of. cbn [apps]. rewrite aget_adel.
  destruct (pair_eqb k' k) eqn:E; [apply pair_eqb_eq in E; contradiction | reflexivity].
Qed.

Lemma iso_classical s k f k' : k' <> k -> app_of (fst (classical s k f)) k' = app_of s k'.
Proof.
  intros NE. unfold classical. destruct (aget pair_eqb k (apps s)) as [a|]; [|reflexivity].
  destruct (f a) as [a' e]. cbn [fst]. apply app_of_put. exact NE.
Qed.

Lemma iso_qalloc s nd k a v k' : k' <> k -> app_of (fst (do_qalloc s nd k a v)) k' = app_of s k'.
Proof.
  intros NE. unfold do_qalloc.
  destruct (slot (List.length (a_um a)) v) as [i| |]; try (apply app_of_put; exact NE).
  destruct (nth_error (a_um a) i) as [[q|]|]; try (apply app_of_put; exact NE).
  destruct (first_unused nd (used s)); [|apply app_of_put; exact NE].
  cbn [fst]. apply app_of_aset. exact NE.
Qed.

Lemma iso_qfree s nd k a v k' : k' <> k -> app_of (fst (do_qfree s nd k a v)) k' = app_of s k'.
Proof.
  intros NE. unfold do_qfree.
  destruct (slot (List.length (a_um a)) v) as [i| |]; try (apply app_of_put; exact NE).
  destruct (nth_error (a_um a) i) as [[q|]|]; try (apply app_of_put; exact NE).
  destruct (mem2 (nd, q) (used s)); [cbn [fst]; apply app_of_aset; exact NE | apply app_of_put; exact NE].
Qed.

Lemma iso_keep s nd k a qa ra p info k' :
  k' <> k -> app_of (fst (do_keep s nd k a qa ra p info)) k' = app_of s k'.
Proof.
  intros NE. unfold do_keep.
  destruct (aget Z.eqb qa (a_arrs a)) as [[|[v|] l]|]; try (apply app_of_put; exact NE).
  destruct (has_virtual (a_um a) v); [apply app_of_put; exact NE|].
  destruct (slot (List.length (a_um a)) v) as [i| |]; try (cbn [fst]; apply app_of_aset; exact NE).
  destruct (nth_error (a_um a) i) as [[q|]|]; cbn [fst]; apply app_of_aset; exact NE.
Qed.

(* a step of application k (or of the environment) leaves the whole state of every
   other application -- unit module, registers, arrays, shared memory -- as it was *)
Theorem isolation s o k' : op_pid o <> Some k' -> app_of (fst (step s o)) k' = app_of s k'.
Proof.
  intros NE.
  destruct o as [nd app n|nd app|nd app v|nd app v|nd app r x|nd app addr len|nd app addr i x
                |nd app r|nd app addr|nd|nd app v qa ra info|]; cbn [op_pid] in NE;
    try (assert (NE' : k' <> (nd, app)) by (intros ->; apply NE; reflexivity)); cbn [step];
    try (apply iso_classical; exact NE').
  - destruct (aget pair_eqb (nd, app) (apps s)); [reflexivity|].
    destruct (mem2 (nd, app) (shreg s)); [reflexivity|]. cbn [fst]. apply app_of_aset. exact NE'.
  - destruct (aget pair_eqb (nd, app) (apps s)) as [a|]; [|reflexivity].
    destruct (remove_all nd (somes (a_um a)) (used s)); cbn [fst]; apply app_of_adel; exact NE'.
  - destruct (aget pair_eqb (nd, app) (apps s)); [|reflexivity]. apply iso_qalloc. exact NE'.
  - destruct (aget pair_eqb (nd, app) (apps s)); [|reflexivity]. apply iso_qfree. exact NE'.
  - destruct (first_unused nd (used s)); reflexivity.
  - destruct (aget pair_eqb (nd, app) (apps s)) as [a|]; [|reflexivity].
    destruct (Nat.eqb (List.length info) 10); [|reflexivity].
    destruct (nth_error info 2); [|reflexivity].
    destruct (nth_error info 5); [|reflexivity].
    destruct (nth_error info 6); [|reflexivity].
    destruct (keep_prefix v qa ra z1 z0 a) as [a' [e|]]; [cbn [fst]; apply app_of_put; exact NE' | apply iso_keep; exact NE'].
  - reflexivity.
Qed.

(* and the physical qubits another application holds stay marked in use and stay its own *)
Theorem isolation_qubits s o nd' app' a i p :
  Inv s -> fresh_delivery s o -> op_pid o <> Some (nd', app') ->
  app_of s (nd', app') = Some a -> nth_error (a_um a) i = Some (Some p) ->
  let s' := fst (step s o) in
  In (nd', p) (used s') /\
  (forall app2 a2 i2, app_of s' (nd', app2) = Some a2 -> nth_error (a_um a2) i2 = Some (Some p) ->
                      app2 = app' /\ i2 = i).
Proof.
  intros HI HF NE Hk Hn s'. pose proof (inv_step s o HI HF) as (K & I & U & F & G). fold s' in K, I, U, F, G.
  assert (Hk' : app_of s' (nd', app') = Some a) by (unfold s'; rewrite isolation; assumption).
  split.
  - apply U. left. exists app', a, i. auto.
  - intros app2 a2 i2 H2 Hn2. exact (I nd' app2 a2 i2 app' a i p H2 Hk' Hn2 Hn).
Qed.

(* ------------------------------------------------------------------ used = image when nothing is in flight *)
Theorem used_is_image s :
  Inv s -> resv s = [] -> forall nd p, In (nd, p) (used s) <-> mapped s nd p.
Proof.
  intros (_ & _ & U & _ & _) E nd p. rewrite (U nd p), E. cbn [In]. tauto.
Qed.

(* ------------------------------------------------------------------ stop / re-register *)
Theorem stop_releases s nd app a :
  Inv s -> app_of s (nd, app) = Some a ->
  let r := step s (Stop nd app) in
  snd r = Done /\
  app_of (fst r) (nd, app) = None /\
  ~ In (nd, app) (shreg (fst r)) /\
  (forall x, In x (used (fst r)) <->
             In x (used s) /\ ~ (fst x = nd /\ exists i, nth_error (a_um a) i = Some (Some (snd x)))) /\
  resv (fst r) = resv s.
Proof.
  intros HI Hk r. unfold r. cbn [step]. unfold app_of in Hk. rewrite Hk.
  destruct (stop_used_total s nd app a HI Hk) as [u Hu]. rewrite Hu. cbn [fst snd].
  split; [reflexivity|]. split; [|split; [|split; [|reflexivity]]].
  - unfold app_of. cbn [apps]. rewrite aget_adel, pair_eqb_refl. reflexivity.
  - cbn [shreg]. rewrite In_rem2. tauto.
  - intros x. cbn [used]. rewrite (remove_all_spec _ _ _ _ Hu x), In_somes. tauto.
Qed.

Theorem register_ok s nd app n :
  Inv s -> app_of s (nd, app) = None ->
  let r := step s (Init nd app n) in
  snd r = Done /\ app_of (fst r) (nd, app) = Some (fresh_app n).
Proof.
  intros (_ & _ & _ & _ & G) Hk r. unfold r. cbn [step]. unfold app_of in Hk. rewrite Hk.
  destruct (mem2 (nd, app) (shreg s)) eqn:E.
  - apply mem2_In in E. apply G in E. unfold app_of in E. contradiction.
  - cbn [fst snd]. split; [reflexivity|]. unfold app_of. cbn [apps]. rewrite aget_aset, pair_eqb_refl. reflexivity.
Qed.

Theorem reregister_ok s nd app a n :
  Inv s -> app_of s (nd, app) = Some a ->
  let s1 := fst (step s (Stop nd app)) in
  let r := step s1 (Init nd app n) in
  snd r = Done /\ app_of (fst r) (nd, app) = Some (fresh_app n).
Proof.
  intros HI Hk s1. apply register_ok.
  - apply inv_stop. exact HI.
  - exact (proj1 (proj2 (stop_releases s nd app a HI Hk))).
Qed.

(* ------------------------------------------------------------------ the model-only faults never happen *)
Theorem no_internal_fault s o :
  Inv s -> fresh_delivery s o ->
  snd (step s o) <> Fault EUsedMissing /\ snd (step s o) <> Fault EFuel.
Proof.
  intros HI HF.
  assert (C : forall k f, (forall a, snd (f a) <> Some EUsedMissing /\ snd (f a) <> Some EFuel) ->
                          snd (classical s k f) <> Fault EUsedMissing /\ snd (classical s k f) <> Fault EFuel).
  { intros k f Hf. unfold classical. destruct (aget pair_eqb k (apps s)) as [a|]; [|split; discriminate].
    specialize (Hf a). destruct (f a) as [a' [e|]]; cbn [snd] in *; [|split; discriminate].
    destruct Hf. split; congruence. }
  destruct o as [nd app n|nd app|nd app v|nd app v|nd app r x|nd app addr len|nd app addr i x
                |nd app r|nd app addr|nd|nd app v qa ra info|]; cbn [step].
  - destruct (aget pair_eqb (nd, app) (apps s)); [split; discriminate|].
    destruct (mem2 (nd, app) (shreg s)); split; discriminate.
  - destruct (aget pair_eqb (nd, app) (apps s)) as [a|] eqn:Hk; [|split; discriminate].
    destruct (stop_used_total s nd app a HI Hk) as [u Hu]. rewrite Hu. split; discriminate.
  - destruct (aget pair_eqb (nd, app) (apps s)) as [a|] eqn:Hk; [|split; discriminate].
    unfold do_qalloc. destruct (slot _ v) as [i| |]; try (split; discriminate).
    destruct (nth_error _ i) as [[q|]|]; try (split; discriminate).
    pose proof (first_unused_total nd (used s)) as T.
    destruct (first_unused nd (used s)); [split; discriminate | contradiction].
  - destruct (aget pair_eqb (nd, app) (apps s)) as [a|] eqn:Hk; [|split; discriminate].
    unfold do_qfree. cbn [i_set with_regs a_um].
    destruct (slot _ v) as [i| |]; try (split; discriminate).
    destruct (nth_error (a_um a) i) as [[q|]|] eqn:En; try (split; discriminate).
    destruct HI as (_ & _ & U & _ & _).
    assert (Hin : In (nd, q) (used s)) by (apply U; left; exists app, a, i; auto).
    rewrite (proj2 (mem2_In _ _) Hin). split; discriminate.
  - apply C. intros a. split; discriminate.
  - apply C. intros a. unfold i_array. destruct (aget pair_eqb R0 _); split; discriminate.
  - apply C. intros a. unfold i_store. destruct (aget pair_eqb R0 _); [|split; discriminate].
    destruct (aget Z.eqb addr _); [|split; discriminate]. destruct (Nat.ltb i _); split; discriminate.
  - apply C. intros a. unfold i_ret_reg. destruct (aget pair_eqb r _); split; discriminate.
  - apply C. intros a. unfold i_ret_arr. destruct (aget Z.eqb addr _); split; discriminate.
  - pose proof (first_unused_total nd (used s)) as T.
    destruct (first_unused nd (used s)); [split; discriminate | contradiction].
  - destruct (aget pair_eqb (nd, app) (apps s)) as [a|]; [|split; discriminate].
    destruct (Nat.eqb (List.length info) 10); [|split; discriminate].
    destruct (nth_error info 2); [|split; discriminate].
    destruct (nth_error info 5); [|split; discriminate].
    destruct (nth_error info 6); [|split; discriminate].
    assert (P : forall e, snd (keep_prefix v qa ra z1 z0 a) = Some e -> e <> EUsedMissing /\ e <> EFuel).
    { intros e. unfold keep_prefix, bind, i_array, i_store.
      repeat match goal with
             | |- context [match aget ?q ?k ?l with _ => _ end] => destruct (aget q k l)
             | |- context [if ?c then _ else _] => destruct c
             end; cbn [snd]; intros H; inversion H; split; discriminate. }
    destruct (keep_prefix v qa ra z1 z0 a) as [a' [e|]].
    + cbn [snd] in *. destruct (P e eq_refl). split; congruence.
    + unfold do_keep. destruct (aget Z.eqb qa (a_arrs a')) as [[|[v'|] l]|]; try (split; discriminate).
      destruct (has_virtual _ v'); [split; discriminate|].
      destruct (slot _ v') as [i| |]; try (split; discriminate).
      destruct (nth_error _ i) as [[q|]|]; split; discriminate.
  - split; discriminate.
Qed.

(* the pool hands out the least unused physical qubit (what the code's count(0) loop does) *)
Lemma first_unused_from_least fuel nd p u q :
  first_unused_from fuel nd p u = Some q -> forall j, p <= j < q -> In (nd, j) u.
Proof.
  revert p. induction fuel as [|f IH]; intros p; cbn [first_unused_from]; [discriminate|].
  destruct (mem2 (nd, p) u) eqn:E.
  - intros H j Hj. destruct (Z.eq_dec j p) as [->|NE]; [apply mem2_In; exact E|].
    apply (IH _ H). lia.
  - intros H j Hj. inversion H; subst. lia.
Qed.

Theorem first_unused_least nd u q :
  first_unused nd u = Some q -> 0 <= q /\ ~ In (nd, q) u /\ forall j, 0 <= j < q -> In (nd, j) u.
Proof.
  intros H. destruct (first_unused_from_sound _ _ _ _ _ H) as [H1 H2].
  split; [exact H2|]. split; [exact H1|]. exact (first_unused_from_least _ _ _ _ _ H).
Qed.

(* ------------------------------------------------------------------ without the delivery contract *)
Definition bad_history : list op :=
  [Init 0 0 2; Init 0 1 2; QAlloc 0 0 0].
Definition bad_info : list Z := [0; 7; 0; 1; 0; 0; 1; 3; 4; 1].     (* a keep response naming physical qubit 0 *)
Definition bad_keep : op := Keep 0 1 0 0 1 bad_info.

Lemma bad_reachable : reachable (run init_state bad_history).
Proof.
  unfold bad_history. cbn [run].
  apply reach_step; [|exact I]. apply reach_step; [|exact I]. apply reach_step; [|exact I]. apply reach_init.
Qed.

(* a keep response that names an already mapped physical qubit double-maps it;
   the first free then un-marks it and the second free hits set.remove -> KeyError *)
Theorem inv_without_fresh_refuted :
  exists s o, reachable s /\ ~ fresh_delivery s o /\ snd (step s o) = Done /\ ~ Inv (fst (step s o)) /\
              snd (step (run (fst (step s o)) [QFree 0 0 0]) (QFree 0 1 0)) = Fault EUsedMissing.
Proof.
  exists (run init_state bad_history), bad_keep.
  split; [exact bad_reachable|]. split; [|split; [vm_compute; reflexivity|split]].
  - intros H. specialize (H 0 eq_refl). destruct H as [H|H]; [vm_compute in H; exact H | apply H; vm_compute; left; reflexivity].
  - intros (_ & I & _).
    assert (E : 0 = 1 /\ O = O).
    { eapply (I 0 0 _ O 1 _ O 0); vm_compute; reflexivity. }
    destruct E as [E _]. discriminate.
  - vm_compute. reflexivity.
Qed.

(* ------------------------------------------------------------------ other nodes, other registry keys *)
Definition same_elsewhere (nd : Z) (s s' : state) : Prop :=
  forall x, fst x <> nd -> (In x (used s') <-> In x (used s)) /\ (In x (resv s') <-> In x (resv s)).

Lemma se_refl nd s : same_elsewhere nd s s.
Proof. intros x _. tauto. Qed.

Lemma se_put nd s k a : same_elsewhere nd s (put_app s k a).
Proof. intros x _. cbn. tauto. Qed.

Lemma se_classical nd s k f : same_elsewhere nd s (fst (classical s k f)).
Proof.
  unfold classical. destruct (aget pair_eqb k (apps s)) as [a|]; [|apply se_refl].
  destruct (f a). apply se_put.
Qed.

(* the pool, the reserved set and the used set of another node are not touched *)
Theorem isolation_nodes s o : same_elsewhere (op_node o) s (fst (step s o)).
Proof.
  destruct o as [nd app n|nd app|nd app v|nd app v|nd app r x|nd app addr len|nd app addr i x
                |nd app r|nd app addr|nd|nd app v qa ra info|]; cbn [op_node step];
    try apply se_classical.
  - destruct (aget pair_eqb (nd, app) (apps s)); [apply se_refl|].
    destruct (mem2 (nd, app) (shreg s)); [apply se_refl|]. intros x _. cbn. tauto.
  - destruct (aget pair_eqb (nd, app) (apps s)) as [a|]; [|apply se_refl].
    destruct (remove_all nd (somes (a_um a)) (used s)) as [u|] eqn:Hu; [|intros x _; cbn; tauto].
    intros x Hx. cbn [fst used resv]. rewrite (remove_all_spec _ _ _ _ Hu x). tauto.
  - destruct (aget pair_eqb (nd, app) (apps s)) as [a|]; [|apply se_refl].
    unfold do_qalloc. destruct (slot _ v) as [i| |]; try apply se_put.
    destruct (nth_error _ i) as [[q|]|]; try apply se_put.
    destruct (first_unused nd (used s)) as [p|]; [|apply se_put].
    intros x Hx. cbn [fst used resv In]. split; [|tauto]. split; [intros [<-|H]; [contradiction Hx; reflexivity | exact H] | auto].
  - destruct (aget pair_eqb (nd, app) (apps s)) as [a|]; [|apply se_refl].
    unfold do_qfree. destruct (slot _ v) as [i| |]; try apply se_put.
    destruct (nth_error _ i) as [[q|]|]; try apply se_put.
    destruct (mem2 (nd, q) (used s)); [|apply se_put].
    intros x Hx. cbn [fst used resv]. rewrite In_rem2. split; [|tauto].
    split; [tauto|]. intros H. split; [exact H|]. intros ->. apply Hx. reflexivity.
  - destruct (first_unused nd (used s)) as [p|]; [|apply se_refl].
    intros x Hx. cbn [fst used resv In].
    split; (split; [intros [<-|H]; [contradiction Hx; reflexivity | exact H] | auto]).
  - destruct (aget pair_eqb (nd, app) (apps s)) as [a|]; [|apply se_refl].
    destruct (Nat.eqb (List.length info) 10); [|apply se_refl].
    destruct (nth_error info 2) as [p|]; [|apply se_refl].
    destruct (nth_error info 5); [|apply se_refl].
    destruct (nth_error info 6); [|apply se_refl].
    destruct (keep_prefix v qa ra z0 z a) as [a' [e|]]; [apply se_put|].
    assert (A : forall l x, fst x <> nd -> (In x (add2 (nd, p) l) <-> In x l)).
    { intros l x Hx. rewrite In_add2. split; [intros [->|H]; [contradiction Hx; reflexivity | exact H] | auto]. }
    unfold do_keep. destruct (aget Z.eqb qa (a_arrs a')) as [[|[v'|] l]|]; try apply se_put.
    destruct (has_virtual _ v'); [apply se_put|].
    assert (B : forall x, fst x <> nd -> (In x (mark_resv s nd p) <-> In x (resv s))).
    { intros x Hx. unfold mark_resv. destruct (mem2 (nd, p) (used s)); [tauto|]. cbn [In].
      split; [intros [<-|H]; [contradiction Hx; reflexivity | exact H] | auto]. }
    destruct (slot _ v') as [i| |]; try (intros x Hx; cbn [fst used resv]; rewrite (A _ x Hx), (B x Hx); tauto).
    destruct (nth_error _ i) as [[q|]|]; try (intros x Hx; cbn [fst used resv]; rewrite (A _ x Hx), (B x Hx); tauto).
    intros x Hx. cbn [fst used resv]. rewrite (A _ x Hx), In_rem2. split; [tauto|].
    split; [tauto|]. intros H. split; [exact H|]. intros ->. apply Hx. reflexivity.
  - intros x _. cbn. tauto.
Qed.

(* the SharedMemoryManager entry of every other (node, app) key is left as it was *)
Theorem isolation_registry s o k' :
  o <> ResetMem -> op_pid o <> Some k' -> (In k' (shreg (fst (step s o))) <-> In k' (shreg s)).
Proof.
  intros NR NE.
  assert (C : forall k f, shreg (fst (classical s k f)) = shreg s).
  { intros k f. unfold classical. destruct (aget pair_eqb k (apps s)) as [a|]; [|reflexivity]. destruct (f a). reflexivity. }
  destruct o as [nd app n|nd app|nd app v|nd app v|nd app r x|nd app addr len|nd app addr i x
                |nd app r|nd app addr|nd|nd app v qa ra info|]; cbn [op_pid] in NE;
    try (assert (NE' : k' <> (nd, app)) by (intros ->; apply NE; reflexivity)); cbn [step];
    try (rewrite C; tauto).
  - destruct (aget pair_eqb (nd, app) (apps s)); [tauto|].
    destruct (mem2 (nd, app) (shreg s)); [tauto|]. cbn [fst shreg In]. split; [intros [E|H]; [congruence | exact H] | auto].
  - destruct (aget pair_eqb (nd, app) (apps s)) as [a|]; [|tauto].
    destruct (remove_all nd (somes (a_um a)) (used s)); cbn [fst shreg]; [rewrite In_rem2|]; tauto.
  - destruct (aget pair_eqb (nd, app) (apps s)) as [a|]; [|tauto].
    unfold do_qalloc. destruct (slot _ v) as [i| |]; try tauto.
    destruct (nth_error _ i) as [[q|]|]; try tauto. destruct (first_unused nd (used s)); tauto.
  - destruct (aget pair_eqb (nd, app) (apps s)) as [a|]; [|tauto].
    unfold do_qfree. destruct (slot _ v) as [i| |]; try tauto.
    destruct (nth_error _ i) as [[q|]|]; try tauto. destruct (mem2 (nd, q) (used s)); tauto.
  - destruct (first_unused nd (used s)); tauto.
  - destruct (aget pair_eqb (nd, app) (apps s)) as [a|]; [|tauto].
    destruct (Nat.eqb (List.length info) 10); [|tauto].
    destruct (nth_error info 2) as [p|]; [|tauto].
    destruct (nth_error info 5); [|tauto].
    destruct (nth_error info 6); [|tauto].
    destruct (keep_prefix v qa ra z0 z a) as [a' [e|]]; [tauto|].
    unfold do_keep. destruct (aget Z.eqb qa (a_arrs a')) as [[|[v'|] l]|]; try tauto.
    destruct (has_virtual _ v'); [tauto|].
    destruct (slot _ v') as [i| |]; try tauto.
    destruct (nth_error _ i) as [[q|]|]; tauto.
  - contradiction NR; reflexivity.
Qed.

(* registering an application id that is registered is refused whatever the shared-memory
   registry says (e.g. after an external reset_memories()), and changes nothing *)
Theorem register_live_refused s nd app n a :
  app_of s (nd, app) = Some a -> step s (Init nd app n) = (s, Fault EAlready).
Proof. intros H. cbn [step]. unfold app_of in H. rewrite H. reflexivity. Qed.
