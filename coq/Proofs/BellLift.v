(* BellLift.v — C10 part (a) in every ring with omega: the SDK's correction computed in
   R maps the R-image of |B_b> to omega^p times the R-image of |Phi+>. *)
From Coq Require Import ZArith List Bool Ring_theory.
From NQ Require Import Base.Cyclo Base.QMat Epr.BellRing Proofs.CycloProofs Proofs.QMatLift Proofs.BellProofs.
Import ListNotations.

Section BellLift.
  Variable R : Type.
  Variables (rO rI : R) (radd rmul rsub : R -> R -> R) (ropp : R -> R).
  Hypothesis Rth : ring_theory rO rI radd rmul rsub ropp (@eq R).
  Variables (omega half : R).
  Hypothesis omega32 : opow R rI rmul omega 32 = ropp rI.
  Hypothesis half2 : rmul (radd rI rI) half = rI.

  Local Notation ev := (QMatLift.ev R rO rI radd rmul ropp omega half).
  Local Notation mev := (map (map ev)).

  Definition bell_fix_in (num : list (bell * Z)) (corr : list (Z * list qop)) : Prop :=
    forall b idx, In (b, idx) num ->
      exists ops UR p, assocZ idx corr = Some ops /\
        rcircuit R rO rI radd rmul ropp omega half 1 ops = Some UR /\ (p < 64)%nat /\
        rmmul R rO radd rmul (rkron R rmul UR (rmid R rO rI 2)) (mev (bell_vec b)) =
          rmscale R rmul (opow R rI rmul omega p) (mev (bell_vec BPhiPlus)).

  Lemma bell_fix_lifts : forall num corr, bell_fix_stmt num corr -> bell_fix_in num corr.
  Proof.
    intros num corr H b idx Hin. destruct (H b idx Hin) as [ops [U [Ha [Hc [p [Hp E]]]]]].
    exists ops, (mev U), p. split; [exact Ha|]. split.
    - exact (circuit_image R rO rI radd rmul rsub ropp Rth omega half omega32 half2 1 ops U Hc).
    - split; [exact Hp|].
      assert (Hd : dims_ok 4 1 (bell_vec b) = true) by (destruct b; reflexivity).
      unfold fixed_state in E.
      rewrite <- (mev_mid R rO rI radd rmul rsub ropp Rth omega half 2).
      rewrite <- (mev_kron R rO rI radd rmul rsub ropp Rth omega half omega32 half2).
      rewrite <- (mmul_lift_dims R rO rI radd rmul rsub ropp Rth omega half omega32 half2 3 1 _ _ Hd).
      rewrite E.
      rewrite (mev_mscale R rO rI radd rmul rsub ropp Rth omega half omega32 half2).
      rewrite (ev_kw R rO rI radd rmul rsub ropp Rth omega half omega32). reflexivity.
  Qed.
End BellLift.
