(* Bridge_E2E_WireTotal.v — the premise "the back end produced bytes for every flush" of
   the end-to-end theorem through bytes, reduced with builder-asm's lemmas
     AsmBuildTotal.assemble_total  (build succeeds on machine form when the flavour table
                                    covers the program's mnemonics)
     WireRange.assemble_encodes    (the encoder accepts when the source operand values fit)
   to: enough scratch registers (P2) and "the values fit the binary format" (C16). *)
From Coq Require Import ZArith List Bool Arith Lia String.
From NQ Require Import Sdk.SdkAst Sdk.Target Sdk.Eval Sdk.MemMgr Sdk.Lower Sdk.Flatten Sdk.Wf.
From NQ Require Import Proofs.SdkTopProofs Proofs.SdkCodeOk.
From NQ Require Base.Bits Lang.Codec Lang.CodecCheck Lang.Asm Lang.AsmSemQ.
From NQ Require Proofs.AsmProofs Proofs.AsmQMachine Proofs.AsmBuildTotal Proofs.WireBridge Proofs.WireRange.
From NQ Require Exec.State Exec.SemQ.
From NQ Require Proofs.Bridge_AsmQ Proofs.Bridge_SdkAsm Proofs.Bridge_E2E Proofs.Bridge_E2E_H1 Proofs.Bridge_E2E_Wire.
Import ListNotations.

Module BS := NQ.Proofs.Bridge_SdkAsm.
Module E2E := NQ.Proofs.Bridge_E2E.
Module H1 := NQ.Proofs.Bridge_E2E_H1.
Module W := NQ.Proofs.Bridge_E2E_Wire.
Module MF := NQ.Proofs.AsmQMachine.
Module BT := NQ.Proofs.AsmBuildTotal.
Module WR := NQ.Proofs.WireRange.

(* the mnemonics the SDK lowering can emit (Bridge_SdkAsm.t_fcmd) *)
Local Open Scope string_scope.
Definition sdk_mnemonics : list string :=
  ["set"; "qalloc"; "init"; "qfree"; "x"; "y"; "z"; "h"; "k"; "s"; "t"; "rot_x"; "rot_y"; "rot_z";
   "cnot"; "cphase"; "meas"; "store"; "load"; "add"; "addm"; "array"; "ret_arr"; "ret_reg";
   "jmp"; "beq"; "bne"; "blt"; "bge"; "bez"; "bnz"].
Local Close Scope string_scope.

Lemma t_fcmd_mnemonic : forall x mn args ops, BS.t_fcmd x = Some (Asm.AIns mn args ops) -> In mn sdk_mnemonics.
Proof.
  intros x mn args ops H. destruct x as [i|cnd x y l|l|l].
  - destruct i as [r z|o r|ax r n d|t r1 r2|q m|v a0 ix|r a0 ix|d x y|d x y m|n a0|a0|r|k];
      cbn [BS.t_fcmd BS.t_instr] in H; try discriminate; try (destruct o as [| | |g]; try destruct g);
      try (destruct ax); try (destruct t); inversion H; subst; cbn; tauto.
  - destruct cnd; cbn [BS.t_fcmd] in H; inversion H; subst; cbn; tauto.
  - cbn in H. inversion H; subst. cbn. tauto.
  - cbn in H. discriminate.
Qed.

Lemma t_prog_mnemonics : forall c P, BS.t_prog c = Some P ->
  forall mn args ops, In (Asm.AIns mn args ops) P -> In mn sdk_mnemonics.
Proof.
  intros c P H mn args ops Hin. destruct (H1.t_prog_in _ _ _ H Hin) as (x & _ & Hx).
  eapply t_fcmd_mnemonic; eauto.
Qed.

(* what is asked of the flavour table (decidable; checked on the regenerated table) *)
Definition table_ok (t : list Codec.row) : bool :=
  forallb (BT.row_covers t) sdk_mnemonics && BT.row_covers t Asm.SET && WR.table_std t.

(* the encoder-side premise (C16): in every flushed block all operand values fit their binary
   fields, and the assembled block has fewer than 2^31 instructions *)
Definition block_fits (pr : Asm.aparams) (t : list Codec.row) (P : list Asm.acmd) : bool :=
  WR.src_fits (Asm.ap_exempt pr) t P &&
  match Asm.assemble pr t P with
  | Asm.AOk B => Z.ltb (Z.of_nat (List.length B)) (2 ^ 31)
  | Asm.AErr _ => true
  end.

Definition blocks_fit (pr : Asm.aparams) (t : list Codec.row) (bs : list (option (list sir))) : bool :=
  forallb (fun b => match b with
                    | None => true
                    | Some code => match BS.t_prog (flatten code) with
                                   | Some P => block_fits pr t P
                                   | None => false
                                   end
                    end) bs.

Theorem wire_total : forall pr t h cap v0 v1 app bs,
  MF.qexempt_exact (Asm.ap_exempt pr) = true -> (Asm.ap_nreg pr <= 16)%nat ->
  MF.bank_valid (Asm.ap_bankR pr) = true -> table_ok t = true ->
  Bits.fits_all (Codec.h_layout h) [v0; v1; app] = true ->
  (forall b, In (Some b) bs -> BS.code_ok cap (flatten b) = true) ->
  H1.blocks_scratch_ok pr bs = true ->          (* P2 *)
  blocks_fit pr t bs = true ->                  (* the values fit the binary format *)
  exists bl, W.wire_blocks pr t h v0 v1 app bs = Some bl.
Proof.
  intros pr t h cap v0 v1 app bs Hq Hn Hb Ht Hh. unfold table_ok in Ht.
  apply andb_prop in Ht. destruct Ht as [Ht Hstd]. apply andb_prop in Ht. destruct Ht as [Hcov Hset].
  induction bs as [|[code|] bs IH]; intros Hok Hs Hf; cbn [W.wire_blocks].
  - eexists; reflexivity.
  - cbn [H1.blocks_scratch_ok blocks_fit forallb] in Hs, Hf.
    apply andb_prop in Hs. destruct Hs as [Hs1 Hs2]. apply andb_prop in Hf. destruct Hf as [Hf1 Hf2].
    destruct (IH (fun b Hin => Hok b (or_intror Hin)) Hs2 Hf2) as [bl Hbl]. rewrite Hbl.
    unfold W.wire_block.
    destruct (BS.t_prog (flatten code)) as [P|] eqn:HP; [|discriminate].
    unfold block_fits in Hf1. apply andb_prop in Hf1. destruct Hf1 as [Hsrc Hlen].
    destruct (BT.assemble_total pr t P Hq (BS.t_prog_wf _ _ HP) (H1.t_prog_labels_defined _ _ HP)
                (BT.table_covers_of t sdk_mnemonics P Hcov Hset (t_prog_mnemonics _ _ HP))
                (H1.t_prog_labels_nodup _ _ HP)) as [B HB].
    { intros c Hc. unfold H1.scratch_ok in Hs1. rewrite forallb_forall in Hs1. apply Nat.leb_le. apply Hs1. exact Hc. }
    rewrite HB in Hlen |- *.
    destruct (WR.assemble_encodes pr t P B h v0 v1 app Hstd Hn Hb Hsrc HB ltac:(apply Z.ltb_lt; exact Hlen) Hh) as [bytes Hbytes].
    rewrite Hbytes. eexists; reflexivity.
  - cbn [H1.blocks_scratch_ok blocks_fit forallb] in Hs, Hf. apply IH; auto.
    intros b Hin. apply Hok. right. exact Hin.
Qed.

(* END TO END THROUGH BYTES, premises reduced to P1, P2 and "the values fit" *)
Theorem sdk_end_to_end_wire_total : forall pr t h cap v0 v1 app segs script e bs stL,
  AsmProofs.params_ok pr = true -> MF.qexempt_exact (Asm.ap_exempt pr) = true ->
  (Asm.ap_nreg pr <= 16)%nat -> MF.bank_valid (Asm.ap_bankR pr) = true ->
  Codec.header_ok h = true -> Codec.wf_table t = true -> table_ok t = true ->
  Bits.fits_all (Codec.h_layout h) [v0; v1; app] = true ->
  Forall (fun seg => bwfs seg = true) segs ->
  eval_prog (prog_of segs) script = Some e ->
  lower_prog true (prog_of segs) = Ok (bs, stL) ->
  qpeak segs <= cap ->
  H1.blocks_scratch_ok pr bs = true ->
  blocks_fit pr t bs = true ->
  exists bl qps fuel s,
    W.wire_blocks pr t h v0 v1 app bs = Some bl /\
    W.unwire_blocks t h bl = Some qps /\
    E2E.qrun_blocks fuel qps (SemQ.mkQ (State.init_state cap) script []) = (s, State.Halt) /\
    BS.inst_trace (SemQ.q_trace s) = e_trace e /\
    (forall a, State.find Z.eqb (Z.of_nat a) (State.arrs (SemQ.q_st s)) = alookup a (e_arr e)).
Proof.
  intros pr t h cap v0 v1 app segs script e bs stL Hpar Hq Hn Hb Hh Ht Htab Hhd Hw Hev Hl Hcap Hs Hf.
  destruct (wire_total pr t h cap v0 v1 app bs Hq Hn Hb Htab Hhd (lower_prog_code_ok segs cap bs stL Hw Hcap Hl) Hs Hf)
    as [bl Hbl].
  destruct (W.sdk_end_to_end_wire pr t h cap v0 v1 app segs script e bs stL bl Hpar Hq Hb Hh Ht Hw Hev Hl Hcap Hbl)
    as (qps & fuel & s & H1' & H2 & H3 & H4).
  exists bl, qps, fuel, s. auto.
Qed.
