(* Bridge_E2E_Wire.v — the end-to-end chain THROUGH BYTES: each flushed block goes
     flatten -> t_prog (proto-program) -> Asm.assemble (IR passes + instruction objects
     of the flavour table) -> CodecCheck.encode_checked (the binary encoder, C16) -> bytes
     -> Codec.decode_sub (what the controller does with the message) -> embed -> e_qprog
   and the decoded subroutines are run on the common semantics.  The binary hop is the
   identity (Proofs/WireBridge.assemble_wire, C03 x C16 x C01), so the conclusion of the
   end-to-end theorem is unchanged; the premise is that the back end produced bytes for
   every flush (the assembler and the encoder accepted). *)
From Coq Require Import ZArith List Bool Arith Lia.
From NQ Require Import Sdk.SdkAst Sdk.Target Sdk.Eval Sdk.MemMgr Sdk.Lower Sdk.Flatten Sdk.Wf.
From NQ Require Import Proofs.SdkTopProofs Proofs.SdkCodeOk.
From NQ Require Base.Bits Lang.Codec Lang.CodecCheck Lang.Asm Lang.AsmSemQ.
From NQ Require Proofs.AsmProofs Proofs.AsmQMachine Proofs.WireBridge.
From NQ Require Exec.State Exec.SemQ.
From NQ Require Proofs.Bridge_AsmQ Proofs.Bridge_SdkAsm Proofs.Bridge_E2E Proofs.Bridge_E2E_H1.
Import ListNotations.

Module BA := NQ.Proofs.Bridge_AsmQ.
Module BS := NQ.Proofs.Bridge_SdkAsm.
Module E2E := NQ.Proofs.Bridge_E2E.
Module H1 := NQ.Proofs.Bridge_E2E_H1.
Module MF := NQ.Proofs.AsmQMachine.

(* SDK side: the bytes sent at one flush (None: the assembler or the encoder refused) *)
Definition wire_block (pr : Asm.aparams) (t : list Codec.row) (h : Codec.header) (v0 v1 app : Z)
           (code : list sir) : option (list Z) :=
  match BS.t_prog (flatten code) with
  | Some P =>
      match Asm.assemble pr t P with
      | Asm.AOk B => CodecCheck.encode_checked h (Codec.mkSub v0 v1 app B)
      | Asm.AErr _ => None
      end
  | None => None
  end.

Fixpoint wire_blocks (pr : Asm.aparams) (t : list Codec.row) (h : Codec.header) (v0 v1 app : Z)
         (bs : list (option (list sir))) : option (list (list Z)) :=
  match bs with
  | [] => Some []
  | None :: r => wire_blocks pr t h v0 v1 app r
  | Some code :: r =>
      match wire_block pr t h v0 v1 app code, wire_blocks pr t h v0 v1 app r with
      | Some b, Some bl => Some (b :: bl)
      | _, _ => None
      end
  end.

(* controller side: decode the message, read the instruction objects as the program to run *)
Definition unwire_block (t : list Codec.row) (h : Codec.header) (bytes : list Z) : option (list SemQ.qinstr) :=
  match Codec.decode_sub h t bytes with
  | Some sub => BA.e_qprog (map Asm.embed (Codec.s_body sub))
  | None => None
  end.

Fixpoint unwire_blocks (t : list Codec.row) (h : Codec.header) (bl : list (list Z)) : option (list (list SemQ.qinstr)) :=
  match bl with
  | [] => Some []
  | b :: r => match unwire_block t h b, unwire_blocks t h r with
              | Some qp, Some qps => Some (qp :: qps)
              | _, _ => None
              end
  end.

Lemma wire_compiled : forall pr t h cap v0 v1 app bs bl,
  MF.qexempt_exact (Asm.ap_exempt pr) = true -> MF.bank_valid (Asm.ap_bankR pr) = true ->
  Codec.header_ok h = true -> Codec.wf_table t = true ->
  (forall b, In (Some b) bs -> BS.code_ok cap (flatten b) = true) ->
  wire_blocks pr t h v0 v1 app bs = Some bl ->
  exists qps, unwire_blocks t h bl = Some qps /\ E2E.compiled pr cap bs qps.
Proof.
  intros pr t h cap v0 v1 app bs. induction bs as [|[code|] bs IH]; intros bl Hq Hb Hh Ht Hok Hw;
    cbn [wire_blocks] in Hw.
  - inversion Hw; subst. exists []. split; [reflexivity|constructor].
  - destruct (wire_block pr t h v0 v1 app code) as [bytes|] eqn:Eb; [|discriminate].
    destruct (wire_blocks pr t h v0 v1 app bs) as [bl'|] eqn:Er; [|discriminate]. inversion Hw; subst bl.
    destruct (IH bl' Hq Hb Hh Ht (fun b Hin => Hok b (or_intror Hin)) eq_refl) as (qps & Hu & Hc).
    unfold wire_block in Eb.
    destruct (BS.t_prog (flatten code)) as [P|] eqn:HP; [|discriminate].
    destruct (Asm.assemble pr t P) as [B|] eqn:HA; [|discriminate].
    destruct (WireBridge.assemble_wire pr t P B h v0 v1 app bytes Hh Ht HA Eb) as [Hdec Hir].
    destruct (MF.assemble_machine_form pr P (map Asm.embed B) Hq Hb (BS.t_prog_wf _ _ HP) (H1.t_prog_modelled _ _ HP)
                (H1.t_prog_banks _ _ HP) (H1.t_prog_labels_defined _ _ HP) Hir) as [qp Hqp].
    exists (qp :: qps). split.
    + cbn [unwire_blocks]. unfold unwire_block. rewrite Hdec. cbn [Codec.s_body]. rewrite Hqp, Hu. reflexivity.
    + econstructor; eauto. apply Hok. left. reflexivity.
  - destruct (IH bl Hq Hb Hh Ht (fun b Hin => Hok b (or_intror Hin)) Hw) as (qps & Hu & Hc).
    exists qps. split; [exact Hu|constructor; exact Hc].
Qed.

(* END TO END THROUGH BYTES *)
Theorem sdk_end_to_end_wire : forall pr t h cap v0 v1 app segs script e bs stL bl,
  AsmProofs.params_ok pr = true -> MF.qexempt_exact (Asm.ap_exempt pr) = true ->
  MF.bank_valid (Asm.ap_bankR pr) = true ->
  Codec.header_ok h = true -> Codec.wf_table t = true ->
  Forall (fun seg => bwfs seg = true) segs ->
  eval_prog (prog_of segs) script = Some e ->
  lower_prog true (prog_of segs) = Ok (bs, stL) ->
  qpeak segs <= cap ->
  wire_blocks pr t h v0 v1 app bs = Some bl ->
  exists qps fuel s,
    unwire_blocks t h bl = Some qps /\
    E2E.qrun_blocks fuel qps (SemQ.mkQ (State.init_state cap) script []) = (s, State.Halt) /\
    BS.inst_trace (SemQ.q_trace s) = e_trace e /\
    (forall a, State.find Z.eqb (Z.of_nat a) (State.arrs (SemQ.q_st s)) = alookup a (e_arr e)).
Proof.
  intros pr t h cap v0 v1 app segs script e bs stL bl Hpar Hq Hb Hh Ht Hw Hev Hl Hcap Hwire.
  destruct (wire_compiled pr t h cap v0 v1 app bs bl Hq Hb Hh Ht
              (lower_prog_code_ok segs cap bs stL Hw Hcap Hl) Hwire) as (qps & Hu & Hc).
  destruct (E2E.sdk_end_to_end2 pr cap segs script e bs stL qps Hpar (H1.qexempt_exact_ok _ Hq) Hw Hev Hl Hc)
    as (fuel & s & Hrun & Htr & Ha).
  exists qps, fuel, s. auto.
Qed.
