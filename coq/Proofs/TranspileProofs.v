(* Proofs/TranspileProofs.v — proofs about Nv/Transpile.v (property C08). *)
From Coq Require Import ZArith List Bool String Lia Arith.
From NQ Require Import Nv.Transpile.
Import ListNotations.
Open Scope nat_scope.

(* ------------------------------------------------------------------ basics *)
Lemma bank_eqb_eq : forall a b, bank_eqb a b = true <-> a = b.
Proof. destruct a, b; simpl; split; intro H; try reflexivity; try discriminate. Qed.

Lemma reg_eqb_eq : forall a b, reg_eqb a b = true <-> a = b.
Proof.
  intros [b1 i1] [b2 i2]; simpl. rewrite andb_true_iff, bank_eqb_eq, Nat.eqb_eq.
  split; [intros [H1 H2]; subst; reflexivity | intro H; inversion H; auto].
Qed.

Lemma reg_eqb_refl : forall a, reg_eqb a a = true.
Proof. intro a. apply reg_eqb_eq. reflexivity. Qed.

Lemma reg_eqb_neq : forall a b, a <> b -> reg_eqb a b = false.
Proof.
  intros a b H. destruct (reg_eqb a b) eqn:E; [|reflexivity].
  apply reg_eqb_eq in E. contradiction.
Qed.

Lemma mem_reg_In : forall r l, mem_reg r l = true <-> In r l.
Proof.
  intros r l. unfold mem_reg. rewrite existsb_exists. split.
  - intros [x [Hin He]]. apply reg_eqb_eq in He. subst. exact Hin.
  - intro H. exists r. split; [exact H | apply reg_eqb_refl].
Qed.

Lemma erase_app : forall a b, erase (a ++ b) = erase a ++ erase b.
Proof. intros. unfold erase. apply filter_app. Qed.

Lemma erase_concat : forall bs, erase (List.concat bs) = List.concat (map erase bs).
Proof.
  induction bs as [|b bs IH]; simpl; [reflexivity|]. rewrite erase_app, IH. reflexivity.
Qed.

Lemma rlen_app : forall a b, rlen (a ++ b) = rlen a + rlen b.
Proof. intros. unfold rlen. rewrite erase_app, app_length. reflexivity. Qed.

(* ------------------------------------------------------- expand_all, starts *)
Definition scan (s : tst) (l : prog) : tst := fold_left (fun s x => track x s) l s.

Lemma tst_at_scan : forall p i, tst_at p i = scan tst0 (firstn (S i) p).
Proof. reflexivity. Qed.

Lemma expand_all_spec : forall c p s bs,
  expand_all c s p = Ok bs ->
  List.length bs = List.length p /\
  forall i ins, nth_error p i = Some ins ->
    exists b, nth_error bs i = Some b /\ expand c (scan s (firstn (S i) p)) ins = Ok b.
Proof.
  induction p as [|x p IH]; intros s bs H; simpl in H.
  - inversion H; subst. split; [reflexivity|]. intros i ins Hn. destruct i; discriminate.
  - destruct (expand c (track x s) x) as [b|e] eqn:Eb; [|discriminate].
    destruct (expand_all c (track x s) p) as [bs'|e] eqn:Ebs; [|discriminate].
    inversion H; subst. destruct (IH _ _ Ebs) as [Hl Hn]. split; [simpl; lia|].
    intros i ins Hi. destruct i as [|i]; simpl in Hi.
    + inversion Hi; subst. exists b. split; [reflexivity|]. simpl. exact Eb.
    + destruct (Hn i ins Hi) as [b' [H1 H2]]. exists b'. split; [exact H1|].
      simpl. exact H2.
Qed.

Definition off (bs : list prog) (i : nat) : nat := rlen (List.concat (firstn i bs)).

Lemma off_cons : forall x bs i, off (x :: bs) (S i) = rlen x + off bs i.
Proof. intros. unfold off. simpl. apply rlen_app. Qed.

Lemma off_0 : forall bs, off bs 0 = 0.
Proof. reflexivity. Qed.

Lemma off_S : forall bs i b, nth_error bs i = Some b -> off bs (S i) = off bs i + rlen b.
Proof.
  induction bs as [|x bs IH]; intros i b H; [destruct i; discriminate|].
  destruct i as [|i]; simpl in H.
  - inversion H; subst. rewrite off_cons, !off_0. lia.
  - rewrite !off_cons. rewrite (IH i b H). lia.
Qed.

Lemma starts_spec : forall bs n i,
  i <= List.length bs -> nth_error (starts n bs) i = Some (n + off bs i).
Proof.
  induction bs as [|b bs IH]; intros n i Hi; simpl in *.
  - assert (i = 0) by lia. subst. unfold off. simpl. f_equal. unfold rlen. simpl. lia.
  - destruct i as [|i]; simpl.
    + unfold off. simpl. f_equal. unfold rlen. simpl. lia.
    + rewrite IH by lia. f_equal. unfold off. simpl. rewrite rlen_app. lia.
Qed.

Lemma starts_length : forall bs n, List.length (starts n bs) = S (List.length bs).
Proof. induction bs as [|b bs IH]; intro n; simpl; [reflexivity|]. rewrite IH. reflexivity. Qed.

Lemma starts_None : forall bs n i, List.length bs < i -> nth_error (starts n bs) i = None.
Proof. intros. apply nth_error_None. rewrite starts_length. lia. Qed.

(* ------------------------------------------------------------- retarget_all *)
Lemma retarget_real : forall m i i', retarget m i = Ok i' -> real i' = real i.
Proof.
  intros m i i' H. destruct i; simpl in H;
    try (inversion H; subst; reflexivity);
    destruct (nth_error m t); inversion H; subst; reflexivity.
Qed.

Lemma retarget_all_spec : forall m l l',
  retarget_all m l = Ok l' -> Forall2 (fun i i' => retarget m i = Ok i') l l'.
Proof.
  induction l as [|i l IH]; intros l' H; simpl in H.
  - inversion H. constructor.
  - destruct (retarget m i) as [i'|] eqn:Ei; [|discriminate].
    destruct (retarget_all m l) as [r|] eqn:Er; [|discriminate].
    inversion H; subst. constructor; [exact Ei | apply IH; reflexivity].
Qed.

Lemma Forall2_erase : forall m l l',
  Forall2 (fun i i' => retarget m i = Ok i') l l' ->
  Forall2 (fun i i' => retarget m i = Ok i') (erase l) (erase l').
Proof.
  induction 1 as [|i i' l l' Hi Hl IH]; simpl; [constructor|].
  rewrite (retarget_real _ _ _ Hi). destruct (real i); [constructor; assumption | assumption].
Qed.

Lemma Forall2_nth : forall {A B} (R : A -> B -> Prop) l l' k a,
  Forall2 R l l' -> nth_error l k = Some a -> exists b, nth_error l' k = Some b /\ R a b.
Proof.
  intros A B R l l' k a H. revert k a. induction H as [|x y l l' Hxy Hl IH]; intros k a Hk.
  - destruct k; discriminate.
  - destruct k as [|k]; simpl in *.
    + inversion Hk; subst. exists y. split; [reflexivity | exact Hxy].
    + apply IH. exact Hk.
Qed.

Lemma Forall2_length' : forall {A B} (R : A -> B -> Prop) l l', Forall2 R l l' -> List.length l = List.length l'.
Proof. induction 1; simpl; congruence. Qed.

(* position of a block inside a concatenation *)
Lemma nth_concat : forall {A} (L : list (list A)) i b k,
  nth_error L i = Some b -> k < List.length b ->
  nth_error (List.concat L) (List.length (List.concat (firstn i L)) + k) = nth_error b k.
Proof.
  induction L as [|x L IH]; intros i b k Hi Hk; [destruct i; discriminate|].
  destruct i as [|i]; simpl in *.
  - inversion Hi; subst. rewrite nth_error_app1 by exact Hk. reflexivity.
  - rewrite app_length. rewrite <- Nat.add_assoc.
    rewrite nth_error_app2 by lia.
    replace (List.length x + (List.length (List.concat (firstn i L)) + k) - List.length x)
      with (List.length (List.concat (firstn i L)) + k) by lia.
    apply IH; assumption.
Qed.

Lemma firstn_map' : forall {A B} (f : A -> B) n l, firstn n (map f l) = map f (firstn n l).
Proof. induction n as [|n IH]; intros [|x l]; simpl; try reflexivity. rewrite IH. reflexivity. Qed.

Lemma Forall2_nth_intro : forall {A B} (R : A -> B -> Prop) l l',
  List.length l = List.length l' ->
  (forall k x, nth_error l k = Some x -> exists y, nth_error l' k = Some y /\ R x y) ->
  Forall2 R l l'.
Proof.
  induction l as [|a l IH]; intros [|b l'] Hl H; simpl in Hl; try discriminate; [constructor|].
  constructor.
  - destruct (H 0 a eq_refl) as [y [Hy Hr]]. simpl in Hy. inversion Hy; subst. exact Hr.
  - apply IH; [lia|]. intros k x Hk. exact (H (S k) x Hk).
Qed.

Lemma off_length : forall bs i, off bs i = List.length (List.concat (firstn i (map erase bs))).
Proof.
  intros. unfold off, rlen. rewrite erase_concat. rewrite firstn_map'. reflexivity.
Qed.

Lemma nth_firstn_lt : forall {A} (l : list A) n k, k < n -> nth_error (firstn n l) k = nth_error l k.
Proof.
  induction l as [|a l IH]; intros n k H; [rewrite firstn_nil; reflexivity|].
  destruct n as [|n]; [lia|]. destruct k as [|k]; simpl; [reflexivity|]. apply IH. lia.
Qed.

Lemma nth_skipn : forall {A} (l : list A) n k, nth_error (skipn n l) k = nth_error l (n + k).
Proof.
  induction l as [|a l IH]; intros n k; [rewrite skipn_nil; destruct k, n; reflexivity|].
  destruct n as [|n]; simpl; [reflexivity|]. apply IH.
Qed.

(* ------------------------------------------------ layout of the emitted program *)
(* everything the later proofs need to know about a successful transpilation *)
Record layout (c : config) (p p' : prog) (bs : list prog) : Prop := mkLayout {
  lay_bs : expand_all c tst0 p = Ok bs;
  lay_len : List.length bs = List.length p;
  lay_exp : forall i ins, nth_error p i = Some ins ->
              exists b, nth_error bs i = Some b /\ expand c (tst_at p i) ins = Ok b;
  lay_blk : forall i b, nth_error bs i = Some b ->
              exists b', Forall2 (fun x x' => retarget (starts 0 bs) x = Ok x') (erase b) b' /\
                         forall k, k < List.length b' -> nth_error (erase p') (off bs i + k) = nth_error b' k;
  lay_tgt : forall i ins t, nth_error p i = Some ins -> target ins = Some t -> real ins = true ->
              t <= List.length p;
  lay_end : erase p' = firstn (off bs (List.length p)) (erase p') ++ (if targets_end p then [noop c] else []) /\
            List.length (firstn (off bs (List.length p)) (erase p')) = off bs (List.length p)
}.

Lemma concat_firstn_all : forall {A} (L : list (list A)), firstn (List.length L) L = L.
Proof. intros. apply firstn_all. Qed.

Lemma transpile_layout : forall c p p',
  transpile c p = Ok p' -> exists bs, layout c p p' bs.
Proof.
  intros c p p' H. unfold transpile in H.
  destruct (expand_all c tst0 p) as [bs|] eqn:Ebs; [|discriminate].
  destruct (retarget_all (starts 0 bs) (List.concat bs)) as [l|] eqn:El; [|discriminate].
  inversion H; subst p'. clear H.
  destruct (expand_all_spec _ _ _ _ Ebs) as [Hlen Hexp].
  pose proof (retarget_all_spec _ _ _ El) as HF.
  pose proof (Forall2_erase _ _ _ HF) as HFe.
  assert (Hnoop : erase (if targets_end p then [noop c] else []) = (if targets_end p then [noop c] else [])).
  { destruct (targets_end p); reflexivity. }
  assert (Hel : List.length (erase l) = off bs (List.length p)).
  { rewrite <- (Forall2_length' _ _ _ HFe). unfold off. rewrite <- Hlen.
    rewrite firstn_all. reflexivity. }
  exists bs. constructor.
  - exact Ebs.
  - exact Hlen.
  - intros i ins Hi. destruct (Hexp i ins Hi) as [b [H1 H2]]. exists b. split; [exact H1|].
    rewrite tst_at_scan. exact H2.
  - intros i b Hb.
    (* the retargeted image of erase b inside erase l *)
    rewrite erase_concat in HFe.
    assert (Hb' : nth_error (map erase bs) i = Some (erase b)).
    { rewrite nth_error_map, Hb. reflexivity. }
    (* build b' as the corresponding slice of erase l *)
    set (st := off bs i).
    exists (firstn (List.length (erase b)) (skipn st (erase l))).
    assert (Hsl : forall k, k < List.length (erase b) ->
              exists x', nth_error (erase l) (st + k) = Some x' /\
                         exists x, nth_error (erase b) k = Some x /\ retarget (starts 0 bs) x = Ok x').
    { intros k Hk. destruct (nth_error (erase b) k) as [x|] eqn:Ex;
        [|apply nth_error_None in Ex; lia].
      assert (Hc : nth_error (List.concat (map erase bs)) (st + k) = Some x).
      { unfold st. rewrite off_length. pose proof (nth_concat _ _ _ _ Hb' Hk) as Hnc. exact (eq_trans Hnc Ex). }
      destruct (Forall2_nth _ _ _ _ _ HFe Hc) as [x' [Hx' Hr]].
      exists x'. split; [exact Hx'|]. exists x. split; [reflexivity | exact Hr]. }
    assert (Hlen' : List.length (firstn (List.length (erase b)) (skipn st (erase l))) = List.length (erase b)).
    { rewrite firstn_length, skipn_length. apply Nat.min_l.
      destruct (List.length (erase b)) as [|n] eqn:En; [lia|].
      destruct (Hsl n ltac:(lia)) as [x' [Hx' _]].
      assert (st + n < List.length (erase l)) by (apply nth_error_Some; congruence). lia. }
    split.
    + (* Forall2 *)
      apply Forall2_nth_intro; [symmetry; exact Hlen'|].
      intros k x Hk. assert (Hkl : k < List.length (erase b)) by (apply nth_error_Some; congruence).
      destruct (Hsl k Hkl) as [x' [Hx' [x0 [Hx0 Hr]]]].
      rewrite Hk in Hx0. inversion Hx0; subst x0.
      exists x'. split; [|exact Hr].
      rewrite nth_firstn_lt by exact Hkl. rewrite nth_skipn. exact Hx'.
    + intros k Hk. rewrite Hlen' in Hk. rewrite erase_app.
      destruct (Hsl k Hk) as [x' [Hx' _]].
      rewrite nth_error_app1 by (apply nth_error_Some; congruence).
      rewrite nth_firstn_lt by exact Hk. rewrite nth_skipn. reflexivity.
  - intros i ins t Hi Ht Hr.
    destruct (Hexp i ins Hi) as [b [Hb He]].
    assert (Hbb : b = [ins]).
    { destruct ins; simpl in Ht; try discriminate; simpl in He; inversion He; reflexivity. }
    subst b.
    assert (Hin : In ins (List.concat bs)).
    { apply in_concat. exists [ins]. split; [eapply nth_error_In; exact Hb | left; reflexivity]. }
    destruct (In_nth_error _ _ Hin) as [k Hk].
    destruct (Forall2_nth _ _ _ _ _ HF Hk) as [x' [_ Hrt]].
    destruct (le_lt_dec t (List.length p)) as [Hle|Hgt]; [exact Hle|exfalso].
    assert (HN : nth_error (starts 0 bs) t = None) by (apply starts_None; lia).
    destruct ins; simpl in Ht; try discriminate; inversion Ht; subst; simpl in Hrt; rewrite HN in Hrt; discriminate.
  - rewrite <- Hel. clear Hnoop. destruct (targets_end p).
    + rewrite erase_app. change (erase [noop c]) with [noop c].
      rewrite firstn_app, Nat.sub_diag, firstn_all. simpl. rewrite app_nil_r.
      split; reflexivity.
    + rewrite !app_nil_r. rewrite firstn_all. split; reflexivity.
Qed.

(* ================================================================ interpreter *)
Fixpoint steps (env : env_t) (p : prog) (n : nat) (pc : nat) (s : mstate) : option (nat * mstate) :=
  match n with
  | O => Some (pc, s)
  | S n' => match nth_error p pc with
            | None => None
            | Some i => match step env i pc s with
                        | Next pc' s' => steps env p n' pc' s'
                        | Fault => None
                        end
            end
  end.

Lemma steps_app : forall env p n m pc s,
  steps env p (n + m) pc s =
  match steps env p n pc s with Some (pc', s') => steps env p m pc' s' | None => None end.
Proof.
  induction n as [|n IH]; intros m pc s; simpl; [reflexivity|].
  destruct (nth_error p pc) as [i|]; [|reflexivity].
  destruct (step env i pc s) as [pc' s'|]; [apply IH | reflexivity].
Qed.

Lemma run_steps : forall env p n f pc s pc' s',
  steps env p n pc s = Some (pc', s') -> run env p (n + f) pc s = run env p f pc' s'.
Proof.
  induction n as [|n IH]; intros f pc s pc' s' H; simpl in H.
  - inversion H; subst. reflexivity.
  - destruct (nth_error p pc) as [i|] eqn:Ei; [|discriminate].
    destruct (step env i pc s) as [pc1 s1|] eqn:Es; [|discriminate].
    simpl. rewrite Ei, Es. apply IH. exact H.
Qed.

Lemma run_halted_steps : forall env p fuel pc s pcf sf,
  run env p fuel pc s = (Halted, pcf, sf) ->
  exists n, n <= fuel /\ steps env p n pc s = Some (pcf, sf) /\ nth_error p pcf = None.
Proof.
  induction fuel as [|f IH]; intros pc s pcf sf H; simpl in H.
  - destruct (nth_error p pc) eqn:E; [discriminate|]. inversion H; subst.
    exists 0. split; [lia|]. split; [reflexivity | exact E].
  - destruct (nth_error p pc) as [i|] eqn:E.
    + destruct (step env i pc s) as [pc1 s1|] eqn:Es; [|discriminate].
      destruct (IH _ _ _ _ H) as [n [Hn [Hs Hnone]]].
      exists (S n). split; [lia|]. split; [|exact Hnone]. simpl. rewrite E, Es. exact Hs.
    + inversion H; subst. exists 0. split; [lia|]. split; [reflexivity | exact E].
Qed.

Lemma tracked_run_step : forall env c p f pc s ins pc2 s2,
  tracked_run env c p (S f) pc s = true -> nth_error p pc = Some ins ->
  step env ins pc s = Next pc2 s2 ->
  gate_choice_ok c p pc s = true /\ tracked_run env c p f pc2 s2 = true.
Proof.
  intros env c p f pc s ins pc2 s2 H Hn Hs. simpl in H. rewrite Hn, Hs in H.
  apply andb_true_iff in H. exact H.
Qed.

Lemma tracked_run_mono : forall env c p f pc s,
  tracked_run env c p (S f) pc s = true -> tracked_run env c p f pc s = true.
Proof.
  induction f as [|f IH]; intros pc s H.
  - simpl. destruct (nth_error p pc); reflexivity.
  - simpl in H |- *. destruct (nth_error p pc) as [i|]; [|reflexivity].
    apply andb_true_iff in H. destruct H as [H1 H2]. rewrite H1. simpl.
    destruct (step env i pc s) as [pc' s'|]; [|reflexivity].
    apply IH. simpl. exact H2.
Qed.

(* ---------------------------------------------------------- relating states *)
Definition agree (S : list reg) (f g : regfile) : Prop := forall r, ~ In r S -> f r = g r.

Lemma agree_upd : forall S f g r v, agree S f g -> agree S (upd f r v) (upd g r v).
Proof. intros S f g r v H r' Hr'. unfold upd. destruct (reg_eqb r' r); [reflexivity | apply H; exact Hr']. Qed.

Lemma agree_upd_in : forall S f g r v, In r S -> agree S f g -> agree S f (upd g r v).
Proof.
  intros S f g r v Hin H r' Hr'. unfold upd. destruct (reg_eqb r' r) eqn:E.
  - apply reg_eqb_eq in E. subst. contradiction.
  - apply H. exact Hr'.
Qed.

Lemma agree_weaken : forall S S' f g, (forall r, In r S -> In r S') -> agree S f g -> agree S' f g.
Proof. intros S S' f g Hs H r Hr. apply H. intro Hin. apply Hr. apply Hs. exact Hin. Qed.

Lemma agree_upd_list : forall S rs vs f g, agree S f g -> agree S (upd_list f rs vs) (upd_list g rs vs).
Proof.
  induction rs as [|r rs IH]; intros vs f g H; simpl; [exact H|].
  destruct vs as [|v vs]; [exact H|]. apply IH. apply agree_upd. exact H.
Qed.

Lemma expand_trace_app : forall c a b,
  expand_trace c (a ++ b) =
  match expand_trace c a, expand_trace c b with Some x, Some y => Some (x ++ y) | _, _ => None end.
Proof.
  induction a as [|e a IH]; intro b; simpl.
  - destruct (expand_trace c b); reflexivity.
  - rewrite IH. destruct (expand_event c e) as [x|]; [|reflexivity].
    destruct (expand_trace c a) as [y|]; [|reflexivity].
    destruct (expand_trace c b) as [z|]; [|reflexivity].
    rewrite app_assoc. reflexivity.
Qed.

Lemma expand_trace_snoc : forall c t t' e es,
  expand_trace c t = Some t' -> expand_event c e = Some es ->
  expand_trace c (t ++ [e]) = Some (t' ++ es).
Proof.
  intros c t t' e es Ht He. rewrite expand_trace_app, Ht. simpl. rewrite He. rewrite app_nil_r. reflexivity.
Qed.

Record rel (c : config) (S : list reg) (s s' : mstate) : Prop := mkRel {
  rel_regs : agree S (regs s) (regs s');
  rel_arrs : arrs s = arrs s';
  rel_script : script s = script s';
  rel_trace : expand_trace c (trace s) = Some (trace s')
}.

(* an instruction that is neither a gate nor a branch behaves the same on related
   states as long as it does not mention a register of S *)
Lemma step_frame : forall env c S ins pc pc' s s' pc2 s2,
  target ins = None -> is_gate ins = false ->
  (forall r, In r (mentions ins) -> ~ In r S) ->
  rel c S s s' -> step env ins pc s = Next pc2 s2 ->
  pc2 = Datatypes.S pc /\ exists s2', step env ins pc' s' = Next (Datatypes.S pc') s2' /\ rel c S s2 s2'.
Proof.
  intros env c S ins pc pc' s s' pc2 s2 Ht Hg Hm [Hr Ha Hsc Htr] Hs.
  assert (RD : forall r, In r (mentions ins) -> regs s' r = regs s r).
  { intros r Hin. symmetry. apply Hr. apply Hm. exact Hin. }
  destruct ins; simpl in Ht, Hg; try discriminate; simpl in Hs, RD |- *.
  - (* ISet *) inversion Hs; subst. split; [reflexivity|]. eexists. split; [reflexivity|].
    constructor; simpl; auto. apply agree_upd. exact Hr.
  - (* IArith *) rewrite !RD by (simpl; auto).
    destruct (regs s a) as [x|]; [|discriminate]. destruct (regs s b) as [y|]; [|discriminate].
    inversion Hs; subst. split; [reflexivity|]. eexists. split; [reflexivity|].
    constructor; simpl; auto. apply agree_upd. exact Hr.
  - (* IArithM *) rewrite !RD by (simpl; auto).
    destruct (regs s m) as [mv|]; [|discriminate]. destruct (regs s a) as [x|]; [|discriminate].
    destruct (regs s b) as [y|]; [|discriminate]. destruct (Z.ltb mv 1); [discriminate|].
    inversion Hs; subst. split; [reflexivity|]. eexists. split; [reflexivity|].
    constructor; simpl; auto. apply agree_upd. exact Hr.
  - (* ILoad *) rewrite !RD by (simpl; auto). rewrite <- Ha.
    destruct (regs s ix) as [k|]; [|discriminate]. destruct (arrs s addr) as [l|]; [|discriminate].
    destruct (norm_index k (Datatypes.length l)) as [j|]; [|discriminate].
    destruct (nth_error l j) as [[v|]|]; try discriminate.
    inversion Hs; subst. split; [reflexivity|]. eexists. split; [reflexivity|].
    constructor; simpl; auto. apply agree_upd. exact Hr.
  - (* IStore *) rewrite !RD by (simpl; auto).
    destruct (regs s r) as [v|]; [|discriminate]. destruct (regs s ix) as [k|]; [|discriminate].
    unfold write_entry in *. rewrite <- Ha.
    destruct (arrs s addr) as [l|]; [|discriminate].
    destruct (norm_index k (Datatypes.length l)) as [j|]; [|discriminate].
    inversion Hs; subst. split; [reflexivity|]. eexists. split; [reflexivity|].
    constructor; simpl; auto. rewrite Ha. reflexivity.
  - (* ILea *) inversion Hs; subst. split; [reflexivity|]. eexists. split; [reflexivity|].
    constructor; simpl; auto. apply agree_upd. exact Hr.
  - (* IUndef *) rewrite !RD by (simpl; auto).
    destruct (regs s ix) as [k|]; [|discriminate].
    unfold write_entry in *. rewrite <- Ha.
    destruct (arrs s addr) as [l|]; [|discriminate].
    destruct (norm_index k (Datatypes.length l)) as [j|]; [|discriminate].
    inversion Hs; subst. split; [reflexivity|]. eexists. split; [reflexivity|].
    constructor; simpl; auto. rewrite Ha. reflexivity.
  - (* IArray *) rewrite !RD by (simpl; auto).
    destruct (regs s size) as [n|]; [|discriminate].
    inversion Hs; subst. split; [reflexivity|]. eexists. split; [reflexivity|].
    constructor; simpl; auto. rewrite Ha. reflexivity.
  - (* IRetReg *) rewrite !RD by (simpl; auto).
    destruct (regs s r) as [v|]; [|discriminate].
    inversion Hs; subst. split; [reflexivity|]. eexists. split; [reflexivity|].
    constructor; simpl; auto. apply expand_trace_snoc; [exact Htr | reflexivity].
  - (* IRetArr *) rewrite <- Ha.
    destruct (arrs s addr) as [l|]; [|discriminate].
    inversion Hs; subst. split; [reflexivity|]. eexists. split; [reflexivity|].
    constructor; simpl; auto. apply expand_trace_snoc; [exact Htr | reflexivity].
  - (* IQ *) rewrite !RD by (simpl; auto).
    destruct (regs s r) as [q|]; [|discriminate].
    inversion Hs; subst. split; [reflexivity|]. eexists. split; [reflexivity|].
    constructor; simpl; auto. apply expand_trace_snoc; [exact Htr | reflexivity].
  - (* IMeas *) rewrite !RD by (simpl; auto).
    destruct (regs s q) as [qa|]; [|discriminate].
    inversion Hs; subst. split; [reflexivity|]. rewrite <- Hsc. eexists. split; [reflexivity|].
    constructor; simpl; auto.
    + apply agree_upd. exact Hr.
    + apply expand_trace_snoc; [exact Htr | reflexivity].
  - (* ICrot *) rewrite !RD by (simpl; auto).
    destruct (regs s r0) as [q0|]; [|discriminate]. destruct (regs s r1) as [q1|]; [|discriminate].
    inversion Hs; subst. split; [reflexivity|]. eexists. split; [reflexivity|].
    constructor; simpl; auto. apply expand_trace_snoc; [exact Htr | reflexivity].
  - (* IOther *)
    assert (Hv : map (regs s') (tops ++ inner) = map (regs s) (tops ++ inner)).
    { apply map_ext_in. intros r Hin. apply RD. rewrite app_assoc. apply in_or_app. left. exact Hin. }
    rewrite Hv, <- Ha, <- Hsc.
    destruct (env name imms (map (regs s) (tops ++ inner)) (arrs s) (script s)) as [[[wv ar] sc]|]; [|discriminate].
    inversion Hs; subst. split; [reflexivity|]. eexists. split; [reflexivity|].
    constructor; simpl; auto.
    + apply agree_upd_list. exact Hr.
    + apply expand_trace_snoc; [exact Htr | reflexivity].
Qed.

(* -------------------------------------------------- executing emitted blocks *)
Lemma role_reg_val : forall (f : regfile) sc r0 r1 sv q0 q1 r,
  f sc = Some sv -> f r0 = Some q0 -> f r1 = Some q1 ->
  f (role_reg sc r0 r1 r) = Some (role_val sv q0 q1 r).
Proof. intros. destruct r; simpl; assumption. Qed.

Lemma steps_items : forall env P sc r0 r1 sv q0 q1 items pc s,
  (forall k, k < List.length items ->
     nth_error P (pc + k) = nth_error (map (inst_item sc r0 r1) items) k) ->
  Forall (fun it => keep_item false it = true) items ->
  regs s sc = Some sv -> regs s r0 = Some q0 -> regs s r1 = Some q1 ->
  steps env P (List.length items) pc s =
  Some (pc + List.length items,
        mkSt (regs s) (arrs s) (script s) (trace s ++ flat_map (item_events sv q0 q1) items)).
Proof.
  induction items as [|it items IH]; intros pc s HP Hk Hsc H0 H1.
  - simpl. rewrite Nat.add_0_r, app_nil_r. destruct s; reflexivity.
  - inversion Hk as [|? ? Hit Hk']; subst.
    assert (H0' := HP 0 ltac:(simpl; lia)). rewrite Nat.add_0_r in H0'. simpl in H0'.
    assert (HP' : forall k, k < List.length items ->
              nth_error P (Datatypes.S pc + k) = nth_error (map (inst_item sc r0 r1) items) k).
    { intros k Hlt. specialize (HP (Datatypes.S k) ltac:(simpl; lia)). simpl in HP.
      rewrite <- HP. f_equal. lia. }
    change (List.length (it :: items)) with (Datatypes.S (List.length items)).
    cbn [steps]. rewrite H0'.
    destruct it as [ax r n d|ax a b n d|t]; [| |simpl in Hit; discriminate]; cbn [inst_item step].
    + rewrite (role_reg_val _ sc r0 r1 sv q0 q1 r Hsc H0 H1).
      rewrite (IH (Datatypes.S pc) (emit s (EvRot ax (role_val sv q0 q1 r) n d)) HP' Hk' Hsc H0 H1).
      f_equal. f_equal; [lia|]. simpl. rewrite <- app_assoc. reflexivity.
    + rewrite (role_reg_val _ sc r0 r1 sv q0 q1 a Hsc H0 H1).
      rewrite (role_reg_val _ sc r0 r1 sv q0 q1 b Hsc H0 H1).
      rewrite (IH (Datatypes.S pc) (emit s (EvCrot ax (role_val sv q0 q1 a) (role_val sv q0 q1 b) n d)) HP' Hk' Hsc H0 H1).
      f_equal. f_equal; [lia|]. simpl. rewrite <- app_assoc. reflexivity.
Qed.

Lemma steps_rots : forall env P r q (l : list (axis * Z * Z)) pc s,
  (forall k, k < List.length l ->
     nth_error P (pc + k) = nth_error (map (fun '(ax, n, d) => IRot ax r n d) l) k) ->
  regs s r = Some q ->
  steps env P (List.length l) pc s =
  Some (pc + List.length l,
        mkSt (regs s) (arrs s) (script s) (trace s ++ map (fun '(ax, n, d) => EvRot ax q n d) l)).
Proof.
  induction l as [|[[ax n] d] l IH]; intros pc s HP Hr.
  - simpl. rewrite Nat.add_0_r, app_nil_r. destruct s; reflexivity.
  - assert (H0' := HP 0 ltac:(simpl; lia)). rewrite Nat.add_0_r in H0'. simpl in H0'.
    assert (HP' : forall k, k < List.length l ->
              nth_error P (Datatypes.S pc + k) = nth_error (map (fun '(ax, n, d) => IRot ax r n d) l) k).
    { intros k Hlt. specialize (HP (Datatypes.S k) ltac:(simpl; lia)). simpl in HP.
      rewrite <- HP. f_equal. lia. }
    change (List.length ((ax, n, d) :: l)) with (Datatypes.S (List.length l)).
    cbn [steps]. rewrite H0'. cbn [step]. rewrite Hr.
    rewrite (IH (Datatypes.S pc) (emit s (EvRot ax q n d)) HP' Hr).
    f_equal. f_equal; [lia|]. simpl. rewrite <- app_assoc. reflexivity.
Qed.

Lemma filter_keep_false_Forall : forall items,
  Forall (fun it => keep_item false it = true) (filter (keep_item false) items).
Proof.
  intro items. apply Forall_forall. intros x Hx. apply filter_In in Hx. apply Hx.
Qed.

Lemma flat_map_keep : forall sv q0 q1 items,
  flat_map (item_events sv q0 q1) (filter (keep_item false) items) = flat_map (item_events sv q0 q1) items.
Proof.
  induction items as [|it items IH]; simpl; [reflexivity|].
  destruct it; simpl; rewrite IH; reflexivity.
Qed.

Lemma erase_items : forall debug sc r0 r1 items,
  erase (map (inst_item sc r0 r1) (filter (keep_item debug) items)) =
  map (inst_item sc r0 r1) (filter (keep_item false) items).
Proof.
  induction items as [|it items IH]; simpl; [reflexivity|].
  destruct it; simpl; try (rewrite IH; reflexivity).
  destruct debug; simpl; exact IH.
Qed.

Lemma erase_inst_block : forall debug b sc r0 r1,
  erase (inst_block debug b sc r0 r1) = inst_block false b sc r0 r1.
Proof.
  intros. unfold inst_block. rewrite erase_app, erase_items.
  destruct (b_scratch b); reflexivity.
Qed.

Lemma retarget_id : forall m i, target i = None -> retarget m i = Ok i.
Proof. intros m i H. destruct i; simpl in H; try discriminate; reflexivity. Qed.

Lemma Forall2_retarget_id : forall m l l',
  Forall (fun i => target i = None) l ->
  Forall2 (fun x x' => retarget m x = Ok x') l l' -> l' = l.
Proof.
  intros m l l' Hf H. induction H as [|x x' l l' Hx Hl IH]; [reflexivity|].
  inversion Hf; subst. rewrite retarget_id in Hx by assumption. inversion Hx; subst.
  f_equal. apply IH. assumption.
Qed.

Lemma inst_block_notarget : forall b sc r0 r1,
  Forall (fun i => target i = None) (inst_block false b sc r0 r1).
Proof.
  intros. unfold inst_block. apply Forall_app. split.
  - destruct (b_scratch b); repeat constructor.
  - apply Forall_forall. intros x Hx. apply in_map_iff in Hx. destruct Hx as [it [He _]].
    subst. destruct it; reflexivity.
Qed.

(* ------------------------------------------------------ scratch register facts *)
Lemma used_scan_incl : forall l s r, In r (used s) -> In r (used (scan s l)).
Proof.
  induction l as [|x l IH]; intros s r H; simpl; [exact H|].
  apply IH. simpl. apply in_or_app. right. exact H.
Qed.

Lemma used_scan_top : forall l s x r, In x l -> In r (top_regs x) -> In r (used (scan s l)).
Proof.
  induction l as [|y l IH]; intros s x r Hx Hr; [contradiction|].
  simpl. destruct Hx as [Hx|Hx].
  - subst. apply used_scan_incl. simpl. apply in_or_app. left. exact Hr.
  - eapply IH; eassumption.
Qed.

Lemma first_unused_not_used : forall n k u r, first_unused n k u = Some r -> ~ In r u.
Proof.
  induction n as [|n IH]; intros k u r H; simpl in H; [discriminate|].
  destruct (mem_reg (mkReg BQ k) u) eqn:E.
  - eapply IH. exact H.
  - inversion H; subst. intro Hin. apply mem_reg_In in Hin. congruence.
Qed.

Lemma nth_error_firstn_S : forall {A} (l : list A) i x, nth_error l i = Some x -> In x (firstn (Datatypes.S i) l).
Proof.
  induction l as [|a l IH]; intros i x H; [destruct i; discriminate|].
  destruct i as [|i]; simpl in *.
  - inversion H. left. reflexivity.
  - right. apply IH. exact H.
Qed.

Lemma firstn_In_mono : forall {A} (l : list A) n m x, n <= m -> In x (firstn n l) -> In x (firstn m l).
Proof.
  induction l as [|a l IH]; intros n m x Hnm H; [rewrite firstn_nil in H; contradiction|].
  destruct n as [|n]; [contradiction|]. destruct m as [|m]; [lia|].
  simpl in *. destruct H as [H|H]; [left; exact H | right; apply IH with n; [lia | exact H]].
Qed.

(* scratch_electron_register_unused: the register borrowed for instruction i did not
   occur as an operand of instructions 0..i (in particular not of the gate itself) *)
Lemma unused_register_fresh : forall p i j x r sc,
  unused_register (tst_at p i) = Some sc -> j <= i -> nth_error p j = Some x -> In r (top_regs x) -> sc <> r.
Proof.
  intros p i j x r sc Hu Hj Hx Hr He. subst r.
  unfold unused_register in Hu. apply first_unused_not_used in Hu. apply Hu.
  rewrite tst_at_scan. eapply used_scan_top; [|exact Hr].
  assert (Hin : In x (firstn (Datatypes.S j) p)) by (apply nth_error_firstn_S; exact Hx).
  apply firstn_In_mono with (Datatypes.S j); [lia | exact Hin].
Qed.

Lemma scratch_at_in_upto : forall c p n i r, i < n -> scratch_at c p i = Some r -> In r (scratch_regs_upto c p n).
Proof.
  induction n as [|n IH]; intros i r Hi Hs; [lia|].
  simpl. destruct (Nat.eq_dec i n) as [->|Hne].
  - rewrite Hs. left. reflexivity.
  - apply in_or_app. right. apply IH with i; [lia | exact Hs].
Qed.

Lemma scratch_at_in : forall c p i r, scratch_at c p i = Some r -> In r (scratch_regs c p).
Proof.
  intros c p i r H. unfold scratch_regs. apply scratch_at_in_upto with i; [|exact H].
  unfold scratch_at in H. destruct (nth_error p i) eqn:E; [|discriminate].
  apply nth_error_Some. congruence.
Qed.

(* ================================================================= simulation *)
Definition scratch_fresh (c : config) (p : prog) : Prop :=
  forall r ins, In r (scratch_regs c p) -> In ins p -> ~ In r (mentions ins).

Lemma top_regs_mentions : forall i r, In r (top_regs i) -> In r (mentions i).
Proof.
  intros i r H. destruct i; simpl in *; try exact H.
  - destruct H as [H|[]]; auto.
  - destruct H as [H|[]]; auto.
  - contradiction.
  - apply in_or_app. left. exact H.
Qed.

Section Sim.
  Variable env : env_t.
  Variable c : config.
  Variables p p' : prog.
  Variable bs : list prog.
  Hypothesis Hlay : layout c p p' bs.
  Hypothesis Hfresh : scratch_fresh c p.

  Let P2 := erase p'.
  Let S := scratch_regs c p.

  Lemma off_start : forall t, t <= List.length p -> nth_error (starts 0 bs) t = Some (off bs t).
  Proof. intros t Ht. rewrite starts_spec by (rewrite (lay_len _ _ _ _ Hlay); exact Ht). reflexivity. Qed.

  (* the single retargeted instruction standing for a non-gate instruction *)
  Lemma single_block : forall pc ins,
    nth_error p pc = Some ins -> is_gate ins = false -> real ins = true ->
    exists ins', retarget (starts 0 bs) ins = Ok ins' /\ nth_error P2 (off bs pc) = Some ins' /\
                 off bs (Datatypes.S pc) = Datatypes.S (off bs pc).
  Proof.
    intros pc ins Hn Hg Hr.
    destruct (lay_exp _ _ _ _ Hlay pc ins Hn) as [b [Hb He]].
    assert (b = [ins]) by (destruct ins; simpl in Hg; try discriminate; simpl in He; inversion He; reflexivity).
    subst b.
    destruct (lay_blk _ _ _ _ Hlay pc _ Hb) as [b' [HF Hk]].
    assert (He1 : erase [ins] = [ins]) by (unfold erase; simpl; rewrite Hr; reflexivity).
    rewrite He1 in HF. inversion HF as [|? x' ? l' Hx Hl]; subst. inversion Hl; subst.
    exists x'. split; [exact Hx|]. split.
    - specialize (Hk 0 ltac:(simpl; lia)). rewrite Nat.add_0_r in Hk. exact Hk.
    - rewrite (off_S _ _ _ Hb). unfold rlen. rewrite He1. simpl. lia.
  Qed.

  Lemma gate_block : forall pc ins b,
    nth_error p pc = Some ins -> expand c (tst_at p pc) ins = Ok b ->
    Forall (fun i => target i = None) (erase b) ->
    (forall k, k < List.length (erase b) -> nth_error P2 (off bs pc + k) = nth_error (erase b) k) /\
    off bs (Datatypes.S pc) = off bs pc + List.length (erase b).
  Proof.
    intros pc ins b Hn He Hnt.
    destruct (lay_exp _ _ _ _ Hlay pc ins Hn) as [b0 [Hb He0]].
    rewrite He in He0. inversion He0; subst b0.
    destruct (lay_blk _ _ _ _ Hlay pc _ Hb) as [b' [HF Hk]].
    apply Forall2_retarget_id in HF; [|exact Hnt]. subst b'.
    split; [exact Hk|]. rewrite (off_S _ _ _ Hb). reflexivity.
  Qed.

  Lemma step_sim : forall pc ins s pc2 s2 s',
    nth_error p pc = Some ins -> step env ins pc s = Next pc2 s2 ->
    gate_choice_ok c p pc s = true -> rel c S s s' ->
    exists k s2', steps env P2 k (off bs pc) s' = Some (off bs pc2, s2') /\ rel c S s2 s2' /\
                  pc2 <= List.length p.
  Proof.
    intros pc ins s pc2 s2 s' Hn Hs Hgc Hrel.
    assert (Hpc : pc < List.length p) by (apply nth_error_Some; congruence).
    assert (Hin : In ins p) by (eapply nth_error_In; exact Hn).
    assert (Hm : forall r, In r (mentions ins) -> ~ In r S).
    { intros r Hr HS. exact (Hfresh r ins HS Hin Hr). }
    assert (Hreal : real ins = true) by (destruct ins; try reflexivity; simpl in Hs; discriminate).
    destruct (is_gate ins) eqn:Hg.
    - (* ---- gates *)
      destruct Hrel as [Hr Ha Hsc Htr].
      destruct ins; simpl in Hg; try discriminate.
      + (* IGate1 *)
        simpl in Hs. destruct (regs s r) as [q|] eqn:Eq; [|discriminate]. inversion Hs; subst pc2 s2.
        set (l := t_g1 (c_tab c) g).
        assert (He : expand c (tst_at p pc) (IGate1 g r) = Ok (map (fun '(ax, n, d) => IRot ax r n d) l)) by reflexivity.
        assert (Her : erase (map (fun '(ax, n, d) => IRot ax r n d) l) = map (fun '(ax, n, d) => IRot ax r n d) l).
        { unfold erase. clear. induction l as [|[[ax n] d] l IH]; simpl; [reflexivity|]. rewrite IH. reflexivity. }
        destruct (gate_block pc _ _ Hn He) as [Hk Ho].
        { rewrite Her. apply Forall_forall. intros x Hx. apply in_map_iff in Hx.
          destruct Hx as [[[ax n] d] [Hx _]]. subst. reflexivity. }
        rewrite Her in Hk, Ho. rewrite map_length in Hk, Ho.
        assert (Hq : regs s' r = Some q).
        { rewrite <- Eq. symmetry. apply Hr. apply Hm. simpl. auto. }
        exists (List.length l). eexists. split.
        * rewrite (steps_rots env P2 r q l (off bs pc) s' Hk Hq). rewrite Ho. reflexivity.
        * split; [|lia]. constructor; simpl; auto.
          apply expand_trace_snoc; [exact Htr | reflexivity].
      + (* IRot *)
        simpl in Hs. destruct (regs s r) as [q|] eqn:Eq; [|discriminate]. inversion Hs; subst pc2 s2.
        destruct (lay_exp _ _ _ _ Hlay pc _ Hn) as [b0 [Hb0 He0]].
        simpl in He0. destruct (rot_angle (c_hw c) n d) as [[n' d']|] eqn:Era; [|discriminate].
        inversion He0; subst b0.
        destruct (gate_block pc _ [IRot ax r n' d'] Hn) as [Hk Ho].
        { simpl. rewrite Era. reflexivity. }
        { repeat constructor. }
        simpl in Hk, Ho.
        assert (Hq : regs s' r = Some q).
        { rewrite <- Eq. symmetry. apply Hr. apply Hm. simpl. auto. }
        exists 1. eexists. split.
        * simpl. specialize (Hk 0 ltac:(lia)). rewrite Nat.add_0_r in Hk. rewrite Hk. simpl. rewrite Hq.
          rewrite Ho. rewrite Nat.add_1_r. reflexivity.
        * split; [|lia]. constructor; simpl; auto.
          apply expand_trace_snoc; [exact Htr|]. simpl. rewrite Era. reflexivity.
      + (* IGate2 *)
        simpl in Hs. destruct (regs s r0) as [q0|] eqn:E0; [|discriminate].
        destruct (regs s r1) as [q1|] eqn:E1; [|discriminate]. inversion Hs; subst pc2 s2.
        unfold gate_choice_ok in Hgc. rewrite Hn, E0, E1 in Hgc.
        destruct (choose_placement g (tst_at p pc) r0 r1) as [pl|] eqn:Ecp; [|discriminate].
        destruct (placement_of q0 q1) as [pl'|] eqn:Epo; [|discriminate].
        assert (pl' = pl) by (destruct pl, pl'; try discriminate; reflexivity). subst pl'.
        destruct (lay_exp _ _ _ _ Hlay pc _ Hn) as [b0 [Hb0 He0]].
        assert (He0' := He0). simpl in He0. rewrite Ecp in He0.
        destruct (t_g2 (c_tab c) g pl) as [b|] eqn:Etab; [|discriminate].
        assert (Hq0 : regs s' r0 = Some q0).
        { rewrite <- E0. symmetry. apply Hr. apply Hm. simpl. auto. }
        assert (Hq1 : regs s' r1 = Some q1).
        { rewrite <- E1. symmetry. apply Hr. apply Hm. simpl. auto. }
        assert (Hev : expand_event c (EvG2 g q0 q1) = Some (block_events b q0 q1)).
        { simpl. rewrite Epo, Etab. reflexivity. }
        set (items := filter (keep_item false) (b_items b)).
        destruct (uses_scratch b) eqn:Eus.
        * (* a scratch register is borrowed *)
          destruct (unused_register (tst_at p pc)) as [sc|] eqn:Eun; [|discriminate].
          inversion He0; subst b0.
          unfold uses_scratch in Eus. destruct (b_scratch b) as [v|] eqn:Ebs; [|discriminate].
          destruct (gate_block pc _ _ Hn He0') as [Hk Ho].
          { rewrite erase_inst_block. apply inst_block_notarget. }
          rewrite erase_inst_block in Hk, Ho. unfold inst_block in Hk, Ho. rewrite Ebs in Hk, Ho.
          fold items in Hk, Ho. simpl in Hk, Ho. rewrite map_length in Hk, Ho.
          assert (HscS : In sc S).
          { apply scratch_at_in with pc. unfold scratch_at. rewrite Hn, Ecp, Etab.
            unfold uses_scratch. rewrite Ebs. exact Eun. }
          assert (Hne0 : sc <> r0) by (eapply unused_register_fresh; [exact Eun | apply le_n | exact Hn | simpl; auto]).
          assert (Hne1 : sc <> r1) by (eapply unused_register_fresh; [exact Eun | apply le_n | exact Hn | simpl; auto]).
          set (s1 := setreg s' sc v).
          assert (Hs1sc : regs s1 sc = Some v) by (simpl; unfold upd; rewrite reg_eqb_refl; reflexivity).
          assert (Hs10 : regs s1 r0 = Some q0).
          { simpl. unfold upd. rewrite reg_eqb_neq by congruence. exact Hq0. }
          assert (Hs11 : regs s1 r1 = Some q1).
          { simpl. unfold upd. rewrite reg_eqb_neq by congruence. exact Hq1. }
          assert (Hk' : forall k, k < List.length items ->
                    nth_error P2 (Datatypes.S (off bs pc) + k) = nth_error (map (inst_item sc r0 r1) items) k).
          { intros k Hlt. specialize (Hk (Datatypes.S k) ltac:(lia)). simpl in Hk. rewrite <- Hk. f_equal. lia. }
          exists (1 + List.length items). eexists. split.
          -- rewrite steps_app. simpl.
             specialize (Hk 0 ltac:(lia)). rewrite Nat.add_0_r in Hk. simpl in Hk. rewrite Hk. simpl.
             fold s1.
             rewrite (steps_items env P2 sc r0 r1 v q0 q1 items _ s1 Hk' (filter_keep_false_Forall _) Hs1sc Hs10 Hs11).
             rewrite Ho. f_equal. f_equal. lia.
          -- split; [|lia]. constructor; simpl; auto.
             ++ apply agree_upd_in; [exact HscS | exact Hr].
             ++ apply expand_trace_snoc; [exact Htr|]. rewrite Hev. unfold block_events. rewrite Ebs.
                unfold items. rewrite flat_map_keep. reflexivity.
        * (* no scratch register *)
          inversion He0; subst b0.
          unfold uses_scratch in Eus. destruct (b_scratch b) as [v|] eqn:Ebs; [discriminate|].
          destruct (gate_block pc _ _ Hn He0') as [Hk Ho].
          { rewrite erase_inst_block. apply inst_block_notarget. }
          rewrite erase_inst_block in Hk, Ho. unfold inst_block in Hk, Ho. rewrite Ebs in Hk, Ho.
          fold items in Hk, Ho. simpl in Hk, Ho. rewrite map_length in Hk, Ho.
          exists (List.length items). eexists. split.
          -- rewrite (steps_items env P2 r0 r0 r1 q0 q0 q1 items _ s' Hk (filter_keep_false_Forall _) Hq0 Hq0 Hq1).
             rewrite Ho. reflexivity.
          -- split; [|lia]. constructor; simpl; auto.
             apply expand_trace_snoc; [exact Htr|]. rewrite Hev. unfold block_events. rewrite Ebs.
             unfold items. rewrite flat_map_keep. reflexivity.
    - (* ---- everything else: one retargeted instruction *)
      destruct (single_block pc ins Hn Hg Hreal) as [ins' [Hrt [Hat HoS]]].
      destruct (target ins) as [t|] eqn:Et.
      + (* branches *)
        assert (Htl : t <= List.length p) by (eapply (lay_tgt _ _ _ _ Hlay); eassumption).
        pose proof (off_start t Htl) as Hmt.
        destruct Hrel as [Hr Ha Hsc Htr].
        destruct ins; simpl in Et; try discriminate; inversion Et; subst t0; simpl in Hrt; rewrite Hmt in Hrt;
          inversion Hrt; subst ins'; simpl in Hs.
        * (* IJmp *) inversion Hs; subst. exists 1. exists s'. split.
          -- simpl. rewrite Hat. reflexivity.
          -- split; [constructor; assumption | exact Htl].
        * (* IBr1 *) inversion Hs; subst.
          assert (Hq : regs s' r = regs s2 r) by (symmetry; apply Hr; apply Hm; simpl; auto).
          exists 1. exists s'. split.
          -- simpl. rewrite Hat. simpl. rewrite Hq. destruct (br1_taken c0 (regs s2 r)); [reflexivity|].
             rewrite HoS. reflexivity.
          -- split; [constructor; assumption|]. destruct (br1_taken c0 (regs s2 r)); lia.
        * (* IBr2 *)
          assert (Hqa : regs s' a = regs s a) by (symmetry; apply Hr; apply Hm; simpl; auto).
          assert (Hqb : regs s' b = regs s b) by (symmetry; apply Hr; apply Hm; simpl; auto).
          destruct (br2_taken c0 (regs s a) (regs s b)) as [[|]|] eqn:Eb; [| |discriminate]; inversion Hs; subst.
          -- exists 1. exists s'. split; [simpl; rewrite Hat; simpl; rewrite Hqa, Hqb, Eb; reflexivity|].
             split; [constructor; assumption | exact Htl].
          -- exists 1. exists s'. split; [simpl; rewrite Hat; simpl; rewrite Hqa, Hqb, Eb, HoS; reflexivity|].
             split; [constructor; assumption | lia].
      + rewrite retarget_id in Hrt by exact Et. inversion Hrt; subst ins'.
        destruct (step_frame env c S ins pc (off bs pc) s s' pc2 s2 Et Hg Hm Hrel Hs) as [Hp2 [s2' [Hs' Hrel']]].
        subst pc2. exists 1. exists s2'. split.
        * simpl. rewrite Hat, Hs', HoS. reflexivity.
        * split; [exact Hrel' | lia].
  Qed.

  Lemma sim_steps : forall n fuel pc s pc2 s2 s',
    n <= fuel -> tracked_run env c p fuel pc s = true ->
    steps env p n pc s = Some (pc2, s2) -> rel c S s s' -> pc <= List.length p ->
    exists m s2', steps env P2 m (off bs pc) s' = Some (off bs pc2, s2') /\ rel c S s2 s2' /\
                  pc2 <= List.length p.
  Proof.
    induction n as [|n IH]; intros fuel pc s pc2 s2 s' Hf Htr Hs Hrel Hpc.
    - simpl in Hs. inversion Hs; subst. exists 0, s'. split; [reflexivity|]. split; assumption.
    - destruct fuel as [|fuel]; [lia|].
      simpl in Hs. destruct (nth_error p pc) as [ins|] eqn:Hn; [|discriminate].
      destruct (step env ins pc s) as [pc1 s1|] eqn:Hst; [|discriminate].
      destruct (tracked_run_step _ _ _ _ _ _ _ _ _ Htr Hn Hst) as [Hgc Htr1].
      destruct (step_sim pc ins s pc1 s1 s' Hn Hst Hgc Hrel) as [k [s1' [Hk [Hrel1 Hpc1]]]].
      destruct (IH fuel pc1 s1 pc2 s2 s1' ltac:(lia) Htr1 Hs Hrel1 Hpc1) as [m [s2' [Hm [Hrel2 Hpc2]]]].
      exists (k + m), s2'. split; [|split; assumption].
      rewrite steps_app, Hk. exact Hm.
  Qed.
End Sim.

(* ============================================================== main theorems *)
Definition clobbered (c : config) (p : prog) : list reg :=
  scratch_regs c p ++ (if targets_end p then [fst (t_noop (c_tab c))] else []).

Lemma nth_split_tail : forall {A} (l a t : list A) n k,
  l = a ++ t -> List.length a = n -> nth_error l (n + k) = nth_error t k.
Proof.
  intros A l a t n k H Hn. subst l. rewrite nth_error_app2 by lia. f_equal. lia.
Qed.

Theorem transpile_simulates : forall env c p p' s0 s0' fuel pcf sf,
  transpile c p = Ok p' -> scratch_fresh c p ->
  rel c (scratch_regs c p) s0 s0' ->
  tracked_run env c p fuel 0 s0 = true ->
  run env p fuel 0 s0 = (Halted, pcf, sf) ->
  exists fuel' pcf' sf',
    run env (erase p') fuel' 0 s0' = (Halted, pcf', sf') /\ rel c (clobbered c p) sf sf'.
Proof.
  intros env c p p' s0 s0' fuel pcf sf Ht Hfr Hrel Htr Hrun.
  destruct (transpile_layout _ _ _ Ht) as [bs Hlay].
  destruct (run_halted_steps _ _ _ _ _ _ _ Hrun) as [n [Hn [Hst Hnone]]].
  destruct (sim_steps env c p p' bs Hlay Hfr n fuel 0 s0 pcf sf s0' Hn Htr Hst Hrel ltac:(lia))
    as [m [sf1 [Hm [Hrel1 Hpcf]]]].
  assert (pcf = List.length p).
  { apply nth_error_None in Hnone. lia. }
  subst pcf. rewrite off_0 in Hm.
  destruct (lay_end _ _ _ _ Hlay) as [Hend Hlen].
  remember (firstn (off bs (List.length p)) (erase p')) as a eqn:Ea.
  remember (off bs (List.length p)) as N eqn:EN.
  destruct Hrel1 as [Hr Ha Hsc Htrc].
  unfold clobbered. destruct (targets_end p).
  - (* the appended no-op executes last *)
    assert (H0 : nth_error (erase p') N = Some (noop c)).
    { rewrite <- (Nat.add_0_r N). rewrite (nth_split_tail _ _ _ N 0 Hend Hlen). reflexivity. }
    assert (H1 : nth_error (erase p') (Datatypes.S N) = None).
    { replace (Datatypes.S N) with (N + 1) by lia. rewrite (nth_split_tail _ _ _ N 1 Hend Hlen). reflexivity. }
    exists (m + 1). eexists. eexists. split.
    + rewrite (run_steps _ _ _ _ _ _ _ _ Hm). cbn [run]. rewrite H0. unfold noop. cbn [step run]. rewrite H1. reflexivity.
    + constructor; simpl; auto.
      apply agree_upd_in; [apply in_or_app; right; left; reflexivity|].
      eapply agree_weaken; [|exact Hr]. intros r Hin. apply in_or_app. left. exact Hin.
  - assert (H0 : nth_error (erase p') N = None).
    { rewrite <- (Nat.add_0_r N). rewrite (nth_split_tail _ _ _ N 0 Hend Hlen). reflexivity. }
    exists (m + 0). eexists. eexists. split.
    + rewrite (run_steps _ _ _ _ _ _ _ _ Hm). simpl. rewrite H0. reflexivity.
    + constructor; simpl; auto. rewrite app_nil_r. exact Hr.
Qed.

(* every prefix of every vanilla run (also of runs that later fault or never halt)
   is matched by a prefix of the NV run *)
Theorem transpile_simulates_prefix : forall env c p p' s0 s0' n fuel pc s,
  transpile c p = Ok p' -> scratch_fresh c p ->
  rel c (scratch_regs c p) s0 s0' ->
  n <= fuel -> tracked_run env c p fuel 0 s0 = true ->
  steps env p n 0 s0 = Some (pc, s) ->
  exists m pc' s', steps env (erase p') m 0 s0' = Some (pc', s') /\ rel c (scratch_regs c p) s s' /\
                   nth_error (starts 0 (match expand_all c tst0 p with Ok bs => bs | Err _ => [] end)) pc = Some pc'.
Proof.
  intros env c p p' s0 s0' n fuel pc s Ht Hfr Hrel Hn Htr Hst.
  destruct (transpile_layout _ _ _ Ht) as [bs Hlay].
  destruct (sim_steps env c p p' bs Hlay Hfr n fuel 0 s0 pc s s0' Hn Htr Hst Hrel ltac:(lia))
    as [m [s' [Hm [Hrel1 Hpc]]]].
  rewrite off_0 in Hm. exists m, (off bs pc), s'. split; [exact Hm|]. split; [exact Hrel1|].
  rewrite (lay_bs _ _ _ _ Hlay). apply (off_start c p p' bs Hlay). exact Hpc.
Qed.

(* ---------------------------------------------------- the program-level lemmas *)
Definition new_index (c : config) (p : prog) (i : nat) : option nat :=
  match expand_all c tst0 p with Ok bs => nth_error (starts 0 bs) i | Err _ => None end.

(* a branch / jump is emitted at the new index of its own position, and its new
   immediate is the new index of its old target, where the expansion of the
   instruction it targeted starts *)
Theorem retarget_hits_block_start : forall c p p' i ins t,
  transpile c p = Ok p' -> nth_error p i = Some ins -> target ins = Some t ->
  exists ni nt ins',
    new_index c p i = Some ni /\ new_index c p t = Some nt /\
    nth_error (erase p') ni = Some ins' /\ target ins' = Some nt /\ t <= List.length p /\
    forall x b, nth_error p t = Some x -> expand c (tst_at p t) x = Ok b ->
      exists b', Forall2 (fun y y' => retarget (match expand_all c tst0 p with Ok bs => starts 0 bs | Err _ => [] end) y = Ok y')
                         (erase b) b' /\
                 forall k, k < List.length b' -> nth_error (erase p') (nt + k) = nth_error b' k.
Proof.
  intros c p p' i ins t Ht Hn Htg.
  destruct (transpile_layout _ _ _ Ht) as [bs Hlay].
  assert (Hreal : real ins = true) by (destruct ins; simpl in Htg; try discriminate; reflexivity).
  assert (Hg : is_gate ins = false) by (destruct ins; simpl in Htg; try discriminate; reflexivity).
  assert (Hi : i < List.length p) by (apply nth_error_Some; congruence).
  assert (Htl : t <= List.length p) by (eapply (lay_tgt _ _ _ _ Hlay); eassumption).
  destruct (single_block c p p' bs Hlay i ins Hn Hg Hreal) as [ins' [Hrt [Hat _]]].
  exists (off bs i), (off bs t), ins'.
  unfold new_index. rewrite (lay_bs _ _ _ _ Hlay).
  rewrite (off_start c p p' bs Hlay i) by lia. rewrite (off_start c p p' bs Hlay t) by exact Htl.
  split; [reflexivity|]. split; [reflexivity|]. split; [exact Hat|]. split.
  - pose proof (off_start c p p' bs Hlay t Htl) as Hmt.
    destruct ins; simpl in Htg; try discriminate; inversion Htg; subst; simpl in Hrt; rewrite Hmt in Hrt;
      inversion Hrt; reflexivity.
  - split; [exact Htl|]. intros x b Hx He.
    destruct (lay_exp _ _ _ _ Hlay t x Hx) as [b0 [Hb0 He0]]. rewrite He in He0. inversion He0; subst b0.
    exact (lay_blk _ _ _ _ Hlay t b Hb0).
Qed.

(* a target just past the end: the emitted program ends with the no-op, which sits
   exactly at the new index of the old length *)
Theorem end_target_gets_noop : forall c p p',
  transpile c p = Ok p' ->
  exists n, new_index c p (List.length p) = Some n /\
    if targets_end p
    then nth_error (erase p') n = Some (noop c) /\ List.length (erase p') = Datatypes.S n
    else List.length (erase p') = n.
Proof.
  intros c p p' Ht. destruct (transpile_layout _ _ _ Ht) as [bs Hlay].
  exists (off bs (List.length p)). unfold new_index. rewrite (lay_bs _ _ _ _ Hlay).
  split; [apply (off_start c p p' bs Hlay); lia|].
  destruct (lay_end _ _ _ _ Hlay) as [Hend Hlen].
  remember (firstn (off bs (List.length p)) (erase p')) as a eqn:Ea.
  remember (off bs (List.length p)) as N eqn:EN.
  destruct (targets_end p).
  - split.
    + rewrite <- (Nat.add_0_r N). rewrite (nth_split_tail _ _ _ N 0 Hend Hlen). reflexivity.
    + rewrite Hend, app_length, Hlen. simpl. lia.
  - rewrite Hend, app_length, Hlen. simpl. lia.
Qed.

Lemma off_mono : forall bs i j, i <= j -> j <= List.length bs -> off bs i <= off bs j.
Proof.
  intros bs i j Hij Hj. induction j as [|j IH].
  - assert (i = 0) by lia. subst. lia.
  - destruct (Nat.eq_dec i (Datatypes.S j)) as [->|Hne]; [lia|].
    destruct (nth_error bs j) as [b|] eqn:Eb; [|apply nth_error_None in Eb; lia].
    rewrite (off_S _ _ _ Eb). specialize (IH ltac:(lia) ltac:(lia)). lia.
Qed.

(* instructions that are not gates are emitted (retargeted) in their original order *)
Theorem non_gates_keep_order : forall c p p' i j a b,
  transpile c p = Ok p' -> i < j ->
  nth_error p i = Some a -> nth_error p j = Some b ->
  is_gate a = false -> is_gate b = false -> real a = true -> real b = true ->
  exists i' j' a' b',
    new_index c p i = Some i' /\ new_index c p j = Some j' /\ i' < j' /\
    nth_error (erase p') i' = Some a' /\ nth_error (erase p') j' = Some b' /\
    (target a = None -> a' = a) /\ (target b = None -> b' = b).
Proof.
  intros c p p' i j a b Ht Hij Ha Hb Hga Hgb Hra Hrb.
  destruct (transpile_layout _ _ _ Ht) as [bs Hlay].
  assert (Hj : j < List.length p) by (apply nth_error_Some; congruence).
  destruct (single_block c p p' bs Hlay i a Ha Hga Hra) as [a' [Hrta [Hata HoSa]]].
  destruct (single_block c p p' bs Hlay j b Hb Hgb Hrb) as [b' [Hrtb [Hatb _]]].
  exists (off bs i), (off bs j), a', b'. unfold new_index. rewrite (lay_bs _ _ _ _ Hlay).
  rewrite (off_start c p p' bs Hlay i) by lia. rewrite (off_start c p p' bs Hlay j) by lia.
  split; [reflexivity|]. split; [reflexivity|]. split.
  - pose proof (off_mono bs (Datatypes.S i) j ltac:(lia) ltac:(rewrite (lay_len _ _ _ _ Hlay); lia)). lia.
  - split; [exact Hata|]. split; [exact Hatb|]. split; intro Hn.
    + rewrite retarget_id in Hrta by exact Hn. inversion Hrta. reflexivity.
    + rewrite retarget_id in Hrtb by exact Hn. inversion Hrtb. reflexivity.
Qed.

(* the scratch electron register of a carbon-carbon block is none of the registers
   that occurred (as operands) up to and including the gate itself *)
Theorem scratch_electron_register_unused : forall c p i j x r sc,
  scratch_at c p i = Some sc -> j <= i -> nth_error p j = Some x -> In r (top_regs x) -> sc <> r.
Proof.
  intros c p i j x r sc Hs Hj Hx Hr. unfold scratch_at in Hs.
  destruct (nth_error p i) as [[]|]; try discriminate.
  destruct (choose_placement g (tst_at p i) r0 r1); try discriminate.
  destruct (t_g2 (c_tab c) g a); try discriminate.
  destruct (uses_scratch b); try discriminate.
  eapply unused_register_fresh; eassumption.
Qed.

(* ------------------------------------------------------------- quantum half *)
Section Quantum.
  Variable QS : Type.
  Variable qeq : QS -> QS -> Prop.
  Variable apply_ev : event -> QS -> QS.
  Hypothesis qeq_refl : forall a, qeq a a.
  Hypothesis qeq_trans : forall a b d, qeq a b -> qeq b d -> qeq a d.
  Hypothesis apply_proper : forall e a b, qeq a b -> qeq (apply_ev e a) (apply_ev e b).

  Definition run_q (t : list event) (psi : QS) : QS := fold_left (fun a e => apply_ev e a) t psi.

  (* the hypothesis discharged row by row by property C07: the NV events a vanilla
     event expands to act on every state like the event itself (up to qeq) *)
  Definition blocks_sound (c : config) : Prop :=
    forall e es psi, expand_event c e = Some es -> qeq (run_q es psi) (apply_ev e psi).

  Lemma run_q_proper : forall t a b, qeq a b -> qeq (run_q t a) (run_q t b).
  Proof.
    induction t as [|e t IH]; intros a b H; simpl; [exact H|]. apply IH. apply apply_proper. exact H.
  Qed.

  Lemma expand_trace_sound : forall c t t' psi psi',
    blocks_sound c -> expand_trace c t = Some t' -> qeq psi' psi -> qeq (run_q t' psi') (run_q t psi).
  Proof.
    intros c t. induction t as [|e t IH]; intros t' psi psi' Hb Ht Hq; simpl in Ht.
    - inversion Ht; subst. exact Hq.
    - destruct (expand_event c e) as [es|] eqn:Ee; [|discriminate].
      destruct (expand_trace c t) as [t0|] eqn:Et; [|discriminate].
      inversion Ht; subst t'. unfold run_q. rewrite fold_left_app. simpl.
      apply (IH t0 (apply_ev e psi) (run_q es psi') Hb eq_refl).
      eapply qeq_trans; [apply run_q_proper; exact Hq | apply Hb; exact Ee].
  Qed.

  Theorem transpile_simulates_quantum : forall env c p p' s0 fuel pcf sf psi,
    transpile c p = Ok p' -> scratch_fresh c p -> blocks_sound c ->
    trace s0 = [] ->
    tracked_run env c p fuel 0 s0 = true ->
    run env p fuel 0 s0 = (Halted, pcf, sf) ->
    exists fuel' pcf' sf',
      run env (erase p') fuel' 0 s0 = (Halted, pcf', sf') /\
      agree (clobbered c p) (regs sf) (regs sf') /\ arrs sf = arrs sf' /\ script sf = script sf' /\
      qeq (run_q (trace sf') psi) (run_q (trace sf) psi).
  Proof.
    intros env c p p' s0 fuel pcf sf psi Ht Hfr Hbs Htr0 Htr Hrun.
    assert (Hrel0 : rel c (scratch_regs c p) s0 s0).
    { constructor; auto. - intros r _. reflexivity. - rewrite Htr0. reflexivity. }
    destruct (transpile_simulates env c p p' s0 s0 fuel pcf sf Ht Hfr Hrel0 Htr Hrun)
      as [fuel' [pcf' [sf' [Hrun' [Hr Ha Hsc Htrc]]]]].
    exists fuel', pcf', sf'. split; [exact Hrun'|]. split; [exact Hr|]. split; [exact Ha|].
    split; [exact Hsc|]. eapply expand_trace_sound; [exact Hbs | exact Htrc | apply qeq_refl].
  Qed.
End Quantum.

(* --------------------------------------------- decidable side conditions, misc *)
Definition scratch_fresh_b (c : config) (p : prog) : bool :=
  forallb (fun r => forallb (fun ins => negb (mem_reg r (mentions ins))) p) (scratch_regs c p).

Lemma scratch_fresh_b_sound : forall c p, scratch_fresh_b c p = true -> scratch_fresh c p.
Proof.
  intros c p H r ins Hr Hi Hm. unfold scratch_fresh_b in H.
  rewrite forallb_forall in H. specialize (H r Hr). rewrite forallb_forall in H. specialize (H ins Hi).
  apply negb_true_iff in H. apply mem_reg_In in Hm. congruence.
Qed.

Lemma run_more : forall env p f k pc s pcf sf,
  run env p f pc s = (Halted, pcf, sf) -> run env p (f + k) pc s = (Halted, pcf, sf).
Proof.
  induction f as [|f IH]; intros k pc s pcf sf H; simpl in H.
  - destruct (nth_error p pc) eqn:E; [discriminate|]. destruct k; simpl; rewrite E; exact H.
  - simpl. destruct (nth_error p pc) as [i|]; [|exact H].
    destruct (step env i pc s) as [pc1 s1|]; [apply IH; exact H | exact H].
Qed.

Lemma run_halted_unique : forall env p f1 f2 pc s a b,
  run env p f1 pc s = (Halted, fst a, snd a) -> run env p f2 pc s = (Halted, fst b, snd b) -> a = b.
Proof.
  intros env p f1 f2 pc s [a1 a2] [b1 b2] H1 H2. simpl in *.
  pose proof (run_more _ _ _ f2 _ _ _ _ H1) as H1'. pose proof (run_more _ _ _ f1 _ _ _ _ H2) as H2'.
  rewrite Nat.add_comm in H2'. rewrite H1' in H2'. inversion H2'. reflexivity.
Qed.

Lemma run_halted_unique' : forall env p f1 f2 pc s pc1 s1 pc2 s2,
  run env p f1 pc s = (Halted, pc1, s1) -> run env p f2 pc s = (Halted, pc2, s2) -> s1 = s2.
Proof.
  intros env p f1 f2 pc s pc1 s1 pc2 s2 H1 H2.
  pose proof (run_more _ _ _ f2 _ _ _ _ H1) as H1'. pose proof (run_more _ _ _ f1 _ _ _ _ H2) as H2'.
  rewrite Nat.add_comm in H2'. rewrite H1' in H2'. inversion H2'. reflexivity.
Qed.

(* ============ filling rotation immediates commutes with transpiling (C06's clause) *)
(* `Subroutine.instantiate` replaces Template operands; the SDK puts templates only in
   the numerator / denominator of rot_x/y/z.  A template is represented here by the
   integer standing for it; instantiation is then a map f (numerators) / g
   (denominators) on the immediates of the rotation instructions that fixes every
   concrete immediate of the decomposition table. *)
Definition map_rot (f g : Z -> Z) (i : instr) : instr :=
  match i with IRot ax r n d => IRot ax r (f n) (g d) | _ => i end.

Definition fixes_table (f g : Z -> Z) (t : tables) : Prop :=
  (forall gt ax n d, In (ax, n, d) (t_g1 t gt) -> f n = n /\ g d = d) /\
  (forall gt p b ax r n d, t_g2 t gt p = Some b -> In (BRot ax r n d) (b_items b) -> f n = n /\ g d = d).

Definition map_res (f g : Z -> Z) (r : result prog) : result prog :=
  match r with Ok b => Ok (map (map_rot f g) b) | Err e => Err e end.

Lemma track_map_rot : forall f g i s, track (map_rot f g i) s = track i s.
Proof. intros f g i s. destruct i; reflexivity. Qed.

Lemma real_map_rot : forall f g i, real (map_rot f g i) = real i.
Proof. intros f g i. destruct i; reflexivity. Qed.

Lemma target_map_rot : forall f g i, target (map_rot f g i) = target i.
Proof. intros f g i. destruct i; reflexivity. Qed.

Lemma rlen_map_rot : forall f g b, rlen (map (map_rot f g) b) = rlen b.
Proof.
  intros f g b. unfold rlen, erase. induction b as [|i b IH]; simpl; [reflexivity|].
  rewrite real_map_rot. destruct (real i); simpl; rewrite IH; reflexivity.
Qed.

Lemma inst_items_fixed : forall f g debug sc r0 r1 items,
  (forall ax r n d, In (BRot ax r n d) items -> f n = n /\ g d = d) ->
  map (inst_item sc r0 r1) (filter (keep_item debug) items) =
  map (map_rot f g) (map (inst_item sc r0 r1) (filter (keep_item debug) items)).
Proof.
  intros f g debug sc r0 r1. induction items as [|it items IH]; intro H; simpl; [reflexivity|].
  assert (H' : forall ax r n d, In (BRot ax r n d) items -> f n = n /\ g d = d)
    by (intros ax r n d Hin; apply (H ax r n d); right; exact Hin).
  destruct (keep_item debug it); [|apply IH; exact H'].
  simpl. f_equal; [|apply IH; exact H'].
  destruct it as [ax r n d| |]; try reflexivity. simpl.
  destruct (H ax r n d (or_introl eq_refl)) as [-> ->]. reflexivity.
Qed.

Lemma expand_map_rot : forall f g c s i,
  c_hw c = false -> fixes_table f g (c_tab c) ->
  expand c s (map_rot f g i) = map_res f g (expand c s i).
Proof.
  intros f g c s i Hhw [H1 H2]. destruct i; try reflexivity.
  - (* IGate1 *) simpl. f_equal.
    assert (Hl : forall l, (forall ax n d, In (ax, n, d) l -> f n = n /\ g d = d) ->
                 map (fun '(ax, n, d) => IRot ax r n d) l =
                 map (map_rot f g) (map (fun '(ax, n, d) => IRot ax r n d) l)).
    { induction l as [|[[ax n] d] l IH]; intro H; simpl; [reflexivity|].
      destruct (H ax n d (or_introl eq_refl)) as [-> ->]. f_equal. apply IH.
      intros ax' n' d' Hin. apply (H ax' n' d'). right. exact Hin. }
    apply Hl. intros ax n d Hin. exact (H1 g0 ax n d Hin).
  - (* IRot *) simpl. unfold rot_angle. rewrite Hhw. reflexivity.
  - (* IGate2 *) simpl. destruct (choose_placement g0 s r0 r1) as [pl|]; [|reflexivity].
    destruct (t_g2 (c_tab c) g0 pl) as [b|] eqn:Eb; [|reflexivity].
    assert (Hb : forall sc, inst_block (c_debug c) b sc r0 r1 = map (map_rot f g) (inst_block (c_debug c) b sc r0 r1)).
    { intro sc. unfold inst_block. rewrite map_app. f_equal; [destruct (b_scratch b); reflexivity|].
      apply inst_items_fixed. intros ax r n d Hin. exact (H2 g0 pl b ax r n d Eb Hin). }
    destruct (uses_scratch b); [|unfold map_res; rewrite <- Hb; reflexivity].
    destruct (unused_register s) as [sc|]; [unfold map_res; rewrite <- Hb; reflexivity | reflexivity].
Qed.

Lemma expand_all_map_rot : forall f g c p s,
  c_hw c = false -> fixes_table f g (c_tab c) ->
  expand_all c s (map (map_rot f g) p) =
  match expand_all c s p with Ok bs => Ok (map (map (map_rot f g)) bs) | Err e => Err e end.
Proof.
  intros f g c p. induction p as [|i p IH]; intros s Hhw Hf; simpl; [reflexivity|].
  rewrite track_map_rot, (expand_map_rot f g c _ i Hhw Hf).
  destruct (expand c (track i s) i) as [b|]; simpl; [|reflexivity].
  rewrite (IH _ Hhw Hf). destruct (expand_all c (track i s) p); reflexivity.
Qed.

Lemma starts_map_rot : forall f g bs n, starts n (map (map (map_rot f g)) bs) = starts n bs.
Proof.
  induction bs as [|b bs IH]; intro n; simpl; [reflexivity|]. rewrite rlen_map_rot, IH. reflexivity.
Qed.

Lemma retarget_map_rot : forall f g m i,
  retarget m (map_rot f g i) = match retarget m i with Ok i' => Ok (map_rot f g i') | Err e => Err e end.
Proof.
  intros f g m i. destruct i; try reflexivity; simpl; destruct (nth_error m t); reflexivity.
Qed.

Lemma retarget_all_map_rot : forall f g m l,
  retarget_all m (map (map_rot f g) l) = map_res f g (retarget_all m l).
Proof.
  induction l as [|i l IH]; simpl; [reflexivity|].
  rewrite retarget_map_rot. destruct (retarget m i); simpl; [|reflexivity].
  rewrite IH. destruct (retarget_all m l); reflexivity.
Qed.

Lemma targets_end_map_rot : forall f g p, targets_end (map (map_rot f g) p) = targets_end p.
Proof.
  intros f g p. unfold targets_end. rewrite map_length.
  generalize (List.length p). intro n. induction p as [|i p IH]; simpl; [reflexivity|].
  rewrite target_map_rot, IH. reflexivity.
Qed.

Theorem transpile_instantiate_commute : forall f g c p,
  c_hw c = false -> fixes_table f g (c_tab c) ->
  transpile c (map (map_rot f g) p) = map_res f g (transpile c p).
Proof.
  intros f g c p Hhw Hf. unfold transpile. rewrite (expand_all_map_rot f g c p tst0 Hhw Hf).
  destruct (expand_all c tst0 p) as [bs|]; [|reflexivity].
  rewrite starts_map_rot, <- concat_map, retarget_all_map_rot.
  destruct (retarget_all (starts 0 bs) (List.concat bs)) as [l|]; simpl; [|reflexivity].
  rewrite targets_end_map_rot, map_app. destruct (targets_end p); reflexivity.
Qed.

(* decidable sufficient condition: all immediates of the table are non-negative, the
   substitution only touches negative codes (templates) *)
Definition item_nonneg (it : bitem) : bool :=
  match it with BRot _ _ n d => (0 <=? n)%Z && (0 <=? d)%Z | _ => true end.
Definition nonneg_table (t : tables) : bool :=
  forallb (fun gt => forallb (fun '(ax, n, d) => (0 <=? n)%Z && (0 <=? d)%Z) (t_g1 t gt)) [GX; GY; GZ; GH; GK; GS; GT]
  && forallb (fun gt => forallb (fun p => match t_g2 t gt p with
                                          | Some b => forallb item_nonneg (b_items b) | None => true end)
                                [EC; CE; CC]) [Cnot; Cphase; Mov].

Lemma nonneg_table_fixes : forall f g t,
  nonneg_table t = true -> (forall n, (0 <= n)%Z -> f n = n) -> (forall d, (0 <= d)%Z -> g d = d) ->
  fixes_table f g t.
Proof.
  intros f g t H Hf Hg. unfold nonneg_table in H. apply andb_true_iff in H. destruct H as [H1 H2]. split.
  - intros gt ax n d Hin. rewrite forallb_forall in H1. specialize (H1 gt ltac:(destruct gt; simpl; tauto)).
    rewrite forallb_forall in H1. specialize (H1 _ Hin). simpl in H1.
    apply andb_true_iff in H1. destruct H1 as [A B]. apply Z.leb_le in A. apply Z.leb_le in B. auto.
  - intros gt p b ax r n d Hb Hin. rewrite forallb_forall in H2. specialize (H2 gt ltac:(destruct gt; simpl; tauto)).
    rewrite forallb_forall in H2. specialize (H2 p ltac:(destruct p; simpl; tauto)). rewrite Hb in H2.
    rewrite forallb_forall in H2. specialize (H2 _ Hin). simpl in H2.
    apply andb_true_iff in H2. destruct H2 as [A B]. apply Z.leb_le in A. apply Z.leb_le in B. auto.
Qed.

(* ==================================================== runs in which the vanilla program faults *)
Ltac fault_cases Hs :=
  repeat match type of Hs with
         | context [match ?x with _ => _ end] => destruct x eqn:?; try discriminate Hs; try reflexivity
         | context [if ?x then _ else _] => destruct x eqn:?; try discriminate Hs; try reflexivity
         end.

Lemma step_frame_fault : forall env c S ins pc pc' s s',
  target ins = None -> is_gate ins = false ->
  (forall r, In r (mentions ins) -> ~ In r S) ->
  rel c S s s' -> step env ins pc s = Fault -> step env ins pc' s' = Fault.
Proof.
  intros env c S ins pc pc' s s' Ht Hg Hm [Hr Ha Hsc Htr] Hs.
  assert (RD : forall r, In r (mentions ins) -> regs s' r = regs s r).
  { intros r Hin. symmetry. apply Hr. apply Hm. exact Hin. }
  destruct ins; simpl in Ht, Hg; try discriminate; simpl in Hs, RD |- *;
    try discriminate Hs; unfold write_entry in *;
    rewrite ?RD by (simpl; auto); rewrite <- ?Ha, <- ?Hsc;
    try (fault_cases Hs; fail).
  - (* IStore *)
    destruct (regs s r); [|reflexivity]. destruct (regs s ix); [|reflexivity].
    destruct (arrs s addr) as [l|]; [|reflexivity].
    destruct (norm_index z0 (Datatypes.length l)); [discriminate Hs | reflexivity].
  - (* IUndef *)
    destruct (regs s ix); [|reflexivity].
    destruct (arrs s addr) as [l|]; [|reflexivity].
    destruct (norm_index z (Datatypes.length l)); [discriminate Hs | reflexivity].
  - (* IDebug *) reflexivity.
  - (* IOther *)
    assert (Hv : map (regs s') (tops ++ inner) = map (regs s) (tops ++ inner)).
    { apply map_ext_in. intros r Hin. apply RD. rewrite app_assoc. apply in_or_app. left. exact Hin. }
    rewrite Hv. fault_cases Hs.
Qed.

Definition item_roles (it : bitem) : list role :=
  match it with BRot _ r _ _ => [r] | BCrot _ a b _ _ => [a; b] | BDbg _ => [] end.
Definition role_eqb (a b : role) : bool :=
  match a, b with RS, RS | RA, RA | RB, RB => true | _, _ => false end.
Definition block_reads (b : block) (r : role) : bool :=
  existsb (fun it => keep_item false it && existsb (role_eqb r) (item_roles it)) (b_items b).
(* every block reads both operand registers of its gate, every single-qubit row is
   non-empty: then a gate that faults in the vanilla program (an operand register was
   never written) also faults in its expansion *)
Definition table_reads_operands (t : tables) : bool :=
  forallb (fun g => negb (Nat.eqb (List.length (t_g1 t g)) 0)) [GX; GY; GZ; GH; GK; GS; GT]
  && forallb (fun g => forallb (fun p => match t_g2 t g p with
                                         | Some b => block_reads b RA && block_reads b RB | None => true end)
                               [EC; CE; CC]) [Cnot; Cphase; Mov].

Lemma role_eqb_eq : forall a b, role_eqb a b = true -> a = b.
Proof. destruct a, b; simpl; intro H; try reflexivity; discriminate. Qed.

Lemma run_faulted_steps : forall env p fuel pc s pcf sf,
  run env p fuel pc s = (Faulted, pcf, sf) ->
  exists n ins, n < fuel /\ steps env p n pc s = Some (pcf, sf) /\ nth_error p pcf = Some ins /\
                step env ins pcf sf = Fault.
Proof.
  induction fuel as [|f IH]; intros pc s pcf sf H; simpl in H.
  - destruct (nth_error p pc); discriminate.
  - destruct (nth_error p pc) as [i|] eqn:E; [|discriminate].
    destruct (step env i pc s) as [pc1 s1|] eqn:Es.
    + destruct (IH _ _ _ _ H) as [n [ins [Hn [Hs [Hi Hf]]]]].
      exists (Datatypes.S n), ins. split; [lia|]. split; [simpl; rewrite E, Es; exact Hs|]. split; assumption.
    + inversion H; subst. exists 0, i. split; [lia|]. split; [reflexivity|]. split; assumption.
Qed.

Lemma steps_items_fault : forall env P sc r0 r1 items pc s,
  (forall k, k < List.length items ->
     nth_error P (pc + k) = nth_error (map (inst_item sc r0 r1) items) k) ->
  Forall (fun it => keep_item false it = true) items ->
  (exists it r, In it items /\ In r (item_roles it) /\ regs s (role_reg sc r0 r1 r) = None) ->
  exists k s2 i', steps env P k pc s = Some (pc + k, s2) /\
    regs s2 = regs s /\ arrs s2 = arrs s /\ script s2 = script s /\
    (exists extra, trace s2 = trace s ++ extra) /\
    nth_error P (pc + k) = Some i' /\ step env i' (pc + k) s2 = Fault.
Proof.
  induction items as [|it items IH]; intros pc s HP Hk [w [r [Hin [Hr Hnone]]]]; [contradiction|].
  inversion Hk as [|? ? Hit Hk']; subst.
  assert (H0' := HP 0 ltac:(simpl; lia)). rewrite Nat.add_0_r in H0'. simpl in H0'.
  assert (HP' : forall k, k < List.length items ->
            nth_error P (Datatypes.S pc + k) = nth_error (map (inst_item sc r0 r1) items) k).
  { intros k Hlt. specialize (HP (Datatypes.S k) ltac:(simpl; lia)). simpl in HP. rewrite <- HP. f_equal. lia. }
  (* does this item fault? *)
  assert (Hnow : step env (inst_item sc r0 r1 it) pc s = Fault \/
                 exists e, step env (inst_item sc r0 r1 it) pc s = Next (Datatypes.S pc) (emit s e) /\
                           forall r', In r' (item_roles it) -> regs s (role_reg sc r0 r1 r') <> None).
  { destruct it as [ax ro n d|ax a b n d|t]; [| |simpl in Hit; discriminate]; simpl.
    - destruct (regs s (role_reg sc r0 r1 ro)) eqn:E; [right|left; reflexivity].
      eexists. split; [reflexivity|]. intros r' [<-|[]]. congruence.
    - destruct (regs s (role_reg sc r0 r1 a)) eqn:Ea; [|left; reflexivity].
      destruct (regs s (role_reg sc r0 r1 b)) eqn:Eb; [right|left; reflexivity].
      eexists. split; [reflexivity|]. intros r' [<-|[<-|[]]]; congruence. }
  destruct Hnow as [Hf|[e [Hn Hall]]].
  - exists 0, s, (inst_item sc r0 r1 it). rewrite Nat.add_0_r. simpl.
    repeat split; try reflexivity; try assumption. exists []. rewrite app_nil_r. reflexivity.
  - assert (Hw : exists it' r', In it' items /\ In r' (item_roles it') /\ regs (emit s e) (role_reg sc r0 r1 r') = None).
    { destruct Hin as [<-|Hin]; [exfalso; exact (Hall r Hr Hnone)|]. exists w, r. auto. }
    destruct (IH (Datatypes.S pc) (emit s e) HP' Hk' Hw) as [k [s2 [i' [Hs [H1 [H2 [H3 [[extra H4] [H5 H6]]]]]]]]].
    exists (Datatypes.S k), s2, i'. replace (pc + Datatypes.S k) with (Datatypes.S pc + k) by lia.
    split; [simpl; rewrite H0', Hn; exact Hs|].
    repeat split; try assumption. exists (e :: extra). rewrite H4. simpl. rewrite <- app_assoc. reflexivity.
Qed.

Section SimFault.
  Variable env : env_t.
  Variable c : config.
  Variables p p' : prog.
  Variable bs : list prog.
  Hypothesis Hlay : layout c p p' bs.
  Hypothesis Hfresh : scratch_fresh c p.
  Hypothesis Hreal : forall i, In i p -> real i = true.          (* no debug pseudo-instructions in the source *)
  Hypothesis Htab : table_reads_operands (c_tab c) = true.

  Let P2 := erase p'.
  Let S := scratch_regs c p.

  Lemma block_reads_witness : forall b r, block_reads b r = true ->
    exists it, In it (filter (keep_item false) (b_items b)) /\ In r (item_roles it).
  Proof.
    intros b r H. unfold block_reads in H. apply existsb_exists in H. destruct H as [it [Hin H]].
    apply andb_true_iff in H. destruct H as [Hk Hr]. apply existsb_exists in Hr. destruct Hr as [r' [Hr' He]].
    apply role_eqb_eq in He. subst r'. exists it. split; [apply filter_In; split; assumption | exact Hr'].
  Qed.

  (* the vanilla instruction at pc faults: so does its expansion, before the block ends *)
  Lemma fault_sim : forall pc ins s s',
    nth_error p pc = Some ins -> step env ins pc s = Fault -> rel c S s s' ->
    exists k pc2 s2 i', steps env P2 k (off bs pc) s' = Some (pc2, s2) /\
      nth_error P2 pc2 = Some i' /\ step env i' pc2 s2 = Fault /\
      agree S (regs s) (regs s2) /\ arrs s = arrs s2 /\ script s = script s2 /\
      exists t extra, expand_trace c (trace s) = Some t /\ trace s2 = t ++ extra.
  Proof.
    intros pc ins s s' Hn Hs Hrel.
    assert (Hin : In ins p) by (eapply nth_error_In; exact Hn).
    assert (Hm : forall r, In r (mentions ins) -> ~ In r S).
    { intros r Hr HS. exact (Hfresh r ins HS Hin Hr). }
    pose proof (Hreal ins Hin) as Hre.
    pose proof Hrel as [Hr Ha Hsc Htr].
    assert (Hdone : forall i', nth_error P2 (off bs pc) = Some i' -> step env i' (off bs pc) s' = Fault ->
              exists k pc2 s2 i'', steps env P2 k (off bs pc) s' = Some (pc2, s2) /\
                nth_error P2 pc2 = Some i'' /\ step env i'' pc2 s2 = Fault /\
                agree S (regs s) (regs s2) /\ arrs s = arrs s2 /\ script s = script s2 /\
                exists t extra, expand_trace c (trace s) = Some t /\ trace s2 = t ++ extra).
    { intros i' Hat Hf. exists 0, (off bs pc), s', i'. simpl. repeat split; try assumption.
      exists (trace s'), []. rewrite app_nil_r. split; [exact Htr | reflexivity]. }
    destruct (is_gate ins) eqn:Hg.
    - destruct ins; simpl in Hg; try discriminate.
      + (* IGate1 *)
        simpl in Hs. destruct (regs s r) eqn:Eq; [discriminate|].
        set (l := t_g1 (c_tab c) g).
        assert (He : expand c (tst_at p pc) (IGate1 g r) = Ok (map (fun '(ax, n, d) => IRot ax r n d) l)) by reflexivity.
        assert (Her : erase (map (fun '(ax, n, d) => IRot ax r n d) l) = map (fun '(ax, n, d) => IRot ax r n d) l).
        { unfold erase. clear. induction l as [|[[ax n] d] l IH]; simpl; [reflexivity|]. rewrite IH. reflexivity. }
        destruct (gate_block c p p' bs Hlay pc _ _ Hn He) as [Hk _].
        { rewrite Her. apply Forall_forall. intros x Hx. apply in_map_iff in Hx.
          destruct Hx as [[[ax n] d] [Hx _]]. subst. reflexivity. }
        rewrite Her in Hk. rewrite map_length in Hk.
        assert (Hne : l <> []).
        { unfold table_reads_operands in Htab. apply andb_true_iff in Htab. destruct Htab as [H1 _].
          rewrite forallb_forall in H1. specialize (H1 g ltac:(destruct g; simpl; tauto)).
          fold l in H1. destruct l; [discriminate | discriminate]. }
        destruct l as [|[[ax n] d] l'] eqn:El; [contradiction|].
        specialize (Hk 0 ltac:(simpl; lia)). rewrite Nat.add_0_r in Hk. simpl in Hk.
        apply (Hdone _ Hk). simpl.
        assert (Hq : regs s' r = None) by (rewrite <- Eq; symmetry; apply Hr; apply Hm; simpl; auto).
        rewrite Hq. reflexivity.
      + (* IRot *)
        simpl in Hs. destruct (regs s r) eqn:Eq; [discriminate|].
        destruct (lay_exp _ _ _ _ Hlay pc _ Hn) as [b0 [Hb0 He0]].
        simpl in He0. destruct (rot_angle (c_hw c) n d) as [[n' d']|] eqn:Era; [|discriminate].
        destruct (gate_block c p p' bs Hlay pc _ [IRot ax r n' d'] Hn) as [Hk _].
        { simpl. rewrite Era. reflexivity. }
        { repeat constructor. }
        specialize (Hk 0 ltac:(simpl; lia)). rewrite Nat.add_0_r in Hk. simpl in Hk.
        apply (Hdone _ Hk). simpl.
        assert (Hq : regs s' r = None) by (rewrite <- Eq; symmetry; apply Hr; apply Hm; simpl; auto).
        rewrite Hq. reflexivity.
      + (* IGate2 *)
        assert (Hq0 : regs s' r0 = regs s r0) by (symmetry; apply Hr; apply Hm; simpl; auto).
        assert (Hq1 : regs s' r1 = regs s r1) by (symmetry; apply Hr; apply Hm; simpl; auto).
        destruct (lay_exp _ _ _ _ Hlay pc _ Hn) as [b0 [Hb0 He0]].
        assert (He0' := He0). simpl in He0.
        destruct (choose_placement g (tst_at p pc) r0 r1) as [pl|] eqn:Ecp; [|discriminate].
        destruct (t_g2 (c_tab c) g pl) as [b|] eqn:Etab; [|discriminate].
        assert (Hrd : block_reads b RA = true /\ block_reads b RB = true).
        { unfold table_reads_operands in Htab. apply andb_true_iff in Htab. destruct Htab as [_ H2].
          rewrite forallb_forall in H2. specialize (H2 g ltac:(destruct g; simpl; tauto)).
          rewrite forallb_forall in H2. specialize (H2 pl ltac:(destruct pl; simpl; tauto)).
          rewrite Etab in H2. apply andb_true_iff in H2. exact H2. }
        set (items := filter (keep_item false) (b_items b)).
        (* which operand is undefined *)
        assert (Hund : regs s r0 = None \/ regs s r1 = None).
        { simpl in Hs. destruct (regs s r0); [|left; reflexivity]. destruct (regs s r1); [discriminate | right; reflexivity]. }
        destruct (uses_scratch b) eqn:Eus.
        * destruct (unused_register (tst_at p pc)) as [sc|] eqn:Eun; [|discriminate].
          inversion He0; subst b0.
          unfold uses_scratch in Eus. destruct (b_scratch b) as [v|] eqn:Ebs; [|discriminate].
          destruct (gate_block c p p' bs Hlay pc _ _ Hn He0') as [Hk Ho].
          { rewrite erase_inst_block. apply inst_block_notarget. }
          rewrite erase_inst_block in Hk. unfold inst_block in Hk. rewrite Ebs in Hk.
          fold items in Hk. simpl in Hk. rewrite map_length in Hk.
          assert (HscS : In sc S).
          { apply scratch_at_in with pc. unfold scratch_at. rewrite Hn, Ecp, Etab.
            unfold uses_scratch. rewrite Ebs. exact Eun. }
          assert (Hne0 : sc <> r0) by (eapply unused_register_fresh; [exact Eun | apply le_n | exact Hn | simpl; auto]).
          assert (Hne1 : sc <> r1) by (eapply unused_register_fresh; [exact Eun | apply le_n | exact Hn | simpl; auto]).
          set (s1 := setreg s' sc v).
          assert (Hs10 : regs s1 r0 = regs s r0).
          { simpl. unfold upd. rewrite reg_eqb_neq by congruence. exact Hq0. }
          assert (Hs11 : regs s1 r1 = regs s r1).
          { simpl. unfold upd. rewrite reg_eqb_neq by congruence. exact Hq1. }
          assert (Hk' : forall k, k < List.length items ->
                    nth_error P2 (Datatypes.S (off bs pc) + k) = nth_error (map (inst_item sc r0 r1) items) k).
          { intros k Hlt. specialize (Hk (Datatypes.S k) ltac:(lia)). simpl in Hk. rewrite <- Hk. f_equal. lia. }
          assert (Hw : exists it r, In it items /\ In r (item_roles it) /\ regs s1 (role_reg sc r0 r1 r) = None).
          { destruct Hund as [H0|H1].
            - destruct (block_reads_witness b RA (proj1 Hrd)) as [it [Hi Hro]]. exists it, RA. cbn [role_reg]. rewrite Hs10. auto.
            - destruct (block_reads_witness b RB (proj2 Hrd)) as [it [Hi Hro]]. exists it, RB. cbn [role_reg]. rewrite Hs11. auto. }
          destruct (steps_items_fault env P2 sc r0 r1 items _ s1 Hk' (filter_keep_false_Forall _) Hw)
            as [k [s2 [i' [Hst [H1 [H2 [H3 [[extra H4] [H5 H6]]]]]]]]].
          exists (1 + k), (Datatypes.S (off bs pc) + k), s2, i'. split.
          { rewrite steps_app. specialize (Hk 0 ltac:(lia)). rewrite Nat.add_0_r in Hk. cbn [nth_error] in Hk.
            cbn [steps]. unfold P2 at 1. rewrite Hk. cbn [step]. fold s1. exact Hst. }
          split; [exact H5|]. split; [exact H6|]. split.
          { rewrite H1. simpl. apply agree_upd_in; [exact HscS | exact Hr]. }
          split; [rewrite H2; exact Ha|]. split; [rewrite H3; exact Hsc|].
          exists (trace s'), extra. split; [exact Htr | rewrite H4; reflexivity].
        * inversion He0; subst b0.
          unfold uses_scratch in Eus. destruct (b_scratch b) as [v|] eqn:Ebs; [discriminate|].
          destruct (gate_block c p p' bs Hlay pc _ _ Hn He0') as [Hk Ho].
          { rewrite erase_inst_block. apply inst_block_notarget. }
          rewrite erase_inst_block in Hk. unfold inst_block in Hk. rewrite Ebs in Hk.
          fold items in Hk. simpl in Hk. rewrite map_length in Hk.
          assert (Hw : exists it r, In it items /\ In r (item_roles it) /\ regs s' (role_reg r0 r0 r1 r) = None).
          { destruct Hund as [H0|H1].
            - destruct (block_reads_witness b RA (proj1 Hrd)) as [it [Hi Hro]]. exists it, RA. cbn [role_reg]. rewrite Hq0. auto.
            - destruct (block_reads_witness b RB (proj2 Hrd)) as [it [Hi Hro]]. exists it, RB. cbn [role_reg]. rewrite Hq1. auto. }
          destruct (steps_items_fault env P2 r0 r0 r1 items _ s' Hk (filter_keep_false_Forall _) Hw)
            as [k [s2 [i' [Hst [H1 [H2 [H3 [[extra H4] [H5 H6]]]]]]]]].
          exists k, (off bs pc + k), s2, i'. split; [exact Hst|].
          split; [exact H5|]. split; [exact H6|]. split; [rewrite H1; exact Hr|].
          split; [rewrite H2; exact Ha|]. split; [rewrite H3; exact Hsc|].
          exists (trace s'), extra. split; [exact Htr | rewrite H4; reflexivity].
    - (* one retargeted instruction *)
      destruct (single_block c p p' bs Hlay pc ins Hn Hg Hre) as [ins' [Hrt [Hat _]]].
      apply (Hdone _ Hat).
      destruct (target ins) as [t|] eqn:Et.
      + destruct ins; simpl in Et; try discriminate; simpl in Hs; try discriminate Hs.
        (* only IBr2 can fault *)
        simpl in Hrt. destruct (nth_error (starts 0 bs) t0); [|discriminate]. inversion Hrt; subst ins'. simpl.
        assert (Hqa : regs s' a = regs s a) by (symmetry; apply Hr; apply Hm; simpl; auto).
        assert (Hqb : regs s' b = regs s b) by (symmetry; apply Hr; apply Hm; simpl; auto).
        rewrite Hqa, Hqb. destruct (br2_taken c0 (regs s a) (regs s b)) as [[|]|]; try discriminate Hs. reflexivity.
      + rewrite retarget_id in Hrt by exact Et. inversion Hrt; subst ins'.
        exact (step_frame_fault env c S ins pc (off bs pc) s s' Et Hg Hm Hrel Hs).
  Qed.
End SimFault.

(* a vanilla run that FAULTS: the NV program faults too — inside the expansion of the
   faulting instruction — with the same arrays and script, the same registers except
   the scratch registers, and a trace that is the expansion of the vanilla trace
   followed by the events of the part of the block executed before the fault *)
Theorem transpile_simulates_fault : forall env c p p' s0 s0' fuel pcf sf,
  transpile c p = Ok p' -> scratch_fresh c p ->
  (forall i, In i p -> real i = true) -> table_reads_operands (c_tab c) = true ->
  rel c (scratch_regs c p) s0 s0' ->
  tracked_run env c p fuel 0 s0 = true ->
  run env p fuel 0 s0 = (Faulted, pcf, sf) ->
  exists fuel' pcf' sf',
    run env (erase p') fuel' 0 s0' = (Faulted, pcf', sf') /\
    agree (scratch_regs c p) (regs sf) (regs sf') /\ arrs sf = arrs sf' /\ script sf = script sf' /\
    exists t extra, expand_trace c (trace sf) = Some t /\ trace sf' = t ++ extra.
Proof.
  intros env c p p' s0 s0' fuel pcf sf Ht Hfr Hreal Htab Hrel Htr Hrun.
  destruct (transpile_layout _ _ _ Ht) as [bs Hlay].
  destruct (run_faulted_steps _ _ _ _ _ _ _ Hrun) as [n [ins [Hn [Hst [Hi Hf]]]]].
  destruct (sim_steps env c p p' bs Hlay Hfr n fuel 0 s0 pcf sf s0' ltac:(lia) Htr Hst Hrel ltac:(lia))
    as [m [s1 [Hm [Hrel1 _]]]].
  rewrite off_0 in Hm.
  destruct (fault_sim env c p p' bs Hlay Hfr Hreal Htab pcf ins sf s1 Hi Hf Hrel1)
    as [k [pc2 [s2 [i' [Hk [Hat [Hfl [Hag [Ha [Hsc Htrc]]]]]]]]]].
  exists (m + (k + 1)), pc2, s2. split.
  - rewrite (run_steps _ _ _ _ _ _ _ _ Hm). rewrite (run_steps _ _ _ _ _ _ _ _ Hk).
    simpl. rewrite Hat, Hfl. reflexivity.
  - repeat split; assumption.
Qed.
