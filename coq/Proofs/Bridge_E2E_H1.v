(* Bridge_E2E_H1.v — the hypothesis H1 of the end-to-end chain (`compiled`: each
   flushed block translates, passes code_ok, is accepted by the assembler and its
   output is in the fragment of the bridge) derived from the owners' lemmas
     C05: SdkCodeOk.lower_prog_code_ok      (code_ok of every lowered block)
     C03: AsmQMachine.assemble_total_machine_form (the assembler accepts and
          produces machine form)
   plus, proved here for the translated flat code: it exists (no IOpaque), uses
   modelled mnemonics and the four banks, its labels are distinct (C05:
   flatten_labels_unique) and every referenced label is defined (induction over
   the structured IR).  What remains is ONE decidable condition: enough scratch
   registers per command (blocks_scratch_ok). *)
From Coq Require Import ZArith List Bool Arith Lia String.
From NQ Require Import Sdk.SdkAst Sdk.Target Sdk.Eval Sdk.MemMgr Sdk.Lower Sdk.Flatten Sdk.Wf.
From NQ Require Import Proofs.SdkFlattenProofs Proofs.SdkTopProofs Proofs.SdkCodeOk.
From NQ Require Lang.Asm Lang.AsmSem Lang.AsmSemQ Proofs.AsmProofs Proofs.AsmQProofs Proofs.AsmQMachine.
From NQ Require Exec.State Exec.SemQ.
From NQ Require Proofs.Bridge_Asm Proofs.Bridge_AsmQ Proofs.Bridge_SdkAsm Proofs.Bridge_E2E.
Import ListNotations.

Module BA := NQ.Proofs.Bridge_AsmQ.
Module BS := NQ.Proofs.Bridge_SdkAsm.
Module E2E := NQ.Proofs.Bridge_E2E.
Module MF := NQ.Proofs.AsmQMachine.

(* ------------------------------------------------------------------ referenced labels of flat code are defined *)
Fixpoint refs (c : list fcmd) : list nat :=
  match c with
  | [] => []
  | FBr _ _ _ l :: r => l :: refs r
  | FJmp l :: r => l :: refs r
  | _ :: r => refs r
  end.

Lemma refs_app : forall a b, refs (a ++ b) = refs a ++ refs b.
Proof. induction a as [|x a IH]; intro b; simpl; [reflexivity|]. destruct x; simpl; rewrite IH; reflexivity. Qed.
Lemma refs_map_FI : forall l, refs (map FI l) = [].
Proof. induction l; simpl; auto. Qed.

Definition closed (c : list fcmd) : Prop := forall l, In l (refs c) -> In l (labs c).

Definition cl_ok1 (s : sir) : Prop := forall b c b', flat1 b s = (c, b') -> closed c.
Definition cl_okl (l : list sir) : Prop := forall b c b', flat b l = (c, b') -> closed c.

Ltac inapp := repeat (rewrite ?in_app_iff in *; cbn [In labs refs app] in * ).

Lemma closed_all : (forall s, cl_ok1 s) /\ (forall l, cl_okl l).
Proof.
  assert (HI : forall i, cl_ok1 (XI i)).
  { intros i b c b' H. rewrite flat1_XI in H. inversion H; subst. intros l []. }
  assert (HIf : forall pre c x y body, cl_okl body -> cl_ok1 (XIf pre c x y body)).
  { intros pre c x y body IH b code b' H. rewrite flat1_XIf in H.
    destruct (flat b body) as [cb b1] eqn:E. inversion H; subst. specialize (IH _ _ _ E).
    intros l Hl. unfold if_code in *. rewrite !refs_app, refs_map_FI in Hl. rewrite !labs_app, labs_map_FI.
    inapp. pose proof (IH l) as IHl. intuition (subst; auto). }
  assert (HLoop : forall r a e st body, cl_okl body -> cl_ok1 (XLoop r a e st body)).
  { intros r a e st body IH b code b' H. rewrite flat1_XLoop in H.
    destruct (flat (S b) body) as [cb b1] eqn:E. inversion H; subst. specialize (IH _ _ _ E).
    intros l Hl. unfold loop_code in *. rewrite !refs_app in Hl. rewrite !labs_app.
    inapp. pose proof (IH l) as IHl. intuition (subst; auto). }
  assert (HUntil : forall r mx body pre x lim cl, cl_okl body -> cl_okl cl -> cl_ok1 (XUntil r mx body pre x lim cl)).
  { intros r mx body pre x lim cl IHb IHc b code b' H. rewrite flat1_XUntil in H.
    destruct (flat (S b) body) as [cb b1] eqn:E1. destruct (flat b1 cl) as [cc b2] eqn:E2.
    inversion H; subst. specialize (IHb _ _ _ E1). specialize (IHc _ _ _ E2).
    intros l Hl. unfold until_code in *. rewrite !refs_app, refs_map_FI in Hl. rewrite !labs_app, labs_map_FI.
    inapp. pose proof (IHb l) as IHbl. pose proof (IHc l) as IHcl. intuition (subst; auto). }
  assert (HNil : cl_okl []).
  { intros b c b' H. simpl in H. inversion H; subst. intros l []. }
  assert (HCons : forall x r, cl_ok1 x -> cl_okl r -> cl_okl (x :: r)).
  { intros x r IHx IHr b c b' H. rewrite flat_cons in H.
    destruct (flat1 b x) as [c1 b1] eqn:E1. destruct (flat b1 r) as [c2 b2] eqn:E2.
    inversion H; subst. specialize (IHx _ _ _ E1). specialize (IHr _ _ _ E2).
    intros l Hl. rewrite refs_app in Hl. rewrite labs_app. inapp. pose proof (IHx l). pose proof (IHr l). intuition auto. }
  split.
  - apply sir_ind2 with (Q := cl_okl); auto.
  - apply sirs_ind2 with (P := cl_ok1); auto.
Qed.

Lemma flatten_closed : forall l, closed (flatten l).
Proof.
  intro l. unfold flatten. destruct (flat 0 l) as [c b'] eqn:E. cbn [fst]. exact (proj2 closed_all l _ _ _ E).
Qed.

(* ------------------------------------------------------------------ properties of the translated proto-program *)
Lemma t_fcmd_some : forall x, BS.fcmd_ok x = true -> exists a, BS.t_fcmd x = Some a.
Proof.
  intros [i|cnd x y l|l|l] H; cbn [BS.t_fcmd]; try (eexists; reflexivity).
  - destruct i; cbn [BS.t_instr]; try (eexists; reflexivity); try discriminate.
    destruct o; eexists; reflexivity.
  - destruct cnd; eexists; reflexivity.
Qed.

Lemma t_prog_exists_of : forall c, (forall x, In x c -> BS.fcmd_ok x = true) -> exists P, BS.t_prog c = Some P.
Proof.
  induction c as [|x c IH]; intro H; [exists []; reflexivity|].
  destruct (t_fcmd_some x (H x (or_introl eq_refl))) as [a Ha].
  destruct (IH (fun y Hy => H y (or_intror Hy))) as [P HP].
  exists (a :: P). cbn [BS.t_prog]. rewrite Ha, HP. reflexivity.
Qed.

Lemma t_prog_exists : forall cap c, BS.code_ok cap c = true -> exists P, BS.t_prog c = Some P.
Proof.
  intros cap c H. apply t_prog_exists_of. intros x Hx. apply In_nth_error in Hx. destruct Hx as [k Hk].
  exact (proj1 (BS.code_ok_from_nth _ _ _ H) _ _ Hk).
Qed.

Lemma t_fcmd_modelled : forall x a, BS.t_fcmd x = Some a -> MF.cmd_modelled a = true.
Proof.
  intros x a H. destruct x as [i|cnd x y l|l|l].
  - destruct i as [r z|o r|ax r n d|t r1 r2|q m|v a0 ix|r a0 ix|d x y|d x y m|n a0|a0|r|k];
      cbn [BS.t_fcmd BS.t_instr] in H; try discriminate; try (inversion H; reflexivity).
    + destruct o as [| | |g]; inversion H; try reflexivity. destruct g; reflexivity.
    + inversion H. destruct ax; reflexivity.
    + inversion H. destruct t; reflexivity.
  - destruct cnd; cbn [BS.t_fcmd] in H; inversion H; reflexivity.
  - cbn in H. inversion H. reflexivity.
  - cbn in H. inversion H. reflexivity.
Qed.

Lemma t_prog_modelled : forall c P, BS.t_prog c = Some P -> MF.modelled P = true.
Proof.
  induction c as [|x c IH]; intros P H; cbn in H.
  - inversion H. reflexivity.
  - destruct (BS.t_fcmd x) as [a|] eqn:Ea; [|discriminate]. destruct (BS.t_prog c) as [P'|] eqn:Ep; [|discriminate].
    inversion H; subst P. unfold MF.modelled. cbn [forallb]. rewrite (t_fcmd_modelled _ _ Ea). apply (IH _ eq_refl).
Qed.

Lemma t_bank_valid : forall b, MF.bank_valid (BS.t_bank b) = true.
Proof. intros []; reflexivity. Qed.

Lemma t_val_banks : forall o r, In r (Asm.regs_of_val (BS.t_rop o)) -> MF.bank_valid (fst r) = true.
Proof.
  intros [z|[b i]] r H.
  - simpl in H. contradiction.
  - simpl in H. destruct H as [H|H]; [subst r; apply t_bank_valid|contradiction].
Qed.
Lemma t_reg_banks : forall g r, In r (Asm.regs_of_val (BS.t_reg g)) -> MF.bank_valid (fst r) = true.
Proof. intros [b i] r H. simpl in H. destruct H as [H|H]; [subst r; apply t_bank_valid|contradiction]. Qed.

Lemma t_fcmd_banks : forall x a, BS.t_fcmd x = Some a ->
  forall r, In r (Asm.regs_of_cmd a) -> MF.bank_valid (fst r) = true.
Proof.
  intros x a H r Hr. destruct x as [i|cnd x y l|l|l].
  - destruct i as [r0 z|o r0|ax r0 n d|t r1 r2|q m|v a0 ix|r0 a0 ix|d x y|d x y m|n a0|a0|r0|k];
      cbn [BS.t_fcmd BS.t_instr] in H; try discriminate; try (destruct o); inversion H; subst a; clear H;
      cbn [Asm.regs_of_cmd flat_map Asm.regs_of_opnd app] in Hr; rewrite ?in_app_iff in Hr;
      repeat (destruct Hr as [Hr|Hr]); try (destruct Hr; fail);
      first [eapply t_reg_banks; exact Hr | eapply t_val_banks; exact Hr].
  - destruct cnd; cbn [BS.t_fcmd] in H; inversion H; subst a; clear H;
      cbn [Asm.regs_of_cmd flat_map Asm.regs_of_opnd app] in Hr; rewrite ?in_app_iff in Hr;
      repeat (destruct Hr as [Hr|Hr]); try (destruct Hr; fail); eapply t_val_banks; exact Hr.
  - cbn in H. inversion H; subst a. cbn in Hr. contradiction.
  - cbn in H. inversion H; subst a. cbn in Hr. contradiction.
Qed.

Lemma t_prog_named : forall c P, BS.t_prog c = Some P ->
  forall r, In r (Asm.named P) -> MF.bank_valid (fst r) = true.
Proof.
  induction c as [|x c IH]; intros P H r Hr; cbn in H.
  - inversion H; subst. destruct Hr.
  - destruct (BS.t_fcmd x) as [a|] eqn:Ea; [|discriminate]. destruct (BS.t_prog c) as [P'|] eqn:Ep; [|discriminate].
    inversion H; subst P. unfold Asm.named in Hr. cbn [flat_map] in Hr. apply in_app_iff in Hr.
    destruct Hr as [Hr|Hr]; [eapply t_fcmd_banks; eauto|eapply IH; eauto].
Qed.

Lemma t_prog_banks : forall c P, BS.t_prog c = Some P -> MF.banks_valid P = true.
Proof. intros c P H. unfold MF.banks_valid. apply forallb_forall. intros r Hr. eapply t_prog_named; eauto. Qed.

(* labels *)
Lemma t_instr_nolab : forall i a, BS.t_instr i = Some a -> exists mn ops, a = Asm.AIns mn [] ops /\
  forall l, ~ In (Asm.ALabel l) ops.
Proof.
  intros i a H.
  destruct i as [r z|o r|ax r n d|t r1 r2|q m|v a0 ix|r a0 ix|d x y|d x y m|n a0|a0|r|k];
    cbn [BS.t_instr] in H; try discriminate; try (destruct o); inversion H; subst a;
    eexists; eexists; (split; [reflexivity|]); intros l Hl; cbn in Hl;
    repeat (destruct Hl as [Hl|Hl]; try discriminate Hl); try contradiction.
Qed.

Lemma labels_of_t_prog : forall c P, BS.t_prog c = Some P -> Asm.labels_of P = map BS.lab_name (labs c).
Proof.
  induction c as [|x c IH]; intros P H; cbn in H.
  - inversion H. reflexivity.
  - destruct (BS.t_fcmd x) as [a|] eqn:Ea; [|discriminate]. destruct (BS.t_prog c) as [P'|] eqn:Ep; [|discriminate].
    inversion H; subst P. unfold Asm.labels_of. cbn [flat_map]. fold (Asm.labels_of P'). rewrite (IH _ eq_refl).
    destruct x as [i|cnd x y l|l|l].
    + cbn [BS.t_fcmd] in Ea. destruct (t_instr_nolab _ _ Ea) as (mn & ops & -> & _). reflexivity.
    + destruct cnd; cbn in Ea; inversion Ea; reflexivity.
    + cbn in Ea. inversion Ea. reflexivity.
    + cbn in Ea. inversion Ea. reflexivity.
Qed.

Lemma lab_name_inj : forall a b, BS.lab_name a = BS.lab_name b -> a = b.
Proof.
  intros a b H. apply Nat.eqb_eq. rewrite <- BS.lab_name_eqb. rewrite H. apply String.eqb_refl.
Qed.

Lemma t_prog_labels_nodup : forall code P, BS.t_prog (flatten code) = Some P -> NoDup (Asm.labels_of P).
Proof.
  intros code P H. rewrite (labels_of_t_prog _ _ H).
  apply FinFun.Injective_map_NoDup; [intros a b; apply lab_name_inj|apply flatten_labels_unique].
Qed.

Lemma find_lab_in : forall c l pos, In l (labs c) -> exists p, find_lab l c pos = Some p.
Proof.
  induction c as [|x c IH]; intros l pos H; [destruct H|].
  destruct x as [i|cnd x y l'|l'|l']; cbn [labs find_lab] in *; try (apply IH; exact H).
  destruct (Nat.eqb l l') eqn:E; [eauto|]. apply IH. destruct H as [H|H]; [|exact H].
  subst l'. rewrite Nat.eqb_refl in E. discriminate.
Qed.

(* the label operands of a translated command are the names of its referenced labels *)
Lemma t_fcmd_refs : forall x mn args ops l', BS.t_fcmd x = Some (Asm.AIns mn args ops) ->
  In (Asm.ALabel l') ops -> exists l, l' = BS.lab_name l /\ In l (refs [x]).
Proof.
  intros x mn args ops l' H Hl. destruct x as [i|cnd x y l|l|l].
  - cbn [BS.t_fcmd] in H. destruct (t_instr_nolab _ _ H) as (mn' & ops' & E & Hn). inversion E; subst.
    exfalso. exact (Hn _ Hl).
  - destruct cnd; cbn [BS.t_fcmd] in H; inversion H; subst; cbn [In] in Hl;
      intuition (try discriminate);
      match goal with E : Asm.ALabel _ = Asm.ALabel _ |- _ => inversion E; subst end;
      exists l; (split; [reflexivity|left; reflexivity]).
  - cbn in H. inversion H; subst. cbn in Hl. destruct Hl as [Hl|[]]. inversion Hl; subst.
    exists l. split; [reflexivity|left; reflexivity].
  - cbn in H. discriminate.
Qed.

Lemma refs_in : forall c x, In x c -> forall l, In l (refs [x]) -> In l (refs c).
Proof.
  induction c as [|y c IH]; intros x Hx l Hl; [destruct Hx|].
  destruct Hx as [->|Hx].
  - destruct x; cbn in *; try contradiction; destruct Hl as [->|[]]; left; reflexivity.
  - specialize (IH x Hx l Hl). destruct y; cbn; auto.
Qed.

Lemma t_prog_in : forall c P a, BS.t_prog c = Some P -> In a P -> exists x, In x c /\ BS.t_fcmd x = Some a.
Proof.
  induction c as [|x c IH]; intros P a H Ha; cbn in H.
  - inversion H; subst. destruct Ha.
  - destruct (BS.t_fcmd x) as [a0|] eqn:Ea; [|discriminate]. destruct (BS.t_prog c) as [P'|] eqn:Ep; [|discriminate].
    inversion H; subst P. destruct Ha as [<-|Ha]; [exists x; split; [left; reflexivity|exact Ea]|].
    destruct (IH P' a eq_refl Ha) as (y & Hy & Hya). exists y. split; [right; exact Hy|exact Hya].
Qed.

Lemma t_prog_labels_defined : forall code P, BS.t_prog (flatten code) = Some P -> MF.labels_defined P = true.
Proof.
  intros code P H. unfold MF.labels_defined. apply forallb_forall. intros a Ha.
  destruct a as [l|mn args ops]; [reflexivity|]. apply forallb_forall. intros o Ho.
  destruct o as [v|l'| | |]; try reflexivity.
  destruct (t_prog_in _ _ _ H Ha) as (x & Hx & Hxa).
  destruct (t_fcmd_refs _ _ _ _ _ Hxa Ho) as (l & -> & Hl).
  pose proof (flatten_closed code l (refs_in _ _ Hx _ Hl)) as Hin.
  destruct (find_lab_in _ _ 0 Hin) as [p Hp].
  pose proof (BS.label_pos_find _ _ l 0 H) as E. rewrite Hp in E.
  destruct (Asm.label_pos P (BS.lab_name l)); [reflexivity|discriminate].
Qed.

(* ------------------------------------------------------------------ the residual condition and H1 *)
(* enough scratch registers: every command needs no more R registers for its literal
   operands than the block leaves unnamed (C03: assemble_ir_accepts; C14's territory) *)
Definition scratch_ok (pr : Asm.aparams) (P : list Asm.acmd) : bool :=
  forallb (fun c => Nat.leb (Asm.need_cmd (Asm.ap_exempt pr) c) (List.length (Asm.free_regs pr (Asm.named P)))) P.

Definition blocks_scratch_ok (pr : Asm.aparams) (bs : list (option (list sir))) : bool :=
  forallb (fun b => match b with
                    | None => true
                    | Some code => match BS.t_prog (flatten code) with
                                   | Some P => scratch_ok pr P
                                   | None => false
                                   end
                    end) bs.

Lemma qexempt_exact_ok : forall ex, MF.qexempt_exact ex = true -> AsmSemQ.qexempt_ok ex = true.
Proof.
  intros ex H. unfold MF.qexempt_exact in H. repeat (apply andb_prop in H; destruct H as [H ?]). assumption.
Qed.

Lemma block_compiles : forall pr cap code,
  MF.qexempt_exact (Asm.ap_exempt pr) = true -> MF.bank_valid (Asm.ap_bankR pr) = true ->
  BS.code_ok cap (flatten code) = true ->
  (match BS.t_prog (flatten code) with Some P => scratch_ok pr P | None => false end) = true ->
  exists P T qp, BS.t_prog (flatten code) = Some P /\ Asm.assemble_ir pr P = Asm.AOk T /\ BA.e_qprog T = Some qp.
Proof.
  intros pr cap code Hq Hb Hok Hs.
  destruct (BS.t_prog (flatten code)) as [P|] eqn:HP; [|discriminate].
  destruct (MF.assemble_total_machine_form pr P Hq Hb (BS.t_prog_wf _ _ HP) (t_prog_modelled _ _ HP)
              (t_prog_banks _ _ HP) (t_prog_labels_defined _ _ HP) (t_prog_labels_nodup _ _ HP)) as (T & qp & HT & Hqp).
  - intros c Hc. unfold scratch_ok in Hs. rewrite forallb_forall in Hs. apply Nat.leb_le. apply Hs. exact Hc.
  - exists P, T, qp. auto.
Qed.

Theorem compiled_exists : forall pr cap bs,
  MF.qexempt_exact (Asm.ap_exempt pr) = true -> MF.bank_valid (Asm.ap_bankR pr) = true ->
  (forall b, In (Some b) bs -> BS.code_ok cap (flatten b) = true) ->
  blocks_scratch_ok pr bs = true ->
  exists qps, E2E.compiled pr cap bs qps.
Proof.
  intros pr cap bs Hq Hb. induction bs as [|[code|] bs IH]; intros Hok Hs.
  - exists []. constructor.
  - cbn [blocks_scratch_ok forallb] in Hs. apply andb_prop in Hs. destruct Hs as [Hs1 Hs2].
    destruct (IH (fun b Hb' => Hok b (or_intror Hb')) Hs2) as [qps Hc].
    destruct (block_compiles pr cap code Hq Hb (Hok code (or_introl eq_refl)) Hs1) as (P & T & qp & HP & HT & Hqp).
    exists (qp :: qps). econstructor; eauto. apply Hok. left. reflexivity.
  - cbn [blocks_scratch_ok forallb] in Hs.
    destruct (IH (fun b Hb' => Hok b (or_intror Hb')) Hs) as [qps Hc].
    exists qps. constructor. exact Hc.
Qed.

Lemma compiled_compile_blocks : forall pr cap bs qps, E2E.compiled pr cap bs qps -> E2E.compile_blocks pr cap bs = Some qps.
Proof.
  intros pr cap bs qps H. induction H; cbn [E2E.compile_blocks]; [reflexivity|exact IHcompiled|].
  rewrite H, H0, H1, H2, IHcompiled. reflexivity.
Qed.

(* ------------------------------------------------------------------ END TO END, H1 and H2 discharged *)
Theorem sdk_end_to_end_full : forall pr cap segs script e bs stL,
  AsmProofs.params_ok pr = true -> MF.qexempt_exact (Asm.ap_exempt pr) = true ->
  MF.bank_valid (Asm.ap_bankR pr) = true ->
  Forall (fun seg => bwfs seg = true) segs ->
  eval_prog (prog_of segs) script = Some e ->
  lower_prog true (prog_of segs) = Ok (bs, stL) ->
  qpeak segs <= cap ->
  blocks_scratch_ok pr bs = true ->
  exists qps fuel s,
    E2E.compile_blocks pr cap bs = Some qps /\
    E2E.qrun_blocks fuel qps (SemQ.mkQ (State.init_state cap) script []) = (s, State.Halt) /\
    BS.inst_trace (SemQ.q_trace s) = e_trace e /\
    (forall a, State.find Z.eqb (Z.of_nat a) (State.arrs (SemQ.q_st s)) = alookup a (e_arr e)).
Proof.
  intros pr cap segs script e bs stL Hpar Hq Hb Hw Hev Hl Hcap Hs.
  destruct (compiled_exists pr cap bs Hq Hb (lower_prog_code_ok segs cap bs stL Hw Hcap Hl) Hs) as [qps Hc].
  destruct (E2E.sdk_end_to_end2 pr cap segs script e bs stL qps Hpar (qexempt_exact_ok _ Hq) Hw Hev Hl Hc)
    as (fuel & s & Hrun & Ht & Ha).
  exists qps, fuel, s. split; [apply compiled_compile_blocks; exact Hc|]. auto.
Qed.
