(* ToolboxProofs.v — soundness of the parity_meas row decider; the symbolic
   state-preparation identity over an arbitrary commutative ring. *)
From Coq Require Import ZArith List Bool Arith Lia Ring Ring_theory.
From NQ Require Import Base.Cyclo Base.QMat Toolbox.ToolboxSem Proofs.QMatProofs.
Import ListNotations.

Lemma pm_row_ok_sound : forall r, pm_row_ok r = true -> pm_row_spec r.
Proof.
  intros r H. unfold pm_row_ok in H. apply andb_true_iff in H. destruct H as [_ H].
  unfold pm_row_spec. destruct (pm_const r) as [c|].
  - apply andb_true_iff in H. destruct H as [H H4].
    apply andb_true_iff in H. destruct H as [H H3].
    apply andb_true_iff in H. destruct H as [H1 H2].
    destruct (pm_ops r) eqn:Eo; [|discriminate].
    apply negb_true_iff in H2. apply meqb_eq in H3. apply meqb_eq in H4.
    repeat split; auto.
  - destruct (pm_kraus r false) as [[D0 m0]|]; [|discriminate].
    destruct (pm_kraus r true) as [[D1 m1]|]; [|discriminate].
    apply andb_true_iff in H. destruct H as [H H3].
    apply andb_true_iff in H. destruct H as [H1 H2].
    apply meqb_eq in H1. apply meqb_eq in H2.
    exists D0, m0, D1, m1. repeat split; auto.
    intros E. subst m1. rewrite xorb_nilpotent in H3. discriminate.
Qed.

Lemma pm_rows_ok_sound : forall rows, forallb pm_row_ok rows = true ->
  forall r, In r rows -> pm_row_spec r.
Proof.
  intros rows H r Hin. apply pm_row_ok_sound. rewrite forallb_forall in H. exact (H r Hin).
Qed.

(* ---- set_qubit_state ---- *)
Section StatePrep.
  Variable R : Type.
  Variables (rO rI : R) (radd rmul rsub : R -> R -> R) (ropp : R -> R).
  Hypothesis Rth : ring_theory rO rI radd rmul rsub ropp (@eq R).
  Variables (chalf shalf ehalf einv : spangle -> R).
  Hypothesis unit_e : forall w, rmul (ehalf w) (einv w) = rI.
  Hypothesis pythagoras : forall w, radd (rmul (chalf w) (chalf w)) (rmul (shalf w) (shalf w)) = rI.

  Add Ring RringSP : Rth.

  (* Rz(phi) Ry(theta) |0> = e^{-i phi/2} (cos(theta/2) |0> + e^{i phi} sin(theta/2) |1>)
     with e^{i phi} = ehalf^2 *)
  Lemma state_prep_identity : forall l,
    l = [SpRot AY SpTheta; SpRot AZ SpPhi] ->
    sp_eval R radd rmul rsub chalf shalf ehalf einv l (rI, rO) =
      Some (rmul (einv SpPhi) (chalf SpTheta),
            rmul (einv SpPhi) (rmul (rmul (ehalf SpPhi) (ehalf SpPhi)) (shalf SpTheta))).
  Proof.
    intros l ->. cbn. f_equal. f_equal.
    - ring.
    - transitivity (rmul (rmul (ehalf SpPhi) (einv SpPhi)) (rmul (ehalf SpPhi) (shalf SpTheta))).
      + rewrite unit_e. ring.
      + ring.
  Qed.

  (* the prepared amplitudes are normalised: |a|^2 + |b|^2 with the conjugate of
     e^{i phi} being einv^2 *)
  Lemma state_prep_normalised :
    radd (rmul (chalf SpTheta) (chalf SpTheta))
         (rmul (rmul (rmul (ehalf SpPhi) (ehalf SpPhi)) (shalf SpTheta))
               (rmul (rmul (einv SpPhi) (einv SpPhi)) (shalf SpTheta))) = rI.
  Proof.
    transitivity (radd (rmul (chalf SpTheta) (chalf SpTheta))
                       (rmul (rmul (rmul (ehalf SpPhi) (einv SpPhi)) (rmul (ehalf SpPhi) (einv SpPhi)))
                             (rmul (shalf SpTheta) (shalf SpTheta)))).
    - ring.
    - rewrite unit_e.
      transitivity (radd (rmul (chalf SpTheta) (chalf SpTheta)) (rmul (shalf SpTheta) (shalf SpTheta))).
      + ring.
      + apply pythagoras.
  Qed.
End StatePrep.
