(* RefBytes.v — the layout-level reference encoder equals the literal per-byte
   reference (opcode, operand bytes in order, zero padding) for ALL in-range
   operand values. *)
From Coq Require Import ZArith List Bool Lia.
From NQ Require Import Base.Bits Proofs.BitsProofs Lang.Codec Proofs.CodecProofs Lang.RefSpec.
Import ListNotations.
Open Scope Z_scope.

Lemma land_255_small b : 0 <= b < 256 -> Z.land b 255 = b.
Proof. intros H. change 255 with (Z.ones 8). rewrite Z.land_ones by lia. apply Z.mod_small. cbn. lia. Qed.

Lemma of_bytes_nonneg bs : 0 <= of_bytes bs.
Proof.
  induction bs as [|b r IH]; cbn [of_bytes]; [lia|].
  apply Z.lor_nonneg. split.
  - change 255 with (Z.ones 8). rewrite Z.land_ones by lia. apply Z.mod_pos_bound. cbn. lia.
  - apply Z.shiftl_nonneg. exact IH.
Qed.

(* to_bytes inverts of_bytes on byte lists *)
Lemma to_of_bytes bs :
  Forall (fun b => 0 <= b < 256) bs -> to_bytes (List.length bs) (of_bytes bs) = bs.
Proof.
  induction bs as [|b r IH]; intros H; [reflexivity|].
  inversion H as [|? ? Hb Hr]; subst. cbv beta in Hb.
  cbn [List.length to_bytes of_bytes]. rewrite (land_255_small b) by assumption.
  f_equal.
  - apply Z.bits_inj'. intros i Hi.
    change 255 with (Z.ones 8).
    rewrite Z.land_spec, Z.lor_spec, Z.shiftl_spec, Z.testbit_ones_nonneg by lia.
    destruct (Z.ltb_spec i 8) as [Hlt|Hge].
    + rewrite (Z.testbit_neg_r _ (i - 8)) by lia. now rewrite orb_false_r, andb_true_r.
    + rewrite andb_false_r.
      assert (Hbi : Z.testbit b i = false).
      { destruct (Z.eq_dec b 0) as [->|Hnz]; [apply Z.bits_0|].
        apply Z.bits_above_log2; [lia|].
        apply Z.log2_lt_pow2; [lia|].
        apply Z.lt_le_trans with (2 ^ 8); [cbn; lia|].
        apply Z.pow_le_mono_r; lia. }
      rewrite Hbi. reflexivity.
  - assert (E : Z.shiftr (Z.lor b (Z.shiftl (of_bytes r) 8)) 8 = of_bytes r).
    { apply Z.bits_inj'. intros i Hi.
      rewrite Z.shiftr_spec, Z.lor_spec, Z.shiftl_spec by lia.
      replace (i + 8 - 8) with i by lia.
      assert (Hbi : Z.testbit b (i + 8) = false).
      { destruct (Z.eq_dec b 0) as [->|Hnz]; [apply Z.bits_0|].
        apply Z.bits_above_log2; [lia|].
        apply Z.log2_lt_pow2; [lia|].
        apply Z.lt_le_trans with (2 ^ 8); [cbn; lia|].
        apply Z.pow_le_mono_r; lia. }
      now rewrite Hbi. }
    rewrite E. exact (IH Hr).
Qed.

Lemma of_bytes_app a b :
  of_bytes (a ++ b) = Z.lor (of_bytes a) (Z.shiftl (of_bytes b) (8 * Z.of_nat (List.length a))).
Proof.
  induction a as [|x a IH]; cbn [app of_bytes List.length].
  - now rewrite Z.shiftl_0_r.
  - rewrite IH, Z.shiftl_lor, Z.shiftl_shiftl by lia.
    rewrite Z.lor_assoc. do 2 f_equal. lia.
Qed.

(* shifting a layout shifts the packed number *)
Definition shift_field (p : Z) (f : field) : field := mkF (f_pos f + p) (f_width f) (f_signed f).

Lemma put_shift p f v : 0 <= p -> 0 <= f_pos f -> put (shift_field p f) v = Z.shiftl (put f v) p.
Proof. intros Hp Hf. unfold put, shift_field; cbn [f_pos f_width]. now rewrite Z.shiftl_shiftl by lia. Qed.

Lemma pack_shift p l vs :
  0 <= p -> Forall (fun f => 0 <= f_pos f) l ->
  pack (map (shift_field p) l) vs = Z.shiftl (pack l vs) p.
Proof.
  intros Hp. revert vs. induction l as [|f l IH]; intros vs Hl.
  - destruct vs; cbn; now rewrite Z.shiftl_0_l.
  - inversion Hl; subst. destruct vs as [|v vs]; cbn [map pack]; [now rewrite Z.shiftl_0_l|].
    rewrite put_shift, IH, Z.shiftl_lor by assumption. reflexivity.
Qed.

Lemma pack_app l1 l2 v1 v2 :
  List.length l1 = List.length v1 ->
  pack (l1 ++ l2) (v1 ++ v2) = Z.lor (pack l1 v1) (pack l2 v2).
Proof.
  revert v1. induction l1 as [|f l1 IH]; intros [|v v1] H; try discriminate; cbn [app pack].
  - now rewrite Z.lor_0_l.
  - rewrite IH by (cbn in H; lia). now rewrite Z.lor_assoc.
Qed.

(* the reference layout from bit p is the layout from 0 shifted by p *)
Lemma reg_fields_shift p q : reg_fields (p + q) = map (shift_field q) (reg_fields p).
Proof.
  unfold reg_fields, shift_field; cbn [map f_pos f_width f_signed].
  replace (p + q + 2) with (p + 2 + q) by lia. reflexivity.
Qed.

Lemma rk_fields_shift p q k :
  fst (rk_fields (p + q) k) = map (shift_field q) (fst (rk_fields p k)) /\
  snd (rk_fields (p + q) k) = snd (rk_fields p k) + q.
Proof.
  destruct k; cbn [rk_fields fst snd map]; unfold shift_field at 1; cbn [f_pos f_width f_signed];
  rewrite ?map_app; split; try lia;
  repeat match goal with
  | |- context [reg_fields (p + q + ?c)] => replace (p + q + c) with ((p + c) + q) by lia
  end; rewrite ?reg_fields_shift; unfold shift_field; cbn [f_pos f_width f_signed]; try reflexivity.
  all: try (f_equal; f_equal; lia).
Qed.

Lemma ref_layout_from_shift ks : forall p q,
  ref_layout_from (p + q) ks = map (shift_field q) (ref_layout_from p ks).
Proof.
  induction ks as [|k ks IH]; intros p q; [reflexivity|].
  cbn [ref_layout_from]. destruct (rk_fields_shift p q k) as [E1 E2].
  rewrite E1, E2, IH, map_app. reflexivity.
Qed.

Definition kbytes (k : rkind) : Z :=
  match k with RReg | RImm8 => 1 | RInt32 | RAddr => 4 | REntry => 5 | RSlice => 6 end.

Lemma rk_next p k : snd (rk_fields p k) = p + 8 * kbytes k.
Proof. destruct k; cbn; lia. Qed.

Lemma rk_fields_pos p k : 0 <= p -> Forall (fun f => 0 <= f_pos f) (fst (rk_fields p k)).
Proof. intros Hp. destruct k; cbn; repeat constructor; cbn; lia. Qed.

Lemma ref_layout_from_pos ks : forall p, 0 <= p -> Forall (fun f => 0 <= f_pos f) (ref_layout_from p ks).
Proof.
  induction ks as [|k ks IH]; intros p Hp; [constructor|].
  cbn [ref_layout_from]. apply Forall_app. split; [now apply rk_fields_pos|].
  apply IH. rewrite rk_next. destruct k; cbn; lia.
Qed.

(* per-kind: bytes of one operand = the number packed by its fields at bit 0 *)
Definition reg_ok (b i : Z) : bool := (0 <=? b) && (b <? 4) && (0 <=? i) && (i <? 16).

Lemma reg_num b i : reg_ok b i = true -> pack (reg_fields 0) [b; i] = regb b i /\ 0 <= regb b i < 256.
Proof.
  unfold reg_ok. rewrite !andb_true_iff, !Z.leb_le, !Z.ltb_lt. intros [[[H1 H2] H3] H4].
  assert (Hb : In b [0; 1; 2; 3]) by (cbn [In]; lia).
  assert (Hi : In i [0; 1; 2; 3; 4; 5; 6; 7; 8; 9; 10; 11; 12; 13; 14; 15]) by (cbn [In]; lia).
  cbn [In] in Hb, Hi.
  repeat match goal with H : _ \/ _ |- _ => destruct H as [H|H] end;
  try contradiction; subst; vm_compute;
  (split; [reflexivity|split; [discriminate|reflexivity]]).
Qed.

Lemma byte_mod x : 0 <= x mod 256 < 256.
Proof. apply Z.mod_pos_bound. lia. Qed.

Lemma le4_range v : Forall (fun b => 0 <= b < 256) (le4 v).
Proof. unfold le4. repeat constructor; apply byte_mod. Qed.

Lemma le4_num v : of_bytes (le4 v) = Z.land v (Z.ones 32).
Proof.
  rewrite Z.land_ones by lia. set (u := v mod 2 ^ 32).
  assert (Hu : 0 <= u < 2 ^ 32) by (apply Z.mod_pos_bound; cbn; lia).
  assert (E : le4 v = to_bytes 4 u).
  { unfold le4. fold u. cbn [to_bytes]. change 255 with (Z.ones 8).
    rewrite !Z.land_ones by lia. rewrite !Z.shiftr_shiftr by lia.
    rewrite !Z.shiftr_div_pow2 by lia. reflexivity. }
  rewrite E, of_to_bytes, Z.land_ones by lia.
  apply Z.mod_small. cbn. cbn in Hu. lia.
Qed.

Lemma pack_int32 v : pack [mkF 0 32 true] [v] = Z.land v (Z.ones 32).
Proof. cbn [pack]. unfold put; cbn [f_pos f_width]. now rewrite Z.shiftl_0_r, Z.lor_0_r. Qed.

Lemma pack_imm8 v : 0 <= v < 256 -> pack [mkF 0 8 false] [v] = v.
Proof.
  intros H. cbn [pack]. unfold put; cbn [f_pos f_width].
  rewrite Z.shiftl_0_r, Z.lor_0_r. now apply land_255_small.
Qed.

Lemma length_le4 v : List.length (le4 v) = 4%nat.
Proof. reflexivity. Qed.

Local Opaque le4 regb.

(* operand well-typed for its reference kind and in range *)
Definition op_ok (k : rkind) (o : operand) : bool :=
  match k, o with
  | RReg, OReg b i => reg_ok b i
  | RImm8, OImm v => (0 <=? v) && (v <? 256)
  | RInt32, OImm _ => true
  | RAddr, OAddr _ => true
  | REntry, OEntry _ b i => reg_ok b i
  | RSlice, OSlice _ b1 i1 b2 i2 => reg_ok b1 i1 && reg_ok b2 i2
  | _, _ => false
  end.

Lemma op_num k o bs :
  op_ok k o = true -> op_bytes k o = Some bs ->
  of_bytes bs = pack (fst (rk_fields 0 k)) (leaves o)
  /\ Forall (fun b => 0 <= b < 256) bs
  /\ Z.of_nat (List.length bs) = kbytes k
  /\ List.length (fst (rk_fields 0 k)) = List.length (leaves o).
Proof.
  destruct k, o; cbn [op_ok op_bytes]; try discriminate; intros Hok [= <-].
  - (* reg *) destruct (reg_num _ _ Hok) as [E R]. cbn [rk_fields fst leaves].
    rewrite E. cbn [of_bytes]. rewrite land_255_small, Z.shiftl_0_l, Z.lor_0_r by assumption.
    repeat split; try reflexivity; try lia. constructor; [assumption|constructor].
  - (* imm8 *) apply andb_true_iff in Hok as [H1 H2]. apply Z.leb_le in H1. apply Z.ltb_lt in H2.
    cbn [rk_fields fst leaves]. rewrite pack_imm8 by lia.
    cbn [of_bytes]. rewrite land_255_small, Z.shiftl_0_l, Z.lor_0_r by lia.
    repeat split; try reflexivity. constructor; [lia|constructor].
  - (* int32 *) cbn [rk_fields fst leaves]. rewrite pack_int32, le4_num.
    repeat split; try reflexivity. apply le4_range.
  - (* addr *) cbn [rk_fields fst leaves]. rewrite pack_int32, le4_num.
    repeat split; try reflexivity. apply le4_range.
  - (* entry *) destruct (reg_num _ _ Hok) as [E R].
    cbn [rk_fields fst leaves].
    change (mkF 0 32 true :: reg_fields (0 + 32)) with ([mkF 0 32 true] ++ reg_fields (0 + 32)).
    change [a; b; i] with ([a] ++ [b; i]).
    rewrite pack_app by reflexivity. rewrite pack_int32.
    rewrite (reg_fields_shift 0 32), pack_shift by (try lia; repeat constructor; cbn; lia).
    rewrite E, of_bytes_app, le4_num, length_le4. cbn [of_bytes].
    rewrite land_255_small, Z.shiftl_0_l, Z.lor_0_r by assumption.
    repeat split; try reflexivity.
    apply Forall_app; split; [apply le4_range|constructor; [assumption|constructor]].
  - (* slice *) apply andb_true_iff in Hok as [Hok1 Hok2].
    destruct (reg_num _ _ Hok1) as [E1 R1]. destruct (reg_num _ _ Hok2) as [E2 R2].
    cbn [rk_fields fst leaves].
    change (mkF 0 32 true :: reg_fields (0 + 32) ++ reg_fields (0 + 40))
      with ([mkF 0 32 true] ++ reg_fields (0 + 32) ++ reg_fields (0 + 40)).
    change [a; b1; i1; b2; i2] with ([a] ++ [b1; i1] ++ [b2; i2]).
    rewrite pack_app by reflexivity. rewrite pack_app by reflexivity. rewrite pack_int32.
    rewrite (reg_fields_shift 0 32), (reg_fields_shift 0 40).
    rewrite !pack_shift by (try lia; repeat constructor; cbn; lia).
    rewrite E1, E2, of_bytes_app, le4_num, length_le4. cbn [of_bytes].
    rewrite !land_255_small, Z.shiftl_0_l, Z.lor_0_r by assumption.
    rewrite Z.shiftl_lor, Z.shiftl_shiftl by lia.
    repeat split; try reflexivity.
    apply Forall_app; split; [apply le4_range|constructor; [assumption|constructor; [assumption|constructor]]].
Qed.

Fixpoint ops_ok (ks : list rkind) (ops : list operand) : bool :=
  match ks, ops with
  | [], [] => true
  | k :: ks', o :: ops' => op_ok k o && ops_ok ks' ops'
  | _, _ => false
  end.

Lemma ops_num ks : forall ops body,
  ops_ok ks ops = true -> ops_bytes ks ops = Some body ->
  of_bytes body = pack (ref_layout_from 0 ks) (flat ops)
  /\ Forall (fun b => 0 <= b < 256) body.
Proof.
  induction ks as [|k ks IH]; intros [|o ops] body Hok Hb; try discriminate.
  - cbn in Hb. injection Hb as <-. split; [reflexivity|constructor].
  - cbn [ops_ok] in Hok. apply andb_true_iff in Hok as [Hk Hks].
    cbn [ops_bytes] in Hb.
    destruct (op_bytes k o) as [a|] eqn:Ea; [|discriminate].
    destruct (ops_bytes ks ops) as [b|] eqn:Eb; [|discriminate].
    injection Hb as <-.
    destruct (op_num k o a Hk Ea) as (Ha & Ra & La & Ll).
    destruct (IH ops b Hks Eb) as (Hbn & Rb).
    split; [|apply Forall_app; split; assumption].
    cbn [ref_layout_from]. unfold flat in *. cbn [map List.concat].
    rewrite pack_app by assumption.
    rewrite rk_next.
    replace (0 + 8 * kbytes k) with (0 + (8 * kbytes k)) by lia.
    rewrite ref_layout_from_shift, pack_shift
      by (try (destruct k; cbn; lia); apply ref_layout_from_pos; lia).
    rewrite of_bytes_app, Ha, Hbn, La. reflexivity.
Qed.

Lemma of_bytes_zeros n : of_bytes (repeat 0 n) = 0.
Proof. induction n as [|n IH]; cbn [repeat of_bytes]; [reflexivity|]. now rewrite IH. Qed.

(* C02: the reference encoder writes exactly the literal bytes *)
Theorem ref_encode_bytes op ks ops bs :
  0 <= op < 256 -> ops_ok ks ops = true -> ref_bytes op ks ops = Some bs ->
  ref_encode op ks ops = bs.
Proof.
  intros Hop Hok. unfold ref_bytes.
  destruct (ops_bytes ks ops) as [body|] eqn:Eb; [|discriminate].
  destruct (Nat.leb_spec (S (List.length body)) CMD_BYTES) as [Hlen|]; [|discriminate].
  intros [= <-].
  destruct (ops_num ks ops body Hok Eb) as [Hn Rb].
  set (full := op :: body ++ repeat 0 (CMD_BYTES - S (List.length body))).
  assert (Hfl : List.length full = CMD_BYTES).
  { unfold full. cbn [List.length]. rewrite app_length, repeat_length. lia. }
  assert (Hfr : Forall (fun b => 0 <= b < 256) full).
  { unfold full. constructor; [assumption|]. apply Forall_app. split; [assumption|].
    apply Forall_forall. intros x Hx. apply repeat_spec in Hx. subst. lia. }
  assert (HN : pack (ref_layout ks) (op :: flat ops) = of_bytes full).
  { unfold full. cbn [of_bytes]. rewrite of_bytes_app, of_bytes_zeros, Z.shiftl_0_l, Z.lor_0_r.
    rewrite (land_255_small op) by assumption.
    unfold ref_layout. cbn [pack]. unfold put at 1; cbn [f_pos f_width].
    rewrite Z.shiftl_0_r. change (Z.ones 8) with 255. rewrite (land_255_small op) by assumption.
    f_equal. rewrite Hn.
    change 8 with (0 + 8) at 1. rewrite ref_layout_from_shift, pack_shift
      by (try lia; apply ref_layout_from_pos; lia).
    reflexivity. }
  unfold ref_encode. rewrite HN, <- Hfl. apply to_of_bytes. exact Hfr.
Qed.
