(* HwProofs.v — the model of the executor under the configuration (HwExec) refines
   the reference semantics under the configuration (HwSem), for every configuration,
   program, state and step bound; in particular with the hardware flag ON. *)
From Coq Require Import ZArith List Bool Lia ZifyBool.
From NQ Require Import Exec.State Exec.Sem Exec.Exec Proofs.ExecProofs.
From NQ Require Exec.HwSem Exec.HwExec.
Import ListNotations.
Open Scope Z_scope.

Module HS := NQ.Exec.HwSem.
Module HE := NQ.Exec.HwExec.

(* ------------------------------------------------------------------ primitives *)
Lemma aww : forall v, HE.assert_within_width v = if fits v then Ok tt else Raise FOverflow.
Proof. reflexivity. Qed.

Lemma hset_register_ok : forall st r v, reg_ok r = true ->
  HE.hset_register st r v = if fits v then Ok (wr st r v) else Raise FOverflow.
Proof.
  intros st r v H. unfold HE.hset_register. rewrite (assert_within_length_ok _ H). cbn [bind].
  rewrite aww. destruct (fits v); reflexivity.
Qed.

Ltac hrw :=
  repeat first [ rewrite get_register_ok by assumption
               | rewrite hset_register_ok by assumption
               | rewrite expand_entry_ok by assumption
               | rewrite assert_within_length_ok by assumption
               | progress cbn [bind to_sres fst snd] ].
Ltac hfin := hrw; try reflexivity; try congruence; try (exfalso; lia).

Lemma unfold_hexec : forall i st pc,
  HE.hw_execute_command i st pc =
  match i with
  | ISet r v => inc_program_counter (HE.hinstr_set r v) st pc
  | ILea r a => inc_program_counter (HE.hinstr_lea r a) st pc
  | IArray sz a => inc_program_counter (HE.hinstr_array sz a) st pc
  | ILoad r a ix => inc_program_counter (HE.hinstr_load r a ix) st pc
  | IStore r a ix => inc_program_counter (HE.hinstr_store r a ix) st pc
  | IUndef a ix => inc_program_counter (HE.hinstr_undef a ix) st pc
  | IRetReg r => inc_program_counter (HE.hinstr_ret_reg r) st pc
  | IRetArr a => inc_program_counter (HE.hinstr_ret_arr a) st pc
  | IQalloc r => inc_program_counter (instr_qalloc r) st pc
  | IQfree r => inc_program_counter (instr_qfree r) st pc
  | IWaitAll a s e => inc_program_counter (HE.hinstr_wait_all a s e) st pc
  | IWaitAny a s e => inc_program_counter (HE.hinstr_wait_any a s e) st pc
  | IWaitSingle a ix => inc_program_counter (HE.hinstr_wait_single a ix) st pc
  | IBranch b => handle_branch_instr b st pc
  | IClassical c => inc_program_counter (HE.hhandle_binary_classical_instr c) st pc
  end.
Proof. reflexivity. Qed.

(* instructions the width checks do not touch: the hardware dispatcher is the simulation one *)
Lemma hexec_same : forall i st pc,
  match i with IBranch _ | IQalloc _ | IQfree _ => True | _ => False end ->
  HE.hw_execute_command i st pc = execute_command i st pc.
Proof. intros i st pc H. destruct i; try contradiction; reflexivity. Qed.

(* the wait instructions: only the address check is added in front *)
Lemma hwait_all : forall a s e st, fits a = true -> HE.hinstr_wait_all a s e st = instr_wait_all a s e st.
Proof.
  intros a s e st H. unfold HE.hinstr_wait_all, instr_wait_all, HE.harrays_getslice, HE.extract_key. rewrite aww, H.
  destruct (expand_slice st s e); reflexivity.
Qed.
Lemma hwait_any : forall a s e st, fits a = true -> HE.hinstr_wait_any a s e st = instr_wait_any a s e st.
Proof.
  intros a s e st H. unfold HE.hinstr_wait_any, instr_wait_any, HE.harrays_getslice, HE.extract_key. rewrite aww, H.
  destruct (expand_slice st s e); reflexivity.
Qed.
Lemma hwait_single : forall a ix st, fits a = true -> HE.hinstr_wait_single a ix st = instr_wait_single a ix st.
Proof.
  intros a ix st H. unfold HE.hinstr_wait_single, instr_wait_single, HE.hget_array_entry, get_array_entry,
    HE.harrays_getitem, HE.extract_key. rewrite aww, H. destruct (expand_entry st ix); reflexivity.
Qed.

(* ------------------------------------------------------------------ one instruction, hardware flag on *)
Theorem hw_step_refines : forall i st pc,
  HS.hw_step i st pc <> Stop (Unspec pc) ->
  to_sres (HE.hw_execute_command i st pc) pc = HS.hw_step i st pc.
Proof.
  intros i st pc H.
  (* instructions without a register / array write: the simulation theorem *)
  assert (Hsame : match i with IBranch _ | IQalloc _ | IQfree _ => True | _ => False end ->
                  to_sres (HE.hw_execute_command i st pc) pc = HS.hw_step i st pc).
  { intro Hi. rewrite (hexec_same _ _ _ Hi).
    assert (E : HS.hw_step i st pc = step i st pc).
    { unfold HS.hw_step, step. destruct (negb (instr_regs_ok i)); [reflexivity|].
      destruct i; try contradiction; reflexivity. }
    rewrite E in *. apply step_refines. exact H. }
  unfold HS.hw_step in *.
  destruct (instr_regs_ok i) eqn:Hok; cbn [negb] in *; [|congruence].
  destruct i as [r v|r a|sz a|r a ix|r a ix|a ix|c|b|r|a|r|r|a so eo|a so eo|a ix];
    try (apply Hsame; exact I); clear Hsame;
    cbn [instr_regs_ok] in Hok; regs; rewrite unfold_hexec; unfold inc_program_counter.
  - (* set *) unfold HE.hinstr_set. hrw. destruct (fits v); hfin.
  - (* lea *) unfold HE.hinstr_lea. hrw. destruct (fits a); hfin.
  - (* array *) unfold HE.hinstr_array. hrw. destruct (rd st sz) as [n|]; hfin.
    destruct (n <? 0) eqn:E; hfin. rewrite aww. destruct (fits a); hfin.
  - (* load *) unfold HE.hinstr_load, HE.hget_array_entry, HE.harrays_getitem, HE.extract_key. hrw.
    destruct (oval st ix) as [n|]; hfin.
    destruct (n <? 0) eqn:E; hfin. rewrite aww. destruct (fits a); cbn [negb bind]; hfin.
    rewrite arrays_getitem_spec by lia.
    destruct (find Z.eqb a (arrs st)) as [l|]; hfin.
    destruct (Zlen l <=? n); hfin.
    destruct (nth_error l (Z.to_nat n)) as [[v|]|]; hfin. destruct (fits v); hfin.
  - (* store *) unfold HE.hinstr_store, HE.hset_array_entry, HE.harrays_setitem, HE.extract_key. hrw.
    destruct (rd st r) as [v|]; hfin.
    destruct (oval st ix) as [n|]; hfin.
    destruct (n <? 0) eqn:E; hfin. rewrite !aww.
    destruct (fits a); cbn [negb andb bind]; hfin.
    destruct (fits v); cbn [negb andb bind]; hfin.
    destruct (fits n); cbn [negb andb bind]; hfin.
    rewrite arrays_setitem_spec by lia.
    destruct (find Z.eqb a (arrs st)) as [l|]; hfin.
    destruct (n <? Zlen l); hfin.
  - (* undef *) unfold HE.hinstr_undef, HE.hset_array_entry, HE.harrays_setitem, HE.extract_key. hrw.
    destruct (oval st ix) as [n|]; hfin.
    destruct (n <? 0) eqn:E; hfin. rewrite aww. destruct (fits a); cbn [negb bind]; hfin.
    rewrite arrays_setitem_spec by lia.
    destruct (find Z.eqb a (arrs st)) as [l|]; hfin.
    destruct (n <? Zlen l); hfin.
  - (* add sub addm subm *)
    unfold HE.hhandle_binary_classical_instr.
    destruct c as [o d ra rb|o d ra rb rm]; cbn [instr_regs_ok regin0 regin1 regout] in *; regs; hrw.
    + destruct (rd st ra) as [x|]; hfin. destruct (rd st rb) as [y|]; hfin.
      destruct o; cbn [compute_binary_classical_instr binop_val]; hfin;
        match goal with |- context [fits ?z] => destruct (fits z) end; hfin.
    + destruct (rd st rm) as [m|]; hfin.
      * destruct (m <? 1) eqn:E; hfin.
        destruct (rd st ra) as [x|]; hfin. destruct (rd st rb) as [y|]; hfin.
        destruct o; cbn [compute_binary_classical_instr binop_val]; hfin;
          rewrite py_mod_modulo by lia; match goal with |- context [fits ?z] => destruct (fits z) end; hfin.
      * destruct (rd st ra) as [x|]; hfin. destruct (rd st rb) as [y|]; hfin.
        destruct o; cbn [compute_binary_classical_instr]; hfin.
  - (* ret_reg *) unfold HE.hinstr_ret_reg. hrw. destruct (rd st r) as [v|]; hfin.
    rewrite aww. destruct (fits v); hfin.
  - (* ret_arr *) unfold HE.hinstr_ret_arr, arrays_get_array.
    destruct (find Z.eqb a (arrs st)) as [l|]; hfin.
    rewrite aww. destruct (fits a); cbn [negb bind] in *; hfin.
    destruct (forallb cell_fits l && fits (Zlen l)); hfin.
  - (* wait_all *)
    destruct (oval st so) as [s|] eqn:Es; [destruct (oval st eo) as [e|] eqn:Ee|].
    + destruct (fits a) eqn:Ef; cbn [negb] in *.
      * rewrite (hwait_all _ _ _ _ Ef).
        change (to_sres (execute_command (IWaitAll a so eo) st pc) pc = step (IWaitAll a so eo) st pc).
        apply step_refines. exact H.
      * unfold HE.hinstr_wait_all, expand_slice, HE.harrays_getslice, HE.extract_key. hrw.
        rewrite Es, Ee. cbn [bind fst snd]. rewrite aww, Ef. reflexivity.
    + unfold HE.hinstr_wait_all, expand_slice. hrw. rewrite Es, Ee. reflexivity.
    + unfold HE.hinstr_wait_all, expand_slice. hrw. rewrite Es. reflexivity.
  - (* wait_any *)
    destruct (oval st so) as [s|] eqn:Es; [destruct (oval st eo) as [e|] eqn:Ee|].
    + destruct (fits a) eqn:Ef; cbn [negb] in *.
      * rewrite (hwait_any _ _ _ _ Ef).
        change (to_sres (execute_command (IWaitAny a so eo) st pc) pc = step (IWaitAny a so eo) st pc).
        apply step_refines. exact H.
      * unfold HE.hinstr_wait_any, expand_slice, HE.harrays_getslice, HE.extract_key. hrw.
        rewrite Es, Ee. cbn [bind fst snd]. rewrite aww, Ef. reflexivity.
    + unfold HE.hinstr_wait_any, expand_slice. hrw. rewrite Es, Ee. reflexivity.
    + unfold HE.hinstr_wait_any, expand_slice. hrw. rewrite Es. reflexivity.
  - (* wait_single *)
    destruct (oval st ix) as [n|] eqn:En.
    + destruct (n <? 0) eqn:E; [congruence|].
      destruct (fits a) eqn:Ef; cbn [negb] in *.
      * rewrite (hwait_single _ _ _ Ef).
        change (to_sres (execute_command (IWaitSingle a ix) st pc) pc = step (IWaitSingle a ix) st pc).
        apply step_refines. exact H.
      * unfold HE.hinstr_wait_single, HE.hget_array_entry, HE.harrays_getitem, HE.extract_key. hrw.
        rewrite En. cbn [bind]. rewrite aww, Ef. reflexivity.
    + unfold HE.hinstr_wait_single, HE.hget_array_entry. hrw. rewrite En. reflexivity.
Qed.

(* ------------------------------------------------------------------ whole programs, any step / dispatch pair *)
Section Generic.
  Variable sf : instr -> state -> Z -> sres.
  Variable ef : instr -> state -> Z -> exc (state * Z).
  Hypothesis step_ok : forall i st pc, sf i st pc <> Stop (Unspec pc) -> to_sres (ef i st pc) pc = sf i st pc.

  Lemma srun_eq : forall prog st pc fuel,
    HS.run_from_with sf prog st pc fuel =
    if pc <? 0 then (st, pc, Unspec pc)
    else if Zlen prog <=? pc then (st, pc, Halt)
    else match nth_error prog (Z.to_nat pc) with
         | None => (st, pc, Halt)
         | Some i =>
             match fuel with
             | O => (st, pc, OutOfFuel)
             | S f => match sf i st pc with
                      | Next st' pc' => HS.run_from_with sf prog st' pc' f
                      | Stop o => (st, pc, o)
                      end
             end
         end.
  Proof. intros prog st pc fuel. destruct fuel; reflexivity. Qed.

  Lemma erun_eq : forall prog st pc fuel,
    HE.run_from_with ef prog st pc fuel =
    if pc <? Zlen prog then
      match py_getitem prog pc with
      | Ok i =>
          match fuel with
          | O => (st, pc, OutOfFuel)
          | S f => match ef i st pc with
                   | Ok (st', pc') => HE.run_from_with ef prog st' pc' f
                   | Raise k => (st, pc, Fault k pc)
                   | Block => (st, pc, Blocked pc)
                   end
          end
      | _ => (st, pc, Crash)
      end
    else (st, pc, Halt).
  Proof. intros prog st pc fuel. destruct fuel; reflexivity. Qed.

  Definition gdefined (prog : list instr) (st : state) (pc : Z) : Prop :=
    forall fuel, is_unspec (snd (HS.run_from_with sf prog st pc fuel)) = false.

  Theorem run_with_refines : forall fuel prog st pc,
    gdefined prog st pc -> HE.run_from_with ef prog st pc fuel = HS.run_from_with sf prog st pc fuel.
  Proof.
    induction fuel as [|f IH]; intros prog st pc H;
      (assert (Hpc : pc <? 0 = false)
         by (specialize (H O); rewrite srun_eq in H; destruct (pc <? 0); [cbn in H; discriminate|reflexivity]));
      rewrite erun_eq, srun_eq; rewrite Hpc;
      (destruct (Zlen prog <=? pc) eqn:E;
       [ replace (pc <? Zlen prog) with false by lia; reflexivity |]);
      replace (pc <? Zlen prog) with true by lia;
      rewrite py_getitem_nonneg by lia; rewrite E;
      (destruct (nth_error_in_range _ prog pc) as [i Hi]; [lia|lia|]); rewrite Hi.
    - reflexivity.
    - assert (Hs : sf i st pc <> Stop (Unspec pc)).
      { intro Hc. specialize (H 1%nat). rewrite srun_eq in H.
        rewrite Hpc, E, Hi, Hc in H. cbn in H. discriminate. }
      pose proof (step_ok i st pc Hs) as R.
      destruct (ef i st pc) as [[st' pc']|k|]; cbn [to_sres] in R; rewrite <- R.
      + apply IH. intro f'. specialize (H (S f')). rewrite srun_eq in H.
        rewrite Hpc, E, Hi, <- R in H. exact H.
      + reflexivity.
      + reflexivity.
  Qed.
End Generic.

(* ------------------------------------------------------------------ every configuration *)
Theorem hstep_refines : forall cfg i st pc,
  HS.hstep cfg i st pc <> Stop (Unspec pc) ->
  to_sres (HE.hexecute_command cfg i st pc) pc = HS.hstep cfg i st pc.
Proof.
  intros [hw] i st pc H. unfold HS.hstep, HE.hexecute_command in *. cbn [cfg_hw] in *.
  destruct hw; [apply hw_step_refines|apply step_refines]; exact H.
Qed.

Theorem hexec_refines_hsem_from : forall cfg fuel prog st pc,
  HS.hdefined_from cfg prog st pc ->
  HE.hrun_from cfg prog st pc fuel = HS.hrun_from cfg prog st pc fuel.
Proof.
  intros cfg fuel prog st pc H. unfold HE.hrun_from, HS.hrun_from.
  apply (run_with_refines (HS.hstep cfg) (HE.hexecute_command cfg) (hstep_refines cfg)). exact H.
Qed.

(* THE THEOREM with the configuration (in particular cfg_hardware: the flag on) *)
Theorem hexec_refines_hsem : forall cfg prog st fuel,
  HS.hdefined_domain cfg prog st -> HE.hrun cfg prog st fuel = HS.hrun cfg prog st fuel.
Proof. intros cfg prog st fuel H. apply hexec_refines_hsem_from. exact H. Qed.

Theorem hrun_many_refines : forall cfg subs st fuel,
  HS.hdefined_many cfg subs st fuel -> HE.hrun_many cfg subs st fuel = HS.hrun_many cfg subs st fuel.
Proof.
  intros cfg. induction subs as [|p ps IH]; intros st fuel H; [reflexivity|].
  destruct H as [Hd Hm]. cbn [HE.hrun_many HS.hrun_many].
  rewrite (hexec_refines_hsem cfg p st fuel Hd). f_equal. apply IH. exact Hm.
Qed.

(* ------------------------------------------------------------------ the configurations are what they should be *)
(* flag off: the parametric runs are Sem.run / Exec.run *)
Lemma hrun_sim_is_sem : forall fuel prog st pc, HS.hrun_from cfg_sim prog st pc fuel = Sem.run_from prog st pc fuel.
Proof.
  unfold HS.hrun_from. induction fuel as [|f IH]; intros prog st pc;
    rewrite (srun_eq (HS.hstep cfg_sim)), sem_run_eq; [reflexivity|].
  destruct (pc <? 0); [reflexivity|]. destruct (Zlen prog <=? pc); [reflexivity|].
  destruct (nth_error prog (Z.to_nat pc)) as [i|]; [|reflexivity].
  change (HS.hstep cfg_sim i st pc) with (step i st pc). destruct (step i st pc); [apply IH|reflexivity].
Qed.

Lemma hrun_sim_is_exec : forall fuel prog st pc, HE.hrun_from cfg_sim prog st pc fuel = Exec.run_from prog st pc fuel.
Proof.
  unfold HE.hrun_from. induction fuel as [|f IH]; intros prog st pc;
    rewrite (erun_eq (HE.hexecute_command cfg_sim)), exec_run_eq; [reflexivity|].
  destruct (pc <? Zlen prog); [|reflexivity]. destruct (py_getitem prog pc) as [i|k|]; try reflexivity.
  change (HE.hexecute_command cfg_sim i st pc) with (execute_command i st pc).
  destruct (execute_command i st pc) as [[st' pc']|k|]; [apply IH|reflexivity|reflexivity].
Qed.

(* flag on: an instruction that neither overflows nor is open behaves exactly as in simulation
   (the hardware configuration only ADDS overflow faults) *)
Theorem hw_conservative : forall i st pc,
  HS.hw_step i st pc <> Stop (Fault FOverflow pc) -> HS.hw_step i st pc <> Stop (Unspec pc) ->
  HS.hw_step i st pc = step i st pc.
Proof.
  intros i st pc Ho Hu. unfold HS.hw_step, step in *. cbv zeta in *.
  destruct (negb (instr_regs_ok i)); [reflexivity|].
  destruct i as [r v|r a|sz a|r a ix|r a ix|a ix|c|b|r|a|r|r|a so eo|a so eo|a ix]; try reflexivity;
    try (destruct c);
    repeat match goal with
           | |- context [match ?x with _ => _ end] =>
               match x with
               | context [fits] => fail 1
               | _ => destruct x eqn:?; try reflexivity; try congruence
               end
           end;
    repeat match goal with
           | |- context [fits ?z] => destruct (fits z) eqn:?; cbn [negb andb] in *; try reflexivity; try congruence
           | |- context [forallb cell_fits ?l] => destruct (forallb cell_fits l) eqn:?; cbn [negb andb] in *; try reflexivity; try congruence
           end.
Qed.

(* the overflow fault names its line and leaves state and pc as they were *)
Theorem hw_overflow_stops : forall prog st pc fuel i,
  0 <= pc -> nth_error prog (Z.to_nat pc) = Some i ->
  HS.hw_step i st pc = Stop (Fault FOverflow pc) ->
  HE.hrun_from cfg_hardware prog st pc (S fuel) = (st, pc, Fault FOverflow pc).
Proof.
  intros prog st pc fuel i H0 Hi Hs.
  pose proof (nth_some_lt _ _ _ _ H0 Hi) as Hlt.
  unfold HE.hrun_from. rewrite (erun_eq (HE.hexecute_command cfg_hardware)).
  replace (pc <? Zlen prog) with true by lia.
  rewrite py_getitem_nonneg by lia. replace (Zlen prog <=? pc) with false by lia. rewrite Hi.
  assert (R : to_sres (HE.hw_execute_command i st pc) pc = HS.hw_step i st pc).
  { apply hw_step_refines. rewrite Hs. discriminate. }
  change (HE.hexecute_command cfg_hardware i st pc) with (HE.hw_execute_command i st pc).
  rewrite Hs in R. destruct (HE.hw_execute_command i st pc) as [[st' pc']|k|]; cbn [to_sres] in R; try discriminate.
  inversion R; subst. reflexivity.
Qed.

(* ------------------------------------------------------------------ deciding the domain for runs that end *)
Lemma hsem_fuel_stable : forall cfg f prog st pc f',
  snd (HS.hrun_from cfg prog st pc f) <> OutOfFuel ->
  snd (HS.hrun_from cfg prog st pc f') = OutOfFuel \/
  HS.hrun_from cfg prog st pc f' = HS.hrun_from cfg prog st pc f.
Proof.
  intros cfg. unfold HS.hrun_from. induction f as [|f IH]; intros prog st pc f' H;
    rewrite (srun_eq (HS.hstep cfg) prog st pc f'); rewrite srun_eq in H; rewrite srun_eq;
    destruct (pc <? 0); try (right; reflexivity);
    destruct (Zlen prog <=? pc); try (right; reflexivity);
    destruct (nth_error prog (Z.to_nat pc)) as [i|]; try (right; reflexivity).
  - cbn in H. congruence.
  - destruct f' as [|f']; [left; reflexivity|].
    destruct (HS.hstep cfg i st pc) as [st1 pc1|o]; [|right; reflexivity].
    apply IH. exact H.
Qed.

Theorem hdefined_from_by_run : forall cfg prog st pc N,
  settled (snd (HS.hrun_from cfg prog st pc N)) = true -> HS.hdefined_from cfg prog st pc.
Proof.
  intros cfg prog st pc N H f.
  destruct (hsem_fuel_stable cfg N prog st pc f) as [E|E].
  - intro Hc. rewrite Hc in H. discriminate.
  - rewrite E. reflexivity.
  - rewrite E. destruct (snd (HS.hrun_from cfg prog st pc N)); try reflexivity; discriminate.
Qed.
