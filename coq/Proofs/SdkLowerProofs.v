(* SdkLowerProofs.v — per-construct lowering lemmas of C05: what the structured code
   the builder model emits for if / loop / foreach / loop_until does on the target
   machine, against the iteration functions of the specification (Sdk/Eval.v).
   Each lemma is parametric in the simulation relation R between specification
   states and machine states and in the (already related) body, so that it is the
   induction step of the composition for arbitrary nesting. *)
From Coq Require Import ZArith List Bool Arith Lia.
From NQ Require Import Sdk.SdkAst Sdk.Target Sdk.Eval.
Import ListNotations.
Local Open Scope Z_scope.

(* the six conditions: specification and machine agree *)
Lemma cond_true_holds : forall c a b, cond_true c a b = holds c a b.
Proof. intros c a b. destruct c; cbn [cond_true holds]; try reflexivity. rewrite Z.geb_leb. reflexivity. Qed.

Lemma loop_count_spec : forall a b st n,
  loop_count a b st = Some n -> st <> 0 /\ b = a + st * Z.of_nat n.
Proof.
  intros a b st n H. unfold loop_count in H.
  destruct (st =? 0) eqn:E0; [discriminate|]. apply Z.eqb_neq in E0.
  destruct (0 <? st) eqn:Ep.
  - apply Z.ltb_lt in Ep.
    destruct (b <? a) eqn:E2; [discriminate|].
    destruct ((b - a) mod st =? 0) eqn:E3; cbn [negb] in H; [|discriminate].
    inversion H; subst. apply Z.ltb_ge in E2. apply Z.eqb_eq in E3.
    split; [lia|]. rewrite Z2Nat.id by (apply Z.div_pos; lia).
    assert (Hd := Z.div_mod (b - a) st ltac:(lia)). lia.
  - apply Z.ltb_ge in Ep.
    destruct (a <? b) eqn:E2; [discriminate|].
    destruct ((a - b) mod (- st) =? 0) eqn:E3; cbn [negb] in H; [|discriminate].
    inversion H; subst. apply Z.ltb_ge in E2. apply Z.eqb_eq in E3.
    split; [lia|]. rewrite Z2Nat.id by (apply Z.div_pos; lia).
    assert (Hd := Z.div_mod (a - b) (- st) ltac:(lia)). nia.
Qed.

Section Constructs.
  Variable R : est -> mst -> Prop.

  (* ---------------------------------------------------------------- if *)
  (* lower_if: operand loads, then the body iff the condition holds on the loaded values
     (all six conditions; flatten turns this into a branch over the body on the negation,
     see flatten_correct / holds_flip) *)
  Theorem lower_if : forall pre c x y body (fbody : est -> option est) e e' s a b,
    R e s ->
    (* the operand loads change nothing the relation sees and leave the operand values in place *)
    (exists s1, exec_instrs pre s = Some s1 /\ R e s1 /\
                rop_val s1 x = Some a /\ (match c with CEz | CNz => True | _ => rop_val s1 y = Some b end) /\
     (* the body is simulated *)
     (forall e2, fbody e = Some e2 -> exists s2, sx body s1 s2 /\ R e2 s2)) ->
    (if cond_true c a (match c with CEz | CNz => 0 | _ => b end) then fbody e else Some e) = Some e' ->
    exists s', sx1 (XIf pre c x y body) s s' /\ R e' s'.
  Proof.
    intros pre c x y body fbody e e' s a b HR (s1 & Hp & HR1 & Hx & Hy & Hb) Hev.
    assert (Hh : holds_at c x y s1 = Some (cond_true c a (match c with CEz | CNz => 0 | _ => b end))).
    { unfold holds_at. rewrite Hx. rewrite cond_true_holds.
      destruct c; try rewrite Hy; reflexivity. }
    destruct (cond_true c a (match c with CEz | CNz => 0 | _ => b end)).
    - destruct (Hb _ Hev) as (s2 & Hs & HR2). exists s2. split; [|exact HR2].
      eapply sx_If_true; eauto.
    - inversion Hev; subst. exists s1. split; [|exact HR1]. eapply sx_If_false; eauto.
  Qed.

  (* ---------------------------------------------------------------- counted loops *)
  Variable r : reg.
  (* the relation does not look at the loop register *)
  Hypothesis R_ignores_r : forall e s v, R e s -> R e (set_reg s r v).

  Section Loop.
    Variable body : list sir.
    Variable f : Z -> est -> option est.
    (* one round: with the loop register holding i the body code simulates f i and leaves the
       register alone (lower_frame) *)
    Hypothesis body_sim : forall i e s e1,
      R e s -> m_reg s r = Some i -> f i e = Some e1 ->
      exists s1, sx body s s1 /\ R e1 s1 /\ m_reg s1 r = Some i.

    Lemma loop_rounds : forall n st i e s e' b,
      st <> 0 -> b = i + st * Z.of_nat n ->
      R e s -> m_reg s r = Some i -> iter_loop f n i st e = Some e' ->
      exists s', sxloop r b st body s s' /\ R e' s' /\ m_reg s' r = Some b.
    Proof.
      induction n as [|n IH]; intros st i e s e' b Hst Hb HR Hr Hit; cbn [iter_loop] in Hit.
      - inversion Hit; subst. exists s. replace (i + st * Z.of_nat 0) with i in * by lia.
        repeat split; auto. apply sxl_done. exact Hr.
      - destruct (f i e) as [e1|] eqn:Hf; [|discriminate].
        destruct (body_sim _ _ _ _ HR Hr Hf) as (s1 & Hs & HR1 & Hr1).
        destruct (IH st (i + st) e1 (set_reg s1 r (i + st)) e' b Hst) as (s' & Hl & HR' & Hr'); auto.
        + lia.
        + cbn [set_reg m_reg]. unfold upd_reg.
          assert (E : reg_eqb r r = true) by (destruct r as [bk k]; cbn; destruct bk; cbn; rewrite Nat.eqb_refl; reflexivity).
          rewrite E. reflexivity.
        + exists s'. repeat split; auto.
          eapply sxl_step with (v := i) (v1 := i); eauto.
          intro E. assert (st * Z.of_nat (S n) = 0) by lia.
          apply Z.mul_eq_0 in H. lia.
    Qed.

    (* lower_loop: the body runs for r = a, a+st, ... while r <> b, exactly the rounds of the
       specification's loop (and of `for i in range(a, b, st)`) *)
    Theorem lower_loop : forall a b st n e s e',
      loop_count a b st = Some n -> R e s -> iter_loop f n a st e = Some e' ->
      exists s', sx1 (XLoop r a b st body) s s' /\ R e' s'.
    Proof.
      intros a b st n e s e' Hc HR Hit. destruct (loop_count_spec _ _ _ _ Hc) as [Hst Hb].
      destruct (loop_rounds n st a e (set_reg s r a) e' b Hst Hb) as (s' & Hl & HR' & _); auto.
      - cbn [set_reg m_reg]. unfold upd_reg.
        assert (E : reg_eqb r r = true) by (destruct r as [bk k]; cbn; destruct bk; cbn; rewrite Nat.eqb_refl; reflexivity).
        rewrite E. reflexivity.
      - exists s'. split; [apply sx_Loop; exact Hl|exact HR'].
    Qed.

    (* lower_foreach / enumerate: one round per element, index 0 .. len-1 *)
    Theorem lower_foreach : forall len e s e',
      R e s -> iter_loop f len 0 1 e = Some e' ->
      exists s', sx1 (XLoop r 0 (Z.of_nat len) 1 body) s s' /\ R e' s'.
    Proof.
      intros len e s e' HR Hit. eapply lower_loop; eauto.
      unfold loop_count. cbn [Z.eqb Z.ltb Z.compare].
      destruct (Z.of_nat len <? 0) eqn:E; [apply Z.ltb_lt in E; lia|].
      rewrite Z.sub_0_r, Z.mod_1_r, Z.div_1_r, Nat2Z.id. reflexivity.
    Qed.
  End Loop.

  (* ---------------------------------------------------------------- loop_until *)
  Section Until.
    Variable body cl : list sir.
    Variable pre : list instr.
    Variable x : rop.
    Variable fbody : Z -> est -> option est.
    Variable watch : est -> option Z.
    Variable fclean : est -> option est.
    Hypothesis body_sim : forall i e s e1,
      R e s -> m_reg s r = Some i -> fbody i e = Some e1 ->
      exists s1, sx body s s1 /\ R e1 s1 /\ m_reg s1 r = Some i.
    (* the exit-condition operand is loaded: nothing visible changes, the value is the watched one *)
    Hypothesis watch_sim : forall i e s w,
      R e s -> m_reg s r = Some i -> watch e = Some w ->
      exists s1, exec_instrs pre s = Some s1 /\ R e s1 /\ m_reg s1 r = Some i /\ rop_val s1 x = Some w.
    Hypothesis clean_sim : forall i e s e1,
      R e s -> m_reg s r = Some i -> fclean e = Some e1 ->
      exists s1, sx cl s s1 /\ R e1 s1 /\ m_reg s1 r = Some i.

    Lemma reg_eqb_refl : reg_eqb r r = true.
    Proof. destruct r as [bk k]; cbn; destruct bk; cbn; rewrite Nat.eqb_refl; reflexivity. Qed.

    Lemma until_rounds : forall n i mx bound e s e',
      mx = i + Z.of_nat n ->
      R e s -> m_reg s r = Some i ->
      iter_until fbody watch bound fclean n i e = Some e' ->
      exists s', sxuntil r mx body pre x (bound + 1) cl s s' /\ R e' s'.
    Proof.
      induction n as [|n IH]; intros i mx bound e s e' Hmx HR Hr Hit; cbn [iter_until] in Hit.
      - inversion Hit; subst. exists s. split; auto. apply sxu_max. rewrite Hr. f_equal. lia.
      - destruct (fbody i e) as [e1|] eqn:Hf; [|discriminate].
        destruct (watch e1) as [w|] eqn:Hw; [|discriminate].
        destruct (body_sim _ _ _ _ HR Hr Hf) as (s1 & Hs & HR1 & Hr1).
        destruct (watch_sim _ _ _ _ HR1 Hr1 Hw) as (s2 & Hp & HR2 & Hr2 & Hx).
        destruct (w <=? bound) eqn:Hle.
        + (* leave: value <= bound, i.e. value < bound + 1 *)
          inversion Hit; subst. exists s2. split; [|exact HR2].
          eapply sxu_exit with (v := i) (w := w); eauto; [lia|].
          apply Z.leb_le in Hle. apply Z.ltb_lt. lia.
        + destruct (fclean e1) as [e2|] eqn:Hc; [|discriminate].
          destruct (clean_sim _ _ _ _ HR2 Hr2 Hc) as (s3 & Hs3 & HR3 & Hr3).
          destruct (IH (i + 1) mx bound e2 (set_reg s3 r (i + 1)) e') as (s' & Hu & HR'); auto.
          * lia.
          * cbn [set_reg m_reg]. unfold upd_reg. rewrite reg_eqb_refl. reflexivity.
          * exists s'. split; [|exact HR'].
            eapply sxu_again with (v := i) (w := w) (v3 := i); eauto; [lia|].
            apply Z.leb_gt in Hle. apply Z.ltb_ge. lia.
    Qed.

    (* lower_loop_until: leave when the watched value is <= bound, else after maxit rounds;
       the cleanup runs only when another round follows *)
    Theorem lower_loop_until : forall maxit bound e s e',
      0 <= maxit -> R e s ->
      iter_until fbody watch bound fclean (Z.to_nat maxit) 0 e = Some e' ->
      exists s', sx1 (XUntil r maxit body pre x (bound + 1) cl) s s' /\ R e' s'.
    Proof.
      intros maxit bound e s e' Hm HR Hit.
      destruct (until_rounds (Z.to_nat maxit) 0 maxit bound e (set_reg s r 0) e') as (s' & Hu & HR'); auto.
      - rewrite Z2Nat.id by lia. lia.
      - cbn [set_reg m_reg]. unfold upd_reg. rewrite reg_eqb_refl. reflexivity.
      - exists s'. split; [apply sx_Until; exact Hu|exact HR'].
    Qed.
  End Until.
End Constructs.

(* ------------------------------------------------------------------ add and measure: the emitted instructions *)
From NQ Require Import Sdk.MemMgr Sdk.Lower.

Definition not_reg (o : rop) (t : reg) : Prop :=
  match o with PImm _ => True | PReg q => reg_eqb q t = false end.

Lemma rop_val_set_other : forall s o t v, not_reg o t -> rop_val (set_reg s t v) o = rop_val s o.
Proof.
  intros s o t v H. destruct o as [z|q]; [reflexivity|]. cbn [rop_val set_reg m_reg]. unfold upd_reg.
  cbn [not_reg] in H. rewrite H. reflexivity.
Qed.

Lemma reg_eqb_same : forall t, reg_eqb t t = true.
Proof. intros [bk k]. cbn. destruct bk; cbn; rewrite Nat.eqb_refl; reflexivity. Qed.

Lemma list_set_some : forall (l : list (option Z)) k x v,
  nth_error l k = Some x -> exists l', list_set l k v = Some l' /\ nth_error l' k = Some v /\
    List.length l' = List.length l.
Proof.
  induction l as [|y l IH]; intros [|k] x v H; cbn in *; try discriminate.
  - eexists. repeat split.
  - destruct (IH _ _ v H) as (l' & E & N & L). rewrite E. eexists. repeat split; cbn; auto.
Qed.

(* lower_add: load self into the temporary, add (modulo m) the other operand, store back:
   the entry becomes (self + other) [mod m]; nothing else in the arrays changes *)
Theorem lower_add : forall s t a ix y m l k v w z,
  m_arr s a = Some l -> zidx (rop_val s ix) = Some k -> nth_error l k = Some (Some v) ->
  rop_val s y = Some w -> not_reg ix t -> not_reg y t -> ev_sum v w m = Some z ->
  exists l' s',
    exec_instrs [ILoad t a ix; add_instr t t y m; IStore (PReg t) a ix] s = Some s' /\
    list_set l k (Some z) = Some l' /\ m_arr s' a = Some l' /\
    (forall b, b <> a -> m_arr s' b = m_arr s b) /\ m_trace s' = m_trace s.
Proof.
  intros s t a ix y m l k v w z Ha Hk Hv Hy Nix Ny Hs.
  destruct (list_set_some l k _ (Some z) Hv) as (l' & El & _ & _).
  exists l'. cbn [exec_instrs exec_instr]. rewrite Ha, Hk, Hv.
  set (s1 := set_reg s t v).
  assert (R1 : m_reg s1 t = Some v) by (unfold s1; cbn [set_reg m_reg]; unfold upd_reg; rewrite reg_eqb_same; reflexivity).
  assert (Y1 : rop_val s1 y = Some w) by (unfold s1; rewrite rop_val_set_other; auto).
  unfold ev_sum in Hs. destruct m as [m|]; cbn [add_instr exec_instr].
  - rewrite R1, Y1. destruct (m <=? 0)%Z; [discriminate|]. inversion Hs; subst.
    set (s2 := set_reg s1 t ((v + w) mod m)).
    assert (A2 : m_arr s2 a = Some l) by exact Ha.
    assert (K2 : zidx (rop_val s2 ix) = Some k).
    { unfold s2, s1. rewrite !rop_val_set_other; auto. }
    assert (T2 : rop_val s2 (PReg t) = Some ((v + w) mod m)).
    { unfold s2. cbn [rop_val set_reg m_reg]. unfold upd_reg. rewrite reg_eqb_same. reflexivity. }
    rewrite A2, K2, T2, El. eexists. split; [reflexivity|]. split; [reflexivity|].
    split; [cbn [set_arr m_arr]; unfold upd_nat; rewrite Nat.eqb_refl; reflexivity|].
    split; [|reflexivity].
    intros b Hb. cbn [set_arr m_arr]. unfold upd_nat.
    destruct (Nat.eqb b a) eqn:E; [apply Nat.eqb_eq in E; contradiction|reflexivity].
  - rewrite R1, Y1. inversion Hs; subst.
    set (s2 := set_reg s1 t (v + w)).
    assert (A2 : m_arr s2 a = Some l) by exact Ha.
    assert (K2 : zidx (rop_val s2 ix) = Some k).
    { unfold s2, s1. rewrite !rop_val_set_other; auto. }
    assert (T2 : rop_val s2 (PReg t) = Some (v + w)).
    { unfold s2. cbn [rop_val set_reg m_reg]. unfold upd_reg. rewrite reg_eqb_same. reflexivity. }
    rewrite A2, K2, T2, El. eexists. split; [reflexivity|]. split; [reflexivity|].
    split; [cbn [set_arr m_arr]; unfold upd_nat; rewrite Nat.eqb_refl; reflexivity|].
    split; [|reflexivity].
    intros b Hb. cbn [set_arr m_arr]. unfold upd_nat.
    destruct (Nat.eqb b a) eqn:E; [apply Nat.eqb_eq in E; contradiction|reflexivity].
Qed.

(* lower_measure: the next scripted outcome lands in the chosen M register and in the array
   entry the program named; the event carries the qubit's allocation instance *)
Theorem lower_measure : forall s id mreg a ix l k o,
  m_alloc s id = true -> m_arr s a = Some l -> (k < List.length l)%nat ->
  zidx (rop_val s ix) = Some k -> not_reg ix (Rg BQ 0) -> not_reg ix (Rg BM mreg) ->
  o = match m_script s with [] => 0 | x :: _ => x end ->
  exists l' s',
    exec_instrs [ISet (Rg BQ 0) (Z.of_nat id); IMeas (Rg BQ 0) (Rg BM mreg);
                 IStore (PReg (Rg BM mreg)) a ix] s = Some s' /\
    list_set l k (Some o) = Some l' /\ m_arr s' a = Some l' /\
    m_reg s' (Rg BM mreg) = Some o /\
    m_trace s' = TMeas (m_inst s id) o :: m_trace s /\ m_script s' = tl (m_script s).
Proof.
  intros s id mreg a ix l k o Hal Ha Hk Hix N1 N2 Ho.
  destruct (nth_error l k) as [x|] eqn:Hn; [|apply nth_error_None in Hn; lia].
  destruct (list_set_some l k x (Some o) Hn) as (l' & El & _ & _).
  exists l'.
  set (s1 := set_reg s (Rg BQ 0) (Z.of_nat id)).
  assert (E1 : exec_instr (ISet (Rg BQ 0) (Z.of_nat id)) s = Some s1) by reflexivity.
  assert (Q1 : qid s1 (Rg BQ 0) = Some id).
  { unfold qid, s1. cbn [set_reg m_reg m_alloc]. unfold upd_reg. cbn [reg_eqb bank_eqb Nat.eqb andb zidx].
    destruct (Z.of_nat id <? 0)%Z eqn:E; [apply Z.ltb_lt in E; lia|]. rewrite Nat2Z.id, Hal. reflexivity. }
  set (s2 := mkM (upd_reg (m_reg s1) (Rg BM mreg) o) (m_arr s1) (m_alloc s1) (m_inst s1) (m_n s1)
                 (tl (m_script s1)) (TMeas (m_inst s1 id) o :: m_trace s1)).
  assert (E2 : exec_instr (IMeas (Rg BQ 0) (Rg BM mreg)) s1 = Some s2).
  { cbn [exec_instr]. rewrite Q1. unfold s2. subst o. reflexivity. }
  assert (A2 : m_arr s2 a = Some l) by exact Ha.
  assert (K2 : zidx (rop_val s2 ix) = Some k).
  { rewrite <- Hix. f_equal. destruct ix as [z|q]; [reflexivity|].
    cbn [not_reg] in N1, N2. unfold s2, s1. cbn [rop_val m_reg set_reg]. unfold upd_reg. rewrite N2, N1. reflexivity. }
  assert (T2 : rop_val s2 (PReg (Rg BM mreg)) = Some o).
  { unfold s2. cbn [rop_val m_reg]. unfold upd_reg. rewrite reg_eqb_same. reflexivity. }
  assert (E3 : exec_instr (IStore (PReg (Rg BM mreg)) a ix) s2 = Some (set_arr s2 a l')).
  { cbn [exec_instr]. rewrite A2, K2, T2, El. reflexivity. }
  exists (set_arr s2 a l'). cbn [exec_instrs]. rewrite E1, E2, E3.
  split; [reflexivity|]. split; [exact El|].
  split; [cbn [set_arr m_arr]; unfold upd_nat; rewrite Nat.eqb_refl; reflexivity|].
  split; [cbn [set_arr m_reg]; unfold s2; cbn [m_reg]; unfold upd_reg; rewrite reg_eqb_same; reflexivity|].
  split; reflexivity.
Qed.
