(* TextProofs.v — C17: a printed NetQASM instruction parses back to itself.
   Character-level proofs over Lang/Text.v (printer, tokeniser, operand
   parser), then the assembler passes of Lang/Asm.v on the one-command program,
   then the text -> binary -> text stability corollary. *)
From Coq Require Import ZArith List Bool String Ascii Lia.
From Coq Require Import DecimalString DecimalZ DecimalPos DecimalFacts.
From NQ Require Import Base.Bits Lang.Codec Lang.Asm Lang.AsmSem Lang.Text Lang.AsmCheck.
From NQ Require Import Proofs.CodecProofs.
Import ListNotations.
Open Scope Z_scope.

(* ================= strings ================= *)

Lemma app_assoc_s (a b c : string) : (a +++ b) +++ c = a +++ (b +++ c).
Proof. induction a as [|x a IH]; cbn; [reflexivity|now rewrite IH]. Qed.

Lemma app_nil_r_s (a : string) : a +++ EmptyString = a.
Proof. induction a as [|x a IH]; cbn; [reflexivity|now rewrite IH]. Qed.

Lemma length_app_s (a b : string) :
  String.length (a +++ b) = (String.length a + String.length b)%nat.
Proof. induction a as [|x a IH]; cbn; [reflexivity|now rewrite IH]. Qed.

Lemma sall_app p (a b : string) : sall p (a +++ b) = sall p a && sall p b.
Proof. induction a as [|x a IH]; cbn; [reflexivity|]. now rewrite IH, andb_assoc. Qed.

Lemma sall_impl (p q : ascii -> bool) s :
  (forall c, p c = true -> q c = true) -> sall p s = true -> sall q s = true.
Proof.
  intros Hpq. induction s as [|c s IH]; cbn; [reflexivity|].
  rewrite !andb_true_iff. intros [Hc Hs]. split; auto.
Qed.

Lemma sexists_sall_false p s :
  sall (fun c => negb (p c)) s = true -> sexists p s = false.
Proof.
  induction s as [|c s IH]; cbn; [reflexivity|].
  rewrite andb_true_iff, negb_true_iff. intros [Hc Hs]. now rewrite Hc, IH.
Qed.

Lemma sexists_mid p x c y : p c = true -> sexists p (x +++ String c y) = true.
Proof.
  intros Hc. induction x as [|a x IH]; cbn; [now rewrite Hc|].
  rewrite IH. apply orb_true_r.
Qed.

(* ---- lstrip / rstrip / strip ---- *)

Lemma lstrip_head p c r : p c = false -> lstrip p (String c r) = String c r.
Proof. intros H. cbn. now rewrite H. Qed.

Lemma rstrip_cons p c r :
  rstrip p (String c r) =
  match rstrip p r with
  | EmptyString => if p c then EmptyString else String c EmptyString
  | r' => String c r'
  end.
Proof. reflexivity. Qed.

Definition last_sat (q : ascii -> bool) (s : string) : Prop :=
  forall c, last_char s = Some c -> q c = true.

Lemma last_char_cons a b r : last_char (String a (String b r)) = last_char (String b r).
Proof. reflexivity. Qed.

Lemma last_char_app x c y : last_char (x +++ String c y) = last_char (String c y).
Proof.
  induction x as [|a x IH]; [reflexivity|].
  destruct x as [|b x]; [reflexivity|].
  change (String a (String b x) +++ String c y) with (String a (String b (x +++ String c y))).
  rewrite last_char_cons. exact IH.
Qed.

Lemma last_char_snoc x c : last_char (x +++ s1 c) = Some c.
Proof. unfold s1. rewrite last_char_app. reflexivity. Qed.

Lemma last_sat_app q x y : y <> EmptyString -> last_sat q y -> last_sat q (x +++ y).
Proof.
  intros Hy H. destruct y as [|c y]; [congruence|].
  unfold last_sat. rewrite last_char_app. exact H.
Qed.

Lemma last_sat_snoc (q : ascii -> bool) x c : q c = true -> last_sat q (x +++ s1 c).
Proof. intros H d. rewrite last_char_snoc. congruence. Qed.

Lemma last_sat_sall q s : sall q s = true -> last_sat q s.
Proof.
  induction s as [|a s IH]; [intros _ c; discriminate|].
  cbn [sall]. rewrite andb_true_iff. intros [Ha Hs].
  destruct s as [|b s]; [intros c [= <-]; exact Ha|].
  unfold last_sat. rewrite last_char_cons. exact (IH Hs).
Qed.

Lemma last_sat_impl (p q : ascii -> bool) s :
  (forall c, p c = true -> q c = true) -> last_sat p s -> last_sat q s.
Proof. intros Hpq H c Hc. auto. Qed.

Lemma rstrip_last p s : last_sat (fun c => negb (p c)) s -> rstrip p s = s.
Proof.
  induction s as [|a s IH]; [reflexivity|].
  intros H. rewrite rstrip_cons.
  destruct s as [|b s].
  - cbn. specialize (H a eq_refl). apply negb_true_iff in H. now rewrite H.
  - rewrite IH; [reflexivity|]. unfold last_sat in *. rewrite last_char_cons in H. exact H.
Qed.

Lemma rstrip_snoc p s c : p c = true -> rstrip p (s +++ s1 c) = rstrip p s.
Proof.
  intros Hc. induction s as [|a s IH]; [cbn; now rewrite Hc|].
  change (String a s +++ s1 c) with (String a (s +++ s1 c)).
  rewrite !rstrip_cons, IH. reflexivity.
Qed.

Lemma ends_with_last a s : last_sat (fun c => negb (Ascii.eqb c a)) s -> ends_with a s = false.
Proof.
  unfold ends_with, last_sat. destruct (last_char s) as [c|]; [|reflexivity].
  intros H. specialize (H c eq_refl). now apply negb_true_iff in H.
Qed.

Lemma ends_with_snoc x c : ends_with c (x +++ s1 c) = true.
Proof. unfold ends_with. rewrite last_char_snoc. apply Ascii.eqb_refl. Qed.

Lemma strip_id p s :
  sall (fun c => negb (p c)) s = true -> strip p s = s.
Proof.
  intros H. unfold strip.
  assert (Hl : lstrip p s = s).
  { destruct s as [|c r]; [reflexivity|]. cbn in H. apply andb_true_iff in H as [H _].
    apply negb_true_iff in H. now apply lstrip_head. }
  rewrite Hl. apply rstrip_last. now apply last_sat_sall.
Qed.

Lemma strip_wrap p a b x :
  p a = true -> p b = true -> sall (fun c => negb (p c)) x = true ->
  strip p (String a (x +++ s1 b)) = x.
Proof.
  intros Ha Hb Hx. unfold strip. cbn [lstrip]. rewrite Ha.
  destruct x as [|c x].
  - cbn. now rewrite Hb.
  - pose proof Hx as Hx'. cbn [sall] in Hx'. apply andb_true_iff in Hx' as [Hc _].
    apply negb_true_iff in Hc.
    change (String c x +++ s1 b) with (String c (x +++ s1 b)).
    rewrite lstrip_head by exact Hc.
    change (String c (x +++ s1 b)) with (String c x +++ s1 b).
    rewrite rstrip_snoc by exact Hb.
    apply rstrip_last. now apply last_sat_sall.
Qed.

(* ---- find_char / take / drop / split_char ---- *)

Definition nochar (a : ascii) (s : string) : bool := sall (fun c => negb (Ascii.eqb c a)) s.

Lemma find_char_none a s : nochar a s = true -> find_char a s = None.
Proof.
  unfold nochar. induction s as [|c s IH]; cbn; [reflexivity|].
  rewrite andb_true_iff, negb_true_iff. intros [Hc Hs]. now rewrite Hc, IH.
Qed.

Lemma find_char_mid a x y :
  nochar a x = true -> find_char a (x +++ String a y) = Some (String.length x).
Proof.
  unfold nochar. induction x as [|c x IH]; cbn.
  - now rewrite Ascii.eqb_refl.
  - rewrite andb_true_iff, negb_true_iff. intros [Hc Hs]. now rewrite Hc, IH.
Qed.

Lemma take_app x y : take (String.length x) (x +++ y) = x.
Proof.
  induction x as [|c x IH]; cbn; [now destruct y|now rewrite IH].
Qed.

Lemma drop_app x y : drop (String.length x) (x +++ y) = y.
Proof. induction x as [|c x IH]; cbn; [reflexivity|exact IH]. Qed.

Lemma split_char_none a s : nochar a s = true -> split_char a s = [s].
Proof.
  unfold nochar. induction s as [|c s IH]; cbn; [reflexivity|].
  rewrite andb_true_iff, negb_true_iff. intros [Hc Hs]. now rewrite Hc, IH.
Qed.

Lemma split_char_mid a x y :
  nochar a x = true -> split_char a (x +++ String a y) = x :: split_char a y.
Proof.
  unfold nochar. induction x as [|c x IH]; cbn.
  - now rewrite Ascii.eqb_refl.
  - rewrite andb_true_iff, negb_true_iff. intros [Hc Hs]. now rewrite Hc, IH.
Qed.

Lemma find_str_s1 a s : find_str (s1 a) s = find_char a s.
Proof.
  induction s as [|c s IH]; [reflexivity|].
  cbn [find_str find_char]. unfold s1 at 1. cbn [String.prefix].
  destruct (ascii_dec a c) as [->|Hne].
  - rewrite Ascii.eqb_refl. now destruct s.
  - destruct (Ascii.eqb_spec c a) as [->|_]; [congruence|]. now rewrite IH.
Qed.

(* ================= characters ================= *)

(* characters of a printed register or number *)
Definition is_tok_char (c : ascii) : bool := is_alpha c || is_digit c || Ascii.eqb c MINUS.
(* characters of a printed operand *)
Definition is_op_char (c : ascii) : bool :=
  is_tok_char c || Ascii.eqb c AT || Ascii.eqb c LBR || Ascii.eqb c RBR || Ascii.eqb c COLON.
(* possible last characters of a printed instruction *)
Definition is_end_char (c : ascii) : bool := is_mn_char c || is_tok_char c || Ascii.eqb c RBR.

Lemma tok_char_facts c :
  is_tok_char c = true ->
  is_space c = false /\ Ascii.eqb c SP = false /\ Ascii.eqb c LPAR = false /\
  Ascii.eqb c LBR = false /\ Ascii.eqb c RBR = false /\ Ascii.eqb c COLON = false /\
  Ascii.eqb c AT = false /\ is_one_of LBR RBR c = false /\ is_char COLON c = false /\
  is_char AT c = false.
Proof.
  destruct c as [[] [] [] [] [] [] [] []]; vm_compute; intros H;
    first [discriminate H | repeat split].
Qed.

Lemma op_char_facts c :
  is_op_char c = true ->
  is_space c = false /\ Ascii.eqb c SP = false /\ Ascii.eqb c LPAR = false.
Proof.
  destruct c as [[] [] [] [] [] [] [] []]; vm_compute; intros H;
    first [discriminate H | repeat split].
Qed.

Lemma mn_char_facts c :
  is_mn_char c = true ->
  is_space c = false /\ Ascii.eqb c SP = false /\ Ascii.eqb c LPAR = false /\
  Ascii.eqb c COLON = false.
Proof.
  destruct c as [[] [] [] [] [] [] [] []]; vm_compute; intros H;
    first [discriminate H | repeat split].
Qed.

Lemma end_char_facts c :
  is_end_char c = true -> is_space c = false /\ Ascii.eqb c COLON = false.
Proof.
  destruct c as [[] [] [] [] [] [] [] []]; vm_compute; intros H;
    first [discriminate H | repeat split].
Qed.

Lemma alpha_facts c :
  is_alpha c = true ->
  is_digit c = false /\ Ascii.eqb c MINUS = false /\ Ascii.eqb c AT = false /\ is_tok_char c = true.
Proof.
  destruct c as [[] [] [] [] [] [] [] []]; vm_compute; intros H;
    first [discriminate H | repeat split].
Qed.

Lemma digit_facts c :
  is_digit c = true -> Ascii.eqb c MINUS = false /\ Ascii.eqb c AT = false /\ is_tok_char c = true.
Proof.
  destruct c as [[] [] [] [] [] [] [] []]; vm_compute; intros H;
    first [discriminate H | repeat split].
Qed.

(* ================= decimal numbers ================= *)

Lemma digits_string_of_uint d : sall is_digit (NilEmpty.string_of_uint d) = true.
Proof. induction d; cbn [NilEmpty.string_of_uint sall]; try rewrite IHd; reflexivity. Qed.

Lemma to_int_not_nil z : Z.to_int z <> Decimal.Pos Decimal.Nil /\ Z.to_int z <> Decimal.Neg Decimal.Nil.
Proof.
  destruct z as [|p|p]; cbn; split; try discriminate;
    intros [= H]; exact (DecimalPos.Unsigned.to_uint_nonnil p H).
Qed.

(* the printed form of an integer: optional '-', then a non-empty digit string *)
Lemma z2s_shape z :
  exists c r, sall is_digit (String c r) = true /\
    (z2s z = String c r \/ z2s z = String MINUS (String c r)).
Proof.
  assert (Hu : forall d, d <> Decimal.Nil ->
     exists c r, NilZero.string_of_uint d = String c r /\ sall is_digit (String c r) = true).
  { intros d Hd. pose proof (digits_string_of_uint d) as Hs.
    destruct d; try congruence; cbn [NilZero.string_of_uint];
      cbn [NilEmpty.string_of_uint] in *; eauto. }
  unfold z2s. destruct z as [|p|p]; cbn [Z.to_int NilZero.string_of_int].
  - exists "0"%char, EmptyString. split; [reflexivity|left; reflexivity].
  - destruct (Hu _ (DecimalPos.Unsigned.to_uint_nonnil p)) as (c & r & E & Hs).
    exists c, r. split; [exact Hs|left; exact E].
  - destruct (Hu _ (DecimalPos.Unsigned.to_uint_nonnil p)) as (c & r & E & Hs).
    exists c, r. split; [exact Hs|right]. rewrite E. reflexivity.
Qed.

Lemma parse_int_z2s z : parse_int (z2s z) = Some z.
Proof.
  unfold parse_int.
  assert (Hn : is_number (z2s z) = true).
  { destruct (z2s_shape z) as (c & r & Hs & [E|E]); rewrite E; unfold is_number.
    - pose proof Hs as Hs'. cbn [sall] in Hs'. apply andb_true_iff in Hs' as [Hc _].
      destruct (digit_facts c Hc) as (Hm & _). rewrite Hm. exact Hs.
    - rewrite Ascii.eqb_refl. exact Hs. }
  rewrite Hn. unfold z2s.
  destruct (to_int_not_nil z) as [H1 H2].
  rewrite (NilZero.isi _ H1 H2). cbn [option_map]. now rewrite DecimalZ.of_to.
Qed.

Lemma z2s_tok z : sall is_tok_char (z2s z) = true.
Proof.
  assert (Hd : forall s, sall is_digit s = true -> sall is_tok_char s = true).
  { intros s. apply sall_impl. intros c Hc. now destruct (digit_facts c Hc) as (_ & _ & H). }
  destruct (z2s_shape z) as (c & r & Hs & [E|E]); rewrite E.
  - now apply Hd.
  - cbn [sall]. change (sall is_tok_char (String c r)) with (is_tok_char c && sall is_tok_char r).
    apply Hd in Hs. cbn [sall] in Hs. rewrite Hs. reflexivity.
Qed.

Lemma z2s_nonempty z : z2s z <> EmptyString.
Proof. destruct (z2s_shape z) as (c & r & _ & [E|E]); rewrite E; discriminate. Qed.

(* a letter followed by anything is not a number *)
Lemma parse_int_alpha c r : is_alpha c = true -> parse_int (String c r) = None.
Proof.
  intros Hc. destruct (alpha_facts c Hc) as (Hd & Hm & _).
  unfold parse_int, is_number. rewrite Hm. cbn [sall]. rewrite Hd. reflexivity.
Qed.

(* ================= register banks ================= *)

Lemma bank_char_in bk b c : bank_char bk b = Some c -> In (b, c) bk.
Proof.
  induction bk as [|[v c'] bk IH]; cbn [bank_char]; [discriminate|].
  destruct (Z.eqb_spec v b) as [->|_].
  - intros [= ->]. now left.
  - intros H. right. auto.
Qed.

Lemma bank_char_alpha bk b c :
  banks_ok bk = true -> bank_char bk b = Some c -> is_alpha c = true.
Proof.
  unfold banks_ok. rewrite !andb_true_iff. intros [[Ha _] _] Hb.
  rewrite forallb_forall in Ha. exact (Ha _ (bank_char_in _ _ _ Hb)).
Qed.

Lemma bank_of_char_char bk b c :
  banks_ok bk = true -> bank_char bk b = Some c -> bank_of_char bk c = Some b.
Proof.
  unfold banks_ok. rewrite !andb_true_iff. intros [[_ _] Hnd].
  induction bk as [|[v c'] bk IH]; cbn [bank_char bank_of_char]; [discriminate|].
  cbn [map nodup_z snd] in Hnd. apply andb_true_iff in Hnd as [Hx Hnd].
  apply negb_true_iff in Hx.
  destruct (Z.eqb_spec v b) as [->|Hvb].
  - intros [= ->]. now rewrite Ascii.eqb_refl.
  - intros Hb. destruct (Ascii.eqb_spec c' c) as [->|_]; [|auto].
    exfalso. apply bank_char_in in Hb.
    assert (He : existsb (Z.eqb (Z.of_nat (nat_of_ascii c)))
                   (map (fun p : Z * ascii => Z.of_nat (nat_of_ascii (snd p))) bk) = true).
    { apply existsb_exists. exists (Z.of_nat (nat_of_ascii c)). split; [|apply Z.eqb_refl].
      apply in_map_iff. exists (b, c). split; [reflexivity|exact Hb]. }
    congruence.
Qed.

(* ================= operands ================= *)

Lemma pp_reg_tok bk b i c :
  is_alpha c = true -> bank_char bk b = Some c ->
  pp_reg bk b i = String c (z2s i) /\ sall is_tok_char (pp_reg bk b i) = true.
Proof.
  intros Ha Hb. unfold pp_reg. rewrite Hb. split; [reflexivity|].
  cbn [sall]. rewrite z2s_tok. destruct (alpha_facts c Ha) as (_ & _ & _ & ->). reflexivity.
Qed.

Lemma parse_val_num bk z : parse_val bk (z2s z) = Some (VLit z).
Proof. unfold parse_val. now rewrite parse_int_z2s. Qed.

Lemma parse_val_reg bk b i c :
  banks_ok bk = true -> bank_char bk b = Some c ->
  parse_val bk (pp_reg bk b i) = Some (VReg b i).
Proof.
  intros Hbk Hb. pose proof (bank_char_alpha _ _ _ Hbk Hb) as Ha.
  destruct (pp_reg_tok bk b i c Ha Hb) as [-> _].
  unfold parse_val. rewrite (parse_int_alpha _ _ Ha).
  unfold parse_register. rewrite (bank_of_char_char _ _ _ Hbk Hb), parse_int_z2s. reflexivity.
Qed.

Lemma sall_tok_no (q : ascii -> bool) s :
  (forall c, is_tok_char c = true -> q c = true) -> sall is_tok_char s = true -> sall q s = true.
Proof. apply sall_impl. Qed.

Lemma tok_nochar a s :
  (forall c, is_tok_char c = true -> Ascii.eqb c a = false) ->
  sall is_tok_char s = true -> nochar a s = true.
Proof.
  intros H. unfold nochar. apply sall_impl. intros c Hc. now rewrite (H c Hc).
Qed.

Lemma tok_nospace s : sall is_tok_char s = true -> sall (fun c => negb (is_space c)) s = true.
Proof. apply sall_impl. intros c Hc. destruct (tok_char_facts c Hc) as (-> & _). reflexivity. Qed.

Lemma tok_nobr s : sall is_tok_char s = true -> sall (fun c => negb (is_one_of LBR RBR c)) s = true.
Proof.
  apply sall_impl. intros c Hc.
  destruct (tok_char_facts c Hc) as (_ & _ & _ & _ & _ & _ & _ & -> & _). reflexivity.
Qed.

Lemma tok_nocolon_p s : sall is_tok_char s = true -> sall (fun c => negb (is_char COLON c)) s = true.
Proof.
  apply sall_impl. intros c Hc.
  destruct (tok_char_facts c Hc) as (_ & _ & _ & _ & _ & _ & _ & _ & -> & _). reflexivity.
Qed.

(* "@a" followed by a bracketed index: the split done by parse_address *)
Lemma split_addr a x :
  split_of_bracket LBR RBR (String AT (z2s a) +++ String LBR (x +++ s1 RBR))
  = Some (String AT (z2s a), String LBR (x +++ s1 RBR)).
Proof.
  unfold split_of_bracket.
  change (String AT (z2s a) +++ String LBR (x +++ s1 RBR))
    with (String AT (z2s a +++ String LBR (x +++ s1 RBR))).
  cbn [find_char]. change (Ascii.eqb AT LBR) with false. cbv iota.
  rewrite find_char_mid.
  2:{ apply tok_nochar; [|apply z2s_tok]. intros c Hc.
      now destruct (tok_char_facts c Hc) as (_ & _ & _ & -> & _). }
  cbn [option_map].
  assert (He : ends_with RBR (String AT (z2s a +++ String LBR (x +++ s1 RBR))) = true).
  { replace (String AT (z2s a +++ String LBR (x +++ s1 RBR)))
      with ((String AT (z2s a) +++ String LBR x) +++ s1 RBR).
    - apply ends_with_snoc.
    - rewrite app_assoc_s. reflexivity. }
  rewrite He. cbn [take drop]. now rewrite take_app, drop_app.
Qed.

Lemma lstrip_at_tok s : sall is_tok_char s = true -> lstrip (is_char AT) s = s.
Proof.
  destruct s as [|c r]; [reflexivity|]. cbn [sall]. rewrite andb_true_iff. intros [Hc _].
  apply lstrip_head. now destruct (tok_char_facts c Hc) as (_ & _ & _ & _ & _ & _ & _ & _ & _ & ->).
Qed.

Lemma starts_at_tok s : sall is_tok_char s = true -> starts_with AT s = false.
Proof.
  destruct s as [|c r]; [reflexivity|]. cbn [sall starts_with]. rewrite andb_true_iff. intros [Hc _].
  now destruct (tok_char_facts c Hc) as (_ & _ & _ & _ & _ & _ & -> & _).
Qed.

(* parse_address on "@a[x]": the base is the number a, the index string is x *)
Lemma parse_address_idx bk a x :
  sall is_tok_char x = true \/ (exists y z, x = y +++ String COLON z /\ sall is_tok_char y = true /\ sall is_tok_char z = true) ->
  x <> EmptyString ->
  parse_address bk (String AT (z2s a) +++ String LBR (x +++ s1 RBR)) =
  if sexists (is_char COLON) x then
    match split_char COLON x with
    | [p; q] =>
        match parse_val bk (strip_ws p), parse_val bk (strip_ws q) with
        | Some v1, Some v2 => Some (ASlice a v1 v2)
        | _, _ => None
        end
    | _ => None
    end
  else option_map (AEntry a) (parse_val bk x).
Proof.
  intros Hx Hne. unfold parse_address. rewrite split_addr.
  cbn [lstrip]. change (is_char AT AT) with true. cbv iota.
  rewrite lstrip_at_tok by apply z2s_tok. rewrite parse_val_num.
  assert (Hbr : sall (fun c => negb (is_one_of LBR RBR c)) x = true).
  { destruct Hx as [Hx|(y & z & -> & Hy & Hz)]; [now apply tok_nobr|].
    rewrite sall_app. cbn [sall]. rewrite (tok_nobr _ Hy), (tok_nobr _ Hz). reflexivity. }
  assert (Hsp : sall (fun c => negb (is_space c)) x = true).
  { destruct Hx as [Hx|(y & z & -> & Hy & Hz)]; [now apply tok_nospace|].
    rewrite sall_app. cbn [sall]. rewrite (tok_nospace _ Hy), (tok_nospace _ Hz). reflexivity. }
  assert (Hidx : strip_ws (strip (is_one_of LBR RBR) (String LBR (x +++ s1 RBR))) = x).
  { rewrite strip_wrap; [|reflexivity|reflexivity|exact Hbr]. exact (strip_id _ _ Hsp). }
  cbv zeta. rewrite Hidx. reflexivity.
Qed.

Theorem parse_operand_pp bk o :
  banks_ok bk = true -> printable_op bk o = true ->
  parse_operand bk (pp_operand bk o) = Some (embed_op o).
Proof.
  intros Hbk Hp. destruct o as [b i|v|a|a b i|a b1 i1 b2 i2]; cbn [pp_operand embed_op printable_op] in *.
  - destruct (bank_char bk b) as [c|] eqn:Hb; [|discriminate].
    pose proof (bank_char_alpha _ _ _ Hbk Hb) as Ha.
    destruct (pp_reg_tok bk b i c Ha Hb) as [_ Ht].
    unfold parse_operand. rewrite (starts_at_tok _ Ht), (parse_val_reg bk b i c Hbk Hb). reflexivity.
  - unfold parse_operand. rewrite (starts_at_tok _ (z2s_tok v)), parse_val_num. reflexivity.
  - unfold parse_operand. cbn [starts_with]. rewrite Ascii.eqb_refl.
    unfold parse_address, split_of_bracket. cbn [find_char]. change (Ascii.eqb AT LBR) with false. cbv iota.
    rewrite find_char_none.
    2:{ apply tok_nochar; [|apply z2s_tok]. intros c Hc.
        now destruct (tok_char_facts c Hc) as (_ & _ & _ & -> & _). }
    cbn [option_map lstrip]. change (is_char AT AT) with true. cbv iota.
    rewrite lstrip_at_tok by apply z2s_tok. rewrite parse_val_num. reflexivity.
  - destruct (bank_char bk b) as [c|] eqn:Hb; [|discriminate].
    pose proof (bank_char_alpha _ _ _ Hbk Hb) as Ha.
    destruct (pp_reg_tok bk b i c Ha Hb) as [Hs Ht].
    unfold parse_operand.
    change (String AT (z2s a) +++ s1 LBR +++ pp_reg bk b i +++ s1 RBR)
      with (String AT (z2s a +++ String LBR (pp_reg bk b i +++ s1 RBR))).
    cbn [starts_with]. rewrite Ascii.eqb_refl.
    change (String AT (z2s a +++ String LBR (pp_reg bk b i +++ s1 RBR)))
      with (String AT (z2s a) +++ String LBR (pp_reg bk b i +++ s1 RBR)).
    rewrite parse_address_idx; [|left; exact Ht|rewrite Hs; discriminate].
    rewrite (sexists_sall_false _ _ (tok_nocolon_p _ Ht)).
    rewrite (parse_val_reg bk b i c Hbk Hb). reflexivity.
  - destruct (bank_char bk b1) as [c1|] eqn:Hb1; [|discriminate].
    destruct (bank_char bk b2) as [c2|] eqn:Hb2; [|discriminate].
    pose proof (bank_char_alpha _ _ _ Hbk Hb1) as Ha1.
    pose proof (bank_char_alpha _ _ _ Hbk Hb2) as Ha2.
    destruct (pp_reg_tok bk b1 i1 c1 Ha1 Hb1) as [Hs1 Ht1].
    destruct (pp_reg_tok bk b2 i2 c2 Ha2 Hb2) as [Hs2 Ht2].
    unfold parse_operand.
    replace (String AT (z2s a) +++ s1 LBR +++ pp_reg bk b1 i1 +++ s1 COLON +++ pp_reg bk b2 i2 +++ s1 RBR)
      with (String AT (z2s a) +++ String LBR ((pp_reg bk b1 i1 +++ String COLON (pp_reg bk b2 i2)) +++ s1 RBR)).
    2:{ rewrite app_assoc_s. reflexivity. }
    set (x := pp_reg bk b1 i1 +++ String COLON (pp_reg bk b2 i2)).
    change (String AT (z2s a) +++ String LBR (x +++ s1 RBR))
      with (String AT (z2s a +++ String LBR (x +++ s1 RBR))) at 1.
    cbn [starts_with]. rewrite Ascii.eqb_refl.
    rewrite parse_address_idx.
    2:{ right. exists (pp_reg bk b1 i1), (pp_reg bk b2 i2). auto. }
    2:{ unfold x. rewrite Hs1. discriminate. }
    unfold x. rewrite sexists_mid by reflexivity.
    rewrite split_char_mid.
    2:{ apply tok_nochar; [|exact Ht1]. intros c Hc.
        now destruct (tok_char_facts c Hc) as (_ & _ & _ & _ & _ & -> & _). }
    rewrite split_char_none.
    2:{ apply tok_nochar; [|exact Ht2]. intros c Hc.
        now destruct (tok_char_facts c Hc) as (_ & _ & _ & _ & _ & -> & _). }
    unfold strip_ws. rewrite !strip_id by now apply tok_nospace.
    rewrite (parse_val_reg bk b1 i1 c1 Hbk Hb1), (parse_val_reg bk b2 i2 c2 Hbk Hb2). reflexivity.
Qed.

(* ================= tokeniser ================= *)

Fixpoint join_sp (ws : list string) : string :=
  match ws with
  | [] => EmptyString
  | w :: r => w +++ String SP (join_sp r)
  end.

Lemma gbw_unfold fuel open close line :
  line <> EmptyString ->
  gbw_loop (S fuel) open close line =
  let first_sep := find_char SP line in
  let first_open := find_char open line in
  let bracketed :=
    match first_open, first_sep with
    | Some b, Some s => Nat.ltb b s
    | Some _, None => false
    | None, _ => false
    end in
  let end_string := if bracketed then String close (s1 SP) else s1 SP in
  match find_str end_string line with
  | None => None
  | Some e =>
      let n := String.length end_string in
      match gbw_loop fuel open close (drop (e + n) line) with
      | Some ws => Some (take (e + n - 1) line :: ws)
      | None => None
      end
  end.
Proof. destruct line; [congruence|reflexivity]. Qed.

Lemma gbw_join open close ws : forall fuel,
  Forall (fun w => nochar SP w = true) ws ->
  nochar open (join_sp ws) = true ->
  (List.length ws <= fuel)%nat ->
  gbw_loop fuel open close (join_sp ws) = Some ws.
Proof.
  induction ws as [|w ws IH]; intros fuel Hsp Hop Hf.
  - destruct fuel; reflexivity.
  - destruct fuel as [|fuel]; [cbn in Hf; lia|].
    inversion Hsp as [|? ? Hw Hws]; subst.
    cbn [join_sp] in *.
    rewrite gbw_unfold by (destruct w; discriminate).
    cbv zeta. rewrite (find_char_none _ _ Hop).
    rewrite find_str_s1, (find_char_mid _ _ _ Hw).
    change (String.length (s1 SP)) with 1%nat.
    replace (String.length w + 1 - 1)%nat with (String.length w) by lia.
    replace (String.length w + 1)%nat with (S (String.length w)) by lia.
    rewrite take_app.
    assert (Hd : drop (S (String.length w)) (w +++ String SP (join_sp ws)) = join_sp ws).
    { clear. induction w as [|c w IHw]; [reflexivity|exact IHw]. }
    rewrite Hd, IH; [reflexivity|exact Hws| |cbn in Hf; lia].
    unfold nochar in *. rewrite sall_app in Hop. cbn [sall] in Hop.
    apply andb_true_iff in Hop as [_ Hop]. apply andb_true_iff in Hop as [_ Hop]. exact Hop.
Qed.

Lemma length_join_sp ws : (List.length ws <= String.length (join_sp ws))%nat.
Proof.
  induction ws as [|w ws IH]; [cbn; lia|].
  cbn [join_sp List.length]. rewrite length_app_s. cbn [String.length]. lia.
Qed.

Lemma join_sp_ops bk mn ops :
  (mn +++ pp_operands bk ops) +++ s1 SP = join_sp (mn :: map (pp_operand bk) ops).
Proof.
  revert mn. induction ops as [|o ops IH]; intros mn.
  - cbn. now rewrite app_nil_r_s.
  - cbn [pp_operands map].
    change (String SP (pp_operand bk o) +++ pp_operands bk ops)
      with (String SP (pp_operand bk o +++ pp_operands bk ops)).
    rewrite app_assoc_s.
    change (String SP (pp_operand bk o +++ pp_operands bk ops) +++ s1 SP)
      with (String SP ((pp_operand bk o +++ pp_operands bk ops) +++ s1 SP)).
    rewrite IH. reflexivity.
Qed.

(* characters of printed operands *)
Lemma tok_op s : sall is_tok_char s = true -> sall is_op_char s = true.
Proof. apply sall_impl. intros c Hc. unfold is_op_char. now rewrite Hc. Qed.

Lemma pp_operand_chars bk o :
  banks_ok bk = true -> printable_op bk o = true ->
  sall is_op_char (pp_operand bk o) = true /\ last_sat is_end_char (pp_operand bk o).
Proof.
  assert (Hend : forall s, sall is_tok_char s = true -> last_sat is_end_char s).
  { intros s Hs. apply last_sat_sall. revert Hs. apply sall_impl.
    intros c Hc. unfold is_end_char. rewrite Hc. now rewrite orb_true_r. }
  intros Hbk Hp. destruct o as [b i|v|a|a b i|a b1 i1 b2 i2]; cbn [pp_operand printable_op] in *.
  - destruct (bank_char bk b) as [c|] eqn:Hb; [|discriminate].
    destruct (pp_reg_tok bk b i c (bank_char_alpha _ _ _ Hbk Hb) Hb) as [_ Ht].
    split; [now apply tok_op|now apply Hend].
  - split; [apply tok_op, z2s_tok|apply Hend, z2s_tok].
  - split.
    + cbn [sall]. now rewrite (tok_op _ (z2s_tok a)).
    + change (String AT (z2s a)) with (s1 AT +++ z2s a).
      apply last_sat_app; [apply z2s_nonempty|apply Hend, z2s_tok].
  - destruct (bank_char bk b) as [c|] eqn:Hb; [|discriminate].
    destruct (pp_reg_tok bk b i c (bank_char_alpha _ _ _ Hbk Hb) Hb) as [_ Ht].
    split.
    + change (String AT (z2s a) +++ s1 LBR +++ pp_reg bk b i +++ s1 RBR)
        with (String AT (z2s a +++ String LBR (pp_reg bk b i +++ s1 RBR))).
      cbn [sall]. rewrite sall_app. cbn [sall]. rewrite sall_app.
      rewrite (tok_op _ (z2s_tok a)), (tok_op _ Ht). reflexivity.
    + apply last_sat_app; [discriminate|]. apply last_sat_app; [destruct (pp_reg bk b i); discriminate|].
      change (s1 RBR) with (EmptyString +++ s1 RBR). now apply last_sat_snoc.
  - destruct (bank_char bk b1) as [c1|] eqn:Hb1; [|discriminate].
    destruct (bank_char bk b2) as [c2|] eqn:Hb2; [|discriminate].
    destruct (pp_reg_tok bk b1 i1 c1 (bank_char_alpha _ _ _ Hbk Hb1) Hb1) as [_ Ht1].
    destruct (pp_reg_tok bk b2 i2 c2 (bank_char_alpha _ _ _ Hbk Hb2) Hb2) as [_ Ht2].
    split.
    + change (String AT (z2s a) +++ s1 LBR +++ pp_reg bk b1 i1 +++ s1 COLON +++ pp_reg bk b2 i2 +++ s1 RBR)
        with (String AT (z2s a +++ String LBR (pp_reg bk b1 i1 +++ String COLON (pp_reg bk b2 i2 +++ s1 RBR)))).
      cbn [sall]. rewrite sall_app. cbn [sall]. rewrite sall_app. cbn [sall]. rewrite sall_app.
      rewrite (tok_op _ (z2s_tok a)), (tok_op _ Ht1), (tok_op _ Ht2). reflexivity.
    + apply last_sat_app; [discriminate|]. apply last_sat_app; [destruct (pp_reg bk b1 i1); discriminate|].
      apply last_sat_app; [discriminate|]. apply last_sat_app; [destruct (pp_reg bk b2 i2); discriminate|].
      change (s1 RBR) with (EmptyString +++ s1 RBR). now apply last_sat_snoc.
Qed.

Lemma printable_cons bk o ops :
  printable bk (o :: ops) = true -> printable_op bk o = true /\ printable bk ops = true.
Proof. unfold printable. cbn [forallb]. now rewrite andb_true_iff. Qed.

Lemma pp_operand_nonempty bk o : pp_operand bk o <> EmptyString.
Proof.
  destruct o; cbn [pp_operand]; unfold pp_reg; cbn [String.append];
    first [apply z2s_nonempty | discriminate].
Qed.

Lemma pp_operands_last bk ops : forall x,
  banks_ok bk = true -> printable bk ops = true ->
  last_sat is_end_char x -> last_sat is_end_char (x +++ pp_operands bk ops).
Proof.
  induction ops as [|o ops IH]; intros x Hbk Hp Hx.
  - cbn. now rewrite app_nil_r_s.
  - apply printable_cons in Hp as [Ho Hp]. cbn [pp_operands].
    change (String SP (pp_operand bk o) +++ pp_operands bk ops)
      with (s1 SP +++ (pp_operand bk o +++ pp_operands bk ops)).
    rewrite <- !app_assoc_s. apply IH; [exact Hbk|exact Hp|].
    destruct (pp_operand_chars bk o Hbk Ho) as [_ Hl].
    apply last_sat_app; [|exact Hl].
    apply pp_operand_nonempty.
Qed.

Lemma pp_operands_tokens bk ops :
  banks_ok bk = true -> printable bk ops = true ->
  Forall (fun w => sall is_op_char w = true) (map (pp_operand bk) ops).
Proof.
  intros Hbk. induction ops as [|o ops IH]; intros Hp; [constructor|].
  apply printable_cons in Hp as [Ho Hp]. cbn [map]. constructor; [|auto].
  exact (proj1 (pp_operand_chars bk o Hbk Ho)).
Qed.

Lemma join_sp_nochar a ws :
  Ascii.eqb SP a = false ->
  Forall (fun w => nochar a w = true) ws -> nochar a (join_sp ws) = true.
Proof.
  intros Ha. induction 1 as [|w ws Hw _ IH]; [reflexivity|].
  cbn [join_sp]. unfold nochar in *. rewrite sall_app. cbn [sall]. now rewrite Hw, Ha, IH.
Qed.

Lemma parse_operands_pp bk ops :
  banks_ok bk = true -> printable bk ops = true ->
  opt_all (map (fun w => parse_operand bk (strip_ws w)) (map (pp_operand bk) ops))
  = Some (map embed_op ops).
Proof.
  intros Hbk. induction ops as [|o ops IH]; intros Hp; [reflexivity|].
  apply printable_cons in Hp as [Ho Hp]. cbn [map opt_all].
  unfold strip_ws at 1. rewrite strip_id.
  2:{ generalize (proj1 (pp_operand_chars bk o Hbk Ho)). apply sall_impl.
      intros c Hc. now destruct (op_char_facts c Hc) as (-> & _). }
  rewrite (parse_operand_pp bk o Hbk Ho), (IH Hp). reflexivity.
Qed.

(* the tokeniser and the operand parser on a printed line *)
Theorem parse_cmd_pp bk gi mn ops :
  banks_ok bk = true ->
  mn <> EmptyString -> sall is_mn_char mn = true -> existsb (String.eqb mn) gi = true ->
  printable bk ops = true ->
  parse_cmd bk gi (mn +++ pp_operands bk ops) = Some (AIns mn [] (map embed_op ops)).
Proof.
  intros Hbk Hne Hmn Hgi Hp.
  set (line := mn +++ pp_operands bk ops).
  assert (Hlast : last_sat is_end_char line).
  { apply pp_operands_last; [exact Hbk|exact Hp|].
    apply last_sat_sall. revert Hmn. apply sall_impl. intros c Hc.
    unfold is_end_char. now rewrite Hc. }
  assert (Hcolon : ends_with COLON line = false).
  { apply ends_with_last. revert Hlast. apply last_sat_impl. intros c Hc.
    now destruct (end_char_facts c Hc) as (_ & ->). }
  assert (Hstrip : strip_ws line = line).
  { unfold strip_ws, strip.
    assert (Hl : lstrip is_space line = line).
    { unfold line. destruct mn as [|c mn']; [congruence|].
      change (String c mn' +++ pp_operands bk ops) with (String c (mn' +++ pp_operands bk ops)).
      apply lstrip_head. cbn [sall] in Hmn. apply andb_true_iff in Hmn as [Hc _].
      now destruct (mn_char_facts c Hc) as (-> & _). }
    rewrite Hl. apply rstrip_last. revert Hlast. apply last_sat_impl. intros c Hc.
    now destruct (end_char_facts c Hc) as (-> & _). }
  assert (Htoks : Forall (fun w => sall is_op_char w = true) (map (pp_operand bk) ops))
    by now apply pp_operands_tokens.
  assert (Hgbw : group_by_word LPAR RPAR line = Some (mn :: map (pp_operand bk) ops)).
  { unfold group_by_word. rewrite Hstrip. unfold line. rewrite join_sp_ops.
    apply gbw_join.
    - constructor.
      + revert Hmn. apply sall_impl. intros c Hc. now destruct (mn_char_facts c Hc) as (_ & -> & _).
      + revert Htoks. apply Forall_impl. intros w. apply sall_impl. intros c Hc.
        now destruct (op_char_facts c Hc) as (_ & -> & _).
    - apply join_sp_nochar; [reflexivity|]. constructor.
      + revert Hmn. apply sall_impl. intros c Hc. now destruct (mn_char_facts c Hc) as (_ & _ & -> & _).
      + revert Htoks. apply Forall_impl. intros w. apply sall_impl. intros c Hc.
        now destruct (op_char_facts c Hc) as (_ & _ & ->).
    - apply length_join_sp. }
  unfold parse_cmd. rewrite Hcolon, Hgbw.
  unfold split_of_bracket. rewrite find_char_none.
  2:{ revert Hmn. apply sall_impl. intros c Hc. now destruct (mn_char_facts c Hc) as (_ & _ & -> & _). }
  rewrite Hgi. cbn [parse_args]. rewrite (parse_operands_pp bk ops Hbk Hp). reflexivity.
Qed.

(* ================= the assembler on a one-command program ================= *)

Lemma well_typed_kinds r ops : well_typed r ops = true -> map kind_of ops = r_kinds r.
Proof. unfold well_typed. apply list_eqb_eq. exact kind_eqb_eq. Qed.

Definition imm_exempt_from (ex : list (string * nat)) (mn : string) (j : nat) (ks : list kind) : bool :=
  forallb (fun p => match snd p with KImm => is_exempt ex mn (fst p) | _ => true end)
          (combine (seq j (List.length ks)) ks).

(* constant replacement leaves a typed instruction alone: every literal sits at
   an exempt position, array indices are registers *)
Lemma repl_ops_embed pr nm mn ops : forall j tmp,
  imm_exempt_from (ap_exempt pr) mn j (map kind_of ops) = true ->
  repl_ops pr nm mn j (map embed_op ops) tmp = Some ([], map embed_op ops, tmp).
Proof.
  unfold imm_exempt_from.
  induction ops as [|o ops IH]; intros j tmp Hex; [reflexivity|].
  cbn [map List.length seq combine forallb fst snd] in Hex.
  apply andb_true_iff in Hex as [Ho Hex].
  cbn [map repl_ops].
  assert (Hopnd : repl_opnd pr nm mn j (embed_op o) tmp = Some ([], embed_op o, tmp)).
  { destruct o; cbn [embed_op repl_opnd repl_val kind_of] in *; try reflexivity.
    now rewrite Ho. }
  rewrite Hopnd, (IH _ _ Hex). reflexivity.
Qed.

Lemma conv_all_embed ops : conv_all (map kind_of ops) (map embed_op ops) = Some ops.
Proof.
  induction ops as [|o ops IH]; [reflexivity|].
  cbn [map conv_all]. rewrite IH. destruct o; reflexivity.
Qed.

Lemma resolve_embed ops : map (resolve_opnd []) (map embed_op ops) = map embed_op ops.
Proof.
  rewrite map_map. apply map_ext. intros o. destruct o; reflexivity.
Qed.

Lemma imm_exempt_row ex t r :
  imm_positions_exempt ex t = true -> In r t -> imm_exempt_from ex (r_mn r) 0 (r_kinds r) = true.
Proof.
  unfold imm_positions_exempt. rewrite forallb_forall. intros H Hin. exact (H r Hin).
Qed.

Theorem assemble_embed pr t r ops :
  wf_table t = true -> In r t ->
  imm_positions_exempt (ap_exempt pr) t = true ->
  well_typed r ops = true ->
  assemble pr t [AIns (r_mn r) [] (map embed_op ops)] = AOk [(r, ops)].
Proof.
  intros Hwf Hin Hex Hwt.
  pose proof (well_typed_kinds r ops Hwt) as Hk.
  pose proof (imm_exempt_row _ _ _ Hex Hin) as Hexr. rewrite <- Hk in Hexr.
  assert (Hlk : lookup_mn t (r_mn r) = Some r).
  { apply lookup_mn_nodup; [|exact Hin]. unfold wf_table in Hwf.
    apply andb_true_iff in Hwf as [Hwf _]. apply andb_true_iff in Hwf as [_ Hwf]. exact Hwf. }
  unfold assemble, assemble_ir, replace_constants.
  cbn [map make_args all_ops app repl_all repl_cmd].
  rewrite (repl_ops_embed pr _ (r_mn r) ops 0%nat [] Hexr).
  cbn [app abind]. unfold assign_labels. cbn [label_table filter is_ins map resolve_cmd].
  rewrite resolve_embed. cbn [abind build build_cmd]. rewrite Hlk.
  rewrite <- Hk, conv_all_embed. reflexivity.
Qed.

(* ================= C17 ================= *)

Theorem parse_print_instr pr bk gi t r ops :
  wf_table t = true -> In r t ->
  banks_ok bk = true -> mnemonics_ok gi t = true -> imm_positions_exempt (ap_exempt pr) t = true ->
  well_typed r ops = true -> printable bk ops = true ->
  parse_line pr bk gi t (pp_instr bk r ops) = Some (r, ops).
Proof.
  intros Hwf Hin Hbk Hmn Hex Hwt Hp.
  unfold mnemonics_ok in Hmn. rewrite forallb_forall in Hmn. specialize (Hmn r Hin).
  apply andb_true_iff in Hmn as [Hmn Hgi]. apply andb_true_iff in Hmn as [Hne Hch].
  unfold parse_line, pp_instr.
  rewrite (parse_cmd_pp bk gi (r_mn r) ops Hbk); [|destruct (r_mn r); discriminate|exact Hch|exact Hgi|exact Hp].
  rewrite (assemble_embed pr t r ops Hwf Hin Hex Hwt). reflexivity.
Qed.

(* ================= text -> binary -> text ================= *)

Lemma in_range_well_typed r ops : in_range r ops = true -> well_typed r ops = true.
Proof. unfold in_range. rewrite andb_true_iff. tauto. Qed.


(* every printed line of a body parses back to its instruction *)
Theorem parse_print_body pr bk gi t body :
  wf_table t = true -> banks_ok bk = true -> mnemonics_ok gi t = true ->
  imm_positions_exempt (ap_exempt pr) t = true ->
  Forall (fun c => In (fst c) t) body ->
  Forall (fun c => well_typed (fst c) (snd c) = true) body ->
  Forall (fun c => printable bk (snd c) = true) body ->
  map (parse_line pr bk gi t) (pp_body bk body) = map Some body.
Proof.
  intros Hwf Hbk Hmn Hex Hin. induction Hin as [|[r ops] body Hr _ IH]; intros Hwt Hp; [reflexivity|].
  inversion Hwt as [|? ? Hwt1 Hwt2]; subst. inversion Hp as [|? ? Hp1 Hp2]; subst.
  cbn [pp_body map fst snd] in *.
  rewrite (parse_print_instr pr bk gi t r ops Hwf Hr Hbk Hmn Hex Hwt1 Hp1).
  f_equal. exact (IH Hwt2 Hp2).
Qed.

Lemma opt_all_some {A} (l : list A) : opt_all (map Some l) = Some l.
Proof. induction l as [|x l IH]; [reflexivity|]. cbn [map opt_all]. now rewrite IH. Qed.

(* parse every line with the text parser + assembler, put the instructions in a
   subroutine with the given metadata, encode it, decode the bytes, print the
   decoded body; None as soon as one step fails *)

(* print, parse every line, encode, decode, print again: the same lines *)
Theorem text_binary_text_stable pr bk gi h t (s : sub) :
  header_ok h = true -> wf_table t = true ->
  banks_ok bk = true -> mnemonics_ok gi t = true -> imm_positions_exempt (ap_exempt pr) t = true ->
  Forall (fun c => In (fst c) t) (s_body s) ->
  sub_in_range h s = true ->
  Forall (fun c => printable bk (snd c) = true) (s_body s) ->
  text_binary_text pr bk gi h t (s_v0 s) (s_v1 s) (s_app s) (pp_body bk (s_body s))
  = Some (pp_body bk (s_body s)).
Proof.
  intros Hh Hwf Hbk Hmn Hex Hin Hr Hp. unfold text_binary_text.
  rewrite (parse_print_body pr bk gi t (s_body s) Hwf Hbk Hmn Hex Hin); [|
    |exact Hp].
  - rewrite opt_all_some.
    assert (Hs : mkSub (s_v0 s) (s_v1 s) (s_app s) (s_body s) = s) by (destruct s; reflexivity).
    rewrite Hs, (decode_encode_sub h t s Hh Hwf Hin Hr). reflexivity.
  - unfold sub_in_range in Hr. apply andb_true_iff in Hr as [_ Hr].
    rewrite forallb_forall in Hr. apply Forall_forall. intros c Hc.
    apply in_range_well_typed. exact (Hr c Hc).
Qed.
