(* QmemSchedProofs.v — isolation and the invariant under ANY interleaving of suspended
   subroutines of several applications (C13), and why the id allocator matters. *)
From Coq Require Import ZArith List Bool Lia.
From NQ Require Import Exec.Qmem Proofs.QmemProofs.
From NQ Require Import Exec.QmemSched.
Import ListNotations.
Open Scope Z_scope.

Lemma zget_aset {V} k k' (a : V) l :
  aget Z.eqb k' (aset Z.eqb k a l) = if Z.eqb k' k then Some a else aget Z.eqb k' l.
Proof.
  unfold aset. cbn [aget]. destruct (Z.eqb k' k) eqn:E; [reflexivity|].
  unfold adel. induction l as [|[k0 v0] l IH]; cbn [filter aget fst]; [reflexivity|].
  destruct (Z.eqb k k0) eqn:E0; cbn [negb].
  - apply Z.eqb_eq in E0. subst k0. rewrite E. exact IH.
  - cbn [aget]. destruct (Z.eqb k' k0); [reflexivity | exact IH].
Qed.

Lemma zget_adel {V} k k' (l : list (Z * V)) :
  aget Z.eqb k' (adel Z.eqb k l) = if Z.eqb k' k then None else aget Z.eqb k' l.
Proof.
  unfold adel. induction l as [|[k0 v0] l IH]; cbn [filter aget fst].
  - destruct (Z.eqb k' k); reflexivity.
  - destruct (Z.eqb k k0) eqn:E0; cbn [negb].
    + apply Z.eqb_eq in E0. subst k0. rewrite IH. destruct (Z.eqb k' k); reflexivity.
    + cbn [aget]. destruct (Z.eqb k' k0) eqn:E1; [|exact IH].
      destruct (Z.eqb k' k) eqn:E2; [|reflexivity].
      apply Z.eqb_eq in E1, E2. subst. rewrite Z.eqb_refl in E0. discriminate.
Qed.

(* ------------------------------------------------------------------ one block *)
Definition block_ok (k : pid) (o : op) : Prop := op_pid o = Some k /\ is_keep o = false.

Lemma fresh_non_keep s o : is_keep o = false -> fresh_delivery s o.
Proof. destruct o; cbn; intros H; try exact I. discriminate. Qed.

(* the table after running a block: entry sid is gone or holds the same owner with the tail *)
Lemma run_block_table ss tbl nxt sid sb sid' :
  aget Z.eqb sid' (ss_table (run_block ss tbl nxt sid sb)) =
  if Z.eqb sid' sid
  then match aget Z.eqb sid' (ss_table (run_block ss tbl nxt sid sb)) with
       | Some sb' => Some sb' | None => None end
  else aget Z.eqb sid' tbl.
Proof.
  destruct (Z.eqb sid' sid) eqn:E.
  - destruct (aget Z.eqb sid' _); reflexivity.
  - unfold run_block. destruct (sb_rest sb) as [|o rest]; cbn [ss_table].
    + rewrite zget_adel, E. reflexivity.
    + destruct (snd (step (ss_st ss) o)) as [| |e]; destruct rest; cbn [ss_table];
        rewrite ?zget_adel, ?zget_aset, E; reflexivity.
Qed.

Lemma run_block_self ss tbl nxt sid sb sb' :
  aget Z.eqb sid (ss_table (run_block ss tbl nxt sid sb)) = Some sb' ->
  sb_app sb' = sb_app sb /\ exists o, sb_rest sb = o :: sb_rest sb'.
Proof.
  unfold run_block. destruct (sb_rest sb) as [|o rest] eqn:Er; cbn [ss_table].
  - rewrite zget_adel, Z.eqb_refl. discriminate.
  - destruct (snd (step (ss_st ss) o)) as [| |e]; destruct rest; cbn [ss_table];
      rewrite ?zget_adel, ?zget_aset, Z.eqb_refl; try discriminate;
      intros H; inversion H; subst; cbn; eauto.
Qed.

Lemma run_block_next ss tbl nxt sid sb : ss_next (run_block ss tbl nxt sid sb) = nxt.
Proof.
  unfold run_block. destruct (sb_rest sb) as [|o rest]; [reflexivity|].
  destruct (snd (step (ss_st ss) o)) as [| |e]; destruct rest; reflexivity.
Qed.

(* the state after running a block: at most one operation, of the owner *)
Lemma run_block_state ss tbl nxt sid sb :
  ss_st (run_block ss tbl nxt sid sb) = ss_st ss \/
  exists o rest, sb_rest sb = o :: rest /\ ss_st (run_block ss tbl nxt sid sb) = fst (step (ss_st ss) o).
Proof.
  unfold run_block. destruct (sb_rest sb) as [|o rest]; [left; reflexivity|].
  right. exists o, rest. split; [reflexivity|].
  destruct (snd (step (ss_st ss) o)) as [| |e]; destruct rest; reflexivity.
Qed.

(* ------------------------------------------------------------------ table invariant *)
Lemma table_ok_step ss e :
  table_ok ss -> ev_wf e -> ev_env_ok ss e -> table_ok (sched_step by_counter ss e).
Proof.
  intros T W V sid' sb' H. destruct e as [k blocks|sid|o]; cbn [sched_step ev_wf ev_env_ok] in *; unfold by_counter in *.
  - rewrite run_block_next. destruct (Z.eqb sid' (ss_next ss)) eqn:E.
    + apply Z.eqb_eq in E. subst sid'. destruct (run_block_self _ _ _ _ _ _ H) as [Ha (o & Ho)].
      cbn [sb_app sb_rest] in *. split; [lia|]. rewrite Ha.
      assert (F : Forall (fun o => op_pid o = Some k /\ is_keep o = false) blocks).
      { rewrite Forall_forall in *. intros x Hx. split; [apply W | apply V]; exact Hx. }
      rewrite Ho in F. inversion F; assumption.
    + rewrite run_block_table, E, zget_aset, E in H. destruct (T _ _ H) as [T1 T2]. split; [lia | exact T2].
  - destruct (aget Z.eqb sid (ss_table ss)) as [sb|] eqn:Es; [|exact (T _ _ H)].
    rewrite run_block_next. destruct (Z.eqb sid' sid) eqn:E.
    + apply Z.eqb_eq in E. subst sid'. destruct (run_block_self _ _ _ _ _ _ H) as [Ha (o & Ho)].
      destruct (T _ _ Es) as [T1 T2]. split; [exact T1|]. rewrite Ha. rewrite Ho in T2. inversion T2; assumption.
    + rewrite run_block_table, E in H. exact (T _ _ H).
  - exact (T _ _ H).
Qed.

(* ------------------------------------------------------------------ the invariant under interleaving *)
Theorem sched_inv_step ss e :
  Inv (ss_st ss) -> table_ok ss -> ev_wf e -> ev_env_ok ss e -> Inv (ss_st (sched_step by_counter ss e)).
Proof.
  intros HI T W V. destruct e as [k blocks|sid|o]; cbn [sched_step]; unfold by_counter.
  - destruct (run_block_state ss (aset Z.eqb (ss_next ss) (mkSub k blocks) (ss_table ss)) (ss_next ss + 1) (ss_next ss) (mkSub k blocks))
      as [->|(o & rest & Er & ->)]; [exact HI|].
    cbn [sb_rest] in Er. subst blocks. cbn [ev_env_ok] in V. inversion V; subst.
    apply inv_step; [exact HI | apply fresh_non_keep; assumption].
  - destruct (aget Z.eqb sid (ss_table ss)) as [sb|] eqn:Es; [|exact HI].
    destruct (run_block_state ss (ss_table ss) (ss_next ss) sid sb) as [->|(o & rest & Er & ->)]; [exact HI|].
    destruct (T _ _ Es) as [_ T2]. rewrite Er in T2. inversion T2 as [|? ? [_ Hk] _]; subst.
    apply inv_step; [exact HI | apply fresh_non_keep; exact Hk].
  - cbn [ss_st]. apply inv_step; [exact HI | exact V].
Qed.

(* isolation for any interleaving: an event changes only the application that owns the
   subroutine it starts / resumes (or that the atomic operation names) *)
Theorem sched_isolation ss e k' :
  table_ok ss -> ev_wf e -> ev_owner ss e <> Some k' ->
  app_of (ss_st (sched_step by_counter ss e)) k' = app_of (ss_st ss) k'.
Proof.
  intros T W NE. destruct e as [k blocks|sid|o]; cbn [sched_step ev_owner] in *; unfold by_counter in *.
  - destruct (run_block_state ss (aset Z.eqb (ss_next ss) (mkSub k blocks) (ss_table ss)) (ss_next ss + 1) (ss_next ss) (mkSub k blocks))
      as [->|(o & rest & Er & ->)]; [reflexivity|].
    cbn [sb_rest] in Er. subst blocks. cbn [ev_wf] in W. inversion W; subst.
    apply isolation. congruence.
  - destruct (aget Z.eqb sid (ss_table ss)) as [sb|] eqn:Es; [|reflexivity].
    destruct (run_block_state ss (ss_table ss) (ss_next ss) sid sb) as [->|(o & rest & Er & ->)]; [reflexivity|].
    destruct (T _ _ Es) as [_ T2]. rewrite Er in T2. inversion T2 as [|? ? [Hk _] _]; subst.
    apply isolation. congruence.
  - cbn [ss_st]. apply isolation. exact NE.
Qed.

(* a suspended subroutine keeps its owner, whatever else is started, resumed or finished *)
Theorem owner_stable ss e sid sb :
  table_ok ss -> aget Z.eqb sid (ss_table ss) = Some sb ->
  match aget Z.eqb sid (ss_table (sched_step by_counter ss e)) with
  | Some sb' => sb_app sb' = sb_app sb
  | None => True
  end.
Proof.
  intros T Hs. destruct (T _ _ Hs) as [Hlt _].
  destruct e as [k blocks|sid0|o]; cbn [sched_step]; unfold by_counter.
  - rewrite run_block_table. assert (E : Z.eqb sid (ss_next ss) = false) by (apply Z.eqb_neq; lia).
    rewrite E, zget_aset, E, Hs. reflexivity.
  - destruct (aget Z.eqb sid0 (ss_table ss)) as [sb0|] eqn:E0; [|rewrite Hs; reflexivity].
    destruct (Z.eqb sid sid0) eqn:E.
    + apply Z.eqb_eq in E. subst sid0. assert (sb0 = sb) by congruence. subst sb0.
      destruct (aget Z.eqb sid (ss_table (run_block ss (ss_table ss) (ss_next ss) sid sb))) as [sb'|] eqn:E'; [|exact I].
      exact (proj1 (run_block_self _ _ _ _ _ _ E')).
    + rewrite run_block_table, E, Hs. reflexivity.
  - cbn [ss_table]. rewrite Hs. reflexivity.
Qed.

(* ------------------------------------------------------------------ any interleaving *)
Inductive sreach : sstate -> Prop :=
| sreach_init : sreach sched_init
| sreach_step ss e : sreach ss -> ev_wf e -> ev_env_ok ss e -> sreach (sched_step by_counter ss e).

Theorem sched_reachable ss : sreach ss -> Inv (ss_st ss) /\ table_ok ss.
Proof.
  induction 1 as [|ss e _ [HI T] W V].
  - split; [exact inv_init | intros sid sb H; discriminate].
  - split; [apply sched_inv_step; assumption | apply table_ok_step; assumption].
Qed.

(* ------------------------------------------------------------------ the id allocator matters *)
(* with ids taken from the size of the table (instead of the counter) a subroutine started
   while another is suspended can take over its id: the suspended subroutine of application
   (0,1) is replaced by one of application (0,2) *)
Definition r1 : reg := (0, 1).
Definition takeover : list ev :=
  [Atomic (Init 0 0 1); Atomic (Init 0 1 1); Atomic (Init 0 2 1);
   Start (0, 0) [SetReg 0 0 r1 1; SetReg 0 0 r1 2];
   Start (0, 1) [SetReg 0 1 r1 3; SetReg 0 1 r1 4];
   Resume 0].

Theorem owner_stable_needs_counter :
  let ss := sched_run by_table_size sched_init takeover in
  let e := Start (0, 2) [SetReg 0 2 r1 5; SetReg 0 2 r1 6] in
  ev_wf e /\
  option_map sb_app (aget Z.eqb 1 (ss_table ss)) = Some (0, 1) /\
  option_map sb_app (aget Z.eqb 1 (ss_table (sched_step by_table_size ss e))) = Some (0, 2) /\
  (* ... and resuming "subroutine 1" now writes into application (0,2) *)
  aget pair_eqb r1 (match app_of (ss_st (sched_step by_table_size (sched_step by_table_size ss e) (Resume 1))) (0, 2)
                    with Some a => a_regs a | None => [] end) = Some 6.
Proof. vm_compute. repeat split; try reflexivity; repeat constructor. Qed.
