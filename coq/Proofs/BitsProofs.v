From Coq Require Import ZArith List Bool Lia.
From NQ Require Import Base.Bits.
Import ListNotations.
Open Scope Z_scope.

Lemma testbit_put f v i :
  0 <= f_width f -> 0 <= i ->
  Z.testbit (put f v) i =
  (f_pos f <=? i) && (i <? f_pos f + f_width f) && Z.testbit v (i - f_pos f).
Proof.
  intros Hw Hi. unfold put.
  rewrite Z.shiftl_spec by assumption.
  destruct (Z.leb_spec (f_pos f) i) as [Hle|Hlt]; cbn [andb].
  - rewrite Z.land_spec, Z.testbit_ones_nonneg by lia.
    destruct (Z.ltb_spec (i - f_pos f) (f_width f));
    destruct (Z.ltb_spec i (f_pos f + f_width f)); try lia;
    cbn [andb]; now rewrite ?andb_true_r, ?andb_false_r.
  - apply Z.testbit_neg_r; lia.
Qed.

Lemma testbit_get_u f n i :
  0 <= f_width f -> 0 <= f_pos f -> 0 <= i ->
  Z.testbit (get_u f n) i = (i <? f_width f) && Z.testbit n (i + f_pos f).
Proof.
  intros Hw Hp Hi. unfold get_u.
  rewrite Z.land_spec, Z.shiftr_spec, Z.testbit_ones_nonneg by lia.
  apply andb_comm.
Qed.

Lemma get_u_lor f a b : get_u f (Z.lor a b) = Z.lor (get_u f a) (get_u f b).
Proof. unfold get_u. now rewrite Z.shiftr_lor, Z.land_lor_distr_l. Qed.

Lemma get_u_0 f : get_u f 0 = 0.
Proof. unfold get_u. now rewrite Z.shiftr_0_l, Z.land_0_l. Qed.

Lemma get_u_put_same f v :
  0 <= f_width f -> 0 <= f_pos f ->
  get_u f (put f v) = Z.land v (Z.ones (f_width f)).
Proof.
  intros Hw Hp. apply Z.bits_inj'. intros i Hi.
  rewrite testbit_get_u, testbit_put by lia.
  rewrite Z.land_spec, Z.testbit_ones_nonneg by lia.
  replace (i + f_pos f - f_pos f) with i by lia.
  destruct (Z.ltb_spec i (f_width f));
  destruct (Z.leb_spec (f_pos f) (i + f_pos f));
  destruct (Z.ltb_spec (i + f_pos f) (f_pos f + f_width f)); try lia;
  cbn [andb]; now rewrite ?andb_true_r, ?andb_false_r.
Qed.

Lemma get_u_put_disjoint f g v :
  0 <= f_width f -> 0 <= f_pos f -> 0 <= f_width g ->
  disjoint f g = true -> get_u f (put g v) = 0.
Proof.
  intros Hw Hp Hwg Hd. apply Z.bits_inj'. intros i Hi.
  rewrite testbit_get_u, testbit_put, Z.bits_0 by lia.
  unfold disjoint in Hd. apply orb_true_iff in Hd.
  destruct (Z.ltb_spec i (f_width f)); cbn [andb]; [|reflexivity].
  destruct (Z.leb_spec (f_pos g) (i + f_pos f)); cbn [andb]; [|reflexivity].
  destruct (Z.ltb_spec (i + f_pos f) (f_pos g + f_width g)); cbn [andb]; [|reflexivity].
  destruct Hd as [Hd|Hd]; apply Z.leb_le in Hd; lia.
Qed.

Lemma field_ok_inv bits f :
  field_ok bits f = true -> 0 <= f_pos f /\ 0 < f_width f /\ f_pos f + f_width f <= bits.
Proof.
  unfold field_ok. rewrite !andb_true_iff, !Z.leb_le, Z.ltb_lt. tauto.
Qed.

Lemma disjoint_sym f g : disjoint f g = disjoint g f.
Proof. unfold disjoint. apply orb_comm. Qed.

Lemma get_u_pack_disjoint bits f l vs :
  field_ok bits f = true -> forallb (field_ok bits) l = true ->
  forallb (disjoint f) l = true -> get_u f (pack l vs) = 0.
Proof.
  intros Hf. revert vs. induction l as [|g l IH]; intros vs Hok Hd.
  - destruct vs; apply get_u_0.
  - destruct vs as [|v vs]; [apply get_u_0|].
    cbn [pack forallb] in *. apply andb_true_iff in Hok as [Hg Hok].
    apply andb_true_iff in Hd as [Hdg Hd].
    apply field_ok_inv in Hf as Hf'. apply field_ok_inv in Hg as Hg'.
    rewrite get_u_lor, get_u_put_disjoint, IH by (assumption || lia).
    reflexivity.
Qed.

Lemma get_sext f v :
  0 < f_width f -> fits f v = true ->
  (let u := Z.land v (Z.ones (f_width f)) in
   if f_signed f && (2 ^ (f_width f - 1) <=? u) then u - 2 ^ (f_width f) else u) = v.
Proof.
  intros Hw Hfit. cbv zeta. rewrite Z.land_ones by lia.
  unfold fits in Hfit.
  assert (Hpow : 2 ^ f_width f = 2 * 2 ^ (f_width f - 1)).
  { rewrite <- Z.pow_succ_r by lia. f_equal. lia. }
  assert (Hpos : 0 < 2 ^ (f_width f - 1)) by (apply Z.pow_pos_nonneg; lia).
  destruct (f_signed f); cbn [andb].
  - apply andb_true_iff in Hfit as [H1 H2].
    apply Z.leb_le in H1. apply Z.ltb_lt in H2.
    destruct (Z_lt_le_dec v 0) as [Hneg|Hnn].
    + assert (Hm : v mod 2 ^ f_width f = v + 2 ^ f_width f).
      { rewrite <- (Z.mod_small (v + 2 ^ f_width f) (2 ^ f_width f)) by lia.
        rewrite <- (Z_mod_plus_full v 1 (2 ^ f_width f)). f_equal. lia. }
      rewrite Hm. destruct (Z.leb_spec (2 ^ (f_width f - 1)) (v + 2 ^ f_width f)); lia.
    + rewrite Z.mod_small by lia.
      destruct (Z.leb_spec (2 ^ (f_width f - 1)) v); lia.
  - apply andb_true_iff in Hfit as [H1 H2].
    apply Z.leb_le in H1. apply Z.ltb_lt in H2.
    apply Z.mod_small. lia.
Qed.

Lemma get_put_head bits f v l vs :
  field_ok bits f = true -> forallb (field_ok bits) l = true ->
  forallb (disjoint f) l = true -> fits f v = true ->
  get f (Z.lor (put f v) (pack l vs)) = v.
Proof.
  intros Hf Hok Hd Hfit. apply field_ok_inv in Hf as Hf'.
  unfold get. rewrite get_u_lor, get_u_put_same by lia.
  rewrite (get_u_pack_disjoint bits) by assumption.
  rewrite Z.lor_0_r. apply get_sext; [lia|assumption].
Qed.

Lemma unpack_lor_disjoint bits f v l n :
  field_ok bits f = true -> forallb (field_ok bits) l = true ->
  forallb (disjoint f) l = true ->
  unpack l (Z.lor (put f v) n) = unpack l n.
Proof.
  intros Hf Hok Hd. unfold unpack. apply map_ext_in. intros g Hg.
  rewrite forallb_forall in Hok, Hd.
  specialize (Hok g Hg). specialize (Hd g Hg).
  apply field_ok_inv in Hf. apply field_ok_inv in Hok.
  unfold get. rewrite get_u_lor.
  rewrite (get_u_put_disjoint g f) by (try lia; now rewrite disjoint_sym).
  now rewrite Z.lor_0_l.
Qed.

(* Main round trip: well-formed layout, values that fit. *)
Theorem unpack_pack bits l vs :
  wf_layout bits l = true -> fits_all l vs = true -> unpack l (pack l vs) = vs.
Proof.
  unfold wf_layout. rewrite andb_true_iff. intros [Hok Hpd]. revert vs Hok Hpd.
  induction l as [|f l IH]; intros vs Hok Hpd Hfit.
  - destruct vs; [reflexivity|discriminate].
  - destruct vs as [|v vs]; [discriminate|].
    cbn [fits_all forallb pairwise_disjoint] in *.
    apply andb_true_iff in Hok as [Hf Hok].
    apply andb_true_iff in Hpd as [Hd Hpd].
    apply andb_true_iff in Hfit as [Hfv Hfit].
    cbn [pack]. change (unpack (f :: l) ?n) with (get f n :: unpack l n).
    rewrite (get_put_head bits) by assumption.
    rewrite (unpack_lor_disjoint bits) by assumption.
    now rewrite IH.
Qed.

(* bytes *)
Lemma of_to_bytes k n :
  of_bytes (to_bytes k n) = Z.land n (Z.ones (8 * Z.of_nat k)).
Proof.
  revert n. induction k as [|k IH]; intros n.
  - cbn. now rewrite Z.land_0_r.
  - cbn [to_bytes of_bytes]. rewrite IH.
    apply Z.bits_inj'. intros i Hi.
    rewrite Z.lor_spec, !Z.land_spec, Z.shiftl_spec by lia.
    change 255 with (Z.ones 8).
    rewrite !Z.testbit_ones_nonneg by lia.
    destruct (Z.ltb_spec i 8) as [Hlt|Hge].
    + rewrite (Z.testbit_neg_r _ (i - 8)) by lia.
      destruct (Z.ltb_spec i (8 * Z.of_nat (S k))); [|lia].
      now rewrite andb_true_r, orb_false_r, andb_true_r.
    + rewrite Z.land_spec, Z.shiftr_spec, Z.testbit_ones_nonneg by lia.
      replace (i - 8 + 8) with i by lia.
      rewrite !andb_false_r. cbn [orb]. f_equal.
      destruct (Z.ltb_spec (i - 8) (8 * Z.of_nat k));
      destruct (Z.ltb_spec i (8 * Z.of_nat (S k))); lia.
Qed.

Lemma get_land_ones f n bits :
  0 <= f_pos f -> 0 <= f_width f -> f_pos f + f_width f <= bits ->
  get f (Z.land n (Z.ones bits)) = get f n.
Proof.
  intros Hp Hw Hb. unfold get.
  assert (E : get_u f (Z.land n (Z.ones bits)) = get_u f n).
  { apply Z.bits_inj'. intros i Hi.
    rewrite !testbit_get_u by lia.
    rewrite Z.land_spec, Z.testbit_ones_nonneg by lia.
    destruct (Z.ltb_spec i (f_width f)); cbn [andb]; [|reflexivity].
    destruct (Z.ltb_spec (i + f_pos f) bits); [|lia].
    now rewrite andb_true_r. }
  now rewrite E.
Qed.

Lemma unpack_of_to_bytes k l n :
  forallb (field_ok (8 * Z.of_nat k)) l = true ->
  unpack l (of_bytes (to_bytes k n)) = unpack l n.
Proof.
  intros Hok. rewrite of_to_bytes. unfold unpack. apply map_ext_in.
  intros f Hf. rewrite forallb_forall in Hok. specialize (Hok f Hf).
  apply field_ok_inv in Hok. apply get_land_ones; lia.
Qed.

Lemma length_to_bytes k n : length (to_bytes k n) = k.
Proof. revert n; induction k; intros; cbn; auto. Qed.

Lemma to_bytes_range k n : Forall (fun b => 0 <= b < 256) (to_bytes k n).
Proof.
  revert n; induction k; intros; cbn; constructor; auto.
  change 255 with (Z.ones 8). rewrite Z.land_ones by lia.
  apply Z.mod_pos_bound. lia.
Qed.
