(* Bridge_AsmChain.v — C03's theorem (the assembler preserves the meaning of a
   SOURCE program: labels, literals, bracket arguments; stated in AsmSem) chained
   with the bridge AsmSem -> Sem: a finished source run is reproduced by the
   assembled program in AsmSem, and that run is the run of the common semantics
   (which C04 ties to executor.py). *)
From Coq Require Import ZArith List Bool String.
From NQ Require Import Lang.Asm Lang.AsmSem Proofs.AsmProofs.
From NQ Require Exec.State Exec.Sem Proofs.Bridge_Asm.
Import ListNotations.

Theorem source_to_sem_chain : forall pr P T p n ss st s,
  params_ok pr = true -> is_exempt (ap_exempt pr) SET 1 = true -> wf_src P = true ->
  assemble_ir pr P = AOk T -> Bridge_Asm.e_prog T = Some p ->
  eqv pr (named P) ss st -> Bridge_Asm.srel st s -> Sem.defined_domain p s ->
  (forall pc x, arun P n (Run 0 ss) <> Run pc x) ->
  exists m0, forall m, (m0 <= m)%nat ->
    cfg_rel pr P (arun P n (Run 0 ss)) (arun T m (Run 0 st)) /\
    Bridge_Asm.cfg_bridge (List.length T) (arun T m (Run 0 st)) (Sem.run p s m).
Proof.
  intros pr P T p n ss st s Hpar Hex Hwf Hasm Hp He R D Hterm.
  destruct (assemble_preserves_result pr P T Hpar Hex Hwf Hasm n ss st He Hterm) as [m0 Hm0].
  exists m0. intros m Hm. split; [apply Hm0; exact Hm|].
  apply Bridge_Asm.asm_bridge; assumption.
Qed.
