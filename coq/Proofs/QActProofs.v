(* Proofs/QActProofs.v — block soundness (the hypothesis of C08's quantum half) DERIVED
   from the rows of C07's table, for every state space carrying a functorial action of
   exact matrices on lists of qubit ids. *)
From Coq Require Import ZArith List Bool String Lia Arith.
From NQ Require Import Base.Cyclo Base.QMat Nv.NvSem Nv.Transpile Nv.QAct
     Proofs.QMatProofs Proofs.TranspileProofs.
Import ListNotations.
Open Scope nat_scope.

(* ------------------------------------------------------------- dimensions *)
Lemma vadd_length : forall u v, List.length u = List.length v -> List.length (vadd u v) = List.length u.
Proof.
  induction u as [|a u IH]; intros [|b v] H; simpl in *; try reflexivity; try discriminate.
  f_equal. apply IH. lia.
Qed.

Lemma row_times_length : forall a B acc,
  (forall b, In b B -> List.length b = List.length acc) ->
  List.length (row_times a B acc) = List.length acc.
Proof.
  induction a as [|x a IH]; intros B acc H; simpl; [reflexivity|].
  destruct B as [|b B]; [reflexivity|].
  assert (Hb : List.length b = List.length acc) by (apply H; left; reflexivity).
  destruct (kis0 x).
  - apply IH. intros b' Hin. apply H. right. exact Hin.
  - assert (Hl : List.length (vadd acc (vscale x b)) = List.length acc).
    { apply vadd_length. unfold vscale. rewrite map_length. lia. }
    rewrite IH; [exact Hl|]. intros b' Hin. rewrite Hl. apply H. right. exact Hin.
Qed.

Lemma dims_ok_spec : forall r c A,
  dims_ok r c A = true <-> List.length A = r /\ forall row, In row A -> List.length row = c.
Proof.
  intros r c A. unfold dims_ok. rewrite andb_true_iff, Nat.eqb_eq, forallb_forall. split.
  - intros [H1 H2]. split; [exact H1|]. intros row Hin. apply Nat.eqb_eq. apply H2. exact Hin.
  - intros [H1 H2]. split; [exact H1|]. intros row Hin. apply Nat.eqb_eq. apply H2. exact Hin.
Qed.

Lemma mmul_dims : forall r k c A B, 0 < k ->
  dims_ok r k A = true -> dims_ok k c B = true -> dims_ok r c (mmul A B) = true.
Proof.
  intros r k c A B Hk HA HB. apply dims_ok_spec in HA. apply dims_ok_spec in HB.
  destruct HA as [HA1 _]. destruct HB as [HB1 HB2]. apply dims_ok_spec. unfold mmul. split.
  - rewrite map_length. exact HA1.
  - intros row Hin. apply in_map_iff in Hin. destruct Hin as [a [Ha _]]. subst row.
    assert (Hn : ncols B = c).
    { destruct B as [|b B]; [simpl in HB1; lia|]. simpl. apply HB2. left. reflexivity. }
    rewrite row_times_length.
    + unfold vzero. rewrite repeat_length. exact Hn.
    + intros b Hb. unfold vzero. rewrite repeat_length, Hn. apply HB2. exact Hb.
Qed.

Lemma square_map_dims : forall m (f : nat -> nat -> K32),
  dims_ok m m (map (fun r => map (fun c => f r c) (seq 0 m)) (seq 0 m)) = true.
Proof.
  intros m f. apply dims_ok_spec. split.
  - rewrite map_length, seq_length. reflexivity.
  - intros row Hin. apply in_map_iff in Hin. destruct Hin as [r [Hr _]]. subst row.
    rewrite map_length, seq_length. reflexivity.
Qed.

Lemma embed_dims : forall n ws G, dims_ok (2 ^ n) (2 ^ n) (embed n ws G) = true.
Proof. intros. unfold embed. apply (square_map_dims (2 ^ n)). Qed.

Lemma mid_dims : forall m, dims_ok m m (mid m) = true.
Proof. intros. unfold mid. apply (square_map_dims m). Qed.

Lemma pow2_pos : forall n, 0 < 2 ^ n.
Proof. intro n. induction n; simpl; lia. Qed.

(* --------------------------------------------------- equality of gate lists *)
Lemma axis_eqb_eq : forall a b, axis_eqb a b = true -> a = b.
Proof. destruct a, b; simpl; intro H; try reflexivity; discriminate. Qed.
Lemma g1_eqb_eq : forall a b, g1_eqb a b = true -> a = b.
Proof. destruct a, b; simpl; intro H; try reflexivity; discriminate. Qed.
Lemma g2_eqb_eq : forall a b, g2_eqb a b = true -> a = b.
Proof. destruct a, b; simpl; intro H; try reflexivity; discriminate. Qed.
Lemma place_eqb_eq : forall a b, place_eqb a b = true -> a = b.
Proof. destruct a, b; simpl; intro H; try reflexivity; discriminate. Qed.

Lemma qop_eqb_eq : forall a b, qop_eqb a b = true -> a = b.
Proof.
  destruct a, b; simpl; intro H; try discriminate;
    repeat (apply andb_true_iff in H; destruct H as [H ?]);
    repeat match goal with
           | X : axis_eqb _ _ = true |- _ => apply axis_eqb_eq in X
           | X : g1_eqb _ _ = true |- _ => apply g1_eqb_eq in X
           | X : g2_eqb _ _ = true |- _ => apply g2_eqb_eq in X
           | X : Nat.eqb _ _ = true |- _ => apply Nat.eqb_eq in X
           | X : Z.eqb _ _ = true |- _ => apply Z.eqb_eq in X
           end; subst; reflexivity.
Qed.

Lemma qops_eqb_eq : forall a b, qops_eqb a b = true -> a = b.
Proof.
  induction a as [|x a IH]; intros [|y b] H; simpl in H; try discriminate; [reflexivity|].
  apply andb_true_iff in H. destruct H as [H1 H2]. apply qop_eqb_eq in H1. apply IH in H2. subst. reflexivity.
Qed.

Lemma agree_g1 : forall t rows g, tables_agree t rows = true ->
  exists r, In r rows /\ r_gate r = VG1 (cg1 g) /\ r_place r = PSingle /\ r_seq r = conv_g1 (t_g1 t g).
Proof.
  intros t rows g H. unfold tables_agree in H. apply andb_true_iff in H. destruct H as [H _].
  rewrite forallb_forall in H. specialize (H g ltac:(destruct g; simpl; tauto)).
  apply existsb_exists in H. destruct H as [r [Hin Hr]]. exists r. split; [exact Hin|].
  unfold row_is_g1 in Hr. apply andb_true_iff in Hr. destruct Hr as [Hr Hs].
  apply andb_true_iff in Hr. destruct Hr as [Hg Hp].
  apply qops_eqb_eq in Hs. apply place_eqb_eq in Hp.
  destruct (r_gate r) eqn:Eg; try discriminate. apply g1_eqb_eq in Hg. subst. auto.
Qed.

Lemma agree_g2 : forall t rows g g' p b, tables_agree t rows = true ->
  cg2 g = Some g' -> t_g2 t g p = Some b ->
  scratch_ok p b = true /\
  exists r, In r rows /\ r_gate r = VG2 g' /\ r_place r = cplace p /\ r_seq r = conv_block p b.
Proof.
  intros t rows g g' p b H Hg Hb. unfold tables_agree in H. apply andb_true_iff in H. destruct H as [_ H].
  rewrite forallb_forall in H. specialize (H g ltac:(destruct g; simpl; tauto)).
  rewrite forallb_forall in H. specialize (H p ltac:(destruct p; simpl; tauto)).
  rewrite Hg, Hb in H. apply andb_true_iff in H. destruct H as [Hs H]. split; [exact Hs|].
  apply existsb_exists in H. destruct H as [r [Hin Hr]]. exists r. split; [exact Hin|].
  unfold row_is_g2 in Hr. apply andb_true_iff in Hr. destruct Hr as [Hr Hq].
  apply andb_true_iff in Hr. destruct Hr as [Hgg Hp].
  apply qops_eqb_eq in Hq. apply place_eqb_eq in Hp.
  destruct (r_gate r) eqn:Eg; try discriminate. apply g2_eqb_eq in Hgg. subst. auto.
Qed.

(* ------------------------------------------------------------------ the action *)
Section ActLaws.
  Variable QS : Type.
  Variable qeq : QS -> QS -> Prop.
  Variable act : list Z -> mat -> QS -> QS.
  Variable rot_op crot_op : QMat.axis -> Z -> Z -> mat.
  Variable other : event -> QS -> QS.
  Variable c : config.

  Hypothesis qeq_refl : forall a, qeq a a.
  Hypothesis qeq_sym : forall a b, qeq a b -> qeq b a.
  Hypothesis qeq_trans : forall a b d, qeq a b -> qeq b d -> qeq a d.
  Hypothesis act_proper : forall W M a b, qeq a b -> qeq (act W M a) (act W M b).
  Hypothesis other_proper : forall e a b, qeq a b -> qeq (other e a) (other e b).
  (* the action is a (projective) representation of operators on the wires W *)
  Hypothesis act_mul : forall W A B psi, NoDup W ->
    dims_ok (2 ^ List.length W) (2 ^ List.length W) A = true ->
    dims_ok (2 ^ List.length W) (2 ^ List.length W) B = true ->
    qeq (act W (mmul B A) psi) (act W B (act W A psi)).
  Hypothesis act_id : forall W psi, NoDup W -> qeq (act W (mid (2 ^ List.length W)) psi) psi.
  Hypothesis act_phase : forall W p M psi, NoDup W ->
    dims_ok (2 ^ List.length W) (2 ^ List.length W) M = true ->
    qeq (act W (mscale (kw p) M) psi) (act W M psi).
  (* locality: an operator embedded on sub-wires acts as the operator on those qubits *)
  Hypothesis act_embed : forall W ws G psi, NoDup W -> embed_ok (List.length W) ws G = true ->
    qeq (act W (embed (List.length W) ws G) psi) (act (map (fun i => nth i W 0%Z) ws) G psi).
  (* rotations: on exactly representable angles the operator is the exact matrix; the
     operator depends on the angle n*pi/2^d only *)
  Hypothesis rot_exact : forall a n d k, half_units n d = Some k -> rot_op a n d = rot_k a k.
  Hypothesis crot_exact : forall a n d k, half_units n d = Some k -> crot_op a n d = crot_k a k.
  Hypothesis rot_angle_only : forall a n d, (0 <= d <= 4)%Z -> rot_op a (n * 2 ^ (4 - d)) 4 = rot_op a n d.

  Let prim := apply_prim QS act rot_op crot_op other.
  Let aev := apply_ev QS act rot_op crot_op other c.
  Let fold_prim (es : list event) (psi : QS) := fold_left (fun a x => prim x a) es psi.

  Lemma prim_proper : forall e a b, qeq a b -> qeq (prim e a) (prim e b).
  Proof.
    intros e a b H. unfold prim, apply_prim. destruct e; try (apply other_proper; exact H); try (apply act_proper; exact H).
    destruct (cg2 g); [apply act_proper | apply other_proper]; exact H.
  Qed.

  Lemma fold_prim_proper : forall es a b, qeq a b -> qeq (fold_prim es a) (fold_prim es b).
  Proof.
    induction es as [|e es IH]; intros a b H; simpl; [exact H|]. apply IH. apply prim_proper. exact H.
  Qed.

  Definition not_mov (e : event) : Prop := match e with EvG2 Mov _ _ => False | _ => True end.

  Lemma aev_prim : forall e psi, not_mov e -> aev e psi = prim e psi.
  Proof. intros e psi H. unfold aev, apply_ev. destruct e; try reflexivity. destruct g; try reflexivity. contradiction. Qed.

  Lemma run_q_prim : forall es psi, Forall not_mov es -> run_q QS aev es psi = fold_prim es psi.
  Proof.
    induction es as [|e es IH]; intros psi H; [reflexivity|]. inversion H; subst.
    unfold run_q in *. simpl. rewrite aev_prim by assumption. apply IH. assumption.
  Qed.

  Lemma aev_proper : forall e a b, qeq a b -> qeq (aev e a) (aev e b).
  Proof.
    intros e a b H. unfold aev, apply_ev.
    destruct e; try (apply prim_proper; exact H).
    destruct g; try (apply prim_proper; exact H).
    destruct (expand_event c (EvG2 Mov q0 q1)); [apply fold_prim_proper | apply other_proper]; exact H.
  Qed.

  (* executing the converted items = acting with the accumulated circuit matrix *)
  Lemma items_act : forall p n W sv q0 q1 items acc U psi,
    List.length W = n -> NoDup W ->
    (forall r, nth (role_wire p r) W 0%Z = role_val sv q0 q1 r) ->
    dims_ok (2 ^ n) (2 ^ n) acc = true ->
    circuit_from n (flat_map (conv_item p) items) acc = Some U ->
    qeq (act W U psi) (fold_prim (flat_map (item_events sv q0 q1) items) (act W acc psi)).
  Proof.
    intros p n W sv q0 q1 items. induction items as [|it items IH]; intros acc U psi Hn Hnd Hw Hd Hc.
    - simpl in *. inversion Hc; subst. apply qeq_refl.
    - destruct it as [ax r nn d|ax a b nn d|t].
      + simpl in Hc. destruct (half_units nn d) as [k|] eqn:Ek; [|discriminate].
        destruct (embed_ok n [role_wire p r] (rot_k (cax ax) k)) eqn:Eok; [|discriminate].
        assert (Hd' : dims_ok (2 ^ n) (2 ^ n) (mmul (embed n [role_wire p r] (rot_k (cax ax) k)) acc) = true)
          by (apply mmul_dims with (k := 2 ^ n); [apply pow2_pos | apply embed_dims | exact Hd]).
        specialize (IH _ U psi Hn Hnd Hw Hd' Hc).
        eapply qeq_trans; [exact IH|]. simpl. apply fold_prim_proper.
        eapply qeq_trans; [apply act_mul; rewrite ?Hn; [exact Hnd | exact Hd | apply embed_dims]|].
        eapply qeq_trans; [rewrite <- Hn; apply act_embed; [exact Hnd | rewrite Hn; exact Eok]|].
        simpl. rewrite Hw. unfold prim, apply_prim. rewrite (rot_exact _ _ _ _ Ek). apply qeq_refl.
      + simpl in Hc. destruct (half_units nn d) as [k|] eqn:Ek; [|discriminate].
        destruct (embed_ok n [role_wire p a; role_wire p b] (crot_k (cax ax) k)) eqn:Eok; [|discriminate].
        assert (Hd' : dims_ok (2 ^ n) (2 ^ n) (mmul (embed n [role_wire p a; role_wire p b] (crot_k (cax ax) k)) acc) = true)
          by (apply mmul_dims with (k := 2 ^ n); [apply pow2_pos | apply embed_dims | exact Hd]).
        specialize (IH _ U psi Hn Hnd Hw Hd' Hc).
        eapply qeq_trans; [exact IH|]. simpl. apply fold_prim_proper.
        eapply qeq_trans; [apply act_mul; rewrite ?Hn; [exact Hnd | exact Hd | apply embed_dims]|].
        eapply qeq_trans; [rewrite <- Hn; apply act_embed; [exact Hnd | rewrite Hn; exact Eok]|].
        simpl. rewrite !Hw. unfold prim, apply_prim. rewrite (crot_exact _ _ _ _ Ek). apply qeq_refl.
      + simpl in Hc |- *. apply IH; assumption.
  Qed.

  Lemma g1_act : forall q (l : list (Transpile.axis * Z * Z)) acc U psi,
    dims_ok 2 2 acc = true ->
    circuit_from 1 (conv_g1 l) acc = Some U ->
    qeq (act [q] U psi) (fold_prim (map (fun '(ax, n, d) => EvRot ax q n d) l) (act [q] acc psi)).
  Proof.
    intros q l. induction l as [|[[ax nn] d] l IH]; intros acc U psi Hd Hc.
    - cbn [conv_g1 map circuit_from] in Hc. inversion Hc; subst. apply qeq_refl.
    - cbn [conv_g1 map circuit_from op_gate] in Hc. fold (conv_g1 l) in Hc.
      destruct (half_units nn d) as [k|] eqn:Ek; [|discriminate].
      destruct (embed_ok 1 [0] (rot_k (cax ax) k)) eqn:Eok; [|discriminate].
      assert (Hd' : dims_ok 2 2 (mmul (embed 1 [0] (rot_k (cax ax) k)) acc) = true)
        by (apply mmul_dims with (k := 2); [lia | apply (embed_dims 1) | exact Hd]).
      specialize (IH _ U psi Hd' Hc).
      eapply qeq_trans; [exact IH|]. unfold fold_prim. cbn [map fold_left]. apply fold_prim_proper.
      assert (Hnd : NoDup [q]) by (constructor; [intros [] | constructor]).
      eapply qeq_trans; [apply (act_mul [q]); [exact Hnd | exact Hd | apply (embed_dims 1)]|].
      eapply qeq_trans; [apply (act_embed [q] [0]); [exact Hnd | exact Eok]|].
      cbn [map nth]. unfold prim, apply_prim. rewrite (rot_exact _ _ _ _ Ek). apply qeq_refl.
  Qed.

  Lemma item_events_not_mov : forall sv q0 q1 items, Forall not_mov (flat_map (item_events sv q0 q1) items).
  Proof.
    induction items as [|it items IH]; simpl; [constructor|].
    destruct it; simpl; try (constructor; [exact I | exact IH]). exact IH.
  Qed.

  Lemma kron_mid_embed : forall g, kron (mid 2) (g2_mat g) = embed 3 [1; 2] (g2_mat g).
  Proof. intro g. apply meqb_eq. destruct g; vm_compute; reflexivity. Qed.

  (* block soundness from C07's rows *)
  Theorem blocks_sound_from_rows : forall rows,
    (forall r, In r rows -> row_spec r) ->
    tables_agree (c_tab c) rows = true ->
    blocks_sound QS qeq aev c.
  Proof.
    intros rows Hrows Hag e es psi He.
    destruct e; simpl in He;
      try (inversion He; subst; unfold run_q; simpl; apply qeq_refl).
    - (* single-qubit gate *)
      inversion He; subst es. clear He.
      destruct (agree_g1 _ _ g Hag) as [r [Hin [Hg [Hp Hs]]]].
      pose proof (Hrows r Hin) as Hspec. unfold row_spec in Hspec. rewrite Hg, Hp, Hs in Hspec.
      destruct Hspec as [U [G [Hc [HG [ph [_ HU]]]]]]. simpl in HG. inversion HG; subst G.
      rewrite run_q_prim.
      2:{ apply Forall_forall. intros x Hx. apply in_map_iff in Hx. destruct Hx as [[[ax n] d] [Hx _]]. subst. exact I. }
      assert (Hnd : NoDup [q]) by (constructor; [intros [] | constructor]).
      unfold circuit in Hc.
      pose proof (g1_act q (t_g1 (c_tab c) g) (mid 2) U psi (mid_dims 2) Hc) as H1.
      apply qeq_sym. rewrite aev_prim by exact I. unfold prim, apply_prim.
      eapply qeq_trans; [|eapply qeq_trans; [exact H1|]].
      + apply qeq_sym. rewrite HU. apply act_phase; [exact Hnd|]. destruct g; reflexivity.
      + apply fold_prim_proper. apply (act_id [q]). exact Hnd.
    - (* rotation *)
      destruct (Transpile.rot_angle (c_hw c) n d) as [[n' d']|] eqn:Er; [|discriminate]. inversion He; subst es. clear He.
      unfold run_q. cbn [fold_left]. rewrite !aev_prim by exact I. unfold prim, apply_prim.
      unfold Transpile.rot_angle in Er. destruct (c_hw c).
      + destruct ((0 <=? d)%Z && (d <=? 4)%Z) eqn:Ed; [|discriminate].
        assert (Hnd' : n' = (n * 2 ^ (4 - d))%Z /\ d' = 4%Z) by (split; congruence).
        destruct Hnd' as [-> ->]. clear Er.
        apply andb_true_iff in Ed. destruct Ed as [E1 E2]. apply Z.leb_le in E1. apply Z.leb_le in E2.
        rewrite rot_angle_only by lia. apply qeq_refl.
      + inversion Er; subst. apply qeq_refl.
    - (* two-qubit gate *)
      destruct (placement_of q0 q1) as [p|] eqn:Ep; [|discriminate].
      destruct (t_g2 (c_tab c) g p) as [b|] eqn:Eb; [|discriminate]. inversion He; subst es. clear He.
      rewrite run_q_prim by apply item_events_not_mov.
      destruct (cg2 g) as [g'|] eqn:Eg.
      2:{ (* mov: defined as its transfer circuit *)
          destruct g; try discriminate. unfold aev, apply_ev. simpl. rewrite Ep, Eb. apply qeq_refl. }
      destruct (agree_g2 _ _ g g' p b Hag Eg Eb) as [Hsc [r [Hin [Hg [Hp Hs]]]]].
      pose proof (Hrows r Hin) as Hspec. unfold row_spec in Hspec. rewrite Hg, Hp, Hs in Hspec.
      destruct Hspec as [U [G [Hc [HG [ph [_ HU]]]]]].
      assert (Haev : aev (EvG2 g q0 q1) psi = act [q0; q1] (g2_mat g') psi).
      { rewrite aev_prim by (destruct g; try exact I; discriminate). unfold prim, apply_prim. rewrite Eg. reflexivity. }
      rewrite Haev. unfold block_events.
      unfold placement_of in Ep.
      destruct (Z.eqb q0 q1) eqn:E01; [discriminate|]. apply Z.eqb_neq in E01.
      destruct (Z.eqb q0 0) eqn:E0.
      + (* electron-carbon *)
        inversion Ep; subst p. apply Z.eqb_eq in E0. simpl in Hsc. destruct (b_scratch b); [discriminate|].
        simpl in HG. inversion HG; subst G. unfold circuit in Hc.
        assert (Hnd : NoDup [q0; q1]).
        { constructor; [intros [H|[]]; congruence|]. constructor; [intros []|constructor]. }
        pose proof (items_act EC 2 [q0; q1] q0 q0 q1 (b_items b) (mid 4) U psi eq_refl Hnd
                              ltac:(intros []; reflexivity) (mid_dims 4) Hc) as H1.
        apply qeq_sym. eapply qeq_trans; [|eapply qeq_trans; [exact H1|]].
        * apply qeq_sym. rewrite HU. apply act_phase; [exact Hnd|]. destruct g'; reflexivity.
        * apply fold_prim_proper. apply (act_id [q0; q1]). exact Hnd.
      + destruct (Z.eqb q1 0) eqn:E1.
        * (* carbon-electron: wires [electron; carbon] = [q1; q0] *)
          inversion Ep; subst p. simpl in Hsc. destruct (b_scratch b); [discriminate|].
          simpl in HG. inversion HG; subst G. unfold circuit in Hc.
          assert (Hnd : NoDup [q1; q0]).
          { constructor; [intros [H|[]]; congruence|]. constructor; [intros []|constructor]. }
          pose proof (items_act CE 2 [q1; q0] q0 q0 q1 (b_items b) (mid 4) U psi eq_refl Hnd
                                ltac:(intros []; reflexivity) (mid_dims 4) Hc) as H1.
          apply qeq_sym. eapply qeq_trans; [|eapply qeq_trans; [exact H1|]].
          -- apply qeq_sym. rewrite HU.
             eapply qeq_trans; [apply act_phase; [exact Hnd | apply (embed_dims 2)]|].
             eapply qeq_trans; [apply (act_embed [q1; q0] [1; 0]); [exact Hnd | destruct g'; reflexivity]|].
             simpl. apply qeq_refl.
          -- apply fold_prim_proper. apply (act_id [q1; q0]). exact Hnd.
        * (* carbon-carbon: wires [electron 0; q0; q1] *)
          inversion Ep; subst p. apply Z.eqb_neq in E0. apply Z.eqb_neq in E1.
          simpl in Hsc. destruct (b_scratch b) as [v|]; [|discriminate]. apply Z.eqb_eq in Hsc. subst v.
          assert (HGe : G = kron (mid 2) (g2_mat g')) by (cbn [gate_spec cplace] in HG; congruence). subst G. clear HG. unfold circuit in Hc.
          assert (Hnd : NoDup [0%Z; q0; q1]).
          { constructor; [intros [H|[H|[]]]; congruence|].
            constructor; [intros [H|[]]; congruence|]. constructor; [intros []|constructor]. }
          pose proof (items_act CC 3 [0%Z; q0; q1] 0%Z q0 q1 (b_items b) (mid 8) U psi eq_refl Hnd
                                ltac:(intros []; reflexivity) (mid_dims 8) Hc) as H1.
          apply qeq_sym. eapply qeq_trans; [|eapply qeq_trans; [exact H1|]].
          -- apply qeq_sym. rewrite HU, kron_mid_embed.
             eapply qeq_trans; [apply act_phase; [exact Hnd | apply (embed_dims 3)]|].
             eapply qeq_trans; [apply (act_embed [0%Z; q0; q1] [1; 2]); [exact Hnd | destruct g'; reflexivity]|].
             simpl. apply qeq_refl.
          -- apply fold_prim_proper. apply (act_id [0%Z; q0; q1]). exact Hnd.
  Qed.

  (* the quantum half of the simulation with block soundness DISCHARGED *)
  Theorem transpile_simulates_quantum_c07 : forall rows env p p' s0 fuel pcf sf psi,
    (forall r, In r rows -> row_spec r) ->
    tables_agree (c_tab c) rows = true ->
    transpile c p = Ok p' -> scratch_fresh c p -> trace s0 = [] ->
    tracked_run env c p fuel 0 s0 = true ->
    run env p fuel 0 s0 = (Halted, pcf, sf) ->
    exists fuel' pcf' sf',
      run env (erase p') fuel' 0 s0 = (Halted, pcf', sf') /\
      agree (clobbered c p) (regs sf) (regs sf') /\ arrs sf = arrs sf' /\ script sf = script sf' /\
      qeq (run_q QS aev (trace sf') psi) (run_q QS aev (trace sf) psi).
  Proof.
    intros rows env p p' s0 fuel pcf sf psi Hrows Hag Ht Hfr Htr0 Htr Hrun.
    exact (transpile_simulates_quantum QS qeq aev qeq_refl qeq_trans aev_proper env c p p' s0 fuel pcf sf psi
             Ht Hfr (blocks_sound_from_rows rows Hrows Hag) Htr0 Htr Hrun).
  Qed.
End ActLaws.
