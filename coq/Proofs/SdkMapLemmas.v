(* SdkMapLemmas.v — association lists of the SDK models (alook/adel of MemMgr, alookup/aset/
   aremove/lset of Eval), the qubit-id chooser. *)
From Coq Require Import ZArith List Bool Arith Lia.
From NQ Require Import Sdk.SdkAst Sdk.Target Sdk.Eval Sdk.MemMgr.
Import ListNotations.
Local Open Scope nat_scope.

(* ---- MemMgr.alook / adel *)
Lemma alook_adel_other : forall A (l : list (nat * A)) k k', k <> k' -> alook k (adel k' l) = alook k l.
Proof.
  induction l as [|[k0 v] l IH]; intros k k' H; simpl; [reflexivity|].
  destruct (Nat.eqb k' k0) eqn:E.
  - apply Nat.eqb_eq in E. subst. destruct (Nat.eqb k k0) eqn:E2; [apply Nat.eqb_eq in E2; congruence|reflexivity].
  - simpl. destruct (Nat.eqb k k0); [reflexivity|]. apply IH. exact H.
Qed.

Lemma alook_none_notin : forall A (l : list (nat * A)) k, alook k l = None <-> ~ In k (map fst l).
Proof.
  induction l as [|[k0 v] l IH]; intros k; simpl; [tauto|].
  destruct (Nat.eqb k k0) eqn:E.
  - apply Nat.eqb_eq in E. subst. split; [discriminate|]. intro H. exfalso. apply H. left; reflexivity.
  - apply Nat.eqb_neq in E. rewrite IH. split; intro H; [intros [H1|H1]; [congruence|tauto]|tauto].
Qed.

Lemma alook_some_in : forall A (l : list (nat * A)) k v, alook k l = Some v -> In (k, v) l.
Proof.
  induction l as [|[k0 v0] l IH]; intros k v H; simpl in *; [discriminate|].
  destruct (Nat.eqb k k0) eqn:E; [apply Nat.eqb_eq in E; inversion H; subst; left; reflexivity|right; auto].
Qed.

Lemma alook_adel_same : forall A (l : list (nat * A)) k, NoDup (map fst l) -> alook k (adel k l) = None.
Proof.
  induction l as [|[k0 v] l IH]; intros k ND; simpl; [reflexivity|].
  inversion ND; subst.
  destruct (Nat.eqb k k0) eqn:E.
  - apply Nat.eqb_eq in E. subst. apply alook_none_notin. assumption.
  - simpl. rewrite E. apply IH. assumption.
Qed.

Lemma adel_map_fst_incl : forall A (l : list (nat * A)) k x, In x (map fst (adel k l)) -> In x (map fst l).
Proof.
  induction l as [|[k0 v] l IH]; intros k x H; simpl in *; [exact H|].
  destruct (Nat.eqb k k0); [right; exact H|]. simpl in H. destruct H; [left; assumption|right; eauto].
Qed.

Lemma adel_nodup_fst : forall A (l : list (nat * A)) k, NoDup (map fst l) -> NoDup (map fst (adel k l)).
Proof.
  induction l as [|[k0 v] l IH]; intros k ND; simpl; [constructor|].
  inversion ND; subst. destruct (Nat.eqb k k0); [assumption|].
  simpl. constructor; [|apply IH; assumption]. intro H. apply H1. eapply adel_map_fst_incl; eauto.
Qed.

Lemma adel_map_snd_incl : forall (l : list (nat * nat)) k x, In x (map snd (adel k l)) -> In x (map snd l).
Proof.
  induction l as [|[k0 v] l IH]; intros k x H; simpl in *; [exact H|].
  destruct (Nat.eqb k k0); [right; exact H|]. simpl in H. destruct H; [left; assumption|right; eauto].
Qed.

Lemma adel_nodup_snd : forall (l : list (nat * nat)) k, NoDup (map snd l) -> NoDup (map snd (adel k l)).
Proof.
  induction l as [|[k0 v] l IH]; intros k ND; simpl; [constructor|].
  inversion ND; subst. destruct (Nat.eqb k k0); [assumption|].
  simpl. constructor; [|apply IH; assumption]. intro H. apply H1. eapply adel_map_snd_incl; eauto.
Qed.

(* the id of a deleted handle is no longer in use *)
Lemma adel_snd_gone : forall (l : list (nat * nat)) k id,
  NoDup (map snd l) -> alook k l = Some id -> ~ In id (map snd (adel k l)).
Proof.
  induction l as [|[k0 v] l IH]; intros k id ND H; simpl in *; [discriminate|].
  inversion ND; subst. destruct (Nat.eqb k k0) eqn:E.
  - inversion H; subst. assumption.
  - simpl. intros [H1|H1].
    + subst. apply H2. apply alook_some_in in H. apply in_map with (f := snd) in H. exact H.
    + eapply IH; eauto.
Qed.

Lemma alook_app_none : forall A (l : list (nat * A)) k x, alook k l = None -> alook k (l ++ [x]) = alook k [x].
Proof.
  induction l as [|[k0 v] l IH]; intros k x H; simpl in *; [reflexivity|].
  destruct (Nat.eqb k k0); [discriminate|]. apply IH. exact H.
Qed.
Lemma alook_app_some : forall A (l : list (nat * A)) k x v, alook k l = Some v -> alook k (l ++ [x]) = Some v.
Proof.
  induction l as [|[k0 v0] l IH]; intros k x v H; simpl in *; [discriminate|].
  destruct (Nat.eqb k k0); [exact H|]. apply IH. exact H.
Qed.

(* ---- Eval.alookup / aset / aremove *)
Lemma alookup_aset_same : forall A (l : list (nat * A)) k v, alookup k (aset k v l) = Some v.
Proof.
  induction l as [|[k0 v0] l IH]; intros k v; simpl; [rewrite Nat.eqb_refl; reflexivity|].
  destruct (Nat.eqb k k0) eqn:E; simpl; [rewrite Nat.eqb_refl; reflexivity|].
  destruct (Nat.ltb k k0); simpl; [rewrite Nat.eqb_refl; reflexivity|]. rewrite E. apply IH.
Qed.
Lemma alookup_aset_other : forall A (l : list (nat * A)) k k' v, k <> k' -> alookup k (aset k' v l) = alookup k l.
Proof.
  induction l as [|[k0 v0] l IH]; intros k k' v H; simpl.
  - destruct (Nat.eqb k k') eqn:E; [apply Nat.eqb_eq in E; congruence|reflexivity].
  - destruct (Nat.eqb k' k0) eqn:E.
    + apply Nat.eqb_eq in E. subst. simpl.
      destruct (Nat.eqb k k0) eqn:E2; [apply Nat.eqb_eq in E2; congruence|reflexivity].
    + destruct (Nat.ltb k' k0); simpl.
      * destruct (Nat.eqb k k') eqn:E2; [apply Nat.eqb_eq in E2; congruence|reflexivity].
      * destruct (Nat.eqb k k0); [reflexivity|]. apply IH. exact H.
Qed.
Lemma alookup_aremove_other : forall A (l : list (nat * A)) k k', k <> k' -> alookup k (aremove k' l) = alookup k l.
Proof.
  induction l as [|[k0 v] l IH]; intros k k' H; simpl; [reflexivity|].
  destruct (Nat.eqb k' k0) eqn:E.
  - apply Nat.eqb_eq in E. subst. destruct (Nat.eqb k k0) eqn:E2; [apply Nat.eqb_eq in E2; congruence|reflexivity].
  - simpl. destruct (Nat.eqb k k0); [reflexivity|]. apply IH. exact H.
Qed.
Lemma alookup_none_notin : forall A (l : list (nat * A)) k, alookup k l = None <-> ~ In k (map fst l).
Proof.
  induction l as [|[k0 v] l IH]; intros k; simpl; [tauto|].
  destruct (Nat.eqb k k0) eqn:E.
  - apply Nat.eqb_eq in E. subst. split; [discriminate|]. intro H. exfalso. apply H. left; reflexivity.
  - apply Nat.eqb_neq in E. rewrite IH. split; intro H; [intros [H1|H1]; [congruence|tauto]|tauto].
Qed.
Lemma alookup_aremove_same : forall A (l : list (nat * A)) k, NoDup (map fst l) -> alookup k (aremove k l) = None.
Proof.
  induction l as [|[k0 v] l IH]; intros k ND; simpl; [reflexivity|].
  inversion ND; subst.
  destruct (Nat.eqb k k0) eqn:E.
  - apply Nat.eqb_eq in E. subst. apply alookup_none_notin. assumption.
  - simpl. rewrite E. apply IH. assumption.
Qed.
Lemma aremove_fst_incl : forall A (l : list (nat * A)) k x, In x (map fst (aremove k l)) -> In x (map fst l).
Proof.
  induction l as [|[k0 v] l IH]; intros k x H; simpl in *; [exact H|].
  destruct (Nat.eqb k k0); [right; exact H|]. simpl in H. destruct H; [left; assumption|right; eauto].
Qed.
Lemma aremove_nodup : forall A (l : list (nat * A)) k, NoDup (map fst l) -> NoDup (map fst (aremove k l)).
Proof.
  induction l as [|[k0 v] l IH]; intros k ND; simpl; [constructor|].
  inversion ND; subst. destruct (Nat.eqb k k0); [assumption|].
  simpl. constructor; [|apply IH; assumption]. intro H. apply H1. eapply aremove_fst_incl; eauto.
Qed.

(* ---- lists *)
Lemma lset_some : forall A (l : list A) k x v,
  nth_error l k = Some x -> exists l', lset l k v = Some l' /\ List.length l' = List.length l.
Proof.
  induction l as [|y l IH]; intros [|k] x v H; cbn in *; try discriminate.
  - eexists. split; [reflexivity|reflexivity].
  - destruct (IH _ _ v H) as (l' & E & L). rewrite E. eexists. split; [reflexivity|]. cbn. congruence.
Qed.
Lemma lset_list_set : forall A (l : list A) k v, lset l k v = list_set l k v.
Proof. induction l as [|y l IH]; intros [|k] v; cbn; try reflexivity. Qed.
Lemma lset_length : forall A (l l' : list A) k v, lset l k v = Some l' -> List.length l' = List.length l.
Proof.
  induction l as [|y l IH]; intros l' [|k] v H; cbn in *; try discriminate.
  - inversion H; reflexivity.
  - destruct (lset l k v) eqn:E; [|discriminate]. inversion H; subst. cbn. f_equal. eauto.
Qed.
Lemma lset_inbounds : forall A (l l' : list A) k v, lset l k v = Some l' -> k < List.length l.
Proof.
  induction l as [|y l IH]; intros l' [|k] v H; cbn in *; try discriminate; try lia.
  destruct (lset l k v) eqn:E; [|discriminate]. apply IH in E. lia.
Qed.

(* ---- get_new_qubit_address *)
Lemma first_free_id_not_used : forall used fuel i,
  (forall j, i <= j < i + fuel -> In j used) \/ ~ In (first_free_id used fuel i) used.
Proof.
  intros used fuel. induction fuel as [|f IH]; intro i; simpl.
  - left. intros j Hj. lia.
  - destruct (existsb (Nat.eqb i) used) eqn:E.
    + destruct (IH (S i)) as [H|H]; [|right; exact H].
      left. intros j Hj. destruct (Nat.eq_dec j i) as [->|Hn].
      * apply existsb_exists in E. destruct E as (x & Hx & Ex). apply Nat.eqb_eq in Ex. subst. exact Hx.
      * apply H. lia.
    + right. intro Hin. assert (existsb (Nat.eqb i) used = true).
      { apply existsb_exists. exists i. split; [exact Hin|apply Nat.eqb_refl]. }
      congruence.
Qed.

Lemma new_qubit_id_fresh : forall st, ~ In (new_qubit_id st) (map snd (l_q st)).
Proof.
  intro st. unfold new_qubit_id. set (used := map snd (l_q st)).
  destruct (first_free_id_not_used used (S (List.length used)) 0) as [H|H]; [|exact H].
  exfalso. assert (I : incl (seq 0 (S (List.length used))) used).
  { intros j Hj. apply in_seq in Hj. apply H. lia. }
  apply (NoDup_incl_length (seq_NoDup _ _)) in I. rewrite seq_length in I. lia.
Qed.
