(* EprBuildProofs.v — proofs about Sdk/EprBuild.v (C10 b, c): for every number of pairs
   n, every list of qubit IDs and every tuple of Bell states, the gate events produced by
   the emitted correction code, per variant.  Induction on the loop counter
   ([loop_iter_inv]); the inner loops (index arithmetic by repeated addition) have their
   own invariants. *)
From Coq Require Import ZArith List Bool String Lia Arith.
From NQ Require Import Sdk.EprBuild.
Import ListNotations.
Open Scope string_scope.
Open Scope Z_scope.

(* ------------------------------------------------------------------ unfolding the interpreter *)
Lemma exec_seq_eq : forall fuel cs s,
  (fix el (cs : list code) (s : st) {struct cs} : res :=
     match cs with
     | [] => Ok s
     | c' :: cs' => match exec fuel c' s with Ok s' => el cs' s' | r => r end
     end) cs s = exec_list fuel cs s.
Proof.
  intros fuel cs. induction cs as [|c cs IH]; intros s; [reflexivity|].
  unfold exec_list in *. cbn [exec_list_with]. destruct (exec fuel c s); [apply IH|reflexivity|reflexivity].
Qed.

Lemma loop_iter_ext : forall f g l stop k s,
  (forall s, f s = g s) -> loop_iter f l stop k s = loop_iter g l stop k s.
Proof.
  intros f g l stop k. induction k as [|k IH]; intros s H; [reflexivity|].
  cbn [loop_iter]. destruct (regs s l); [|reflexivity]. destruct (eval stop s); [|reflexivity].
  destruct (z =? z0); [reflexivity|]. rewrite H. destruct (g s); try reflexivity.
  destruct (regs s0 l); [|reflexivity]. now apply IH.
Qed.

Lemma exec_ifeq : forall fuel r z body s,
  exec fuel (CIfEq r z body) s =
  match regs s r with
  | Some v => if v =? z then exec_list fuel body s else Ok s
  | None => Fault end.
Proof.
  intros. cbn [exec]. destruct (regs s r); [|reflexivity]. destruct (z0 =? z); [|reflexivity].
  apply exec_seq_eq.
Qed.

Lemma exec_ifne : forall fuel r z body s,
  exec fuel (CIfNe r z body) s =
  match regs s r with
  | Some v => if v =? z then Ok s else exec_list fuel body s
  | None => Fault end.
Proof.
  intros. cbn [exec]. destruct (regs s r); [|reflexivity]. destruct (z0 =? z); [reflexivity|].
  apply exec_seq_eq.
Qed.

Lemma exec_loop : forall fuel l stop body s,
  exec fuel (CLoop l stop body) s = loop_iter (exec_list fuel body) l stop fuel (setreg l 0 s).
Proof. intros. cbn [exec]. apply loop_iter_ext. intros s0. apply exec_seq_eq. Qed.

Lemma exec_list_cons : forall fuel c cs s,
  exec_list fuel (c :: cs) s = match exec fuel c s with Ok s' => exec_list fuel cs s' | r => r end.
Proof. reflexivity. Qed.

Lemma exec_list_nil : forall fuel s, exec_list fuel [] s = Ok s.
Proof. reflexivity. Qed.

Lemma exec_list_app : forall fuel a b s,
  exec_list fuel (a ++ b) s = match exec_list fuel a s with Ok s' => exec_list fuel b s' | r => r end.
Proof.
  intros fuel a. induction a as [|c a IH]; intros b s; [reflexivity|].
  rewrite <- app_comm_cons, !exec_list_cons. destruct (exec fuel c s); auto.
Qed.

(* ------------------------------------------------------------------ counted loops *)
Lemma loop_iter_inv : forall (bodyf : st -> res) l stop (n : nat) (Inv : nat -> st -> Prop),
  (forall i s, (i < n)%nat -> Inv i s ->
     exists s', bodyf s = Ok s' /\ regs s' l = Some (Z.of_nat i) /\
                Inv (S i) (setreg l (Z.of_nat i + 1) s')) ->
  (forall i s, Inv i s -> regs s l = Some (Z.of_nat i) /\ eval stop s = Some (Z.of_nat n)) ->
  forall d i s k, (i + d = n)%nat -> (d < k)%nat -> Inv i s ->
  exists s', loop_iter bodyf l stop k s = Ok s' /\ Inv n s'.
Proof.
  intros bodyf l stop n Inv Hstep Hreg d. induction d as [|d IH]; intros i s k Hi Hk HI.
  - destruct k as [|k]; [lia|]. assert (i = n) by lia. subst i.
    destruct (Hreg _ _ HI) as [H1 H2]. cbn [loop_iter]. rewrite H1, H2, Z.eqb_refl.
    exists s. auto.
  - destruct k as [|k]; [lia|]. destruct (Hreg _ _ HI) as [H1 H2].
    cbn [loop_iter]. rewrite H1, H2.
    destruct (Z.of_nat i =? Z.of_nat n) eqn:E; [apply Z.eqb_eq in E; lia|].
    destruct (Hstep i s ltac:(lia) HI) as [s' [Hb [Hl HI']]].
    rewrite Hb, Hl. apply (IH (S i)); [lia|lia|exact HI'].
Qed.

(* ------------------------------------------------------------------ memory layout *)
Lemma resp_row_length : forall ok bpos b, (bpos < ok)%nat -> List.length (resp_row ok bpos b) = ok.
Proof. intros. unfold resp_row. rewrite !app_length, !repeat_length. cbn [List.length]. lia. Qed.

Lemma resp_row_bell : forall ok bpos b, nth_error (resp_row ok bpos b) bpos = Some (Some b).
Proof.
  intros. unfold resp_row. rewrite nth_error_app2 by (rewrite repeat_length; lia).
  rewrite repeat_length, Nat.sub_diag. reflexivity.
Qed.

Lemma res_array_bell : forall ok bpos bells i b, (bpos < ok)%nat ->
  nth_error bells i = Some b ->
  nth_error (res_array ok bpos bells) (i * ok + bpos) = Some (Some b).
Proof.
  intros ok bpos bells. induction bells as [|b0 bells IH]; intros i b Hlt Hi; [destruct i; discriminate|].
  unfold res_array. cbn [flat_map]. fold (res_array ok bpos bells).
  destruct i as [|i].
  - cbn [nth_error] in Hi. inversion Hi; subst. rewrite Nat.mul_0_l, Nat.add_0_l.
    rewrite nth_error_app1 by (rewrite resp_row_length; lia). apply resp_row_bell.
  - cbn [nth_error] in Hi. rewrite nth_error_app2 by (rewrite resp_row_length; lia).
    rewrite resp_row_length by lia. replace (S i * ok + bpos - ok)%nat with (i * ok + bpos)%nat by lia.
    now apply IH.
Qed.

(* ------------------------------------------------------------------ blocks *)
(* what every block leaves alone: the pair counter, the arrays, (or extends) the trace *)
Definition keeps (s s' : st) : Prop :=
  regs s' rL = regs s rL /\ arrs s' = arrs s /\ trace s' = trace s.

Lemma keeps_refl : forall s, keeps s s.
Proof. intros s. repeat split. Qed.

Lemma keeps_trans : forall a b c, keeps a b -> keeps b c -> keeps a c.
Proof. intros a b c [A1 [A2 A3]] [B1 [B2 B3]]. repeat split; congruence. Qed.

(* _get_raw_bell_state: index_reg = IDX_BELL_STATE + LEN * pair, then load *)
Lemma bell_block : forall fuel p ok bpos s (i : nat) b bells,
  b_bell_idx p = Z.of_nat bpos -> b_len p = Z.of_nat ok -> (bpos < ok)%nat ->
  regs s rL = Some (Z.of_nat i) -> (i < fuel)%nat ->
  arrs s (b_res p) = res_array ok bpos bells -> nth_error bells i = Some b ->
  exists s', exec_list fuel (bell_code p) s = Ok s' /\ keeps s s' /\
             regs s' rB = Some b /\ regs s' rQ = regs s rQ.
Proof.
  intros fuel p ok bpos s i b bells Hidx Hlen Hlt HL Hfuel Harr Hb.
  unfold bell_code. rewrite exec_list_cons. cbn [exec]. rewrite exec_list_cons, exec_loop.
  set (s1 := setreg rJ 0 (setreg rI (b_bell_idx p) s)).
  pose (Inv := fun (j : nat) (x : st) =>
     regs x rL = Some (Z.of_nat i) /\ regs x rJ = Some (Z.of_nat j) /\
     regs x rI = Some (b_bell_idx p + b_len p * Z.of_nat j) /\
     arrs x = arrs s /\ trace x = trace s /\ regs x rQ = regs s rQ).
  destruct (loop_iter_inv (exec_list fuel [CAdd rI (R rI) (I (b_len p))]) rJ (R rL) i Inv) with (d := i) (i := 0%nat) (s := s1) (k := fuel)
    as [s2 [Hrun HI]].
  - intros j x Hj [I1 [I2 [I3 [I4 [I5 I6]]]]].
    rewrite exec_list_cons. cbn [exec eval]. rewrite I3. rewrite exec_list_nil.
    eexists. split; [reflexivity|]. split; [exact I2|].
    unfold Inv. cbn [regs setreg rL rJ rI rQ Nat.eqb]. repeat split; auto.
    + f_equal. lia.
    + f_equal. lia.
  - intros j x [I1 [I2 _]]. split; [exact I2|]. cbn [eval]. exact I1.
  - lia.
  - exact Hfuel.
  - unfold Inv, s1. cbn [regs setreg rL rJ rI rQ Nat.eqb]. repeat split; auto. f_equal. lia.
  - rewrite Hrun. destruct HI as [I1 [I2 [I3 [I4 [I5 I6]]]]].
    rewrite exec_list_cons. cbn [exec]. rewrite I3.
    assert (Hnn : (b_bell_idx p + b_len p * Z.of_nat i <? 0) = false) by (apply Z.ltb_ge; lia).
    rewrite Hnn, I4, Harr.
    replace (Z.to_nat (b_bell_idx p + b_len p * Z.of_nat i)) with (i * ok + bpos)%nat by lia.
    rewrite (res_array_bell ok bpos bells i b Hlt Hb). rewrite exec_list_nil.
    eexists. split; [reflexivity|].
    unfold keeps. cbn [regs setreg arrs trace rL rB rQ Nat.eqb]. repeat split; auto. congruence.
Qed.

Definition gates_of (gs : list gate3) : list code :=
  map (fun g => CGate (fst (fst g)) rQ (snd (fst g)) (snd g)) gs.
Definition evs_of (gs : list gate3) (q : Z) : list ev :=
  map (fun g => Ev (fst (fst g)) q (snd (fst g)) (snd g)) gs.
Definition corr_of (t : list (Z * list gate3)) : list code :=
  map (fun vg => CIfEq rB (fst vg) (gates_of (snd vg))) t.

Lemma gates_block : forall fuel gs s q, regs s rQ = Some q ->
  exists s', exec_list fuel (gates_of gs) s = Ok s' /\ regs s' = regs s /\ arrs s' = arrs s /\
             trace s' = (trace s ++ evs_of gs q)%list.
Proof.
  intros fuel gs. induction gs as [|g gs IH]; intros s q Hq.
  - exists s. cbn. rewrite app_nil_r. auto.
  - unfold gates_of. cbn [map]. rewrite exec_list_cons. cbn [exec]. rewrite Hq.
    destruct (IH (emit (Ev (fst (fst g)) q (snd (fst g)) (snd g)) s) q Hq) as [s' [H1 [H2 [H3 H4]]]].
    fold (gates_of gs). rewrite H1. exists s'. repeat split; auto.
    rewrite H4. cbn [trace emit evs_of map]. now rewrite <- app_assoc.
Qed.

Lemma corr_nokey : forall fuel t s b, regs s rB = Some b ->
  existsb (fun x => fst x =? b) t = false -> exec_list fuel (corr_of t) s = Ok s.
Proof.
  intros fuel t. induction t as [|[v g] t IH]; intros s b Hb Hn; [reflexivity|].
  cbn [existsb fst] in Hn. apply orb_false_iff in Hn. destruct Hn as [Hv Hn].
  unfold corr_of. cbn [map fst snd]. rewrite exec_list_cons, exec_ifeq, Hb.
  rewrite (Z.eqb_sym b v), Hv. now apply IH with (b := b).
Qed.

Lemma corr_block : forall fuel t s b q, keys_nodup t = true ->
  regs s rB = Some b -> regs s rQ = Some q ->
  exists s', exec_list fuel (corr_of t) s = Ok s' /\ regs s' = regs s /\ arrs s' = arrs s /\
             trace s' = (trace s ++ paulis_on t b q)%list.
Proof.
  intros fuel t. induction t as [|[v g] t IH]; intros s b q Hnd Hb Hq.
  - exists s. cbn. rewrite app_nil_r. auto.
  - cbn [keys_nodup] in Hnd. apply andb_true_iff in Hnd. destruct Hnd as [Hfresh Hnd].
    unfold corr_of. cbn [map fst snd]. rewrite exec_list_cons, exec_ifeq, Hb.
    unfold paulis_on. cbn [tlookup]. rewrite (Z.eqb_sym v b).
    destruct (b =? v) eqn:E.
    + apply Z.eqb_eq in E. subst v.
      destruct (gates_block fuel g s q Hq) as [s1 [H1 [H2 [H3 H4]]]]. rewrite H1.
      fold (corr_of t). rewrite corr_nokey with (b := b).
      * exists s1. repeat split; auto.
      * now rewrite H2.
      * now apply negb_true_iff in Hfresh.
    + fold (corr_of t). destruct (IH s b q Hnd Hb Hq) as [s' [H1 [H2 [H3 H4]]]].
      exists s'. repeat split; auto.
Qed.

Lemma corr_code_eq : forall p, corr_code p = corr_of (b_table p).
Proof. reflexivity. Qed.

(* _add_wait_for_ent_info_cmd: two multiplications by repeated addition, then wait_all *)
Lemma mul_loop : forall fuel (ok : nat) s acc src (x0 y : Z),
  (ok < fuel)%nat -> acc <> rL -> acc <> rK -> src <> rK -> src <> acc -> rK <> rL ->
  regs s acc = Some x0 -> regs s src = Some y ->
  exists s', exec fuel (CLoop rK (I (Z.of_nat ok)) [CAdd acc (R acc) (R src)]) s = Ok s' /\
             keeps s s' /\ (forall r, r <> acc -> r <> rK -> regs s' r = regs s r) /\
             (exists x, regs s' acc = Some x).
Proof.
  intros fuel ok s acc src x0 y Hf N1 N2 N3 N4 N5 Hacc Hsrc. rewrite exec_loop.
  pose (Inv := fun (j : nat) (x : st) =>
     regs x rK = Some (Z.of_nat j) /\ (exists v, regs x acc = Some v) /\
     (forall r, r <> acc -> r <> rK -> regs x r = regs s r) /\ arrs x = arrs s /\ trace x = trace s).
  destruct (loop_iter_inv (exec_list fuel [CAdd acc (R acc) (R src)]) rK (I (Z.of_nat ok)) ok Inv)
    with (d := ok) (i := 0%nat) (s := setreg rK 0 s) (k := fuel) as [s2 [Hrun HI]].
  - intros j x Hj [I1 [[v I2] [I3 [I4 I5]]]].
    rewrite exec_list_cons. cbn [exec eval]. rewrite I2, (I3 src) by auto. rewrite Hsrc, exec_list_nil.
    eexists. split; [reflexivity|]. split.
    + cbn [regs setreg]. apply Nat.eqb_neq in N2. now rewrite N2.
    + unfold Inv. cbn [regs setreg arrs trace]. rewrite Nat.eqb_refl.
      apply Nat.eqb_neq in N2. rewrite (Nat.eqb_sym rK acc), N2, Nat.eqb_refl.
      repeat split; auto.
      * f_equal. lia.
      * eauto.
      * intros r R1 R2. apply not_eq_sym, Nat.eqb_neq in R1. apply not_eq_sym, Nat.eqb_neq in R2.
        rewrite R1, R2. apply I3; intros ->; [rewrite Nat.eqb_refl in R1|rewrite Nat.eqb_refl in R2]; discriminate.
  - intros j x [I1 _]. split; [exact I1|reflexivity].
  - lia.
  - exact Hf.
  - unfold Inv. cbn [regs setreg arrs trace]. rewrite Nat.eqb_refl.
    apply Nat.eqb_neq in N2. rewrite (Nat.eqb_sym rK acc), N2. repeat split; eauto.
    intros r R1 R2. apply not_eq_sym, Nat.eqb_neq in R2. now rewrite R2.
  - exists s2. destruct HI as [I1 [I2 [I3 [I4 I5]]]]. split; [exact Hrun|].
    split; [|split; auto]. unfold keeps. repeat split; auto.
Qed.

Lemma keeps_setreg : forall s r v, r <> rL -> keeps s (setreg r v s).
Proof.
  intros s r v H. unfold keeps. cbn [regs setreg arrs trace].
  apply Nat.eqb_neq in H. rewrite H. auto.
Qed.

Lemma wait_block : forall fuel p (ok : nat) s (i : Z),
  b_okf p = Z.of_nat ok -> (ok < fuel)%nat -> regs s rL = Some i ->
  exists s', exec_list fuel (wait_code p) s = Ok s' /\ keeps s s'.
Proof.
  intros fuel p ok s i Hokf Hf HL. unfold wait_code. rewrite Hokf.
  do 3 (rewrite exec_list_cons; cbn [exec]).
  set (s3 := setreg rE 0 (setreg rT 0 (setreg rS 0 s))).
  rewrite exec_list_cons.
  assert (K3 : keeps s s3).
  { unfold s3. eapply keeps_trans; [|apply keeps_setreg; discriminate].
    eapply keeps_trans; [|apply keeps_setreg; discriminate]. apply keeps_setreg. discriminate. }
  destruct (mul_loop fuel ok s3 rS rL 0 i Hf) as [s4 [H4 [K4 [F4 _]]]]; try discriminate; try reflexivity.
  { destruct K3 as [K _]. now rewrite K. }
  rewrite H4. rewrite exec_list_cons. cbn [exec eval].
  assert (L4 : regs s4 rL = Some i). { destruct K4 as [K _]. destruct K3 as [K' _]. now rewrite K, K'. }
  rewrite L4.
  set (s5 := setreg rT (i + 1) s4).
  assert (K5 : keeps s4 s5) by (apply keeps_setreg; discriminate).
  destruct (mul_loop fuel ok s5 rE rT 0 (i + 1) Hf) as [s6 [H6 [K6 _]]]; try discriminate; try reflexivity.
  { unfold s5. cbn [regs setreg rT rE Nat.eqb]. rewrite F4 by discriminate. reflexivity. }
  rewrite exec_list_cons, H6. rewrite exec_list_cons. cbn [exec]. rewrite exec_list_nil.
  exists s6. split; [reflexivity|].
  eapply keeps_trans; [exact K3|]. eapply keeps_trans; [exact K4|]. eapply keeps_trans; [exact K5|exact K6].
Qed.

Lemma consts_split : forall p ok bpos, consts_ok p ok bpos = true ->
  b_bell_idx p = Z.of_nat bpos /\ b_len p = Z.of_nat ok /\ b_okf p = Z.of_nat ok /\
  (bpos < ok)%nat /\ keys_nodup (b_table p) = true /\ b_ids p <> b_res p.
Proof.
  intros p ok bpos H. unfold consts_ok in H.
  repeat (apply andb_true_iff in H; destruct H as [H ?]).
  repeat split.
  - now apply Z.eqb_eq.
  - now apply Z.eqb_eq.
  - now apply Z.eqb_eq.
  - now apply Nat.ltb_lt.
  - assumption.
  - apply Nat.eqb_neq. now apply negb_true_iff.
Qed.

(* load/compute the Bell state of pair i, put the target qubit ID into qubit_reg, correct *)
Lemma mid_block : forall fuel p ok bpos s (i : nat) b id bells ids (useid : bool),
  consts_ok p ok bpos = true ->
  regs s rL = Some (Z.of_nat i) -> (i < fuel)%nat ->
  arrs s (b_res p) = res_array ok bpos bells -> arrs s (b_ids p) = map Some ids ->
  nth_error bells i = Some b -> nth_error ids i = Some id ->
  exists s', exec_list fuel (bell_code p ++ [if useid then CLoad rQ (b_ids p) rL else CSet rQ 0] ++ corr_code p) s = Ok s' /\
             regs s' rL = regs s rL /\ arrs s' = arrs s /\
             trace s' = (trace s ++ paulis_on (b_table p) b (if useid then id else 0))%list.
Proof.
  intros fuel p ok bpos s i b id bells ids useid Hc HL Hf Hres Hids Hb Hid.
  destruct (consts_split _ _ _ Hc) as [Hidx [Hlen [_ [Hlt [Hnd _]]]]].
  destruct (bell_block fuel p ok bpos s i b bells Hidx Hlen Hlt HL Hf Hres Hb) as [s1 [H1 [[K1 [K2 K3]] [B1 _]]]].
  rewrite exec_list_app, H1. cbn [app]. rewrite exec_list_cons.
  assert (exists s2, exec fuel (if useid then CLoad rQ (b_ids p) rL else CSet rQ 0) s1 = Ok s2 /\
            regs s2 rQ = Some (if useid then id else 0) /\ regs s2 rB = Some b /\
            regs s2 rL = regs s1 rL /\ arrs s2 = arrs s1 /\ trace s2 = trace s1) as [s2 [H2 [Q2 [B2 [L2 [A2 T2]]]]]].
  { destruct useid.
    - cbn [exec]. rewrite K1, HL.
      assert (Hnn : (Z.of_nat i <? 0) = false) by (apply Z.ltb_ge; lia).
      rewrite Hnn, K2, Hids, Nat2Z.id, (map_nth_error Some _ _ Hid).
      eexists. split; [reflexivity|]. cbn [regs setreg arrs trace rQ rB rL Nat.eqb]. repeat split; auto; congruence.
    - cbn [exec]. eexists. split; [reflexivity|]. cbn [regs setreg arrs trace rQ rB rL Nat.eqb]. auto. }
  rewrite H2, corr_code_eq.
  destruct (corr_block fuel (b_table p) s2 b _ Hnd B2 Q2) as [s3 [H3 [R3 [A3 T3]]]].
  exists s3. split; [exact H3|]. rewrite R3, A3, T3, L2, A2, T2, K1, K2, K3. auto.
Qed.

Lemma skipn_nth : forall {A} (l : list A) i x, nth_error l i = Some x -> skipn i l = x :: skipn (S i) l.
Proof.
  intros A l. induction l as [|h t IH]; intros i x H; [destruct i; discriminate|].
  destruct i; cbn in *; [now inversion H|]. now apply IH.
Qed.

Lemma nth_error_lt : forall {A} (l : list A) i, (i < List.length l)%nat -> exists x, nth_error l i = Some x.
Proof.
  intros A l i H. destruct (nth_error l i) eqn:E; [eauto|]. apply nth_error_None in E. lia.
Qed.

Lemma init_ids : forall p ok bpos ids bells, arrs (init_st p ok bpos ids bells) (b_ids p) = map Some ids.
Proof. intros. cbn [arrs init_st]. now rewrite Nat.eqb_refl. Qed.

Lemma init_res : forall p ok bpos ids bells, b_ids p <> b_res p ->
  arrs (init_st p ok bpos ids bells) (b_res p) = res_array ok bpos bells.
Proof.
  intros p ok bpos ids bells H. cbn [arrs init_st]. apply not_eq_sym, Nat.eqb_neq in H.
  now rewrite H, Nat.eqb_refl.
Qed.

(* ------------------------------------------------------------------ wait-all variant *)
Theorem code_W_actual : forall p ok bpos ids bells fuel,
  consts_ok p ok bpos = true -> List.length ids = List.length bells ->
  (List.length bells < fuel)%nat ->
  gates_applied (exec_list fuel (code_W p true (Z.of_nat (List.length bells)))
                           (init_st p ok bpos ids bells))
  = Some (actual_W (b_table p) bells).
Proof.
  intros p ok bpos ids bells fuel Hc Hlen Hf.
  destruct (consts_split _ _ _ Hc) as [_ [_ [_ [_ [_ Hneq]]]]].
  set (s0 := init_st p ok bpos ids bells). set (t := b_table p).
  unfold code_W. rewrite exec_list_cons, exec_loop.
  pose (Inv := fun (i : nat) (x : st) =>
    regs x rL = Some (Z.of_nat i) /\ arrs x = arrs s0 /\
    (trace x ++ actual_W t (skipn i bells))%list = actual_W t bells).
  destruct (loop_iter_inv
              (exec_list fuel ([CLoad rQ (b_ids p) rL] ++ bell_code p ++ [CSet rQ 0] ++ corr_code p))
              rL (I (Z.of_nat (List.length bells))) (List.length bells) Inv)
    with (d := List.length bells) (i := 0%nat) (s := setreg rL 0 s0) (k := fuel) as [s' [Hrun HI]].
  - intros i x Hi [I1 [I2 I3]].
    destruct (nth_error_lt bells i Hi) as [b Hb].
    destruct (nth_error_lt ids i ltac:(lia)) as [id Hid].
    cbn [app]. rewrite exec_list_cons. cbn [exec]. rewrite I1.
    assert (Hnn : (Z.of_nat i <? 0) = false) by (apply Z.ltb_ge; lia).
    rewrite Hnn, I2. unfold s0 at 1. rewrite init_ids, Nat2Z.id, (map_nth_error Some _ _ Hid).
    set (x1 := setreg rQ id x).
    destruct (mid_block fuel p ok bpos x1 i b id bells ids false Hc) as [x2 [H2 [L2 [A2 T2]]]]; auto.
    + lia.
    + unfold x1. cbn [arrs setreg]. rewrite I2. now apply init_res.
    + unfold x1. cbn [arrs setreg]. rewrite I2. apply init_ids.
    + cbn [app] in H2. rewrite H2. exists x2. split; [reflexivity|]. split.
      * rewrite L2. unfold x1. cbn [regs setreg rQ rL Nat.eqb]. exact I1.
      * unfold Inv. cbn [regs setreg arrs trace]. rewrite Nat.eqb_refl. repeat split.
        -- f_equal. lia.
        -- rewrite A2. exact I2.
        -- rewrite T2. unfold x1. cbn [trace setreg]. rewrite <- I3, (skipn_nth _ _ _ Hb).
           unfold actual_W. cbn [map List.concat]. now rewrite <- app_assoc.
  - intros i x [I1 _]. split; [exact I1|reflexivity].
  - lia.
  - exact Hf.
  - unfold Inv. cbn [regs setreg arrs trace skipn]. repeat split.
  - rewrite Hrun. rewrite exec_list_nil. cbn [gates_applied]. destruct HI as [_ [_ I3]].
    rewrite skipn_all in I3. unfold actual_W at 1 in I3. cbn [map List.concat] in I3.
    rewrite app_nil_r in I3. now rewrite I3.
Qed.

(* where that is what the property asks for: every pair that needs a correction sits on
   virtual qubit 0 *)
Definition corr_on_zero (t : list (Z * list gate3)) (ids bells : list Z) : Prop :=
  forall i id b, nth_error ids i = Some id -> nth_error bells i = Some b -> tlookup b t <> [] -> id = 0.

Lemma paulis_on_nil : forall t b q, tlookup b t = [] -> paulis_on t b q = [].
Proof. intros t b q H. unfold paulis_on. now rewrite H. Qed.

Lemma actual_is_spec : forall t ids bells, List.length ids = List.length bells ->
  corr_on_zero t ids bells -> actual_W t bells = spec_W t ids bells.
Proof.
  intros t ids. induction ids as [|id ids IH]; intros bells Hl Hz; destruct bells as [|b bells]; try discriminate; [reflexivity|].
  unfold actual_W, spec_W. cbn [map zip_with List.concat].
  fold (actual_W t bells). fold (spec_W t ids bells). rewrite IH.
  - f_equal. destruct (tlookup b t) eqn:E.
    + now rewrite !paulis_on_nil.
    + rewrite (Hz 0%nat id b); auto. rewrite E. discriminate.
  - cbn in Hl. lia.
  - intros i id' b' H1 H2 H3. apply (Hz (S i) id' b'); auto.
Qed.

Theorem code_W_correct_when : forall p ok bpos ids bells fuel,
  consts_ok p ok bpos = true -> List.length ids = List.length bells ->
  (List.length bells < fuel)%nat -> corr_on_zero (b_table p) ids bells ->
  gates_applied (exec_list fuel (code_W p true (Z.of_nat (List.length bells)))
                           (init_st p ok bpos ids bells))
  = Some (spec_W (b_table p) ids bells).
Proof.
  intros p ok bpos ids bells fuel Hc Hl Hf Hz.
  rewrite (code_W_actual p ok bpos ids bells fuel Hc Hl Hf). f_equal. now apply actual_is_spec.
Qed.

(* ------------------------------------------------------------------ post-routine / sequential variant *)
Definition tbl (p : bparams) (expect : bool) : list (Z * list gate3) := if expect then b_table p else [].

Lemma mid_any : forall fuel p ok bpos s (i : nat) b id bells ids (useid expect : bool),
  consts_ok p ok bpos = true ->
  regs s rL = Some (Z.of_nat i) -> (i < fuel)%nat ->
  arrs s (b_res p) = res_array ok bpos bells -> arrs s (b_ids p) = map Some ids ->
  nth_error bells i = Some b -> nth_error ids i = Some id ->
  exists s', exec_list fuel (if expect then bell_code p ++ [if useid then CLoad rQ (b_ids p) rL else CSet rQ 0] ++ corr_code p else []) s = Ok s' /\
             regs s' rL = regs s rL /\ arrs s' = arrs s /\
             trace s' = (trace s ++ paulis_on (tbl p expect) b (if useid then id else 0))%list.
Proof.
  intros fuel p ok bpos s i b id bells ids useid expect Hc HL Hf Hres Hids Hb Hid. destruct expect.
  - now apply (mid_block fuel p ok bpos s i b id bells ids useid).
  - exists s. rewrite exec_list_nil. cbn. rewrite app_nil_r. auto.
Qed.

Theorem code_P_spec : forall p ok bpos ids bells fuel expect,
  consts_ok p ok bpos = true -> List.length ids = List.length bells ->
  (List.length bells < fuel)%nat -> (ok < fuel)%nat ->
  gates_applied (exec_list fuel (code_P p expect (Z.of_nat (List.length bells)))
                           (init_st p ok bpos ids bells))
  = Some (spec_P (tbl p expect) ids bells).
Proof.
  intros p ok bpos ids bells fuel expect Hc Hlen Hf Hfo.
  destruct (consts_split _ _ _ Hc) as [_ [_ [Hokf [_ [_ Hneq]]]]].
  set (s0 := init_st p ok bpos ids bells). set (t := tbl p expect).
  unfold code_P. rewrite exec_list_cons, exec_loop.
  pose (Inv := fun (i : nat) (x : st) =>
    regs x rL = Some (Z.of_nat i) /\ arrs x = arrs s0 /\
    (trace x ++ spec_P t (skipn i ids) (skipn i bells))%list = spec_P t ids bells).
  match goal with |- context [loop_iter (exec_list fuel ?bd) _ _ _ _] => set (body := bd) end.
  destruct (loop_iter_inv (exec_list fuel body) rL (I (Z.of_nat (List.length bells))) (List.length bells) Inv)
    with (d := List.length bells) (i := 0%nat) (s := setreg rL 0 s0) (k := fuel) as [s' [Hrun HI]].
  - intros i x Hi [I1 [I2 I3]].
    destruct (nth_error_lt bells i Hi) as [b Hb].
    destruct (nth_error_lt ids i ltac:(lia)) as [id Hid].
    unfold body. rewrite exec_list_app.
    destruct (wait_block fuel p ok x _ Hokf Hfo I1) as [x1 [H1 [K1 [K2 K3]]]]. rewrite H1.
    rewrite exec_list_app.
    destruct (mid_any fuel p ok bpos x1 i b id bells ids true expect Hc) as [x2 [H2 [L2 [A2 T2]]]]; auto.
    + now rewrite K1.
    + lia.
    + rewrite K2, I2. now apply init_res.
    + rewrite K2, I2. apply init_ids.
    + rewrite H2. rewrite exec_list_cons. cbn [exec]. rewrite L2, K1, I1.
      assert (Hnn : (Z.of_nat i <? 0) = false) by (apply Z.ltb_ge; lia).
      rewrite Hnn, A2, K2, I2. unfold s0 at 1. rewrite init_ids, Nat2Z.id, (map_nth_error Some _ _ Hid).
      rewrite exec_list_cons. cbn [exec regs setreg rP Nat.eqb]. rewrite exec_list_nil.
      eexists. split; [reflexivity|]. split.
      * cbn [regs emit setreg rP rL Nat.eqb]. now rewrite L2, K1.
      * unfold Inv. cbn [regs setreg arrs trace emit]. rewrite Nat.eqb_refl. repeat split.
        -- f_equal. lia.
        -- now rewrite A2, K2.
        -- rewrite T2, K3. rewrite <- I3, (skipn_nth _ _ _ Hb), (skipn_nth _ _ _ Hid).
           unfold spec_P. cbn [zip_with List.concat]. fold t. now rewrite <- !app_assoc.
  - intros i x [I1 _]. split; [exact I1|reflexivity].
  - lia.
  - exact Hf.
  - unfold Inv. cbn [regs setreg arrs trace skipn]. repeat split.
  - rewrite Hrun. rewrite exec_list_nil. cbn [gates_applied]. destruct HI as [_ [_ I3]].
    rewrite skipn_all in I3. rewrite <- Hlen, skipn_all in I3. unfold spec_P at 1 in I3.
    cbn [zip_with List.concat] in I3. rewrite app_nil_r in I3. now rewrite I3.
Qed.

(* ------------------------------------------------------------------ move-to-memory variant *)
Theorem code_M_spec : forall p ok bpos ids bells fuel expect,
  consts_ok p ok bpos = true -> List.length ids = List.length bells ->
  (List.length bells < fuel)%nat -> (ok < fuel)%nat ->
  gates_applied (exec_list fuel (code_M p expect (Z.of_nat (List.length bells)))
                           (init_st p ok bpos ids bells))
  = Some (spec_M (tbl p expect) bells).
Proof.
  intros p ok bpos ids bells fuel expect Hc Hlen Hf Hfo.
  destruct (consts_split _ _ _ Hc) as [_ [_ [Hokf [_ [_ Hneq]]]]].
  set (s0 := init_st p ok bpos ids bells). set (t := tbl p expect).
  set (n := Z.of_nat (List.length bells)).
  unfold code_M. rewrite exec_list_cons, exec_loop.
  pose (Inv := fun (i : nat) (x : st) =>
    regs x rL = Some (Z.of_nat i) /\ arrs x = arrs s0 /\
    (trace x ++ spec_M_from t n (Z.of_nat i) (skipn i bells))%list = spec_M_from t n 0 bells).
  match goal with |- context [loop_iter (exec_list fuel ?bd) _ _ _ _] => set (body := bd) end.
  destruct (loop_iter_inv (exec_list fuel body) rL (I n) (List.length bells) Inv)
    with (d := List.length bells) (i := 0%nat) (s := setreg rL 0 s0) (k := fuel) as [s' [Hrun HI]].
  - intros i x Hi [I1 [I2 I3]].
    destruct (nth_error_lt bells i Hi) as [b Hb].
    destruct (nth_error_lt ids i ltac:(lia)) as [id Hid].
    unfold body. rewrite exec_list_app.
    destruct (wait_block fuel p ok x _ Hokf Hfo I1) as [x1 [H1 [K1 [K2 K3]]]]. rewrite H1.
    rewrite exec_list_app.
    destruct (mid_any fuel p ok bpos x1 i b id bells ids false expect Hc) as [x2 [H2 [L2 [A2 T2]]]]; auto.
    + now rewrite K1.
    + lia.
    + rewrite K2, I2. now apply init_res.
    + rewrite K2, I2. apply init_ids.
    + rewrite H2. rewrite exec_list_cons, exec_ifne, L2, K1, I1.
      assert (Hsuf : (trace x ++ paulis_on t b 0 ++
                      (if Z.of_nat i =? n - 1 then [] else [Ev "mov" 0 (n - 1 - Z.of_nat i) 0; Ev "qfree" 0 0 0]) ++
                      spec_M_from t n (Z.of_nat (S i)) (skipn (S i) bells))%list = spec_M_from t n 0 bells).
      { rewrite <- I3, (skipn_nth _ _ _ Hb). cbn [spec_M_from].
        replace (Z.of_nat i + 1) with (Z.of_nat (S i)) by lia. reflexivity. }
      destruct (Z.of_nat i =? n - 1) eqn:E.
      * rewrite exec_list_nil. exists x2. split; [reflexivity|]. split; [now rewrite L2, K1|].
        unfold Inv. cbn [regs setreg arrs trace]. rewrite Nat.eqb_refl. repeat split.
        -- f_equal. lia.
        -- now rewrite A2, K2.
        -- rewrite T2, K3. cbn [app] in Hsuf. rewrite <- Hsuf. now rewrite <- !app_assoc.
      * rewrite exec_list_cons. cbn [exec eval]. rewrite L2, K1, I1.
        rewrite exec_list_cons. cbn [exec].
        rewrite exec_list_cons. cbn [exec regs setreg r0 r1 Nat.eqb].
        rewrite exec_list_cons. cbn [exec regs setreg emit r0 r1 Nat.eqb]. rewrite !exec_list_nil.
        eexists. split; [reflexivity|]. split.
        -- cbn [regs emit setreg r0 r1 rL Nat.eqb]. now rewrite L2, K1.
        -- unfold Inv. cbn [regs setreg arrs trace emit]. rewrite Nat.eqb_refl. repeat split.
           ++ f_equal. lia.
           ++ now rewrite A2, K2.
           ++ rewrite T2, K3. rewrite <- Hsuf. fold n. rewrite <- !app_assoc. reflexivity.
  - intros i x [I1 _]. split; [exact I1|reflexivity].
  - lia.
  - exact Hf.
  - unfold Inv. cbn [regs setreg arrs trace skipn]. repeat split.
  - rewrite Hrun. rewrite exec_list_nil. cbn [gates_applied]. destruct HI as [_ [_ I3]].
    rewrite skipn_all in I3. cbn [spec_M_from] in I3. rewrite app_nil_r in I3.
    unfold spec_M. fold n. now rewrite I3.
Qed.

(* ------------------------------------------------------------------ expectation switched off *)
Lemma spec_P_off_no_pauli : forall ids bells,
  forallb (fun e => negb (is_pauli_ev e)) (spec_P [] ids bells) = true.
Proof.
  induction ids as [|id ids IH]; intros bells; destruct bells as [|b bells]; try reflexivity.
  unfold spec_P. cbn [zip_with List.concat]. fold (spec_P [] ids bells).
  unfold paulis_on. cbn [tlookup map app forallb is_pauli_ev]. cbn. apply IH.
Qed.

Lemma spec_M_off_no_pauli : forall n bells i,
  forallb (fun e => negb (is_pauli_ev e)) (spec_M_from [] n i bells) = true.
Proof.
  intros n bells. induction bells as [|b bells IH]; intros i; [reflexivity|].
  cbn [spec_M_from]. unfold paulis_on. cbn [tlookup map app].
  rewrite forallb_app, IH. destruct (i =? n - 1); reflexivity.
Qed.
