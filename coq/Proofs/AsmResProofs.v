(* AsmResProofs.v — C03 for the assembler called with RESERVED registers
   (Lang/Asm.v: replace_constants_res / assemble_ir_res / assemble_res, i.e.
   assemble_subroutine(..., reserved_registers=...)).
   The builder hands over the registers it still has claimed: they hold live
   values although the subroutine may not mention them.  The pass works with the
   register set nm := named P ++ rsv, so a scratch register is neither named by
   the program nor reserved.  Everything generic in the register set is reused
   from Proofs/AsmProofs.v (classical semantics) and Proofs/AsmQProofs.v (event
   semantics); here the theorems that were fixed to `named P` are re-proved for
   `named P ++ rsv`:
     assemble_struct_res, table_is_pcmap_nm, scratch_fresh_res,
     assemble_simulates_res (+ flavour, + preserves_result), reserved_preserved,
     assemble_simulates_res_q (+ flavour, + trace).
   The only place where `named P` itself matters is "the registers of an
   instruction of P are not scratch": regs_in_named + in_or_app. *)
From Coq Require Import ZArith List Bool String Lia.
From NQ Require Import Base.Bits Lang.Codec Lang.Asm Lang.AsmSem Lang.AsmSemQ.
From NQ Require Import Proofs.AsmProofs Proofs.AsmQProofs.
Import ListNotations.
Open Scope Z_scope.

(* ====================================================================== *)
(* 1. no reservation = the old assembler                                  *)
(* ====================================================================== *)

(* not definitional: named P ++ [] vs named P *)
Lemma replace_constants_res_nil pr P : replace_constants_res pr [] P = replace_constants pr P.
Proof. unfold replace_constants_res, replace_constants. rewrite app_nil_r. reflexivity. Qed.

Lemma assemble_ir_res_nil pr P : assemble_ir_res pr [] P = assemble_ir pr P.
Proof. unfold assemble_ir_res, assemble_ir. rewrite replace_constants_res_nil. reflexivity. Qed.

Lemma assemble_res_nil pr t P : assemble_res pr t [] P = assemble pr t P.
Proof. unfold assemble_res, assemble. rewrite assemble_ir_res_nil. reflexivity. Qed.

Lemma pcmap_nm_named pr P k : pcmap_nm pr (named P) P k = pcmap pr P k.
Proof. reflexivity. Qed.

(* ====================================================================== *)
(* 2. shape of the assembled program                                      *)
(* ====================================================================== *)

Theorem assemble_struct_res pr rsv P T :
  assemble_ir_res pr rsv P = AOk T ->
  exists tbl, label_table (flat_map (rblk pr (named P ++ rsv)%list) P) 0 [] = Some tbl
              /\ T = flat_map (blk pr (named P ++ rsv)%list tbl) P
              /\ Forall (cmd_ok pr (named P ++ rsv)%list) P.
Proof.
  unfold assemble_ir_res, replace_constants_res, abind. rewrite named_make_args.
  destruct (repl_all pr (named P ++ rsv)%list (map make_args P)) as [Q|] eqn:HQ; [|discriminate].
  destruct (repl_all_struct _ _ _ _ HQ) as [-> HF].
  unfold assign_labels.
  destruct (label_table (flat_map (rblk pr (named P ++ rsv)%list) P) 0 []) as [tbl|] eqn:Ht; [|discriminate].
  intros [= <-]. exists tbl. split; [reflexivity|split; [apply flat_blk|exact HF]].
Qed.

(* every defined label is bound to the index, in the assembled program, of its
   position — for any register set the pass works with *)
Lemma table_is_pcmap_nm pr nm P tbl :
  label_table (flat_map (rblk pr nm) P) 0 [] = Some tbl ->
  Forall (cmd_ok pr nm) P ->
  forall l, tbl_find tbl l = option_map (pcmap_nm pr nm P) (label_pos P l).
Proof.
  intros Ht HF l. rewrite (label_table_spec _ _ _ _ Ht l). cbn [tbl_find].
  rewrite (lab_off_blocks _ _ _ _ HF). unfold pcmap_nm.
  destruct (label_pos P l); reflexivity.
Qed.

(* the last line of the block of source position k (where the instruction itself sits) *)
Definition last_line_nm (pr : aparams) (nm : list reg) (P : list acmd) (k : nat) : nat :=
  (pcmap_nm pr nm P k + match nth_error P k with Some c => nsets pr nm c | None => O end)%nat.

Lemma last_line_nm_named pr P k : last_line_nm pr (named P) P k = last_line pr P k.
Proof. reflexivity. Qed.

(* ====================================================================== *)
(* 3. the inserted sets avoid the named AND the reserved registers        *)
(* ====================================================================== *)

Theorem scratch_fresh_res pr rsv P T :
  assemble_ir_res pr rsv P = AOk T ->
  forall k c, nth_error P k = Some c -> is_ins c = true ->
  exists ps : list (reg * Z),
    List.length ps = nsets pr (named P ++ rsv)%list c /\
    NoDup (map fst ps) /\
    (forall i p, nth_error ps i = Some p ->
       nth_error T (pcmap_nm pr (named P ++ rsv)%list P k + i) = Some (set_cmd (fst p) (snd p)) /\
       fst (fst p) = ap_bankR pr /\ ~ In (fst p) (named P) /\ ~ In (fst p) rsv).
Proof.
  intros Hasm k c Hk Hc.
  destruct (assemble_struct_res _ _ _ _ Hasm) as [tbl [Htbl [HT HF]]].
  set (nm := (named P ++ rsv)%list) in *.
  destruct c as [l|mn args ops]; [discriminate|].
  assert (Hok : cmd_ok pr nm (AIns mn args ops)).
  { rewrite Forall_forall in HF. apply HF. eapply nth_error_In. exact Hk. }
  cbn [cmd_ok] in Hok.
  destruct (repl_ops pr nm mn 0 (all_ops args ops) []) as [[[s ops'] tmp]|] eqn:Hr; [|congruence].
  destruct (repl_ops_spec _ _ _ _ _ _ _ _ _ Hr (good_tmp_nil pr nm)) as [ps [-> [Htmp [[Hnd Hsc] Hrel]]]].
  cbn [app] in Htmp. subst tmp. exists ps. split; [|split].
  - cbn [nsets]. rewrite Hr, map_length. reflexivity.
  - exact Hnd.
  - intros i p Hi.
    assert (Hlt : (i < List.length ps)%nat) by (apply nth_error_Some; congruence).
    split.
    + unfold pcmap_nm. rewrite HT, (nth_block _ _ _ _ HF _ _ _ Hk).
      * cbn [blk]. rewrite Hr, nth_error_app1 by (rewrite map_length; exact Hlt).
        rewrite nth_error_map, Hi. reflexivity.
      * cbn [blk]. rewrite Hr, app_length, map_length. lia.
    + rewrite Forall_forall in Hsc.
      assert (Hs : scratch pr nm (fst p)).
      { apply Hsc. apply in_map. eapply nth_error_In. exact Hi. }
      destruct Hs as [H1 [_ H3]]. split; [exact H1|]. unfold nm in H3. split.
      * intros Hin. apply H3. apply in_or_app. left. exact Hin.
      * intros Hin. apply H3. apply in_or_app. right. exact Hin.
Qed.

(* ====================================================================== *)
(* 4. the simulation, classical semantics                                 *)
(* ====================================================================== *)

Definition cfg_rel_res (pr : aparams) (rsv : list reg) (P : list acmd) (a b : acfg) : Prop :=
  let nm := (named P ++ rsv)%list in
  match a, b with
  | Run pc s, Run pc' t => pc' = pcmap_nm pr nm P pc /\ eqv pr nm s t
  | Halted s, Halted t => eqv pr nm s t
  | Fault k s, Fault k' t => k' = last_line_nm pr nm P k /\ eqv pr nm s t
  | Stuck k s, Stuck k' t => k' = last_line_nm pr nm P k /\ eqv pr nm s t
  | _, _ => False
  end.

(* without reservation this is the relation of AsmProofs *)
Lemma cfg_rel_res_nil pr P a b : cfg_rel_res pr [] P a b <-> cfg_rel pr P a b.
Proof.
  unfold cfg_rel_res, cfg_rel, last_line, pcmap, pcmap_nm, last_line_nm, pcmap_nm.
  cbv zeta. rewrite app_nil_r. reflexivity.
Qed.

(* a named or reserved register is not a scratch register *)
Lemma named_not_scratch pr rsv P r : In r (named P) -> ~ scratch pr (named P ++ rsv)%list r.
Proof. intros Hin [_ [_ Hni]]. apply Hni. apply in_or_app. left. exact Hin. Qed.

Lemma reserved_not_scratch pr rsv P r : In r rsv -> ~ scratch pr (named P ++ rsv)%list r.
Proof. intros Hin [_ [_ Hni]]. apply Hni. apply in_or_app. right. exact Hin. Qed.

Section SimRes.
  Variables (pr : aparams) (rsv : list reg) (P T : list acmd).
  Hypothesis Hpar : params_ok pr = true.
  Hypothesis Hex : is_exempt (ap_exempt pr) SET 1 = true.
  Hypothesis Hwf : wf_src P = true.
  Hypothesis Hasm : assemble_ir_res pr rsv P = AOk T.

  Lemma step_sim_res pc ss st :
    eqv pr (named P ++ rsv)%list ss st ->
    exists m, (1 <= m)%nat /\
      cfg_rel_res pr rsv P (astep P pc ss) (arun T m (Run (pcmap_nm pr (named P ++ rsv)%list P pc) st)).
  Proof.
    intros He.
    destruct (assemble_struct_res _ _ _ _ Hasm) as [tbl [Htbl [HT HF]]].
    pose proof (table_is_pcmap_nm _ _ _ _ Htbl HF) as Hfind.
    set (nm := (named P ++ rsv)%list) in *.
    assert (HTnl : forallb is_ins T = true) by (rewrite HT; apply blocks_nolab).
    assert (HTlen : List.length T = pcmap_from pr nm P (List.length P))
      by (rewrite HT; apply length_blocks; exact HF).
    unfold astep at 1. pose proof (fetch_pcmap pr nm P pc) as Hf.
    destruct (fetch P pc) as [[[k mn] ops]|].
    2:{ (* no instruction left: both halt *)
      exists 1%nat. split; [lia|]. cbn [arun]. unfold astep. rewrite (fetch_nolab T HTnl).
      unfold pcmap_nm. rewrite Hf, <- HTlen.
      assert (Hn : nth_error T (List.length T) = None) by (apply nth_error_None; lia).
      rewrite Hn. cbn [cfg_rel_res]. exact He. }
    destruct Hf as [[args [ops0 [Hk ->]]] Hpc].
    assert (Hok : cmd_ok pr nm (AIns mn args ops0)).
    { rewrite Forall_forall in HF. apply HF. eapply nth_error_In. exact Hk. }
    cbn [cmd_ok] in Hok.
    destruct (repl_ops pr nm mn 0 (all_ops args ops0) []) as [[[s ops'] tmp]|] eqn:Hr; [|congruence].
    destruct (repl_ops_spec _ _ _ _ _ _ _ _ _ Hr (good_tmp_nil pr nm)) as [ps [-> [Htmp [[Hnd Hsc] Hrel]]]].
    cbn [app] in Htmp. subst tmp.
    assert (Hblk : blk pr nm tbl (AIns mn args ops0) = (map setc ps ++ [AIns mn [] (map (resolve_opnd tbl) ops')])%list)
      by (cbn [blk]; rewrite Hr; reflexivity).
    assert (Hns : nsets pr nm (AIns mn args ops0) = List.length ps)
      by (cbn [nsets]; rewrite Hr, map_length; reflexivity).
    set (base := pcmap_from pr nm P k) in *.
    assert (Hnth : forall i, (i <= List.length ps)%nat ->
              nth_error T (base + i) = nth_error (map setc ps ++ [AIns mn [] (map (resolve_opnd tbl) ops')])%list i).
    { intros i Hi. rewrite HT, <- Hblk. apply nth_block; [exact HF|exact Hk|].
      rewrite Hblk, app_length, map_length. cbn [List.length]. lia. }
    (* the sets *)
    set (st' := apply_sets ps st).
    assert (Hrun : arun T (List.length ps) (Run base st) = Run (base + List.length ps) st').
    { apply run_sets; [exact HTnl| |].
      - intros i Hi. rewrite (Hnth i ltac:(lia)). apply nth_error_app1. rewrite map_length. exact Hi.
      - rewrite Forall_forall. intros [r z] Hin. cbn [fst].
        apply (scratch_reg_ok pr nm r Hpar). rewrite Forall_forall in Hsc. apply Hsc.
        apply in_map_iff. exists (r, z). auto. }
    assert (He' : eqv pr nm ss st').
    { destruct He as [Hm Hregs]. split.
      - unfold st'. rewrite apply_sets_mem. exact Hm.
      - intros r Hr'. unfold st'. rewrite apply_sets_other; [apply Hregs; exact Hr'|].
        intros Hin. apply Hr'. rewrite Forall_forall in Hsc. apply Hsc. exact Hin. }
    assert (Hps : forall r z, In (r, z) ps -> reg_ok (fst r) (snd r) = true /\ s_regs st' r = Some z).
    { intros r z Hin. split.
      - apply (scratch_reg_ok pr nm r Hpar). rewrite Forall_forall in Hsc. apply Hsc.
        apply in_map_iff. exists (r, z). auto.
      - unfold st'. apply apply_sets_in; assumption. }
    (* the instruction itself *)
    exists (List.length ps + 1)%nat. split; [lia|].
    unfold pcmap_nm. rewrite <- Hpc. fold base.
    rewrite arun_add, Hrun. cbn [arun]. unfold astep at 1. rewrite (fetch_nolab T HTnl).
    rewrite (Hnth (List.length ps) (le_n _)).
    rewrite nth_error_app2 by (rewrite map_length; lia).
    rewrite map_length, Nat.sub_diag. cbn [nth_error all_ops map app].
    assert (Hnamed : forall r, In r (flat_map regs_of_opnd (all_ops args ops0)) -> ~ scratch pr nm r).
    { intros r Hin. unfold nm. apply named_not_scratch. eapply regs_in_named; eassumption. }
    assert (Hshape : shape_ok (opc_of mn) (all_ops args ops0) = true).
    { unfold wf_src in Hwf. rewrite forallb_forall in Hwf.
      apply (Hwf (AIns mn args ops0)). eapply nth_error_In. exact Hk. }
    pose proof (exec_rel pr nm tbl (opc_of mn) (all_ops args ops0) (map (resolve_opnd tbl) ops') ss st'
                  Hshape (ops_rel_osim pr nm tbl ps ss st' He' Hps _ _ _ _ _ Hrel Hnamed) He') as Hexec.
    assert (Hlast : last_line_nm pr nm P k = (base + List.length ps)%nat).
    { unfold last_line_nm, pcmap_nm. fold base. rewrite Hk, Hns. reflexivity. }
    assert (HS : pcmap_nm pr nm P (S k) = S (base + List.length ps)).
    { unfold pcmap_nm. rewrite (pcmap_from_S _ _ _ _ _ Hk). fold base. cbn [bsize]. rewrite Hns. lia. }
    specialize (Hexec ltac:(intros b i Hin; apply Hnamed; apply in_flat_map; exists (AV (VReg b i));
                               split; [exact Hin|left; reflexivity])).
    assert (Hset : opc_of mn = Xset -> forall d z, all_ops args ops0 = [d; AV (VLit z)] ->
                   exists d', map (resolve_opnd tbl) ops' = [d'; AV (VLit z)]).
    { intros Ho d z Hops. apply opc_of_set_inv in Ho. subst mn. rewrite Hops in Hrel.
      destruct ops' as [|d1 [|z1 [|? ?]]]; cbn [ops_rel] in Hrel; try tauto.
      destruct Hrel as [_ [Hz _]]. cbn [op_rel] in Hz. rewrite Hex in Hz. subst z1.
      exists (resolve_opnd tbl d1). reflexivity. }
    specialize (Hexec Hset).
    destruct (exec (opc_of mn) (all_ops args ops0) ss) as [x|t x| |];
      destruct (exec (opc_of mn) (map (resolve_opnd tbl) ops') st') as [y|t' y| |];
      cbn [eres_rel] in Hexec; try contradiction.
    - cbn [cfg_rel_res]. split; [symmetry; exact HS|exact Hexec].
    - destruct Hexec as [Hxy [-> Hlab]]. apply is_label_inv in Hlab as [l ->].
      cbn [target resolve_opnd]. rewrite Hfind.
      destruct (label_pos P l) as [j|]; cbn [option_map target].
      + assert (H0 : (0 <=? Z.of_nat (pcmap_nm pr nm P j)) = true) by (apply Z.leb_le; lia).
        rewrite H0, Nat2Z.id. cbn [cfg_rel_res]. split; [reflexivity|exact Hxy].
      + rewrite (label_pos_nolab T l HTnl). cbn [cfg_rel_res]. split; [symmetry; exact Hlast|exact He'].
    - cbn [cfg_rel_res]. split; [symmetry; exact Hlast|exact He'].
    - cbn [cfg_rel_res]. split; [symmetry; exact Hlast|exact He'].
  Qed.

  Lemma sim_steps_res : forall n a b,
    cfg_rel_res pr rsv P a b ->
    exists m, (n <= m)%nat /\ cfg_rel_res pr rsv P (arun P n a) (arun T m b).
  Proof.
    induction n as [|n IH]; intros a b Hab.
    - exists O. split; [lia|exact Hab].
    - destruct a as [pc ss|ss|k ss|k ss]; destruct b as [pc' st|st|k' st|k' st];
        cbn [cfg_rel_res] in Hab; try contradiction.
      + destruct Hab as [-> He]. destruct (step_sim_res pc ss st He) as [m1 [Hm1 Hrel]].
        destruct (IH _ _ Hrel) as [m2 [Hm2 Hrel2]].
        exists (m1 + m2)%nat. split; [lia|]. cbn [arun]. rewrite arun_add. exact Hrel2.
      + exists (S n). split; [lia|]. cbn [arun cfg_rel_res]. exact Hab.
      + exists (S n). split; [lia|]. cbn [arun cfg_rel_res]. exact Hab.
      + exists (S n). split; [lia|]. cbn [arun cfg_rel_res]. exact Hab.
  Qed.
End SimRes.

(* C03 with reserved registers: for every well-formed source program that the
   assembler accepts under the reservation rsv, every pair of start states that
   agree on memory and on every register that is not a scratch candidate (in
   particular on every named and every RESERVED register), and every number n of
   source steps, the assembled program reaches after some m >= n steps the
   corresponding configuration: same position through the line map, equal memory,
   equal registers except R registers that are neither named nor reserved, the same
   kind of outcome at the mapped line. *)
Theorem assemble_simulates_res pr rsv P T :
  params_ok pr = true -> is_exempt (ap_exempt pr) SET 1 = true ->
  wf_src P = true -> assemble_ir_res pr rsv P = AOk T ->
  forall n ss st, eqv pr (named P ++ rsv)%list ss st ->
  exists m, (n <= m)%nat /\ cfg_rel_res pr rsv P (arun P n (Run 0 ss)) (arun T m (Run 0 st)).
Proof.
  intros Hpar Hex Hwf Hasm n ss st He.
  apply (sim_steps_res pr rsv P T Hpar Hex Hwf Hasm n (Run 0 ss) (Run 0 st)).
  cbn [cfg_rel_res]. split; [unfold pcmap_nm; destruct P; reflexivity|exact He].
Qed.

(* a source run that halts / faults / leaves the model is matched for every
   sufficiently large fuel *)
Corollary assemble_preserves_result_res pr rsv P T :
  params_ok pr = true -> is_exempt (ap_exempt pr) SET 1 = true ->
  wf_src P = true -> assemble_ir_res pr rsv P = AOk T ->
  forall n ss st, eqv pr (named P ++ rsv)%list ss st ->
  (forall pc s, arun P n (Run 0 ss) <> Run pc s) ->
  exists m0, forall m, (m0 <= m)%nat -> cfg_rel_res pr rsv P (arun P n (Run 0 ss)) (arun T m (Run 0 st)).
Proof.
  intros Hpar Hex Hwf Hasm n ss st He Hterm.
  destruct (assemble_simulates_res pr rsv P T Hpar Hex Hwf Hasm n ss st He) as [m0 [_ Hrel]].
  exists m0. intros m Hm. rewrite (arun_stable T m0 m); [exact Hrel| |exact Hm].
  intros pc s E. rewrite E in Hrel.
  destruct (arun P n (Run 0 ss)) as [pc0 s0|s0|k s0|k s0]; cbn [cfg_rel_res] in Hrel; try contradiction.
  eapply Hterm. reflexivity.
Qed.

(* the point of reserving: a reserved register keeps its value across the
   assembled subroutine exactly as it does across the source subroutine, even if
   the subroutine does not mention it (and the memories agree) *)
Corollary reserved_preserved pr rsv P T :
  params_ok pr = true -> is_exempt (ap_exempt pr) SET 1 = true ->
  wf_src P = true -> assemble_ir_res pr rsv P = AOk T ->
  forall n ss st s, eqv pr (named P ++ rsv)%list ss st -> arun P n (Run 0 ss) = Halted s ->
  exists m t, arun T m (Run 0 st) = Halted t /\ forall r, In r rsv -> s_regs s r = s_regs t r.
Proof.
  intros Hpar Hex Hwf Hasm n ss st s He Hs.
  destruct (assemble_simulates_res pr rsv P T Hpar Hex Hwf Hasm n ss st He) as [m [_ Hrel]].
  rewrite Hs in Hrel.
  destruct (arun T m (Run 0 st)) as [pc0 t|t|k t|k t] eqn:Ht; cbn [cfg_rel_res] in Hrel; try contradiction.
  exists m, t. split; [exact Ht|]. intros r Hr. destruct Hrel as [_ Hregs].
  apply Hregs. apply reserved_not_scratch. exact Hr.
Qed.

(* the same with the whole final state spelled out: equal memory, equal named
   registers, equal reserved registers *)
Corollary reserved_preserved_full pr rsv P T :
  params_ok pr = true -> is_exempt (ap_exempt pr) SET 1 = true ->
  wf_src P = true -> assemble_ir_res pr rsv P = AOk T ->
  forall n ss st s, eqv pr (named P ++ rsv)%list ss st -> arun P n (Run 0 ss) = Halted s ->
  exists m t, arun T m (Run 0 st) = Halted t /\ s_mem s = s_mem t /\
    (forall r, In r rsv -> s_regs s r = s_regs t r) /\
    (forall r, In r (named P) -> s_regs s r = s_regs t r) /\
    (forall r, fst r <> ap_bankR pr -> s_regs s r = s_regs t r).
Proof.
  intros Hpar Hex Hwf Hasm n ss st s He Hs.
  destruct (assemble_simulates_res pr rsv P T Hpar Hex Hwf Hasm n ss st He) as [m [_ Hrel]].
  rewrite Hs in Hrel.
  destruct (arun T m (Run 0 st)) as [pc0 t|t|k t|k t] eqn:Ht; cbn [cfg_rel_res] in Hrel; try contradiction.
  destruct Hrel as [Hm Hregs].
  exists m, t. split; [exact Ht|]. split; [exact Hm|]. split; [|split].
  - intros r Hr. apply Hregs. apply reserved_not_scratch. exact Hr.
  - intros r Hr. apply Hregs. apply named_not_scratch. exact Hr.
  - intros r Hr. apply Hregs. intros [Hb _]. contradiction.
Qed.

(* the instruction objects of a flavour: what the executor runs is the simulated program *)
Theorem assemble_res_flavour pr t rsv P B :
  params_ok pr = true -> is_exempt (ap_exempt pr) SET 1 = true ->
  wf_src P = true -> assemble_res pr t rsv P = AOk B ->
  forall n ss st, eqv pr (named P ++ rsv)%list ss st ->
  exists m, (n <= m)%nat /\ cfg_rel_res pr rsv P (arun P n (Run 0 ss)) (arun (map embed B) m (Run 0 st)).
Proof.
  intros Hpar Hex Hwf Hasm. unfold assemble_res, abind in Hasm.
  destruct (assemble_ir_res pr rsv P) as [T|e] eqn:HT; [|discriminate].
  destruct (build t T) as [B'|] eqn:HB; [|discriminate]. injection Hasm as ->.
  destruct (assemble_struct_res _ _ _ _ HT) as [tbl [_ [HT' _]]].
  rewrite (build_embed _ _ _ HB) by (rewrite HT'; apply blocks_noargs).
  exact (assemble_simulates_res pr rsv P T Hpar Hex Hwf HT).
Qed.

(* ====================================================================== *)
(* 5. the simulation, event semantics                                     *)
(* ====================================================================== *)

Definition cfg_rel_res_q (pr : aparams) (rsv : list reg) (P : list acmd) (a b : qacfg) : Prop :=
  let nm := (named P ++ rsv)%list in
  match a, b with
  | QRun pc s, QRun pc' t => pc' = pcmap_nm pr nm P pc /\ eqv_q pr nm s t
  | QHalted s, QHalted t => eqv_q pr nm s t
  | QFault k s, QFault k' t => k' = last_line_nm pr nm P k /\ eqv_q pr nm s t
  | QStuck k s, QStuck k' t => k' = last_line_nm pr nm P k /\ eqv_q pr nm s t
  | _, _ => False
  end.

Lemma cfg_rel_res_q_nil pr P a b : cfg_rel_res_q pr [] P a b <-> cfg_rel_q pr P a b.
Proof.
  unfold cfg_rel_res_q, cfg_rel_q, last_line, pcmap, pcmap_nm, last_line_nm, pcmap_nm.
  cbv zeta. rewrite app_nil_r. reflexivity.
Qed.

Section SimResQ.
  Variables (pr : aparams) (rsv : list reg) (P T : list acmd).
  Hypothesis Hpar : params_ok pr = true.
  Hypothesis Hqex : qexempt_ok (ap_exempt pr) = true.
  Hypothesis Hwf : wf_src_q P = true.
  Hypothesis Hasm : assemble_ir_res pr rsv P = AOk T.

  Lemma step_sim_res_q pc ss st :
    eqv_q pr (named P ++ rsv)%list ss st ->
    exists m, (1 <= m)%nat /\
      cfg_rel_res_q pr rsv P (astep_q P pc ss) (arun_q T m (QRun (pcmap_nm pr (named P ++ rsv)%list P pc) st)).
  Proof.
    intros Heq.
    destruct (assemble_struct_res _ _ _ _ Hasm) as [tbl [Htbl [HT HF]]].
    pose proof (table_is_pcmap_nm _ _ _ _ Htbl HF) as Hfind.
    pose proof Hwf as Hwf'.
    set (nm := (named P ++ rsv)%list) in *.
    assert (HTnl : forallb is_ins T = true) by (rewrite HT; apply blocks_nolab).
    assert (HTlen : List.length T = pcmap_from pr nm P (List.length P))
      by (rewrite HT; apply length_blocks; exact HF).
    unfold astep_q at 1. pose proof (fetch_pcmap pr nm P pc) as Hf.
    destruct (fetch P pc) as [[[k mn] ops]|].
    2:{ (* no instruction left: both halt *)
      exists 1%nat. split; [lia|]. cbn [arun_q]. unfold astep_q. rewrite (fetch_nolab T HTnl).
      unfold pcmap_nm. rewrite Hf, <- HTlen.
      assert (Hn : nth_error T (List.length T) = None) by (apply nth_error_None; lia).
      rewrite Hn. cbn [cfg_rel_res_q]. exact Heq. }
    destruct Hf as [[args [ops0 [Hk ->]]] Hpc].
    assert (Hok : cmd_ok pr nm (AIns mn args ops0)).
    { rewrite Forall_forall in HF. apply HF. eapply nth_error_In. exact Hk. }
    cbn [cmd_ok] in Hok.
    destruct (repl_ops pr nm mn 0 (all_ops args ops0) []) as [[[s ops'] tmp]|] eqn:Hr; [|congruence].
    destruct (repl_ops_spec _ _ _ _ _ _ _ _ _ Hr (good_tmp_nil pr nm)) as [ps [-> [Htmp [[Hnd Hsc] Hrel]]]].
    cbn [app] in Htmp. subst tmp.
    assert (Hblk : blk pr nm tbl (AIns mn args ops0) = (map setc ps ++ [AIns mn [] (map (resolve_opnd tbl) ops')])%list)
      by (cbn [blk]; rewrite Hr; reflexivity).
    assert (Hns : nsets pr nm (AIns mn args ops0) = List.length ps)
      by (cbn [nsets]; rewrite Hr, map_length; reflexivity).
    set (base := pcmap_from pr nm P k) in *.
    assert (Hnth : forall i, (i <= List.length ps)%nat ->
              nth_error T (base + i) = nth_error (map setc ps ++ [AIns mn [] (map (resolve_opnd tbl) ops')])%list i).
    { intros i Hi. rewrite HT, <- Hblk. apply nth_block; [exact HF|exact Hk|].
      rewrite Hblk, app_length, map_length. cbn [List.length]. lia. }
    (* the sets *)
    set (sta' := apply_sets ps (qa_st st)).
    set (st' := mkQA sta' (qa_um st) (qa_script st) (qa_trace st)).
    assert (Hrun : arun_q T (List.length ps) (QRun base st) = QRun (base + List.length ps) st').
    { unfold st', sta'. apply run_sets_q; [exact HTnl| |].
      - intros i Hi. rewrite (Hnth i ltac:(lia)). apply nth_error_app1. rewrite map_length. exact Hi.
      - rewrite Forall_forall. intros [r z] Hin. cbn [fst].
        apply (scratch_reg_ok pr nm r Hpar). rewrite Forall_forall in Hsc. apply Hsc.
        apply in_map_iff. exists (r, z). auto. }
    destruct Heq as [He [Hum [Hscr Htr]]].
    assert (HeA : eqv pr nm (qa_st ss) sta').
    { destruct He as [Hm Hregs]. split.
      - unfold sta'. rewrite apply_sets_mem. exact Hm.
      - intros r Hr'. unfold sta'. rewrite apply_sets_other; [apply Hregs; exact Hr'|].
        intros Hin. apply Hr'. rewrite Forall_forall in Hsc. apply Hsc. exact Hin. }
    assert (He' : eqv_q pr nm ss st').
    { unfold eqv_q, st'. cbn [qa_st qa_um qa_script qa_trace]. auto. }
    assert (Hps : forall r z, In (r, z) ps -> reg_ok (fst r) (snd r) = true /\ s_regs sta' r = Some z).
    { intros r z Hin. split.
      - apply (scratch_reg_ok pr nm r Hpar). rewrite Forall_forall in Hsc. apply Hsc.
        apply in_map_iff. exists (r, z). auto.
      - unfold sta'. apply apply_sets_in; assumption. }
    (* the instruction itself *)
    exists (List.length ps + 1)%nat. split; [lia|].
    unfold pcmap_nm. rewrite <- Hpc. fold base.
    rewrite arun_q_add, Hrun. cbn [arun_q]. unfold astep_q at 1. rewrite (fetch_nolab T HTnl).
    rewrite (Hnth (List.length ps) (le_n _)).
    rewrite nth_error_app2 by (rewrite map_length; lia).
    rewrite map_length, Nat.sub_diag. cbn [nth_error all_ops map app].
    assert (Hnamed : forall r, In r (flat_map regs_of_opnd (all_ops args ops0)) -> ~ scratch pr nm r).
    { intros r Hin. unfold nm. apply named_not_scratch. eapply regs_in_named; eassumption. }
    assert (Hshape : cmd_shape_q (AIns mn [] (all_ops args ops0)) = true).
    { unfold wf_src_q in Hwf'. rewrite forallb_forall in Hwf'.
      change (cmd_shape_q (AIns mn args ops0) = true). apply Hwf'. eapply nth_error_In. exact Hk. }
    assert (Hdst : forall b i, In (AV (VReg b i)) (all_ops args ops0) -> ~ scratch pr nm (b, i)).
    { intros b i Hin. apply Hnamed. apply in_flat_map. exists (AV (VReg b i)).
      split; [exact Hin|left; reflexivity]. }
    assert (Hkeep : forall j z, is_exempt (ap_exempt pr) mn j = true ->
              nth_error (all_ops args ops0) j = Some (AV (VLit z)) ->
              nth_error (map (resolve_opnd tbl) ops') j = Some (AV (VLit z))).
    { intros j z Hj Hn. destruct (ops_rel_nth _ _ _ _ _ _ _ _ Hrel Hn) as [o' [E1 E2]].
      cbn [Nat.add op_rel] in E2. rewrite Hj in E2. subst o'.
      rewrite nth_error_map, E1. reflexivity. }
    pose proof (exec_q_rel pr nm tbl mn (all_ops args ops0) (map (resolve_opnd tbl) ops') ss st'
                  Hqex Hshape (ops_rel_osim pr nm tbl ps (qa_st ss) sta' HeA Hps _ _ _ _ _ Hrel Hnamed)
                  He' Hdst Hkeep) as Hexec.
    assert (Hlast : last_line_nm pr nm P k = (base + List.length ps)%nat).
    { unfold last_line_nm, pcmap_nm. fold base. rewrite Hk, Hns. reflexivity. }
    assert (HS : pcmap_nm pr nm P (S k) = S (base + List.length ps)).
    { unfold pcmap_nm. rewrite (pcmap_from_S _ _ _ _ _ Hk). fold base. cbn [bsize]. rewrite Hns. lia. }
    destruct (exec_q mn (all_ops args ops0) ss) as [x|t x| |];
      destruct (exec_q mn (map (resolve_opnd tbl) ops') st') as [y|t' y| |];
      cbn [qeres_rel] in Hexec; try contradiction.
    - cbn [cfg_rel_res_q]. split; [symmetry; exact HS|exact Hexec].
    - destruct Hexec as [Hxy [-> Hlab]]. apply is_label_inv in Hlab as [l ->].
      cbn [target resolve_opnd]. rewrite Hfind.
      destruct (label_pos P l) as [j|]; cbn [option_map target].
      + assert (H0 : (0 <=? Z.of_nat (pcmap_nm pr nm P j)) = true) by (apply Z.leb_le; lia).
        rewrite H0, Nat2Z.id. cbn [cfg_rel_res_q]. split; [reflexivity|exact Hxy].
      + rewrite (label_pos_nolab T l HTnl). cbn [cfg_rel_res_q]. split; [symmetry; exact Hlast|exact He'].
    - cbn [cfg_rel_res_q]. split; [symmetry; exact Hlast|exact He'].
    - cbn [cfg_rel_res_q]. split; [symmetry; exact Hlast|exact He'].
  Qed.

  Lemma sim_steps_res_q : forall n a b,
    cfg_rel_res_q pr rsv P a b ->
    exists m, (n <= m)%nat /\ cfg_rel_res_q pr rsv P (arun_q P n a) (arun_q T m b).
  Proof.
    induction n as [|n IH]; intros a b Hab.
    - exists O. split; [lia|exact Hab].
    - destruct a as [pc ss|ss|k ss|k ss]; destruct b as [pc' st|st|k' st|k' st];
        cbn [cfg_rel_res_q] in Hab; try contradiction.
      + destruct Hab as [-> He]. destruct (step_sim_res_q pc ss st He) as [m1 [Hm1 Hrel]].
        destruct (IH _ _ Hrel) as [m2 [Hm2 Hrel2]].
        exists (m1 + m2)%nat. split; [lia|]. cbn [arun_q]. rewrite arun_q_add. exact Hrel2.
      + exists (S n). split; [lia|]. cbn [arun_q cfg_rel_res_q]. exact Hab.
      + exists (S n). split; [lia|]. cbn [arun_q cfg_rel_res_q]. exact Hab.
      + exists (S n). split; [lia|]. cbn [arun_q cfg_rel_res_q]. exact Hab.
  Qed.
End SimResQ.

(* C03 with reserved registers over the event semantics: as above, and the
   assembled program produces THE SAME event trace, unit module and remaining
   measurement script *)
Theorem assemble_simulates_res_q pr rsv P T :
  params_ok pr = true -> qexempt_ok (ap_exempt pr) = true ->
  wf_src_q P = true -> assemble_ir_res pr rsv P = AOk T ->
  forall n ss st, eqv_q pr (named P ++ rsv)%list ss st ->
  exists m, (n <= m)%nat /\ cfg_rel_res_q pr rsv P (arun_q P n (QRun 0 ss)) (arun_q T m (QRun 0 st)).
Proof.
  intros Hpar Hqex Hwf Hasm n ss st He.
  apply (sim_steps_res_q pr rsv P T Hpar Hqex Hwf Hasm n (QRun 0 ss) (QRun 0 st)).
  cbn [cfg_rel_res_q]. split; [unfold pcmap_nm; destruct P; reflexivity|exact He].
Qed.

Theorem assemble_res_flavour_q pr t rsv P B :
  params_ok pr = true -> qexempt_ok (ap_exempt pr) = true ->
  wf_src_q P = true -> assemble_res pr t rsv P = AOk B ->
  forall n ss st, eqv_q pr (named P ++ rsv)%list ss st ->
  exists m, (n <= m)%nat /\ cfg_rel_res_q pr rsv P (arun_q P n (QRun 0 ss)) (arun_q (map embed B) m (QRun 0 st)).
Proof.
  intros Hpar Hqex Hwf Hasm. unfold assemble_res, abind in Hasm.
  destruct (assemble_ir_res pr rsv P) as [T|e] eqn:HT; [|discriminate].
  destruct (build t T) as [B'|] eqn:HB; [|discriminate]. injection Hasm as ->.
  destruct (assemble_struct_res _ _ _ _ HT) as [tbl [_ [HT' _]]].
  rewrite (build_embed _ _ _ HB) by (rewrite HT'; apply blocks_noargs).
  exact (assemble_simulates_res_q pr rsv P T Hpar Hqex Hwf HT).
Qed.

(* whenever the source has finished, the assembled program finishes in the same
   way with the same event trace, unit module and remaining script, and every
   reserved register holds what it holds after the source run *)
Corollary reserved_preserved_q pr rsv P T :
  params_ok pr = true -> qexempt_ok (ap_exempt pr) = true ->
  wf_src_q P = true -> assemble_ir_res pr rsv P = AOk T ->
  forall n ss st s, eqv_q pr (named P ++ rsv)%list ss st -> arun_q P n (QRun 0 ss) = QHalted s ->
  exists m t, arun_q T m (QRun 0 st) = QHalted t /\ qa_trace t = qa_trace s /\ qa_um t = qa_um s
              /\ qa_script t = qa_script s
              /\ forall r, In r rsv -> s_regs (qa_st s) r = s_regs (qa_st t) r.
Proof.
  intros Hpar Hqex Hwf Hasm n ss st s He Hs.
  destruct (assemble_simulates_res_q pr rsv P T Hpar Hqex Hwf Hasm n ss st He) as [m [_ Hrel]].
  rewrite Hs in Hrel.
  destruct (arun_q T m (QRun 0 st)) as [pc0 t|t|k t|k t] eqn:Ht; cbn [cfg_rel_res_q] in Hrel; try contradiction.
  destruct Hrel as [[_ Hregs] [H2 [H3 H4]]].
  exists m, t. split; [exact Ht|].
  split4; [symmetry; exact H4|symmetry; exact H2|symmetry; exact H3|].
  intros r Hr. apply Hregs. apply reserved_not_scratch. exact Hr.
Qed.

(* ====================================================================== *)
(* 6. examples: the hypotheses are satisfiable, reserving matters         *)
(* ====================================================================== *)

Local Open Scope string_scope.

Definition exr_params : aparams := mkAP 16 0 [("set", 1%nat)].
Definition exr_rsv : list reg := [(0, 0); (0, 1)].

(* the program of the task: with R0, R1 reserved the sets go to R2 and R3;
   without reservation they go to R0 and R1 *)
Definition exr_store : list acmd := [AIns "store" [] [AV (VLit 7); AEntry 0 (VLit 1)]].

Example reserved_scratch_example :
  assemble_ir_res exr_params exr_rsv exr_store =
    AOk [set_cmd (0, 2) 7; set_cmd (0, 3) 1; AIns "store" [] [AV (VReg 0 2); AEntry 0 (VReg 0 3)]]
  /\ assemble_ir exr_params exr_store =
    AOk [set_cmd (0, 0) 7; set_cmd (0, 1) 1; AIns "store" [] [AV (VReg 0 0); AEntry 0 (VReg 0 1)]].
Proof. split; vm_compute; reflexivity. Qed.

(* a subroutine that mentions neither R0 nor R1, run in a state where both hold
   live values: hypotheses of assemble_simulates_res / reserved_preserved hold,
   both runs halt, R0 and R1 keep 5 and 6; assembled WITHOUT the reservation the
   same subroutine overwrites R0 and R1 *)
Definition exr_prog : list acmd :=
  [ AIns "array" [] [AV (VLit 2); AAddr 0];
    ALab "L";
    AIns "store" [] [AV (VLit 7); AEntry 0 (VLit 1)];
    AIns "load" [] [AV (VReg 1 0); AEntry 0 (VLit 1)];
    AIns "beq" [] [AV (VReg 1 0); AV (VLit 0); ALabel "L"];
    AIns "ret_arr" [] [AAddr 0] ].

Definition exr_state : astate :=
  mkSt (fun r => if reg_eqb r (0, 0) then Some 5 else if reg_eqb r (0, 1) then Some 6 else None) empty_mem.

Example reserved_nonvacuous :
  params_ok exr_params = true /\ is_exempt (ap_exempt exr_params) SET 1 = true /\ wf_src exr_prog = true /\
  exists T,
    assemble_ir_res exr_params exr_rsv exr_prog = AOk T /\ List.length T = 10%nat /\
    match arun exr_prog 10 (Run 0 exr_state), arun T 20 (Run 0 exr_state) with
    | Halted s, Halted t =>
        s_regs s (0, 0) = Some 5 /\ s_regs t (0, 0) = Some 5 /\
        s_regs s (0, 1) = Some 6 /\ s_regs t (0, 1) = Some 6 /\
        s_regs t (0, 2) = Some 0 /\ s_regs s (0, 2) = None /\
        m_arr (s_mem s) = [(0, [None; Some 7])] /\ s_mem t = s_mem s
    | _, _ => False
    end.
Proof.
  split; [vm_compute; reflexivity|]. split; [vm_compute; reflexivity|]. split; [vm_compute; reflexivity|].
  eexists. split; [vm_compute; reflexivity|]. split; [vm_compute; reflexivity|].
  vm_compute. repeat split; reflexivity.
Qed.

Example unreserved_clobbers :
  exists T,
    assemble_ir exr_params exr_prog = AOk T /\
    match arun exr_prog 10 (Run 0 exr_state), arun T 20 (Run 0 exr_state) with
    | Halted s, Halted t =>
        s_regs s (0, 0) = Some 5 /\ s_regs t (0, 0) = Some 0 /\
        s_regs s (0, 1) = Some 6 /\ s_regs t (0, 1) = Some 1
    | _, _ => False
    end.
Proof.
  eexists. split; [vm_compute; reflexivity|]. vm_compute. repeat split; reflexivity.
Qed.

(* event semantics: the program of AsmQProofs with R0 reserved — the literal
   qubit operands are materialised in R1, the traces agree *)
Example reserved_nonvacuous_q :
  params_ok exq_params = true /\ qexempt_ok (ap_exempt exq_params) = true /\ wf_src_q exq_prog = true /\
  exists T,
    assemble_ir_res exq_params [(0, 0)] exq_prog = AOk T /\
    nth_error T 3 = Some (set_cmd (0, 1) 0) /\
    match arun_q exq_prog 20 (QRun 0 (init_qstate 2 [0; 1])), arun_q T 20 (QRun 0 (init_qstate 2 [0; 1])) with
    | QHalted s, QHalted t =>
        qa_trace t = qa_trace s /\ qa_um t = qa_um s /\ qa_script t = qa_script s /\
        s_regs (qa_st t) (0, 0) = s_regs (qa_st s) (0, 0) /\ List.length (qa_trace s) = 8%nat
    | _, _ => False
    end.
Proof.
  split; [vm_compute; reflexivity|]. split; [vm_compute; reflexivity|]. split; [vm_compute; reflexivity|].
  eexists. split; [vm_compute; reflexivity|]. split; [vm_compute; reflexivity|].
  vm_compute. repeat split; reflexivity.
Qed.
Local Close Scope string_scope.
