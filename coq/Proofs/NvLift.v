(* NvLift.v — a checked NV table row holds in every ring with omega (non-MOV rows:
   operator identity up to the phase omega^p). *)
From Coq Require Import ZArith List Bool Ring_theory.
From NQ Require Import Base.Cyclo Base.QMat Nv.NvSem Proofs.CycloProofs Proofs.QMatLift.
Import ListNotations.

Definition row_in_every_ring (r : nvrow) : Prop :=
  forall (R : Type) (rO rI : R) (radd rmul rsub : R -> R -> R) (ropp : R -> R)
         (Rth : ring_theory rO rI radd rmul rsub ropp (@eq R)) (omega half : R),
    opow R rI rmul omega 32 = ropp rI ->
    rmul (radd rI rI) half = rI ->
    exists G p, gate_spec (r_gate r) (r_place r) = Some G /\ (p < 64)%nat /\
      rcircuit R rO rI radd rmul ropp omega half (n_wires (r_place r)) (r_seq r) =
        Some (rmscale R rmul (opow R rI rmul omega p)
                      (map (map (keval R rO rI radd rmul ropp omega half)) G)).

Lemma row_spec_lifts : forall r, r_gate r <> VMov -> row_spec r -> row_in_every_ring r.
Proof.
  intros r Hm Hs R rO rI radd rmul rsub ropp Rth omega half H32 H2.
  unfold row_spec in Hs.
  destruct (r_gate r) eqn:Eg; try (exfalso; apply Hm; reflexivity);
    destruct Hs as [U [G [Hc [Hg Hp]]]];
    destruct (circuit_lift_all R rO rI radd rmul rsub ropp Rth omega half H32 H2 _ _ U G Hc Hp) as [p [Hp1 Hp2]];
    exists G, p; (split; [exact Hg | split; [exact Hp1 | exact Hp2]]).
Qed.
