(* NvLift.v — a checked NV table row holds in every ring with omega (non-MOV rows:
   operator identity up to the phase omega^p). *)
From Coq Require Import ZArith List Bool Ring_theory.
From NQ Require Import Base.Cyclo Base.QMat Nv.NvSem Proofs.CycloProofs Proofs.QMatLift.
Import ListNotations.

Definition row_in_every_ring (r : nvrow) : Prop :=
  forall (R : Type) (rO rI : R) (radd rmul rsub : R -> R -> R) (ropp : R -> R)
         (Rth : ring_theory rO rI radd rmul rsub ropp (@eq R)) (omega half : R),
    opow R rI rmul omega 32 = ropp rI ->
    rmul (radd rI rI) half = rI ->
    exists G p, gate_spec (r_gate r) (r_place r) = Some G /\ (p < 64)%nat /\
      rcircuit R rO rI radd rmul ropp omega half (n_wires (r_place r)) (r_seq r) =
        Some (rmscale R rmul (opow R rI rmul omega p)
                      (map (map (keval R rO rI radd rmul ropp omega half)) G)).

Lemma row_spec_lifts : forall r, r_gate r <> VMov -> row_spec r -> row_in_every_ring r.
Proof.
  intros r Hm Hs R rO rI radd rmul rsub ropp Rth omega half H32 H2.
  unfold row_spec in Hs.
  destruct (r_gate r) as [g1x|ax nx dx|g2x| |nm Gc] eqn:Eg; try (exfalso; apply Hm; reflexivity);
    destruct Hs as [U [G [Hc [Hg Hp]]]];
    destruct (circuit_lift_all R rO rI radd rmul rsub ropp Rth omega half H32 H2 _ _ U G Hc Hp) as [p [Hp1 Hp2]];
    exists G, p; (split; [exact Hg | split; [exact Hp1 | exact Hp2]]).
Qed.

(* ---- MOV rows: state transfer in every ring with omega and a conjugation ---- *)
Section MovLift.
  Variable R : Type.
  Variables (rO rI : R) (radd rmul rsub : R -> R -> R) (ropp : R -> R).
  Hypothesis Rth : ring_theory rO rI radd rmul rsub ropp (@eq R).
  Variables (omega half : R).
  Hypothesis omega32 : opow R rI rmul omega 32 = ropp rI.
  Hypothesis half2 : rmul (radd rI rI) half = rI.
  (* a conjugation: ring endomorphism sending omega to omega^-1 and fixing 1/2 *)
  Variable cj : R -> R.
  Hypothesis cj_0 : cj rO = rO.
  Hypothesis cj_1 : cj rI = rI.
  Hypothesis cj_add : forall x y, cj (radd x y) = radd (cj x) (cj y).
  Hypothesis cj_mul : forall x y, cj (rmul x y) = rmul (cj x) (cj y).
  Hypothesis cj_opp : forall x, cj (ropp x) = ropp (cj x).
  Hypothesis cj_omega : cj omega = opow R rI rmul omega 63.
  Hypothesis cj_half : cj half = half.

  Add Ring RringM : Rth.

  Local Notation ev := (QMatLift.ev R rO rI radd rmul ropp omega half).
  Local Notation mev := (map (map ev)).
  Local Notation rmm := (rmmul R rO radd rmul).
  Local Notation rkr := (rkron R rmul).
  Local Notation rid := (rmid R rO rI).
  Local Notation rk0 := (rket0 R rO rI).

  Definition rmov_in (p : placement) : list (list R) :=
    match p with PEC => rkr (rid 2) rk0 | _ => rkr rk0 (rid 2) end.
  Definition rmov_out (p : placement) (phi : list (list R)) : list (list R) :=
    match p with PEC => rkr phi (rid 2) | _ => rkr (rid 2) phi end.

  (* in R: the circuit computed in R maps psi (x) |0> to phi0 (x) psi (resp. with the
     roles of the wires exchanged) for one vector phi0 = (a, b) with |a|^2 + |b|^2 = 1 *)
  Definition mov_transfers_in (r : nvrow) : Prop :=
    exists (UR : list (list R)) (a b : R),
      rcircuit R rO rI radd rmul ropp omega half 2 (r_seq r) = Some UR /\
      rmm UR (rmov_in (r_place r)) = rmov_out (r_place r) [[a]; [b]] /\
      radd (rmul (cj a) a) (rmul (cj b) b) = rI.

  Lemma mov_row_lifts : forall r, r_gate r = VMov -> row_spec r -> mov_transfers_in r.
  Proof.
    intros r Hg Hs. unfold row_spec in Hs. rewrite Hg in Hs.
    destruct Hs as [U [Inp [phi0 [Hc [Hin [Hd [Hsh [He Hn]]]]]]]].
    (* phi0 is a column (a, b) *)
    destruct phi0 as [|r1 [|r2 [|r3 rest]]]; try discriminate.
    destruct r1 as [|a [|a' r1]]; try discriminate.
    destruct r2 as [|b [|b' r2]]; try discriminate.
    assert (Hla : (List.length (kc a) <= 64)%nat /\ (List.length (kc b) <= 64)%nat).
    { unfold mshort in Hsh. cbn in Hsh. rewrite !andb_true_r in Hsh.
      apply andb_true_iff in Hsh. destruct Hsh as [H1 H2].
      split; apply Nat.leb_le; assumption. }
    destruct Hla as [Hla Hlb].
    assert (Hnw : n_wires (r_place r) = 2%nat /\
                  mev Inp = rmov_in (r_place r) /\ dims_ok 4 2 Inp = true /\
                  mev (mov_out (r_place r) [[a]; [b]]) = rmov_out (r_place r) [[ev a]; [ev b]]).
    { unfold mov_in in Hin. destruct (r_place r); try discriminate.
      - assert (HI : kron (mid 2) ket0 = Inp) by congruence. subst Inp.
        split; [reflexivity|]. split; [|split; [reflexivity|]]; unfold rmov_in, rmov_out, mov_out;
          rewrite (mev_kron R rO rI radd rmul rsub ropp Rth omega half omega32 half2),
                  (mev_mid R rO rI radd rmul rsub ropp Rth omega half);
          try rewrite (mev_ket0 R rO rI radd rmul rsub ropp Rth omega half); reflexivity.
      - assert (HI : kron ket0 (mid 2) = Inp) by congruence. subst Inp.
        split; [reflexivity|]. split; [|split; [reflexivity|]]; unfold rmov_in, rmov_out, mov_out;
          rewrite (mev_kron R rO rI radd rmul rsub ropp Rth omega half omega32 half2),
                  (mev_mid R rO rI radd rmul rsub ropp Rth omega half);
          try rewrite (mev_ket0 R rO rI radd rmul rsub ropp Rth omega half); reflexivity. }
    destruct Hnw as [Hn2 [Hin' [Hdi Hout]]]. rewrite Hn2 in Hc.
    exists (mev U), (ev a), (ev b). split; [|split].
    - exact (circuit_image R rO rI radd rmul rsub ropp Rth omega half omega32 half2 2 (r_seq r) U Hc).
    - rewrite <- Hin', <- Hout. symmetry.
      transitivity (mev (mmul U Inp)); [f_equal; symmetry; exact He|].
      exact (mmul_lift_dims R rO rI radd rmul rsub ropp Rth omega half omega32 half2 3 2 U Inp Hdi).
    - assert (Hn' : mev (mmul [[kconj a; kconj b]] [[a]; [b]]) = mev [[kone]]) by (f_equal; exact Hn).
      rewrite (mmul_lift_dims R rO rI radd rmul rsub ropp Rth omega half omega32 half2 1 1 _ _ Hd) in Hn'.
      cbn in Hn'. unfold QMatLift.ev in *.
      rewrite (keval_kconj R rO rI radd rmul rsub ropp Rth omega half omega32 half2 cj
                 cj_0 cj_1 cj_add cj_mul cj_opp cj_omega cj_half a Hla) in Hn'.
      rewrite (keval_kconj R rO rI radd rmul rsub ropp Rth omega half omega32 half2 cj
                 cj_0 cj_1 cj_add cj_mul cj_opp cj_omega cj_half b Hlb) in Hn'.
      rewrite (keval_one R rO rI radd rmul rsub ropp Rth) in Hn'.
      injection Hn' as Hn'. etransitivity; [|exact Hn']. ring.
  Qed.
End MovLift.
