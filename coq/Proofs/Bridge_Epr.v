(* Bridge_Epr.v — bridge from the private interpreter of C10 (Sdk/EprBuild.v) to
   the common semantics with abstract quantum events (Exec/SemQ.v).

   PARTIAL (see design/C04.md).  EprBuild.code is a STRUCTURED language (CIfEq,
   CIfNe, CLoop with nested bodies, immediates as operands, one register
   namespace); the common semantics is flat machine code.  Bridged here: the
   LEAF instructions with register operands
       CSet, CAdd r (R a) (R b), CSub r (R a) (R b), CLoad, CGate, CMov
   (registers 0..15 read as R0..R15).  Not bridged: CIfEq / CIfNe / CLoop (that
   needs a compiler to labels+jumps and its correctness proof: C03/C05 territory),
   immediates as add/sub operands, CWait (a no-op there, wait_all can block in
   Sem), CQFree and CMeas (events only there; Sem frees the qubit / writes the
   outcome register). *)
From Coq Require Import ZArith List Bool String Ascii Lia ZifyBool.
From NQ Require Sdk.EprBuild.
From NQ Require Import Exec.State Exec.Sem Exec.SemQ Proofs.ExecProofs Proofs.BridgeCommon Proofs.SemQProofs.
Import ListNotations.
Open Scope Z_scope.

Module E := NQ.Sdk.EprBuild.

Definition e_reg (r : E.reg) : reg := (BR, Z.of_nat r).

Fixpoint name_codes (s : string) : list Z :=
  match s with
  | EmptyString => []
  | String c r => Z.of_nat (nat_of_ascii c) :: name_codes r
  end.

Definition TAG_NAMED : Z := 100.
Definition TAG_MOV : Z := 32.

Definition e_code (c : E.code) : option qinstr :=
  match c with
  | E.CSet r z => Some (QC (ISet (e_reg r) z))
  | E.CAdd r (E.R a) (E.R b) => Some (QC (IClassical (COp OAdd (e_reg r) (e_reg a) (e_reg b))))
  | E.CSub r (E.R a) (E.R b) => Some (QC (IClassical (COp OSub (e_reg r) (e_reg a) (e_reg b))))
  | E.CLoad r arr ix => Some (QC (ILoad (e_reg r) (Z.of_nat arr) (OReg (e_reg ix))))
  | E.CGate nm q a b => Some (QGate TAG_NAMED (a :: b :: name_codes nm) [e_reg q])
  | E.CMov src dst => Some (QGate TAG_MOV [] [e_reg src; e_reg dst])
  | _ => None
  end.

Definition e_ev (e : E.ev) : qevent :=
  match e with
  | E.Ev nm q a b =>
      if String.eqb nm "mov" then QEvGate TAG_MOV [] [q; a]
      else QEvGate TAG_NAMED (a :: b :: name_codes nm) [q]
  end.

(* arrays are a total function in EprBuild: a missing array reads as the empty list *)
Definition erel (es : E.st) (s : qstate) : Prop :=
  (forall r, E.regs es r = rd (q_st s) (e_reg r)) /\
  (forall a, E.arrs es a = match find Z.eqb (Z.of_nat a) (arrs (q_st s)) with Some l => l | None => [] end) /\
  q_trace s = rev (map e_ev (E.trace es)).

Definition leaf_bridge (pc : Z) (r : E.res) (q : qres) : Prop :=
  match r with
  | E.Ok es' => exists s', q = QNext s' (pc + 1) /\ erel es' s'
  | E.Fault => exists k, q = QStop (Fault k pc)
  | E.OutOfFuel => False
  end.

Ltac pre :=
  let Hok := fresh "Hok" in
  unfold step in *; cbv zeta in *;
  match goal with
  | H : context [negb (instr_regs_ok ?i)] |- _ => destruct (instr_regs_ok i) eqn:Hok
  end; cbn [negb] in *; [|congruence]; cbn [instr_regs_ok opnd_ok] in Hok; regs.

Lemma qc_not_open : forall c s pc, qstep (QC c) s pc <> QStop (Unspec pc) -> step c (q_st s) pc <> Stop (Unspec pc).
Proof. intros c s pc H E. apply H. cbn [qstep]. rewrite E. reflexivity. Qed.

Lemma e_reg_eqb : forall a b, Nat.eqb a b = reg_eqb (e_reg b) (e_reg a).
Proof.
  intros a b. unfold reg_eqb, e_reg, bank_eqb. cbn.
  destruct (Nat.eqb a b) eqn:E.
  - apply Nat.eqb_eq in E. subst. symmetry. apply Z.eqb_refl.
  - apply Nat.eqb_neq in E. symmetry. apply Z.eqb_neq. lia.
Qed.

Lemma regs_setreg : forall es st r v,
  (forall r', E.regs es r' = rd st (e_reg r')) ->
  forall r', E.regs (E.setreg r v es) r' = rd (wr st (e_reg r) v) (e_reg r').
Proof.
  intros es st r v H r'. cbn [E.setreg E.regs]. rewrite rd_wr, <- e_reg_eqb. rewrite H. reflexivity.
Qed.

Ltac efault := cbn [leaf_bridge]; first [ congruence | eexists; reflexivity | cbn; eexists; reflexivity ].

Section Leaf.
  Variables (fuel : nat) (es : E.st) (s : qstate) (pc : Z).
  Hypothesis R : erel es s.
  Let Rr := proj1 R.
  Let Ra := proj1 (proj2 R).
  Let Rt := proj2 (proj2 R).

  Lemma eb_set : forall r z, qstep (QC (ISet (e_reg r) z)) s pc <> QStop (Unspec pc) ->
    leaf_bridge pc (E.exec fuel (E.CSet r z) es) (qstep (QC (ISet (e_reg r) z)) s pc).
  Proof.
    intros r z H. apply qc_not_open in H. cbn [qstep E.exec leaf_bridge]. pre.
    eexists; split; [reflexivity|]. split; [apply regs_setreg; exact Rr|]. split; [exact Ra|exact Rt].
  Qed.

  Lemma eb_arith : forall o r a b,
    qstep (QC (IClassical (COp o (e_reg r) (e_reg a) (e_reg b)))) s pc <> QStop (Unspec pc) ->
    leaf_bridge pc (match E.regs es a, E.regs es b with
                    | Some x, Some y => E.Ok (E.setreg r (binop_val o x y) es)
                    | _, _ => E.Fault
                    end)
                (qstep (QC (IClassical (COp o (e_reg r) (e_reg a) (e_reg b)))) s pc).
  Proof.
    intros o r a b H. apply qc_not_open in H. cbn [qstep]. pre. rewrite !Rr.
    destruct (rd (q_st s) (e_reg a)) as [x|]; [|efault].
    destruct (rd (q_st s) (e_reg b)) as [y|]; [|efault].
    cbn [leaf_bridge]. eexists; split; [reflexivity|].
    split; [apply regs_setreg; exact Rr|]. split; [exact Ra|exact Rt].
  Qed.

  Lemma eb_load : forall r arr ix,
    qstep (QC (ILoad (e_reg r) (Z.of_nat arr) (OReg (e_reg ix)))) s pc <> QStop (Unspec pc) ->
    leaf_bridge pc (E.exec fuel (E.CLoad r arr ix) es)
                (qstep (QC (ILoad (e_reg r) (Z.of_nat arr) (OReg (e_reg ix)))) s pc).
  Proof.
    intros r arr ix H. apply qc_not_open in H. cbn [qstep E.exec]. pre. cbn [oval] in *. rewrite Rr, Ra.
    destruct (rd (q_st s) (e_reg ix)) as [n|]; [|efault].
    destruct (n <? 0) eqn:En; [congruence|].
    destruct (find Z.eqb (Z.of_nat arr) (arrs (q_st s))) as [l|].
    - unfold cell in *.
      destruct (nth_error l (Z.to_nat n)) as [[v|]|] eqn:Ev.
      + assert (Hlt : n < Zlen l) by (eapply nth_some_lt; [lia|exact Ev]).
        replace (Zlen l <=? n) with false by lia.
        cbn [leaf_bridge]. eexists; split; [reflexivity|].
        split; [apply regs_setreg; exact Rr|]. split; [exact Ra|exact Rt].
      + destruct (Zlen l <=? n); efault.
      + destruct (Zlen l <=? n); efault.
    - destruct (Z.to_nat n); efault.
  Qed.

  Lemma eb_gate : forall nm q a b,
    String.eqb nm "mov" = false ->
    qstep (QGate TAG_NAMED (a :: b :: name_codes nm) [e_reg q]) s pc <> QStop (Unspec pc) ->
    leaf_bridge pc (E.exec fuel (E.CGate nm q a b) es)
                (qstep (QGate TAG_NAMED (a :: b :: name_codes nm) [e_reg q]) s pc).
  Proof.
    intros nm q a b Hnm H. cbn [qstep E.exec] in *.
    destruct (negb (forallb reg_ok [e_reg q])); [congruence|]. cbn [rd_all]. rewrite Rr.
    destruct (rd (q_st s) (e_reg q)) as [v|]; [|efault].
    cbn [leaf_bridge]. eexists; split; [reflexivity|].
    split; [exact Rr|]. split; [exact Ra|].
    cbn [q_trace E.emit E.trace]. rewrite map_app, rev_app_distr, Rt. cbn [map rev app e_ev]. rewrite Hnm. reflexivity.
  Qed.

  Lemma eb_mov : forall src dst,
    qstep (QGate TAG_MOV [] [e_reg src; e_reg dst]) s pc <> QStop (Unspec pc) ->
    leaf_bridge pc (E.exec fuel (E.CMov src dst) es) (qstep (QGate TAG_MOV [] [e_reg src; e_reg dst]) s pc).
  Proof.
    intros src dst H. cbn [qstep E.exec] in *.
    destruct (negb (forallb reg_ok [e_reg src; e_reg dst])); [congruence|]. cbn [rd_all]. rewrite !Rr.
    destruct (rd (q_st s) (e_reg src)) as [x|]; [|efault].
    destruct (rd (q_st s) (e_reg dst)) as [y|]; [|efault].
    cbn [leaf_bridge]. eexists; split; [reflexivity|].
    split; [exact Rr|]. split; [exact Ra|].
    cbn [q_trace E.emit E.trace]. rewrite map_app, rev_app_distr, Rt. reflexivity.
  Qed.
End Leaf.

(* THE BRIDGE for C10, PARTIAL: leaf instructions only (see the header). *)
Theorem epr_leaf_bridge_partial : forall fuel c qi es s pc,
  e_code c = Some qi -> erel es s ->
  (forall nm q a b, c = E.CGate nm q a b -> String.eqb nm "mov" = false) ->
  qstep qi s pc <> QStop (Unspec pc) ->
  leaf_bridge pc (E.exec fuel c es) (qstep qi s pc).
Proof.
  intros fuel c qi es s pc He R Hnm H.
  destruct c as [r z|r a b|r a b|r arr ix|arr lo hi|nm q a b|src dst|q|q|r z body|r z body|l stop body];
    cbn [e_code] in He; try discriminate.
  - inversion He; subst qi. apply eb_set; assumption.
  - destruct a as [a|]; [|discriminate]. destruct b as [b|]; [|discriminate]. inversion He; subst qi.
    apply (eb_arith es s pc R OAdd r a b H).
  - destruct a as [a|]; [|discriminate]. destruct b as [b|]; [|discriminate]. inversion He; subst qi.
    apply (eb_arith es s pc R OSub r a b H).
  - inversion He; subst qi. apply eb_load; assumption.
  - inversion He; subst qi. apply eb_gate; eauto.
  - inversion He; subst qi. apply eb_mov; assumption.
Qed.
