(* Bridge_SdkAsm.v — the SDK link of the end-to-end chain: C05's target language
   (Sdk/Target.v: flat code with labels occupying code positions, proto-level
   instructions with immediates) read as a proto-program of the assembler and run
   by C03's event semantics Lang/AsmSemQ.v (whose fetch skips labels).

   Forward simulation from SUCCESSFUL Target runs (what C05's theorems deliver):
   if `frun` finishes the flat code, `arun_q` halts on the translated program in
   a related state.  Side conditions are static (code_ok: register indices < 16,
   no IOpaque, every qalloc directly preceded by the `set` of its operand to an id
   below the capacity -- the shape Lower.v emits). *)
From Coq Require Import ZArith List Bool String Ascii Lia ZifyBool.
From NQ Require Sdk.SdkAst Sdk.Target.
From NQ Require Import Lang.Asm Lang.AsmSem Lang.AsmSemQ.
From NQ Require Import Exec.State Exec.SemQ.
From NQ Require Import Proofs.ExecProofs Proofs.BridgeCommon Proofs.Bridge_Asm Proofs.Bridge_AsmQ.
Import ListNotations.
Open Scope Z_scope.

Module G := NQ.Sdk.Target.
Module A := NQ.Sdk.SdkAst.

(* ------------------------------------------------------------------ translation *)
Definition t_bank (b : G.bank) : Z := match b with G.BR => 0 | G.BC => 1 | G.BQ => 2 | G.BM => 3 end.
Definition t_reg (r : G.reg) : aval := match r with G.Rg b i => VReg (t_bank b) (Z.of_nat i) end.
Definition t_rop (o : G.rop) : aval := match o with G.PImm z => VLit z | G.PReg r => t_reg r end.

(* label number n |-> the string of n letters "a" (injective) *)
Fixpoint lab_name (n : nat) : string :=
  match n with O => EmptyString | S k => String "a"%char (lab_name k) end.

Local Open Scope string_scope.
Definition g1_name (g : A.gate1) : string :=
  match g with A.GX => "x" | A.GY => "y" | A.GZ => "z" | A.GH => "h" | A.GK => "k" | A.GS => "s" | A.GT => "t" end.
Definition rot_name (a : A.axis) : string := match a with A.AX => "rot_x" | A.AY => "rot_y" | A.AZ => "rot_z" end.
Definition g2_name (t : A.gate2) : string := match t with A.TCnot => "cnot" | A.TCphase => "cphase" end.

Definition t_instr (i : G.instr) : option acmd :=
  match i with
  | G.ISet r z => Some (AIns "set" [] [AV (t_reg r); AV (VLit z)])
  | G.IQ G.QAlloc r => Some (AIns "qalloc" [] [AV (t_reg r)])
  | G.IQ G.QInit r => Some (AIns "init" [] [AV (t_reg r)])
  | G.IQ G.QFree r => Some (AIns "qfree" [] [AV (t_reg r)])
  | G.IQ (G.QG g) r => Some (AIns (g1_name g) [] [AV (t_reg r)])
  | G.IRot ax r n d => Some (AIns (rot_name ax) [] [AV (t_reg r); AV (VLit n); AV (VLit d)])
  | G.ITwo t r1 r2 => Some (AIns (g2_name t) [] [AV (t_reg r1); AV (t_reg r2)])
  | G.IMeas q m => Some (AIns "meas" [] [AV (t_reg q); AV (t_reg m)])
  | G.IStore v a ix => Some (AIns "store" [] [AV (t_rop v); AEntry (Z.of_nat a) (t_rop ix)])
  | G.ILoad r a ix => Some (AIns "load" [] [AV (t_reg r); AEntry (Z.of_nat a) (t_rop ix)])
  | G.IAdd d x y => Some (AIns "add" [] [AV (t_reg d); AV (t_reg x); AV (t_rop y)])
  | G.IAddm d x y m => Some (AIns "addm" [] [AV (t_reg d); AV (t_reg x); AV (t_rop y); AV (VLit m)])
  | G.IArray n a => Some (AIns "array" [] [AV (VLit n); AAddr (Z.of_nat a)])
  | G.IRetArr a => Some (AIns "ret_arr" [] [AAddr (Z.of_nat a)])
  | G.IRetReg r => Some (AIns "ret_reg" [] [AV (t_reg r)])
  | G.IOpaque _ => None
  end.

Definition t_fcmd (c : G.fcmd) : option acmd :=
  match c with
  | G.FI i => t_instr i
  | G.FLab l => Some (ALab (lab_name l))
  | G.FJmp l => Some (AIns "jmp" [] [ALabel (lab_name l)])
  | G.FBr A.CEq x y l => Some (AIns "beq" [] [AV (t_rop x); AV (t_rop y); ALabel (lab_name l)])
  | G.FBr A.CNe x y l => Some (AIns "bne" [] [AV (t_rop x); AV (t_rop y); ALabel (lab_name l)])
  | G.FBr A.CLt x y l => Some (AIns "blt" [] [AV (t_rop x); AV (t_rop y); ALabel (lab_name l)])
  | G.FBr A.CGe x y l => Some (AIns "bge" [] [AV (t_rop x); AV (t_rop y); ALabel (lab_name l)])
  | G.FBr A.CEz x y l => Some (AIns "bez" [] [AV (t_rop x); ALabel (lab_name l)])
  | G.FBr A.CNz x y l => Some (AIns "bnz" [] [AV (t_rop x); ALabel (lab_name l)])
  end.
Local Close Scope string_scope.

Fixpoint t_prog (c : list G.fcmd) : option (list acmd) :=
  match c with
  | [] => Some []
  | x :: r => match t_fcmd x, t_prog r with
              | Some a, Some p => Some (a :: p)
              | _, _ => None
              end
  end.

(* ------------------------------------------------------------------ traces: instances from virtual ids
   Target's trace names qubit INSTANCES (a fresh number per init); the traces of
   AsmSemQ / SemQ name virtual qubit ids.  [replay] recomputes the instance-based
   trace from a virtual-id trace (newest first): the instance map and counter
   evolve exactly as Target's m_inst / m_n. *)
Definition nat_of (q : Z) : nat := Z.to_nat q.

Definition replay_ev (e : qevent) (st : (nat -> nat) * nat * list A.tev) : (nat -> nat) * nat * list A.tev :=
  let '(im, n, out) := st in
  match e with
  | QEvGate tag imms qs =>
      match qs, imms with
      | [q], [] =>
          if tag =? 0 then (G.upd_nat im (nat_of q) n, S n, A.TInit n :: out)
          else if tag =? 10 then (im, n, A.TG1 A.GX (im (nat_of q)) :: out)
          else if tag =? 11 then (im, n, A.TG1 A.GY (im (nat_of q)) :: out)
          else if tag =? 12 then (im, n, A.TG1 A.GZ (im (nat_of q)) :: out)
          else if tag =? 13 then (im, n, A.TG1 A.GH (im (nat_of q)) :: out)
          else if tag =? 14 then (im, n, A.TG1 A.GK (im (nat_of q)) :: out)
          else if tag =? 15 then (im, n, A.TG1 A.GS (im (nat_of q)) :: out)
          else if tag =? 16 then (im, n, A.TG1 A.GT (im (nat_of q)) :: out)
          else st
      | [q], [a; d] =>
          if tag =? 20 then (im, n, A.TRot A.AX (im (nat_of q)) a d :: out)
          else if tag =? 21 then (im, n, A.TRot A.AY (im (nat_of q)) a d :: out)
          else if tag =? 22 then (im, n, A.TRot A.AZ (im (nat_of q)) a d :: out)
          else st
      | [q0; q1], [] =>
          if tag =? 30 then (im, n, A.TG2 A.TCnot (im (nat_of q0)) (im (nat_of q1)) :: out)
          else if tag =? 31 then (im, n, A.TG2 A.TCphase (im (nat_of q0)) (im (nat_of q1)) :: out)
          else st
      | _, _ => st
      end
  | QEvMeas q o => (im, n, A.TMeas (im (nat_of q)) o :: out)
  | _ => st                    (* qalloc / qfree / ret_reg / ret_arr: no event in Target's trace *)
  end.

Fixpoint replay (tr : list qevent) : (nat -> nat) * nat * list A.tev :=
  match tr with
  | [] => (fun _ => O, O, [])
  | e :: older => replay_ev e (replay older)
  end.

(* the instance-based gate trace of a virtual-id trace *)
Definition inst_trace (tr : list qevent) : list A.tev := snd (replay tr).

(* ------------------------------------------------------------------ relation Target state ~ AsmSemQ state *)
Definition trace_rel (ms : G.mst) (tr : list qevent) : Prop :=
  let '(im, n, out) := replay tr in
  (forall k, im k = G.m_inst ms k) /\ n = G.m_n ms /\ out = G.m_trace ms.

Record lrel (ms : G.mst) (qa : qastate) : Prop := mkLrel {
  l_regs : forall b i, G.m_reg ms (G.Rg b i) = s_regs (qa_st qa) (t_bank b, Z.of_nat i);
  l_arrs : forall a, G.m_arr ms a = zlookup (m_arr (s_mem (qa_st qa))) (Z.of_nat a);
  l_alloc : forall k, G.m_alloc ms k = nth k (qa_um qa) false;
  l_script : G.m_script ms = qa_script qa;
  l_trace : trace_rel ms (map e_aev (qa_trace qa))
}.

(* ------------------------------------------------------------------ static conditions on the code *)
Definition reg_lt (r : G.reg) : bool := match r with G.Rg _ i => Nat.ltb i 16 end.
Definition rop_lt (o : G.rop) : bool := match o with G.PImm _ => true | G.PReg r => reg_lt r end.

Definition instr_ok (i : G.instr) : bool :=
  match i with
  | G.ISet r _ | G.IQ _ r | G.IRot _ r _ _ | G.IRetReg r => reg_lt r
  | G.ITwo _ r1 r2 | G.IMeas r1 r2 => reg_lt r1 && reg_lt r2
  | G.IStore v _ ix => rop_lt v && rop_lt ix
  | G.ILoad r _ ix => reg_lt r && rop_lt ix
  | G.IAdd d x y | G.IAddm d x y _ => reg_lt d && reg_lt x && rop_lt y
  | G.IArray _ _ | G.IRetArr _ => true
  | G.IOpaque _ => false
  end.

Definition fcmd_ok (c : G.fcmd) : bool :=
  match c with
  | G.FI i => instr_ok i
  | G.FBr _ x y _ => rop_lt x && rop_lt y
  | _ => true
  end.

Definition reg_same (a b : G.reg) : bool := G.reg_eqb a b.

(* every qalloc is directly preceded by the `set` of its operand register to an id
   inside the unit module (the shape Lower.v emits: set_q Q0 id; qalloc Q0) *)
Fixpoint code_ok_from (cap : Z) (prev : option G.fcmd) (c : list G.fcmd) : bool :=
  match c with
  | [] => true
  | x :: r =>
      fcmd_ok x &&
      (match x with
       | G.FI (G.IQ G.QAlloc r0) =>
           match prev with
           | Some (G.FI (G.ISet r1 z)) => reg_same r0 r1 && (0 <=? z) && (z <? cap)
           | _ => false
           end
       | _ => true
       end) &&
      code_ok_from cap (Some x) r
  end.
Definition code_ok (cap : nat) (c : list G.fcmd) : bool := code_ok_from (Z.of_nat cap) None c.

(* ------------------------------------------------------------------ helpers *)
Lemma t_reg_ok : forall b i, Nat.ltb i 16 = true -> AsmSem.reg_ok (t_bank b) (Z.of_nat i) = true.
Proof.
  intros b i H. apply Nat.ltb_lt in H. unfold AsmSem.reg_ok, NBANKS, NREGS. destruct b; cbn [t_bank]; lia.
Qed.

Lemma t_reg_eqb : forall b i b' i',
  Asm.reg_eqb (t_bank b, Z.of_nat i) (t_bank b', Z.of_nat i') = G.reg_eqb (G.Rg b' i') (G.Rg b i).
Proof.
  intros b i b' i'. unfold Asm.reg_eqb, G.reg_eqb. cbn [fst snd].
  assert (Hb : (t_bank b =? t_bank b') = G.bank_eqb b' b) by (destruct b, b'; reflexivity).
  rewrite Hb. f_equal.
  destruct (Nat.eqb i' i) eqn:E.
  - apply Nat.eqb_eq in E. subst. apply Z.eqb_refl.
  - apply Nat.eqb_neq in E. apply Z.eqb_neq. lia.
Qed.

Section Helpers.
  Variables (ms : G.mst) (qa : qastate).
  Hypothesis L : lrel ms qa.

  Lemma rdv_reg : forall r, reg_lt r = true -> rdv (qa_st qa) (t_reg r) = G.m_reg ms r.
  Proof.
    intros [b i] H. cbn [t_reg reg_lt] in *. unfold rdv, AsmSem.rd. rewrite (t_reg_ok b i H).
    rewrite <- (l_regs _ _ L). destruct (G.m_reg ms (G.Rg b i)); reflexivity.
  Qed.

  Lemma rd_reg : forall r, reg_lt r = true -> AsmSem.rd (qa_st qa) (t_reg r) = Some (G.m_reg ms r).
  Proof.
    intros [b i] H. cbn [t_reg reg_lt] in *. unfold AsmSem.rd. rewrite (t_reg_ok b i H).
    rewrite <- (l_regs _ _ L). reflexivity.
  Qed.

  Lemma rdv_rop : forall o, rop_lt o = true -> rdv (qa_st qa) (t_rop o) = G.rop_val ms o.
  Proof. intros [z|r] H; cbn [t_rop G.rop_val]; [reflexivity|apply rdv_reg; exact H]. Qed.

  Lemma rd_rop : forall o, rop_lt o = true -> AsmSem.rd (qa_st qa) (t_rop o) = Some (G.rop_val ms o).
  Proof. intros [z|r] H; cbn [t_rop G.rop_val]; [reflexivity|apply rd_reg; exact H]. Qed.

  (* writing a register on both sides *)
  Lemma wr_reg : forall r z, reg_lt r = true ->
    exists st', AsmSem.wr (qa_st qa) (t_reg r) z = Some st' /\ s_mem st' = s_mem (qa_st qa) /\
                forall b i, G.upd_reg (G.m_reg ms) r z (G.Rg b i) = s_regs st' (t_bank b, Z.of_nat i).
  Proof.
    intros [b0 i0] z H. cbn [t_reg reg_lt] in *. unfold AsmSem.wr. rewrite (t_reg_ok b0 i0 H).
    eexists. split; [reflexivity|]. split; [reflexivity|].
    intros b i. cbn [s_regs]. unfold AsmSem.upd_reg, G.upd_reg. rewrite t_reg_eqb.
    rewrite (l_regs _ _ L). reflexivity.
  Qed.
End Helpers.

Lemma zlookup_zset : forall (A : Type) (l : list (Z * A)) k x k',
  zlookup (zset l k x) k' = if k' =? k then Some x else zlookup l k'.
Proof.
  intros A l k x k'. rewrite !zlookup_find, zset_upd. apply (find_upd _ _ _ Zeqb_spec).
Qed.

Lemma arrs_upd : forall (M : nat -> option (list (option Z))) (m : list (Z * list (option Z))) a l,
  (forall a', M a' = zlookup m (Z.of_nat a')) ->
  forall a', G.upd_nat M a (Some l) a' = zlookup (zset m (Z.of_nat a) l) (Z.of_nat a').
Proof.
  intros M m a l H a'. rewrite zlookup_zset. unfold G.upd_nat. rewrite H.
  destruct (Nat.eqb a' a) eqn:E.
  - apply Nat.eqb_eq in E. subst. rewrite Z.eqb_refl. reflexivity.
  - apply Nat.eqb_neq in E. replace (Z.of_nat a' =? Z.of_nat a) with false by lia. reflexivity.
Qed.

Lemma list_set_upd : forall (A : Type) (l : list A) k v l',
  G.list_set l k v = Some l' -> (k < List.length l)%nat /\ l' = list_upd l k v.
Proof.
  intros A l. induction l as [|h t IH]; intros k v l' H; [destruct k; discriminate|].
  destruct k as [|k]; cbn in H.
  - inversion H. split; [cbn; lia|reflexivity].
  - destruct (G.list_set t k v) as [t'|] eqn:E; [|discriminate]. inversion H; subst l'.
    destruct (IH _ _ _ E) as [Hk ->]. split; [cbn; lia|reflexivity].
Qed.

Lemma nth_list_upd : forall (l : list bool) k b k',
  (k < List.length l)%nat -> nth k' (list_upd l k b) false = if Nat.eqb k' k then b else nth k' l false.
Proof.
  induction l as [|h t IH]; intros k b k' H; cbn in H; [lia|].
  destruct k as [|k]; destruct k' as [|k']; cbn; try reflexivity.
  apply IH. lia.
Qed.

Lemma list_upd_length : forall (A : Type) (l : list A) k v, List.length (list_upd l k v) = List.length l.
Proof. intros A l. induction l as [|h t IH]; intros [|k] v; cbn; auto. Qed.

Lemma zidx_inv : forall o k, G.zidx o = Some k -> exists z, o = Some z /\ 0 <= z /\ k = Z.to_nat z.
Proof.
  intros [z|] k H; cbn in H; [|discriminate]. destruct (z <? 0) eqn:E; [discriminate|].
  inversion H. exists z. repeat split; lia.
Qed.

Lemma qid_inv : forall ms r k, G.qid ms r = Some k ->
  exists z, G.m_reg ms r = Some z /\ 0 <= z /\ k = Z.to_nat z /\ G.m_alloc ms k = true.
Proof.
  intros ms r k H. unfold G.qid in H. destruct (G.zidx (G.m_reg ms r)) as [k'|] eqn:E; [|discriminate].
  destruct (G.m_alloc ms k') eqn:Al; [|discriminate]. inversion H; subst k'.
  destruct (zidx_inv _ _ E) as (z & Hz & H0 & Hk). eauto 6.
Qed.

Lemma trace_rel_same : forall ms ms' tr,
  G.m_inst ms' = G.m_inst ms -> G.m_n ms' = G.m_n ms -> G.m_trace ms' = G.m_trace ms ->
  trace_rel ms tr -> trace_rel ms' tr.
Proof. intros ms ms' tr H1 H2 H3. unfold trace_rel. rewrite H1, H2, H3. auto. Qed.

(* ------------------------------------------------------------------ one instruction *)
Ltac qk :=
  repeat match goal with
         | |- context [qkind_of ?m] => let v := eval vm_compute in (qkind_of m) in change (qkind_of m) with v
         | |- context [opc_of ?m] => let v := eval vm_compute in (opc_of m) in change (opc_of m) with v
         end.

Definition sim_res (ms' : G.mst) (qa : qastate) (r : qeres) : Prop :=
  exists qa', r = QENext qa' /\ lrel ms' qa' /\ List.length (qa_um qa') = List.length (qa_um qa).

(* events that leave no mark in Target's trace *)
Definition silent (e : aevent) : bool :=
  match e with EvAlloc _ | EvFree _ | EvRetReg _ _ | EvRetArr _ _ => true | _ => false end.

Lemma trace_rel_silent : forall ms evs tr, forallb silent evs = true ->
  trace_rel ms (map e_aev tr) -> trace_rel ms (map e_aev (evs ++ tr)).
Proof.
  intros ms evs tr H T. induction evs as [|e evs IH]; [exact T|].
  cbn in H. apply andb_prop in H. destruct H as [He Hs]. specialize (IH Hs).
  cbn [app map]. unfold trace_rel in *. cbn [replay].
  destruct (replay (map e_aev (evs ++ tr))) as [[im n] out].
  destruct e; try discriminate; exact IH.
Qed.

Section InstrSim.
  Variables (ms : G.mst) (qa : qastate).
  Hypothesis L : lrel ms qa.

  (* a classical step that changed registers / memory and emitted only silent events *)
  Lemma classical_res : forall ms' st' evs,
    (forall b i, G.m_reg ms' (G.Rg b i) = s_regs st' (t_bank b, Z.of_nat i)) ->
    (forall a, G.m_arr ms' a = zlookup (m_arr (s_mem st')) (Z.of_nat a)) ->
    G.m_alloc ms' = G.m_alloc ms -> G.m_script ms' = G.m_script ms ->
    G.m_inst ms' = G.m_inst ms -> G.m_n ms' = G.m_n ms -> G.m_trace ms' = G.m_trace ms ->
    forallb silent evs = true ->
    sim_res ms' qa (QENext (with_st qa st' evs)).
  Proof.
    intros ms' st' evs Hr Ha Hal Hs Hi Hn Ht Hev. eexists; split; [reflexivity|]. split; [|reflexivity].
    constructor; cbn [with_st qa_st qa_um qa_script qa_trace].
    - exact Hr.
    - exact Ha.
    - rewrite Hal. apply (l_alloc _ _ L).
    - rewrite Hs. apply (l_script _ _ L).
    - apply trace_rel_silent; [exact Hev|]. eapply trace_rel_same; eauto. apply (l_trace _ _ L).
  Qed.


  Lemma is_set : forall r z, reg_lt r = true ->
    sim_res (G.set_reg ms r z) qa (exec_q "set"%string [AV (t_reg r); AV (VLit z)] qa).
  Proof.
    intros r z H. unfold exec_q. qk. cbn [exec].
    destruct (wr_reg ms qa L r z H) as (st' & Hw & Hm & Hr). rewrite Hw. cbn [next_or_fault].
    apply classical_res; try reflexivity; [exact Hr|]. intro a. rewrite Hm. apply (l_arrs _ _ L).
  Qed.

  Lemma is_add : forall d x y a b, reg_lt d = true -> reg_lt x = true -> rop_lt y = true ->
    G.m_reg ms x = Some a -> G.rop_val ms y = Some b ->
    sim_res (G.set_reg ms d (a + b)) qa (exec_q "add"%string [AV (t_reg d); AV (t_reg x); AV (t_rop y)] qa).
  Proof.
    intros d x y a b Hd Hx Hy Ha Hb. unfold exec_q. qk. cbn [exec].
    rewrite (rdv_reg ms qa L x Hx), (rdv_rop ms qa L y Hy), Ha, Hb. cbn [AsmSem.binop].
    destruct (wr_reg ms qa L d (a + b) Hd) as (st' & Hw & Hm & Hr). rewrite Hw. cbn [next_or_fault].
    apply classical_res; try reflexivity; [exact Hr|]. intro a0. rewrite Hm. apply (l_arrs _ _ L).
  Qed.

  Lemma is_addm : forall d x y m a b, reg_lt d = true -> reg_lt x = true -> rop_lt y = true ->
    G.m_reg ms x = Some a -> G.rop_val ms y = Some b -> (m <=? 0) = false ->
    sim_res (G.set_reg ms d ((a + b) mod m)) qa
            (exec_q "addm"%string [AV (t_reg d); AV (t_reg x); AV (t_rop y); AV (VLit m)] qa).
  Proof.
    intros d x y m a b Hd Hx Hy Ha Hb Hm0. unfold exec_q. qk. cbn [exec].
    rewrite (rdv_reg ms qa L x Hx), (rdv_rop ms qa L y Hy), Ha, Hb. cbn [rdv AsmSem.rd AsmSem.binop].
    replace (m <? 1) with false by lia.
    destruct (wr_reg ms qa L d ((a + b) mod m) Hd) as (st' & Hw & Hm & Hr). rewrite Hw. cbn [next_or_fault].
    apply classical_res; try reflexivity; [exact Hr|]. intro a0. rewrite Hm. apply (l_arrs _ _ L).
  Qed.

  Lemma is_array : forall n a, (n <? 0) = false ->
    sim_res (G.set_arr ms a (repeat None (Z.to_nat n))) qa (exec_q "array"%string [AV (VLit n); AAddr (Z.of_nat a)] qa).
  Proof.
    intros n a Hn. unfold exec_q. qk. cbn [exec rdv AsmSem.rd].
    apply classical_res; try reflexivity; [intros; apply (l_regs _ _ L)|].
    intro a'. cbn [G.set_arr G.m_arr s_mem arr_init m_arr]. apply arrs_upd. apply (l_arrs _ _ L).
  Qed.

  Lemma is_store : forall v a ix l k w l', rop_lt v = true -> rop_lt ix = true ->
    G.m_arr ms a = Some l -> G.zidx (G.rop_val ms ix) = Some k -> G.rop_val ms v = Some w ->
    G.list_set l k (Some w) = Some l' ->
    sim_res (G.set_arr ms a l') qa (exec_q "store"%string [AV (t_rop v); AEntry (Z.of_nat a) (t_rop ix)] qa).
  Proof.
    intros v a ix l k w l' Hv Hix Hl Hk Hw Hset. unfold exec_q. qk. cbn [exec].
    destruct (zidx_inv _ _ Hk) as (z & Hz & Hz0 & ->).
    destruct (list_set_upd _ _ _ _ _ Hset) as [Hlt ->].
    rewrite (rdv_rop ms qa L v Hv), (rdv_rop ms qa L ix Hix), Hw, Hz.
    unfold arr_set. rewrite <- (l_arrs _ _ L), Hl.
    rewrite norm_idx_nonneg by lia. replace (z <? Z.of_nat (List.length l)) with true by lia.
    cbn [with_mem]. apply classical_res; try reflexivity; [intros; apply (l_regs _ _ L)|].
    intro a'. cbn [G.set_arr G.m_arr s_mem m_arr]. apply arrs_upd. apply (l_arrs _ _ L).
  Qed.

  Lemma is_load : forall r a ix l k v, reg_lt r = true -> rop_lt ix = true ->
    G.m_arr ms a = Some l -> G.zidx (G.rop_val ms ix) = Some k -> nth_error l k = Some (Some v) ->
    sim_res (G.set_reg ms r v) qa (exec_q "load"%string [AV (t_reg r); AEntry (Z.of_nat a) (t_rop ix)] qa).
  Proof.
    intros r a ix l k v Hr Hix Hl Hk Hn. unfold exec_q. qk. cbn [exec].
    destruct (zidx_inv _ _ Hk) as (z & Hz & Hz0 & ->).
    assert (Hlt : (Z.to_nat z < List.length l)%nat) by (apply nth_error_Some; congruence).
    rewrite (rdv_rop ms qa L ix Hix), Hz.
    unfold arr_get. rewrite <- (l_arrs _ _ L), Hl.
    rewrite norm_idx_nonneg by lia. replace (z <? Z.of_nat (List.length l)) with true by lia. rewrite Hn.
    destruct (wr_reg ms qa L r v Hr) as (st' & Hw & Hm & Hrr). rewrite Hw. cbn [next_or_fault].
    apply classical_res; try reflexivity; [exact Hrr|]. intro a0. rewrite Hm. apply (l_arrs _ _ L).
  Qed.

  Lemma is_retarr : forall a l, G.m_arr ms a = Some l ->
    sim_res ms qa (exec_q "ret_arr"%string [AAddr (Z.of_nat a)] qa).
  Proof.
    intros a l Hl. unfold exec_q. qk. cbn [exec AsmSemQ.events_of].
    rewrite <- (l_arrs _ _ L), Hl.
    apply classical_res; try reflexivity; [intros; apply (l_regs _ _ L)|intros; apply (l_arrs _ _ L)].
  Qed.

  Lemma is_retreg : forall r z, reg_lt r = true -> G.m_reg ms r = Some z ->
    sim_res ms qa (exec_q "ret_reg"%string [AV (t_reg r)] qa).
  Proof.
    intros [b i] z Hr Hz. unfold exec_q. qk. cbn [t_reg exec AsmSemQ.events_of].
    pose proof (rdv_reg ms qa L (G.Rg b i) Hr) as E. cbn [t_reg] in E. rewrite E, Hz.
    apply classical_res; try reflexivity; [intros; apply (l_regs _ _ L)|intros; apply (l_arrs _ _ L)].
  Qed.
End InstrSim.

Section QuantumSim.
  Variables (ms : G.mst) (qa : qastate).
  Hypothesis L : lrel ms qa.

  Lemma nth_error_um : forall k, (k < List.length (qa_um qa))%nat ->
    nth_error (qa_um qa) k = Some (G.m_alloc ms k).
  Proof. intros k H. rewrite (l_alloc _ _ L). apply nth_error_nth'. exact H. Qed.

  Lemma alloc_in_range : forall k, G.m_alloc ms k = true -> (k < List.length (qa_um qa))%nat.
  Proof.
    intros k H. rewrite (l_alloc _ _ L) in H.
    destruct (Nat.lt_ge_cases k (List.length (qa_um qa))) as [Hlt|Hge]; [exact Hlt|].
    rewrite nth_overflow in H by exact Hge. discriminate.
  Qed.

  Lemma is_qalloc : forall r z, reg_lt r = true -> G.m_reg ms r = Some z -> 0 <= z ->
    (Z.to_nat z < List.length (qa_um qa))%nat -> G.m_alloc ms (Z.to_nat z) = false ->
    sim_res (G.mkM (G.m_reg ms) (G.m_arr ms) (G.upd_nat (G.m_alloc ms) (Z.to_nat z) true) (G.m_inst ms)
                   (G.m_n ms) (G.m_script ms) (G.m_trace ms)) qa
            (exec_q "qalloc"%string [AV (t_reg r)] qa).
  Proof.
    intros r z Hr Hz H0 Hlt Hal. unfold exec_q. qk.
    rewrite (rdv_reg ms qa L r Hr), Hz. replace (z <? 0) with false by lia.
    rewrite (nth_error_um _ Hlt), Hal.
    eexists; split; [reflexivity|]. split; [|cbn [qa_um]; apply list_upd_length].
    constructor; cbn [qa_st qa_um qa_script qa_trace G.m_reg G.m_arr G.m_alloc G.m_script].
    - apply (l_regs _ _ L).
    - apply (l_arrs _ _ L).
    - intro k. rewrite nth_list_upd by exact Hlt. unfold G.upd_nat. destruct (Nat.eqb k (Z.to_nat z)); [reflexivity|apply (l_alloc _ _ L)].
    - apply (l_script _ _ L).
    - apply (trace_rel_silent _ [EvAlloc z]); [reflexivity|]. eapply trace_rel_same; [| | |apply (l_trace _ _ L)]; reflexivity.
  Qed.

  Lemma is_qfree : forall r k, reg_lt r = true -> G.qid ms r = Some k ->
    sim_res (G.mkM (G.m_reg ms) (G.m_arr ms) (G.upd_nat (G.m_alloc ms) k false) (G.m_inst ms)
                   (G.m_n ms) (G.m_script ms) (G.m_trace ms)) qa
            (exec_q "qfree"%string [AV (t_reg r)] qa).
  Proof.
    intros r k Hr Hq. destruct (qid_inv _ _ _ Hq) as (z & Hz & H0 & -> & Hal).
    pose proof (alloc_in_range _ Hal) as Hlt.
    unfold exec_q. qk. rewrite (rdv_reg ms qa L r Hr), Hz. replace (z <? 0) with false by lia.
    rewrite (nth_error_um _ Hlt), Hal.
    eexists; split; [reflexivity|]. split; [|cbn [qa_um]; apply list_upd_length].
    constructor; cbn [qa_st qa_um qa_script qa_trace G.m_reg G.m_arr G.m_alloc G.m_script].
    - apply (l_regs _ _ L).
    - apply (l_arrs _ _ L).
    - intro k. rewrite nth_list_upd by exact Hlt. unfold G.upd_nat. destruct (Nat.eqb k (Z.to_nat z)); [reflexivity|apply (l_alloc _ _ L)].
    - apply (l_script _ _ L).
    - apply (trace_rel_silent _ [EvFree z]); [reflexivity|]. eapply trace_rel_same; [| | |apply (l_trace _ _ L)]; reflexivity.
  Qed.

  (* gate-like instructions: the new event, replayed, is Target's new event *)
  Lemma gate_res : forall ms' mn imms qs,
    G.m_reg ms' = G.m_reg ms -> G.m_arr ms' = G.m_arr ms -> G.m_alloc ms' = G.m_alloc ms ->
    G.m_script ms' = G.m_script ms ->
    (forall im n out, (forall k, im k = G.m_inst ms k) -> n = G.m_n ms -> out = G.m_trace ms ->
       let '(im', n', out') := replay_ev (QEvGate (mn_tag mn) imms qs) (im, n, out) in
       (forall k, im' k = G.m_inst ms' k) /\ n' = G.m_n ms' /\ out' = G.m_trace ms') ->
    sim_res ms' qa (QENext (with_st qa (qa_st qa) [EvGate mn imms qs])).
  Proof.
    intros ms' mn imms qs Hr Ha Hal Hs Hev. eexists; split; [reflexivity|]. split; [|reflexivity].
    constructor; cbn [with_st qa_st qa_um qa_script qa_trace app].
    - intros. rewrite Hr. apply (l_regs _ _ L).
    - intros. rewrite Ha. apply (l_arrs _ _ L).
    - intros. rewrite Hal. apply (l_alloc _ _ L).
    - rewrite Hs. apply (l_script _ _ L).
    - pose proof (l_trace _ _ L) as T. unfold trace_rel in *. cbn [map e_aev replay].
      destruct (replay (map e_aev (qa_trace qa))) as [[im n] out]. destruct T as (T1 & T2 & T3).
      apply Hev; assumption.
  Qed.

  Lemma is_gate1 : forall g r k, reg_lt r = true -> G.qid ms r = Some k ->
    sim_res (G.emit ms (A.TG1 g (G.m_inst ms k))) qa (exec_q (g1_name g) [AV (t_reg r)] qa).
  Proof.
    intros g r k Hr Hq. destruct (qid_inv _ _ _ Hq) as (z & Hz & H0 & -> & Hal).
    assert (E : exec_q (g1_name g) [AV (t_reg r)] qa = QENext (with_st qa (qa_st qa) [EvGate (g1_name g) [] [z]])).
    { unfold exec_q. destruct g; cbn [g1_name]; qk; cbn [List.length Nat.eqb Nat.add firstn skipn get_vals get_imms option_map rdv_all];
        rewrite (rdv_reg ms qa L r Hr), Hz; reflexivity. }
    rewrite E. apply gate_res; try reflexivity.
    intros im n out Hi Hn Ho. destruct g; cbn; (split; [exact Hi|]; split; [exact Hn|]; unfold nat_of; rewrite Hi, Ho; reflexivity).
  Qed.

  Lemma is_init : forall r k, reg_lt r = true -> G.qid ms r = Some k ->
    sim_res (G.mkM (G.m_reg ms) (G.m_arr ms) (G.m_alloc ms) (G.upd_nat (G.m_inst ms) k (G.m_n ms)) (S (G.m_n ms))
                   (G.m_script ms) (A.TInit (G.m_n ms) :: G.m_trace ms)) qa
            (exec_q "init"%string [AV (t_reg r)] qa).
  Proof.
    intros r k Hr Hq. destruct (qid_inv _ _ _ Hq) as (z & Hz & H0 & -> & Hal).
    assert (E : exec_q "init"%string [AV (t_reg r)] qa = QENext (with_st qa (qa_st qa) [EvGate "init"%string [] [z]])).
    { unfold exec_q. qk. cbn [List.length Nat.eqb Nat.add firstn skipn get_vals get_imms option_map rdv_all].
      rewrite (rdv_reg ms qa L r Hr), Hz. reflexivity. }
    rewrite E. apply gate_res; try reflexivity.
    intros im n out Hi Hn Ho. cbn. split; [|split; [subst; reflexivity|subst; reflexivity]].
    intro k. unfold G.upd_nat, nat_of. rewrite Hi, Hn. reflexivity.
  Qed.

  Lemma is_rot : forall ax r n d k, reg_lt r = true -> G.qid ms r = Some k ->
    sim_res (G.emit ms (A.TRot ax (G.m_inst ms k) n d)) qa
            (exec_q (rot_name ax) [AV (t_reg r); AV (VLit n); AV (VLit d)] qa).
  Proof.
    intros ax r n d k Hr Hq. destruct (qid_inv _ _ _ Hq) as (z & Hz & H0 & -> & Hal).
    assert (E : exec_q (rot_name ax) [AV (t_reg r); AV (VLit n); AV (VLit d)] qa =
                QENext (with_st qa (qa_st qa) [EvGate (rot_name ax) [n; d] [z]])).
    { unfold exec_q. destruct ax; cbn [rot_name]; qk; cbn [List.length Nat.eqb Nat.add firstn skipn get_vals get_imms option_map rdv_all];
        rewrite (rdv_reg ms qa L r Hr), Hz; reflexivity. }
    rewrite E. apply gate_res; try reflexivity.
    intros im n0 out Hi Hn Ho. destruct ax; cbn; (split; [exact Hi|]; split; [exact Hn|]; unfold nat_of; rewrite Hi, Ho; reflexivity).
  Qed.

  Lemma is_two : forall t r1 r2 k1 k2, reg_lt r1 = true -> reg_lt r2 = true ->
    G.qid ms r1 = Some k1 -> G.qid ms r2 = Some k2 ->
    sim_res (G.emit ms (A.TG2 t (G.m_inst ms k1) (G.m_inst ms k2))) qa
            (exec_q (g2_name t) [AV (t_reg r1); AV (t_reg r2)] qa).
  Proof.
    intros t r1 r2 k1 k2 Hr1 Hr2 Hq1 Hq2.
    destruct (qid_inv _ _ _ Hq1) as (z1 & Hz1 & H01 & -> & Hal1).
    destruct (qid_inv _ _ _ Hq2) as (z2 & Hz2 & H02 & -> & Hal2).
    assert (E : exec_q (g2_name t) [AV (t_reg r1); AV (t_reg r2)] qa =
                QENext (with_st qa (qa_st qa) [EvGate (g2_name t) [] [z1; z2]])).
    { unfold exec_q. destruct t; cbn [g2_name]; qk; cbn [List.length Nat.eqb Nat.add firstn skipn get_vals get_imms option_map rdv_all];
        rewrite (rdv_reg ms qa L r1 Hr1), (rdv_reg ms qa L r2 Hr2), Hz1, Hz2; reflexivity. }
    rewrite E. apply gate_res; try reflexivity.
    intros im n out Hi Hn Ho. destruct t; cbn; (split; [exact Hi|]; split; [exact Hn|]; unfold nat_of; rewrite !Hi, Ho; reflexivity).
  Qed.

  Lemma is_meas : forall q m k, reg_lt q = true -> reg_lt m = true -> G.qid ms q = Some k ->
    let o := match G.m_script ms with [] => 0 | o :: _ => o end in
    sim_res (G.mkM (G.upd_reg (G.m_reg ms) m o) (G.m_arr ms) (G.m_alloc ms) (G.m_inst ms) (G.m_n ms)
                   (tl (G.m_script ms)) (A.TMeas (G.m_inst ms k) o :: G.m_trace ms)) qa
            (exec_q "meas"%string [AV (t_reg q); AV (t_reg m)] qa).
  Proof.
    intros q m k Hq Hm Hqid o. destruct (qid_inv _ _ _ Hqid) as (z & Hz & H0 & -> & Hal).
    unfold exec_q. qk. destruct m as [bm im]. cbn [t_reg].
    pose proof (rdv_reg ms qa L q Hq) as E. rewrite E, Hz. cbv zeta.
    destruct (wr_reg ms qa L (G.Rg bm im) (AsmSemQ.hd_outcome (qa_script qa)) Hm) as (st' & Hw & Hmem & Hrr).
    cbn [t_reg] in Hw. rewrite Hw.
    assert (Ho : AsmSemQ.hd_outcome (qa_script qa) = o).
    { unfold o, AsmSemQ.hd_outcome. rewrite (l_script _ _ L). reflexivity. }
    eexists; split; [reflexivity|]. split; [|reflexivity].
    constructor; cbn [qa_st qa_um qa_script qa_trace G.m_reg G.m_arr G.m_alloc G.m_script].
    - intros b i. rewrite <- Ho. apply Hrr.
    - intro a. rewrite Hmem. apply (l_arrs _ _ L).
    - apply (l_alloc _ _ L).
    - rewrite (l_script _ _ L). reflexivity.
    - pose proof (l_trace _ _ L) as T. unfold trace_rel in *. cbn [map e_aev replay].
      destruct (replay (map e_aev (qa_trace qa))) as [[imap n] out]. destruct T as (T1 & T2 & T3).
      cbn. split; [exact T1|]. split; [exact T2|]. unfold nat_of. rewrite T1, T3, Ho. reflexivity.
  Qed.
End QuantumSim.

Ltac inv_some E :=
  repeat match type of E with
         | match ?x with _ => _ end = Some _ => let F := fresh "F" in destruct x eqn:F; try discriminate E
         | (if ?x then _ else _) = Some _ => let F := fresh "F" in destruct x eqn:F; try discriminate E
         end.

(* every instruction Target executes successfully is executed by AsmSemQ on the
   translated command, to a related state *)
Theorem instr_sim : forall i ms ms' qa mn ops,
  lrel ms qa -> G.exec_instr i ms = Some ms' -> t_instr i = Some (AIns mn [] ops) -> instr_ok i = true ->
  (forall r, i = G.IQ G.QAlloc r ->
     exists z, G.m_reg ms r = Some z /\ 0 <= z < Z.of_nat (List.length (qa_um qa))) ->
  sim_res ms' qa (exec_q mn ops qa).
Proof.
  intros i ms ms' qa mn ops L E T Hok Hal.
  destruct i as [r z|o r|ax r n d|t r1 r2|q m|v a ix|r a ix|d x y|d x y m|n a|a|r|k];
    cbn [G.exec_instr] in E; cbn [instr_ok] in Hok; regs.
  - cbn [t_instr] in T. inversion T; subst. inversion E; subst. apply is_set; assumption.
  - destruct o as [| | |g]; cbn [t_instr] in T; inversion T; subst; clear T.
    + destruct (Hal r eq_refl) as (z & Hz & Hz0 & Hzc).
      rewrite Hz in E. cbn [G.zidx] in E. replace (z <? 0) with false in E by lia.
      destruct (G.m_alloc ms (Z.to_nat z)) eqn:Ea; [discriminate|]. inversion E; subst.
      apply (is_qalloc ms qa L r z); auto. lia.
    + destruct (G.qid ms r) as [k|] eqn:Eq; [|discriminate]. inversion E; subst. apply is_init; assumption.
    + destruct (G.qid ms r) as [k|] eqn:Eq; [|discriminate]. inversion E; subst. apply is_qfree; assumption.
    + destruct (G.qid ms r) as [k|] eqn:Eq; [|discriminate]. inversion E; subst. apply is_gate1; assumption.
  - cbn [t_instr] in T. inversion T; subst.
    destruct (G.qid ms r) as [k|] eqn:Eq; [|discriminate]. inversion E; subst. apply is_rot; assumption.
  - cbn [t_instr] in T. inversion T; subst.
    destruct (G.qid ms r1) as [k1|] eqn:Eq1; [|discriminate].
    destruct (G.qid ms r2) as [k2|] eqn:Eq2; [|discriminate]. inversion E; subst. apply is_two; assumption.
  - cbn [t_instr] in T. inversion T; subst.
    destruct (G.qid ms q) as [k|] eqn:Eq; [|discriminate]. inversion E; subst.
    apply (is_meas ms qa L q m k); assumption.
  - cbn [t_instr] in T. inversion T; subst. inv_some E. inversion E; subst.
    eapply is_store; eauto.
  - cbn [t_instr] in T. inversion T; subst. inv_some E. inversion E; subst.
    eapply is_load; eauto.
  - cbn [t_instr] in T. inversion T; subst. inv_some E. inversion E; subst. apply is_add; assumption.
  - cbn [t_instr] in T. inversion T; subst. inv_some E. inversion E; subst. apply is_addm; assumption.
  - cbn [t_instr] in T. inversion T; subst. inv_some E. inversion E; subst. apply is_array; assumption.
  - cbn [t_instr] in T. inversion T; subst. inv_some E. inversion E; subst. eapply is_retarr; eauto.
  - cbn [t_instr] in T. inversion T; subst. inv_some E. inversion E; subst. eapply is_retreg; eauto.
  - discriminate.
Qed.

(* ------------------------------------------------------------------ programs: labels, fetch *)
Lemma lab_name_eqb : forall a b, String.eqb (lab_name a) (lab_name b) = Nat.eqb a b.
Proof.
  induction a as [|a IH]; intros [|b]; cbn; try reflexivity.
  apply IH.
Qed.

Lemma t_instr_shape : forall i a, t_instr i = Some a -> exists mn ops, a = AIns mn [] ops.
Proof.
  intros i a H. destruct i as [r z|o r|ax r n d|t r1 r2|q m|v a0 ix|r a0 ix|d x y|d x y m|n a0|a0|r|k];
    cbn in H; try discriminate; try (destruct o); inversion H; eauto.
Qed.

Lemma t_prog_nth : forall c P, t_prog c = Some P ->
  List.length P = List.length c /\
  forall k x, nth_error c k = Some x -> exists a, t_fcmd x = Some a /\ nth_error P k = Some a.
Proof.
  induction c as [|x c IH]; intros P H; cbn in H.
  - inversion H. split; [reflexivity|]. intros [|k] y Hy; discriminate.
  - destruct (t_fcmd x) as [a|] eqn:Ea; [|discriminate]. destruct (t_prog c) as [P'|] eqn:Ep; [|discriminate].
    inversion H; subst P. destruct (IH P' eq_refl) as [Hl Hn]. split; [cbn; lia|].
    intros [|k] y Hy; cbn in Hy |- *; [inversion Hy; subst; eauto|apply Hn; exact Hy].
Qed.

Lemma label_pos_find : forall c P l pos, t_prog c = Some P ->
  G.find_lab l c pos = option_map (fun p => (pos + p)%nat) (label_pos P (lab_name l)).
Proof.
  induction c as [|x c IH]; intros P l pos H; cbn in H.
  - inversion H. reflexivity.
  - destruct (t_fcmd x) as [a|] eqn:Ea; [|discriminate]. destruct (t_prog c) as [P'|] eqn:Ep; [|discriminate].
    inversion H; subst P. specialize (IH P' l (S pos) eq_refl).
    assert (Hshift : option_map (fun p => (S pos + p)%nat) (label_pos P' (lab_name l)) =
                     option_map (fun p => (pos + p)%nat) (option_map S (label_pos P' (lab_name l)))).
    { destruct (label_pos P' (lab_name l)); cbn; [f_equal; lia|reflexivity]. }
    destruct x as [i|cnd x y l'|l'|l'].
    + cbn [G.find_lab]. destruct (t_instr_shape _ _ Ea) as (mn & ops & ->). cbn [label_pos]. rewrite IH. exact Hshift.
    + cbn [G.find_lab]. destruct cnd; cbn in Ea; inversion Ea; subst a; cbn [label_pos]; rewrite IH; exact Hshift.
    + cbn in Ea. inversion Ea; subst a. cbn [G.find_lab label_pos]. rewrite IH. exact Hshift.
    + cbn in Ea. inversion Ea; subst a. cbn [G.find_lab label_pos]. rewrite lab_name_eqb, (Nat.eqb_sym l' l).
      destruct (Nat.eqb l l'); [cbn; f_equal; lia|]. rewrite IH. exact Hshift.
Qed.

Lemma find_lab_is_lab : forall c l pos p, G.find_lab l c pos = Some p ->
  (pos <= p)%nat /\ nth_error c (p - pos) = Some (G.FLab l).
Proof.
  induction c as [|x c IH]; intros l pos p H; cbn in H; [discriminate|].
  assert (Hrec : G.find_lab l c (S pos) = Some p -> (pos <= p)%nat /\ nth_error (x :: c) (p - pos) = Some (G.FLab l)).
  { intro H'. destruct (IH _ _ _ H') as [Hle Hn]. split; [lia|].
    replace (p - pos)%nat with (S (p - S pos)) by lia. exact Hn. }
  destruct x as [i|cnd x y l'|l'|l']; try (apply Hrec; exact H).
  destruct (Nat.eqb l l') eqn:E; [|apply Hrec; exact H].
  apply Nat.eqb_eq in E. subst l'. inversion H; subst p. split; [lia|]. rewrite Nat.sub_diag. reflexivity.
Qed.

Lemma fetch_lab : forall P pc l, nth_error P pc = Some (ALab l) -> fetch P pc = fetch P (S pc).
Proof.
  intros P pc l H. unfold fetch. rewrite (skipn_cons_nth _ _ _ _ H). reflexivity.
Qed.

Lemma arun_q_lab : forall P pc l n qa, nth_error P pc = Some (ALab l) ->
  arun_q P (S n) (QRun pc qa) = arun_q P (S n) (QRun (S pc) qa).
Proof.
  intros P pc l n qa H. cbn [arun_q]. unfold astep_q. rewrite (fetch_lab _ _ _ H). reflexivity.
Qed.

(* ------------------------------------------------------------------ code_ok facts *)
Lemma reg_same_eq : forall a b, reg_same a b = true -> a = b.
Proof.
  intros [b1 i1] [b2 i2] H. unfold reg_same, G.reg_eqb in H. apply andb_prop in H. destruct H as [Hb Hi].
  apply Nat.eqb_eq in Hi. subst. destruct b1, b2; try discriminate; reflexivity.
Qed.

Lemma code_ok_from_nth : forall cap c prev, code_ok_from cap prev c = true ->
  (forall k x, nth_error c k = Some x -> fcmd_ok x = true) /\
  (forall k r, nth_error c k = Some (G.FI (G.IQ G.QAlloc r)) ->
     exists z, (match k with O => prev | S k' => nth_error c k' end) = Some (G.FI (G.ISet r z)) /\ 0 <= z < cap).
Proof.
  intros cap c. induction c as [|x c IH]; intros prev H.
  - split; intros [|k] y Hy; discriminate.
  - cbn [code_ok_from] in H. apply andb_prop in H. destruct H as [H Hrest]. apply andb_prop in H. destruct H as [Hx Hq].
    destruct (IH _ Hrest) as [A B]. split.
    + intros [|k] y Hy; cbn in Hy; [inversion Hy; subst; exact Hx|eapply A; eauto].
    + intros [|k] r Hk; cbn in Hk.
      * inversion Hk; subst x. destruct prev as [[[r1 z| | | | | | | | | | | | ]| | |]|]; try discriminate.
        apply andb_prop in Hq. destruct Hq as [Hq Hz2]. apply andb_prop in Hq. destruct Hq as [Hr Hz1].
        apply reg_same_eq in Hr. subst r1. exists z. split; [reflexivity|lia].
      * destruct (B _ _ Hk) as (z & Hz & Hr). exists z. split; [|exact Hr].
        destruct k; exact Hz.
Qed.

(* ------------------------------------------------------------------ branches and jumps *)
Lemma lrel_idle : forall ms qa, lrel ms qa -> lrel ms (with_st qa (qa_st qa) []).
Proof. intros ms qa [A B C D E]. constructor; cbn [with_st qa_st qa_um qa_script qa_trace app]; assumption. Qed.

Lemma br_sim : forall ms qa cnd x y l b a,
  lrel ms qa -> rop_lt x = true -> rop_lt y = true ->
  G.holds_at cnd x y ms = Some b -> t_fcmd (G.FBr cnd x y l) = Some a ->
  exists mn ops, a = AIns mn [] ops /\
    exec_q mn ops qa = if b then QEJump (ALabel (lab_name l)) (with_st qa (qa_st qa) [])
                       else QENext (with_st qa (qa_st qa) []).
Proof.
  intros ms qa cnd x y l b a L Hx Hy Hh Ha. unfold G.holds_at in Hh.
  destruct (G.rop_val ms x) as [vx|] eqn:Ex; [|destruct cnd; discriminate].
  destruct cnd; cbn [t_fcmd] in Ha; inversion Ha; subst a; clear Ha; eexists; eexists; (split; [reflexivity|]);
    unfold exec_q; qk; cbn [exec].
  - (* beq *) destruct (G.rop_val ms y) as [vy|] eqn:Ey; [|discriminate]. inversion Hh; subst b.
    rewrite (rd_rop ms qa L x Hx), (rd_rop ms qa L y Hy), Ex, Ey. cbn [cond_eq opt_z_eqb G.holds branch].
    destruct (vx =? vy); reflexivity.
  - (* bne *) destruct (G.rop_val ms y) as [vy|] eqn:Ey; [|discriminate]. inversion Hh; subst b.
    rewrite (rd_rop ms qa L x Hx), (rd_rop ms qa L y Hy), Ex, Ey. cbn [cond_eq opt_z_eqb G.holds branch].
    destruct (vx =? vy); reflexivity.
  - (* blt *) destruct (G.rop_val ms y) as [vy|] eqn:Ey; [|discriminate]. inversion Hh; subst b.
    rewrite (rdv_rop ms qa L x Hx), (rdv_rop ms qa L y Hy), Ex, Ey. cbn [cond_lt G.holds branch].
    destruct (vx <? vy); reflexivity.
  - (* bge *) destruct (G.rop_val ms y) as [vy|] eqn:Ey; [|discriminate]. inversion Hh; subst b.
    rewrite (rdv_rop ms qa L x Hx), (rdv_rop ms qa L y Hy), Ex, Ey. cbn [cond_lt G.holds branch].
    destruct (vx >=? vy); reflexivity.
  - (* bez *) inversion Hh; subst b.
    rewrite (rd_rop ms qa L x Hx), Ex. cbn [cond_un opt_z_eqb G.holds branch].
    destruct (vx =? 0); reflexivity.
  - (* bnz *) inversion Hh; subst b.
    rewrite (rd_rop ms qa L x Hx), Ex. cbn [cond_un opt_z_eqb G.holds branch].
    destruct (vx =? 0); reflexivity.
Qed.

Lemma jmp_sim : forall qa l,
  exec_q "jmp"%string [ALabel (lab_name l)] qa = QEJump (ALabel (lab_name l)) (with_st qa (qa_st qa) []).
Proof. intros. unfold exec_q. qk. reflexivity. Qed.

(* ------------------------------------------------------------------ whole blocks *)
Section Run.
  Variables (cap : nat) (c : list G.fcmd) (P : list acmd).
  Hypothesis HP : t_prog c = Some P.
  Hypothesis Hok : code_ok cap c = true.

  (* the qalloc about to be executed has its operand set to an id inside the unit module *)
  Definition alloc_inv (pc : nat) (ms : G.mst) : Prop :=
    forall r, nth_error c pc = Some (G.FI (G.IQ G.QAlloc r)) ->
    exists z, G.m_reg ms r = Some z /\ 0 <= z < Z.of_nat cap.

  Lemma alloc_inv_after_lab : forall pc l ms, nth_error c pc = Some (G.FLab l) -> alloc_inv pc ms.
  Proof. intros pc l ms H r Hr. rewrite H in Hr. discriminate. Qed.

  Lemma alloc_inv_next : forall pc x ms',
    nth_error c pc = Some x ->
    (forall r z, x = G.FI (G.ISet r z) -> G.m_reg ms' r = Some z) ->
    alloc_inv (S pc) ms'.
  Proof.
    intros pc x ms' Hx Hset r Hr. unfold code_ok in Hok.
    destruct (proj2 (code_ok_from_nth _ _ _ Hok) _ _ Hr) as (z & Hz & Hzr). cbn in Hz.
    rewrite Hx in Hz. inversion Hz; subst x. exists z. split; [apply (Hset r z eq_refl)|exact Hzr].
  Qed.

  Lemma set_reg_same : forall ms r z, G.m_reg (G.set_reg ms r z) r = Some z.
  Proof.
    intros ms [b i] z. cbn. unfold G.upd_reg, G.reg_eqb. destruct b; cbn; rewrite Nat.eqb_refl; reflexivity.
  Qed.

  (* THE SDK LINK: a finished run of the flat code is reproduced by AsmSemQ on the
     translated proto-program (labels are skipped by its fetch) *)
  Theorem frun_sim : forall fuel pc ms ms2 qa,
    G.frun fuel c (pc, ms) = Some ms2 -> lrel ms qa -> List.length (qa_um qa) = cap -> alloc_inv pc ms ->
    exists n qa2, arun_q P n (QRun pc qa) = QHalted qa2 /\ lrel ms2 qa2 /\ List.length (qa_um qa2) = cap.
  Proof.
    destruct (t_prog_nth _ _ HP) as [Hlen Hnth].
    induction fuel as [|f IH]; intros pc ms ms2 qa Hrun L Hcap AI; [discriminate|].
    cbn [G.frun fst snd] in Hrun.
    destruct (Nat.eqb pc (List.length c)) eqn:Epc.
    - apply Nat.eqb_eq in Epc. inversion Hrun; subst ms2. exists 1%nat, qa. split; [|split; assumption].
      cbn [arun_q]. unfold astep_q. rewrite fetch_none; [reflexivity|]. apply nth_error_None. lia.
    - destruct (G.fstep c (pc, ms)) as [[pc' ms']|] eqn:Est; [|discriminate].
      unfold G.fstep in Est. destruct (nth_error c pc) as [x|] eqn:Ex; [|discriminate].
      destruct (Hnth _ _ Ex) as (a & Ha & HPa).
      pose proof (proj1 (code_ok_from_nth _ _ _ Hok) _ _ Ex) as Hxok.
      destruct x as [i|cnd x y l|l|l].
      + (* instruction *)
        destruct (G.exec_instr i ms) as [ms1|] eqn:Ei; [|discriminate]. inversion Est; subst pc' ms'.
        cbn [t_fcmd] in Ha. destruct (t_instr_shape _ _ Ha) as (mn & ops & ->).
        cbn [fcmd_ok] in Hxok.
        assert (Hal : forall r, i = G.IQ G.QAlloc r ->
                      exists z, G.m_reg ms r = Some z /\ 0 <= z < Z.of_nat (List.length (qa_um qa))).
        { intros r ->. rewrite Hcap. apply AI. exact Ex. }
        destruct (instr_sim i ms ms1 qa mn ops L Ei Ha Hxok Hal) as (qa1 & Hq & L1 & Hc1).
        assert (AI1 : alloc_inv (S pc) ms1).
        { eapply alloc_inv_next; [exact Ex|]. intros r z E. inversion E; subst i.
          cbn [G.exec_instr] in Ei. inversion Ei; subst ms1. apply set_reg_same. }
        destruct (IH (S pc) ms1 ms2 qa1 Hrun L1 ltac:(lia) AI1) as (n & qa2 & Hn & L2 & Hc2).
        exists (S n), qa2. split; [|split; assumption].
        cbn [arun_q]. unfold astep_q. rewrite (fetch_ins _ _ _ _ HPa), Hq. exact Hn.
      + (* conditional branch *)
        cbn [fcmd_ok] in Hxok. apply andb_prop in Hxok. destruct Hxok as [Hx Hy].
        destruct (G.holds_at cnd x y ms) as [b|] eqn:Eh; [|discriminate].
        destruct (br_sim ms qa cnd x y l b a L Hx Hy Eh Ha) as (mn & ops & -> & Hq).
        destruct b.
        * destruct (G.find_lab l c 0) as [p|] eqn:Ef; [|discriminate]. inversion Est; subst pc' ms'.
          destruct (find_lab_is_lab _ _ _ _ Ef) as [_ Hp]. rewrite Nat.sub_0_r in Hp.
          destruct (IH p ms ms2 _ Hrun (lrel_idle _ _ L) Hcap (alloc_inv_after_lab _ _ _ Hp)) as (n & qa2 & Hn & L2 & Hc2).
          exists (S n), qa2. split; [|split; assumption].
          cbn [arun_q]. unfold astep_q. rewrite (fetch_ins _ _ _ _ HPa), Hq. cbn [target].
          pose proof (label_pos_find c P l 0 HP) as Hlp. rewrite Ef in Hlp.
          destruct (label_pos P (lab_name l)) as [p'|]; [|discriminate]. cbn in Hlp. inversion Hlp; subst p'. exact Hn.
        * inversion Est; subst pc' ms'.
          assert (AI1 : alloc_inv (S pc) ms) by (eapply alloc_inv_next; [exact Ex|]; intros; discriminate).
          destruct (IH (S pc) ms ms2 _ Hrun (lrel_idle _ _ L) Hcap AI1) as (n & qa2 & Hn & L2 & Hc2).
          exists (S n), qa2. split; [|split; assumption].
          cbn [arun_q]. unfold astep_q. rewrite (fetch_ins _ _ _ _ HPa), Hq. exact Hn.
      + (* jump *)
        destruct (G.find_lab l c 0) as [p|] eqn:Ef; [|discriminate]. inversion Est; subst pc' ms'.
        cbn [t_fcmd] in Ha. inversion Ha; subst a.
        destruct (find_lab_is_lab _ _ _ _ Ef) as [_ Hp]. rewrite Nat.sub_0_r in Hp.
        destruct (IH p ms ms2 _ Hrun (lrel_idle _ _ L) Hcap (alloc_inv_after_lab _ _ _ Hp)) as (n & qa2 & Hn & L2 & Hc2).
        exists (S n), qa2. split; [|split; assumption].
        cbn [arun_q]. unfold astep_q. rewrite (fetch_ins _ _ _ _ HPa), jmp_sim. cbn [target].
        pose proof (label_pos_find c P l 0 HP) as Hlp. rewrite Ef in Hlp.
        destruct (label_pos P (lab_name l)) as [p'|]; [|discriminate]. cbn in Hlp. inversion Hlp; subst p'. exact Hn.
      + (* label: skipped by fetch *)
        inversion Est; subst pc' ms'. cbn [t_fcmd] in Ha. inversion Ha; subst a.
        assert (AI1 : alloc_inv (S pc) ms) by (eapply alloc_inv_next; [exact Ex|]; intros; discriminate).
        destruct (IH (S pc) ms ms2 qa Hrun L Hcap AI1) as (n & qa2 & Hn & L2 & Hc2).
        destruct n as [|n]; [cbn in Hn; discriminate|].
        exists (S n), qa2. split; [|split; assumption].
        rewrite (arun_q_lab _ _ _ _ _ HPa). exact Hn.
  Qed.

  Lemma alloc_inv_start : forall ms, alloc_inv 0 ms.
  Proof.
    intros ms r Hr. unfold code_ok in Hok.
    destruct (proj2 (code_ok_from_nth _ _ _ Hok) _ _ Hr) as (z & Hz & _). discriminate.
  Qed.
End Run.

(* ------------------------------------------------------------------ the translated program is a well-formed source program of C03 *)
Lemma t_fcmd_shape : forall x a, t_fcmd x = Some a -> cmd_shape_q a = true.
Proof.
  intros x a H. destruct x as [i|cnd x y l|l|l].
  - destruct i as [[b i] z|o [b i]|ax [b i] n d|t [b1 i1] [b2 i2]|[bq iq] [bm im]|v a0 ix|[b i] a0 ix|[b i] [bx ix] y
                  |[b i] [bx ix] y m|n a0|a0|[b i]|k]; cbn [t_fcmd t_instr] in H; try discriminate.
    + inversion H. reflexivity.
    + destruct o as [| | |g]; inversion H; try reflexivity. destruct g; reflexivity.
    + inversion H. destruct ax; reflexivity.
    + inversion H. destruct t; reflexivity.
    + inversion H. reflexivity.
    + inversion H. destruct v as [z|[b i]]; destruct ix as [z'|[b' i']]; reflexivity.
    + inversion H. destruct ix as [z'|[b' i']]; reflexivity.
    + inversion H. destruct y as [z|[b' i']]; reflexivity.
    + inversion H. destruct y as [z|[b' i']]; reflexivity.
    + inversion H. reflexivity.
    + inversion H. reflexivity.
    + inversion H. reflexivity.
  - destruct cnd; cbn [t_fcmd] in H; inversion H; destruct x as [z|[b i]]; destruct y as [z'|[b' i']]; reflexivity.
  - cbn in H. inversion H. reflexivity.
  - cbn in H. inversion H. reflexivity.
Qed.

Lemma t_prog_wf : forall c P, t_prog c = Some P -> wf_src_q P = true.
Proof.
  induction c as [|x c IH]; intros P H; cbn in H.
  - inversion H. reflexivity.
  - destruct (t_fcmd x) as [a|] eqn:Ea; [|discriminate]. destruct (t_prog c) as [P'|] eqn:Ep; [|discriminate].
    inversion H; subst P. unfold wf_src_q. cbn [forallb]. rewrite (t_fcmd_shape _ _ Ea). apply (IH _ eq_refl).
Qed.

(* fresh application: related initial states *)
Lemma lrel_init : forall cap script, lrel (G.m0 script) (init_qstate cap script).
Proof.
  intros cap script. constructor; cbn.
  - reflexivity.
  - reflexivity.
  - intro k. revert k. induction cap as [|n IH]; intros [|k]; cbn; auto.
  - reflexivity.
  - repeat split.
Qed.
