(* AsmBuildTotal.v — the LAST pass of the assembler model (`build`: lookup of the
   mnemonic in the flavour table + the operand-kind check of from_operands)
   SUCCEEDS on everything the earlier passes produce, provided the flavour table
   has, for every mnemonic the program uses (and for `set`, which the constant
   replacement pass inserts), a row whose declared operand kinds are the kinds
   of the assembled form of that instruction (`machine_kinds`).

   Together with AsmQMachine.assemble_ir_accepts this gives the totality of the
   whole assembler model `assemble` (corollary `assemble_total`).

   Compared with AsmQMachine.assemble_machine_form:
     - the register banks need not be valid (from_operands does not look at them);
     - the hypothesis `modelled P` is NOT needed: `table_covers t P` already
       says that every mnemonic of P has a `machine_kinds`, i.e. is a classical
       instruction of AsmSem.opc_table (wait_all INCLUDED), a gate of
       AsmSemQ.gate_table, meas, qalloc or qfree;
     - one more fact about the replacement pass is needed, which `ops_rel`
       does not record: the index of an array entry and the bounds of a slice
       are ALWAYS registers afterwards (`repl_opnd` has no exemption there). *)
From Coq Require Import ZArith List Bool String Lia.
From NQ Require Import Base.Bits Lang.Codec Lang.Asm Lang.AsmSem Lang.AsmSemQ.
From NQ Require Import Proofs.CodecProofs Proofs.AsmProofs Proofs.AsmQProofs Proofs.AsmQMachine.
Import ListNotations.
Open Scope Z_scope.

(* ====================================================================== *)
(* 1. definitions                                                         *)
(* ====================================================================== *)

(* the operand kinds of the assembled form of each modelled instruction *)
Definition machine_kinds (mn : string) : option (list kind) :=
  match qkind_of mn with
  | QKclassical =>
      match opc_of mn with
      | Xset => Some [KReg; KImm]
      | Xadd | Xsub => Some [KReg; KReg; KReg]
      | Xaddm | Xsubm => Some [KReg; KReg; KReg; KReg]
      | Xload | Xstore => Some [KReg; KEntry]
      | Xlea | Xarray => Some [KReg; KAddr]
      | Xundef => Some [KEntry]
      | Xjmp => Some [KImm]
      | Xbez | Xbnz => Some [KReg; KImm]
      | Xbeq | Xbne | Xblt | Xbge => Some [KReg; KReg; KImm]
      | Xretreg => Some [KReg]
      | Xretarr => Some [KAddr]
      | Xwaitall => Some [KSlice]
      | Xother => None
      end
  | QKgate nq ni => Some (repeat KReg nq ++ repeat KImm ni)%list
  | QKmeas => Some [KReg; KReg]
  | QKalloc | QKfree => Some [KReg]
  | QKother => None
  end.

(* the flavour table has a row for mn (under the dict semantics of lookup_mn)
   with exactly these kinds *)
Definition row_covers (t : list row) (mn : string) : bool :=
  match lookup_mn t mn, machine_kinds mn with
  | Some r, Some ks => list_eqb kind_eqb (r_kinds r) ks
  | _, _ => false
  end.

Definition table_covers (t : list row) (P : list acmd) : bool :=
  row_covers t SET
  && forallb (fun c => match c with AIns mn _ _ => row_covers t mn | ALab _ => true end) P.

Lemma row_covers_inv t mn :
  row_covers t mn = true ->
  exists r ks, lookup_mn t mn = Some r /\ machine_kinds mn = Some ks /\ r_kinds r = ks.
Proof.
  unfold row_covers. intros H.
  destruct (lookup_mn t mn) as [r|]; [|discriminate H].
  destruct (machine_kinds mn) as [ks|]; [|discriminate H].
  exists r, ks. split; [reflexivity|split; [reflexivity|]].
  exact (list_eqb_eq kind_eqb kind_eqb_eq _ _ H).
Qed.

(* a covered mnemonic is never one the models know nothing about *)
Lemma row_covers_known t mn : row_covers t mn = true -> qkind_of mn <> QKother.
Proof.
  intros H E. destruct (row_covers_inv _ _ H) as [r [ks [_ [Hk _]]]].
  unfold machine_kinds in Hk. rewrite E in Hk. discriminate Hk.
Qed.

(* discharge table_covers once per flavour: check the rows of a list of
   mnemonics by computation, then every program over those mnemonics is covered *)
Lemma table_covers_of t ms P :
  forallb (row_covers t) ms = true -> row_covers t SET = true ->
  (forall mn args ops, In (AIns mn args ops) P -> In mn ms) ->
  table_covers t P = true.
Proof.
  intros Hms Hset Hin. unfold table_covers. rewrite Hset. cbn [andb].
  apply forallb_forall. intros [l|mn args ops] Hc; [reflexivity|].
  rewrite forallb_forall in Hms. apply Hms. exact (Hin _ _ _ Hc).
Qed.

(* ====================================================================== *)
(* 2. build on concatenations                                             *)
(* ====================================================================== *)

Lemma build_app t a : forall b Ba Bb,
  build t a = Some Ba -> build t b = Some Bb -> build t (a ++ b)%list = Some (Ba ++ Bb)%list.
Proof.
  induction a as [|c a IH]; intros b Ba Bb Ha Hb; cbn [build app] in *.
  - injection Ha as <-. exact Hb.
  - destruct (build_cmd t c) as [x|]; [|discriminate].
    destruct (build t a) as [xs|]; [|discriminate]. injection Ha as <-.
    rewrite (IH b xs Bb eq_refl Hb). reflexivity.
Qed.

Lemma build_app_inv t a : forall b B,
  build t (a ++ b)%list = Some B ->
  exists Ba Bb, build t a = Some Ba /\ build t b = Some Bb /\ B = (Ba ++ Bb)%list.
Proof.
  induction a as [|c a IH]; intros b B H; cbn [build app] in *.
  - exists [], B. auto.
  - destruct (build_cmd t c) as [x|]; [|discriminate].
    destruct (build t (a ++ b)%list) as [xs|] eqn:E; [|discriminate]. injection H as <-.
    destruct (IH b xs E) as [Ba [Bb [-> [H2 ->]]]].
    exists (x :: Ba), Bb. auto.
Qed.

Lemma build_flat_map {A} t (f : A -> list acmd) (l : list A) :
  (forall x, In x l -> exists B, build t (f x) = Some B) ->
  exists B, build t (flat_map f l) = Some B.
Proof.
  induction l as [|x l IH]; intros H; cbn [flat_map].
  - exists []. reflexivity.
  - destruct (H x (or_introl eq_refl)) as [B1 H1].
    destruct (IH (fun y Hy => H y (or_intror Hy))) as [B2 H2].
    exists (B1 ++ B2)%list. apply build_app; assumption.
Qed.

(* ====================================================================== *)
(* 3. after the replacement pass entry indices and slice bounds are       *)
(*    registers (no exemption applies to them)                            *)
(* ====================================================================== *)

Definition val_isreg (v : aval) : bool := match v with VReg _ _ => true | VLit _ => false end.

Definition idx_regs (o : aopnd) : bool :=
  match o with
  | AEntry _ i => val_isreg i
  | ASlice _ s e => val_isreg s && val_isreg e
  | _ => true
  end.

Lemma repl_val_isreg pr nm v tmp s v' tmp' :
  repl_val pr nm v tmp = Some (s, v', tmp') -> val_isreg v' = true.
Proof.
  destruct v as [z|b i]; cbn [repl_val]; intros H.
  - destruct (pick pr nm tmp) as [i|]; [|discriminate]. injection H as <- <- <-. reflexivity.
  - injection H as <- <- <-. reflexivity.
Qed.

Lemma repl_opnd_idx pr nm mn j o tmp s o' tmp' :
  repl_opnd pr nm mn j o tmp = Some (s, o', tmp') -> idx_regs o' = true.
Proof.
  destruct o as [[z|b i]|l|a|a v|a v1 v2]; cbn [repl_opnd]; intros H.
  - destruct (is_exempt (ap_exempt pr) mn j).
    + injection H as <- <- <-. reflexivity.
    + destruct (repl_val pr nm (VLit z) tmp) as [[[s1 w] t1]|]; [|discriminate].
      injection H as <- <- <-. reflexivity.
  - injection H as <- <- <-. reflexivity.
  - injection H as <- <- <-. reflexivity.
  - injection H as <- <- <-. reflexivity.
  - destruct (repl_val pr nm v tmp) as [[[s1 w] t1]|] eqn:Hr; [|discriminate].
    injection H as <- <- <-. cbn [idx_regs]. exact (repl_val_isreg _ _ _ _ _ _ _ Hr).
  - destruct (repl_val pr nm v1 tmp) as [[[s1 w1] t1]|] eqn:Hr1; [|discriminate].
    destruct (repl_val pr nm v2 t1) as [[[s2 w2] t2]|] eqn:Hr2; [|discriminate].
    injection H as <- <- <-. cbn [idx_regs].
    rewrite (repl_val_isreg _ _ _ _ _ _ _ Hr1), (repl_val_isreg _ _ _ _ _ _ _ Hr2). reflexivity.
Qed.

Lemma repl_ops_idx pr nm mn ops : forall j tmp s ops' tmp',
  repl_ops pr nm mn j ops tmp = Some (s, ops', tmp') -> forallb idx_regs ops' = true.
Proof.
  induction ops as [|o ops IH]; intros j tmp s ops' tmp' H; cbn [repl_ops] in H.
  - injection H as <- <- <-. reflexivity.
  - destruct (repl_opnd pr nm mn j o tmp) as [[[s1 o1] t1]|] eqn:Ho; [|discriminate].
    destruct (repl_ops pr nm mn (S j) ops t1) as [[[s2 r2] t2]|] eqn:Hr; [|discriminate].
    injection H as <- <- <-. cbn [forallb].
    rewrite (repl_opnd_idx _ _ _ _ _ _ _ _ _ Ho), (IH _ _ _ _ _ Hr). reflexivity.
Qed.

(* ====================================================================== *)
(* 4. one operand after the two passes (no condition on the banks)        *)
(* ====================================================================== *)

Lemma val_posb ex mn ps j o o' :
  is_val o = true -> is_exempt ex mn j = false -> op_rel ex mn ps j o o' ->
  exists b i, o' = AV (VReg b i).
Proof.
  intros Hv He Hr. apply is_val_inv in Hv as [[z|b i] ->]; cbn [op_rel] in Hr.
  - rewrite He in Hr. destruct Hr as [r [-> _]]. eauto.
  - subst o'. eauto.
Qed.

Lemma reg_posb ex mn ps j o o' :
  is_regop o = true -> op_rel ex mn ps j o o' -> exists b i, o' = AV (VReg b i).
Proof.
  intros Hv Hr. apply is_regop_inv in Hv as [b [i ->]]. cbn [op_rel] in Hr. subst o'. eauto.
Qed.

Lemma entry_posb ex mn ps j o o' :
  is_entry o = true -> op_rel ex mn ps j o o' -> idx_regs o' = true ->
  exists a b i, o' = AEntry a (VReg b i).
Proof.
  intros Hv Hr Hi. apply is_entry_inv in Hv as [a [v ->]]. cbn [op_rel] in Hr.
  destruct Hr as [v' [-> _]]. cbn [idx_regs] in Hi.
  destruct v' as [z|b i]; [discriminate Hi|]. eauto.
Qed.

Lemma slice_posb ex mn ps j o o' :
  is_slice o = true -> op_rel ex mn ps j o o' -> idx_regs o' = true ->
  exists a b1 i1 b2 i2, o' = ASlice a (VReg b1 i1) (VReg b2 i2).
Proof.
  intros Hv Hr Hi. apply is_slice_inv in Hv as [a [v [w ->]]]. cbn [op_rel] in Hr.
  destruct Hr as [v' [w' [-> _]]]. cbn [idx_regs] in Hi. apply andb_true_iff in Hi as [H1 H2].
  destruct v' as [z|b1 i1]; [discriminate H1|]. destruct w' as [z|b2 i2]; [discriminate H2|].
  exists a, b1, i1, b2, i2. reflexivity.
Qed.

(* literal immediates at exempt positions stay literal *)
Lemma imms_conv ex mn ps tbl : forall L j L',
  ops_rel ex mn ps j L L' -> forallb is_litop L = true ->
  (forall k, (j <= k < j + List.length L)%nat -> is_exempt ex mn k = true) ->
  exists xs, conv_all (repeat KImm (List.length L)) (map (resolve_opnd tbl) L') = Some xs.
Proof.
  induction L as [|o L IH]; intros j [|o' L'] H Hl Hex; cbn [ops_rel] in H; try contradiction.
  - exists []. reflexivity.
  - destruct H as [H1 H2]. cbn [forallb] in Hl. apply andb_true_iff in Hl as [Hl1 Hl2].
    cbn [List.length] in Hex.
    assert (He : is_exempt ex mn j = true) by (apply Hex; clear; lia).
    destruct (lit_pos _ _ _ _ _ _ Hl1 He H1) as [z ->].
    destruct (IH (S j) L' H2 Hl2) as [xs Hxs].
    { intros k Hk. apply Hex. clear - Hk. lia. }
    exists (OImm z :: xs). cbn [List.length repeat map resolve_opnd conv_all conv]. rewrite Hxs. reflexivity.
Qed.

(* gate operands: nq value positions (not exempt) become registers, then ni
   literal immediates (exempt) stay *)
Lemma gate_conv ex mn ps tbl ni : forall nq L j L',
  ops_rel ex mn ps j L L' ->
  List.length L = (nq + ni)%nat ->
  forallb is_val (firstn nq L) = true -> forallb is_litop (skipn nq L) = true ->
  (forall k, (j <= k < j + nq)%nat -> is_exempt ex mn k = false) ->
  (forall k, (j + nq <= k < j + nq + ni)%nat -> is_exempt ex mn k = true) ->
  exists xs, conv_all (repeat KReg nq ++ repeat KImm ni)%list (map (resolve_opnd tbl) L') = Some xs.
Proof.
  induction nq as [|nq IH]; intros L j L' H Hlen Hv Hl Hne Hex.
  - cbn [firstn skipn repeat app plus] in *. rewrite <- Hlen.
    apply (imms_conv ex mn ps tbl L j L' H Hl).
    intros k Hk. apply Hex. clear - Hk Hlen. lia.
  - destruct L as [|o L]; [cbn [List.length] in Hlen; clear - Hlen; lia|].
    destruct L' as [|o' L']; cbn [ops_rel] in H; [contradiction|].
    destruct H as [H1 H2]. cbn [firstn skipn forallb List.length] in *.
    apply andb_true_iff in Hv as [Hv1 Hv2].
    assert (He : is_exempt ex mn j = false) by (apply Hne; clear; lia).
    destruct (val_posb _ _ _ _ _ _ Hv1 He H1) as [b [i ->]].
    destruct (IH L (S j) L' H2) as [xs Hxs].
    + clear - Hlen. lia.
    + exact Hv2.
    + exact Hl.
    + intros k Hk. apply Hne. clear - Hk. lia.
    + intros k Hk. apply Hex. clear - Hk. lia.
    + exists (OReg b i :: xs). cbn [repeat app map resolve_opnd conv_all conv]. rewrite Hxs. reflexivity.
Qed.

(* ====================================================================== *)
(* 5. one instruction after the two passes passes from_operands           *)
(* ====================================================================== *)

Ltac split_andb :=
  repeat match goal with
         | H : (_ && _) = true |- _ =>
             let H1 := fresh "Hs" in let H2 := fresh "Hs" in apply andb_true_iff in H as [H1 H2]
         end.

Ltac pos_allb Hlab :=
  repeat match goal with
         | Hs : is_val ?o = true, Hr : op_rel _ _ _ ?j ?o ?o', He : is_exempt _ _ ?j = false |- _ =>
             let b := fresh "b" in let i := fresh "i" in
             destruct (val_posb _ _ _ _ _ _ Hs He Hr) as [b [i ->]]; clear Hs Hr
         | Hs : is_regop ?o = true, Hr : op_rel _ _ _ ?j ?o ?o' |- _ =>
             let b := fresh "b" in let i := fresh "i" in
             destruct (reg_posb _ _ _ _ _ _ Hs Hr) as [b [i ->]]; clear Hs Hr
         | Hs : is_litop ?o = true, Hr : op_rel _ _ _ ?j ?o ?o', He : is_exempt _ _ ?j = true |- _ =>
             let z := fresh "z" in
             destruct (lit_pos _ _ _ _ _ _ Hs He Hr) as [z ->]; clear Hs Hr
         | Hs : is_label ?o = true, Hr : op_rel _ _ _ ?j ?o ?o' |- _ =>
             let n := fresh "n" in let Hn := fresh "Hn" in
             destruct (lab_pos _ _ _ _ _ _ _ Hs Hr ltac:(intros ? ->; apply Hlab; in_list)) as [n Hn]; clear Hs Hr
         | Hs : is_addr ?o = true, Hr : op_rel _ _ _ ?j ?o ?o' |- _ =>
             let a := fresh "a" in
             destruct (addr_pos _ _ _ _ _ _ Hs Hr) as [a ->]; clear Hs Hr
         | Hs : is_entry ?o = true, Hr : op_rel _ _ _ ?j ?o ?o', Hi : idx_regs ?o' = true |- _ =>
             let a := fresh "a" in let b := fresh "b" in let i := fresh "i" in
             destruct (entry_posb _ _ _ _ _ _ Hs Hr Hi) as [a [b [i ->]]]; clear Hs Hr
         | Hs : is_slice ?o = true, Hr : op_rel _ _ _ ?j ?o ?o', Hi : idx_regs ?o' = true |- _ =>
             let a := fresh "a" in let b1 := fresh "b" in let i1 := fresh "i" in
             let b2 := fresh "b" in let i2 := fresh "i" in
             destruct (slice_posb _ _ _ _ _ _ Hs Hr Hi) as [a [b1 [i1 [b2 [i2 ->]]]]]; clear Hs Hr
         end.

Ltac finish_build :=
  cbn [map]; repeat match goal with Hn : resolve_opnd _ _ = _ |- _ => rewrite Hn; clear Hn end;
  cbn [resolve_opnd conv_all conv]; eexists; reflexivity.

Lemma ins_build ex mn ps tbl L L' ks :
  qexempt_exact ex = true ->
  cmd_shape_q (AIns mn [] L) = true -> machine_kinds mn = Some ks ->
  (forall l, In (ALabel l) L -> exists n, tbl_find tbl l = Some n) ->
  ops_rel ex mn ps 0 L L' -> forallb idx_regs L' = true ->
  exists xs, conv_all ks (map (resolve_opnd tbl) L') = Some xs.
Proof.
  intros Hq Hshape Hks Hlab Hrel Hidx.
  destruct (qexempt_exact_parts _ Hq) as (Hex & Hqex & Hgate & Hm0 & Hm1 & Ha0 & Hf0).
  clear Hq.
  cbn [cmd_shape_q all_ops map app] in Hshape. unfold machine_kinds in Hks.
  destruct (qkind_of mn) as [|nq ni| | | |] eqn:Hk; cbv beta iota in Hks.
  - (* classical, wait_all included *)
    pose proof (qkind_classical_opc _ Hk) as Hno.
    pose proof (exempt_opc ex mn 0 Hex Hno lt05) as E0.
    pose proof (exempt_opc ex mn 1 Hex Hno lt15) as E1.
    pose proof (exempt_opc ex mn 2 Hex Hno lt25) as E2.
    pose proof (exempt_opc ex mn 3 Hex Hno lt35) as E3.
    destruct (opc_of mn) eqn:Ho; try (exfalso; apply Hno; reflexivity);
      cbv beta iota in Hks; injection Hks as <-;
      cbn [expos existsb Nat.eqb orb] in E0, E1, E2, E3;
      destruct L as [|? [|? [|? [|? [|? ?]]]]]; try discriminate Hshape;
      cbn [shape_ok] in Hshape;
      destruct L' as [|? [|? [|? [|? [|? ?]]]]]; cbn [ops_rel] in Hrel; try contradiction;
      split_rel Hrel; try contradiction;
      cbn [forallb] in Hidx; split_andb; pos_allb Hlab; finish_build.
  - (* gates *)
    injection Hks as <-.
    apply andb_true_iff in Hshape as [Hshape Hl]. apply andb_true_iff in Hshape as [Hlen Hv].
    apply Nat.eqb_eq in Hlen.
    apply (gate_conv ex mn ps tbl ni nq L 0%nat L' Hrel Hlen Hv Hl).
    + intros k Hk'. apply (Hgate mn nq ni k Hk). clear - Hk'. lia.
    + intros k Hk'. apply (gate_imm_exempt ex mn nq ni k Hqex Hk). clear - Hk'. lia.
  - (* meas *)
    injection Hks as <-. apply qkind_meas_inv in Hk. subst mn.
    destruct L as [|? [|? [|? ?]]]; try discriminate Hshape.
    destruct L' as [|? [|? [|? ?]]]; cbn [ops_rel] in Hrel; try contradiction;
    split_rel Hrel; try contradiction; split_andb; pos_allb Hlab; finish_build.
  - (* qalloc *)
    injection Hks as <-. apply qkind_alloc_inv in Hk. subst mn.
    destruct L as [|? [|? ?]]; try discriminate Hshape.
    destruct L' as [|? [|? ?]]; cbn [ops_rel] in Hrel; try contradiction;
    split_rel Hrel; try contradiction; pos_allb Hlab; finish_build.
  - (* qfree *)
    injection Hks as <-. apply qkind_free_inv in Hk. subst mn.
    destruct L as [|? [|? ?]]; try discriminate Hshape.
    destruct L' as [|? [|? ?]]; cbn [ops_rel] in Hrel; try contradiction;
    split_rel Hrel; try contradiction; pos_allb Hlab; finish_build.
  - discriminate Hks.
Qed.

(* ====================================================================== *)
(* 6. the inserted sets build with the SET row                            *)
(* ====================================================================== *)

Lemma machine_kinds_set : machine_kinds SET = Some [KReg; KImm].
Proof. reflexivity. Qed.

Lemma set_build t r z :
  row_covers t SET = true -> exists x, build_cmd t (set_cmd r z) = Some x.
Proof.
  intros H. destruct (row_covers_inv _ _ H) as [rw [ks [Hl [Hk Hr]]]].
  rewrite machine_kinds_set in Hk. injection Hk as <-.
  unfold set_cmd. cbn [build_cmd]. rewrite Hl, Hr. cbn [conv_all conv]. eexists; reflexivity.
Qed.

Lemma sets_build t (ps : list (Asm.reg * Z)) :
  row_covers t SET = true -> exists B, build t (map setc ps) = Some B.
Proof.
  intros H. induction ps as [|[r z] ps IH]; cbn [map build].
  - exists []. reflexivity.
  - destruct (set_build t r z H) as [x Hx]. destruct IH as [B HB].
    unfold setc at 1. cbn [fst snd]. rewrite Hx, HB. eexists; reflexivity.
Qed.

(* ====================================================================== *)
(* 7. build succeeds on the assembled program                             *)
(* ====================================================================== *)

(* `modelled P` is not among the hypotheses: table_covers implies that every
   mnemonic of P has a machine_kinds (row_covers_known), and that includes
   wait_all, which AsmQMachine.modelled excludes.  The banks are unconstrained. *)
Theorem build_total_machine_form pr t P T :
  qexempt_exact (ap_exempt pr) = true ->
  wf_src_q P = true -> labels_defined P = true ->
  table_covers t P = true ->
  assemble_ir pr P = AOk T ->
  exists B, build t T = Some B.
Proof.
  intros Hq Hwf Hlabs Hcov Hasm.
  destruct (assemble_struct _ _ _ Hasm) as [tbl [Htbl [-> HF]]].
  pose proof (table_is_pcmap _ _ _ Htbl HF) as Hpc.
  unfold table_covers in Hcov. apply andb_true_iff in Hcov as [Hset Hcov].
  apply build_flat_map. intros c Hc.
  rewrite Forall_forall in HF. specialize (HF c Hc).
  unfold wf_src_q, labels_defined in *.
  rewrite forallb_forall in Hwf, Hlabs, Hcov.
  specialize (Hwf c Hc). specialize (Hlabs c Hc). specialize (Hcov c Hc).
  destruct c as [l|mn args ops]; [exists []; reflexivity|].
  cbn [cmd_ok] in HF. cbn [blk]. cbv beta iota in Hcov.
  destruct (repl_ops pr (named P) mn 0 (all_ops args ops) []) as [[[s ops'] tmp]|] eqn:Hr; [|congruence].
  pose proof (repl_ops_idx _ _ _ _ _ _ _ _ _ Hr) as Hidx.
  destruct (repl_ops_spec _ _ _ _ _ _ _ _ _ Hr (good_tmp_nil pr (named P))) as [ps [-> [_ [_ Hrel]]]].
  destruct (row_covers_inv _ _ Hcov) as [rw [ks [Hl [Hks Hrk]]]].
  destruct (sets_build t ps Hset) as [B1 H1].
  destruct (ins_build (ap_exempt pr) mn ps tbl (all_ops args ops) ops' ks Hq) as [xs Hxs].
  - exact Hwf.
  - exact Hks.
  - intros l Hin. unfold all_ops in Hin. apply in_app_or in Hin as [Hin|Hin].
    + apply in_map_iff in Hin as [x [E _]]. discriminate E.
    + rewrite forallb_forall in Hlabs. specialize (Hlabs _ Hin). cbn beta iota in Hlabs.
      rewrite Hpc. destruct (label_pos P l) as [k|]; [|discriminate Hlabs].
      eexists; reflexivity.
  - exact Hrel.
  - exact Hidx.
  - exists (B1 ++ [(rw, xs)])%list. apply build_app; [exact H1|].
    cbn [build build_cmd]. rewrite Hl, Hrk, Hxs. reflexivity.
Qed.

(* the statement as first asked for (with the superfluous `modelled`) *)
Corollary build_total_machine_form_modelled pr t P T :
  qexempt_exact (ap_exempt pr) = true ->
  wf_src_q P = true -> modelled P = true -> labels_defined P = true ->
  table_covers t P = true ->
  assemble_ir pr P = AOk T ->
  exists B, build t T = Some B.
Proof. intros Hq Hwf _ Hl Hc HT. exact (build_total_machine_form pr t P T Hq Hwf Hl Hc HT). Qed.

(* the whole assembler model is total on such programs *)
Corollary assemble_total pr t P :
  qexempt_exact (ap_exempt pr) = true ->
  wf_src_q P = true -> labels_defined P = true ->
  table_covers t P = true ->
  NoDup (labels_of P) ->
  (forall c, In c P -> (need_cmd (ap_exempt pr) c <= List.length (free_regs pr (named P)))%nat) ->
  exists B, assemble pr t P = AOk B.
Proof.
  intros Hq Hwf Hl Hc Hnd Hneed.
  destruct (assemble_ir_accepts pr P Hnd Hneed) as [T HT].
  destruct (build_total_machine_form pr t P T Hq Hwf Hl Hc HT) as [B HB].
  exists B. unfold assemble. rewrite HT. cbn [abind]. rewrite HB. reflexivity.
Qed.

Corollary assemble_total_modelled pr t P :
  qexempt_exact (ap_exempt pr) = true ->
  wf_src_q P = true -> modelled P = true -> labels_defined P = true ->
  table_covers t P = true ->
  NoDup (labels_of P) ->
  (forall c, In c P -> (need_cmd (ap_exempt pr) c <= List.length (free_regs pr (named P)))%nat) ->
  exists B, assemble pr t P = AOk B.
Proof. intros Hq Hwf _ Hl Hc Hnd Hn. exact (assemble_total pr t P Hq Hwf Hl Hc Hnd Hn). Qed.

(* the build error of `assemble` is therefore excluded whatever the scratch supply and the labels *)
Corollary assemble_no_build_error pr t P :
  qexempt_exact (ap_exempt pr) = true ->
  wf_src_q P = true -> labels_defined P = true -> table_covers t P = true ->
  assemble pr t P <> AErr EBuild.
Proof.
  intros Hq Hwf Hl Hc. unfold assemble.
  destruct (assemble_ir pr P) as [T|e] eqn:HT; cbn [abind].
  - destruct (build_total_machine_form pr t P T Hq Hwf Hl Hc HT) as [B ->]. discriminate.
  - intros [= ->]. unfold assemble_ir, abind in HT.
    destruct (replace_constants pr (map make_args P)) as [Q|e] eqn:HQ.
    + unfold assign_labels in HT. destruct (label_table Q 0 []); discriminate HT.
    + unfold replace_constants in HQ.
      destruct (repl_all pr (named (map make_args P)) (map make_args P)); [discriminate HQ|].
      injection HQ as <-. discriminate HT.
Qed.

(* ====================================================================== *)
(* 8. concrete tables and programs                                        *)
(* ====================================================================== *)

Local Open Scope string_scope.

(* literal copies of rows of the regenerated flavour table (build/C03/Gen_Codec.v) *)
Definition bt_table : list row :=
  [ mkRow "core.QAllocInstruction" 1 "qalloc" [KReg]
      [mkF 0 8 false; mkF 8 2 false; mkF 10 4 false]
      [mkF 0 8 false; mkF 8 2 false; mkF 10 4 false];
    mkRow "core.InitInstruction" 2 "init" [KReg]
      [mkF 0 8 false; mkF 8 2 false; mkF 10 4 false]
      [mkF 0 8 false; mkF 8 2 false; mkF 10 4 false];
    mkRow "core.SetInstruction" 4 "set" [KReg; KImm]
      [mkF 0 8 false; mkF 8 2 false; mkF 10 4 false; mkF 16 32 true]
      [mkF 0 8 false; mkF 8 2 false; mkF 10 4 false; mkF 16 32 true];
    mkRow "core.StoreInstruction" 5 "store" [KReg; KEntry]
      [mkF 0 8 false; mkF 8 2 false; mkF 10 4 false; mkF 16 32 true; mkF 48 2 false; mkF 50 4 false]
      [mkF 0 8 false; mkF 8 2 false; mkF 10 4 false; mkF 16 32 true; mkF 48 2 false; mkF 50 4 false];
    mkRow "core.JmpInstruction" 9 "jmp" [KImm]
      [mkF 0 8 false; mkF 8 32 true]
      [mkF 0 8 false; mkF 8 32 true];
    mkRow "core.BltInstruction" 14 "blt" [KReg; KReg; KImm]
      [mkF 0 8 false; mkF 8 2 false; mkF 10 4 false; mkF 16 2 false; mkF 18 4 false; mkF 24 32 true]
      [mkF 0 8 false; mkF 8 2 false; mkF 10 4 false; mkF 16 2 false; mkF 18 4 false; mkF 24 32 true];
    mkRow "core.AddInstruction" 16 "add" [KReg; KReg; KReg]
      [mkF 0 8 false; mkF 8 2 false; mkF 10 4 false; mkF 16 2 false; mkF 18 4 false; mkF 24 2 false; mkF 26 4 false]
      [mkF 0 8 false; mkF 8 2 false; mkF 10 4 false; mkF 16 2 false; mkF 18 4 false; mkF 24 2 false; mkF 26 4 false];
    mkRow "core.MeasInstruction" 32 "meas" [KReg; KReg]
      [mkF 0 8 false; mkF 8 2 false; mkF 10 4 false; mkF 16 2 false; mkF 18 4 false]
      [mkF 0 8 false; mkF 8 2 false; mkF 10 4 false; mkF 16 2 false; mkF 18 4 false];
    mkRow "core.WaitAllInstruction" 35 "wait_all" [KSlice]
      [mkF 0 8 false; mkF 8 32 true; mkF 40 2 false; mkF 42 4 false; mkF 48 2 false; mkF 50 4 false]
      [mkF 0 8 false; mkF 8 32 true; mkF 40 2 false; mkF 42 4 false; mkF 48 2 false; mkF 50 4 false];
    mkRow "vanilla.RotXInstruction" 27 "rot_x" [KReg; KImm; KImm]
      [mkF 0 8 false; mkF 8 2 false; mkF 10 4 false; mkF 16 8 false; mkF 24 8 false]
      [mkF 0 8 false; mkF 8 2 false; mkF 10 4 false; mkF 16 8 false; mkF 24 8 false] ].

(* _REPLACE_CONSTANTS_EXCEPTION as regenerated from /repo (build/C03/Gen_Asm.v, gen_exempt) *)
Definition bt_exempt : list (string * nat) :=
  [("set", 1%nat); ("jmp", 0%nat); ("bez", 1%nat); ("bnz", 1%nat); ("beq", 2%nat); ("bne", 2%nat); ("blt", 2%nat); ("bge", 2%nat); ("breakpoint", 0%nat); ("breakpoint", 1%nat); ("rot_x", 1%nat); ("rot_x", 2%nat); ("rot_y", 1%nat); ("rot_y", 2%nat); ("rot_z", 1%nat); ("rot_z", 2%nat); ("crot_x", 2%nat); ("crot_x", 3%nat); ("crot_y", 2%nat); ("crot_y", 3%nat); ("crot_z", 2%nat); ("crot_z", 3%nat); ("meas_basis", 2%nat); ("meas_basis", 3%nat); ("meas_basis", 4%nat); ("meas_basis", 5%nat)].
Definition bt_params : aparams := mkAP 16%nat 0 bt_exempt.

(* literal qubit ids, a literal array index, literal slice bounds, bracket
   arguments, a rotation with immediates, a measurement, a backward and a
   forward label *)
Definition bt_prog : list acmd :=
  [ AIns "qalloc" [] [AV (VLit 0)];
    AIns "init" [] [AV (VLit 0)];
    AIns "set" [] [AV (VReg 1 0); AV (VLit 0)];
    ALab "L";
    AIns "rot_x" [] [AV (VLit 0); AV (VLit 1); AV (VLit 2)];
    AIns "meas" [] [AV (VLit 0); AV (VReg 3 0)];
    AIns "store" [] [AV (VReg 3 0); AEntry 0 (VLit 0)];
    AIns "store" [7] [AEntry 0 (VReg 1 0)];
    AIns "add" [] [AV (VReg 1 0); AV (VReg 1 0); AV (VLit 1)];
    AIns "blt" [] [AV (VReg 1 0); AV (VLit 3); ALabel "L"];
    AIns "wait_all" [] [ASlice 0 (VLit 0) (VLit 1)];
    AIns "jmp" [] [ALabel "E"];
    ALab "E" ].

Definition bt_mnemonics : list string :=
  ["qalloc"; "init"; "set"; "store"; "jmp"; "blt"; "add"; "meas"; "wait_all"; "rot_x"].
Local Close Scope string_scope.

(* the table covers its mnemonics, hence (table_covers_of) the program *)
Example bt_table_rows : forallb (row_covers bt_table) bt_mnemonics = true /\ row_covers bt_table SET = true.
Proof. split; vm_compute; reflexivity. Qed.

Example bt_prog_covered : table_covers bt_table bt_prog = true.
Proof.
  destruct bt_table_rows as [H1 H2]. apply (table_covers_of bt_table bt_mnemonics bt_prog H1 H2).
  intros mn args ops Hin. unfold bt_prog in Hin. cbn [In] in Hin.
  repeat match type of Hin with
         | _ \/ _ => destruct Hin as [Hin|Hin]
         end; try discriminate Hin; try contradiction;
    injection Hin as <- _ _; unfold bt_mnemonics; in_list.
Qed.

Example build_total_nonvacuous :
  qexempt_exact (ap_exempt bt_params) = true /\
  wf_src_q bt_prog = true /\ labels_defined bt_prog = true /\
  table_covers bt_table bt_prog = true /\
  modelled bt_prog = false /\                                    (* wait_all *)
  NoDup (labels_of bt_prog) /\
  (forall c, In c bt_prog ->
     (need_cmd (ap_exempt bt_params) c <= List.length (free_regs bt_params (named bt_prog)))%nat) /\
  exists T B,
    assemble_ir bt_params bt_prog = AOk T /\ build bt_table T = Some B /\
    assemble bt_params bt_table bt_prog = AOk B /\
    List.length B = 21%nat /\ map embed B = T /\
    (* the literal store index got a scratch register; the labels became line numbers;
       the slice bounds got scratch registers *)
    nth_error T 10 = Some (AIns "store" [] [AV (VReg 3 0); AEntry 0 (VReg 0 0)]) /\
    nth_error T 16 = Some (AIns "blt" [] [AV (VReg 1 0); AV (VReg 0 0); AV (VLit 5)]) /\
    nth_error T 19 = Some (AIns "wait_all" [] [ASlice 0 (VReg 0 0) (VReg 0 1)]) /\
    nth_error T 20 = Some (AIns "jmp" [] [AV (VLit 21)]).
Proof.
  split; [vm_compute; reflexivity|]. split; [vm_compute; reflexivity|].
  split; [vm_compute; reflexivity|]. split; [vm_compute; reflexivity|].
  split; [vm_compute; reflexivity|].
  split; [vm_compute; repeat constructor; cbn [In]; intuition discriminate|].
  split.
  { assert (H : forallb (fun c => Nat.leb (need_cmd (ap_exempt bt_params) c)
                                          (List.length (free_regs bt_params (named bt_prog)))) bt_prog = true)
      by (vm_compute; reflexivity).
    rewrite forallb_forall in H. intros c Hc. apply Nat.leb_le. apply H. exact Hc. }
  eexists. eexists. split; [vm_compute; reflexivity|].
  split; [vm_compute; reflexivity|]. split; [vm_compute; reflexivity|].
  split; [vm_compute; reflexivity|]. split; [vm_compute; reflexivity|].
  split; [vm_compute; reflexivity|]. split; [vm_compute; reflexivity|].
  split; vm_compute; reflexivity.
Qed.

(* the theorems apply to it *)
Example build_total_applies : exists B, assemble bt_params bt_table bt_prog = AOk B.
Proof.
  destruct build_total_nonvacuous as (H1 & H2 & H3 & H4 & _ & H6 & H7 & _).
  exact (assemble_total bt_params bt_table bt_prog H1 H2 H3 H4 H6 H7).
Qed.

(* negative: a table whose store row declares [KReg; KAddr] is not covered, and
   indeed the build fails on the assembled store *)
Definition bt_table_bad : list row :=
  (bt_table ++ [ mkRow "core.StoreInstruction" 5 "store" [KReg; KAddr]
      [mkF 0 8 false; mkF 8 2 false; mkF 10 4 false; mkF 16 32 true]
      [mkF 0 8 false; mkF 8 2 false; mkF 10 4 false; mkF 16 32 true] ])%list.

Example bad_store_row_not_covered :
  row_covers bt_table_bad "store" = false /\ table_covers bt_table_bad bt_prog = false /\
  assemble bt_params bt_table_bad bt_prog = AErr EBuild.
Proof. split; [vm_compute; reflexivity|]. split; vm_compute; reflexivity. Qed.

(* a missing row is not covered either *)
Example missing_row_not_covered :
  row_covers bt_table "sub" = false /\
  assemble bt_params bt_table [AIns "sub" [] [AV (VReg 1 0); AV (VReg 1 0); AV (VLit 1)]] = AErr EBuild.
Proof. split; vm_compute; reflexivity. Qed.

(* labels_defined is needed: an undefined label stays a Label operand, which
   from_operands rejects *)
Example undefined_label_fails :
  let P := [AIns "jmp" [] [ALabel "nowhere"]] in
  wf_src_q P = true /\ table_covers bt_table P = true /\ labels_defined P = false /\
  assemble bt_params bt_table P = AErr EBuild.
Proof.
  cbv zeta. split; [vm_compute; reflexivity|]. split; [vm_compute; reflexivity|].
  split; vm_compute; reflexivity.
Qed.

(* exactness of the exemption table is needed: were init's operand exempt the
   literal would stay and from_operands would reject it *)
Example inexact_exemption_fails :
  let pr := mkAP 16%nat 0 (("init"%string, 0%nat) :: bt_exempt) in
  let P := [AIns "init" [] [AV (VLit 0)]] in
  qexempt_exact (ap_exempt pr) = false /\ wf_src_q P = true /\ table_covers bt_table P = true /\
  assemble pr bt_table P = AErr EBuild.
Proof.
  cbv zeta. split; [vm_compute; reflexivity|]. split; [vm_compute; reflexivity|].
  split; vm_compute; reflexivity.
Qed.
