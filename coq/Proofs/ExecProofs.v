(* ExecProofs.v — the model of executor.py (Exec.v) refines the reference
   semantics (Sem.v) on the defined domain, for all programs (any length,
   unstructured jumps), plus the corollaries of C04. *)
From Coq Require Import ZArith List Bool Lia ZifyBool.
From NQ Require Import Exec.State Exec.Sem Exec.Exec.
Import ListNotations.
Open Scope Z_scope.

(* what the fetch/execute loop makes of the result of _execute_command at [pc] *)
Definition to_sres (r : exc (state * Z)) (pc : Z) : sres :=
  match r with
  | Ok (st', pc') => Next st' pc'
  | Raise k => Stop (Fault k pc)
  | Block => Stop (Blocked pc)
  end.

(* ------------------------------------------------------------------ registers *)
Lemma get_register_ok : forall st r, reg_ok r = true -> get_register st r = Ok (rd st r).
Proof.
  intros st r H. unfold get_register, assert_within_length. unfold reg_ok in H. rewrite H. reflexivity.
Qed.

Lemma set_register_ok : forall st r v, reg_ok r = true -> set_register st r v = Ok (wr st r v).
Proof.
  intros st r v H. unfold set_register, assert_within_length. unfold reg_ok in H. rewrite H. reflexivity.
Qed.

Lemma assert_within_length_ok : forall r, reg_ok r = true -> assert_within_length (snd r) = Ok tt.
Proof. intros r H. unfold assert_within_length. unfold reg_ok in H. rewrite H. reflexivity. Qed.

Lemma expand_entry_ok : forall st ix, opnd_ok ix = true ->
  expand_entry st ix = match oval st ix with None => Raise FUndefReg | Some n => Ok n end.
Proof.
  intros st [r|n] H; cbn in *; [|reflexivity].
  rewrite (get_register_ok _ _ H). cbn. destruct (rd st r); reflexivity.
Qed.

(* ------------------------------------------------------------------ Python lists, non-negative indices *)
Lemma py_index_nonneg : forall len i, 0 <= i ->
  py_index len i = if len <=? i then Raise FIndex else Ok i.
Proof.
  intros len i H. unfold py_index. destruct (i <? 0) eqn:E; [lia|reflexivity].
Qed.

Lemma py_getitem_nonneg : forall (A : Type) (l : list A) i, 0 <= i ->
  py_getitem l i = if Zlen l <=? i then Raise FIndex
                   else match nth_error l (Z.to_nat i) with Some x => Ok x | None => Raise FIndex end.
Proof.
  intros A l i H. unfold py_getitem. rewrite (py_index_nonneg _ _ H).
  destruct (Zlen l <=? i); reflexivity.
Qed.

Lemma list_set_sset : forall (A : Type) (l : list A) n v, (n < List.length l)%nat -> list_set l n v = sset n v l.
Proof.
  intros A l. induction l as [|h t IH]; intros n v H; cbn in H; [lia|].
  destruct n as [|n]; [reflexivity|].
  cbn [list_set]. rewrite IH by lia. reflexivity.
Qed.

Lemma py_setitem_nonneg : forall (A : Type) (l : list A) i v, 0 <= i ->
  py_setitem l i v = if i <? Zlen l then Ok (sset (Z.to_nat i) v l) else Raise FIndex.
Proof.
  intros A l i v H. unfold py_setitem. rewrite (py_index_nonneg _ _ H).
  destruct (Zlen l <=? i) eqn:E; destruct (i <? Zlen l) eqn:E'; try lia; [reflexivity|].
  cbn. rewrite list_set_sset; [reflexivity|]. unfold Zlen in *. lia.
Qed.

Lemma nth_error_in_range : forall (A : Type) (l : list A) i, 0 <= i -> i < Zlen l ->
  exists x, nth_error l (Z.to_nat i) = Some x.
Proof.
  intros A l i H0 H1. destruct (nth_error l (Z.to_nat i)) eqn:E; [eauto|].
  apply nth_error_None in E. unfold Zlen in *. lia.
Qed.

Lemma arrays_getitem_spec : forall st a n, 0 <= n ->
  arrays_getitem st a n =
  match find Z.eqb a (arrs st) with
  | None => Ok None
  | Some l => if Zlen l <=? n then Raise FIndex
              else match nth_error l (Z.to_nat n) with Some c => Ok c | None => Raise FIndex end
  end.
Proof.
  intros st a n H. unfold arrays_getitem, arrays_get_array.
  destruct (find Z.eqb a (arrs st)); [|reflexivity]. apply py_getitem_nonneg. exact H.
Qed.

Lemma arrays_setitem_spec : forall st a n v, 0 <= n ->
  arrays_setitem st a n v =
  match find Z.eqb a (arrs st) with
  | None => Raise FNoArray
  | Some l => if n <? Zlen l then Ok (write_array a (sset (Z.to_nat n) v l) st) else Raise FIndex
  end.
Proof.
  intros st a n v H. unfold arrays_setitem, arrays_get_array.
  destruct (find Z.eqb a (arrs st)); [|reflexivity]. cbn.
  rewrite (py_setitem_nonneg _ _ _ _ H). destruct (n <? Zlen l); reflexivity.
Qed.

(* ------------------------------------------------------------------ slices *)
Lemma py_clamp_in_range : forall len x, 0 <= x -> x <= len -> py_clamp len x = x.
Proof. intros len x H0 H1. unfold py_clamp. destruct (x <? 0) eqn:E; lia. Qed.

Lemma py_getslice_in_range : forall (A : Type) (l : list A) s e, 0 <= s -> s <= e -> e <= Zlen l ->
  py_getslice l s e = firstn (Z.to_nat (e - s)) (skipn (Z.to_nat s) l).
Proof.
  intros A l s e H0 H1 H2. unfold py_getslice.
  rewrite !py_clamp_in_range by lia.
  destruct (s <? e) eqn:E; [reflexivity|].
  replace (e - s) with 0 by lia. reflexivity.
Qed.

Lemma skipn_cons_nth : forall (A : Type) (l : list A) s x, nth_error l s = Some x -> skipn s l = x :: skipn (S s) l.
Proof.
  intros A l. induction l as [|h t IH]; intros s x H; destruct s; cbn in *; try discriminate.
  - inversion H. reflexivity.
  - apply IH. exact H.
Qed.

Lemma defined_is_none : forall c, defined (Some c) = negb (is_none c).
Proof. intros [z|]; reflexivity. Qed.

Lemma existsb_none_slice : forall (l : list cell) k s, (s + k <= List.length l)%nat ->
  existsb is_none (firstn k (skipn s l)) = negb (forallb (fun i => defined (nth_error l i)) (seq s k)).
Proof.
  intros l k. induction k as [|k IH]; intros s H; [reflexivity|].
  destruct (nth_error l s) as [x|] eqn:E; [|apply nth_error_None in E; lia].
  rewrite (skipn_cons_nth _ _ _ _ E). cbn [firstn existsb seq forallb].
  rewrite E, defined_is_none, negb_andb, negb_involutive. f_equal.
  apply IH. lia.
Qed.

Lemma forallb_none_slice : forall (l : list cell) k s, (s + k <= List.length l)%nat ->
  forallb is_none (firstn k (skipn s l)) = negb (existsb (fun i => defined (nth_error l i)) (seq s k)).
Proof.
  intros l k. induction k as [|k IH]; intros s H; [reflexivity|].
  destruct (nth_error l s) as [x|] eqn:E; [|apply nth_error_None in E; lia].
  rewrite (skipn_cons_nth _ _ _ _ E). cbn [firstn existsb seq forallb].
  rewrite E, defined_is_none, negb_orb, negb_involutive. f_equal.
  apply IH. lia.
Qed.

(* ------------------------------------------------------------------ arithmetic *)
Lemma py_mod_modulo : forall a m, m <> 0 -> py_mod a m = Z.modulo a m.
Proof. intros a m H. unfold py_mod. rewrite (Z.mod_eq a m H). reflexivity. Qed.

(* ------------------------------------------------------------------ physical qubits *)
Lemma count_unused_find : forall u fuel a,
  count_unused fuel (Z.of_nat a) u =
  match List.find (fun k => negb (set_mem k u)) (map Z.of_nat (seq a fuel)) with
  | Some p => Ok p
  | None => Raise FBook
  end.
Proof.
  intros u fuel. induction fuel as [|f IH]; intros a; [reflexivity|].
  cbn [count_unused seq map List.find].
  destruct (set_mem (Z.of_nat a) u); cbn [negb]; [|reflexivity].
  replace (Z.of_nat a + 1) with (Z.of_nat (S a)) by lia. apply IH.
Qed.

Lemma get_unused_spec : forall u,
  get_unused_physical_qubit u =
  match least_unused u with Some p => Ok (p, set_add p u) | None => Raise FBook end.
Proof.
  intro u. unfold get_unused_physical_qubit, least_unused.
  change 0 with (Z.of_nat 0). rewrite (count_unused_find u (S (List.length u)) 0).
  destruct (List.find _ _); reflexivity.
Qed.

Lemma set_add_idem : forall p u, set_add p (set_add p u) = set_add p u.
Proof.
  intros p u. unfold set_add at 2. destruct (set_mem p u) eqn:E.
  - unfold set_add. rewrite E. reflexivity.
  - unfold set_add. rewrite E.
    replace (set_mem p (u ++ [p])) with true; [reflexivity|].
    unfold set_mem. rewrite existsb_app. cbn. rewrite Z.eqb_refl, orb_true_r. reflexivity.
Qed.

(* ------------------------------------------------------------------ one instruction *)
Ltac regs :=
  repeat match goal with
         | H : _ && _ = true |- _ => apply andb_prop in H; destruct H
         end.

Ltac rw :=
  repeat first [ rewrite get_register_ok by assumption
               | rewrite set_register_ok by assumption
               | rewrite expand_entry_ok by assumption
               | rewrite assert_within_length_ok by assumption
               | progress cbn [bind to_sres fst snd] ].

Ltac fin := rw; try reflexivity; try congruence; try (exfalso; lia).

Lemma unfold_exec : forall i st pc,
  execute_command i st pc =
  match i with
  | ISet r v => inc_program_counter (instr_set r v) st pc
  | ILea r a => inc_program_counter (instr_lea r a) st pc
  | IArray sz a => inc_program_counter (instr_array sz a) st pc
  | ILoad r a ix => inc_program_counter (instr_load r a ix) st pc
  | IStore r a ix => inc_program_counter (instr_store r a ix) st pc
  | IUndef a ix => inc_program_counter (instr_undef a ix) st pc
  | IRetReg r => inc_program_counter (instr_ret_reg r) st pc
  | IRetArr a => inc_program_counter (instr_ret_arr a) st pc
  | IQalloc r => inc_program_counter (instr_qalloc r) st pc
  | IQfree r => inc_program_counter (instr_qfree r) st pc
  | IWaitAll a s e => inc_program_counter (instr_wait_all a s e) st pc
  | IWaitAny a s e => inc_program_counter (instr_wait_any a s e) st pc
  | IWaitSingle a ix => inc_program_counter (instr_wait_single a ix) st pc
  | IBranch b => handle_branch_instr b st pc
  | IClassical c => inc_program_counter (handle_binary_classical_instr c) st pc
  end.
Proof. reflexivity. Qed.

Theorem step_refines : forall i st pc,
  step i st pc <> Stop (Unspec pc) ->
  to_sres (execute_command i st pc) pc = step i st pc.
Proof.
  intros i st pc H. unfold step in *.
  destruct (instr_regs_ok i) eqn:Hok; cbn [negb] in *; [|congruence].
  destruct i as [r v|r a|sz a|r a ix|r a ix|a ix|c|b|r|a|r|r|a so eo|a so eo|a ix];
    cbn [instr_regs_ok] in Hok; regs; rewrite unfold_exec; unfold inc_program_counter.
  - (* set *) unfold instr_set. fin.
  - (* lea *) unfold instr_lea. fin.
  - (* array *) unfold instr_array. rw. destruct (rd st sz) as [n|]; fin.
    destruct (n <? 0) eqn:E; fin.
  - (* load *) unfold instr_load, get_array_entry. rw.
    destruct (oval st ix) as [n|]; fin.
    destruct (n <? 0) eqn:E; fin.
    rewrite arrays_getitem_spec by lia.
    destruct (find Z.eqb a (arrs st)) as [l|]; fin.
    destruct (Zlen l <=? n); fin.
    destruct (nth_error l (Z.to_nat n)) as [[v|]|]; fin.
  - (* store *) unfold instr_store, set_array_entry. rw.
    destruct (rd st r) as [v|]; fin.
    destruct (oval st ix) as [n|]; fin.
    destruct (n <? 0) eqn:E; fin.
    rewrite arrays_setitem_spec by lia.
    destruct (find Z.eqb a (arrs st)) as [l|]; fin.
    destruct (n <? Zlen l); fin.
  - (* undef *) unfold instr_undef, set_array_entry. rw.
    destruct (oval st ix) as [n|]; fin.
    destruct (n <? 0) eqn:E; fin.
    rewrite arrays_setitem_spec by lia.
    destruct (find Z.eqb a (arrs st)) as [l|]; fin.
    destruct (n <? Zlen l); fin.
  - (* add sub addm subm *)
    unfold handle_binary_classical_instr.
    destruct c as [o d ra rb|o d ra rb rm]; cbn [instr_regs_ok regin0 regin1 regout] in *; regs; rw.
    + destruct (rd st ra) as [x|]; fin. destruct (rd st rb) as [y|]; fin.
      destruct o; cbn [compute_binary_classical_instr binop_val]; fin.
    + destruct (rd st rm) as [m|]; fin.
      * destruct (m <? 1) eqn:E; fin.
        destruct (rd st ra) as [x|]; fin. destruct (rd st rb) as [y|]; fin.
        destruct o; cbn [compute_binary_classical_instr binop_val]; fin;
          rewrite py_mod_modulo by lia; reflexivity.
      * destruct (rd st ra) as [x|]; fin. destruct (rd st rb) as [y|]; fin.
        destruct o; cbn [compute_binary_classical_instr]; fin.
  - (* branches *)
    unfold handle_branch_instr.
    destruct b as [t|c r t|c r0 r1 t]; cbn [instr_regs_ok] in *; regs; rw.
    + reflexivity.
    + destruct (rd st r) as [x|]; fin.
      destruct c; cbn [check_unary ucond_holds]; fin.
      * destruct (x =? 0); reflexivity.
      * destruct (x =? 0); reflexivity.
    + destruct (rd st r0) as [x|]; fin. destruct (rd st r1) as [y|]; fin.
      destruct c; cbn [check_binary bcond_holds]; fin.
      * destruct (x =? y); reflexivity.
      * destruct (x =? y); reflexivity.
      * destruct (x <? y); reflexivity.
      * rewrite Z.geb_leb. destruct (y <=? x); reflexivity.
  - (* ret_reg *) unfold instr_ret_reg. rw. destruct (rd st r) as [v|]; fin.
  - (* ret_arr *) unfold instr_ret_arr, arrays_get_array.
    destruct (find Z.eqb a (arrs st)) as [l|]; fin.
  - (* qalloc *) unfold instr_qalloc. rw. destruct (rd st r) as [q|]; fin.
    destruct (q <? 0) eqn:E; fin.
    unfold allocate_physical_qubit.
    destruct (Zlen (um st) <=? q) eqn:E1; fin.
    rewrite py_getitem_nonneg by lia. rewrite E1.
    destruct (nth_error_in_range _ (um st) q) as [c Hc]; try lia. rewrite Hc. cbn [bind].
    destruct c as [p0|]; fin.
    rewrite get_unused_spec. destruct (least_unused (used st)) as [p|]; fin.
    rewrite set_add_idem.
    rewrite py_setitem_nonneg by lia.
    destruct (q <? Zlen (um st)) eqn:E2; fin.
  - (* qfree *) unfold instr_qfree. rw. destruct (rd st r) as [q|]; fin.
    destruct (q <? 0) eqn:E; fin.
    unfold free_physical_qubit.
    rewrite py_getitem_nonneg by lia.
    destruct (Zlen (um st) <=? q) eqn:E1; fin.
    destruct (nth_error_in_range _ (um st) q) as [c Hc]; try lia. rewrite Hc. cbn [bind].
    destruct c as [p0|]; fin.
    rewrite py_setitem_nonneg by lia.
    destruct (q <? Zlen (um st)) eqn:E2; fin.
    destruct (set_mem p0 (used st)); fin.
  - (* wait_all *) unfold instr_wait_all, expand_slice, arrays_getslice, arrays_get_array. rw.
    destruct (oval st so) as [s|]; fin.
    destruct (oval st eo) as [e|]; fin.
    destruct (find Z.eqb a (arrs st)) as [l|]; fin.
    destruct ((0 <=? s) && (s <=? e) && (e <=? Zlen l)) eqn:E; fin.
    rewrite py_getslice_in_range by lia.
    unfold range. rewrite existsb_none_slice by (unfold Zlen in *; lia).
    destruct (forallb _ _); reflexivity.
  - (* wait_any *) unfold instr_wait_any, expand_slice, arrays_getslice, arrays_get_array. rw.
    destruct (oval st so) as [s|]; fin.
    destruct (oval st eo) as [e|]; fin.
    destruct (find Z.eqb a (arrs st)) as [l|]; fin.
    destruct ((0 <=? s) && (s <=? e) && (e <=? Zlen l)) eqn:E; fin.
    rewrite py_getslice_in_range by lia.
    unfold range. rewrite forallb_none_slice by (unfold Zlen in *; lia).
    destruct (existsb _ _); reflexivity.
  - (* wait_single *) unfold instr_wait_single, get_array_entry. rw.
    destruct (oval st ix) as [n|]; fin.
    destruct (n <? 0) eqn:E; fin.
    rewrite arrays_getitem_spec by lia.
    destruct (find Z.eqb a (arrs st)) as [l|]; fin.
    destruct (Zlen l <=? n); fin.
    destruct (nth_error l (Z.to_nat n)) as [[v|]|]; fin.
Qed.

(* ------------------------------------------------------------------ whole programs *)
Lemma sem_run_eq : forall prog st pc fuel,
  Sem.run_from prog st pc fuel =
  if pc <? 0 then (st, pc, Unspec pc)
  else if Zlen prog <=? pc then (st, pc, Halt)
  else match nth_error prog (Z.to_nat pc) with
       | None => (st, pc, Halt)
       | Some i =>
           match fuel with
           | O => (st, pc, OutOfFuel)
           | S f => match step i st pc with
                    | Next st' pc' => Sem.run_from prog st' pc' f
                    | Stop o => (st, pc, o)
                    end
           end
       end.
Proof. intros prog st pc fuel. destruct fuel; reflexivity. Qed.

Lemma exec_run_eq : forall prog st pc fuel,
  Exec.run_from prog st pc fuel =
  if pc <? Zlen prog then
    match py_getitem prog pc with
    | Ok i =>
        match fuel with
        | O => (st, pc, OutOfFuel)
        | S f => match execute_command i st pc with
                 | Ok (st', pc') => Exec.run_from prog st' pc' f
                 | Raise k => (st, pc, Fault k pc)
                 | Block => (st, pc, Blocked pc)
                 end
        end
    | _ => (st, pc, Crash)
    end
  else (st, pc, Halt).
Proof. intros prog st pc fuel. destruct fuel; reflexivity. Qed.

Lemma defined_from_pc : forall prog st pc, defined_from prog st pc -> pc <? 0 = false.
Proof.
  intros prog st pc H. specialize (H O). rewrite sem_run_eq in H.
  destruct (pc <? 0); [cbn in H; discriminate|reflexivity].
Qed.

(* the implementation model and the reference semantics produce the same final
   state, pc and outcome for every program, from every state and pc, for every
   step bound -- by induction on the number of executed instructions *)
Theorem run_from_refines : forall fuel prog st pc,
  defined_from prog st pc ->
  Exec.run_from prog st pc fuel = Sem.run_from prog st pc fuel.
Proof.
  induction fuel as [|f IH]; intros prog st pc H;
    pose proof (defined_from_pc _ _ _ H) as Hpc;
    rewrite exec_run_eq, sem_run_eq; rewrite Hpc;
    (destruct (Zlen prog <=? pc) eqn:E;
     [ replace (pc <? Zlen prog) with false by lia; reflexivity |]);
    replace (pc <? Zlen prog) with true by lia;
    rewrite py_getitem_nonneg by lia; rewrite E;
    (destruct (nth_error_in_range _ prog pc) as [i Hi]; [lia|lia|]); rewrite Hi.
  - reflexivity.
  - assert (Hs : step i st pc <> Stop (Unspec pc)).
    { intro Hc. specialize (H 1%nat). rewrite sem_run_eq in H.
      rewrite Hpc, E, Hi, Hc in H. cbn in H. discriminate. }
    pose proof (step_refines i st pc Hs) as R.
    destruct (execute_command i st pc) as [[st' pc']|k|]; cbn [to_sres] in R; rewrite <- R.
    + apply IH. intro f'. specialize (H (S f')). rewrite sem_run_eq in H.
      rewrite Hpc, E, Hi, <- R in H. exact H.
    + reflexivity.
    + reflexivity.
Qed.

Theorem exec_refines_sem : forall prog st fuel,
  defined_domain prog st -> Exec.run prog st fuel = Sem.run prog st fuel.
Proof. intros prog st fuel H. apply run_from_refines. exact H. Qed.

(* several subroutines against one application state: induction on the list *)
Theorem run_many_refines : forall subs st fuel,
  defined_many subs st fuel -> Exec.run_many subs st fuel = Sem.run_many subs st fuel.
Proof.
  induction subs as [|p ps IH]; intros st fuel H; [reflexivity|].
  destruct H as [Hd Hm]. cbn [Exec.run_many Sem.run_many].
  rewrite (exec_refines_sem p st fuel Hd). f_equal. apply IH. exact Hm.
Qed.

(* ================================================================== corollaries
   All stated about the implementation model (Exec). *)

(* ------------------------------------------------------------------ branch senses *)
Definition binary_branch_sense (c : bcond) (P : Z -> Z -> Prop) : Prop :=
  forall st pc r0 r1 t a b,
    reg_ok r0 = true -> reg_ok r1 = true -> rd st r0 = Some a -> rd st r1 = Some b ->
    (P a b -> execute_command (IBranch (BBin c r0 r1 t)) st pc = Ok (st, t)) /\
    (~ P a b -> execute_command (IBranch (BBin c r0 r1 t)) st pc = Ok (st, pc + 1)).

Definition unary_branch_sense (c : ucond) (P : Z -> Prop) : Prop :=
  forall st pc r t a,
    reg_ok r = true -> rd st r = Some a ->
    (P a -> execute_command (IBranch (BUn c r t)) st pc = Ok (st, t)) /\
    (~ P a -> execute_command (IBranch (BUn c r t)) st pc = Ok (st, pc + 1)).

Ltac branch_tac :=
  intros; rewrite unfold_exec; unfold handle_branch_instr; rw;
  repeat match goal with H : rd _ _ = Some _ |- _ => rewrite H end;
  cbn [bind check_binary check_unary fst snd].

Theorem beq_sense : binary_branch_sense Ceq (fun a b => a = b).
Proof.
  unfold binary_branch_sense. intros st pc r0 r1 t a b H0 H1 Ha Hb. split; intro P; branch_tac.
  - replace (a =? b) with true by lia. reflexivity.
  - replace (a =? b) with false by lia. reflexivity.
Qed.

Theorem bne_sense : binary_branch_sense Cne (fun a b => a <> b).
Proof.
  unfold binary_branch_sense. intros st pc r0 r1 t a b H0 H1 Ha Hb. split; intro P; branch_tac.
  - replace (a =? b) with false by lia. reflexivity.
  - replace (a =? b) with true by lia. reflexivity.
Qed.

Theorem blt_sense : binary_branch_sense Clt (fun a b => a < b).
Proof.
  unfold binary_branch_sense. intros st pc r0 r1 t a b H0 H1 Ha Hb. split; intro P; branch_tac.
  - replace (a <? b) with true by lia. reflexivity.
  - replace (a <? b) with false by lia. reflexivity.
Qed.

Theorem bge_sense : binary_branch_sense Cge (fun a b => a >= b).
Proof.
  unfold binary_branch_sense. intros st pc r0 r1 t a b H0 H1 Ha Hb. split; intro P; branch_tac.
  - replace (a >=? b) with true by lia. reflexivity.
  - replace (a >=? b) with false by lia. reflexivity.
Qed.

Theorem bez_sense : unary_branch_sense Cez (fun a => a = 0).
Proof.
  unfold unary_branch_sense. intros st pc r t a H0 Ha. split; intro P; branch_tac.
  - replace (a =? 0) with true by lia. reflexivity.
  - replace (a =? 0) with false by lia. reflexivity.
Qed.

Theorem bnz_sense : unary_branch_sense Cnz (fun a => a <> 0).
Proof.
  unfold unary_branch_sense. intros st pc r t a H0 Ha. split; intro P; branch_tac.
  - replace (a =? 0) with false by lia. reflexivity.
  - replace (a =? 0) with true by lia. reflexivity.
Qed.

Theorem jmp_sense : forall st pc t, execute_command (IBranch (BJmp t)) st pc = Ok (st, t).
Proof. reflexivity. Qed.

(* ------------------------------------------------------------------ register file *)
Lemma reg_eqb_refl : forall r, reg_eqb r r = true.
Proof. intros [b i]. unfold reg_eqb, bank_eqb. cbn. rewrite !Z.eqb_refl. reflexivity. Qed.

Lemma find_upd_same : forall (K V : Type) (eqb : K -> K -> bool) (k : K) (v : V) l,
  (forall x, eqb x x = true) -> find eqb k (upd eqb k v l) = Some v.
Proof.
  intros K V eqb k v l R. induction l as [|[k' v'] t IH]; cbn.
  - rewrite R. reflexivity.
  - destruct (eqb k k') eqn:E; cbn; [rewrite R|rewrite E]; auto.
Qed.

Lemma rd_wr_same : forall st r v, rd (wr st r v) r = Some v.
Proof. intros st r v. unfold rd, wr. cbn. apply find_upd_same. exact reg_eqb_refl. Qed.

(* ------------------------------------------------------------------ addm / subm *)
Theorem addm_subm_range : forall o st pc d ra rb rm a b m,
  reg_ok d = true -> reg_ok ra = true -> reg_ok rb = true -> reg_ok rm = true ->
  rd st ra = Some a -> rd st rb = Some b -> rd st rm = Some m -> 1 <= m ->
  exists v,
    execute_command (IClassical (COpm o d ra rb rm)) st pc = Ok (wr st d v, pc + 1) /\
    rd (wr st d v) d = Some v /\
    0 <= v < m /\
    exists k, binop_val o a b = k * m + v.
Proof.
  intros o st pc d ra rb rm a b m Hd Ha Hb Hm Ra Rb Rm M.
  exists (Z.modulo (binop_val o a b) m). split; [|split; [apply rd_wr_same|split]].
  - rewrite unfold_exec. unfold inc_program_counter, handle_binary_classical_instr.
    cbn [regin0 regin1 regout]. rw. rewrite Rm. cbn [bind].
    replace (m <? 1) with false by lia. cbn [bind]. rw. rewrite Ra, Rb.
    destruct o; cbn [compute_binary_classical_instr binop_val bind]; rw;
      rewrite py_mod_modulo by lia; reflexivity.
  - apply Z.mod_pos_bound. lia.
  - exists (binop_val o a b / m). rewrite Z.mul_comm. apply Z.div_mod. lia.
Qed.

(* ------------------------------------------------------------------ lea, undef *)
Theorem lea_sets_address : forall st pc r a, reg_ok r = true ->
  execute_command (ILea r a) st pc = Ok (wr st r a, pc + 1) /\ rd (wr st r a) r = Some a.
Proof.
  intros st pc r a H. split; [|apply rd_wr_same].
  rewrite unfold_exec. unfold inc_program_counter, instr_lea. rw. reflexivity.
Qed.

Lemma nth_error_sset_same : forall (A : Type) (l : list A) n v, (n < List.length l)%nat ->
  nth_error (sset n v l) n = Some v.
Proof.
  intros A l n v H. unfold sset. rewrite nth_error_app2; rewrite firstn_length_le by lia; [|lia].
  rewrite Nat.sub_diag. reflexivity.
Qed.

Lemma nth_error_firstn_lt : forall (A : Type) (l : list A) n k, (k < n)%nat ->
  nth_error (firstn n l) k = nth_error l k.
Proof.
  intros A l. induction l as [|h t IH]; intros n k H.
  - rewrite firstn_nil. reflexivity.
  - destruct n; [lia|]. destruct k; [reflexivity|]. cbn. apply IH. lia.
Qed.

Lemma nth_error_skipn_add : forall (A : Type) (l : list A) n k,
  nth_error (skipn n l) k = nth_error l (n + k).
Proof.
  intros A l. induction l as [|h t IH]; intros n k.
  - rewrite skipn_nil. destruct k, n; reflexivity.
  - destruct n; [reflexivity|]. cbn. apply IH.
Qed.

Lemma nth_error_sset_other : forall (A : Type) (l : list A) n v k, (n < List.length l)%nat -> k <> n ->
  nth_error (sset n v l) k = nth_error l k.
Proof.
  intros A l n v k H Hk. unfold sset.
  destruct (Nat.ltb k n) eqn:E.
  - apply Nat.ltb_lt in E. rewrite nth_error_app1 by (rewrite firstn_length_le; lia).
    apply nth_error_firstn_lt. exact E.
  - apply Nat.ltb_ge in E. rewrite nth_error_app2 by (rewrite firstn_length_le; lia).
    rewrite firstn_length_le by lia.
    destruct (k - n)%nat as [|j] eqn:Ej; [lia|]. cbn [nth_error].
    rewrite nth_error_skipn_add. f_equal. lia.
Qed.

Lemma sset_length : forall (A : Type) (l : list A) n v, (n < List.length l)%nat ->
  List.length (sset n v l) = List.length l.
Proof.
  intros A l n v H. unfold sset. rewrite app_length. cbn [List.length].
  rewrite firstn_length_le by lia. rewrite skipn_length. lia.
Qed.

(* undef makes exactly the addressed entry undefined, with a register or an
   immediate index *)
Theorem undef_clears_entry : forall st pc a ix n l,
  opnd_ok ix = true -> oval st ix = Some n -> find Z.eqb a (arrs st) = Some l -> 0 <= n < Zlen l ->
  let l' := sset (Z.to_nat n) None l in
  execute_command (IUndef a ix) st pc = Ok (write_array a l' st, pc + 1) /\
  find Z.eqb a (arrs (write_array a l' st)) = Some l' /\
  nth_error l' (Z.to_nat n) = Some None /\
  List.length l' = List.length l /\
  forall k, k <> Z.to_nat n -> nth_error l' k = nth_error l k.
Proof.
  intros st pc a ix n l Hok Hv Hf Hn l'.
  assert (Hlt : (Z.to_nat n < List.length l)%nat) by (unfold Zlen in Hn; lia).
  split; [|split; [|split; [|split]]].
  - rewrite unfold_exec. unfold inc_program_counter, instr_undef, set_array_entry. rw. rewrite Hv. cbn [bind].
    rewrite arrays_setitem_spec by lia. rewrite Hf. replace (n <? Zlen l) with true by lia. reflexivity.
  - unfold write_array. cbn [arrs]. apply find_upd_same. exact Z.eqb_refl.
  - apply nth_error_sset_same. exact Hlt.
  - apply sset_length. exact Hlt.
  - intros k Hk. apply nth_error_sset_other; assumption.
Qed.

(* ------------------------------------------------------------------ slices with register bounds *)
(* wait_all @a[Rs:Re] with both bounds taken from registers passes exactly when
   every entry s <= k < e is defined, and otherwise blocks at that line *)
Theorem wait_all_register_slice : forall st pc a rs re s e l,
  reg_ok rs = true -> reg_ok re = true ->
  rd st rs = Some s -> rd st re = Some e ->
  find Z.eqb a (arrs st) = Some l -> 0 <= s -> s <= e -> e <= Zlen l ->
  ((forall k, s <= k < e -> exists v, nth_error l (Z.to_nat k) = Some (Some v)) ->
   execute_command (IWaitAll a (OReg rs) (OReg re)) st pc = Ok (st, pc + 1)) /\
  ((exists k, s <= k < e /\ nth_error l (Z.to_nat k) = Some None) ->
   execute_command (IWaitAll a (OReg rs) (OReg re)) st pc = Block).
Proof.
  intros st pc a rs re s e l Hrs Hre Rs Re Hf H0 H1 H2.
  assert (Hstep : step (IWaitAll a (OReg rs) (OReg re)) st pc =
                  if forallb (fun k => defined (nth_error l k)) (range s e)
                  then Next st (pc + 1) else Stop (Blocked pc)).
  { unfold step. cbn [instr_regs_ok opnd_ok oval]. rewrite Hrs, Hre. cbn [andb negb].
    rewrite Rs, Re, Hf. replace ((0 <=? s) && (s <=? e) && (e <=? Zlen l)) with true by lia. reflexivity. }
  assert (Href : to_sres (execute_command (IWaitAll a (OReg rs) (OReg re)) st pc) pc =
                 step (IWaitAll a (OReg rs) (OReg re)) st pc).
  { apply step_refines. rewrite Hstep. destruct (forallb _ _); discriminate. }
  rewrite Hstep in Href. split.
  - intro Hall.
    assert (Hfb : forallb (fun k => defined (nth_error l k)) (range s e) = true).
    { apply forallb_forall. intros k Hk. unfold range in Hk. apply in_seq in Hk.
      destruct (Hall (Z.of_nat k)) as [v Hv]; [lia|]. rewrite Nat2Z.id in Hv. rewrite Hv. reflexivity. }
    rewrite Hfb in Href.
    destruct (execute_command _ st pc) as [[st' pc']|k|]; cbn [to_sres] in Href; congruence.
  - intros [k [Hk Hn]].
    assert (Hfb : forallb (fun k => defined (nth_error l k)) (range s e) = false).
    { destruct (forallb _ (range s e)) eqn:E; [|reflexivity].
      rewrite forallb_forall in E. specialize (E (Z.to_nat k)).
      rewrite Hn in E. cbn in E. symmetry. apply E. unfold range. apply in_seq. lia. }
    rewrite Hfb in Href.
    destruct (execute_command _ st pc) as [[st' pc']|k'|]; cbn [to_sres] in Href; congruence.
Qed.

(* outside the defined domain the model follows Python: a stop bound past the
   end is clamped to the length (no fault) *)
Theorem wait_all_slice_clamps : forall st pc a s e l,
  find Z.eqb a (arrs st) = Some l -> 0 <= s -> s <= Zlen l -> Zlen l <= e ->
  execute_command (IWaitAll a (OImm s) (OImm e)) st pc =
  execute_command (IWaitAll a (OImm s) (OImm (Zlen l))) st pc.
Proof.
  intros st pc a s e l Hf H0 H1 H2. rewrite !unfold_exec.
  unfold inc_program_counter, instr_wait_all, expand_slice, arrays_getslice, arrays_get_array.
  cbn [expand_entry bind fst snd]. rewrite Hf. cbn [bind].
  unfold py_getslice. unfold py_clamp.
  assert (Hl : 0 <= Zlen l) by (unfold Zlen; lia).
  replace (e <? 0) with false by lia. replace (Zlen l <? 0) with false by lia.
  rewrite (Z.min_r e (Zlen l)) by lia. rewrite Z.min_id. reflexivity.
Qed.

(* ------------------------------------------------------------------ faults *)
(* the faults the property lists, as conditions on the instruction and the state
   in which it starts *)
Inductive listed_fault : instr -> state -> fkind -> Prop :=
| LF_store_undefined : forall st r a ix,
    rd st r = None -> listed_fault (IStore r a ix) st FUndefReg
| LF_load_undefined : forall st r a ix n l,
    oval st ix = Some n -> 0 <= n -> find Z.eqb a (arrs st) = Some l ->
    nth_error l (Z.to_nat n) = Some None -> listed_fault (ILoad r a ix) st FUndefEntry
| LF_modulus : forall st o d ra rb rm m,
    rd st rm = Some m -> m < 1 -> listed_fault (IClassical (COpm o d ra rb rm)) st FModulus
| LF_double_alloc : forall st r q,
    rd st r = Some q -> 0 <= q -> (exists p, nth_error (um st) (Z.to_nat q) = Some (Some p)) ->
    listed_fault (IQalloc r) st FAlloc
| LF_free_unallocated : forall st r q,
    rd st r = Some q -> 0 <= q -> nth_error (um st) (Z.to_nat q) = Some None ->
    listed_fault (IQfree r) st FFree
| LF_load_past_end : forall st r a ix n l,
    oval st ix = Some n -> find Z.eqb a (arrs st) = Some l -> Zlen l <= n ->
    listed_fault (ILoad r a ix) st FIndex
| LF_store_past_end : forall st r v a ix n l,
    rd st r = Some v -> oval st ix = Some n -> find Z.eqb a (arrs st) = Some l -> Zlen l <= n ->
    listed_fault (IStore r a ix) st FIndex
| LF_undef_past_end : forall st a ix n l,
    oval st ix = Some n -> find Z.eqb a (arrs st) = Some l -> Zlen l <= n ->
    listed_fault (IUndef a ix) st FIndex.

Lemma nth_some_lt : forall (A : Type) (l : list A) n x, 0 <= n -> nth_error l (Z.to_nat n) = Some x -> n < Zlen l.
Proof.
  intros A l n x H0 H. assert (Hn : nth_error l (Z.to_nat n) <> None) by congruence.
  apply nth_error_Some in Hn. unfold Zlen. lia.
Qed.

(* the reference semantics faults (it is NOT open) on each listed fault: the
   defined domain does not hide any of them *)
Theorem listed_fault_in_domain : forall i st k pc,
  instr_regs_ok i = true -> listed_fault i st k -> step i st pc = Stop (Fault k pc).
Proof.
  intros i st k pc Hok H. unfold step. rewrite Hok. cbn [negb].
  destruct H as [st r a ix Hr|st r a ix n l Hv Hn Hf He|st o d ra rb rm m Hm Hlt
                |st r q Hr Hq [p Hu]|st r q Hr Hq Hu|st r a ix n l Hv Hf Hl
                |st r v a ix n l Hr Hv Hf Hl|st a ix n l Hv Hf Hl].
  - rewrite Hr. reflexivity.
  - rewrite Hv. replace (n <? 0) with false by lia. rewrite Hf.
    pose proof (nth_some_lt _ _ _ _ Hn He). replace (Zlen l <=? n) with false by lia.
    rewrite He. reflexivity.
  - rewrite Hm. replace (m <? 1) with true by lia. reflexivity.
  - rewrite Hr. replace (q <? 0) with false by lia.
    pose proof (nth_some_lt _ _ _ _ Hq Hu). replace (Zlen (um st) <=? q) with false by lia.
    rewrite Hu. reflexivity.
  - rewrite Hr. replace (q <? 0) with false by lia.
    pose proof (nth_some_lt _ _ _ _ Hq Hu). replace (Zlen (um st) <=? q) with false by lia.
    rewrite Hu. reflexivity.
  - rewrite Hv. assert (0 <= Zlen l) by (unfold Zlen; lia).
    replace (n <? 0) with false by lia. rewrite Hf.
    replace (Zlen l <=? n) with true by lia. reflexivity.
  - rewrite Hr, Hv. assert (0 <= Zlen l) by (unfold Zlen; lia).
    replace (n <? 0) with false by lia. rewrite Hf.
    replace (n <? Zlen l) with false by lia. reflexivity.
  - rewrite Hv. assert (0 <= Zlen l) by (unfold Zlen; lia).
    replace (n <? 0) with false by lia. rewrite Hf.
    replace (n <? Zlen l) with false by lia. reflexivity.
Qed.

(* ... and so does the implementation model *)
Theorem listed_fault_raises : forall i st k pc,
  instr_regs_ok i = true -> listed_fault i st k -> execute_command i st pc = Raise k.
Proof.
  intros i st k pc Hok H.
  pose proof (listed_fault_in_domain i st k pc Hok H) as Hs.
  assert (Hr : to_sres (execute_command i st pc) pc = step i st pc).
  { apply step_refines. rewrite Hs. discriminate. }
  rewrite Hs in Hr.
  destruct (execute_command i st pc) as [[st' pc']|k'|]; cbn [to_sres] in Hr; congruence.
Qed.

(* a raised error ends the run at that instruction: the outcome names its line,
   the state is the state in which the instruction started, the pc still points
   at it *)
Theorem raise_names_line : forall prog st pc fuel i k,
  0 <= pc -> nth_error prog (Z.to_nat pc) = Some i ->
  execute_command i st pc = Raise k ->
  Exec.run_from prog st pc (S fuel) = (st, pc, Fault k pc).
Proof.
  intros prog st pc fuel i k H0 Hi Hr.
  pose proof (nth_some_lt _ _ _ _ H0 Hi) as Hlt.
  rewrite exec_run_eq. replace (pc <? Zlen prog) with true by lia.
  rewrite py_getitem_nonneg by lia. replace (Zlen prog <=? pc) with false by lia.
  rewrite Hi, Hr. reflexivity.
Qed.

Theorem fault_names_line : forall prog st pc fuel i k,
  0 <= pc -> nth_error prog (Z.to_nat pc) = Some i ->
  instr_regs_ok i = true -> listed_fault i st k ->
  Exec.run_from prog st pc (S fuel) = (st, pc, Fault k pc).
Proof.
  intros prog st pc fuel i k H0 Hi Hok Hl.
  apply (raise_names_line prog st pc fuel i k H0 Hi).
  apply listed_fault_raises; assumption.
Qed.

(* (st', pc') is reached from (st, pc) by successfully executed instructions *)
Inductive reaches (prog : list instr) : state -> Z -> state -> Z -> Prop :=
| reaches_here : forall st pc, reaches prog st pc st pc
| reaches_step : forall st pc i st1 pc1 st' pc',
    pc < Zlen prog -> py_getitem prog pc = Ok i ->
    execute_command i st pc = Ok (st1, pc1) ->
    reaches prog st1 pc1 st' pc' -> reaches prog st pc st' pc'.

(* whenever a run ends in a fault: the line named is the final pc, the final
   state is the state in which the faulting instruction was started (it was
   reached through successful instructions only and the faulting instruction
   changed nothing), and that instruction is the one that raised *)
Theorem fault_stops : forall fuel prog st pc st' pc' k line,
  Exec.run_from prog st pc fuel = (st', pc', Fault k line) ->
  line = pc' /\ reaches prog st pc st' pc' /\
  exists i, py_getitem prog pc' = Ok i /\ execute_command i st' pc' = Raise k.
Proof.
  induction fuel as [|f IH]; intros prog st pc st' pc' k line H; rewrite exec_run_eq in H;
    destruct (pc <? Zlen prog) eqn:E; try discriminate;
    destruct (py_getitem prog pc) as [i|k0|] eqn:Hi; try discriminate.
  destruct (execute_command i st pc) as [[st1 pc1]|k1|] eqn:Hx; try discriminate.
  - destruct (IH _ _ _ _ _ _ _ H) as [Hl [Hr Hf]]. split; [exact Hl|]. split; [|exact Hf].
    eapply reaches_step; eauto. lia.
  - inversion H; subst. split; [reflexivity|]. split; [apply reaches_here|].
    exists i. split; assumption.
Qed.

(* the same for a blocked wait *)
Theorem blocked_stops : forall fuel prog st pc st' pc' line,
  Exec.run_from prog st pc fuel = (st', pc', Blocked line) ->
  line = pc' /\ reaches prog st pc st' pc' /\
  exists i, py_getitem prog pc' = Ok i /\ execute_command i st' pc' = Block.
Proof.
  induction fuel as [|f IH]; intros prog st pc st' pc' line H; rewrite exec_run_eq in H;
    destruct (pc <? Zlen prog) eqn:E; try discriminate;
    destruct (py_getitem prog pc) as [i|k0|] eqn:Hi; try discriminate.
  destruct (execute_command i st pc) as [[st1 pc1]|k1|] eqn:Hx; try discriminate.
  - destruct (IH _ _ _ _ _ _ H) as [Hl [Hr Hf]]. split; [exact Hl|]. split; [|exact Hf].
    eapply reaches_step; eauto. lia.
  - inversion H; subst. split; [reflexivity|]. split; [apply reaches_here|].
    exists i. split; assumption.
Qed.

(* ------------------------------------------------------------------ deciding the domain for terminating runs *)
Definition settled (o : outcome) : bool :=
  match o with OutOfFuel | Unspec _ => false | _ => true end.

Lemma sem_fuel_stable : forall f prog st pc f',
  snd (Sem.run_from prog st pc f) <> OutOfFuel ->
  snd (Sem.run_from prog st pc f') = OutOfFuel \/
  Sem.run_from prog st pc f' = Sem.run_from prog st pc f.
Proof.
  induction f as [|f IH]; intros prog st pc f' H;
    rewrite (sem_run_eq prog st pc f'); rewrite sem_run_eq in H; rewrite sem_run_eq;
    destruct (pc <? 0); try (right; reflexivity);
    destruct (Zlen prog <=? pc); try (right; reflexivity);
    destruct (nth_error prog (Z.to_nat pc)) as [i|]; try (right; reflexivity).
  - cbn in H. congruence.
  - destruct f' as [|f']; [left; reflexivity|].
    destruct (step i st pc) as [st1 pc1|o]; [|right; reflexivity].
    apply IH. exact H.
Qed.

(* a run that ends (halt, fault or blocked) within some step bound without
   meeting open behaviour is in the defined domain *)
Theorem defined_from_by_run : forall prog st pc N,
  settled (snd (Sem.run_from prog st pc N)) = true -> defined_from prog st pc.
Proof.
  intros prog st pc N H f.
  destruct (sem_fuel_stable N prog st pc f) as [E|E].
  - intro Hc. rewrite Hc in H. discriminate.
  - rewrite E. reflexivity.
  - rewrite E. destruct (snd (Sem.run_from prog st pc N)); try reflexivity; discriminate.
Qed.

(* ------------------------------------------------------------------ physical-qubit bookkeeping *)
Lemma least_unused_fresh : forall u p, least_unused u = Some p -> set_mem p u = false /\ 0 <= p.
Proof.
  intros u p H. unfold least_unused in H. apply find_some in H. destruct H as [Hin Hp].
  split; [destruct (set_mem p u); [discriminate|reflexivity]|].
  apply in_map_iff in Hin. destruct Hin as [k [Hk _]]. lia.
Qed.

(* a successful qalloc maps the LEAST physical qubit not in use and marks exactly it
   as in use; a successful qfree unmaps the qubit and releases exactly its physical
   id.  (A faulting qalloc/qfree changes nothing: fault_stops / fault_names_line
   return the whole state, in-use set included.) *)
Theorem qalloc_bookkeeping : forall st pc r q p,
  reg_ok r = true -> rd st r = Some q -> 0 <= q ->
  nth_error (um st) (Z.to_nat q) = Some None -> least_unused (used st) = Some p ->
  set_mem p (used st) = false /\
  execute_command (IQalloc r) st pc =
  Ok (with_um st (sset (Z.to_nat q) (Some p) (um st)) (set_add p (used st)), pc + 1).
Proof.
  intros st pc r q p Hok Hr Hq Hu El.
  split; [apply (least_unused_fresh _ _ El)|].
  assert (Hs : step (IQalloc r) st pc =
               Next (with_um st (sset (Z.to_nat q) (Some p) (um st)) (set_add p (used st))) (pc + 1)).
  { unfold step. cbn [instr_regs_ok]. rewrite Hok. cbn [negb]. rewrite Hr.
    replace (q <? 0) with false by lia.
    pose proof (nth_some_lt _ _ _ _ Hq Hu). replace (Zlen (um st) <=? q) with false by lia.
    rewrite Hu, El. reflexivity. }
  pose proof (step_refines (IQalloc r) st pc) as Hr'. rewrite Hs in Hr'. specialize (Hr' ltac:(discriminate)).
  destruct (execute_command (IQalloc r) st pc) as [[st' pc']|k|]; cbn [to_sres] in Hr'; congruence.
Qed.

Theorem qfree_bookkeeping : forall st pc r q p,
  reg_ok r = true -> rd st r = Some q -> 0 <= q ->
  nth_error (um st) (Z.to_nat q) = Some (Some p) -> set_mem p (used st) = true ->
  execute_command (IQfree r) st pc =
  Ok (with_um st (sset (Z.to_nat q) None (um st)) (set_remove p (used st)), pc + 1).
Proof.
  intros st pc r q p Hok Hr Hq Hu Hm.
  assert (Hs : step (IQfree r) st pc =
               Next (with_um st (sset (Z.to_nat q) None (um st)) (set_remove p (used st))) (pc + 1)).
  { unfold step. cbn [instr_regs_ok]. rewrite Hok. cbn [negb]. rewrite Hr.
    replace (q <? 0) with false by lia.
    pose proof (nth_some_lt _ _ _ _ Hq Hu). replace (Zlen (um st) <=? q) with false by lia.
    rewrite Hu, Hm. reflexivity. }
  pose proof (step_refines (IQfree r) st pc) as Hr'. rewrite Hs in Hr'. specialize (Hr' ltac:(discriminate)).
  destruct (execute_command (IQfree r) st pc) as [[st' pc']|k|]; cbn [to_sres] in Hr'; congruence.
Qed.
