From Coq Require Import ZArith List Bool String Lia.
From NQ Require Import Base.Bits Proofs.BitsProofs Lang.Codec Proofs.CodecProofs Lang.RefSpec.
Import ListNotations.
Open Scope Z_scope.

(* little-endian: byte k of the encoding is digit k in base 256 *)
Lemma to_bytes_nth k n N :
  (k < n)%nat -> nth k (to_bytes n N) 0 = (N / 2 ^ (8 * Z.of_nat k)) mod 256.
Proof.
  revert k N. induction n as [|n IH]; intros k N Hk; [lia|].
  destruct k as [|k]; cbn [to_bytes nth].
  - change 255 with (Z.ones 8). rewrite Z.land_ones by lia. cbn. now rewrite Z.div_1_r.
  - rewrite IH by lia. rewrite Z.shiftr_div_pow2 by lia.
    assert (H8 : 0 < 2 ^ 8) by (apply Z.pow_pos_nonneg; lia).
    assert (Hk8 : 0 < 2 ^ (8 * Z.of_nat k)) by (apply Z.pow_pos_nonneg; lia).
    rewrite Z.div_div by lia.
    rewrite <- Z.pow_add_r by lia. do 3 f_equal. lia.
Qed.

(* a row that follows the format encodes exactly as the reference encoder *)
Theorem encode_eq_ref r ks ops :
  row_follows_format r = true -> row_rkinds r = Some ks ->
  encode_row r ops = ref_encode (r_op r) ks ops.
Proof.
  unfold row_follows_format. intros H Hk. rewrite Hk in H.
  rewrite !andb_true_iff in H. destruct H as [[He _] _].
  apply (list_eqb_eq field_eqb field_eqb_eq) in He.
  unfold encode_row, ref_encode. now rewrite He.
Qed.

Theorem encode_length r ops : List.length (encode_row r ops) = 7%nat.
Proof. apply length_encode_row. Qed.

(* the register byte: bank + 4 * index, for all 4 x 16 registers (finite) *)
Definition reg_byte_ok (b i : Z) : bool :=
  list_eqb Z.eqb (to_bytes 1 (pack (reg_fields 0) [b; i])) [b + 4 * i].

Lemma reg_byte_all :
  forallb (fun b => forallb (fun i => reg_byte_ok b i) (map Z.of_nat (seq 0 16))) (map Z.of_nat (seq 0 4)) = true.
Proof. vm_compute. reflexivity. Qed.

(* 32-bit integers: four little-endian bytes of v mod 2^32 (two's complement) *)
Lemma int32_bytes v k :
  (k < 4)%nat ->
  nth k (to_bytes 4 (pack [mkF 0 32 true] [v])) 0 = ((v mod 2 ^ 32) / 2 ^ (8 * Z.of_nat k)) mod 256.
Proof.
  intros Hk. rewrite to_bytes_nth by assumption.
  cbn [pack]. unfold put; cbn [f_width f_pos].
  rewrite Z.lor_0_r, Z.shiftl_0_r, Z.land_ones by lia. reflexivity.
Qed.
