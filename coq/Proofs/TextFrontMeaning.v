(* TextFrontMeaning.v — C03 at the level of the text: parsing and assembling the
   (decorated) text of a source program yields instruction objects that simulate
   the source semantics. *)
From Coq Require Import ZArith List Bool String Ascii Lia.
From NQ Require Import Base.Bits Lang.Codec Lang.Asm Lang.AsmSem Lang.Text Lang.TextFront Lang.AsmCheck.
From NQ Require Import Proofs.AsmProofs Proofs.TextFrontProofs Proofs.TextFrontDecoProofs.
Import ListNotations.
Open Scope Z_scope.

Lemma print_proto_clean bk gi P :
  banks_ok bk = true -> ginstrs_ok gi = true -> wf_proto bk gi P = true ->
  forallb clean_line (print_proto bk P) = true.
Proof.
  intros Hb Hg Hwf. unfold print_proto. rewrite forallb_app. apply andb_true_iff. split; [reflexivity|].
  unfold wf_proto in Hwf. rewrite forallb_forall in *. intros l Hl.
  apply in_map_iff in Hl as [c [<- Hc]].
  exact (proj1 (print_cmd_clean bk gi c Hb Hg (Hwf c Hc))).
Qed.

(* the decorated canonical text is read back as the program *)
Theorem parse_decorated_proto bk gi ds P :
  banks_ok bk = true -> ginstrs_ok gi = true -> wf_proto bk gi P = true -> forallb deco_ok ds = true ->
  parse_text bk gi (decorate ds (print_proto bk P)) = Some P.
Proof.
  intros Hb Hg Hwf Hd.
  rewrite (decorate_parse bk gi ds _ Hd (print_proto_clean bk gi P Hb Hg Hwf)).
  exact (parse_print_proto bk gi P Hb Hg Hwf).
Qed.

(* C03, text level: for every source program P that has a text (wf_proto) and a
   meaning (wf_src), every decoration of its canonical text with comments, blank
   and comment-only lines, indentation and trailing blanks is accepted by the front
   end, and whenever the assembler accepts the program for flavour table t the
   instruction objects simulate P (same reading of cfg_rel as assemble_simulates) *)
Theorem text_program_meaning pr bk gi t ds P :
  banks_ok bk = true -> ginstrs_ok gi = true ->
  params_ok pr = true -> is_exempt (ap_exempt pr) SET 1 = true ->
  wf_proto bk gi P = true -> wf_src P = true -> forallb deco_ok ds = true ->
  exists R, assemble_text pr bk gi t (decorate ds (print_proto bk P)) = Some R /\ R = assemble pr t P /\
  forall B, R = AOk B ->
  forall n ss st, eqv pr (named P) ss st ->
  exists m, (n <= m)%nat /\ cfg_rel pr P (arun P n (Run 0 ss)) (arun (map embed B) m (Run 0 st)).
Proof.
  intros Hb Hg Hpar Hex Hwf Hsrc Hd. exists (assemble pr t P). split; [|split; [reflexivity|]].
  - unfold assemble_text. rewrite (parse_decorated_proto bk gi ds P Hb Hg Hwf Hd). reflexivity.
  - intros B HB. exact (assemble_simulates_flavour pr t P B Hpar Hex Hsrc HB).
Qed.
