From Coq Require Import ZArith List Bool String Lia.
From NQ Require Import Base.Bits Proofs.BitsProofs Lang.Codec.
Import ListNotations.
Open Scope Z_scope.

Lemma field_eqb_eq f g : field_eqb f g = true -> f = g.
Proof.
  destruct f as [p w s], g as [p' w' s']. unfold field_eqb; cbn.
  rewrite !andb_true_iff, !Z.eqb_eq. intros [[-> ->] H].
  apply Bool.eqb_prop in H. now subst.
Qed.

Lemma list_eqb_eq {A} (eqb : A -> A -> bool) :
  (forall x y, eqb x y = true -> x = y) ->
  forall a b, list_eqb eqb a b = true -> a = b.
Proof.
  intros H a. induction a as [|x a IH]; intros [|y b]; cbn; try discriminate; auto.
  rewrite andb_true_iff. intros [E1 E2]. f_equal; auto.
Qed.

Lemma kind_eqb_eq a b : kind_eqb a b = true -> a = b.
Proof. destruct a, b; cbn; congruence. Qed.

Lemma group_flat ops : group (map kind_of ops) (flat ops) = Some ops.
Proof.
  induction ops as [|o ops IH]; [reflexivity|].
  unfold flat in *. destruct o; cbn [map kind_of List.concat leaves app group];
  rewrite IH; reflexivity.
Qed.

Lemma lookup_id_nodup t r :
  nodup_z (map r_op t) = true -> In r t -> lookup_id t (r_op r) = Some r.
Proof.
  induction t as [|x t IH]; cbn [map nodup_z lookup_id In]; [tauto|].
  rewrite andb_true_iff, negb_true_iff. intros [Hx Hnd] [->|Hin].
  - assert (Hnone : lookup_id t (r_op r) = None).
    { clear IH Hnd. induction t as [|y t IHt]; [reflexivity|].
      cbn [map existsb] in Hx. apply orb_false_iff in Hx as [Hy Hx].
      cbn [lookup_id]. rewrite (IHt Hx).
      rewrite Z.eqb_sym, Hy. reflexivity. }
    rewrite Hnone, Z.eqb_refl. reflexivity.
  - rewrite (IH Hnd Hin). reflexivity.
Qed.

Lemma lookup_mn_nodup t r :
  nodup_s (map r_mn t) = true -> In r t -> lookup_mn t (r_mn r) = Some r.
Proof.
  induction t as [|x t IH]; cbn [map nodup_s lookup_mn In]; [tauto|].
  rewrite andb_true_iff, negb_true_iff. intros [Hx Hnd] [->|Hin].
  - assert (Hnone : lookup_mn t (r_mn r) = None).
    { clear IH Hnd. induction t as [|y t IHt]; [reflexivity|].
      cbn [map existsb] in Hx. apply orb_false_iff in Hx as [Hy Hx].
      cbn [lookup_mn]. rewrite (IHt Hx).
      rewrite String.eqb_sym, Hy. reflexivity. }
    rewrite Hnone, String.eqb_refl. reflexivity.
  - rewrite (IH Hnd Hin). reflexivity.
Qed.

Lemma row_ok_inv r :
  row_ok r = true ->
  r_dec r = r_enc r /\ wf_layout CMD_BITS (r_enc r) = true /\
  exists l, r_enc r = id_field :: l.
Proof.
  unfold row_ok. rewrite !andb_true_iff. intros [[[He Hwf] Hid] _].
  apply (list_eqb_eq field_eqb field_eqb_eq) in He.
  split; [auto|split; [auto|]].
  destruct (r_enc r) as [|f l]; [discriminate|].
  apply field_eqb_eq in Hid. subst. eauto.
Qed.

Lemma wf_layout_ok bits l : wf_layout bits l = true -> forallb (field_ok bits) l = true.
Proof. unfold wf_layout. rewrite andb_true_iff. tauto. Qed.

Lemma get_id_field n : get id_field n = Z.land n 255.
Proof. unfold get, get_u, id_field; cbn [f_pos f_width f_signed andb]. now rewrite Z.shiftr_0_r. Qed.

Lemma length_encode_row r ops : List.length (encode_row r ops) = CMD_BYTES.
Proof. unfold encode_row. apply length_to_bytes. Qed.

(* C01 (b): a command of the table decodes to itself *)
Theorem decode_encode_cmd t r ops :
  wf_table t = true -> In r t -> in_range r ops = true ->
  decode_cmd t (encode_row r ops) = Some (r, ops).
Proof.
  unfold wf_table, in_range, well_typed. rewrite !andb_true_iff.
  intros [[Hnd _] Hrows] Hin [Hty Hfit].
  rewrite forallb_forall in Hrows. specialize (Hrows r Hin).
  apply row_ok_inv in Hrows as (Hdec & Hwf & l & Hl).
  apply (list_eqb_eq kind_eqb kind_eqb_eq) in Hty.
  set (N := pack (r_enc r) (r_op r :: flat ops)).
  assert (Hun : unpack (r_enc r) N = r_op r :: flat ops)
    by (apply (unpack_pack CMD_BITS); assumption).
  assert (Hhd : Z.land N 255 = r_op r).
  { rewrite <- get_id_field. rewrite Hl in Hun. now inversion Hun. }
  unfold decode_cmd.
  pose proof (length_encode_row r ops) as Hlen.
  unfold encode_row in *. fold N in Hlen |- *.
  change (to_bytes CMD_BYTES N) with (Z.land N 255 :: to_bytes 6 (Z.shiftr N 8)) at 1.
  cbv beta iota.
  change (Z.land N 255 :: to_bytes 6 (Z.shiftr N 8)) with (to_bytes CMD_BYTES N).
  rewrite Hlen, Nat.eqb_refl. cbn [negb].
  rewrite Hhd, (lookup_id_nodup t r Hnd Hin), Hdec.
  rewrite unpack_of_to_bytes by (apply wf_layout_ok; exact Hwf).
  rewrite Hun, Z.eqb_refl, <- Hty, group_flat. reflexivity.
Qed.

(* C01 (d): distinct (class, operands) never share an encoding *)
Corollary encode_injective t r ops r' ops' :
  wf_table t = true -> In r t -> In r' t ->
  in_range r ops = true -> in_range r' ops' = true ->
  encode_row r ops = encode_row r' ops' -> r = r' /\ ops = ops'.
Proof.
  intros Hwf Hin Hin' Hr Hr' E.
  pose proof (decode_encode_cmd t r ops Hwf Hin Hr) as D.
  rewrite E, (decode_encode_cmd t r' ops' Hwf Hin' Hr') in D.
  inversion D. auto.
Qed.

Lemma firstn_app_exact {A} (a b : list A) n : List.length a = n -> firstn n (a ++ b) = a.
Proof.
  intros <-. rewrite firstn_app, Nat.sub_diag, firstn_all. cbn. apply app_nil_r.
Qed.

Lemma skipn_app_exact {A} (a b : list A) n : List.length a = n -> skipn n (a ++ b) = b.
Proof.
  intros <-. rewrite skipn_app, Nat.sub_diag, skipn_all. reflexivity.
Qed.

Lemma decode_cmds_encode t body fuel :
  wf_table t = true ->
  Forall (fun c => In (fst c) t /\ in_range (fst c) (snd c) = true) body ->
  (List.length body <= fuel)%nat ->
  decode_cmds t fuel (List.concat (map (fun c => encode_row (fst c) (snd c)) body)) = Some body.
Proof.
  intros Hwf. revert fuel. induction body as [|c body IH]; intros fuel Hall Hfuel.
  - destruct fuel; reflexivity.
  - inversion Hall as [|c' b' [Hin Hr] Hall']; subst.
    destruct fuel as [|fuel]; [cbn in Hfuel; lia|].
    cbn [map List.concat].
    pose proof (length_encode_row (fst c) (snd c)) as Hlen.
    remember (encode_row (fst c) (snd c)) as e eqn:He.
    destruct e as [|b0 e']; [discriminate|].
    cbn [decode_cmds app].
    change (b0 :: e' ++ ?x) with ((b0 :: e') ++ x).
    rewrite app_length, Hlen.
    assert (Hlt : Nat.ltb (CMD_BYTES + List.length (List.concat (map (fun c0 => encode_row (fst c0) (snd c0)) body))) CMD_BYTES = false)
      by (apply Nat.ltb_ge; lia).
    rewrite Hlt.
    rewrite firstn_app_exact, skipn_app_exact by assumption.
    rewrite He, (decode_encode_cmd t _ _ Hwf Hin Hr).
    rewrite IH; [destruct c; reflexivity|assumption|cbn in Hfuel; lia].
Qed.

(* C01 (c): whole subroutines, any length *)
Theorem decode_encode_sub h t s :
  header_ok h = true -> wf_table t = true ->
  Forall (fun c => In (fst c) t) (s_body s) ->
  sub_in_range h s = true ->
  decode_sub h t (encode_sub h s) = Some s.
Proof.
  unfold header_ok, sub_in_range. rewrite !andb_true_iff.
  intros [Hwf Hlen3] Ht Hin [Hfit Hbody].
  unfold decode_sub, encode_sub.
  set (hb := to_bytes (h_bytes h) (pack (h_layout h) [s_v0 s; s_v1 s; s_app s])).
  set (cb := List.concat (map (fun c => encode_row (fst c) (snd c)) (s_body s))).
  assert (Hhb : List.length hb = h_bytes h) by apply length_to_bytes.
  assert (Hlt : Nat.ltb (List.length (hb ++ cb)) (h_bytes h) = false)
    by (apply Nat.ltb_ge; rewrite app_length; lia).
  rewrite Hlt, firstn_app_exact, skipn_app_exact by assumption.
  unfold hb. rewrite unpack_of_to_bytes by (apply wf_layout_ok; exact Hwf).
  rewrite (unpack_pack _ _ _ Hwf Hfit).
  subst cb.
  rewrite decode_cmds_encode.
  - destruct s; reflexivity.
  - assumption.
  - rewrite Forall_forall in *. rewrite forallb_forall in Hbody. intros c Hc. auto.
  - rewrite app_length.
    assert (forall b : list (row * list operand),
      (List.length b <= List.length (List.concat (map (fun c => encode_row (fst c) (snd c)) b)))%nat) as Hb.
    { induction b as [|c b IHb]; [cbn; lia|].
      cbn [map List.concat List.length]. rewrite app_length, length_encode_row.
      unfold CMD_BYTES. lia. }
    specialize (Hb (s_body s)). lia.
Qed.
