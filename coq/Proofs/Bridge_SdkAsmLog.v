(* Bridge_SdkAsmLog.v — the SDK link with C03's instrumented log: a finished
   Target run of flat code is reproduced by AsmSemQ on the translated
   proto-program AND none of the executed instructions is [bad]
   (Bridge_AsmQLog.bad: register outside the file, negative index / length / qubit
   id, branch on an undefined register) -- Target faults on all of those. *)
From Coq Require Import ZArith List Bool String Ascii Lia ZifyBool.
From NQ Require Sdk.SdkAst Sdk.Target.
From NQ Require Import Lang.Asm Lang.AsmSem Lang.AsmSemQ Lang.AsmQLog.
From NQ Require Import Exec.State Exec.SemQ.
From NQ Require Import Proofs.ExecProofs Proofs.BridgeCommon Proofs.Bridge_Asm Proofs.Bridge_AsmQ Proofs.Bridge_AsmQLog
  Proofs.Bridge_SdkAsm.
Import ListNotations.
Open Scope Z_scope.

Module G := NQ.Sdk.Target.
Module A := NQ.Sdk.SdkAst.

Section NotBad.
  Variables (ms : G.mst) (qa : qastate).
  Hypothesis L : lrel ms qa.

  Lemma ev_reg : forall r, reg_lt r = true -> eval_opnd (qa_st qa) (AV (t_reg r)) = OVal (Some (G.m_reg ms r)).
  Proof. intros r H. cbn [eval_opnd]. rewrite (rd_reg ms qa L r H). reflexivity. Qed.
  Lemma ev_rop : forall o, rop_lt o = true -> eval_opnd (qa_st qa) (AV (t_rop o)) = OVal (Some (G.rop_val ms o)).
  Proof. intros o H. cbn [eval_opnd]. rewrite (rd_rop ms qa L o H). reflexivity. Qed.
  Lemma ev_ent : forall a o, rop_lt o = true ->
    eval_opnd (qa_st qa) (AEntry a (t_rop o)) = OEnt a (Some (G.rop_val ms o)).
  Proof. intros a o H. cbn [eval_opnd]. rewrite (rd_rop ms qa L o H). reflexivity. Qed.

  Ltac evs := cbn [map]; rewrite ?ev_reg, ?ev_rop, ?ev_ent by assumption; cbn [eval_opnd AsmSem.rd].

  Lemma zidx_nonneg : forall o k, G.zidx o = Some k -> exists z, o = Some z /\ (z <? 0) = false.
  Proof. intros o k H. destruct (zidx_inv _ _ H) as (z & -> & Hz & _). exists z. split; [reflexivity|lia]. Qed.

  Lemma instr_not_bad : forall i ms' mn ops,
    G.exec_instr i ms = Some ms' -> t_instr i = Some (AIns mn [] ops) -> instr_ok i = true ->
    bad mn (map (eval_opnd (qa_st qa)) ops) = false.
  Proof.
    intros i ms' mn ops E T Hok.
    destruct i as [r z|o r|ax r n d|t r1 r2|q m|v a ix|r a ix|d x y|d x y m|n a|a|r|k];
      cbn [G.exec_instr] in E; cbn [instr_ok] in Hok; regs; cbn [t_instr] in T; try discriminate.
    - inversion T; subst. reflexivity.
    - destruct o as [| | |g]; inversion T; subst; clear T; unfold bad; try (destruct g; cbn [g1_name]); qk; evs.
      + (* qalloc *) destruct (G.zidx (G.m_reg ms r)) as [k|] eqn:Ez; [|discriminate].
        destruct (zidx_nonneg _ _ Ez) as (z & -> & Hz). cbn. rewrite Hz. reflexivity.
      + reflexivity.
      + (* qfree *) destruct (G.qid ms r) as [k|] eqn:Eq; [|discriminate].
        destruct (qid_inv _ _ _ Eq) as (z & -> & Hz & _ & _). cbn. replace (z <? 0) with false by lia. reflexivity.
      + reflexivity. + reflexivity. + reflexivity. + reflexivity. + reflexivity. + reflexivity. + reflexivity.
    - inversion T; subst. unfold bad. destruct ax; cbn [rot_name]; qk; evs; reflexivity.
    - inversion T; subst. unfold bad. destruct t; cbn [g2_name]; qk; evs; reflexivity.
    - inversion T; subst. unfold bad. qk. evs. reflexivity.
    - (* store *) inversion T; subst. unfold bad. qk. evs.
      destruct (G.m_arr ms a); [|discriminate]. destruct (G.zidx (G.rop_val ms ix)) as [k|] eqn:Ez; [|discriminate].
      destruct (zidx_nonneg _ _ Ez) as (z & -> & Hz). cbn. rewrite Hz. reflexivity.
    - (* load *) inversion T; subst. unfold bad. qk. evs.
      destruct (G.m_arr ms a); [|discriminate]. destruct (G.zidx (G.rop_val ms ix)) as [k|] eqn:Ez; [|discriminate].
      destruct (zidx_nonneg _ _ Ez) as (z & -> & Hz). cbn. rewrite Hz. reflexivity.
    - inversion T; subst. unfold bad. qk. evs. reflexivity.
    - inversion T; subst. unfold bad. qk. evs. reflexivity.
    - (* array *) inversion T; subst. unfold bad. qk. cbn. destruct (n <? 0); [discriminate|reflexivity].
    - inversion T; subst. reflexivity.
    - inversion T; subst. unfold bad. qk. evs. reflexivity.
  Qed.

  Lemma br_not_bad : forall cnd x y l b mn ops,
    rop_lt x = true -> rop_lt y = true -> G.holds_at cnd x y ms = Some b ->
    t_fcmd (G.FBr cnd x y l) = Some (AIns mn [] ops) ->
    bad mn (map (eval_opnd (qa_st qa)) ops) = false.
  Proof.
    intros cnd x y l b mn ops Hx Hy Hh T. unfold G.holds_at in Hh.
    destruct (G.rop_val ms x) as [vx|] eqn:Ex; [|destruct cnd; discriminate].
    destruct cnd; cbn [t_fcmd] in T; inversion T; subst; clear T; unfold bad; qk; evs; rewrite ?Ex;
      try (destruct (G.rop_val ms y) as [vy|] eqn:Ey; [|discriminate]); reflexivity.
  Qed.
End NotBad.

Lemma alog_q_lab : forall P pc l n qa, nth_error P pc = Some (ALab l) ->
  alog_q P (S n) (QRun pc qa) = alog_q P (S n) (QRun (S pc) qa).
Proof.
  intros P pc l n qa H. cbn [alog_q]. unfold fetch_entry, astep_q. rewrite (fetch_lab _ _ _ H). reflexivity.
Qed.

Lemma log_ok_cons : forall e l, bad (snd (fst e)) (snd e) = false -> log_ok l -> log_ok (e :: l).
Proof. intros e l He Hl x [<-|Hx]; [exact He|apply Hl; exact Hx]. Qed.

Section RunLog.
  Variables (cap : nat) (c : list G.fcmd) (P : list acmd).
  Hypothesis HP : t_prog c = Some P.
  Hypothesis Hok : code_ok cap c = true.

  (* frun_sim with the log: the AsmSemQ run of the source program executes no bad instruction *)
  Theorem frun_sim_log : forall fuel pc ms ms2 qa,
    G.frun fuel c (pc, ms) = Some ms2 -> lrel ms qa -> List.length (qa_um qa) = cap -> alloc_inv cap c pc ms ->
    exists n qa2, arun_q P n (QRun pc qa) = QHalted qa2 /\ lrel ms2 qa2 /\ List.length (qa_um qa2) = cap /\
                  log_ok (alog_q P n (QRun pc qa)).
  Proof.
    destruct (t_prog_nth _ _ HP) as [Hlen Hnth].
    induction fuel as [|f IH]; intros pc ms ms2 qa Hrun L Hcap AI; [discriminate|].
    cbn [G.frun fst snd] in Hrun.
    destruct (Nat.eqb pc (List.length c)) eqn:Epc.
    - apply Nat.eqb_eq in Epc. inversion Hrun; subst ms2. exists 1%nat, qa.
      assert (Hf : fetch P pc = None) by (apply fetch_none; apply nth_error_None; lia).
      split; [cbn [arun_q]; unfold astep_q; rewrite Hf; reflexivity|]. split; [assumption|]. split; [assumption|].
      cbn [alog_q]. unfold fetch_entry. rewrite Hf. intros e [].
    - destruct (G.fstep c (pc, ms)) as [[pc' ms']|] eqn:Est; [|discriminate].
      unfold G.fstep in Est. destruct (nth_error c pc) as [x|] eqn:Ex; [|discriminate].
      destruct (Hnth _ _ Ex) as (a & Ha & HPa).
      pose proof (proj1 (code_ok_from_nth _ _ _ Hok) _ _ Ex) as Hxok.
      destruct x as [i|cnd x y l|l|l].
      + destruct (G.exec_instr i ms) as [ms1|] eqn:Ei; [|discriminate]. inversion Est; subst pc' ms'.
        cbn [t_fcmd] in Ha. destruct (t_instr_shape _ _ Ha) as (mn & ops & ->).
        cbn [fcmd_ok] in Hxok.
        assert (Hal : forall r, i = G.IQ G.QAlloc r ->
                      exists z, G.m_reg ms r = Some z /\ 0 <= z < Z.of_nat (List.length (qa_um qa))).
        { intros r ->. rewrite Hcap. apply AI. exact Ex. }
        destruct (instr_sim i ms ms1 qa mn ops L Ei Ha Hxok Hal) as (qa1 & Hq & L1 & Hc1).
        pose proof (instr_not_bad ms qa L i ms1 mn ops Ei Ha Hxok) as Hnb.
        assert (AI1 : alloc_inv cap c (S pc) ms1).
        { eapply alloc_inv_next; [exact Hok|exact Ex|]. intros r z E. inversion E; subst i.
          cbn [G.exec_instr] in Ei. inversion Ei; subst ms1. apply set_reg_same. }
        destruct (IH (S pc) ms1 ms2 qa1 Hrun L1 ltac:(lia) AI1) as (n & qa2 & Hn & L2 & Hc2 & Hl2).
        exists (S n), qa2. split; [|split; [assumption|split; [assumption|]]].
        * cbn [arun_q]. unfold astep_q. rewrite (fetch_ins _ _ _ _ HPa), Hq. exact Hn.
        * cbn [alog_q]. unfold fetch_entry, astep_q. rewrite (fetch_ins _ _ _ _ HPa), Hq.
          apply log_ok_cons; [exact Hnb|exact Hl2].
      + cbn [fcmd_ok] in Hxok. apply andb_prop in Hxok. destruct Hxok as [Hx Hy].
        destruct (G.holds_at cnd x y ms) as [b|] eqn:Eh; [|discriminate].
        destruct (br_sim ms qa cnd x y l b a L Hx Hy Eh Ha) as (mn & ops & -> & Hq).
        pose proof (br_not_bad ms qa L cnd x y l b mn ops Hx Hy Eh Ha) as Hnb.
        destruct b.
        * destruct (G.find_lab l c 0) as [p|] eqn:Ef; [|discriminate]. inversion Est; subst pc' ms'.
          destruct (find_lab_is_lab _ _ _ _ Ef) as [_ Hp]. rewrite Nat.sub_0_r in Hp.
          destruct (IH p ms ms2 _ Hrun (lrel_idle _ _ L) Hcap (alloc_inv_after_lab cap c _ _ _ Hp))
            as (n & qa2 & Hn & L2 & Hc2 & Hl2).
          pose proof (label_pos_find c P l 0 HP) as Hlp. rewrite Ef in Hlp.
          destruct (label_pos P (lab_name l)) as [p'|] eqn:Elp; [|discriminate]. cbn in Hlp. inversion Hlp; subst p'.
          exists (S n), qa2. split; [|split; [assumption|split; [assumption|]]].
          -- cbn [arun_q]. unfold astep_q. rewrite (fetch_ins _ _ _ _ HPa), Hq. cbn [target]. rewrite Elp. exact Hn.
          -- cbn [alog_q]. unfold fetch_entry, astep_q. rewrite (fetch_ins _ _ _ _ HPa), Hq. cbn [target]. rewrite Elp.
             apply log_ok_cons; [exact Hnb|exact Hl2].
        * inversion Est; subst pc' ms'.
          assert (AI1 : alloc_inv cap c (S pc) ms)
            by (eapply alloc_inv_next; [exact Hok|exact Ex|]; intros; discriminate).
          destruct (IH (S pc) ms ms2 _ Hrun (lrel_idle _ _ L) Hcap AI1) as (n & qa2 & Hn & L2 & Hc2 & Hl2).
          exists (S n), qa2. split; [|split; [assumption|split; [assumption|]]].
          -- cbn [arun_q]. unfold astep_q. rewrite (fetch_ins _ _ _ _ HPa), Hq. exact Hn.
          -- cbn [alog_q]. unfold fetch_entry, astep_q. rewrite (fetch_ins _ _ _ _ HPa), Hq.
             apply log_ok_cons; [exact Hnb|exact Hl2].
      + destruct (G.find_lab l c 0) as [p|] eqn:Ef; [|discriminate]. inversion Est; subst pc' ms'.
        cbn [t_fcmd] in Ha. inversion Ha; subst a.
        destruct (find_lab_is_lab _ _ _ _ Ef) as [_ Hp]. rewrite Nat.sub_0_r in Hp.
        destruct (IH p ms ms2 _ Hrun (lrel_idle _ _ L) Hcap (alloc_inv_after_lab cap c _ _ _ Hp))
          as (n & qa2 & Hn & L2 & Hc2 & Hl2).
        pose proof (label_pos_find c P l 0 HP) as Hlp. rewrite Ef in Hlp.
        destruct (label_pos P (lab_name l)) as [p'|] eqn:Elp; [|discriminate]. cbn in Hlp. inversion Hlp; subst p'.
        exists (S n), qa2. split; [|split; [assumption|split; [assumption|]]].
        * cbn [arun_q]. unfold astep_q. rewrite (fetch_ins _ _ _ _ HPa), jmp_sim. cbn [target]. rewrite Elp. exact Hn.
        * cbn [alog_q]. unfold fetch_entry, astep_q. rewrite (fetch_ins _ _ _ _ HPa), jmp_sim. cbn [target]. rewrite Elp.
          apply log_ok_cons; [reflexivity|exact Hl2].
      + inversion Est; subst pc' ms'. cbn [t_fcmd] in Ha. inversion Ha; subst a.
        assert (AI1 : alloc_inv cap c (S pc) ms)
          by (eapply alloc_inv_next; [exact Hok|exact Ex|]; intros; discriminate).
        destruct (IH (S pc) ms ms2 qa Hrun L Hcap AI1) as (n & qa2 & Hn & L2 & Hc2 & Hl2).
        destruct n as [|n]; [cbn in Hn; discriminate|].
        exists (S n), qa2. split; [|split; [assumption|split; [assumption|]]].
        * rewrite (arun_q_lab _ _ _ _ _ HPa). exact Hn.
        * rewrite (alog_q_lab _ _ _ _ _ HPa). exact Hl2.
  Qed.
End RunLog.
