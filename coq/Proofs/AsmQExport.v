(* AsmQExport.v — C03, the simulation of Proofs/AsmQProofs.v exported at
   INSTRUCTION level.  Lang/AsmQLog.v instruments a run of the event interpreter
   with the list of executed instructions (line, mnemonic, operand VALUES).  Here:
   the log of the assembled program is the log of the source program with, in
   front of every entry, the inserted `set`s of that instruction; the entry
   itself sits at the last line of its block, has the same mnemonic and the same
   operand values, except that a label has become the line of its position.
   Consequence (`assemble_no_bad_q`): any predicate on (mnemonic, operand values)
   that is never true of a `set` and is insensitive to label resolution and that
   no executed source instruction satisfies is satisfied by no executed
   instruction of the assembled program. *)
From Coq Require Import ZArith List Bool String Lia.
From NQ Require Import Lang.Asm Lang.AsmSem Lang.AsmSemQ Lang.AsmQLog.
From NQ Require Import Proofs.AsmProofs Proofs.AsmQProofs.
Import ListNotations.
Open Scope Z_scope.

(* ====================================================================== *)
(* 1. the log function                                                    *)
(* ====================================================================== *)

Lemma src_line_last pr P k : src_line pr P k = last_line pr P k.
Proof. reflexivity. Qed.

Lemma alog_q_terminal P n c : (forall pc s, c <> QRun pc s) -> alog_q P n c = [].
Proof.
  intros H. destruct n; [reflexivity|]. destruct c; try reflexivity. exfalso. eapply H. reflexivity.
Qed.

Lemma fetch_entry_none P pc s : fetch_entry P pc s = None -> astep_q P pc s = QHalted s.
Proof.
  unfold fetch_entry, astep_q. destruct (fetch P pc) as [[[k mn] ops]|]; [discriminate|reflexivity].
Qed.

(* the log of a + b steps: the log of the first a, then the log of b more *)
Lemma alog_q_add P a b c :
  alog_q P (a + b) c = (alog_q P a c ++ alog_q P b (arun_q P a c))%list.
Proof.
  revert c. induction a as [|a IH]; intros c; [reflexivity|].
  destruct c as [pc s|s|k s|k s].
  - cbn [Nat.add alog_q arun_q]. destruct (fetch_entry P pc s) as [e|] eqn:E.
    + rewrite IH. reflexivity.
    + rewrite (fetch_entry_none _ _ _ E).
      rewrite arun_q_terminal by (intros; discriminate).
      rewrite alog_q_terminal by (intros; discriminate). reflexivity.
  - cbn [Nat.add alog_q arun_q app]. symmetry. apply alog_q_terminal. intros; discriminate.
  - cbn [Nat.add alog_q arun_q app]. symmetry. apply alog_q_terminal. intros; discriminate.
  - cbn [Nat.add alog_q arun_q app]. symmetry. apply alog_q_terminal. intros; discriminate.
Qed.

(* an entry of a log is an instruction of the program, at the recorded position,
   with one value per operand *)
Lemma alog_q_nth P : forall n c k mn vs,
  In (k, mn, vs) (alog_q P n c) ->
  exists args ops, nth_error P k = Some (AIns mn args ops) /\
                   List.length vs = List.length (all_ops args ops).
Proof.
  induction n as [|n IH]; intros c k mn vs Hin; [contradiction|].
  destruct c as [pc s|s|k0 s|k0 s]; try contradiction.
  cbn [alog_q] in Hin. unfold fetch_entry in Hin.
  pose proof (fetch_pcmap (mkAP 0 0 []) [] P pc) as Hf.
  destruct (fetch P pc) as [[[k1 mn1] ops1]|]; [|contradiction].
  destruct Hin as [E|Hin].
  - injection E as -> -> <-. destruct Hf as [[args [ops0 [Hk ->]]] _].
    exists args, ops0. split; [exact Hk|apply map_length].
  - eapply IH. exact Hin.
Qed.

(* the number of entries never exceeds the number of steps *)
Lemma alog_q_length P : forall n c, (List.length (alog_q P n c) <= n)%nat.
Proof.
  induction n as [|n IH]; intros c; [cbn [alog_q List.length]; lia|].
  destruct c as [pc s|s|k s|k s]; cbn [alog_q List.length]; try lia.
  destruct (fetch_entry P pc s) as [e|]; cbn [List.length]; [|lia].
  specialize (IH (astep_q P pc s)). lia.
Qed.

(* ====================================================================== *)
(* 2. log_rel                                                             *)
(* ====================================================================== *)

Lemma log_rel_app pr P ls lt ls' lt' :
  log_rel pr P ls lt -> log_rel pr P ls' lt' -> log_rel pr P (ls ++ ls')%list (lt ++ lt')%list.
Proof.
  intros H H'. induction H as [|k mn vs vs' sets ls lt Hs Hv H IH]; [exact H'|].
  rewrite <- app_assoc. cbn [app]. apply LR_step; assumption.
Qed.

(* what log_rel says about the entries of the target log *)
Lemma log_rel_In pr P ls lt : log_rel pr P ls lt ->
  forall e, In e lt ->
  is_set_entry e \/
  exists k mn vs vs', In (k, mn, vs) ls /\ e = (src_line pr P k, mn, vs') /\ Forall2 (oval_rel pr P) vs vs'.
Proof.
  intros H. induction H as [|k mn vs vs' sets ls lt Hs Hv H IH]; intros e Hin; [contradiction|].
  apply in_app_or in Hin as [Hin|[<-|Hin]].
  - left. rewrite Forall_forall in Hs. apply Hs. exact Hin.
  - right. exists k, mn, vs, vs'. split; [left; reflexivity|]. split; [reflexivity|exact Hv].
  - destruct (IH e Hin) as [Hl|[k0 [mn0 [vs0 [vs0' [H1 [H2 H3]]]]]]]; [left; exact Hl|].
    right. exists k0, mn0, vs0, vs0'. split; [right; exact H1|]. split; [exact H2|exact H3].
Qed.

(* the source log is the target log without the inserted sets: same length, same mnemonics *)
Lemma log_rel_length pr P ls lt : log_rel pr P ls lt -> (List.length ls <= List.length lt)%nat.
Proof.
  intros H. induction H as [|k mn vs vs' sets ls lt Hs Hv H IH]; [cbn [List.length]; lia|].
  rewrite app_length. cbn [List.length]. lia.
Qed.

(* "nothing bad was executed" transfers along log_rel *)
Lemma log_rel_no_bad pr P (bad : string -> list oval -> bool) ls lt :
  (forall vs, bad SET vs = false) ->
  (forall mn vs vs', Forall2 (oval_rel pr P) vs vs' -> bad mn vs' = true -> bad mn vs = true) ->
  log_rel pr P ls lt ->
  (forall e, In e ls -> bad (snd (fst e)) (snd e) = false) ->
  (forall e, In e lt -> bad (snd (fst e)) (snd e) = false).
Proof.
  intros Hset Hres Hlog Hsrc e Hin.
  destruct (log_rel_In pr P ls lt Hlog e Hin) as [Hs|[k [mn [vs [vs' [H1 [-> H3]]]]]]].
  - unfold is_set_entry in Hs. rewrite Hs. apply Hset.
  - cbn [fst snd]. destruct (bad mn vs') eqn:Hb; [|reflexivity].
    pose proof (Hres mn vs vs' H3 Hb) as Hb'.
    specialize (Hsrc _ H1). cbn [fst snd] in Hsrc. congruence.
Qed.

(* ====================================================================== *)
(* 3. operand values of related operands                                  *)
(* ====================================================================== *)

Lemma osim_oval pr P tbl ss st o o' :
  (forall l, tbl_find tbl l = option_map (pcmap pr P) (label_pos P l)) ->
  osim tbl ss st o o' -> oval_rel pr P (eval_opnd ss o) (eval_opnd st o').
Proof.
  intros Hfind H.
  destruct H as [v v' [Hv _]|l|a|a v v' [Hv _]|a v1 v1' v2 v2' [H1 _] [H2 _]].
  - left. cbn [eval_opnd]. rewrite Hv. reflexivity.
  - right. exists l. split; [reflexivity|]. cbn [resolve_opnd]. rewrite Hfind.
    destruct (label_pos P l) as [j|]; cbn [option_map eval_opnd rd]; reflexivity.
  - left. reflexivity.
  - left. cbn [eval_opnd]. rewrite Hv. reflexivity.
  - left. cbn [eval_opnd]. rewrite H1, H2. reflexivity.
Qed.

Lemma osim_oval_all pr P tbl ss st ops ops' :
  (forall l, tbl_find tbl l = option_map (pcmap pr P) (label_pos P l)) ->
  Forall2 (osim tbl ss st) ops ops' ->
  Forall2 (oval_rel pr P) (map (eval_opnd ss) ops) (map (eval_opnd st) ops').
Proof.
  intros Hfind H. induction H as [|o o' l l' Ho H IH]; cbn [map]; constructor; [|exact IH].
  eapply osim_oval; eassumption.
Qed.

(* ====================================================================== *)
(* 4. the log of the inserted sets                                        *)
(* ====================================================================== *)

Lemma log_sets_q T ps : forallb is_ins T = true ->
  forall base s,
  (forall i, (i < List.length ps)%nat -> nth_error T (base + i) = nth_error (map setc ps) i) ->
  Forall (fun p => reg_ok (fst (fst p)) (snd (fst p)) = true) ps ->
  Forall is_set_entry (alog_q T (List.length ps) (QRun base s)) /\
  List.length (alog_q T (List.length ps) (QRun base s)) = List.length ps.
Proof.
  intros HT. induction ps as [|p ps IH]; intros base s Hnth Hok.
  - cbn [List.length alog_q]. split; [constructor|reflexivity].
  - inversion Hok as [|? ? Hp Hok']; subst. destruct p as [[b i] z]. cbn [fst snd] in Hp.
    cbn [List.length alog_q]. unfold fetch_entry, astep_q. rewrite (fetch_nolab T HT).
    pose proof (Hnth O ltac:(cbn [List.length]; lia)) as H0. rewrite Nat.add_0_r in H0.
    rewrite H0. cbn [map nth_error setc set_cmd all_ops app fst snd].
    rewrite (exec_q_set b i z s Hp).
    destruct (IH (S base)
                 (mkQA (mkSt (upd_reg (s_regs (qa_st s)) (b, i) z) (s_mem (qa_st s)))
                       (qa_um s) (qa_script s) (qa_trace s))) as [IH1 IH2].
    + intros j Hj. specialize (Hnth (S j) ltac:(cbn [List.length]; lia)).
      replace (S base + j)%nat with (base + S j)%nat by lia. rewrite Hnth. reflexivity.
    + exact Hok'.
    + split; [constructor; [reflexivity|exact IH1]|].
      cbn [List.length]. rewrite IH2. reflexivity.
Qed.

(* ====================================================================== *)
(* 5. the simulation with logs                                            *)
(* ====================================================================== *)

Section SimLog.
  Variables (pr : aparams) (P T : list acmd).
  Hypothesis Hpar : params_ok pr = true.
  Hypothesis Hqex : qexempt_ok (ap_exempt pr) = true.
  Hypothesis Hwf : wf_src_q P = true.
  Hypothesis Hasm : assemble_ir pr P = AOk T.

  (* one source step (step_sim_q) together with what both sides log *)
  Lemma step_sim_x pc ss st :
    eqv_q pr (named P) ss st ->
    exists m, (1 <= m)%nat
      /\ cfg_rel_q pr P (astep_q P pc ss) (arun_q T m (QRun (pcmap pr P pc) st))
      /\ log_rel pr P (alog_q P 1 (QRun pc ss)) (alog_q T m (QRun (pcmap pr P pc) st)).
  Proof.
    intros Heq.
    destruct (assemble_struct _ _ _ Hasm) as [tbl [Htbl [HT HF]]].
    pose proof (table_is_pcmap _ _ _ Htbl HF) as Hfind.
    pose proof Hwf as Hwf'.
    set (nm := named P) in *.
    assert (HTnl : forallb is_ins T = true) by (rewrite HT; apply blocks_nolab).
    assert (HTlen : List.length T = pcmap_from pr nm P (List.length P))
      by (rewrite HT; apply length_blocks; exact HF).
    cbn [alog_q]. unfold fetch_entry. unfold astep_q at 1.
    pose proof (fetch_pcmap pr nm P pc) as Hf.
    destruct (fetch P pc) as [[[k mn] ops]|].
    2:{ (* no instruction left: both halt, nothing is logged *)
      exists 1%nat. split; [lia|]. cbn [arun_q alog_q]. unfold fetch_entry, astep_q.
      rewrite (fetch_nolab T HTnl).
      unfold pcmap. fold nm. rewrite Hf, <- HTlen.
      assert (Hn : nth_error T (List.length T) = None) by (apply nth_error_None; lia).
      rewrite Hn. cbn [cfg_rel_q]. split; [exact Heq|constructor]. }
    destruct Hf as [[args [ops0 [Hk ->]]] Hpc].
    assert (Hok : cmd_ok pr nm (AIns mn args ops0)).
    { rewrite Forall_forall in HF. apply HF. eapply nth_error_In. exact Hk. }
    cbn [cmd_ok] in Hok.
    destruct (repl_ops pr nm mn 0 (all_ops args ops0) []) as [[[s ops'] tmp]|] eqn:Hr; [|congruence].
    destruct (repl_ops_spec _ _ _ _ _ _ _ _ _ Hr (good_tmp_nil pr nm)) as [ps [-> [Htmp [[Hnd Hsc] Hrel]]]].
    cbn [app] in Htmp. subst tmp.
    assert (Hblk : blk pr nm tbl (AIns mn args ops0) = map setc ps ++ [AIns mn [] (map (resolve_opnd tbl) ops')])
      by (cbn [blk]; rewrite Hr; reflexivity).
    assert (Hns : nsets pr nm (AIns mn args ops0) = List.length ps)
      by (cbn [nsets]; rewrite Hr, map_length; reflexivity).
    set (base := pcmap_from pr nm P k) in *.
    assert (Hnth : forall i, (i <= List.length ps)%nat ->
              nth_error T (base + i) = nth_error (map setc ps ++ [AIns mn [] (map (resolve_opnd tbl) ops')]) i).
    { intros i Hi. rewrite HT, <- Hblk. apply nth_block; [exact HF|exact Hk|].
      rewrite Hblk, app_length, map_length. cbn [List.length]. lia. }
    (* the sets *)
    set (sta' := apply_sets ps (qa_st st)).
    set (st' := mkQA sta' (qa_um st) (qa_script st) (qa_trace st)).
    assert (Hnth1 : forall i, (i < List.length ps)%nat -> nth_error T (base + i) = nth_error (map setc ps) i).
    { intros i Hi. rewrite (Hnth i ltac:(lia)). apply nth_error_app1. rewrite map_length. exact Hi. }
    assert (Hregok : Forall (fun p : reg * Z => reg_ok (fst (fst p)) (snd (fst p)) = true) ps).
    { rewrite Forall_forall. intros [r z] Hin. cbn [fst].
      apply (scratch_reg_ok pr nm r Hpar). rewrite Forall_forall in Hsc. apply Hsc.
      apply in_map_iff. exists (r, z). auto. }
    assert (Hrun : arun_q T (List.length ps) (QRun base st) = QRun (base + List.length ps) st').
    { unfold st', sta'. apply run_sets_q; [exact HTnl|exact Hnth1|exact Hregok]. }
    destruct (log_sets_q T ps HTnl base st Hnth1 Hregok) as [Hlsets _].
    destruct Heq as [He [Hum [Hscr Htr]]].
    assert (HeA : eqv pr nm (qa_st ss) sta').
    { destruct He as [Hm Hregs]. split.
      - unfold sta'. rewrite apply_sets_mem. exact Hm.
      - intros r Hr'. unfold sta'. rewrite apply_sets_other; [apply Hregs; exact Hr'|].
        intros Hin. apply Hr'. rewrite Forall_forall in Hsc. apply Hsc. exact Hin. }
    assert (He' : eqv_q pr nm ss st').
    { unfold eqv_q, st'. cbn [qa_st qa_um qa_script qa_trace]. auto. }
    assert (Hps : forall r z, In (r, z) ps -> reg_ok (fst r) (snd r) = true /\ s_regs sta' r = Some z).
    { intros r z Hin. split.
      - apply (scratch_reg_ok pr nm r Hpar). rewrite Forall_forall in Hsc. apply Hsc.
        apply in_map_iff. exists (r, z). auto.
      - unfold sta'. apply apply_sets_in; assumption. }
    (* the instruction itself *)
    assert (Hfetch' : fetch T (base + List.length ps) =
                      Some ((base + List.length ps)%nat, mn, map (resolve_opnd tbl) ops')).
    { rewrite (fetch_nolab T HTnl), (Hnth (List.length ps) (le_n _)).
      rewrite nth_error_app2 by (rewrite map_length; lia).
      rewrite map_length, Nat.sub_diag. reflexivity. }
    assert (Hbase : pcmap pr P pc = base).
    { unfold pcmap. fold nm. symmetry. exact Hpc. }
    assert (Hnamed : forall r, In r (flat_map regs_of_opnd (all_ops args ops0)) -> ~ scratch pr nm r).
    { intros r Hin [_ [_ Hni]]. apply Hni. eapply regs_in_named; eassumption. }
    assert (Hshape : cmd_shape_q (AIns mn [] (all_ops args ops0)) = true).
    { unfold wf_src_q in Hwf'. rewrite forallb_forall in Hwf'.
      change (cmd_shape_q (AIns mn args ops0) = true). apply Hwf'. eapply nth_error_In. exact Hk. }
    assert (Hdst : forall b i, In (AV (VReg b i)) (all_ops args ops0) -> ~ scratch pr nm (b, i)).
    { intros b i Hin. apply Hnamed. apply in_flat_map. exists (AV (VReg b i)).
      split; [exact Hin|left; reflexivity]. }
    assert (Hkeep : forall j z, is_exempt (ap_exempt pr) mn j = true ->
              nth_error (all_ops args ops0) j = Some (AV (VLit z)) ->
              nth_error (map (resolve_opnd tbl) ops') j = Some (AV (VLit z))).
    { intros j z Hj Hn. destruct (ops_rel_nth _ _ _ _ _ _ _ _ Hrel Hn) as [o' [E1 E2]].
      cbn [Nat.add op_rel] in E2. rewrite Hj in E2. subst o'.
      rewrite nth_error_map, E1. reflexivity. }
    pose proof (ops_rel_osim pr nm tbl ps (qa_st ss) sta' HeA Hps _ _ _ _ _ Hrel Hnamed) as Hosim.
    pose proof (exec_q_rel pr nm tbl mn (all_ops args ops0) (map (resolve_opnd tbl) ops') ss st'
                  Hqex Hshape Hosim He' Hdst Hkeep) as Hexec.
    assert (Hlast : last_line pr P k = (base + List.length ps)%nat).
    { unfold last_line, pcmap. fold nm. fold base. rewrite Hk, Hns. reflexivity. }
    assert (HS : pcmap pr P (S k) = S (base + List.length ps)).
    { unfold pcmap. fold nm. rewrite (pcmap_from_S _ _ _ _ _ Hk). fold base. cbn [bsize]. rewrite Hns. lia. }
    exists (List.length ps + 1)%nat. split; [lia|].
    rewrite Hbase, arun_q_add, alog_q_add, Hrun. cbn [arun_q alog_q].
    unfold fetch_entry, astep_q. rewrite Hfetch'.
    split.
    - (* configurations: as in step_sim_q *)
      destruct (exec_q mn (all_ops args ops0) ss) as [x|t x| |];
        destruct (exec_q mn (map (resolve_opnd tbl) ops') st') as [y|t' y| |];
        cbn [qeres_rel] in Hexec; try contradiction.
      + cbn [cfg_rel_q]. split; [symmetry; exact HS|exact Hexec].
      + destruct Hexec as [Hxy [-> Hlab]]. apply is_label_inv in Hlab as [l ->].
        cbn [target resolve_opnd]. rewrite Hfind.
        destruct (label_pos P l) as [j|]; cbn [option_map target].
        * assert (H0 : (0 <=? Z.of_nat (pcmap pr P j)) = true) by (apply Z.leb_le; lia).
          rewrite H0, Nat2Z.id. cbn [cfg_rel_q]. split; [reflexivity|exact Hxy].
        * rewrite (label_pos_nolab T l HTnl). cbn [cfg_rel_q]. split; [symmetry; exact Hlast|exact He'].
      + cbn [cfg_rel_q]. split; [symmetry; exact Hlast|exact He'].
      + cbn [cfg_rel_q]. split; [symmetry; exact Hlast|exact He'].
    - (* logs: the sets, then the instruction with related operand values *)
      rewrite <- Hlast. change (last_line pr P k) with (src_line pr P k).
      apply (LR_step pr P k mn _ _ _ [] []); [exact Hlsets| |constructor].
      unfold st'. cbn [qa_st].
      apply (osim_oval_all pr P tbl); [exact Hfind|exact Hosim].
  Qed.

  Lemma sim_steps_x : forall n a b,
    cfg_rel_q pr P a b ->
    exists m, (n <= m)%nat
      /\ cfg_rel_q pr P (arun_q P n a) (arun_q T m b)
      /\ log_rel pr P (alog_q P n a) (alog_q T m b).
  Proof.
    induction n as [|n IH]; intros a b Hab.
    - exists O. split; [lia|]. split; [exact Hab|constructor].
    - destruct a as [pc ss|ss|k ss|k ss]; destruct b as [pc' st|st|k' st|k' st]; cbn [cfg_rel_q] in Hab; try contradiction.
      + destruct Hab as [-> He]. destruct (step_sim_x pc ss st He) as [m1 [Hm1 [Hrel Hlog]]].
        destruct (IH _ _ Hrel) as [m2 [Hm2 [Hrel2 Hlog2]]].
        exists (m1 + m2)%nat. split; [lia|]. split.
        * cbn [arun_q]. rewrite arun_q_add. exact Hrel2.
        * change (S n) with (1 + n)%nat. rewrite (alog_q_add P 1 n), (alog_q_add T m1 m2).
          apply log_rel_app; [exact Hlog|]. cbn [arun_q]. exact Hlog2.
      + exists (S n). split; [lia|]. cbn [arun_q alog_q cfg_rel_q]. split; [exact Hab|constructor].
      + exists (S n). split; [lia|]. cbn [arun_q alog_q cfg_rel_q]. split; [exact Hab|constructor].
      + exists (S n). split; [lia|]. cbn [arun_q alog_q cfg_rel_q]. split; [exact Hab|constructor].
  Qed.
End SimLog.

(* ====================================================================== *)
(* 6. the exported statements                                             *)
(* ====================================================================== *)

(* C03 at instruction level: for every well-formed source program the assembler
   accepts, every start state and every number n of source steps, the assembled
   program reaches after some m >= n steps the corresponding configuration
   (assemble_simulates_q) AND the instructions it has executed are exactly the
   executed source instructions, in order, each at the last line of its block
   with the same mnemonic and the same operand values (a label resolved to the
   line of its position), preceded by the inserted sets of its block. *)
Theorem assemble_log_q pr P T :
  params_ok pr = true -> qexempt_ok (ap_exempt pr) = true ->
  wf_src_q P = true -> assemble_ir pr P = AOk T ->
  forall n ss st, eqv_q pr (named P) ss st ->
  exists m, (n <= m)%nat
    /\ cfg_rel_q pr P (arun_q P n (QRun 0 ss)) (arun_q T m (QRun 0 st))
    /\ log_rel pr P (alog_q P n (QRun 0 ss)) (alog_q T m (QRun 0 st)).
Proof.
  intros Hpar Hqex Hwf Hasm n ss st He.
  apply (sim_steps_x pr P T Hpar Hqex Hwf Hasm n (QRun 0 ss) (QRun 0 st)).
  cbn [cfg_rel_q]. split; [unfold pcmap; destruct P; reflexivity|exact He].
Qed.

(* transfer of "nothing bad was executed": a predicate on (mnemonic, operand
   values) that is never true of a `set` and that cannot become true by replacing
   a label with its line transfers from the source run to the assembled run *)
Corollary assemble_no_bad_q pr P T (bad : string -> list oval -> bool) :
  params_ok pr = true -> qexempt_ok (ap_exempt pr) = true ->
  wf_src_q P = true -> assemble_ir pr P = AOk T ->
  (forall vs, bad SET vs = false) ->
  (forall mn vs vs', Forall2 (oval_rel pr P) vs vs' -> bad mn vs' = true -> bad mn vs = true) ->
  forall n ss st, eqv_q pr (named P) ss st ->
  (forall e, In e (alog_q P n (QRun 0 ss)) -> bad (snd (fst e)) (snd e) = false) ->
  exists m, (n <= m)%nat
    /\ cfg_rel_q pr P (arun_q P n (QRun 0 ss)) (arun_q T m (QRun 0 st))
    /\ (forall e, In e (alog_q T m (QRun 0 st)) -> bad (snd (fst e)) (snd e) = false).
Proof.
  intros Hpar Hqex Hwf Hasm Hset Hres n ss st He Hsrc.
  destruct (assemble_log_q pr P T Hpar Hqex Hwf Hasm n ss st He) as [m [Hm [Hrel Hlog]]].
  exists m. split; [exact Hm|]. split; [exact Hrel|].
  exact (log_rel_no_bad pr P bad _ _ Hset Hres Hlog Hsrc).
Qed.

(* the halting case in the shape the end-to-end chain uses *)
Corollary assemble_halts_no_bad_q pr P T (bad : string -> list oval -> bool) :
  params_ok pr = true -> qexempt_ok (ap_exempt pr) = true ->
  wf_src_q P = true -> assemble_ir pr P = AOk T ->
  (forall vs, bad SET vs = false) ->
  (forall mn vs vs', Forall2 (oval_rel pr P) vs vs' -> bad mn vs' = true -> bad mn vs = true) ->
  forall n ss st s, eqv_q pr (named P) ss st ->
  arun_q P n (QRun 0 ss) = QHalted s ->
  (forall e, In e (alog_q P n (QRun 0 ss)) -> bad (snd (fst e)) (snd e) = false) ->
  exists m t, arun_q T m (QRun 0 st) = QHalted t /\ eqv_q pr (named P) s t
    /\ (forall e, In e (alog_q T m (QRun 0 st)) -> bad (snd (fst e)) (snd e) = false).
Proof.
  intros Hpar Hqex Hwf Hasm Hset Hres n ss st s He Hs Hsrc.
  destruct (assemble_no_bad_q pr P T bad Hpar Hqex Hwf Hasm Hset Hres n ss st He Hsrc) as [m [_ [Hrel Hbad]]].
  rewrite Hs in Hrel.
  destruct (arun_q T m (QRun 0 st)) as [pc0 t|t|k t|k t] eqn:Ht; cbn [cfg_rel_q] in Hrel; try contradiction.
  exists m, t. split; [exact Ht|]. split; [exact Hrel|exact Hbad].
Qed.

(* every executed instruction of an assembled program is a line of it *)
Corollary assemble_log_lines pr P T :
  assemble_ir pr P = AOk T ->
  forall m c k mn vs, In (k, mn, vs) (alog_q T m c) ->
  exists ops, nth_error T k = Some (AIns mn [] ops) /\ List.length vs = List.length ops.
Proof.
  intros Hasm m c k mn vs Hin.
  destruct (assemble_struct _ _ _ Hasm) as [tbl [_ [HT _]]].
  destruct (alog_q_nth T m c k mn vs Hin) as [args [ops [Hk Hl]]].
  pose proof (blocks_noargs pr (named P) tbl P) as Hna. rewrite <- HT in Hna.
  rewrite Forall_forall in Hna. specialize (Hna _ (nth_error_In _ _ Hk)). cbn beta iota in Hna. subst args.
  exists ops. split; [exact Hk|exact Hl].
Qed.

(* ====================================================================== *)
(* 7. the hypotheses are satisfiable and the logs are what one expects:    *)
(*    a literal operand (materialised by an inserted set), a label, a loop *)
(*    of two passes                                                        *)
(* ====================================================================== *)

Local Open Scope string_scope.
Definition exl_prog : list acmd :=
  [ AIns "set" [] [AV (VReg 2 0); AV (VLit 0)];
    ALab "L";
    AIns "add" [] [AV (VReg 2 0); AV (VReg 2 0); AV (VLit 1)];
    AIns "blt" [] [AV (VReg 2 0); AV (VLit 2); ALabel "L"];
    AIns "ret_reg" [] [AV (VReg 2 0)] ].

Definition exl_src_log : list xentry :=
  [ (0%nat, "set", [OVal (Some None); OVal (Some (Some 0))]);
    (2%nat, "add", [OVal (Some (Some 0)); OVal (Some (Some 0)); OVal (Some (Some 1))]);
    (3%nat, "blt", [OVal (Some (Some 1)); OVal (Some (Some 2)); OLab "L"]);
    (2%nat, "add", [OVal (Some (Some 1)); OVal (Some (Some 1)); OVal (Some (Some 1))]);
    (3%nat, "blt", [OVal (Some (Some 2)); OVal (Some (Some 2)); OLab "L"]);
    (4%nat, "ret_reg", [OVal (Some (Some 2))]) ].

(* lines 1 and 3 of the assembled program are the inserted sets of `add` and `blt`;
   the label L (source position 1) has become line 1 *)
Definition exl_tgt_log : list xentry :=
  [ (0%nat, "set", [OVal (Some None); OVal (Some (Some 0))]);
    (1%nat, "set", [OVal (Some None); OVal (Some (Some 1))]);
    (2%nat, "add", [OVal (Some (Some 0)); OVal (Some (Some 0)); OVal (Some (Some 1))]);
    (3%nat, "set", [OVal (Some (Some 1)); OVal (Some (Some 2))]);
    (4%nat, "blt", [OVal (Some (Some 1)); OVal (Some (Some 2)); OVal (Some (Some 1))]);
    (1%nat, "set", [OVal (Some (Some 2)); OVal (Some (Some 1))]);
    (2%nat, "add", [OVal (Some (Some 1)); OVal (Some (Some 1)); OVal (Some (Some 1))]);
    (3%nat, "set", [OVal (Some (Some 1)); OVal (Some (Some 2))]);
    (4%nat, "blt", [OVal (Some (Some 2)); OVal (Some (Some 2)); OVal (Some (Some 1))]);
    (5%nat, "ret_reg", [OVal (Some (Some 2))]) ].
Local Close Scope string_scope.

Example assemble_log_example :
  params_ok exq_params = true /\ qexempt_ok (ap_exempt exq_params) = true /\ wf_src_q exl_prog = true /\
  exists T,
    assemble_ir exq_params exl_prog = AOk T /\ List.length T = 6%nat /\
    (exists s, arun_q exl_prog 7 (QRun 0 (init_qstate 0 [])) = QHalted s) /\
    (exists t, arun_q T 11 (QRun 0 (init_qstate 0 [])) = QHalted t) /\
    alog_q exl_prog 7 (QRun 0 (init_qstate 0 [])) = exl_src_log /\
    alog_q T 11 (QRun 0 (init_qstate 0 [])) = exl_tgt_log /\
    log_rel exq_params exl_prog exl_src_log exl_tgt_log /\
    map (fun e : xentry => snd (fst e))
        (filter (fun e : xentry => negb (Nat.eqb (fst (fst e)) 1 || Nat.eqb (fst (fst e)) 3)) exl_tgt_log)
    = map (fun e : xentry => snd (fst e)) exl_src_log.
Proof.
  split; [vm_compute; reflexivity|]. split; [vm_compute; reflexivity|]. split; [vm_compute; reflexivity|].
  eexists. split; [vm_compute; reflexivity|]. split; [vm_compute; reflexivity|].
  split; [eexists; vm_compute; reflexivity|]. split; [eexists; vm_compute; reflexivity|].
  split; [vm_compute; reflexivity|]. split; [vm_compute; reflexivity|].
  split; [|vm_compute; reflexivity].
  assert (Hset : forall e : xentry, snd (fst e) = SET -> Forall is_set_entry [e])
    by (intros e He; constructor; [exact He|constructor]).
  assert (Hlab : oval_rel exq_params exl_prog (OLab "L") (OVal (Some (Some 1)))).
  { right. exists "L"%string. split; [reflexivity|vm_compute; reflexivity]. }
  assert (Heq : forall vs, Forall2 (oval_rel exq_params exl_prog) vs vs).
  { induction vs as [|v vs IH]; constructor; [left; reflexivity|exact IH]. }
  unfold exl_src_log, exl_tgt_log.
  apply (LR_step exq_params exl_prog 0 _ _ _ []); [constructor|apply Heq|].
  apply (LR_step exq_params exl_prog 2 _ _ _ [_]); [apply Hset; reflexivity|apply Heq|].
  apply (LR_step exq_params exl_prog 3 _ _ _ [_]); [apply Hset; reflexivity| |].
  { constructor; [left; reflexivity|]. constructor; [left; reflexivity|]. constructor; [exact Hlab|constructor]. }
  apply (LR_step exq_params exl_prog 2 _ _ _ [_]); [apply Hset; reflexivity|apply Heq|].
  apply (LR_step exq_params exl_prog 3 _ _ _ [_]); [apply Hset; reflexivity| |].
  { constructor; [left; reflexivity|]. constructor; [left; reflexivity|]. constructor; [exact Hlab|constructor]. }
  apply (LR_step exq_params exl_prog 4 _ _ _ []); [constructor|apply Heq|].
  constructor.
Qed.

(* the transfer corollaries apply: "an instruction other than a set reads a
   register outside the register file" is never true of a set and does not depend
   on label resolution; no executed instruction of exl_prog does it, hence none
   of the assembled program *)
Definition exl_bad (mn : string) (vs : list oval) : bool :=
  negb (String.eqb mn SET) && existsb (fun v => match v with OVal None => true | _ => false end) vs.

Lemma exl_bad_set vs : exl_bad SET vs = false.
Proof. reflexivity. Qed.

Lemma exl_bad_resolve pr P mn vs vs' :
  Forall2 (oval_rel pr P) vs vs' -> exl_bad mn vs' = true -> exl_bad mn vs = true.
Proof.
  intros HF. unfold exl_bad. destruct (negb (String.eqb mn SET)); [|intros H; exact H]. cbn [andb].
  induction HF as [|a b l l' Hab HF IH]; [intros H; exact H|].
  cbn [existsb]. intros H. apply orb_true_iff in H as [H|H]; apply orb_true_iff.
  - left. destruct Hab as [->|[l0 [-> Hb]]]; [exact H|].
    destruct (label_pos P l0); subst b; discriminate H.
  - right. apply IH. exact H.
Qed.

Example assemble_no_bad_example :
  exists T, assemble_ir exq_params exl_prog = AOk T /\
  exists m t, arun_q T m (QRun 0 (init_qstate 0 [])) = QHalted t /\
    (forall e, In e (alog_q T m (QRun 0 (init_qstate 0 []))) -> exl_bad (snd (fst e)) (snd e) = false).
Proof.
  eexists. split; [vm_compute; reflexivity|].
  assert (Hh : exists s, arun_q exl_prog 7 (QRun 0 (init_qstate 0 [])) = QHalted s)
    by (eexists; vm_compute; reflexivity).
  destruct Hh as [s Hs].
  assert (Hl : alog_q exl_prog 7 (QRun 0 (init_qstate 0 [])) = exl_src_log) by (vm_compute; reflexivity).
  destruct (assemble_halts_no_bad_q exq_params exl_prog _ exl_bad
              ltac:(vm_compute; reflexivity) ltac:(vm_compute; reflexivity) ltac:(vm_compute; reflexivity)
              ltac:(vm_compute; reflexivity) exl_bad_set (exl_bad_resolve _ _)
              7%nat _ _ s (eqv_q_refl _ _ (init_qstate 0 [])) Hs) as [m [t [H1 [_ H2]]]].
  - rewrite Hl. intros e Hin. unfold exl_src_log in Hin.
    repeat (destruct Hin as [<-|Hin]; [vm_compute; reflexivity|]). contradiction.
  - exists m, t. split; [exact H1|exact H2].
Qed.
