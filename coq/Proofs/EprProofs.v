(* EprProofs.v — theorems about Exec/Epr.v (C12): every interleaving of requests,
   responses, retries, polls and frees, by induction over arbitrary event lists. *)
From Coq Require Import ZArith List Bool Lia Permutation Sorted.
From NQ Require Import Exec.Qmem Proofs.QmemProofs Exec.Epr.
Import ListNotations.
Open Scope Z_scope.

(* ------------------------------------------------------------------ one response against the head request *)
(* what the state looks like after response r was handled against request q as pair k *)
Definition handled_as (s : state) (r : resp) (q : req) (k : nat) (s' : state) : Prop :=
  let app := q_app q in
  exists l,
    aget pair_eqb (app, q_res q) (arrs s) = Some l /\ ((k + 1) * OK_FIELDS <= List.length l)%nat /\
    reqs s' = dec_first (matches (node s) r) (reqs s) /\
    arrs s' = aset pair_eqb (app, q_res q) (write_from l (k * OK_FIELDS) (map Some (info_of r))) (arrs s) /\
    log s' = (r_id r, q_id q, k) :: log s /\
    pend s' = pend s /\ node s' = node s /\ subs s' = subs s /\ next_sid s' = next_sid s /\
    next_req s' = next_req s /\ next_resp s' = next_resp s /\ issued s' = issued s /\
    (if r_k r
     then exists qa lq v um i,
         q_qarr q = Some qa /\ aget pair_eqb (app, qa) (arrs s) = Some lq /\ nth_error lq k = Some (Some v) /\
         aget Z.eqb app (ums s) = Some um /\
         has_virtual um v = false /\ slot (List.length um) v = Slot i /\
         nth_error um i = Some None /\
         ums s' = aset Z.eqb app (set_nth um i (Some (r_q r))) (ums s) /\ used s' = add2 (0, r_q r) (used s)
     else ums s' = ums s /\ used s' = used s).

Lemma try_handle_handled s r s' :
  try_handle s r = Handled s' ->
  exists q, find (matches (node s) r) (reqs s) = Some q /\ True /\
            handled_as s r q (q_tot q - q_left q) s'.
Proof.
  unfold try_handle. destruct (find (matches (node s) r) (reqs s)) as [q|] eqn:Ef; [|discriminate].
  intros H. exists q. split; [reflexivity|]. split; [exact I|].
  set (k := (q_tot q - q_left q)%nat) in *. cbn zeta in H.
  assert (FIN : forall u us,
             match aget pair_eqb (q_app q, q_res q) (arrs s) with
             | None => HFault EResSlice
             | Some l =>
                 if Nat.leb ((k + 1) * OK_FIELDS) (List.length l)
                 then Handled (with_handled s (dec_first (matches (node s) r) (reqs s))
                                            (aset pair_eqb (q_app q, q_res q) (write_from l (k * OK_FIELDS) (map Some (info_of r))) (arrs s))
                                            u us (r_id r, q_id q, k))
                 else HFault EResSlice
             end = Handled s' ->
             exists l, aget pair_eqb (q_app q, q_res q) (arrs s) = Some l /\ ((k + 1) * OK_FIELDS <= List.length l)%nat /\
                       s' = with_handled s (dec_first (matches (node s) r) (reqs s))
                                         (aset pair_eqb (q_app q, q_res q) (write_from l (k * OK_FIELDS) (map Some (info_of r))) (arrs s))
                                         u us (r_id r, q_id q, k)).
  { intros u us. destruct (aget pair_eqb (q_app q, q_res q) (arrs s)) as [l|]; [|discriminate].
    destruct (Nat.leb ((k + 1) * OK_FIELDS) (List.length l)) eqn:El; [|discriminate].
    intros H'. inversion H'. exists l. split; [reflexivity|]. split; [apply Nat.leb_le; exact El | reflexivity]. }
  unfold handled_as. cbn zeta. destruct (r_k r).
  - destruct (q_qarr q) as [qa|] eqn:Eqa; [|discriminate].
    destruct (aget pair_eqb (q_app q, qa) (arrs s)) as [lq|] eqn:Eq; [|discriminate].
    destruct (nth_error lq k) as [[v|]|] eqn:En; try discriminate.
    destruct (aget Z.eqb (q_app q) (ums s)) as [um|] eqn:Eum; [|discriminate].
    destruct (has_virtual um v) eqn:Eh; [discriminate|].
    destruct (slot (List.length um) v) as [i| |] eqn:Es; try discriminate.
    destruct (nth_error um i) as [[p|]|] eqn:Eu; try discriminate.
    destruct (FIN _ _ H) as (l & H1 & H2 & ->). exists l. cbn.
    repeat (split; [first [assumption | reflexivity]|]). exists qa, lq, v, um, i. repeat split; auto.
  - destruct (FIN _ _ H) as (l & H1 & H2 & ->). exists l. cbn.
    repeat (split; [first [assumption | reflexivity]|]). split; reflexivity.
Qed.

(* NotNow = no outstanding request for (remote, purpose, role), or a keep response whose
   virtual qubit is still allocated *)
Lemma try_handle_notnow s r :
  try_handle s r = NotNow ->
  find (matches (node s) r) (reqs s) = None \/
  (exists q qa lq v um, find (matches (node s) r) (reqs s) = Some q /\ r_k r = true /\ q_qarr q = Some qa /\
                        aget pair_eqb (q_app q, qa) (arrs s) = Some lq /\
                        nth_error lq (q_tot q - q_left q) = Some (Some v) /\
                        aget Z.eqb (q_app q) (ums s) = Some um /\ has_virtual um v = true).
Proof.
  unfold try_handle. destruct (find (matches (node s) r) (reqs s)) as [q|] eqn:Ef; [|auto].
  intros H. right. cbn zeta in H.
  assert (FIN : forall u us,
             match aget pair_eqb (q_app q, q_res q) (arrs s) with
             | None => HFault EResSlice
             | Some l =>
                 if Nat.leb ((q_tot q - q_left q + 1) * OK_FIELDS) (List.length l)
                 then Handled (with_handled s (dec_first (matches (node s) r) (reqs s))
                                            (aset pair_eqb (q_app q, q_res q) (write_from l ((q_tot q - q_left q) * OK_FIELDS) (map Some (info_of r))) (arrs s))
                                            u us (r_id r, q_id q, (q_tot q - q_left q)%nat))
                 else HFault EResSlice
             end <> NotNow).
  { intros u us. destruct (aget pair_eqb (q_app q, q_res q) (arrs s)) as [l|]; [|discriminate].
    destruct (Nat.leb _ (List.length l)); discriminate. }
  destruct (r_k r) eqn:Ek; [|exfalso; exact (FIN _ _ H)].
  destruct (q_qarr q) as [qa|] eqn:Eqa; [|discriminate].
  destruct (aget pair_eqb (q_app q, qa) (arrs s)) as [lq|] eqn:Eq; [|discriminate].
  destruct (nth_error lq (q_tot q - q_left q)) as [[v|]|] eqn:En; try discriminate.
  destruct (aget Z.eqb (q_app q) (ums s)) as [um|] eqn:Eum; [|discriminate].
  destruct (has_virtual um v) eqn:Eh.
  - exists q, qa, lq, v, um. repeat split; auto.
  - destruct (slot (List.length um) v) as [i| |]; try discriminate.
    destruct (nth_error um i) as [[p|]|]; try discriminate. exfalso. exact (FIN _ _ H).
Qed.

(* ------------------------------------------------------------------ the scan: first handleable response wins *)
Lemma scan_hit s l r s' rest :
  scan s l = SHit r s' rest ->
  exists l1 l2, l = l1 ++ r :: l2 /\ rest = l1 ++ l2 /\ try_handle s r = Handled s' /\
                Forall (fun x => try_handle s x = NotNow) l1.
Proof.
  revert rest. induction l as [|x t IH]; cbn [scan]; intros rest H; [discriminate|].
  destruct (try_handle s x) as [s1| |e] eqn:Ex.
  - inversion H; subst. exists []. eexists. repeat split; eauto.
  - destruct (scan s t) as [|r1 s1 t1|e] eqn:Et; try discriminate.
    inversion H; subst. destruct (IH _ eq_refl) as (l1 & l2 & -> & -> & H1 & H2).
    exists (x :: l1), l2. repeat split; auto.
  - discriminate.
Qed.

Lemma scan_none s l : scan s l = SNone -> Forall (fun x => try_handle s x = NotNow) l.
Proof.
  induction l as [|x t IH]; cbn [scan]; intros H; [constructor|].
  destruct (try_handle s x) eqn:Ex; try discriminate.
  destruct (scan s t) eqn:Et; try discriminate. constructor; auto.
Qed.

(* one iteration of _handle_pending_epr_responses that handles something *)
Definition hit (s s2 : state) : Prop :=
  exists r s' l1 l2,
    pend s = l1 ++ r :: l2 /\ Forall (fun x => try_handle s x = NotNow) l1 /\
    try_handle s r = Handled s' /\ s2 = set_pend s' (l1 ++ l2).

Lemma hit_length s s2 : hit s s2 -> S (List.length (pend s2)) = List.length (pend s).
Proof.
  intros (r & s' & l1 & l2 & E & _ & _ & ->). cbn [set_pend pend]. rewrite E, !app_length. cbn. lia.
Qed.

(* handle_pending_terminates: |pending| + 1 units of fuel are never exhausted *)
Theorem handle_pending_terminates fuel s :
  (List.length (pend s) < fuel)%nat -> handle_pending fuel s <> OutOfFuel.
Proof.
  revert s. induction fuel as [|f IH]; intros s L; [lia|]. cbn [handle_pending].
  destruct (scan s (pend s)) as [|r s' rest|e] eqn:Es; try discriminate.
  apply IH. destruct (scan_hit _ _ _ _ _ Es) as (l1 & l2 & E & -> & _ & _).
  cbn [set_pend pend]. rewrite E in L. rewrite app_length in *. cbn in L. lia.
Qed.

Theorem handle_all_terminates s : handle_all s <> OutOfFuel.
Proof. apply handle_pending_terminates. lia. Qed.

(* whatever is preserved by a hit is preserved by the whole drain, and the drain ends
   quiescent: no pending response can be handled any more *)
Lemma handle_pending_ind (P : state -> Prop) :
  (forall s s2, P s -> hit s s2 -> P s2) ->
  forall fuel s s', P s -> handle_pending fuel s = Quiet s' ->
                    P s' /\ Forall (fun x => try_handle s' x = NotNow) (pend s').
Proof.
  intros HP. induction fuel as [|f IH]; intros s s' Ps H; [discriminate|]. cbn [handle_pending] in H.
  destruct (scan s (pend s)) as [|r s1 rest|e] eqn:Es; try discriminate.
  - inversion H; subst. split; [exact Ps | apply scan_none; exact Es].
  - destruct (scan_hit _ _ _ _ _ Es) as (l1 & l2 & E & -> & H1 & H2).
    assert (HH : hit s (set_pend s1 (l1 ++ l2))) by (exists r, s1, l1, l2; repeat split; auto).
    exact (IH _ _ (HP s _ Ps HH) H).
Qed.

(* ------------------------------------------------------------------ how a step is built *)
Definition arrive (s : state) (r : resp) : state :=
  mkSt (node s) (reqs s)
       (pend s ++ [mkResp (next_resp s) (r_k r) (r_remote r) (r_purpose r) (r_flag r) (r_q r) (r_cid r) (r_seq r)
                          (r_good r) (r_x r) (r_bell r)])
       (arrs s) (ums s) (used s) (subs s) (next_sid s) (next_req s) (S (next_resp s)) (log s) (issued s).

(* a property preserved by the five elementary changes is preserved by every fault-free step *)
Lemma step_preserves (P : state -> Prop) :
  (forall s s2, P s -> hit s s2 -> P s2) ->
  (forall s r, P s -> P (arrive s r)) ->
  (forall s app k c qa res n ar ws, (1 <= n)%nat -> P s -> P (enqueue s app k c qa res n ar ws)) ->
  (forall s x, P s -> P (set_subs s x)) ->
  (forall s ar u us sid, P s -> P (frame s ar u us sid)) ->
  forall s e s', P s -> step s e = (s', None) -> P s'.
Proof.
  intros Hhit Harr Henq Hsub Hfr s e s' Ps H.
  assert (Hdrain : forall s0 s1, P s1 -> of_pres s0 (handle_all s1) = (s', None) -> P s').
  { intros s0 s1 P1 H1. unfold of_pres in H1. destruct (handle_all s1) as [s2| |] eqn:E; inversion H1; subst.
    exact (proj1 (handle_pending_ind P Hhit _ _ _ P1 E)). }
  assert (Hpoll : forall s1 sid, P s1 -> poll s1 sid = (s', None) -> P s').
  { intros s1 sid P1 H1. unfold poll in H1. destruct (aget Z.eqb sid (subs s1)) as [[app ws]|]; [|discriminate].
    destruct (advance (app_arrs (arrs s1) app) ws) as [[|w ws']|]; inversion H1; subst; apply Hsub; exact P1. }
  destruct e as [app n|app|app k tpk vs n qarr args res ws|app k vs n qarr res ws|app k tpk vs n qarr args res
                |r| |sid|app v|app v]; cbn [step] in H.
  - destruct (registered s app); inversion H; subst. apply Hfr. exact Ps.
  - destruct (aget Z.eqb app (ums s)) as [um|]; inversion H; subst. apply Hfr. exact Ps.
  - destruct (registered s app); cbn [negb] in H; [|discriminate].
    destruct (Nat.eqb n 0) eqn:En; cbn [orb] in H; [discriminate|].
    destruct (tpk && negb (Nat.eqb (List.length vs) n)); [discriminate|].
    apply Nat.eqb_neq in En. eapply Hpoll; [|exact H]. apply Henq; [lia | exact Ps].
  - destruct (registered s app); cbn [negb] in H; [|discriminate].
    destruct (Nat.eqb n 0) eqn:En; [discriminate|].
    apply Nat.eqb_neq in En. eapply Hpoll; [|exact H]. apply Henq; [lia | exact Ps].
  - destruct (registered s app); cbn [negb] in H; [|discriminate].
    destruct (Nat.eqb n 0 || tpk && negb (Nat.eqb (List.length vs) n)); [discriminate|].
    inversion H; subst. apply Hfr. exact Ps.
  - eapply Hdrain; [|exact H]. apply (Harr s r Ps).
  - eapply Hdrain; [|exact H]. exact Ps.
  - eapply Hpoll; eauto.
  - destruct (aget Z.eqb app (ums s)) as [um|]; [|discriminate].
    destruct (slot (List.length um) v) as [i| |]; try discriminate.
    destruct (nth_error um i) as [[p|]|]; inversion H; subst. apply Hfr. exact Ps.
  - destruct (aget Z.eqb app (ums s)) as [um|]; [|discriminate].
    destruct (slot (List.length um) v) as [i| |]; try discriminate.
    destruct (nth_error um i) as [[p|]|]; try discriminate.
    destruct (first_unused 0 (used s)) as [p|]; inversion H; subst. apply Hfr. exact Ps.
Qed.

Lemma run_preserves (P : state -> Prop) :
  (forall s e s', P s -> step s e = (s', None) -> P s') ->
  forall es s s', P s -> run s es = Some s' -> P s'.
Proof.
  intros HP. induction es as [|e t IH]; cbn [run]; intros s s' Ps H; [inversion H; subst; exact Ps|].
  destruct (step s e) as [s1 [x|]] eqn:E; [discriminate|]. exact (IH _ _ (HP _ _ _ Ps E) H).
Qed.

(* what a hit does to the ghost components *)
Lemma hit_facts s s2 :
  hit s s2 ->
  exists r q l1 l2,
    pend s = l1 ++ r :: l2 /\ pend s2 = l1 ++ l2 /\
    Forall (fun x => try_handle s x = NotNow) l1 /\
    find (matches (node s) r) (reqs s) = Some q /\ True /\
    reqs s2 = dec_first (matches (node s) r) (reqs s) /\
    log s2 = (r_id r, q_id q, (q_tot q - q_left q)%nat) :: log s /\
    next_resp s2 = next_resp s /\ next_req s2 = next_req s /\ issued s2 = issued s /\ node s2 = node s /\
    subs s2 = subs s.
Proof.
  intros (r & s' & l1 & l2 & E & F & T & ->).
  destruct (try_handle_handled _ _ _ T) as (q & Hf & Ha & (l & H1 & H2 & H3 & H4 & H5 & H6 & H7 & H8 & H9 & H10 & H11 & H12 & _)).
  exists r, q, l1, l2. cbn [set_pend pend reqs log next_resp next_req issued node subs]. repeat split; auto.
Qed.

(* ------------------------------------------------------------------ exactly_once *)
Definition rid (e : nat * nat * nat) : nat := fst (fst e).
Definition qid (e : nat * nat * nat) : nat := snd (fst e).
Definition pidx (e : nat * nat * nat) : nat := snd e.

(* every response that ever arrived is either still pending or was consumed, exactly once *)
Definition exactly_once (s : state) : Prop :=
  Permutation (map r_id (pend s) ++ map rid (log s)) (seq 0 (next_resp s)).

Lemma exactly_once_step s e s' : exactly_once s -> step s e = (s', None) -> exactly_once s'.
Proof.
  apply (step_preserves exactly_once); clear; unfold exactly_once.
  - intros s s2 H HH. destruct (hit_facts _ _ HH) as (r & q & l1 & l2 & E & E2 & _ & _ & _ & _ & EL & EN & _).
    rewrite E2, EL, EN. rewrite E in H. cbn [map rid fst]. rewrite map_app in *. cbn [map] in H.
    eapply Permutation_trans; [|exact H].
    rewrite <- !app_assoc. apply Permutation_app_head. cbn [app].
    apply Permutation_sym. apply Permutation_cons_app. apply Permutation_refl.
  - intros s r H. cbn [arrive pend log next_resp]. rewrite map_app. cbn [map r_id].
    rewrite seq_S. cbn [plus]. rewrite <- app_assoc.
    eapply Permutation_trans; [apply Permutation_app_head; apply Permutation_app_comm|].
    rewrite app_assoc. apply Permutation_app_tail. exact H.
  - intros s ap k c qa res n ar ws _ H. exact H.
  - intros s x H. exact H.
  - intros s ar u us sid H. exact H.
Qed.

Theorem exactly_once_run nd es s : run (init_state nd) es = Some s -> exactly_once s.
Proof.
  apply (run_preserves exactly_once exactly_once_step). unfold exactly_once. cbn. constructor.
Qed.

(* ------------------------------------------------------------------ dec_first = decrement / pop the first match *)
Definition dec_left (q : req) : req :=
  mkReq (q_id q) (q_key q) (q_creator q) (q_sid q) (q_app q) (q_res q) (q_qarr q) (q_tot q) (pred (q_left q)).

Lemma dec_first_spec f l :
  (find f l = None /\ dec_first f l = l) \/
  (exists l1 q l2, l = l1 ++ q :: l2 /\ find f l = Some q /\ Forall (fun x => f x = false) l1 /\ f q = true /\
                   dec_first f l = l1 ++ (if Nat.leb 2 (q_left q) then [dec_left q] else []) ++ l2).
Proof.
  induction l as [|x t IH]; cbn [find dec_first]; [left; auto|].
  destruct (f x) eqn:Ex.
  - right. exists [], x, t. repeat split; auto. cbn [app].
    destruct (q_left x) as [|[|m]] eqn:El; cbn [Nat.leb]; try reflexivity.
    unfold dec_left. rewrite El. reflexivity.
  - destruct IH as [[H1 H2]|(l1 & q & l2 & -> & H1 & H2 & H3 & H4)].
    + left. rewrite H1, H2. auto.
    + right. exists (x :: l1), q, l2. rewrite H1, H4. repeat split; auto.
Qed.

(* the head of a queue is its oldest outstanding request: first match in issue order *)
Definition ids_ok (s : state) : Prop :=
  StronglySorted lt (map q_id (reqs s)) /\ Forall (fun q => (q_id q < next_req s)%nat) (reqs s).

Lemma sorted_app_inv (l1 l2 : list nat) x :
  StronglySorted lt (l1 ++ x :: l2) ->
  StronglySorted lt (l1 ++ l2) /\ Forall (fun y => (y < x)%nat) l1 /\ Forall (fun y => (x < y)%nat) l2.
Proof.
  induction l1 as [|a l1 IH]; cbn [app]; intros H.
  - apply StronglySorted_inv in H. destruct H as [H1 H2]. repeat split; auto.
  - apply StronglySorted_inv in H. destruct H as [H1 H2]. destruct (IH H1) as (I1 & I2 & I3).
    rewrite Forall_app in H2. destruct H2 as [H2a H2b]. inversion H2b; subst.
    split; [|split; [constructor; auto | exact I3]].
    constructor; [exact I1|]. rewrite Forall_app. split; auto.
Qed.

Lemma sorted_app_replace (l1 l2 : list nat) x :
  StronglySorted lt (l1 ++ x :: l2) -> StronglySorted lt (l1 ++ [x] ++ l2).
Proof. auto. Qed.

Lemma ids_ok_step s e s' : ids_ok s -> step s e = (s', None) -> ids_ok s'.
Proof.
  apply (step_preserves ids_ok); clear; unfold ids_ok.
  - intros s s2 [S F] HH. destruct (hit_facts _ _ HH) as (r & q & l1 & l2 & _ & _ & _ & Hf & _ & ER & _ & _ & EN & _).
    rewrite ER, EN. destruct (dec_first_spec (matches (node s) r) (reqs s)) as [[_ ->]|(m1 & q' & m2 & E & _ & _ & _ & ->)]; [auto|].
    rewrite E in S, F. rewrite map_app in S. cbn [map] in S. rewrite Forall_app in F. destruct F as [F1 F2].
    inversion F2 as [|? ? Fq F2']; subst.
    destruct (Nat.leb 2 (q_left q')); cbn [app].
    + split; [rewrite map_app; cbn [map dec_left q_id]; exact S|]. rewrite Forall_app. split; [exact F1|]. constructor; auto.
    + split; [rewrite map_app; exact (proj1 (sorted_app_inv _ _ _ S))|]. rewrite Forall_app. auto.
  - intros s r H. exact H.
  - intros s ap k c qa res n ar ws _ [S F]. cbn [enqueue reqs next_req]. split.
    + rewrite map_app. cbn [map q_id].
      assert (G : forall l : list nat, StronglySorted lt l -> Forall (fun y => (y < next_req s)%nat) l ->
                                       StronglySorted lt (l ++ [next_req s])).
      { induction l as [|a l IH]; cbn [app]; intros SS FF; [constructor; constructor|].
        apply StronglySorted_inv in SS. destruct SS as [S1 S2]. inversion FF; subst.
        constructor; [apply IH; auto|]. rewrite Forall_app. split; [exact S2 | constructor; auto]. }
      apply G; [exact S|]. rewrite Forall_map. exact F.
    + rewrite Forall_app. split.
      * eapply Forall_impl; [|exact F]. cbn. intros a Ha. lia.
      * constructor; [cbn; lia | constructor].
  - intros s x H. exact H.
  - intros s ar u us sid H. exact H.
Qed.

Lemma ids_ok_init nd : ids_ok (init_state nd).
Proof. split; cbn; constructor. Qed.

(* refines_fifo, part 1: the request charged is the OLDEST outstanding request of the
   response's (remote, purpose, role) *)
Theorem head_is_oldest s r q :
  ids_ok s -> find (matches (node s) r) (reqs s) = Some q ->
  In q (reqs s) /\ matches (node s) r q = true /\
  forall q', In q' (reqs s) -> matches (node s) r q' = true -> (q_id q <= q_id q')%nat.
Proof.
  intros [S _] Hf.
  destruct (dec_first_spec (matches (node s) r) (reqs s)) as [[H _]|(l1 & q0 & l2 & E & H & F1 & Hm & _)]; [congruence|].
  assert (q0 = q) by congruence. subst q0. rewrite E in *. split; [apply in_or_app; right; left; reflexivity|].
  split; [exact Hm|]. intros q' Hin Hm'. rewrite map_app in S. cbn [map] in S.
  destruct (sorted_app_inv _ _ _ S) as (_ & _ & G2).
  apply in_app_or in Hin. destruct Hin as [Hin|[<-|Hin]].
  - rewrite Forall_forall in F1. rewrite (F1 _ Hin) in Hm'. discriminate.
  - lia.
  - rewrite Forall_forall in G2. specialize (G2 (q_id q') (in_map q_id _ _ Hin)). lia.
Qed.

(* ------------------------------------------------------------------ counting pairs *)
Definition count (id : nat) (lg : list (nat * nat * nat)) : nat :=
  List.length (filter (fun e => Nat.eqb (qid e) id) lg).

(* pair index of every consumed response = number of responses charged to the same
   request before it: a request's pairs are filled 0, 1, 2, ... in arrival order *)
Fixpoint log_ok (lg : list (nat * nat * nat)) : Prop :=
  match lg with
  | [] => True
  | e :: t => pidx e = count (qid e) t /\ log_ok t
  end.

Definition counts_ok (s : state) : Prop :=
  ids_ok s /\
  Forall (fun e => (qid e < next_req s)%nat) (log s) /\
  Forall (fun q => (1 <= q_left q <= q_tot q)%nat /\ (count (q_id q) (log s) + q_left q = q_tot q)%nat) (reqs s) /\
  log_ok (log s).

Lemma count_cons e id lg :
  count id (e :: lg) = if Nat.eqb (qid e) id then S (count id lg) else count id lg.
Proof. unfold count. cbn [filter]. destruct (Nat.eqb (qid e) id); reflexivity. Qed.

Lemma count_zero id lg : Forall (fun e => (qid e < id)%nat) lg -> count id lg = O.
Proof.
  induction 1 as [|e t H _ IH]; [reflexivity|]. rewrite count_cons.
  destruct (Nat.eqb (qid e) id) eqn:E; [apply Nat.eqb_eq in E; lia | exact IH].
Qed.

Lemma counts_ok_hit s s2 : counts_ok s -> hit s s2 -> counts_ok s2.
Proof.
  intros (I & B & C & L) HH.
  assert (I2 : ids_ok s2).
  { destruct HH as (r & s' & l1 & l2 & E & F & T & ->).
    assert (HH : hit s (set_pend s' (l1 ++ l2))) by (exists r, s', l1, l2; auto).
    revert HH. generalize (set_pend s' (l1 ++ l2)). intros s2 HH.
    destruct (hit_facts _ _ HH) as (r0 & q & m1 & m2 & _ & _ & _ & Hf & _ & ER & _ & _ & EN & _).
    destruct I as [S Fq]. unfold ids_ok. rewrite ER, EN.
    destruct (dec_first_spec (matches (node s) r0) (reqs s)) as [[_ ->]|(n1 & q' & n2 & E' & _ & _ & _ & ->)]; [auto|].
    rewrite E' in S, Fq. rewrite map_app in S. cbn [map] in S. rewrite Forall_app in Fq. destruct Fq as [F1 F2].
    inversion F2 as [|? ? Fq' F2']; subst.
    destruct (Nat.leb 2 (q_left q')); cbn [app].
    + split; [rewrite map_app; cbn [map dec_left q_id]; exact S|]. rewrite Forall_app. split; [exact F1|]. constructor; auto.
    + split; [rewrite map_app; exact (proj1 (sorted_app_inv _ _ _ S))|]. rewrite Forall_app. auto. }
  split; [exact I2|].
  destruct (hit_facts _ _ HH) as (r & q & l1 & l2 & _ & _ & _ & Hf & _ & ER & EL & _ & EN & _).
  destruct (head_is_oldest s r q I Hf) as (Hin & _ & _).
  rewrite Forall_forall in C. destruct (C q Hin) as [Hq1 Hq2].
  destruct I as [S Fq]. rewrite EL, EN, ER.
  split; [|split].
  + constructor; [|exact B]. cbn [qid fst snd]. rewrite Forall_forall in Fq. exact (Fq q Hin).
  + destruct (dec_first_spec (matches (node s) r) (reqs s)) as [[Hn _]|(m1 & q' & m2 & E & Hf' & _ & _ & ->)]; [congruence|].
    assert (q' = q) by congruence. subst q'.
    rewrite E in S. rewrite map_app in S. cbn [map] in S. destruct (sorted_app_inv _ _ _ S) as (_ & G1 & G2).
    assert (OTH : forall x, In x m1 \/ In x m2 ->
                            (1 <= q_left x <= q_tot x)%nat /\
                            (count (q_id x) ((r_id r, q_id q, (q_tot q - q_left q)%nat) :: log s) + q_left x = q_tot x)%nat).
    { intros x Hx. assert (Hx' : In x (reqs s)) by (rewrite E; apply in_or_app; destruct Hx; [left|right; right]; auto).
      destruct (C x Hx') as [X1 X2]. split; [exact X1|]. rewrite count_cons. cbn [qid fst snd].
      destruct (Nat.eqb (q_id q) (q_id x)) eqn:Ee; [|exact X2]. apply Nat.eqb_eq in Ee. exfalso.
      rewrite Forall_forall in G1, G2. destruct Hx as [Hx|Hx].
      - specialize (G1 _ (in_map q_id _ _ Hx)). lia.
      - specialize (G2 _ (in_map q_id _ _ Hx)). lia. }
    apply Forall_forall. intros x Hx. apply in_app_or in Hx. destruct Hx as [Hx|Hx]; [apply OTH; auto|].
    apply in_app_or in Hx. destruct Hx as [Hx|Hx]; [|apply OTH; auto].
    destruct (Nat.leb 2 (q_left q)) eqn:E2; [|destruct Hx]. destruct Hx as [<-|[]].
    apply Nat.leb_le in E2. cbn [dec_left q_left q_tot q_id]. rewrite count_cons. cbn [qid fst snd].
    rewrite Nat.eqb_refl. split; lia.
  + cbn [log_ok pidx qid fst snd]. split; [lia | exact L].
Qed.

Lemma counts_ok_step s e s' : counts_ok s -> step s e = (s', None) -> counts_ok s'.
Proof.
  apply (step_preserves counts_ok); clear.
  - intros s s2 H HH. exact (counts_ok_hit s s2 H HH).
  - intros s r H. exact H.
  - intros s ap k c qa res n ar ws Hn (I & B & C & L).
    assert (I2 : ids_ok (enqueue s ap k c qa res n ar ws)).
    { destruct I as [S F]. unfold ids_ok. cbn [enqueue reqs next_req]. split.
      + rewrite map_app. cbn [map q_id].
        assert (G : forall l : list nat, StronglySorted lt l -> Forall (fun y => (y < next_req s)%nat) l ->
                                         StronglySorted lt (l ++ [next_req s])).
        { induction l as [|a l IH]; cbn [app]; intros SS FF; [constructor; constructor|].
          apply StronglySorted_inv in SS. destruct SS as [S1 S2]. inversion FF; subst.
          constructor; [apply IH; auto|]. rewrite Forall_app. split; [exact S2 | constructor; auto]. }
        apply G; [exact S|]. rewrite Forall_map. exact F.
      + rewrite Forall_app. split.
        * eapply Forall_impl; [|exact F]. cbn. intros a Ha. lia.
        * constructor; [cbn; lia | constructor]. }
    split; [exact I2|]. cbn [enqueue reqs next_req log]. split; [|split; [|exact L]].
    + eapply Forall_impl; [|exact B]. cbn. intros a Ha. lia.
    + rewrite Forall_app. split; [exact C|]. constructor; [|constructor]. cbn [q_left q_tot q_id].
      rewrite (count_zero _ _ B). split; lia.
  - intros s x H. exact H.
  - intros s ar u us sid H. exact H.
Qed.

Lemma counts_ok_init nd : counts_ok (init_state nd).
Proof. split; [apply ids_ok_init|]. cbn. repeat split; constructor. Qed.

Theorem counts_ok_run nd es s : run (init_state nd) es = Some s -> counts_ok s.
Proof. apply (run_preserves counts_ok counts_ok_step). apply counts_ok_init. Qed.

(* refines_fifo, part 2, and retire_exact: a handled response is charged to the head
   request as pair number (pairs already consumed by that request); the request leaves the
   queue exactly when this was its last pair *)
Theorem hit_charges_head s s2 :
  counts_ok s -> hit s s2 ->
  exists r q,
    In r (pend s) /\ find (matches (node s) r) (reqs s) = Some q /\
    (forall q', In q' (reqs s) -> matches (node s) r q' = true -> (q_id q <= q_id q')%nat) /\
    log s2 = (r_id r, q_id q, count (q_id q) (log s)) :: log s /\
    (count (q_id q) (log s) < q_tot q)%nat /\
    ((count (q_id q) (log s2) = q_tot q)%nat <-> ~ exists q', In q' (reqs s2) /\ q_id q' = q_id q).
Proof.
  intros CO HH. pose proof (counts_ok_step) as _. destruct CO as (I & B & C & L).
  destruct (hit_facts _ _ HH) as (r & q & l1 & l2 & E & _ & _ & Hf & _ & ER & EL & _).
  destruct (head_is_oldest s r q I Hf) as (Hin & _ & Hold).
  rewrite Forall_forall in C. destruct (C q Hin) as [Hq1 Hq2].
  exists r, q. split; [rewrite E; apply in_or_app; right; left; reflexivity|]. split; [exact Hf|]. split; [exact Hold|].
  assert (Ek : (q_tot q - q_left q = count (q_id q) (log s))%nat) by lia.
  split; [rewrite EL, Ek; reflexivity|]. split; [lia|].
  rewrite EL, ER, count_cons. cbn [qid fst snd]. rewrite Nat.eqb_refl.
  destruct (dec_first_spec (matches (node s) r) (reqs s)) as [[Hn _]|(m1 & q' & m2 & E' & Hf' & _ & _ & ->)]; [congruence|].
  assert (q' = q) by congruence. subst q'.
  destruct I as [S _]. rewrite E' in S. rewrite map_app in S. cbn [map] in S. destruct (sorted_app_inv _ _ _ S) as (_ & G1 & G2).
  rewrite Forall_forall in G1, G2.
  destruct (Nat.leb 2 (q_left q)) eqn:E2.
  - apply Nat.leb_le in E2. split; [lia|]. intros N. exfalso. apply N. exists (dec_left q). split; [|reflexivity].
    apply in_or_app. right. left. reflexivity.
  - apply Nat.leb_gt in E2. split; [|lia]. intros _ (x & Hx & Hid). cbn [app] in Hx.
    apply in_app_or in Hx. destruct Hx as [Hx|Hx].
    + specialize (G1 _ (in_map q_id _ _ Hx)). lia.
    + specialize (G2 _ (in_map q_id _ _ Hx)). lia.
Qed.

(* ------------------------------------------------------------------ slice_k, qubit_k, no_overwrite *)
Lemma agetZ_aset {V} k k' (a : V) l :
  aget Z.eqb k' (aset Z.eqb k a l) = if Z.eqb k' k then Some a else aget Z.eqb k' l.
Proof.
  unfold aset. cbn [aget]. destruct (Z.eqb k' k) eqn:E; [reflexivity|].
  unfold adel. induction l as [|[k0 v0] l IH]; cbn [filter aget fst]; [reflexivity|].
  destruct (Z.eqb k k0) eqn:E0; cbn [negb].
  - apply Z.eqb_eq in E0. subst k0. rewrite E. exact IH.
  - cbn [aget]. destruct (Z.eqb k' k0); [reflexivity | exact IH].
Qed.

Lemma write_from_below {A} (xs : list A) : forall l i j,
  (j < i)%nat -> nth_error (write_from l i xs) j = nth_error l j.
Proof.
  induction xs as [|x t IH]; cbn [write_from]; intros l i j H; [reflexivity|].
  rewrite IH by lia. apply nth_error_set_nth_other. lia.
Qed.

Lemma write_from_at {A} (xs : list A) : forall l i j,
  (i + List.length xs <= List.length l)%nat -> (j < List.length xs)%nat ->
  nth_error (write_from l i xs) (i + j) = nth_error xs j.
Proof.
  induction xs as [|x t IH]; cbn [write_from List.length]; intros l i j H Hj; [lia|].
  destruct j as [|j].
  - rewrite Nat.add_0_r, write_from_below by lia. cbn. apply nth_error_set_nth_same. lia.
  - replace (i + S j)%nat with (S i + j)%nat by lia. rewrite IH; [reflexivity | rewrite length_set_nth; lia | lia].
Qed.

(* what a handled response leaves behind *)
Theorem hit_effect s s2 :
  hit s s2 ->
  exists r q,
    let k := (q_tot q - q_left q)%nat in
    let app := q_app q in
    find (matches (node s) r) (reqs s) = Some q /\
    log s2 = (r_id r, q_id q, k) :: log s /\
    (* slice_k: pair k fills slice k of that request's result array (of the request's
       application) with the response; no other array changes *)
    (exists l2, aget pair_eqb (app, q_res q) (arrs s2) = Some l2 /\
                forall j, (j < OK_FIELDS)%nat ->
                          nth_error l2 (k * OK_FIELDS + j) = nth_error (map Some (info_of r)) j) /\
    (forall key, key <> (app, q_res q) -> aget pair_eqb key (arrs s2) = aget pair_eqb key (arrs s)) /\
    (* qubit_k + no_overwrite: a keep response maps the request's k-th virtual qubit in the
       unit module of the request's application, which was not allocated, to the delivered
       physical qubit; no other slot and no other application's unit module changes *)
    (r_k r = true ->
     exists qa lq v um um2 i,
       q_qarr q = Some qa /\ aget pair_eqb (app, qa) (arrs s) = Some lq /\ nth_error lq k = Some (Some v) /\
       aget Z.eqb app (ums s) = Some um /\ aget Z.eqb app (ums s2) = Some um2 /\
       slot (List.length um) v = Slot i /\ nth_error um i = Some None /\
       nth_error um2 i = Some (Some (r_q r)) /\
       (forall j, j <> i -> nth_error um2 j = nth_error um j) /\
       (forall app', app' <> app -> aget Z.eqb app' (ums s2) = aget Z.eqb app' (ums s))) /\
    (r_k r = false -> ums s2 = ums s).
Proof.
  intros (r & s' & l1 & l2 & E & F & T & ->).
  destruct (try_handle_handled _ _ _ T) as (q & Hf & Ha & (l & H1 & H2 & H3 & H4 & H5 & _ & _ & _ & _ & _ & _ & _ & HK)).
  exists r, q. cbn zeta. cbn [set_pend log arrs ums]. split; [exact Hf|]. split; [exact H5|].
  split; [|split; [|split]].
  - rewrite H4, aget_aset, pair_eqb_refl. eexists. split; [reflexivity|]. intros j Hj.
    apply write_from_at; rewrite map_length; unfold info_of, OK_FIELDS in *; destruct (r_k r); cbn [List.length] in *; lia.
  - intros key NE. rewrite H4, aget_aset. destruct (pair_eqb key (q_app q, q_res q)) eqn:Ek; [|reflexivity].
    apply pair_eqb_eq in Ek. contradiction.
  - intros Ek. rewrite Ek in HK. destruct HK as (qa & lq & v & um & i & K1 & K2 & K3 & K4 & K5 & K6 & K7 & K8 & _).
    exists qa, lq, v, um, (set_nth um i (Some (r_q r))), i.
    split; [exact K1|]. split; [exact K2|]. split; [exact K3|]. split; [exact K4|].
    split; [rewrite K8, agetZ_aset, Z.eqb_refl; reflexivity|]. split; [exact K6|]. split; [exact K7|].
    split; [apply nth_error_set_nth_same; eapply nth_error_lt; eauto|].
    split; [intros j Hj; apply nth_error_set_nth_other; auto|].
    intros app' NE. rewrite K8, agetZ_aset. destruct (Z.eqb app' (q_app q)) eqn:Ea; [|reflexivity].
    apply Z.eqb_eq in Ea. contradiction.
  - intros Ek. rewrite Ek in HK. exact (proj1 HK).
Qed.

(* a response that is not handled although its request is there is a keep response whose
   virtual qubit is still allocated: it is deferred, and the state is left as it is *)
Theorem deferred_only_when_busy s r q :
  try_handle s r = NotNow -> find (matches (node s) r) (reqs s) = Some q ->
  r_k r = true /\ exists qa lq v um, q_qarr q = Some qa /\ aget pair_eqb (q_app q, qa) (arrs s) = Some lq /\
                                     nth_error lq (q_tot q - q_left q) = Some (Some v) /\
                                     aget Z.eqb (q_app q) (ums s) = Some um /\ has_virtual um v = true.
Proof.
  intros H Hf. destruct (try_handle_notnow _ _ H) as [Hn|(q' & qa & lq & v & um & Hf' & Hk & H1 & H2 & H3 & H4 & H5)]; [congruence|].
  assert (q' = q) by congruence. subst q'. split; [exact Hk|]. exists qa, lq, v, um. auto.
Qed.

(* after the drain nothing more can be done: every pending response lacks a request or is deferred *)
Theorem drain_quiescent s s' :
  handle_all s = Quiet s' -> Forall (fun x => try_handle s' x = NotNow) (pend s').
Proof.
  intros H. exact (proj2 (handle_pending_ind (fun _ => True) (fun _ _ _ _ => I) _ _ _ I H)).
Qed.

(* ------------------------------------------------------------------ wait_sound *)
Definition defined_at (l : list (option Z)) (i : nat) : Prop := exists x, nth_error l i = Some (Some x).

(* the awaited entries, as the instruction's text says *)
Definition wait_holds (ar : list (Z * list (option Z))) (w : wspec) : Prop :=
  match w with
  | WAll a lo hi => exists l, aget Z.eqb a ar = Some l /\
                              forall i, (lo <= i < hi)%nat -> (i < List.length l)%nat -> defined_at l i
  | WAny a lo hi => exists l i, aget Z.eqb a ar = Some l /\ (lo <= i < hi)%nat /\ defined_at l i
  | WSingle a i => exists l, aget Z.eqb a ar = Some l /\ defined_at l i
  end.

Lemma In_pyslice {A} (l : list A) : forall lo hi x,
  In x (pyslice l lo hi) <-> exists i, (lo <= i < hi)%nat /\ nth_error l i = Some x.
Proof.
  unfold pyslice. induction l as [|a t IH]; intros lo hi x.
  - rewrite skipn_nil, firstn_nil. split; [intros [] | intros (i & _ & H); destruct i; discriminate].
  - destruct lo as [|lo].
    + cbn [skipn]. rewrite Nat.sub_0_r. destruct hi as [|hi].
      * cbn. split; [intros [] | intros (i & Hi & _); lia].
      * cbn [firstn In]. specialize (IH O hi x). cbn [skipn] in IH. rewrite Nat.sub_0_r in IH. rewrite IH. split.
        -- intros [->|(i & Hi & H)]; [exists O; split; [lia | reflexivity] | exists (S i); split; [lia | exact H]].
        -- intros ([|i] & Hi & H); cbn in H; [inversion H; auto | right; exists i; split; [lia | exact H]].
    + cbn [skipn]. destruct hi as [|hi].
      * cbn. split; [intros [] | intros (i & Hi & _); lia].
      * replace (S hi - S lo)%nat with (hi - lo)%nat by lia. rewrite (IH lo hi x). split.
        -- intros (i & Hi & H). exists (S i). split; [lia | exact H].
        -- intros ([|i] & Hi & H); [lia|]. exists i. split; [lia | exact H].
Qed.

Lemma wait_done_sound ar w : wait_done ar w = Some true -> wait_holds ar w.
Proof.
  destruct w as [a lo hi|a lo hi|a i]; cbn [wait_done wait_holds];
    destruct (aget Z.eqb a ar) as [l|]; try discriminate; intros H.
  - inversion H as [H1]. exists l. split; [reflexivity|]. intros i Hi Hl.
    destruct (nth_error l i) as [x|] eqn:E; [|apply nth_error_None in E; lia].
    rewrite forallb_forall in H1. specialize (H1 x (proj2 (In_pyslice l lo hi x) (ex_intro _ i (conj Hi E)))).
    destruct x as [y|]; [exists y; exact E | discriminate].
  - inversion H as [H1]. apply existsb_exists in H1. destruct H1 as (x & Hx & Hs).
    apply In_pyslice in Hx. destruct Hx as (i & Hi & E). destruct x as [y|]; [|discriminate].
    exists l, i. split; [reflexivity|]. split; [exact Hi | exists y; exact E].
  - destruct (nth_error l i) as [[y|]|] eqn:E; try discriminate. exists l. split; [reflexivity | exists y; exact E].
Qed.

Lemma wait_done_complete ar w : wait_done ar w = Some false -> ~ wait_holds ar w.
Proof.
  destruct w as [a lo hi|a lo hi|a i]; cbn [wait_done wait_holds];
    destruct (aget Z.eqb a ar) as [l|]; try discriminate; intros H.
  - inversion H as [H1]. intros (l' & El & Hall). inversion El; subst l'.
    assert (C : forallb is_some (pyslice l lo hi) = true).
    { apply forallb_forall. intros x Hx. apply In_pyslice in Hx. destruct Hx as (i & Hi & E).
      destruct (Hall i Hi (nth_error_lt _ _ _ E)) as [y Hy]. rewrite Hy in E. inversion E. reflexivity. }
    congruence.
  - inversion H as [H1]. intros (l' & i & El & Hi & [y Hy]). inversion El; subst l'.
    assert (C : existsb is_some (pyslice l lo hi) = true).
    { apply existsb_exists. exists (Some y). split; [apply In_pyslice; exists i; auto | reflexivity]. }
    congruence.
  - destruct (nth_error l i) as [[y|]|] eqn:E; try discriminate. intros (l' & El & [y Hy]). inversion El; subst l'. congruence.
Qed.

(* wait_sound: a subroutine gets past exactly those wait instructions whose awaited entries
   are defined, and stays blocked in front of one whose entries are not *)
Theorem wait_sound ar ws ws' :
  advance ar ws = Some ws' ->
  exists passed, ws = passed ++ ws' /\ Forall (wait_holds ar) passed /\
                 match ws' with [] => True | w :: _ => ~ wait_holds ar w end.
Proof.
  revert ws'. induction ws as [|w t IH]; cbn [advance]; intros ws' H.
  - inversion H. exists []. repeat split; constructor.
  - destruct (wait_done ar w) as [[|]|] eqn:E; [|inversion H; subst|discriminate].
    + destruct (IH _ H) as (p & -> & F & B). exists (w :: p). repeat split; auto.
      constructor; [apply wait_done_sound; exact E | exact F].
    + exists []. repeat split; [constructor|]. apply wait_done_complete. exact E.
Qed.

(* ------------------------------------------------------------------ the environment contract is needed *)
Definition demo_resp (k : bool) (flag cid q : Z) : resp := mkResp 0 k 1 0 flag q cid cid 50 7 1.

(* (ii) the issuing subroutine need not be alive any more (the request carries its
   application since fix 24473e3): a request whose subroutine has ended (no wait after
   create_epr) still consumes its response -- slice written, qubit mapped, request retired *)
Theorem issuer_may_have_ended :
  exists s s', run (init_state 0) [Init 0 2; Create 0 (1, 0) true [0] 1 0 1 2 []] = Some s /\
               List.length (reqs s) = 1%nat /\ subs s = [] /\
               step s (Resp (demo_resp true 0 1 101)) = (s', None) /\
               reqs s' = [] /\ pend s' = [] /\ log s' = [(0, 0, 0)%nat] /\ ums s' = [(0, [Some 101; None])] /\
               option_map (fun l => nth_error l 2) (aget pair_eqb (0, 2) (arrs s')) = Some (Some (Some 101)).
Proof. eexists. eexists. vm_compute. repeat split; reflexivity. Qed.

(* (iii) type_consistent: a measure-directly response is accepted for a create-and-keep
   request: the pair is consumed, its slice is written, but no qubit is mapped *)
Theorem type_mismatch_refuted :
  exists s, run (init_state 0) [Init 0 2; Create 0 (1, 0) true [0] 1 0 1 2 [WAll 2 0 10]; Resp (demo_resp false 0 1 1)] = Some s /\
            log s = [(0, 0, 0)%nat] /\ reqs s = [] /\ ums s = [(0, [None; None])].
Proof. eexists. vm_compute. repeat split; reflexivity. Qed.

(* ------------------------------------------------------------------ retire_exact, with persistence *)
(* every request ever issued is either still queued (under its serial number, with its
   number of pairs) or has been charged exactly its number of pairs *)
Definition accounted (s : state) : Prop :=
  forall id tot, In (id, tot) (issued s) ->
    (id < next_req s)%nat /\
    ((exists q, In q (reqs s) /\ q_id q = id /\ q_tot q = tot) \/
     ((forall q, In q (reqs s) -> q_id q <> id) /\ count id (log s) = tot)).

Definition retired_ok (s : state) : Prop := counts_ok s /\ accounted s.

Lemma in_dec_first f l x :
  In x (dec_first f l) -> exists y, In y l /\ q_id y = q_id x /\ q_tot y = q_tot x.
Proof.
  destruct (dec_first_spec f l) as [[_ ->]|(l1 & q & l2 & -> & _ & _ & _ & ->)]; [intros H; exists x; auto|].
  intros H. apply in_app_or in H. destruct H as [H|H]; [exists x; split; [apply in_or_app; auto | auto]|].
  apply in_app_or in H. destruct H as [H|H].
  - destruct (Nat.leb 2 (q_left q)); [|destruct H]. destruct H as [<-|[]].
    exists q. split; [apply in_or_app; right; left; reflexivity | auto].
  - exists x. split; [apply in_or_app; right; right; exact H | auto].
Qed.

Lemma same_id_same_req s a b :
  ids_ok s -> In a (reqs s) -> In b (reqs s) -> q_id a = q_id b -> a = b.
Proof.
  intros [S _] Ha Hb E. apply in_split in Ha. destruct Ha as (m1 & m2 & Em).
  rewrite Em in S, Hb. rewrite map_app in S. cbn [map] in S. destruct (sorted_app_inv _ _ _ S) as (_ & G1 & G2).
  rewrite Forall_forall in G1, G2. apply in_app_or in Hb. destruct Hb as [Hq|[Hq|Hq]].
  - specialize (G1 _ (in_map q_id _ _ Hq)). lia.
  - exact Hq.
  - specialize (G2 _ (in_map q_id _ _ Hq)). lia.
Qed.

Lemma retired_ok_hit s s2 : retired_ok s -> hit s s2 -> retired_ok s2.
Proof.
  intros [CO AC] HH. split; [exact (counts_ok_hit s s2 CO HH)|].
  destruct (hit_charges_head s s2 CO HH) as (r & q & _ & Hf & _ & EL & Hlt & Hret).
  pose proof CO as (I & B & C & L).
  destruct (hit_facts _ _ HH) as (r0 & q0 & l1 & l2 & _ & _ & _ & Hf0 & _ & ER & EL0 & _ & EN & EI & _).
  destruct (head_is_oldest s r q I Hf) as (Hin & _ & _). destruct (head_is_oldest s r0 q0 I Hf0) as (Hin0 & _ & _).
  assert (q0 = q).
  { rewrite EL in EL0. inversion EL0 as [[E1 E2 E3]]. apply (same_id_same_req s q0 q I Hin0 Hin). auto. }
  subst q0. clear Hin0.
  intros id tot Hi. rewrite EI in Hi. destruct (AC id tot Hi) as [Hb Hc]. rewrite EN. split; [exact Hb|].
  destruct (Nat.eq_dec id (q_id q)) as [->|NE].
  - (* the request that was charged *)
    assert (Ht : tot = q_tot q).
    { destruct Hc as [(x & Hx & Hxi & Hxt)|[Hn _]]; [|exfalso; exact (Hn q Hin eq_refl)].
      rewrite (same_id_same_req s x q I Hx Hin Hxi) in Hxt. auto. }
    subst tot.
    rewrite ER.
    destruct (dec_first_spec (matches (node s) r0) (reqs s)) as [[Hn0 _]|(m1 & q' & m2 & E' & Hf' & _ & _ & EE)]; [congruence|].
    assert (q' = q) by congruence. subst q'.
    destruct (Nat.leb 2 (q_left q)) eqn:E2.
    + left. exists (dec_left q). rewrite EE. split; [apply in_or_app; right; left; reflexivity|].
      cbn [dec_left q_id q_tot]. auto.
    + right.
      assert (NX : ~ exists q'0, In q'0 (reqs s2) /\ q_id q'0 = q_id q).
      { intros (x & Hx & Hxi). rewrite ER, EE in Hx. cbn [app] in Hx.
        destruct I as [S _]. rewrite E' in S. rewrite map_app in S. cbn [map] in S.
        destruct (sorted_app_inv _ _ _ S) as (_ & G1 & G2). rewrite Forall_forall in G1, G2.
        apply in_app_or in Hx. destruct Hx as [Hx|Hx].
        - specialize (G1 _ (in_map q_id _ _ Hx)). lia.
        - specialize (G2 _ (in_map q_id _ _ Hx)). lia. }
      split; [|apply Hret; exact NX]. intros x Hx Hxi. apply NX. exists x. rewrite ER. auto.
  - (* any other request: untouched *)
    rewrite EL, count_cons. cbn [qid fst snd]. destruct (Nat.eqb (q_id q) id) eqn:Ee; [apply Nat.eqb_eq in Ee; congruence|].
    destruct Hc as [(x & Hx & Hxi & Hxt)|[Hn Hcnt]].
    + left. rewrite ER.
      destruct (dec_first_spec (matches (node s) r0) (reqs s)) as [[_ ->]|(m1 & q' & m2 & E' & Hf' & _ & _ & ->)]; [eauto|].
      assert (q' = q) by congruence. subst q'. exists x. split; [|auto].
      rewrite E' in Hx. apply in_app_or in Hx. destruct Hx as [Hx|[Hx|Hx]].
      * apply in_or_app. auto.
      * subst x. congruence.
      * apply in_or_app. right. apply in_or_app. auto.
    + right. split; [|exact Hcnt]. intros x Hx Hxi. rewrite ER in Hx.
      destruct (in_dec_first _ _ _ Hx) as (y & Hy & Hyi & _). apply (Hn y Hy). congruence.
Qed.

Lemma retired_ok_step s e s' : retired_ok s -> step s e = (s', None) -> retired_ok s'.
Proof.
  apply (step_preserves retired_ok); clear.
  - exact retired_ok_hit.
  - intros s r H. exact H.
  - intros s ap k c qa res n ar ws Hn [CO AC].
    split.
    + (* counts_ok of the enqueued state: through counts_ok_step on a Recv-free path is awkward; redo directly *)
      destruct CO as (I & B & C & L).
      assert (I2 : ids_ok (enqueue s ap k c qa res n ar ws)).
      { destruct I as [S F]. unfold ids_ok. cbn [enqueue reqs next_req]. split.
        + rewrite map_app. cbn [map q_id].
          assert (G : forall l : list nat, StronglySorted lt l -> Forall (fun y => (y < next_req s)%nat) l ->
                                           StronglySorted lt (l ++ [next_req s])).
          { induction l as [|a l IH]; cbn [app]; intros SS FF; [constructor; constructor|].
            apply StronglySorted_inv in SS. destruct SS as [S1 S2]. inversion FF; subst.
            constructor; [apply IH; auto|]. rewrite Forall_app. split; [exact S2 | constructor; auto]. }
          apply G; [exact S|]. rewrite Forall_map. exact F.
        + rewrite Forall_app. split.
          * eapply Forall_impl; [|exact F]. cbn. intros a Ha. lia.
          * constructor; [cbn; lia | constructor]. }
      split; [exact I2|]. cbn [enqueue reqs next_req log]. split; [|split; [|exact L]].
      * eapply Forall_impl; [|exact B]. cbn. intros a Ha. lia.
      * rewrite Forall_app. split; [exact C|]. constructor; [|constructor]. cbn [q_left q_tot q_id].
        rewrite (count_zero _ _ B). split; lia.
    + intros id tot Hi. cbn [enqueue issued reqs next_req log] in *. destruct Hi as [Hi|Hi].
      * inversion Hi; subst. split; [lia|]. left. eexists. split; [apply in_or_app; right; left; reflexivity|]. cbn. auto.
      * destruct (AC id tot Hi) as [Hb Hc]. split; [lia|]. destruct Hc as [(x & Hx & Hxi & Hxt)|[Hn0 Hcnt]].
        -- left. exists x. split; [apply in_or_app; auto | auto].
        -- right. split; [|exact Hcnt]. intros x Hx. apply in_app_or in Hx. destruct Hx as [Hx|[<-|[]]]; [auto | cbn; lia].
  - intros s x H. exact H.
  - intros s ar u us sid H. exact H.
Qed.

Lemma retired_ok_init nd : retired_ok (init_state nd).
Proof. split; [apply counts_ok_init | intros id tot []]. Qed.

(* retire_exact: after any event list, a request that has been issued and is no longer
   outstanding has consumed exactly its number of pairs -- and this stays so *)
Theorem retire_exact nd es s id tot :
  run (init_state nd) es = Some s -> In (id, tot) (issued s) ->
  (forall q, In q (reqs s) -> q_id q <> id) -> count id (log s) = tot.
Proof.
  intros R Hi Hn.
  destruct (run_preserves retired_ok retired_ok_step es _ _ (retired_ok_init nd) R) as [_ AC].
  destruct (AC id tot Hi) as [_ [(x & Hx & Hxi & _)|[_ H]]]; [exfalso; exact (Hn x Hx Hxi) | exact H].
Qed.

(* ------------------------------------------------------------------ a refused request leaves nothing behind *)
(* network_stack.put raising inside create_epr: the subroutine ends there; the request queues,
   the pending list, the consumption log, the waiting subroutines and the unit module are
   exactly as before the instruction (only the arrays the subroutine declared exist) *)
Theorem put_fault_leaves_queues_unchanged s app k tpk vs n qarr args res s' :
  step s (CreateRefused app k tpk vs n qarr args res) = (s', None) ->
  reqs s' = reqs s /\ pend s' = pend s /\ log s' = log s /\ subs s' = subs s /\ ums s' = ums s /\
  issued s' = issued s /\ next_req s' = next_req s /\
  forall k' c, queue s' k' c = queue s k' c.
Proof.
  cbn [step]. destruct (registered s app); cbn [negb]; [|discriminate].
  destruct (Nat.eqb n 0 || tpk && negb (Nat.eqb (List.length vs) n)); [discriminate|].
  intros H. inversion H; subst. cbn. repeat split; reflexivity.
Qed.

(* so a retry after the refusal is the only outstanding request of its key: the responses of
   the accepted request are charged to it (first match of an id-sorted list) *)
Theorem retry_after_refusal_is_head nd app k tpk vs n qarr args res vs2 n2 qarr2 args2 res2 ws s1 s2 s3 r :
  step s1 (CreateRefused app k tpk vs n qarr args res) = (s2, None) ->
  step s2 (Create app k tpk vs2 n2 qarr2 args2 res2 ws) = (s3, None) ->
  node s1 = nd -> find (matches nd r) (reqs s1) = None ->
  matches nd r (mkReq (next_req s1) k true (next_sid s2) app res2 (if tpk then Some qarr2 else None) n2 n2) = true ->
  exists q, find (matches nd r) (reqs s3) = Some q /\ q_res q = res2 /\ q_app q = app /\ q_id q = next_req s1.
Proof.
  intros H1 H2 Hn Hf Hm.
  destruct (put_fault_leaves_queues_unchanged _ _ _ _ _ _ _ _ _ _ H1) as (R & _ & _ & _ & _ & _ & NR & _).
  cbn [step] in H2. destruct (registered s2 app); cbn [negb] in H2; [|discriminate].
  destruct (Nat.eqb n2 0 || tpk && negb (Nat.eqb (List.length vs2) n2)); [discriminate|].
  unfold poll in H2. cbn [enqueue subs next_sid arrs] in H2. rewrite agetZ_aset, Z.eqb_refl in H2.
  assert (RQ : reqs s3 = reqs s2 ++ [mkReq (next_req s2) k true (next_sid s2) app res2 (if tpk then Some qarr2 else None) n2 n2]).
  { destruct (advance _ ws) as [[|w ws']|]; inversion H2; subst; reflexivity. }
  rewrite RQ, R, NR. exists (mkReq (next_req s1) k true (next_sid s2) app res2 (if tpk then Some qarr2 else None) n2 n2).
  split; [|repeat split; reflexivity].
  assert (G : forall l x, find (matches nd r) l = None -> matches nd r x = true -> find (matches nd r) (l ++ [x]) = Some x).
  { induction l as [|a l IH]; cbn [find List.app]; intros x F M; [rewrite M; reflexivity|].
    destruct (matches nd r a); [discriminate | apply IH; assumption]. }
  apply G; assumption.
Qed.

(* ------------------------------------------------------------------ several applications *)
Lemma aget_app_arrs ar app addr :
  aget Z.eqb addr (app_arrs ar app) = aget pair_eqb (app, addr) ar.
Proof.
  unfold app_arrs. induction ar as [|[[a ad] l] t IH]; cbn [flat_map aget fst snd]; [reflexivity|].
  unfold pair_eqb at 1. cbn [fst snd].
  destruct (Z.eqb a app) eqn:Ea.
  - apply Z.eqb_eq in Ea. subst a. rewrite Z.eqb_refl. cbn [List.app aget andb].
    destruct (Z.eqb addr ad); [reflexivity | exact IH].
  - cbn [List.app]. rewrite Z.eqb_sym in Ea. rewrite Ea. cbn [andb]. exact IH.
Qed.

(* registering or stopping an application does not touch the matching bookkeeping: the
   outstanding requests of every application, the pending responses (in particular those
   that arrived early for a request some application has not issued yet), the consumption
   log and the waiting subroutines are exactly as before *)
Theorem lifecycle_leaves_bookkeeping_unchanged s e s' :
  (exists app n, e = Init app n) \/ (exists app, e = Stop app) ->
  step s e = (s', None) ->
  reqs s' = reqs s /\ pend s' = pend s /\ log s' = log s /\ subs s' = subs s /\
  next_req s' = next_req s /\ next_resp s' = next_resp s /\ issued s' = issued s.
Proof.
  intros [(app & n & ->)|(app & ->)]; cbn [step].
  - destruct (registered s app); intros H; inversion H; subst. cbn. repeat split; reflexivity.
  - destruct (aget Z.eqb app (ums s)); intros H; inversion H; subst. cbn. repeat split; reflexivity.
Qed.

(* ... and it leaves the other applications' arrays and unit modules alone *)
Theorem stop_leaves_other_apps s app s' app' :
  step s (Stop app) = (s', None) -> app' <> app ->
  aget Z.eqb app' (ums s') = aget Z.eqb app' (ums s) /\
  forall addr, aget pair_eqb (app', addr) (arrs s') = aget pair_eqb (app', addr) (arrs s).
Proof.
  cbn [step]. destruct (aget Z.eqb app (ums s)) as [um|]; [|discriminate].
  intros H NE. inversion H; subst. cbn [frame ums arrs]. split.
  - clear H. induction (ums s) as [|[a u] t IH]; cbn [adel filter aget fst]; [reflexivity|].
    destruct (Z.eqb app a) eqn:Ea; cbn [negb].
    + apply Z.eqb_eq in Ea. subst a. destruct (Z.eqb app' app) eqn:E2; [apply Z.eqb_eq in E2; contradiction | exact IH].
    + cbn [aget]. destruct (Z.eqb app' a); [reflexivity | exact IH].
  - intros addr. clear H. induction (arrs s) as [|[[a ad] l] t IH]; cbn [filter aget fst snd]; [reflexivity|].
    destruct (Z.eqb a app) eqn:Ea; cbn [negb].
    + apply Z.eqb_eq in Ea. subst a. unfold pair_eqb at 2. cbn [fst snd].
      destruct (Z.eqb app' app) eqn:E2; [apply Z.eqb_eq in E2; contradiction | cbn [andb]; exact IH].
    + cbn [aget]. destruct (pair_eqb (app', addr) (a, ad)); [reflexivity | exact IH].
Qed.
